import Amgcl.Proofs.AmgBuild
import Mathlib.Data.List.Forall2
/-!
`amg::rebuild`: the rebuilt hierarchy is again a chain for the new matrix with the *same* transfer operators,
and a chain is uniquely determined by the system matrix, the transfer operators and the kind of its last level.
-/
namespace Amgcl
namespace Amg

variable {K S : Type} [Add K] [Mul K] [Zero K] [One K]

/-- inner level with retained transfer operators (what `rebuild` needs and preserves); no reference to the
coarsening's `transfer` -/
structure RInner (sm : Relax.Smoother K S) (A : CRS K) (lv : Level K S) (P R : CRS K) : Prop where
  hA : lv.A = some A
  hrows : lv.rows = A.nrows
  hsolve : lv.solve = none
  hrelax : ∃ s, sm.setup A = .ok s ∧ lv.relax = some s
  hP : lv.P = some P
  hR : lv.R = some R
  hbP : lv.bP = some P
  hbR : lv.bR = some R

/-- `RChain op single A ls`: a hierarchy for `A` assembled with the transfer operators stored in its levels -/
inductive RChain (op : CRS K → CRS K → CRS K → CRS K) (sm : Relax.Smoother K S) : Bool → CRS K → List (Level K S) → Prop
  | relaxLast (single : Bool) (A : CRS K) (lv : Level K S) : RelaxLast sm A lv → RChain op sm single A [lv]
  | solveLast (single : Bool) (A : CRS K) (lv : Level K S) : SolveLast A single lv → RChain op sm single A [lv]
  | cons (single : Bool) (A : CRS K) (lv : Level K S) (P R : CRS K) (rest : List (Level K S)) :
      RInner sm A lv P R → rest ≠ [] → RChain op sm false (sortRows (op A P R)) rest →
      RChain op sm single A (lv :: rest)

theorem Chain.toRChain {pol : Policy K} {sm : Relax.Smoother K S} {idx : Nat} {A : CRS K} {ls : List (Level K S)}
    (h : Chain pol sm true idx A ls) : RChain pol.coarseOp sm (idx == 0) A ls := by
  induction h with
  | relaxLast idx A lv h => exact RChain.relaxLast _ A lv h
  | solveLast idx A lv h => exact RChain.solveLast _ A lv h
  | cons idx A lv P R rest h hne _ ih =>
    refine RChain.cons _ A lv P R rest ⟨h.hA, h.hrows, h.hsolve, h.hrelax, h.hP, h.hR, ?_, ?_⟩ hne ?_
    · simpa using h.hbP
    · simpa using h.hbR
    · simpa using ih

/-- two levels carry the same transfer operators and are of the same kind -/
def SameTransfer (l l' : Level K S) : Prop :=
  l.P = l'.P ∧ l.R = l'.R ∧ l.bP = l'.bP ∧ l.bR = l'.bR ∧ l.solve.isSome = l'.solve.isSome ∧
    l.A.isSome = l'.A.isSome ∧ l.relax.isSome = l'.relax.isSome

theorem rebuildLevel_relaxLast {pol : Policy K} {sm : Relax.Smoother K S} {ok : CRS K → Bool}
    {A A' : CRS K} {lv lv' : Level K S} {An : CRS K} (h : RelaxLast sm A lv) (hn : A'.nrows = A.nrows)
    (hr : rebuildLevel pol sm ok lv A' = .ok (lv', An)) : RelaxLast sm A' lv' ∧ SameTransfer lv lv' := by
  obtain ⟨s, _, hs⟩ := h.hrelax
  obtain ⟨rows, lA, lP, lR, lbP, lbR, lsolve, lrelax⟩ := lv
  have e1 := h.hA; have e2 := h.hrows; have e3 := h.hsolve; have e4 := h.hP; have e5 := h.hR
  have e6 := h.hbP; have e7 := h.hbR
  simp only at e1 e2 e3 e4 e5 e6 e7 hs
  subst e1 e3 e4 e5 e6 e7 hs
  unfold rebuildLevel at hr
  cases hset : sm.setup A' with
  | precondition => simp [hset] at hr
  | undefinedInput => simp [hset] at hr
  | ok s' =>
    simp [hset] at hr
    obtain ⟨hr1, _⟩ := hr
    subst hr1
    exact ⟨⟨rfl, by simp [e2, hn], rfl, ⟨s', hset, rfl⟩, rfl, rfl, rfl, rfl⟩, by simp [SameTransfer]⟩

theorem rebuildLevel_solveLast {pol : Policy K} {sm : Relax.Smoother K S} {ok : CRS K → Bool} {single : Bool}
    {A A' : CRS K} {lv lv' : Level K S} {An : CRS K} (h : SolveLast A single lv) (hn : A'.nrows = A.nrows)
    (hr : rebuildLevel pol sm ok lv A' = .ok (lv', An)) : SolveLast A' single lv' ∧ SameTransfer lv lv' := by
  obtain ⟨rows, lA, lP, lR, lbP, lbR, lsolve, lrelax⟩ := lv
  have e1 := h.hA; have e2 := h.hrows; have e3 := h.hsolve; have e4 := h.hP; have e5 := h.hR
  have e6 := h.hbP; have e7 := h.hbR; have e8 := h.hrelax
  simp only at e1 e2 e3 e4 e5 e6 e7 e8
  subst e1 e3 e4 e5 e6 e7 e8
  unfold rebuildLevel at hr
  by_cases hok : ok A'
  · cases single with
    | true =>
      simp [hok] at hr
      obtain ⟨hr1, _⟩ := hr
      subst hr1
      exact ⟨⟨rfl, by simp [e2, hn], rfl, rfl, rfl, rfl, rfl, rfl⟩, by simp [SameTransfer]⟩
    | false =>
      simp [hok] at hr
      obtain ⟨hr1, _⟩ := hr
      subst hr1
      exact ⟨⟨rfl, by simp [e2, hn], rfl, rfl, rfl, rfl, rfl, rfl⟩, by simp [SameTransfer]⟩
  · cases single <;> simp [hok] at hr

theorem rebuildLevel_inner {pol : Policy K} {sm : Relax.Smoother K S} {ok : CRS K → Bool}
    {A A' : CRS K} {lv lv' : Level K S} {P R An : CRS K} (h : RInner sm A lv P R) (hn : A'.nrows = A.nrows)
    (hr : rebuildLevel pol sm ok lv A' = .ok (lv', An)) :
    RInner sm A' lv' P R ∧ SameTransfer lv lv' ∧ An = sortRows (pol.coarseOp A' P R) := by
  obtain ⟨s, _, hs⟩ := h.hrelax
  obtain ⟨rows, lA, lP, lR, lbP, lbR, lsolve, lrelax⟩ := lv
  have e1 := h.hA; have e2 := h.hrows; have e3 := h.hsolve; have e4 := h.hP; have e5 := h.hR
  have e6 := h.hbP; have e7 := h.hbR
  simp only at e1 e2 e3 e4 e5 e6 e7 hs
  subst e1 e3 e4 e5 e6 e7 hs
  unfold rebuildLevel at hr
  cases hset : sm.setup A' with
  | precondition => simp [hset] at hr
  | undefinedInput => simp [hset] at hr
  | ok s' =>
    simp [hset] at hr
    obtain ⟨hr1, hr2⟩ := hr
    subst hr1
    exact ⟨⟨rfl, by simp [e2, hn], rfl, ⟨s', hset, rfl⟩, rfl, rfl, rfl, rfl⟩, by simp [SameTransfer], hr2.symm⟩

/-- **rebuild keeps the transfer operators and re-establishes the chain for the new matrix** -/
theorem rebuildLevels_rchain (pol : Policy K) (sm : Relax.Smoother K S) (ok : CRS K → Bool)
    (hop : ∀ A A' P R : CRS K, A'.nrows = A.nrows → (sortRows (pol.coarseOp A' P R)).nrows = (sortRows (pol.coarseOp A P R)).nrows)
    {single : Bool} {A : CRS K} {ls : List (Level K S)} (h : RChain pol.coarseOp sm single A ls) :
    ∀ (A' : CRS K) (ls' : List (Level K S)), A'.nrows = A.nrows →
      rebuildLevels pol sm ok ls A' = .ok ls' →
      RChain pol.coarseOp sm single A' ls' ∧ List.Forall₂ SameTransfer ls ls' := by
  induction h with
  | relaxLast single A lv hl =>
    intro A' ls' hn hr
    unfold rebuildLevels at hr
    cases hrl : rebuildLevel pol sm ok lv A' with
    | error e => rw [hrl] at hr; cases hr
    | ok res =>
      obtain ⟨lv', An⟩ := res
      rw [hrl] at hr
      simp only [rebuildLevels] at hr
      cases hr
      obtain ⟨h1, h2⟩ := rebuildLevel_relaxLast hl hn hrl
      exact ⟨RChain.relaxLast _ _ _ h1, List.Forall₂.cons h2 List.Forall₂.nil⟩
  | solveLast single A lv hl =>
    intro A' ls' hn hr
    unfold rebuildLevels at hr
    cases hrl : rebuildLevel pol sm ok lv A' with
    | error e => rw [hrl] at hr; cases hr
    | ok res =>
      obtain ⟨lv', An⟩ := res
      rw [hrl] at hr
      simp only [rebuildLevels] at hr
      cases hr
      obtain ⟨h1, h2⟩ := rebuildLevel_solveLast hl hn hrl
      exact ⟨RChain.solveLast _ _ _ h1, List.Forall₂.cons h2 List.Forall₂.nil⟩
  | cons single A lv P R rest hl hne _ ih =>
    intro A' ls' hn hr
    unfold rebuildLevels at hr
    cases hrl : rebuildLevel pol sm ok lv A' with
    | error e => rw [hrl] at hr; cases hr
    | ok res =>
      obtain ⟨lv', An⟩ := res
      rw [hrl] at hr
      simp only at hr
      obtain ⟨h1, h2, h3⟩ := rebuildLevel_inner hl hn hrl
      subst h3
      cases hrest : rebuildLevels pol sm ok rest (sortRows (pol.coarseOp A' P R)) with
      | error e => rw [hrest] at hr; cases hr
      | ok rest' =>
        rw [hrest] at hr
        cases hr
        obtain ⟨g1, g2⟩ := ih _ rest' (hop A A' P R hn) hrest
        have hne' : rest' ≠ [] := by
          intro he; subst he
          cases g2
          exact hne rfl
        exact ⟨RChain.cons _ _ _ P R rest' h1 hne' g1, List.Forall₂.cons h2 g2⟩

theorem RelaxLast.eq {sm : Relax.Smoother K S} {A : CRS K} {lv lv' : Level K S}
    (h : RelaxLast sm A lv) (h' : RelaxLast sm A lv') : lv = lv' := by
  obtain ⟨s, hs1, hs2⟩ := h.hrelax
  obtain ⟨s', hs1', hs2'⟩ := h'.hrelax
  have : s = s' := by rw [hs1] at hs1'; cases hs1'; rfl
  subst this
  obtain ⟨rows, lA, lP, lR, lbP, lbR, lsolve, lrelax⟩ := lv
  obtain ⟨rows', lA', lP', lR', lbP', lbR', lsolve', lrelax'⟩ := lv'
  have e1 := h.hA; have e2 := h.hrows; have e3 := h.hsolve; have e4 := h.hP; have e5 := h.hR
  have e6 := h.hbP; have e7 := h.hbR
  have f1 := h'.hA; have f2 := h'.hrows; have f3 := h'.hsolve; have f4 := h'.hP; have f5 := h'.hR
  have f6 := h'.hbP; have f7 := h'.hbR
  simp only at e1 e2 e3 e4 e5 e6 e7 f1 f2 f3 f4 f5 f6 f7 hs2 hs2'
  subst e1 e2 e3 e4 e5 e6 e7 f1 f2 f3 f4 f5 f6 f7 hs2 hs2'
  rfl

theorem SolveLast.eq {single : Bool} {A : CRS K} {lv lv' : Level K S}
    (h : SolveLast A single lv) (h' : SolveLast A single lv') : lv = lv' := by
  obtain ⟨rows, lA, lP, lR, lbP, lbR, lsolve, lrelax⟩ := lv
  obtain ⟨rows', lA', lP', lR', lbP', lbR', lsolve', lrelax'⟩ := lv'
  have e1 := h.hA; have e2 := h.hrows; have e3 := h.hsolve; have e4 := h.hP; have e5 := h.hR
  have e6 := h.hbP; have e7 := h.hbR; have e8 := h.hrelax
  have f1 := h'.hA; have f2 := h'.hrows; have f3 := h'.hsolve; have f4 := h'.hP; have f5 := h'.hR
  have f6 := h'.hbP; have f7 := h'.hbR; have f8 := h'.hrelax
  simp only at e1 e2 e3 e4 e5 e6 e7 e8 f1 f2 f3 f4 f5 f6 f7 f8
  subst e1 e2 e3 e4 e5 e6 e7 e8 f1 f2 f3 f4 f5 f6 f7 f8
  rfl

theorem RInner.eq {sm : Relax.Smoother K S} {A P R : CRS K} {lv lv' : Level K S}
    (h : RInner sm A lv P R) (h' : RInner sm A lv' P R) : lv = lv' := by
  obtain ⟨s, hs1, hs2⟩ := h.hrelax
  obtain ⟨s', hs1', hs2'⟩ := h'.hrelax
  have : s = s' := by rw [hs1] at hs1'; cases hs1'; rfl
  subst this
  obtain ⟨rows, lA, lP, lR, lbP, lbR, lsolve, lrelax⟩ := lv
  obtain ⟨rows', lA', lP', lR', lbP', lbR', lsolve', lrelax'⟩ := lv'
  have e1 := h.hA; have e2 := h.hrows; have e3 := h.hsolve; have e4 := h.hP; have e5 := h.hR
  have e6 := h.hbP; have e7 := h.hbR
  have f1 := h'.hA; have f2 := h'.hrows; have f3 := h'.hsolve; have f4 := h'.hP; have f5 := h'.hR
  have f6 := h'.hbP; have f7 := h'.hbR
  simp only at e1 e2 e3 e4 e5 e6 e7 f1 f2 f3 f4 f5 f6 f7 hs2 hs2'
  subst e1 e2 e3 e4 e5 e6 e7 f1 f2 f3 f4 f5 f6 f7 hs2 hs2'
  rfl

/-- **a chain is determined by its system matrix, transfer operators and last-level kind** -/
theorem RChain.unique {op : CRS K → CRS K → CRS K → CRS K} {sm : Relax.Smoother K S} {single : Bool} {A : CRS K}
    {ls ls' : List (Level K S)} (h : RChain op sm single A ls) (h' : RChain op sm single A ls')
    (hs : List.Forall₂ SameTransfer ls ls') : ls = ls' := by
  induction h generalizing ls' with
  | relaxLast single A lv hl =>
    cases hs with
    | cons hst hrest =>
      cases hrest
      cases h' with
      | relaxLast _ _ lv' hl' => rw [hl.eq hl']
      | solveLast _ _ lv' hl' =>
        exfalso
        have := hst.2.2.2.2.1
        rw [hl.hsolve, hl'.hsolve] at this; simp at this
      | cons _ _ lv' P R rest hi hne _ => exact absurd rfl hne
  | solveLast single A lv hl =>
    cases hs with
    | cons hst hrest =>
      cases hrest
      cases h' with
      | relaxLast _ _ lv' hl' =>
        exfalso
        have := hst.2.2.2.2.1
        rw [hl.hsolve, hl'.hsolve] at this; simp at this
      | solveLast _ _ lv' hl' => rw [hl.eq hl']
      | cons _ _ lv' P R rest hi hne _ => exact absurd rfl hne
  | cons single A lv P R rest hl hne _ ih =>
    cases hs with
    | cons hst hrest =>
      cases h' with
      | relaxLast _ _ lv' hl' => cases hrest; exact absurd rfl hne
      | solveLast _ _ lv' hl' => cases hrest; exact absurd rfl hne
      | cons _ _ lv' P' R' rest' hl' hne' hc' =>
        have hP : P = P' := by have := hst.1; rw [hl.hP, hl'.hP] at this; exact Option.some.inj this
        have hR : R = R' := by have := hst.2.1; rw [hl.hR, hl'.hR] at this; exact Option.some.inj this
        subst hP; subst hR
        rw [ih hc' hrest, hl.eq hl']

end Amg
end Amgcl
