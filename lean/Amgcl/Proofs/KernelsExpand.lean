import Amgcl.Proofs.KernelsValue
import Amgcl.Model.BlockValue
import Mathlib.Analysis.Matrix.Normed
import Mathlib.Analysis.RCLike.Basic
/-!
# Chunking: an eigenvector of the EXPANDED scalar matrix is a block eigenvector (helper lemmas of `Properties/C08d.lean`)

`Model/BlockValue.expandBlocks` is the scalar matrix a block matrix stands for (block row `I` becomes the `b` scalar rows
`I*b + p`, a stored block `(J, a)` contributes the entries `(J*b + q, a(p,q))`).  `expandWith` is the same text with the entry
reader `a ↦ (p, q) ↦ a(p,q)` as a parameter, so that it can be instantiated at `SMat` (`expandBlocks`, definitional) and at
Mathlib's `Matrix (Fin b) (Fin b) 𝕜`, where the Frobenius norm is a submultiplicative ring norm.

A scalar vector `w` is chunked into the block vector `chunk b w J = [w_J | w_J | … | w_J]` (`b` equal columns, the column
being `(w (J*b), …, w (J*b + b-1))`); blocks act on it by the matrix product, and the Frobenius norm of `chunk b w J` is
`√b` times the Euclidean norm of the chunk, so "Frobenius on blocks / Euclidean on chunks" is the consistent pair
(`‖a·y‖₂ ≤ ‖a‖_F ‖y‖₂`) the bound rests on.
-/
namespace Amgcl.KX
open Amgcl

/-- `expandBlocks` with the entry reader as a parameter -/
def expandWith {V K : Type} (entry : V → Nat → Nat → K) (b : Nat) (A : CRS V) : CRS K :=
  { ncols := A.ncols * b,
    rows := Array.ofFn (n := A.nrows * b) fun i =>
      (A.row (i.val / b)).flatMap fun cv => (List.range b).map fun q => (cv.1 * b + q, entry cv.2 (i.val % b) q) }

theorem expandBlocks_eq_expandWith {K : Type} [Zero K] {b : Nat} (A : CRS (SMat K b b)) :
    expandBlocks A = expandWith (fun v p q => v.get p q) b A := rfl

/-- the block-diagonal matrix `diag(f 0, …, f (n-1))` as a CRS matrix of blocks -/
def blockDiag {V : Type} (n : Nat) (f : Nat → V) : CRS V :=
  { ncols := n, rows := Array.ofFn (n := n) fun I => [(I.val, f I.val)] }

theorem blockDiag_row {V : Type} (n : Nat) (f : Nat → V) (I : Nat) (hI : I < n) :
    (blockDiag n f).row I = [(I, f I)] := by
  simp [blockDiag, CRS.row, hI]

section
open Matrix
attribute [local instance] Matrix.frobeniusSeminormedAddCommGroup Matrix.frobeniusNormedAddCommGroup
  Matrix.frobeniusNormedSpace Matrix.frobeniusNormedRing Matrix.frobeniusNormedAlgebra
variable {𝕜 : Type} [RCLike 𝕜] {b : Nat}

/-- the entry reader of a Mathlib block -/
def entry (a : Matrix (Fin b) (Fin b) 𝕜) (p q : Nat) : 𝕜 :=
  if h : p < b ∧ q < b then a ⟨p, h.1⟩ ⟨q, h.2⟩ else 0

/-- the scalar SpMV row: `sum += a.value() * x[a.col()]` over the stored entries -/
def scalarRowDot (r : Row 𝕜) (w : Nat → 𝕜) : 𝕜 := (r.map (fun cv => cv.2 * w cv.1)).sum

/-- chunk `J` of a scalar vector, replicated into `b` equal columns -/
def chunk (b : Nat) (w : Nat → 𝕜) (J : Nat) : Matrix (Fin b) (Fin b) 𝕜 := fun r _ => w (J * b + r.val)

theorem expand_row (A : CRS (Matrix (Fin b) (Fin b) 𝕜)) (I : Nat) (hI : I < A.nrows) (p : Fin b) :
    (expandWith entry b A).row (I * b + p.val) =
      (A.row I).flatMap fun cv => (List.range b).map fun q => (cv.1 * b + q, entry cv.2 p.val q) := by
  have hb : 0 < b := Nat.pos_of_ne_zero (fun h => by subst h; exact p.elim0)
  have hlt : I * b + p.val < A.nrows * b := by
    calc I * b + p.val < I * b + b := Nat.add_lt_add_left p.isLt _
      _ = (I + 1) * b := by rw [Nat.succ_mul]
      _ ≤ A.nrows * b := Nat.mul_le_mul_right _ hI
  have hdiv : (I * b + p.val) / b = I := by
    rw [Nat.mul_comm, Nat.mul_add_div hb, Nat.div_eq_of_lt p.isLt, Nat.add_zero]
  have hmod : (I * b + p.val) % b = p.val := by
    rw [Nat.mul_comm, Nat.mul_add_mod, Nat.mod_eq_of_lt p.isLt]
  unfold expandWith CRS.row
  simp only [Array.getD_eq_getD_getElem?]
  rw [Array.getElem?_ofFn]
  simp only [hlt, dite_true, Option.getD_some, hdiv, hmod]

theorem range_sum_eq (f : Nat → 𝕜) (n : Nat) : ((List.range n).map f).sum = ∑ q : Fin n, f q.val := by
  rw [Fin.sum_univ_eq_sum_range f n]
  induction n with
  | zero => simp
  | succ n ih => rw [List.range_succ, List.map_append, List.sum_append, ih, Finset.sum_range_succ]; simp

/-- **chunking, row form**: the scalar row `I*b + p` of the expanded matrix applied to `w` is entry `(p, c)` (any column
`c`) of the block row `I` applied to the chunked vector -/
theorem expand_rowDot (A : CRS (Matrix (Fin b) (Fin b) 𝕜)) (w : Nat → 𝕜) (I : Nat) (hI : I < A.nrows) (p c : Fin b) :
    scalarRowDot ((expandWith entry b A).row (I * b + p.val)) w
      = (KV.blockRowDot (V := Matrix (Fin b) (Fin b) 𝕜) (E := Matrix (Fin b) (Fin b) 𝕜) (A.row I) (chunk b w)) p c := by
  rw [expand_row A I hI p]
  unfold scalarRowDot KV.blockRowDot
  induction A.row I with
  | nil => simp
  | cons cv t ih =>
    rw [List.flatMap_cons, List.map_append, List.sum_append, ih, List.map_cons, List.sum_cons, Matrix.add_apply]
    congr 1
    rw [List.map_map, range_sum_eq, smul_eq_mul, Matrix.mul_apply]
    refine Finset.sum_congr rfl (fun q _ => ?_)
    simp [entry, chunk, p.isLt, q.isLt]

end

end Amgcl.KX
