import Amgcl.Model.Kernels
import Amgcl.Proofs.RowGet
import Amgcl.Proofs.KernelsSaad3
/-! `backend::transpose`: the counting transpose denotes the (adjoint) transpose. -/
namespace Amgcl
open Finset

section
variable {K : Type}

/-- the entries that row `i` of `A` contributes to bucket `c` -/
def trContrib (adj : K → K) (A : CRS K) (c i : Nat) : Row K :=
  (A.row i).filterMap (fun cv => if cv.1 = c then some (i, adj cv.2) else none)

theorem tr_inner (adj : K → K) (i : Nat) (row : Row K) (b : Array (Row K)) (c : Nat) (hc : c < b.size) :
    let b' := row.foldl (fun (b : Array (Row K)) cv => b.modify cv.1 (fun r => r ++ [(i, adj cv.2)])) b
    b'.size = b.size ∧ b'.getD c [] = b.getD c [] ++
      row.filterMap (fun cv => if cv.1 = c then some (i, adj cv.2) else none) := by
  induction row generalizing b with
  | nil => simp
  | cons cv t ih =>
    simp only [List.foldl_cons]
    have hs : (b.modify cv.1 (fun r => r ++ [(i, adj cv.2)])).size = b.size := Array.size_modify
    obtain ⟨h1, h2⟩ := ih (b.modify cv.1 (fun r => r ++ [(i, adj cv.2)])) (by rw [hs]; exact hc)
    refine ⟨by rw [h1, hs], ?_⟩
    rw [h2]
    have hget : (b.modify cv.1 (fun r => r ++ [(i, adj cv.2)])).getD c [] =
        if cv.1 = c then b.getD c [] ++ [(i, adj cv.2)] else b.getD c [] := by
      simp only [Array.getD_eq_getD_getElem?, Array.getElem?_modify]
      split
      · next h => subst h; simp [Array.getElem?_eq_getElem hc]
      · rfl
    rw [hget, List.filterMap_cons]
    split <;> simp

theorem tr_outer (adj : K → K) (A : CRS K) (m k : Nat) (c : Nat) (hc : c < m) :
    let b := (List.range k).foldl (fun (b : Array (Row K)) i =>
      (A.row i).foldl (fun (b : Array (Row K)) cv => b.modify cv.1 (fun r => r ++ [(i, adj cv.2)])) b)
      (Array.replicate m [])
    b.size = m ∧ b.getD c [] = (List.range k).flatMap (trContrib adj A c) := by
  induction k with
  | zero => simp [Array.getD, hc]
  | succ k ih =>
    obtain ⟨h1, h2⟩ := ih
    simp only [foldl_range_succ]
    obtain ⟨g1, g2⟩ := tr_inner adj k (A.row k) _ c (by rw [h1]; exact hc)
    refine ⟨by rw [g1, h1], ?_⟩
    rw [g2, h2, List.range_succ, List.flatMap_append]
    simp [trContrib]

theorem transpose_row (adj : K → K) (A : CRS K) (c : Nat) (hc : c < A.ncols) :
    (transpose adj A).row c = (List.range A.nrows).flatMap (trContrib adj A c) :=
  (tr_outer adj A A.ncols A.nrows c hc).2

theorem tr_size (adj : K → K) (A : CRS K) (l : List Nat) (b : Array (Row K)) :
    (l.foldl (fun (b : Array (Row K)) i =>
      (A.row i).foldl (fun (b : Array (Row K)) cv => b.modify cv.1 (fun r => r ++ [(i, adj cv.2)])) b) b).size
      = b.size := by
  induction l generalizing b with
  | nil => rfl
  | cons i t ih =>
    simp only [List.foldl_cons]
    rw [ih]
    have : ∀ (row : Row K) (b : Array (Row K)),
        (row.foldl (fun (b : Array (Row K)) cv => b.modify cv.1 (fun r => r ++ [(i, adj cv.2)])) b).size = b.size := by
      intro row
      induction row with
      | nil => intro b; rfl
      | cons cv t ih2 => intro b; simp only [List.foldl_cons]; rw [ih2]; exact Array.size_modify
    exact this _ _

theorem transpose_nrows (adj : K → K) (A : CRS K) : (transpose adj A).nrows = A.ncols := by
  unfold transpose CRS.nrows
  simp only
  rw [tr_size]; simp

end

section
variable {K : Type} [AddCommMonoid K]

theorem rowGet_trContrib (adj : K →+ K) (A : CRS K) (c i j : Nat) :
    rowGet (trContrib adj A c i) j = if i = j then adj (A.get i c) else 0 := by
  unfold trContrib CRS.get
  induction A.row i with
  | nil => simp
  | cons cv t ih =>
    rw [List.filterMap_cons]
    by_cases hcv : cv.1 = c
    · simp only [hcv, if_true, rowGet_cons', ih]
      by_cases hij : i = j
      · simp [hij, map_add]
      · simp [hij]
    · simp only [hcv, if_false, ih, rowGet_cons']
      by_cases hij : i = j <;> simp [hij]

theorem sum_range_ite (n i : Nat) (f : Nat → K) (hi : i < n) :
    ((List.range n).map (fun a => if a = i then f a else 0)).sum = f i := by
  induction n with
  | zero => omega
  | succ n ih =>
    rw [List.range_succ, List.map_append, List.sum_append]
    by_cases h : i < n
    · rw [ih h]; have : n ≠ i := by omega
      simp [this]
    · have : i = n := by omega
      subst this
      have hz : ((List.range i).map (fun a => if a = i then f a else 0)).sum = 0 := by
        apply List.sum_eq_zero; intro x hx
        obtain ⟨a, ha, rfl⟩ := List.mem_map.mp hx
        have : a ≠ i := by have := List.mem_range.mp ha; omega
        simp [this]
      rw [hz]; simp

end
end Amgcl
