import Amgcl.Proofs.DistPattern
import Amgcl.Proofs.Primitives
/-!
`split`, the vector distribution, and the distributed `mul` / `residual`: rank by rank they compute the rows of the
serial result that the rank owns.
-/
namespace Amgcl.Dist
open Amgcl

/-! ### distributed vectors -/
section vec
variable {K : Type}

theorem flatMap_chunks {α : Type} (l : List α) (b : Nat → Nat) (hb0 : b 0 = 0) (hmono : ∀ t, b t ≤ b (t + 1)) (k : Nat) :
    (List.range k).flatMap (fun r => (l.drop (b r)).take (b (r + 1) - b r)) = l.take (b k) := by
  induction k with
  | zero => simp [hb0]
  | succ k ih =>
    rw [List.range_succ, List.flatMap_append, ih]
    simp only [List.flatMap_cons, List.flatMap_nil, List.append_nil]
    have e : b (k + 1) = b k + (b (k + 1) - b k) := by have := hmono k; omega
    conv_rhs => rw [e]
    rw [List.take_add]

theorem vecPart_toList (x : Vec K) (part : List Nat) (r : Nat) :
    (vecPart x part r).toList = (x.toList.drop (dom part r)).take (dom part (r + 1) - dom part r) := by
  unfold vecPart; rw [Array.toList_extract, List.extract_eq_take_drop]

theorem vecPart_size (x : Vec K) (part : List Nat) (r : Nat) (hr : r < part.length) (hx : part.sum ≤ x.size) :
    (vecPart x part r).size = part.getD r 0 := by
  unfold vecPart
  rw [Array.size_extract, Nat.min_eq_left (Nat.le_trans (dom_le_sum part hr) hx), dom_succ part r hr]; omega

/-- `dom` extended monotonically beyond the rank count (only used as the chunk boundary function) -/
theorem dom_step (part : List Nat) (t : Nat) : dom part (min t part.length) ≤ dom part (min (t + 1) part.length) :=
  dom_mono part (by omega) (Nat.min_le_right _ _)

/-- gathering the parts in rank order gives the vector back -/
theorem concat_vecParts (x : Vec K) (part : List Nat) (hx : x.size = part.sum) :
    concatVec ((List.range part.length).map (vecPart x part)) = x := by
  unfold concatVec
  rw [List.flatMap_map]
  have e : (List.range part.length).flatMap (fun r => (vecPart x part r).toList)
      = (List.range part.length).flatMap (fun r =>
          (x.toList.drop (dom part (min r part.length))).take
            (dom part (min (r + 1) part.length) - dom part (min r part.length))) := by
    apply List.flatMap_congr
    intro r hr
    have hr' := List.mem_range.1 hr
    rw [vecPart_toList, Nat.min_eq_left (Nat.le_of_lt hr'), Nat.min_eq_left hr']
  rw [e, flatMap_chunks x.toList (fun t => dom part (min t part.length)) (by simp [dom_zero]) (dom_step part)]
  simp only [Nat.min_self, dom_length]
  rw [List.take_of_length_le (by simp [hx])]

theorem concat_splitVec (x : Vec K) (part : List Nat) (hx : x.size = part.sum) : concatVec (splitVec x part) = x :=
  concat_vecParts x part hx

end vec

/-! ### `split` -/
section split
variable {K : Type}

theorem split_length (A : CRS K) (rp cp : List Nat) : (split A rp cp).length = rp.length := by
  unfold split; simp

theorem split_getD (A : CRS K) (rp cp : List Nat) (r : Nat) (hr : r < rp.length) :
    (split A rp cp).getD r default = splitRank A rp cp r := by
  unfold split; exact getD_map_range _ _ _ _ hr

theorem toArray_getD {α : Type} (l : List α) (i : Nat) (d : α) : l.toArray.getD i d = l.getD i d := by simp

theorem row_toArray_map {α : Type} (g : α → Row K) (l : List α) (i : Nat) (a : α) (hi : i < l.length) (m : Nat) :
    (⟨m, (l.map g).toArray⟩ : CRS K).row i = g (l.getD i a) := by
  unfold CRS.row
  rw [toArray_getD]
  exact getD_map_lt g l i [] a hi

theorem strip_getD (A : CRS K) (rb re i : Nat) (hi : i < re - rb) : (strip A rb re).getD i [] = A.row (rb + i) := by
  unfold strip; exact getD_map_range _ _ _ _ hi

theorem strip_length (A : CRS K) (rb re : Nat) : (strip A rb re).length = re - rb := by unfold strip; simp

theorem splitRank_nrows (A : CRS K) (rp cp : List Nat) (r : Nat) :
    (splitRank A rp cp r).loc.nrows = dom rp (r + 1) - dom rp r ∧ (splitRank A rp cp r).rem.nrows = dom rp (r + 1) - dom rp r := by
  unfold splitRank CRS.nrows; simp [strip_length]

theorem splitRank_loc_row (A : CRS K) (rp cp : List Nat) (r i : Nat) (hi : i < dom rp (r + 1) - dom rp r) :
    (splitRank A rp cp r).loc.row i = locPart (dom cp r) (dom cp (r + 1)) (A.row (dom rp r + i)) := by
  unfold splitRank
  simp only
  rw [row_toArray_map _ _ i [] (by rw [strip_length]; exact hi), strip_getD A _ _ i hi]

theorem splitRank_rem_row (A : CRS K) (rp cp : List Nat) (r i : Nat) (hi : i < dom rp (r + 1) - dom rp r) :
    (splitRank A rp cp r).rem.row i = remPart (dom cp r) (dom cp (r + 1)) (A.row (dom rp r + i)) := by
  unfold splitRank
  simp only
  rw [row_toArray_map _ _ i [] (by rw [strip_length]; exact hi), strip_getD A _ _ i hi]

theorem mem_remColList (D : DistMat K) (c : Nat) :
    c ∈ remColList D ↔ ∃ i, i < D.rem.nrows ∧ ∃ cv ∈ D.rem.row i, cv.1 = c := by
  unfold remColList
  rw [List.mem_flatMap]
  constructor
  · rintro ⟨row, hrow, hc⟩
    obtain ⟨i, hi, rfl⟩ := List.getElem_of_mem hrow
    obtain ⟨cv, hcv, rfl⟩ := List.mem_map.1 hc
    have hi' : i < D.rem.rows.size := by simpa using hi
    refine ⟨i, hi', cv, ?_, rfl⟩
    unfold CRS.row
    simpa [Array.getD, hi'] using hcv
  · rintro ⟨i, hi, cv, hcv, rfl⟩
    refine ⟨D.rem.row i, ?_, List.mem_map.2 ⟨cv, hcv, rfl⟩⟩
    unfold CRS.row CRS.nrows at *
    simp [Array.getD, hi]

theorem mem_remPart {cb ce : Nat} {row : Row K} {cv : Nat × K} (h : cv ∈ remPart cb ce row) :
    cv ∈ row ∧ ¬ (cb ≤ cv.1 ∧ cv.1 < ce) := by
  unfold remPart inRange at h
  obtain ⟨h1, h2⟩ := List.mem_filter.1 h
  refine ⟨h1, fun hc => ?_⟩
  simp [hc.1, hc.2] at h2

/-- shape hypotheses of a distributed matrix -/
structure PartOK (A : CRS K) (rp cp : List Nat) : Prop where
  wf : A.WF
  len : rp.length = cp.length
  rows : rp.sum = A.nrows
  cols : cp.sum = A.ncols

theorem A_row_lt {A : CRS K} (hA : A.WF) (g : Nat) : ∀ cv ∈ A.row g, cv.1 < A.ncols := CRS.WF.row_lt hA g

theorem remsOK_split (A : CRS K) (rp cp : List Nat) (h : PartOK A rp cp) :
    RemsOK cp ((split A rp cp).map remColList) := by
  constructor
  · rw [List.length_map, split_length, h.len]
  · intro r c hc
    by_cases hr : r < rp.length
    · rw [getD_map_lt remColList _ r [] default (by rw [split_length]; exact hr), split_getD A rp cp r hr,
        mem_remColList] at hc
      obtain ⟨i, hi, cv, hcv, rfl⟩ := hc
      rw [(splitRank_nrows A rp cp r).2] at hi
      rw [splitRank_rem_row A rp cp r i hi] at hcv
      rw [h.cols]
      exact A_row_lt h.wf _ cv (mem_remPart hcv).1
    · have : ((split A rp cp).map remColList).getD r [] = [] := by
        rw [List.getD_eq_getElem?_getD, List.getElem?_eq_none (by rw [List.length_map, split_length]; omega)]; rfl
      rw [this] at hc; cases hc

end split

/-! ### `mul`, `residual` -/
section mul
variable {K : Type} [CommRing K] [DecidableEq K]

omit [DecidableEq K] in
theorem sum_filter_split (p : Nat × K → Bool) (g : Nat × K → K) (l : Row K) :
    ((l.filter p).map g).sum + ((l.filter (fun cv => !p cv)).map g).sum = (l.map g).sum := by
  induction l with
  | nil => simp
  | cons a t ih =>
    by_cases h : p a = true
    · simp only [List.filter_cons, h, if_true, Bool.not_true, Bool.false_eq_true, if_false, List.map_cons,
        List.sum_cons, add_assoc, ih]
    · have h' : p a = false := by simpa using h
      simp only [List.filter_cons, h', Bool.false_eq_true, if_false, Bool.not_false, if_true, List.map_cons,
        List.sum_cons]
      rw [← ih]; ring

omit [DecidableEq K] in
/-- the local part of a row against the local part of `x` -/
theorem rowDot_locPart (cp : List Nat) (r : Nat) (hr : r < cp.length) (x : Vec K) (hx : cp.sum ≤ x.size) (row : Row K) :
    rowDot (locPart (dom cp r) (dom cp (r + 1)) row) (vecPart x cp r)
      = ((row.filter (fun cv => inRange (dom cp r) (dom cp (r + 1)) cv.1)).map (fun cv => cv.2 * x.getD cv.1 0)).sum := by
  rw [rowDot_eq_listSum]
  unfold locPart
  rw [List.map_map]
  congr 1
  apply List.map_congr_left
  intro cv hcv
  have hin := (List.mem_filter.1 hcv).2
  unfold inRange at hin
  simp only [Bool.and_eq_true, decide_eq_true_eq] at hin
  simp only [Function.comp]
  rw [vecPart_getD x cp r cv.1 ⟨hr, hin.1, hin.2⟩ hx]

/-- the remote part of a row, renumbered, against the receive buffer -/
theorem rowDot_remPart (p : CommPattern) (cols : List Nat) (hn : cols.Nodup)
    (hidx : p.idx.map (fun e => (e.1, e.2.2)) = cols.zipIdx) (x : Vec K) (rrow : Row K)
    (hmem : ∀ cv ∈ rrow, cv.1 ∈ cols) :
    rowDot (rrow.map (fun cv => (p.localIndex cv.1, cv.2))) (cols.map (fun c => x.getD c 0)).toArray
      = (rrow.map (fun cv => cv.2 * x.getD cv.1 0)).sum := by
  rw [rowDot_eq_listSum, List.map_map]
  congr 1
  apply List.map_congr_left
  intro cv hcv
  simp only [Function.comp]
  congr 1
  have := localIndex_spec p cols hn hidx cv.1 (hmem cv hcv)
  rw [toArray_getD, List.getD_eq_getElem?_getD, List.getElem?_map, this]
  rfl

omit [CommRing K] [DecidableEq K] in
theorem renumberRem_row (p : CommPattern) (rem : CRS K) (i : Nat) :
    (renumberRem p rem).row i = (rem.row i).map (fun cv => (p.localIndex cv.1, cv.2)) := by
  unfold renumberRem CRS.row
  simp only [Array.getD_eq_getD_getElem?, Array.getElem?_map]
  cases rem.rows[i]? <;> rfl

omit [CommRing K] [DecidableEq K] in
theorem renumberRem_nrows (p : CommPattern) (rem : CRS K) : (renumberRem p rem).nrows = rem.nrows := by
  unfold renumberRem CRS.nrows; simp

/-- everything a rank's `mul`/`residual` needs to know about its state -/
structure RankView (A : CRS K) (rp cp : List Nat) (x : Vec K) (r : Nat) : Prop where
  hr : r < rp.length
  hrc : r < cp.length
  nloc : (splitRank A rp cp r).loc.nrows = rp.getD r 0
  nrem : (splitRank A rp cp r).rem.nrows = rp.getD r 0
  /-- local + remote products add up to the serial row product -/
  dots : ∀ i, i < rp.getD r 0 →
    rowDot ((splitRank A rp cp r).loc.row i) (vecPart x cp r)
    + rowDot ((renumberRem ((patternsOf (split A rp cp) cp).getD r default) (splitRank A rp cp r).rem).row i)
        (exchange (patternsOf (split A rp cp) cp) (splitVec x cp) r).toArray
    = rowDot (A.row (dom rp r + i)) x
  /-- no remote columns at all: the remote product is zero (the code then skips the second `spmv`) -/
  noRem : ((patternsOf (split A rp cp) cp).getD r default).remCols.isEmpty = true → ∀ i, i < rp.getD r 0 →
    rowDot ((splitRank A rp cp r).loc.row i) (vecPart x cp r) = rowDot (A.row (dom rp r + i)) x

theorem rankView (A : CRS K) (rp cp : List Nat) (h : PartOK A rp cp) (x : Vec K) (hx : x.size = A.ncols) (r : Nat)
    (hr : r < rp.length) : RankView A rp cp x r := by
  have hrc : r < cp.length := by rw [← h.len]; exact hr
  have hn := splitRank_nrows A rp cp r
  have hw : dom rp (r + 1) - dom rp r = rp.getD r 0 := by rw [dom_succ rp r hr]; omega
  have hok := remsOK_split A rp cp h
  have hxs : cp.sum ≤ x.size := by rw [hx, h.cols]
  obtain ⟨p1, _, _, p4, _, _⟩ := pattern_getD cp _ hok r hrc
  have hrems : ((split A rp cp).map remColList).getD r [] = remColList (splitRank A rp cp r) := by
    rw [getD_map_lt remColList _ r [] default (by rw [split_length]; exact hr), split_getD A rp cp r hr]
  have hex := exchange_eq cp _ hok x hxs r hrc
  have hmem : ∀ i, i < rp.getD r 0 → ∀ cv ∈ (splitRank A rp cp r).rem.row i,
      cv.1 ∈ remColsOf ((split A rp cp).map remColList) r := by
    intro i hi cv hcv
    unfold remColsOf
    rw [mem_sortUnique, hrems, mem_remColList]
    exact ⟨i, by rw [hn.2, hw]; exact hi, cv, hcv, rfl⟩
  have hdots : ∀ i, i < rp.getD r 0 →
      rowDot ((splitRank A rp cp r).loc.row i) (vecPart x cp r)
      + rowDot ((renumberRem ((patternsOf (split A rp cp) cp).getD r default) (splitRank A rp cp r).rem).row i)
          (exchange (patternsOf (split A rp cp) cp) (splitVec x cp) r).toArray
      = rowDot (A.row (dom rp r + i)) x := by
    intro i hi
    have hi' : i < dom rp (r + 1) - dom rp r := by rw [hw]; exact hi
    unfold patternsOf
    rw [hex, renumberRem_row, splitRank_loc_row A rp cp r i hi', rowDot_locPart cp r hrc x hxs,
      rowDot_remPart _ (remColsOf ((split A rp cp).map remColList) r) (sortUnique_nodup _) p4 x _ (hmem i hi), splitRank_rem_row A rp cp r i hi']
    unfold remPart
    rw [sum_filter_split, rowDot_eq_listSum]
  refine ⟨hr, hrc, by rw [hn.1, hw], by rw [hn.2, hw], hdots, ?_⟩
  intro hemp i hi
  have hi' : i < dom rp (r + 1) - dom rp r := by rw [hw]; exact hi
  have hnil : (splitRank A rp cp r).rem.row i = [] := by
    cases hrow : (splitRank A rp cp r).rem.row i with
    | nil => rfl
    | cons cv t =>
      have := hmem i hi cv (by rw [hrow]; exact List.mem_cons_self)
      unfold patternsOf at hemp
      rw [p1] at hemp
      rw [List.isEmpty_iff.1 hemp] at this
      cases this
  rw [← hdots i hi, renumberRem_row, hnil]
  simp [rowDot]

theorem getD_spmv (α β : K) (A : CRS K) (x y : Vec K) (i : Nat) (hi : i < A.nrows) :
    (spmv α A x β y).getD i 0 = α * rowDot (A.row i) x + β * y.getD i 0 := by
  unfold spmv
  by_cases hb : β = 0
  · rw [if_pos hb, getD_ofFn_lt _ _ _ hi, hb]; ring
  · rw [if_neg hb, getD_ofFn_lt _ _ _ hi]

theorem size_spmv (α β : K) (A : CRS K) (x y : Vec K) : (spmv α A x β y).size = A.nrows := by
  unfold spmv; split <;> simp

omit [DecidableEq K] in
theorem getD_residual (f : Vec K) (A : CRS K) (x : Vec K) (i : Nat) (hi : i < A.nrows) :
    (residual f A x).getD i 0 = f.getD i 0 - rowDot (A.row i) x := by
  unfold residual; rw [getD_ofFn_lt _ _ _ hi]

theorem mulRank_eq (α β : K) (A : CRS K) (rp cp : List Nat) (h : PartOK A rp cp) (x y : Vec K)
    (hx : x.size = A.ncols) (hy : y.size = A.nrows) (r : Nat) (hr : r < rp.length) :
    mulRank α (splitRank A rp cp r) ((patternsOf (split A rp cp) cp).getD r default)
        (exchange (patternsOf (split A rp cp) cp) (splitVec x cp) r) (vecPart x cp r) β (vecPart y rp r)
      = vecPart (spmv α A x β y) rp r := by
  have v := rankView A rp cp h x hx r hr
  have hys : rp.sum ≤ y.size := by rw [hy, h.rows]
  have hss : rp.sum ≤ (spmv α A x β y).size := by rw [size_spmv, h.rows]
  have hsz : (vecPart (spmv α A x β y) rp r).size = rp.getD r 0 := vecPart_size _ rp r hr hss
  have hown : ∀ i, i < rp.getD r 0 → IsOwner rp (dom rp r + i) r := fun i hi =>
    ⟨hr, Nat.le_add_right _ _, by rw [dom_succ rp r hr]; omega⟩
  have hrow : ∀ i, i < rp.getD r 0 → dom rp r + i < A.nrows := fun i hi => by
    have := (hown i hi).2.2; have := dom_le_sum rp (show r + 1 ≤ rp.length from hr); rw [← h.rows]; omega
  have htarget : ∀ i, i < rp.getD r 0 → (vecPart (spmv α A x β y) rp r).getD i 0
      = α * rowDot (A.row (dom rp r + i)) x + β * (vecPart y rp r).getD i 0 := by
    intro i hi
    have e1 := vecPart_getD (spmv α A x β y) rp r (dom rp r + i) (hown i hi) hss
    have e2 := vecPart_getD y rp r (dom rp r + i) (hown i hi) hys
    rw [Nat.add_sub_cancel_left] at e1 e2
    rw [e1, e2, getD_spmv α β A x y _ (hrow i hi)]
  unfold mulRank
  simp only
  split
  · next hemp =>
    apply Vec.ext_getD (0 : K) (by rw [size_spmv, v.nloc, hsz])
    intro i hi
    rw [size_spmv, v.nloc] at hi
    rw [getD_spmv _ _ _ _ _ _ (by rw [v.nloc]; exact hi), htarget i hi, v.noRem hemp i hi]
  · apply Vec.ext_getD (0 : K) (by rw [size_spmv, renumberRem_nrows, v.nrem, hsz])
    intro i hi
    rw [size_spmv, renumberRem_nrows, v.nrem] at hi
    rw [getD_spmv _ _ _ _ _ _ (by rw [renumberRem_nrows, v.nrem]; exact hi),
      getD_spmv _ _ _ _ _ _ (by rw [v.nloc]; exact hi), htarget i hi, ← v.dots i hi]
    ring

theorem residualRank_eq (A : CRS K) (rp cp : List Nat) (h : PartOK A rp cp) (f x : Vec K)
    (hx : x.size = A.ncols) (hf : f.size = A.nrows) (r : Nat) (hr : r < rp.length) :
    residualRank (vecPart f rp r) (splitRank A rp cp r) ((patternsOf (split A rp cp) cp).getD r default)
        (exchange (patternsOf (split A rp cp) cp) (splitVec x cp) r) (vecPart x cp r)
      = vecPart (residual f A x) rp r := by
  have v := rankView A rp cp h x hx r hr
  have hfs : rp.sum ≤ f.size := by rw [hf, h.rows]
  have hrs : (residual f A x).size = A.nrows := by simp [residual]
  have hss : rp.sum ≤ (residual f A x).size := by rw [hrs, h.rows]
  have hsz : (vecPart (residual f A x) rp r).size = rp.getD r 0 := vecPart_size _ rp r hr hss
  have hown : ∀ i, i < rp.getD r 0 → IsOwner rp (dom rp r + i) r := fun i hi =>
    ⟨hr, Nat.le_add_right _ _, by rw [dom_succ rp r hr]; omega⟩
  have hrow : ∀ i, i < rp.getD r 0 → dom rp r + i < A.nrows := fun i hi => by
    have := (hown i hi).2.2; have := dom_le_sum rp (show r + 1 ≤ rp.length from hr); rw [← h.rows]; omega
  have htarget : ∀ i, i < rp.getD r 0 → (vecPart (residual f A x) rp r).getD i 0
      = (vecPart f rp r).getD i 0 - rowDot (A.row (dom rp r + i)) x := by
    intro i hi
    have e1 := vecPart_getD (residual f A x) rp r (dom rp r + i) (hown i hi) hss
    have e2 := vecPart_getD f rp r (dom rp r + i) (hown i hi) hfs
    rw [Nat.add_sub_cancel_left] at e1 e2
    rw [e1, e2, getD_residual f A x _ (hrow i hi)]
  have hr1 : (residual (vecPart f rp r) (splitRank A rp cp r).loc (vecPart x cp r)).size = rp.getD r 0 := by
    simp [residual, v.nloc]
  unfold residualRank
  simp only
  split
  · next hemp =>
    apply Vec.ext_getD (0 : K) (by rw [hr1, hsz])
    intro i hi
    rw [hr1] at hi
    rw [getD_residual _ _ _ _ (by rw [v.nloc]; exact hi), htarget i hi, v.noRem hemp i hi]
  · apply Vec.ext_getD (0 : K) (by rw [size_spmv, renumberRem_nrows, v.nrem, hsz])
    intro i hi
    rw [size_spmv, renumberRem_nrows, v.nrem] at hi
    rw [getD_spmv _ _ _ _ _ _ (by rw [renumberRem_nrows, v.nrem]; exact hi),
      getD_residual _ _ _ _ (by rw [v.nloc]; exact hi), htarget i hi, ← v.dots i hi]
    ring

end mul

end Amgcl.Dist
