import Amgcl.Model.Inverse
import Mathlib.Algebra.BigOperators.Group.Finset.Basic
import Mathlib.Algebra.BigOperators.Intervals
import Mathlib.Algebra.BigOperators.Ring.Finset
import Mathlib.Algebra.Order.BigOperators.Group.Finset
import Mathlib.Tactic.Ring
import Mathlib.Tactic.Linarith
import Mathlib.Tactic.Abel
/-!
Array mechanics shared by the proofs about `detail::inverse` and `skyline_lu`: `getD` of `setIfInBounds`, the
two-dimensional view `get2/set2` of a flat row-major buffer, folds that subtract a sum.
-/
namespace Amgcl
open Finset

section arr
variable {α : Type}

namespace Arr2
theorem getD_setIfInBounds (A : Array α) (i j : Nat) (v d : α) :
    (A.setIfInBounds i v).getD j d = if i = j ∧ i < A.size then v else A.getD j d := by
  simp only [Array.getD_eq_getD_getElem?, Array.getElem?_setIfInBounds]
  by_cases h : i = j
  · subst h; by_cases h2 : i < A.size <;> simp [h2]
  · simp [h]

theorem getD_setIfInBounds_ne (A : Array α) {i j : Nat} (v d : α) (h : i ≠ j) :
    (A.setIfInBounds i v).getD j d = A.getD j d := by
  rw [getD_setIfInBounds]; simp [h]

theorem getD_setIfInBounds_self (A : Array α) {i : Nat} (v d : α) (h : i < A.size) :
    (A.setIfInBounds i v).getD i d = v := by
  rw [getD_setIfInBounds]; simp [h]

end Arr2
end arr
open Arr2

section two
variable {K : Type} [Zero K]

theorem idx2_inj {n i j i' j' : Nat} (hj : j < n) (hj' : j' < n) (h : i * n + j = i' * n + j') : i = i' ∧ j = j' := by
  have h1 : (i * n + j) / n = i := by
    rw [Nat.mul_comm, Nat.mul_add_div (by omega), Nat.div_eq_of_lt hj]; simp
  have h2 : (i' * n + j') / n = i' := by
    rw [Nat.mul_comm, Nat.mul_add_div (by omega), Nat.div_eq_of_lt hj']; simp
  have hi : i = i' := by rw [← h1, ← h2, h]
  subst hi
  exact ⟨rfl, by omega⟩

theorem idx2_lt {n i j : Nat} (hi : i < n) (hj : j < n) : i * n + j < n * n := by
  calc i * n + j < i * n + n := by omega
    _ = (i + 1) * n := by ring
    _ ≤ n * n := Nat.mul_le_mul_right n hi

@[simp] theorem size_set2 (n : Nat) (A : Array K) (i j : Nat) (v : K) : (set2 n A i j v).size = A.size := by
  simp [set2]

theorem get2_set2 {n : Nat} (A : Array K) {i j i' j' : Nat} (v : K) (hA : A.size = n * n)
    (hi : i < n) (hj : j < n) (hj' : j' < n) :
    get2 n (set2 n A i j v) i' j' = if i = i' ∧ j = j' then v else get2 n A i' j' := by
  unfold get2 set2
  rw [getD_setIfInBounds]
  have hb : i * n + j < A.size := hA ▸ idx2_lt hi hj
  by_cases h : i * n + j = i' * n + j'
  · obtain ⟨h1, h2⟩ := idx2_inj hj hj' h
    subst h1; subst h2
    simp [hb]
  · have : ¬ (i = i' ∧ j = j') := by rintro ⟨rfl, rfl⟩; exact h rfl
    simp [h, this]

theorem get2_set2_self {n : Nat} (A : Array K) {i j : Nat} (v : K) (hA : A.size = n * n)
    (hi : i < n) (hj : j < n) : get2 n (set2 n A i j v) i j = v := by
  rw [get2_set2 A v hA hi hj hj]; simp

theorem get2_set2_ne {n : Nat} (A : Array K) {i j i' j' : Nat} (v : K) (hA : A.size = n * n)
    (hi : i < n) (hj : j < n) (hj' : j' < n) (h : ¬ (i = i' ∧ j = j')) :
    get2 n (set2 n A i j v) i' j' = get2 n A i' j' := by
  rw [get2_set2 A v hA hi hj hj']; simp [h]

end two

section sums
variable {K : Type} [AddCommGroup K]

/-- `b = b0; for j in [a, a+len): b -= f j` -/
theorem foldl_sub_range' (f : Nat → K) (a len : Nat) (b0 : K) :
    (List.range' a len).foldl (fun b j => b - f j) b0 = b0 - ∑ j ∈ Ico a (a + len), f j := by
  induction len with
  | zero => simp
  | succ len ih =>
    rw [List.range'_concat, List.foldl_append, ih]
    simp only [List.foldl_cons, List.foldl_nil, Nat.one_mul]
    rw [show a + (len + 1) = (a + len) + 1 from rfl, Finset.sum_Ico_succ_top (by omega)]
    rw [sub_sub]

theorem foldl_sub_range (f : Nat → K) (m : Nat) (b0 : K) :
    (List.range m).foldl (fun b j => b - f j) b0 = b0 - ∑ j ∈ range m, f j := by
  rw [List.range_eq_range', foldl_sub_range', Nat.zero_add, Finset.range_eq_Ico]

end sums

end Amgcl
