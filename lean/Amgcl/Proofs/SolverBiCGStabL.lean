import Amgcl.Model.SolverBiCGStabL
import Amgcl.Proofs.SolverBiCGStab
import Amgcl.Proofs.SolverCommon2
/-!
Lemmas about the BiCGStab(L) model, part 1: unfolding of a call (`run_trivial`, `run_go`), the zero-pass corollaries
(`run_zero_rhs`, `run_converged_guess`), the frame of the polynomial-coefficient computation (`polyCoef` only writes
`MZa, MZb, Y0, YL, qr`) and the ITERATION BOUND `iter ≤ maxiter + L − 1` (`solve_iter_le`).
-/
namespace Amgcl.Solver.BiCGStabL
open Amgcl Amgcl.Solver Amgcl.Solver.QR
set_option linter.unusedSectionVars false
set_option linter.unusedSimpArgs false
set_option linter.unusedVariables false

variable {K : Type} [Field K] [DecidableEq K] [LT K] [DecidableLT K]

/-- `eps = std::max(prm.tol * norm_rhs, prm.abstol)` -/
def epsTol (prm : Params K) (nf : K) : K := maxK (prm.tol * nf) prm.abstol

/-- result of the loop for a call that did not return early and uses `norm_rhs = nf` -/
def final (prm : Params K) (ip : Vec K → Vec K → K) (sqrt : K → K) (c07 : K) (A : CRS K) (P : Vec K → Vec K)
    (ws : Work K) (f x0 : Vec K) (nf : K) : Option Err × St K :=
  loop prm ip sqrt c07 A P (epsTol prm nf) (init prm ip sqrt A P ws f x0).zeta prm.maxiter
    (init prm ip sqrt A P ws f x0)

theorem run_trivial (prm : Params K) (ip : Vec K → Vec K → K) (sqrt : K → K) (eps c07 : K) (A : CRS K)
    (P : Vec K → Vec K) (ws : Work K) (f x0 : Vec K) (n : K)
    (h : prologue prm.nsSearch ip sqrt eps f = .trivial n) :
    run prm ip sqrt eps c07 A P ws f x0 = (.ok (0, n), vclear x0.size, ws) := by
  simp only [run, h]

theorem run_go (prm : Params K) (ip : Vec K → Vec K → K) (sqrt : K → K) (eps c07 : K) (A : CRS K)
    (P : Vec K → Vec K) (ws : Work K) (f x0 : Vec K) (nf : K)
    (h : prologue prm.nsSearch ip sqrt eps f = .go nf) :
    run prm ip sqrt eps c07 A P ws f x0 =
      match final prm ip sqrt c07 A P ws f x0 nf with
      | (none, st)   => (.ok (st.iter, st.zeta / nf), (finish prm.pside P st).1, (finish prm.pside P st).2)
      | (some e, st) => (.error e, st.x, st.w) := by
  simp only [run, h, final, epsTol]
  rfl

/-- a right-hand side below `eps(1)` without `ns_search`: `x` is cleared, zero iterations, `‖f‖` reported, the work
space untouched -/
theorem run_zero_rhs (prm : Params K) (ip : Vec K → Vec K → K) (sqrt : K → K) (eps c07 : K) (A : CRS K)
    (P : Vec K → Vec K) (ws : Work K) (f x0 : Vec K) (hf : nrm ip sqrt f < eps) (hns : prm.nsSearch = false) :
    run prm ip sqrt eps c07 A P ws f x0 = (.ok (0, nrm ip sqrt f), vclear x0.size, ws) :=
  run_trivial _ _ _ _ _ _ _ _ _ _ _ ((prologue_trivial _ _ _ _ _ _).mpr ⟨hf, hns, rfl⟩)

/-! ### the entry state -/

theorem init_B (prm : Params K) (ip : Vec K → Vec K → K) (sqrt : K → K) (A : CRS K) (P : Vec K → Vec K)
    (ws : Work K) (f x0 : Vec K) : (init prm ip sqrt A P ws f x0).w.B = BiCGStab.Rf prm.pside P f A x0 := by
  unfold init BiCGStab.Rf
  cases prm.pside <;> rfl

theorem init_zeta (prm : Params K) (ip : Vec K → Vec K → K) (sqrt : K → K) (A : CRS K) (P : Vec K → Vec K)
    (ws : Work K) (f x0 : Vec K) :
    (init prm ip sqrt A P ws f x0).zeta = nrm ip sqrt (BiCGStab.Rf prm.pside P f A x0) := by
  rw [← init_B prm ip sqrt A P ws f x0]; rfl

theorem init_X (prm : Params K) (ip : Vec K → Vec K → K) (sqrt : K → K) (A : CRS K) (P : Vec K → Vec K)
    (ws : Work K) (f x0 : Vec K) :
    (init prm ip sqrt A P ws f x0).w.X = vclear (BiCGStab.Rf prm.pside P f A x0).size := by
  rw [← init_B prm ip sqrt A P ws f x0]; rfl

theorem init_R0 (prm : Params K) (ip : Vec K → Vec K → K) (sqrt : K → K) (A : CRS K) (P : Vec K → Vec K)
    (ws : Work K) (f x0 : Vec K) :
    (init prm ip sqrt A P ws f x0).w.R.get 0 = BiCGStab.Rf prm.pside P f A x0 := by
  rw [← init_B prm ip sqrt A P ws f x0]
  show (setF _ 0 (vcopy _)).get 0 = _
  rw [setF_same, vcopy_eq]
  rfl

theorem init_U0 (prm : Params K) (ip : Vec K → Vec K → K) (sqrt : K → K) (A : CRS K) (P : Vec K → Vec K)
    (ws : Work K) (f x0 : Vec K) :
    (init prm ip sqrt A P ws f x0).w.U.get 0 = vclear (BiCGStab.Rf prm.pside P f A x0).size := by
  rw [← init_B prm ip sqrt A P ws f x0]
  show (setF _ 0 _).get 0 = _
  rw [setF_same]
  rfl

/-- **An initial guess that already satisfies the tolerance**: the loop guard `zeta >= eps` fails at once; zero
iterations, the (preconditioned) residual of `x₀` is reported, and the label `done` adds the zero correction:
the returned vector is `x₀ + 0` (left) resp. `x₀ + P(0)` (right), exactly as the code computes it. -/
theorem run_converged_guess (prm : Params K) (ip : Vec K → Vec K → K) (sqrt : K → K) (eps c07 : K) (A : CRS K)
    (P : Vec K → Vec K) (ws : Work K) (f x0 : Vec K) (nf : K)
    (hp : prologue prm.nsSearch ip sqrt eps f = .go nf)
    (hconv : nrm ip sqrt (BiCGStab.Rf prm.pside P f A x0) < epsTol prm nf) :
    (run prm ip sqrt eps c07 A P ws f x0).out = .ok (0, nrm ip sqrt (BiCGStab.Rf prm.pside P f A x0) / nf) ∧
    (run prm ip sqrt eps c07 A P ws f x0).x =
      match prm.pside with
      | .left => axpby 1 (vclear (BiCGStab.Rf prm.pside P f A x0).size) 1 x0
      | .right => axpby 1 (P (vclear (BiCGStab.Rf prm.pside P f A x0).size)) 1 x0 := by
  rw [run_go _ _ _ _ _ _ _ _ _ _ nf hp]
  have hfin : final prm ip sqrt c07 A P ws f x0 nf = (none, init prm ip sqrt A P ws f x0) := by
    unfold final loop
    apply loopE_of_not_cond
    simp only [cond, init_zeta]
    simp [hconv]
  rw [hfin]
  refine ⟨?_, ?_⟩
  · simp only [Run.out, init_zeta]; rfl
  · simp only [Run.x, finish]
    cases hs : prm.pside with
    | left => simp only [init_X, hs]; rfl
    | right => simp only [init_X, hs]; rfl

/-- if the preconditioner maps the zero vector to a zero vector (every linear one does), the returned vector is
`x₀` itself (entrywise; `x₀` of the length of the residual) -/
theorem run_converged_guess_x (prm : Params K) (ip : Vec K → Vec K → K) (sqrt : K → K) (eps c07 : K) (A : CRS K)
    (P : Vec K → Vec K) (ws : Work K) (f x0 : Vec K) (nf : K)
    (hp : prologue prm.nsSearch ip sqrt eps f = .go nf)
    (hconv : nrm ip sqrt (BiCGStab.Rf prm.pside P f A x0) < epsTol prm nf)
    (hx0 : x0.size = (BiCGStab.Rf prm.pside P f A x0).size)
    (hP0 : P (vclear (BiCGStab.Rf prm.pside P f A x0).size) = vclear (BiCGStab.Rf prm.pside P f A x0).size) :
    (run prm ip sqrt eps c07 A P ws f x0).x = x0 := by
  rw [(run_converged_guess prm ip sqrt eps c07 A P ws f x0 nf hp hconv).2]
  have key : axpby 1 (vclear (BiCGStab.Rf prm.pside P f A x0).size) 1 x0 = x0 := by
    apply Vec.ext_getD (0 : K)
    · rw [axpby_size, hx0]; simp [vclear]
    · intro i hi
      rw [axpby_size] at hi
      rw [axpby_getD _ _ _ _ _ hi, vclear_getD]; ring
  cases hs : prm.pside with
  | left => simp only [hs] at key ⊢; exact key
  | right => simp only [hs] at key hP0 ⊢; rw [hP0]; exact key

/-! ### frame of the polynomial-coefficient computation -/

/-- `polyCoef` (Gram matrix → `Y0`, through `qr.solve`) writes only `MZa, MZb, Y0, YL, qr` -/
theorem polyCoef_frame (sqrt : K → K) (c07 : K) (L : Nat) (convex : Bool) (w : Work K) :
    (polyCoef sqrt c07 L convex w).Rt = w.Rt ∧ (polyCoef sqrt c07 L convex w).X = w.X ∧
    (polyCoef sqrt c07 L convex w).B = w.B ∧ (polyCoef sqrt c07 L convex w).T = w.T ∧
    (polyCoef sqrt c07 L convex w).R = w.R ∧ (polyCoef sqrt c07 L convex w).U = w.U := by
  unfold polyCoef
  simp only []
  split <;> exact ⟨rfl, rfl, rfl, rfl, rfl, rfl⟩

/-! ### the iteration counter -/

/-- a BiCG step either takes the early exit (`done`, `iter += j+1`) or leaves `iter`, `done` alone -/
theorem bicgStep_iter (prm : Params K) (ip : Vec K → Vec K → K) (sqrt : K → K) (A : CRS K) (P : Vec K → Vec K)
    (epsT : K) (j : Nat) (st st' : St K) (b : Bool)
    (h : bicgStep prm ip sqrt A P epsT j st = .ok (st', b)) :
    (b = true ∧ st'.done = true ∧ st'.iter = st.iter + (j + 1)) ∨
    (b = false ∧ st'.done = st.done ∧ st'.iter = st.iter) := by
  unfold bicgStep at h
  simp only [] at h
  split at h
  · cases h
  · split at h
    · cases h
    · split at h
      · cases h; left; exact ⟨rfl, rfl, rfl⟩
      · cases h; right; exact ⟨rfl, rfl, rfl⟩

theorem bicgLoop_iter (prm : Params K) (ip : Vec K → Vec K → K) (sqrt : K → K) (A : CRS K) (P : Vec K → Vec K)
    (epsT : K) : ∀ (fuel j : Nat) (st st' : St K), bicgLoop prm ip sqrt A P epsT fuel j st = .ok st' →
    (st'.done = true ∧ st.iter + 1 ≤ st'.iter ∧ st'.iter ≤ st.iter + (j + fuel)) ∨
    (st'.done = st.done ∧ st'.iter = st.iter) := by
  intro fuel
  induction fuel with
  | zero => intro j st st' h; simp only [bicgLoop] at h; cases h; right; exact ⟨rfl, rfl⟩
  | succ n ih =>
    intro j st st' h
    rw [bicgLoop] at h
    cases hs : bicgStep prm ip sqrt A P epsT j st with
    | error e => rw [hs] at h; cases h
    | ok r =>
      obtain ⟨s1, b⟩ := r
      rw [hs] at h
      rcases bicgStep_iter prm ip sqrt A P epsT j st s1 b hs with ⟨hb, hd, hi⟩ | ⟨hb, hd, hi⟩
      · subst hb
        simp only at h
        cases h
        left; exact ⟨hd, by omega, by omega⟩
      · subst hb
        simp only at h
        rcases ih (j + 1) s1 st' h with ⟨g1, g2, g3⟩ | ⟨g1, g2⟩
        · left; exact ⟨g1, by omega, by omega⟩
        · right; exact ⟨by rw [g1, hd], by rw [g2, hi]⟩

theorem polyPart_iter (prm : Params K) (ip : Vec K → Vec K → K) (sqrt : K → K) (c07 : K) (A : CRS K)
    (P : Vec K → Vec K) (zeta0 : K) (st st' : St K) (h : polyPart prm ip sqrt c07 A P zeta0 st = .ok st') :
    st'.iter = st.iter + prm.L ∧ st'.done = st.done := by
  unfold polyPart at h
  simp only [] at h
  split at h
  · cases h
  · split at h
    · split at h
      · split at h <;> (cases h; exact ⟨rfl, rfl⟩)
      · cases h; exact ⟨rfl, rfl⟩
    · cases h; exact ⟨rfl, rfl⟩

/-- a pass adds at most `L` to `iter`; exactly `L` unless the early exit was taken -/
theorem body_iter (prm : Params K) (ip : Vec K → Vec K → K) (sqrt : K → K) (c07 : K) (A : CRS K)
    (P : Vec K → Vec K) (epsT zeta0 : K) (st st' : St K) (hd : st.done = false)
    (h : body prm ip sqrt c07 A P epsT zeta0 st = .ok st') :
    (st'.done = true ∧ st.iter + 1 ≤ st'.iter ∧ st'.iter ≤ st.iter + prm.L) ∨
    (st'.done = false ∧ st'.iter = st.iter + prm.L) := by
  unfold body at h
  simp only [] at h
  split at h
  · cases h
  · rename_i st1 h1
    have := bicgLoop_iter prm ip sqrt A P epsT prm.L 0 _ st1 h1
    simp only [Nat.zero_add] at this
    split at h
    · rename_i hdone
      cases h
      rcases this with ⟨g1, g2, g3⟩ | ⟨g1, g2⟩
      · left; exact ⟨g1, g2, g3⟩
      · rw [hdone] at g1; exact absurd (g1.trans hd) (by simp)
    · rename_i hdone
      obtain ⟨p1, p2⟩ := polyPart_iter prm ip sqrt c07 A P zeta0 st1 st' h
      rcases this with ⟨g1, g2, g3⟩ | ⟨g1, g2⟩
      · exact absurd g1 hdone
      · right; exact ⟨by rw [p2, g1]; exact hd, by rw [p1, g2]⟩

theorem cond_true (maxiter : Nat) (epsT : K) (st : St K) (h : cond maxiter epsT st = true) :
    st.done = false ∧ st.iter < maxiter ∧ ¬ st.zeta < epsT := by
  simpa [cond, and_assoc] using h

/-- on a normal exit of the loop `iter + 1 ≤ maxiter + L` (for `L ≥ 1`) -/
theorem final_iter_le (prm : Params K) (ip : Vec K → Vec K → K) (sqrt : K → K) (c07 : K) (A : CRS K)
    (P : Vec K → Vec K) (ws : Work K) (f x0 : Vec K) (nf : K) (st : St K) (hL : 1 ≤ prm.L)
    (h : final prm ip sqrt c07 A P ws f x0 nf = (none, st)) : st.iter + 1 ≤ prm.maxiter + prm.L := by
  unfold final loop at h
  refine loopE_inv _ _ (fun t : St K => t.iter + 1 ≤ prm.maxiter + prm.L) ?_ _ _ _ ?_ h
  · intro s s' hi hc hb
    obtain ⟨c1, c2, _⟩ := cond_true _ _ _ hc
    rcases body_iter prm ip sqrt c07 A P _ _ s s' c1 hb with ⟨_, _, g⟩ | ⟨_, g⟩
    · show s'.iter + 1 ≤ _; omega
    · show s'.iter + 1 ≤ _; omega
  · show (init prm ip sqrt A P ws f x0).iter + 1 ≤ _
    have : (init prm ip sqrt A P ws f x0).iter = 0 := rfl
    omega

/-- **Iteration bound of BiCGStab(L)** (no hypothesis on `A`, `P`: pure control flow): every normal return has
`iter ≤ maxiter + L − 1` — a pass is entered with `iter < maxiter` and adds at most `L`. -/
theorem solve_iter_le (prm : Params K) (ip : Vec K → Vec K → K) (sqrt : K → K) (eps c07 : K) (A : CRS K)
    (P : Vec K → Vec K) (ws : Work K) (f x0 : Vec K) (it : Nat) (res : K) (x : Vec K) (w : Work K)
    (h : solve prm ip sqrt eps c07 A P ws f x0 = .ok (it, res, x, w)) (hL : 1 ≤ prm.L) :
    it ≤ prm.maxiter + prm.L - 1 := by
  rw [solve, Run.toExcept_ok] at h
  cases hp : prologue prm.nsSearch ip sqrt eps f with
  | trivial n =>
    rw [run_trivial _ _ _ _ _ _ _ _ _ _ n hp] at h
    simp only [Prod.mk.injEq, Except.ok.injEq] at h
    omega
  | go nf =>
    rw [run_go _ _ _ _ _ _ _ _ _ _ nf hp] at h
    cases hfin : final prm ip sqrt c07 A P ws f x0 nf with
    | mk oe st =>
      rw [hfin] at h
      cases oe with
      | some e => simp at h
      | none =>
        simp only [Prod.mk.injEq, Except.ok.injEq] at h
        rw [← h.1.1]
        have := final_iter_le prm ip sqrt c07 A P ws f x0 nf st hL hfin
        omega

end Amgcl.Solver.BiCGStabL
