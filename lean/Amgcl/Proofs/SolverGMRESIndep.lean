import Amgcl.Proofs.SolverGMRES
import Amgcl.Proofs.SolverGivens
/-!
GMRES, work-array independence (C15): every cell of `H, s, cs, sn, r, v[]` is written before it is read.

* `head` reads `x` only and writes `r`, `norm_r` (left: also `v[0]`);
* `cycleStart` reads `r`, `norm_r`; writes `v[0]` (`axpby` with zero output coefficient) and all of `s`;
* Arnoldi step `j` reads `v[0..j]`, `s`, `cs[k], sn[k]` for `k < j`; writes `v[j+1]`, `r` (scratch of
  `preconditioner::spmv`), column `j` of `H` (rows `≤ j+1`), `cs[j], sn[j]`, `s[j], s[j+1]`;
* `update` after `j ≥ 1` steps reads `H(k,i)` for `k ≤ i < j`, `s`, `v[0..j-1]`, `x`; `r` (= `dx`) and, for right
  preconditioning, `v[0]` (= `tmp`) are pure outputs.

Hence the relation `RelIn` between the inner-loop states of two runs started on different work arrays (agreement on
exactly the cells written so far) is preserved by `step`, and the relation `RelSt` between the states at the `break`
test (`iter`, `norm_r`, `x`, `r` equal) is preserved by a whole restart cycle followed by `head`.
-/
namespace Amgcl.Solver.GMRES
open Amgcl Amgcl.Solver
set_option linter.unusedSectionVars false
set_option linter.unusedSimpArgs false

variable {K : Type} [Field K] [DecidableEq K] [LT K] [DecidableLT K]

/-- what the rest of a restart cycle reads of the inner-loop state after `j` Arnoldi steps -/
def RelIn (t t' : In K) : Prop :=
  t.j = t'.j ∧ t.iter = t'.iter ∧ t.innerRes = t'.innerRes ∧ t.w.h.s = t'.w.h.s ∧
  (∀ k, k ≤ t.j → t.w.v.get k = t'.w.v.get k) ∧
  (∀ i k, i < t.j → k ≤ i + 1 → t.w.h.H.get k i = t'.w.h.H.get k i) ∧
  (∀ k, k < t.j → t.w.h.cs.get k = t'.w.h.cs.get k) ∧
  (∀ k, k < t.j → t.w.h.sn.get k = t'.w.h.sn.get k)

/-- what a pass of the outer loop reads of the state at the `break` test -/
def RelSt (s s' : St K) : Prop :=
  s.iter = s'.iter ∧ s.normR = s'.normR ∧ s.x = s'.x ∧ s.w.r = s'.w.r

theorem step_rel (side : Side) (ip : Vec K → Vec K → K) (sqrt : K → K) (A : CRS K) (P : Vec K → Vec K)
    (t t' : In K) (h : RelIn t t') : RelIn (step side ip sqrt A P t) (step side ip sqrt A P t') := by
  obtain ⟨j, it, ir, w⟩ := t
  obtain ⟨j', it', ir', w'⟩ := t'
  obtain ⟨h1, h2, h3, hs, hv, hH, hcs, hsn⟩ := h
  simp only at h1 h2 h3 hs hv hH hcs hsn
  subst h1 h2 h3
  have hx : pspmv side P A (w.v.get j) (w.v.get (j + 1)) w.r = pspmv side P A (w'.v.get j) (w'.v.get (j + 1)) w'.r := by
    rw [hv j (Nat.le_refl j)]
    exact BiCGStab.pspmv_indep side P A _ _ _ _ _
  obtain ⟨g1, g2, g3, g4, g5, _⟩ :=
    hessStep_rel ip sqrt w.v w'.v j w.h w'.h (pspmv side P A (w.v.get j) (w.v.get (j + 1)) w.r).1 hv hs hcs hsn
  have g6 := hessStep_rel_H ip sqrt w.v w'.v j w.h w'.h (pspmv side P A (w.v.get j) (w.v.get (j + 1)) w.r).1
    hv hs hcs hsn hH
  simp only [step]
  rw [← hx]
  refine ⟨rfl, rfl, g2, g3, ?_, g6, g4, g5⟩
  intro k hk
  simp only [setF_get]
  by_cases hkj : k = j + 1
  · simp only [hkj, if_true]; exact g1
  · simp only [hkj, if_false]
    exact hv k (by have : k ≤ j + 1 := hk; omega)

theorem cont_rel (maxiter M : Nat) (epsT : K) (t t' : In K) (h : RelIn t t') :
    cont maxiter M epsT t = cont maxiter M epsT t' := by
  obtain ⟨h1, h2, h3, _⟩ := h
  simp only [cont, h1, h2, h3]

theorem cycleStart_rel (st st' : St K) (h : RelSt st st') : RelIn (cycleStart st) (cycleStart st') := by
  obtain ⟨h1, h2, h3, h4⟩ := h
  refine ⟨rfl, h1, rfl, ?_, ?_, ?_, ?_, ?_⟩
  · show sInit st.normR = sInit st'.normR
    rw [h2]
  · intro k hk
    have hk0 : k = 0 := Nat.le_zero.mp hk
    subst hk0
    show (setF st.w.v 0 (axpby (inv1 st.normR) st.w.r 0 (st.w.v.get 0))).get 0
      = (setF st'.w.v 0 (axpby (inv1 st'.normR) st'.w.r 0 (st'.w.v.get 0))).get 0
    rw [setF_same, setF_same, h2, h4]
    exact axpby_b0_indep _ _ _ _
  · intro i k hi; exact absurd hi (Nat.not_lt_zero i)
  · intro k hk; exact absurd hk (Nat.not_lt_zero k)
  · intro k hk; exact absurd hk (Nat.not_lt_zero k)

/-- the two inner loops run in lock step; they end after the same number `j ≥ 1` of Arnoldi steps -/
theorem inner_rel (prm : Params K) (ip : Vec K → Vec K → K) (sqrt : K → K) (A : CRS K) (P : Vec K → Vec K)
    (epsT : K) (st st' : St K) (h : RelSt st st') :
    RelIn (inner prm ip sqrt A P epsT st) (inner prm ip sqrt A P epsT st') ∧
    1 ≤ (inner prm ip sqrt A P epsT st).j := by
  unfold inner
  apply doWhile_rel (cont prm.maxiter prm.M epsT) (step prm.pside ip sqrt A P)
    (fun t t' : In K => RelIn t t' ∧ 1 ≤ t.j)
  · intro s s' hs; exact cont_rel _ _ _ s s' hs.1
  · intro s s' hs _
    exact ⟨step_rel _ ip sqrt A P s s' hs.1, by rw [step_j]; omega⟩
  · exact ⟨step_rel _ ip sqrt A P _ _ (cycleStart_rel st st' h), by rw [step_j]; omega⟩

/-- the update of `x` after `j ≥ 1` steps: same `iter`, `norm_r`, `x` -/
theorem update_rel (side : Side) (P : Vec K → Vec K) (st st' : St K) (t t' : In K) (h : RelSt st st')
    (ht : RelIn t t') (hj : 1 ≤ t.j) :
    (update side P st t).iter = (update side P st' t').iter ∧
    (update side P st t).normR = (update side P st' t').normR ∧
    (update side P st t).x = (update side P st' t').x := by
  obtain ⟨_, h2, h3, _⟩ := h
  obtain ⟨j, it, ir, w⟩ := t
  obtain ⟨j', it', ir', w'⟩ := t'
  obtain ⟨h1, g2, g3, hs, hv, hH, hcs, hsn⟩ := ht
  simp only at h1 g2 g3 hs hv hH hcs hsn hj
  subst h1 g2 g3
  have hb : backSubst j w.h.H w.h.s = backSubst j w'.h.H w'.h.s := by
    rw [hs]
    exact backSubst_rel j w.h.H w'.h.H w'.h.s (fun i k hi hk => hH i k hi (by omega))
  have hdx : linComb (combList j (backSubst j w.h.H w.h.s).get w.v.get) 0 w.r
      = linComb (combList j (backSubst j w'.h.H w'.h.s).get w'.v.get) 0 w'.r := by
    rw [hb, combList_congr j _ _ w.v.get w'.v.get (fun _ _ => rfl) (fun i hi => hv i (by omega))]
    obtain ⟨m, rfl⟩ : ∃ m, j = m + 1 := ⟨j - 1, by omega⟩
    rw [combList_succ]
    exact linComb_zero_indep _ _ _ _
  cases side with
  | left =>
    refine ⟨rfl, h2, ?_⟩
    show axpby 1 (linComb (combList j (backSubst j w.h.H w.h.s).get w.v.get) 0 w.r) 1 st.x
      = axpby 1 (linComb (combList j (backSubst j w'.h.H w'.h.s).get w'.v.get) 0 w'.r) 1 st'.x
    rw [hdx, h3]
  | right =>
    refine ⟨rfl, h2, ?_⟩
    show axpby 1 (P (linComb (combList j (backSubst j w.h.H w.h.s).get w.v.get) 0 w.r)) 1 st.x
      = axpby 1 (P (linComb (combList j (backSubst j w'.h.H w'.h.s).get w'.v.get) 0 w'.r)) 1 st'.x
    rw [hdx, h3]

theorem cycle_rel (prm : Params K) (ip : Vec K → Vec K → K) (sqrt : K → K) (A : CRS K) (P : Vec K → Vec K)
    (epsT : K) (st st' : St K) (h : RelSt st st') :
    (cycle prm ip sqrt A P epsT st).iter = (cycle prm ip sqrt A P epsT st').iter ∧
    (cycle prm ip sqrt A P epsT st).normR = (cycle prm ip sqrt A P epsT st').normR ∧
    (cycle prm ip sqrt A P epsT st).x = (cycle prm ip sqrt A P epsT st').x := by
  obtain ⟨hi, hj⟩ := inner_rel prm ip sqrt A P epsT st st' h
  exact update_rel prm.pside P st st' _ _ h hi hj

/-- `head` reads `iter` (copied) and `x` only -/
theorem head_rel (side : Side) (ip : Vec K → Vec K → K) (sqrt : K → K) (A : CRS K) (P : Vec K → Vec K) (f : Vec K)
    (st st' : St K) (hi : st.iter = st'.iter) (hx : st.x = st'.x) :
    RelSt (head side ip sqrt A P f st) (head side ip sqrt A P f st') := by
  unfold RelSt
  rw [head_iter, head_iter, head_normR, head_normR, head_x, head_x, head_r, head_r, hi, hx]
  exact ⟨rfl, rfl, rfl, rfl⟩

theorem stop_rel (maxiter : Nat) (epsT : K) (s s' : St K) (h : RelSt s s') :
    stop maxiter epsT s = stop maxiter epsT s' := by
  obtain ⟨h1, h2, _⟩ := h
  simp only [stop, h1, h2]

/-- the states at the final `break` of two calls that differ in the incoming work arrays only -/
theorem final_relSt (prm : Params K) (ip : Vec K → Vec K → K) (sqrt : K → K) (A : CRS K) (P : Vec K → Vec K)
    (ws ws' : Work K) (f x0 : Vec K) (nf : K) :
    RelSt (final prm ip sqrt A P ws f x0 nf) (final prm ip sqrt A P ws' f x0 nf) := by
  unfold final outer
  apply loopN_rel _ _ RelSt
  · intro s s' h; rw [stop_rel _ _ s s' h]
  · intro s s' h _
    obtain ⟨c1, _, c3⟩ := cycle_rel prm ip sqrt A P (epsTol prm nf) s s' h
    exact head_rel prm.pside ip sqrt A P f _ _ c1 c3
  · unfold init
    exact head_rel prm.pside ip sqrt A P f _ _ rfl rfl

/-- **GMRES never reads a work-array cell it has not written**: iteration count, reported residual norm and the
returned `x` are the same for every content of `H, s, cs, sn, r, v[]` on entry — for every matrix, every function
`P`, both preconditioning sides -/
theorem final_rel (prm : Params K) (ip : Vec K → Vec K → K) (sqrt : K → K) (A : CRS K) (P : Vec K → Vec K)
    (ws ws' : Work K) (f x0 : Vec K) (nf : K) :
    (final prm ip sqrt A P ws f x0 nf).iter = (final prm ip sqrt A P ws' f x0 nf).iter ∧
    (final prm ip sqrt A P ws f x0 nf).normR = (final prm ip sqrt A P ws' f x0 nf).normR ∧
    (final prm ip sqrt A P ws f x0 nf).x = (final prm ip sqrt A P ws' f x0 nf).x := by
  obtain ⟨h1, h2, h3, _⟩ := final_relSt prm ip sqrt A P ws ws' f x0 nf
  exact ⟨h1, h2, h3⟩

/-- what a caller observes of a GMRES call does not depend on the content of the work arrays on entry -/
theorem run_obs_indep (prm : Params K) (ip : Vec K → Vec K → K) (sqrt : K → K) (eps : K) (A : CRS K)
    (P : Vec K → Vec K) (ws ws' : Work K) (f x0 : Vec K) :
    (run prm ip sqrt eps A P ws f x0).obs = (run prm ip sqrt eps A P ws' f x0).obs := by
  cases hp : prologueA prm.nsSearch ip sqrt eps f with
  | trivial n => rw [run_trivial _ _ _ _ _ _ _ _ _ n hp, run_trivial _ _ _ _ _ _ _ _ _ n hp]; rfl
  | go nf =>
    rw [run_go _ _ _ _ _ _ _ _ _ nf hp, run_go _ _ _ _ _ _ _ _ _ nf hp]
    obtain ⟨h1, h2, h3⟩ := final_rel prm ip sqrt A P ws ws' f x0 nf
    simp only [Run.obs, h1, h2, h3]

/-- hence every call of every history on ONE GMRES object returns what a fresh object returns for that call -/
theorem history_eq_fresh (prm : Params K) (ip : Vec K → Vec K → K) (sqrt : K → K) (eps : K)
    (w w0 : Work K) (cs : List (Call K)) :
    history (call prm ip sqrt eps) w cs = cs.map (fun c => (call prm ip sqrt eps w0 c).1) :=
  history_eq_fresh_of_indep _ (fun a b c => run_obs_indep prm ip sqrt eps c.A c.P a b c.f c.x0) w0 w cs

end Amgcl.Solver.GMRES
