import Amgcl.Model.Deflation
import Amgcl.Properties.C07
import Amgcl.Proofs.RowGet
import Amgcl.Proofs.InverseMatrix
import Mathlib.Tactic.Ring
import Mathlib.Algebra.BigOperators.Group.Finset.Sigma
/-!
Helper lemmas for the deflated solver (C18): entrywise specifications of `lin_comb`, the inner products, the
coefficient loop and the `E = Zᵀ A Z` loop, and the projection identity `Zᵀ (b - A x') = 0`.
-/
namespace Amgcl.Deflation
open Amgcl Finset

section lists
variable {K : Type} [CommRing K]

theorem toList_getD {α : Type} (x : Array α) (i : Nat) (d : α) : x.toList.getD i d = x.getD i d := by
  simp [Array.getD, List.getD_eq_getElem?_getD]
  split <;> simp_all

/-- a sum over a zipped pair of lists of equal length is the sum over the common index range -/
theorem sum_zip_map {α β : Type} (g : α → β → K) (a0 : α) (b0 : β) (l1 : List α) (l2 : List β)
    (h : l1.length = l2.length) :
    ((l1.zip l2).map (fun p => g p.1 p.2)).sum = ∑ i ∈ range l1.length, g (l1.getD i a0) (l2.getD i b0) := by
  induction l1 generalizing l2 with
  | nil => simp
  | cons a t ih =>
    cases l2 with
    | nil => simp at h
    | cons b t2 =>
      have ht : t.length = t2.length := by simpa using h
      simp only [List.zip_cons_cons, List.map_cons, List.sum_cons, List.length_cons, ih t2 ht]
      rw [Finset.sum_range_succ']
      simp [add_comm]

end lists

section ring
variable {K : Type} [CommRing K] [DecidableEq K]

/-- `lin_comb` tail loops: the output is `y + Σ c·v` entrywise, and keeps the size of `y` -/
theorem linCombTail_spec (cvs : List (K × Vec K)) (y : Vec K) (h : ∀ cv ∈ cvs, cv.2.size = y.size) :
    (linCombTail cvs y).size = y.size ∧
    ∀ i, i < y.size → (linCombTail cvs y).getD i 0 = y.getD i 0 + (cvs.map (fun cv => cv.1 * cv.2.getD i 0)).sum := by
  induction cvs, y using linCombTail.induct with
  | case1 c1 v1 c2 v2 rest y ih =>
    have h1 : v1.size = y.size := h (c1, v1) (by simp)
    have h2 : v2.size = y.size := h (c2, v2) (by simp)
    have hs : (axpbypcz c1 v1 c2 v2 1 y).size = y.size := by unfold axpbypcz; split <;> simp [h1]
    have ihh := ih (fun cv hcv => by rw [hs]; exact h cv (by simp [hcv]))
    unfold linCombTail
    refine ⟨by rw [ihh.1, hs], ?_⟩
    intro i hi
    rw [ihh.2 i (by rw [hs]; exact hi), C07.axpbypcz_spec _ _ _ _ _ _ i (by rw [h1]; exact hi)]
    simp only [List.map_cons, List.sum_cons]
    ring
  | case2 c v y =>
    have h1 : v.size = y.size := h (c, v) (by simp)
    unfold linCombTail
    refine ⟨by unfold axpby; split <;> simp [h1], ?_⟩
    intro i hi
    rw [C07.axpby_spec _ _ _ _ i (by rw [h1]; exact hi)]
    simp; ring
  | case3 y => unfold linCombTail; simp

theorem linComb_spec (cvs : List (K × Vec K)) (α : K) (y : Vec K) (hne : cvs ≠ []) (h : ∀ cv ∈ cvs, cv.2.size = y.size) :
    (linComb cvs α y).size = y.size ∧
    ∀ i, i < y.size → (linComb cvs α y).getD i 0 = α * y.getD i 0 + (cvs.map (fun cv => cv.1 * cv.2.getD i 0)).sum := by
  cases cvs with
  | nil => exact absurd rfl hne
  | cons cv rest =>
    obtain ⟨c, v⟩ := cv
    have h1 : v.size = y.size := h (c, v) (by simp)
    have hs : (axpby c v α y).size = y.size := by unfold axpby; split <;> simp [h1]
    have ht := linCombTail_spec rest (axpby c v α y) (fun cv hcv => by rw [hs]; exact h cv (by simp [hcv]))
    unfold linComb
    refine ⟨by rw [ht.1, hs], ?_⟩
    intro i hi
    rw [ht.2 i (by rw [hs]; exact hi), C07.axpby_spec _ _ _ _ i (by rw [h1]; exact hi)]
    simp only [List.map_cons, List.sum_cons]
    ring

/-- the (Kahan, possibly chunked) inner product is the plain sum over the index range -/
theorem innerProduct_eq (nt : Nat) (hnt : 0 < nt) (x y : Vec K) (h : x.size = y.size) :
    innerProduct id nt x y = ∑ i ∈ range x.size, x.getD i 0 * y.getD i 0 := by
  have hs : innerProductSerial id x y = ∑ i ∈ range x.size, x.getD i 0 * y.getD i 0 := by
    rw [C07.kahan_eq_sum]
    have := sum_zip_map (fun (a b : K) => a * b) 0 0 x.toList y.toList (by simp [h])
    simp only [id, Array.length_toList, toList_getD] at this ⊢
    exact this
  unfold innerProduct
  split
  · rw [C07.parallel_ip_eq_serial id nt hnt x y h, hs]
  · exact hs

end ring

end Amgcl.Deflation

namespace Amgcl.Deflation
open Amgcl Finset

section algebra
variable {K : Type} [CommRing K]

/-- the projection identity in index form: with `E = Zᵀ A Z` and `E · Einv = 1`, the corrected iterate has a residual
orthogonal to every deflation vector -/
theorem proj_algebra (n nv : Nat) (z a : Nat → Nat → K) (bv xv : Nat → K) (Ei : Nat → Nat → K)
    (hinv : ∀ k j, k < nv → j < nv →
      ∑ i ∈ range nv, (∑ l ∈ range n, z k l * ∑ c ∈ range n, a l c * z i c) * Ei i j = if k = j then 1 else 0)
    (k : Nat) (hk : k < nv) :
    ∑ l ∈ range n, z k l *
      (bv l - ∑ c ∈ range n, a l c *
        (xv c + ∑ i ∈ range nv, (∑ j ∈ range nv, Ei i j * ∑ m ∈ range n, z j m * (bv m - ∑ c' ∈ range n, a m c' * xv c'))
          * z i c)) = 0 := by
  set r : Nat → K := fun m => bv m - ∑ c' ∈ range n, a m c' * xv c' with hr
  set zr : Nat → K := fun j => ∑ m ∈ range n, z j m * r m with hzr
  set d : Nat → K := fun i => ∑ j ∈ range nv, Ei i j * zr j with hd
  set E : Nat → Nat → K := fun k i => ∑ l ∈ range n, z k l * ∑ c ∈ range n, a l c * z i c with hE
  have h1 : ∀ l, bv l - ∑ c ∈ range n, a l c * (xv c + ∑ i ∈ range nv, d i * z i c)
      = r l - ∑ i ∈ range nv, d i * ∑ c ∈ range n, a l c * z i c := by
    intro l
    simp only [hr, mul_add, Finset.sum_add_distrib, Finset.mul_sum]
    rw [Finset.sum_comm]
    have : ∀ i ∈ range nv, ∑ c ∈ range n, a l c * (d i * z i c) = ∑ c ∈ range n, d i * (a l c * z i c) := by
      intro i _; apply Finset.sum_congr rfl; intro c _; ring
    rw [Finset.sum_congr rfl this]
    ring
  have h2 : ∑ l ∈ range n, z k l * (r l - ∑ i ∈ range nv, d i * ∑ c ∈ range n, a l c * z i c)
      = zr k - ∑ i ∈ range nv, d i * E k i := by
    simp only [mul_sub, Finset.sum_sub_distrib, hzr, hE]
    congr 1
    simp only [Finset.mul_sum]
    rw [Finset.sum_comm]
    apply Finset.sum_congr rfl; intro i _
    apply Finset.sum_congr rfl; intro l _
    apply Finset.sum_congr rfl; intro c _
    ring
  have h3 : ∑ i ∈ range nv, d i * E k i = zr k := by
    have : ∑ i ∈ range nv, d i * E k i = ∑ j ∈ range nv, (∑ i ∈ range nv, E k i * Ei i j) * zr j := by
      simp only [hd, Finset.sum_mul]
      rw [Finset.sum_comm]
      apply Finset.sum_congr rfl; intro j _
      apply Finset.sum_congr rfl; intro i _
      ring
    rw [this]
    have : ∀ j ∈ range nv, (∑ i ∈ range nv, E k i * Ei i j) * zr j = if k = j then zr j else 0 := by
      intro j hj
      rw [hinv k j hk (Finset.mem_range.1 hj)]
      split <;> simp
    rw [Finset.sum_congr rfl this, Finset.sum_ite_eq]
    simp [hk]
  calc _ = ∑ l ∈ range n, z k l * (r l - ∑ i ∈ range nv, d i * ∑ c ∈ range n, a l c * z i c) := by
        apply Finset.sum_congr rfl; intro l _; rw [← h1 l]
    _ = 0 := by rw [h2, h3, sub_self]

end algebra

end Amgcl.Deflation

namespace Amgcl.Deflation
open Amgcl Finset

section specs
variable {K : Type} [Field K] [LinearOrder K]

theorem coeffs_fold (nv : Nat) (Einv : Array K) (ip : Nat → K) (m : Nat) :
    (List.range m).foldl (fun (d : Array K) j =>
        Array.ofFn (n := nv) (fun i => d.getD i.val 0 + Einv.getD (i.val * nv + j) 0 * ip j)) (Array.replicate nv 0)
      = Array.ofFn (n := nv) (fun i => ∑ j ∈ range m, Einv.getD (i.val * nv + j) 0 * ip j) := by
  induction m with
  | zero =>
    apply Array.ext
    · simp
    · intro i h1 h2; simp
  | succ k ih =>
    rw [List.range_succ, List.foldl_append, ih]
    simp only [List.foldl_cons, List.foldl_nil]
    apply Array.ext
    · simp
    · intro i h1 h2
      have hi : i < nv := by simpa using h1
      simp only [Array.getElem_ofFn]
      rw [getD_ofFn_lt _ _ _ hi, Finset.sum_range_succ]

theorem coeffs_spec (nt : Nat) (st : State K) (r : Vec K) (i : Nat) (hi : i < st.Z.size) :
    (coeffs nt st r).getD i 0
      = ∑ j ∈ range st.Z.size, st.Einv.getD (i * st.Z.size + j) 0 * innerProduct id nt (st.Z.getD j #[]) r := by
  unfold coeffs
  have := coeffs_fold st.Z.size st.Einv (fun j => innerProduct id nt (st.Z.getD j #[]) r) st.Z.size
  simp only at this ⊢
  rw [this, getD_ofFn_lt _ _ _ hi]

theorem coeffs_size (nt : Nat) (st : State K) (r : Vec K) : (coeffs nt st r).size = st.Z.size := by
  unfold coeffs
  have := coeffs_fold st.Z.size st.Einv (fun j => innerProduct id nt (st.Z.getD j #[]) r) st.Z.size
  simp only at this ⊢
  rw [this]; simp

/-- the accumulation loop of `init`: `E[q] = Σ_i Z_{q / nv}[i] · (A Z_{q % nv})[i]` -/
theorem mkE_fold (A : CRS K) (Z : Array (Vec K)) (m : Nat) :
    (List.range m).foldl (fun (E : Array K) i =>
        let AZ : Array K := Array.ofFn (n := Z.size) (fun j =>
          (A.row i).foldl (fun s a => s + a.2 * (Z.getD j.val #[]).getD a.1 0) 0)
        Array.ofFn (n := Z.size * Z.size) (fun k =>
          E.getD k.val 0 + (Z.getD (k.val / Z.size) #[]).getD i 0 * AZ.getD (k.val % Z.size) 0))
        (Array.replicate (Z.size * Z.size) 0)
      = Array.ofFn (n := Z.size * Z.size) (fun q =>
          ∑ i ∈ range m, (Z.getD (q.val / Z.size) #[]).getD i 0 * rowDot (A.row i) (Z.getD (q.val % Z.size) #[])) := by
  induction m with
  | zero =>
    apply Array.ext
    · simp
    · intro i h1 h2; simp
  | succ k ih =>
    rw [List.range_succ, List.foldl_append, ih]
    simp only [List.foldl_cons, List.foldl_nil]
    apply Array.ext
    · simp
    · intro q h1 h2
      have hq : q < Z.size * Z.size := by simpa using h1
      have hnv : 0 < Z.size := by
        rcases Nat.eq_zero_or_pos Z.size with h | h
        · rw [h] at hq; simp at hq
        · exact h
      simp only [Array.getElem_ofFn]
      rw [getD_ofFn_lt _ _ _ hq, getD_ofFn_lt _ _ _ (Nat.mod_lt q hnv), Finset.sum_range_succ]
      rfl

theorem mkE_spec (A : CRS K) (hA : A.WF) (Z : Array (Vec K)) (k j : Nat) (hk : k < Z.size) (hj : j < Z.size) :
    (mkE A Z).getD (k * Z.size + j) 0
      = ∑ i ∈ range A.nrows, (Z.getD k #[]).getD i 0 *
          ∑ c ∈ range A.ncols, A.get i c * (Z.getD j #[]).getD c 0 := by
  unfold mkE
  have := mkE_fold A Z A.nrows
  simp only at this ⊢
  rw [this]
  have hq : k * Z.size + j < Z.size * Z.size := by
    calc k * Z.size + j < k * Z.size + Z.size := by omega
      _ = (k + 1) * Z.size := by ring
      _ ≤ Z.size * Z.size := Nat.mul_le_mul_right _ hk
  rw [getD_ofFn_lt _ _ _ hq]
  have h1 : (k * Z.size + j) / Z.size = k := by
    rw [Nat.add_comm, Nat.add_mul_div_right _ _ (by omega), Nat.div_eq_of_lt hj, Nat.zero_add]
  have h2 : (k * Z.size + j) % Z.size = j := by
    rw [Nat.add_comm, Nat.add_mul_mod_self_right, Nat.mod_eq_of_lt hj]
  simp only [h1, h2]
  apply Finset.sum_congr rfl
  intro i _
  rw [rowDot_eq_sum (A.row i) _ A.ncols (CRS.WF.row_lt hA i)]
  rfl

/-- **projection**: after `project`, the residual is orthogonal to every deflation vector — provided the stored
matrix is a right inverse of `E = Zᵀ A Z` (exactness of `detail::inverse` is C16's subject) -/
theorem project_orth (nt : Nat) (hnt : 0 < nt) (A : CRS K) (hA : A.WF) (n : Nat) (hn : A.nrows = n) (hc : A.ncols = n)
    (Z : Array (Vec K)) (hZ : ∀ j, j < Z.size → (Z.getD j #[]).size = n) (hnv : 0 < Z.size) (Einv : Array K)
    (hinv : ∀ k j, k < Z.size → j < Z.size →
      ∑ i ∈ range Z.size, (mkE A Z).getD (k * Z.size + i) 0 * Einv.getD (i * Z.size + j) 0 = if k = j then 1 else 0)
    (b x : Vec K) (hb : b.size = n) (hx : x.size = n) (k : Nat) (hk : k < Z.size) :
    ∑ l ∈ range n, (Z.getD k #[]).getD l 0 *
      (residual b A (project nt { A := A, Z := Z, Einv := Einv } b x)).getD l 0 = 0 := by
  subst hn
  set st : State K := { A := A, Z := Z, Einv := Einv } with hst
  set r := residual b A x with hr
  have hrs : r.size = A.nrows := by rw [hr]; simp [residual]
  -- the corrected iterate
  have hcv : ∀ cv ∈ (coeffs nt st r).toList.zip Z.toList, cv.2.size = x.size := by
    intro cv hcv
    have := (List.of_mem_zip hcv).2
    obtain ⟨j, hj, hje⟩ := List.getElem_of_mem this
    have hj' : j < Z.size := by simpa using hj
    have := hZ j hj'
    rw [hx]
    simp only [Array.getD, hj', dite_true] at this
    rw [← hje]; simpa using this
  have hne : (coeffs nt st r).toList.zip Z.toList ≠ [] := by
    intro h
    have hl : ((coeffs nt st r).toList.zip Z.toList).length = Z.size := by simp [coeffs_size, hst]
    rw [h] at hl
    simp at hl
    omega
  have hlc := linComb_spec _ 1 x hne hcv
  have hxl : ∀ l, l < A.nrows → (project nt st b x).getD l 0
      = x.getD l 0 + ∑ i ∈ range Z.size, (coeffs nt st r).getD i 0 * (Z.getD i #[]).getD l 0 := by
    intro l hl
    unfold project
    rw [hlc.2 l (by rw [hx]; exact hl)]
    have := sum_zip_map (fun (c : K) (v : Vec K) => c * v.getD l 0) 0 #[] (coeffs nt st r).toList Z.toList
      (by simp [coeffs_size, hst])
    simp only [Array.length_toList, toList_getD, coeffs_size] at this
    rw [this, one_mul]
  -- unfold everything to index form and apply the algebraic identity
  have hres : ∀ l, l < A.nrows → (residual b A (project nt st b x)).getD l 0
      = b.getD l 0 - ∑ c ∈ range A.nrows, A.get l c * (project nt st b x).getD c 0 := by
    intro l hl
    rw [C07.residual_spec b A _ hA l hl, hc]
  have hr0 : ∀ l, l < A.nrows → r.getD l 0 = b.getD l 0 - ∑ c ∈ range A.nrows, A.get l c * x.getD c 0 := by
    intro l hl
    rw [hr, C07.residual_spec b A _ hA l hl, hc]
  have hd : ∀ i, i < Z.size → (coeffs nt st r).getD i 0
      = ∑ j ∈ range Z.size, Einv.getD (i * Z.size + j) 0 *
          ∑ m ∈ range A.nrows, (Z.getD j #[]).getD m 0 * (b.getD m 0 - ∑ c ∈ range A.nrows, A.get m c * x.getD c 0) := by
    intro i hi
    rw [coeffs_spec nt st r i hi]
    apply Finset.sum_congr rfl
    intro j hj
    have hj' := Finset.mem_range.1 hj
    rw [innerProduct_eq nt hnt _ _ (by rw [hZ j hj', hrs]), hZ j hj']
    congr 1
    apply Finset.sum_congr rfl
    intro m hm
    rw [hr0 m (Finset.mem_range.1 hm)]
  have key := proj_algebra A.nrows Z.size (fun j l => (Z.getD j #[]).getD l 0) (fun l c => A.get l c)
    (fun l => b.getD l 0) (fun l => x.getD l 0) (fun i j => Einv.getD (i * Z.size + j) 0)
    (by
      intro k j hk hj
      have := hinv k j hk hj
      rw [← this]
      apply Finset.sum_congr rfl
      intro i hi
      rw [mkE_spec A hA Z k i hk (Finset.mem_range.1 hi), hc]) k hk
  refine Eq.trans ?_ key
  apply Finset.sum_congr rfl
  intro l hl
  have hl' := Finset.mem_range.1 hl
  rw [hres l hl']
  congr 2
  apply Finset.sum_congr rfl
  intro c hcm
  have hc' := Finset.mem_range.1 hcm
  rw [hxl c hc']
  congr 2
  apply Finset.sum_congr rfl
  intro i hi
  rw [hd i (Finset.mem_range.1 hi)]

end specs

end Amgcl.Deflation

namespace Amgcl.Deflation
open Amgcl Finset

section fixed
variable {K : Type} [Field K] [LinearOrder K]

/-- an iterate whose residual vanishes is left unchanged by `project` -/
theorem project_fixed (nt : Nat) (hnt : 0 < nt) (A : CRS K) (n : Nat) (hn : A.nrows = n)
    (Z : Array (Vec K)) (hZ : ∀ j, j < Z.size → (Z.getD j #[]).size = n) (hnv : 0 < Z.size) (Einv : Array K)
    (b y : Vec K) (hy : y.size = n) (hres : ∀ l, l < n → (residual b A y).getD l 0 = 0) :
    project nt { A := A, Z := Z, Einv := Einv } b y = y := by
  subst hn
  set st : State K := { A := A, Z := Z, Einv := Einv } with hst
  set r := residual b A y with hr
  have hrs : r.size = A.nrows := by rw [hr]; simp [residual]
  have hcv : ∀ cv ∈ (coeffs nt st r).toList.zip Z.toList, cv.2.size = y.size := by
    intro cv hcv
    have := (List.of_mem_zip hcv).2
    obtain ⟨j, hj, hje⟩ := List.getElem_of_mem this
    have hj' : j < Z.size := by simpa using hj
    have := hZ j hj'
    rw [hy]
    simp only [Array.getD, hj', dite_true] at this
    rw [← hje]; simpa using this
  have hne : (coeffs nt st r).toList.zip Z.toList ≠ [] := by
    intro h
    have hl : ((coeffs nt st r).toList.zip Z.toList).length = Z.size := by simp [coeffs_size, hst]
    rw [h] at hl
    simp at hl
    omega
  have hlc := linComb_spec _ 1 y hne hcv
  have hd : ∀ i, i < Z.size → (coeffs nt st r).getD i 0 = 0 := by
    intro i hi
    rw [coeffs_spec nt st r i hi]
    apply Finset.sum_eq_zero
    intro j hj
    have hj' := Finset.mem_range.1 hj
    rw [innerProduct_eq nt hnt _ _ (by rw [hZ j hj', hrs]), hZ j hj']
    have : ∑ m ∈ range A.nrows, (st.Z.getD j #[]).getD m 0 * r.getD m 0 = 0 := by
      apply Finset.sum_eq_zero
      intro m hm
      rw [hres m (Finset.mem_range.1 hm), mul_zero]
    rw [this, mul_zero]
  unfold project
  apply Vec.ext_getD (0 : K) hlc.1
  intro l hl
  rw [hlc.1] at hl
  rw [hlc.2 l hl]
  have := sum_zip_map (fun (c : K) (v : Vec K) => c * v.getD l 0) 0 #[] (coeffs nt st r).toList Z.toList
    (by simp [coeffs_size, hst])
  simp only [Array.length_toList, toList_getD, coeffs_size] at this
  rw [this, one_mul]
  have : ∑ i ∈ range st.Z.size, (coeffs nt st r).getD i 0 * (Z.getD i #[]).getD l 0 = 0 := by
    apply Finset.sum_eq_zero
    intro i hi
    rw [hd i (Finset.mem_range.1 hi), zero_mul]
  rw [this, add_zero]

end fixed

end Amgcl.Deflation

namespace Amgcl.Deflation
open Amgcl Finset

section inv
variable {K : Type} [Field K] [LinearOrder K] [IsStrictOrderedRing K]

theorem mkE_size (A : CRS K) (Z : Array (Vec K)) : (mkE A Z).size = Z.size * Z.size := by
  unfold mkE
  have := mkE_fold A Z A.nrows
  simp only at this ⊢
  rw [this]; simp

/-- what `init` stores: for a non-singular `E = Zᵀ A Z` the result of `detail::inverse` is a right inverse (C16) -/
theorem init_right_inv (A : CRS K) (Z : Array (Vec K)) (st : State K) (hst : init A Z = some st)
    (hdet : (matOf Z.size (mkE A Z)).det ≠ 0) :
    st.A = A ∧ st.Z = Z ∧ ∀ k j, k < Z.size → j < Z.size →
      ∑ i ∈ range Z.size, (mkE A Z).getD (k * Z.size + i) 0 * st.Einv.getD (i * Z.size + j) 0
        = if k = j then 1 else 0 := by
  unfold init at hst
  simp only at hst
  split at hst
  · cases hst
  · simp only [Option.some.injEq] at hst
    subst hst
    refine ⟨rfl, rfl, ?_⟩
    intro k j hk hj
    exact inverse_right_inv (mkE A Z) _ _ (mkE_size A Z) (by simp) (by simp) (nonsing_of_det _ _ hdet) k j hk hj

end inv

end Amgcl.Deflation
