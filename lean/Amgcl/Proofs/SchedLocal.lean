import Amgcl.Model.ScheduleLocal
import Amgcl.Proofs.SchedSort
import Amgcl.Proofs.SchedMicro
/-!
Step 4 of the constructors (`Model/ScheduleLocal.lean`): the literal fill loops equal a closed form (`locSpec`):
`ord` = the rows of the thread's tasks in task order, `col`/`val` = the concatenation of those rows of `A`,
`ptr` = the running entry count, tasks = consecutive local ranges.  From the closed form: every local row is the row
`ord[r]` of `A` (`locSpec_row`), a task's local range gathers exactly the rows of the task (`locSpec_task_rows`).
(Imports `SchedMicro`/`SchedKernels` for `Interleave.flatten`, `foldl_congr_mem`; no algebra is used.)
-/
namespace Amgcl.Sched

section fill
set_option linter.unusedSectionVars false
variable {K : Type} [Zero K]

/-! ### closed form of the thread-local tables -/

/-- the stored entries of the rows `is` of `A`, concatenated -/
def locEntries (A : CRS K) (is : List Nat) : List (Nat × K) := is.flatMap (fun i => A.row i)

/-- `ptr`: number of entries in front of local row `r`, `r = 0..|is|` -/
def locPtr (A : CRS K) (is : List Nat) : List Nat :=
  (List.range (is.length + 1)).map fun r => (locEntries A (is.take r)).length

/-- the state of step 4 after the rows `is` have been pushed, with re-based tasks `tk` -/
def locState (A : CRS K) (hasD : Bool) (Dv : Vec K) (tk : List (Nat × Nat)) (is : List Nat) : Loc K where
  tasks := tk
  ptr := (locPtr A is).toArray
  col := ((locEntries A is).map Prod.fst).toArray
  val := ((locEntries A is).map Prod.snd).toArray
  ord := is.toArray
  D := if hasD then (is.map fun i => Dv.getD i 0).toArray else #[]

/-- the thread-specific storage of a thread whose tasks consist of the rows `ts` (`[lev] ↦` rows) -/
def locSpec (A : CRS K) (hasD : Bool) (Dv : Vec K) (ts : List (List Nat)) : Loc K :=
  locState A hasD Dv (localTasks ts) ts.flatten

theorem pushEntries_eq (row : Row K) (col : Array Nat) (val : Array K) :
    pushEntries row col val = (col ++ (row.map Prod.fst).toArray, val ++ (row.map Prod.snd).toArray) := by
  unfold pushEntries
  induction row generalizing col val with
  | nil => simp
  | cons a t ih =>
    rw [List.foldl_cons, ih]
    congr 1 <;> (apply Array.ext'; simp)

theorem locEntries_append (A : CRS K) (is js : List Nat) :
    locEntries A (is ++ js) = locEntries A is ++ locEntries A js := by
  simp [locEntries]

theorem locPtr_snoc (A : CRS K) (is : List Nat) (i : Nat) :
    locPtr A (is ++ [i]) = locPtr A is ++ [(locEntries A (is ++ [i])).length] := by
  unfold locPtr
  rw [List.length_append, List.length_singleton, List.range_succ (n := is.length + 1), List.map_append]
  congr 1
  · apply List.map_congr_left
    intro r hr
    have : r ≤ is.length := by have := List.mem_range.mp hr; omega
    rw [List.take_append_of_le_length this]
  · have : List.take (is.length + 1) (is ++ [i]) = is ++ [i] := List.take_of_length_le (by simp)
    simp [this]

/-- one row pushed -/
theorem locPushRow_state (A : CRS K) (hasD : Bool) (Dv : Vec K) (tk : List (Nat × Nat)) (is : List Nat) (i : Nat) :
    locPushRow A hasD Dv (locState A hasD Dv tk is) i = locState A hasD Dv tk (is ++ [i]) := by
  unfold locPushRow
  rw [pushEntries_eq]
  unfold locState
  simp only [Loc.mk.injEq, true_and]
  have hcol : ((locEntries A is).map Prod.fst).toArray ++ ((A.row i).map Prod.fst).toArray
      = ((locEntries A (is ++ [i])).map Prod.fst).toArray := by
    simp [locEntries]
  have hval : ((locEntries A is).map Prod.snd).toArray ++ ((A.row i).map Prod.snd).toArray
      = ((locEntries A (is ++ [i])).map Prod.snd).toArray := by
    simp [locEntries]
  refine ⟨?_, hcol, hval, by simp, ?_⟩
  · rw [hcol, locPtr_snoc]
    simp
  · cases hasD <;> simp

theorem locState_ptr_size (A : CRS K) (hasD : Bool) (Dv : Vec K) (tk : List (Nat × Nat)) (is : List Nat) :
    (locState A hasD Dv tk is).ptr.size = is.length + 1 := by
  simp [locState, locPtr]

/-- the row loop of one task -/
theorem locFillRows (A : CRS K) (hasD : Bool) (Dv : Vec K) (tk : List (Nat × Nat)) (js : List Nat) (is : List Nat)
    (e : Nat) :
    js.foldl (fun (s : Loc K × Nat) j => (locPushRow A hasD Dv s.1 j, s.2 + 1)) (locState A hasD Dv tk is, e)
      = (locState A hasD Dv tk (is ++ js), e + js.length) := by
  induction js generalizing is e with
  | nil => simp
  | cons j t ih =>
    rw [List.foldl_cons, locPushRow_state, ih]
    simp [Nat.add_comm, Nat.add_left_comm]

theorem locFillTask_state (A : CRS K) (hasD : Bool) (Dv : Vec K) (order : Array Nat) (tk : List (Nat × Nat))
    (is : List Nat) (t : Nat × Nat) :
    locFillTask A hasD Dv order (locState A hasD Dv tk is) t
      = locState A hasD Dv (tk ++ [(is.length, is.length + (taskRowsLit order t).length)])
          (is ++ taskRowsLit order t) := by
  unfold locFillTask
  have h := locFillRows A hasD Dv tk (taskRowsLit order t) is ((locState A hasD Dv tk is).ptr.size - 1)
  unfold taskRowsLit at h
  rw [List.foldl_map] at h
  simp only [] at h ⊢
  rw [h, locState_ptr_size]
  simp [locState, taskRowsLit]

theorem localTasks_fold (ts : List (List Nat)) (acc : List (Nat × Nat)) (off : Nat) :
    ts.foldl (fun (acc : List (Nat × Nat) × Nat) rows => (acc.1 ++ [(acc.2, acc.2 + rows.length)], acc.2 + rows.length))
        (acc, off)
      = (acc ++ ((ts.foldl (fun (acc : List (Nat × Nat) × Nat) rows =>
            (acc.1 ++ [(acc.2, acc.2 + rows.length)], acc.2 + rows.length)) ([], off)).1), off + ts.flatten.length) := by
  induction ts generalizing acc off with
  | nil => simp
  | cons a t ih =>
    rw [List.foldl_cons, List.foldl_cons, ih, ih (acc := [] ++ _)]
    simp [Nat.add_assoc]

theorem localTasks_snoc (ts : List (List Nat)) (rows : List Nat) :
    localTasks (ts ++ [rows]) = localTasks ts ++ [(ts.flatten.length, ts.flatten.length + rows.length)] := by
  unfold localTasks
  rw [List.foldl_append, localTasks_fold ts [] 0]
  simp

theorem locFill_fold (A : CRS K) (hasD : Bool) (Dv : Vec K) (order : Array Nat) (tasks : List (Nat × Nat))
    (done : List (List Nat)) :
    tasks.foldl (locFillTask A hasD Dv order) (locSpec A hasD Dv done)
      = locSpec A hasD Dv (done ++ tasks.map (taskRowsLit order)) := by
  induction tasks generalizing done with
  | nil => simp
  | cons t rest ih =>
    rw [List.foldl_cons]
    unfold locSpec at ih ⊢
    rw [locFillTask_state, ← localTasks_snoc]
    have : done.flatten ++ taskRowsLit order t = (done ++ [taskRowsLit order t]).flatten := by simp
    rw [this, ih]
    simp

/-- **step 4, statement by statement = its closed form** -/
theorem locFill_eq (A : CRS K) (hasD : Bool) (Dv : Vec K) (order : Array Nat) (tasks : List (Nat × Nat)) :
    locFill A hasD Dv order tasks = locSpec A hasD Dv (tasks.map (taskRowsLit order)) := by
  have h := locFill_fold A hasD Dv order tasks []
  have h0 : (Loc.init : Loc K) = locSpec A hasD Dv [] := by
    unfold Loc.init locSpec locState localTasks locPtr locEntries
    cases hasD <;> simp
  unfold locFill
  rw [h0, h]
  simp

/-- the literal constructor = the closed form applied to the literal task table -/
theorem constructorLoc_eq (A : CRS K) (hasD : Bool) (Dv : Vec K) (ln : Array Nat × Nat) (nt : Nat) :
    constructorLoc A hasD Dv ln nt = (constructorLit ln nt).map (locSpec A hasD Dv) := by
  unfold constructorLoc constructorLit scheduleLitN
  simp only [List.map_map]
  apply List.map_congr_left
  intro t _
  exact locFill_eq A hasD Dv _ t

/-! ### reading the closed form -/

theorem flatten_take_succ {α : Type} (ts : List (List α)) (lev : Nat) (h : lev < ts.length) :
    (ts.take (lev + 1)).flatten = (ts.take lev).flatten ++ ts.getD lev [] := by
  rw [List.take_add_one, List.flatten_append, List.getD_eq_getElem?_getD, List.getElem?_eq_getElem h]
  simp

theorem flatten_split {α : Type} (ts : List (List α)) (lev : Nat) (h : lev < ts.length) :
    ts.flatten = (ts.take lev).flatten ++ (ts.getD lev [] ++ (ts.drop (lev + 1)).flatten) := by
  conv => lhs; rw [← List.take_append_drop (lev + 1) ts]
  rw [List.flatten_append, flatten_take_succ ts lev h, List.append_assoc]

theorem flatten_take_length_le {α : Type} (ts : List (List α)) (k : Nat) :
    (ts.take k).flatten.length ≤ ts.flatten.length := by
  conv => rhs; rw [← List.take_append_drop k ts]
  rw [List.flatten_append, List.length_append]
  omega

/-- closed form of the re-based tasks: task `lev` starts behind the rows of the tasks in front of it -/
theorem localTasks_eq (ts : List (List Nat)) :
    localTasks ts = (List.range ts.length).map fun lev =>
      ((ts.take lev).flatten.length, (ts.take lev).flatten.length + (ts.getD lev []).length) := by
  suffices h : ∀ rs : List (List Nat), localTasks rs.reverse = (List.range rs.reverse.length).map fun lev =>
      ((rs.reverse.take lev).flatten.length, (rs.reverse.take lev).flatten.length + (rs.reverse.getD lev []).length) by
    have := h ts.reverse
    rwa [List.reverse_reverse] at this
  intro rs
  induction rs with
  | nil => simp [localTasks]
  | cons a t ih =>
    rw [List.reverse_cons, localTasks_snoc, ih, List.length_append, List.length_singleton, List.range_succ,
      List.map_append]
    congr 1
    · apply List.map_congr_left
      intro lev hlev
      have hl : lev < t.reverse.length := List.mem_range.mp hlev
      rw [List.take_append_of_le_length (by omega), List.getD_eq_getElem?_getD, List.getD_eq_getElem?_getD,
        List.getElem?_append_left hl]
    · simp [List.getD_eq_getElem?_getD]

theorem localTasks_length (ts : List (List Nat)) : (localTasks ts).length = ts.length := by
  rw [localTasks_eq]; simp

theorem localTasks_getD (ts : List (List Nat)) (lev : Nat) (h : lev < ts.length) :
    (localTasks ts).getD lev (0, 0)
      = ((ts.take lev).flatten.length, (ts.take lev).flatten.length + (ts.getD lev []).length) := by
  rw [localTasks_eq, getD_map_range _ _ _ _ h]

/-- every re-based task is a range of local rows: `beg ≤ end ≤ |ord|` -/
theorem localTasks_bounds (ts : List (List Nat)) (t : Nat × Nat) (ht : t ∈ localTasks ts) :
    t.1 ≤ t.2 ∧ t.2 ≤ ts.flatten.length := by
  rw [localTasks_eq] at ht
  obtain ⟨lev, hlev, rfl⟩ := List.mem_map.mp ht
  have hl : lev < ts.length := List.mem_range.mp hlev
  have h1 := flatten_take_succ ts lev hl
  have h2 := flatten_take_length_le ts (lev + 1)
  rw [h1, List.length_append] at h2
  exact ⟨by simp, h2⟩

/-- a segment of a list read through `getD` -/
theorem range_map_list_getD_segment {α : Type} (pre rows post : List α) (d : α) :
    (List.range rows.length).map (fun k => (pre ++ (rows ++ post)).getD (pre.length + k) d) = rows := by
  apply List.ext_getElem
  · simp
  · intro k h1 h2
    have hk : k < rows.length := by simpa using h1
    rw [List.getElem_map, List.getElem_range, List.getD_eq_getElem?_getD, List.getElem?_append_right (by omega),
      Nat.add_sub_cancel_left, List.getElem?_append_left hk, List.getElem?_eq_getElem hk]
    rfl

/-- **a task's local range gathers exactly the rows of the task, in order** -/
theorem locSpec_task_rows (ts : List (List Nat)) (lev : Nat) (h : lev < ts.length) :
    (locTaskRows ((localTasks ts).getD lev (0, 0))).map (fun r => ts.flatten.getD r 0) = ts.getD lev [] := by
  rw [localTasks_getD ts lev h]
  unfold locTaskRows
  simp only [Nat.add_sub_cancel_left, List.map_map]
  conv => lhs; rw [flatten_split ts lev h]
  exact range_map_list_getD_segment _ _ _ 0

theorem toArray_getD {α : Type} (l : List α) (k : Nat) (d : α) : l.toArray.getD k d = l.getD k d := by
  rw [Array.getD_eq_getD_getElem?, List.getElem?_toArray, List.getD_eq_getElem?_getD]

theorem locPtr_getD (A : CRS K) (is : List Nat) (r : Nat) (h : r ≤ is.length) :
    (locPtr A is).toArray.getD r 0 = (locEntries A (is.take r)).length := by
  rw [toArray_getD]
  unfold locPtr
  rw [getD_map_range _ _ _ _ (by omega)]

theorem take_succ_getD (is : List Nat) (r : Nat) (h : r < is.length) : is.take (r + 1) = is.take r ++ [is.getD r 0] := by
  rw [List.take_add_one, List.getD_eq_getElem?_getD, List.getElem?_eq_getElem h]
  simp

theorem locEntries_split (A : CRS K) (is : List Nat) (r : Nat) (h : r < is.length) :
    locEntries A is = locEntries A (is.take r) ++ (A.row (is.getD r 0) ++ locEntries A (is.drop (r + 1))) := by
  conv => lhs; rw [← List.take_append_drop (r + 1) is]
  rw [locEntries_append, take_succ_getD is r h, locEntries_append, List.append_assoc]
  simp [locEntries]

/-- `ptr[r+1] = ptr[r] + |row ord[r] of A|` -/
theorem locState_ptr_succ (A : CRS K) (hasD : Bool) (Dv : Vec K) (tk : List (Nat × Nat)) (is : List Nat) (r : Nat)
    (h : r < is.length) :
    (locState A hasD Dv tk is).ptr.getD (r + 1) 0
      = (locState A hasD Dv tk is).ptr.getD r 0 + (A.row (is.getD r 0)).length := by
  show (locPtr A is).toArray.getD (r + 1) 0 = (locPtr A is).toArray.getD r 0 + _
  rw [locPtr_getD A is (r + 1) (by omega), locPtr_getD A is r (by omega), take_succ_getD is r h, locEntries_append]
  simp [locEntries]

theorem seg_pair (pre row post : List (Nat × K)) :
    (List.range row.length).map (fun k =>
      (((pre ++ (row ++ post)).map Prod.fst).toArray.getD (pre.length + k) 0,
       ((pre ++ (row ++ post)).map Prod.snd).toArray.getD (pre.length + k) 0)) = row := by
  apply List.ext_getElem
  · simp
  · intro k h1 h2
    have hk : k < row.length := by simpa using h1
    rw [List.getElem_map, List.getElem_range, toArray_getD, toArray_getD,
      List.getD_eq_getElem?_getD, List.getD_eq_getElem?_getD, List.getElem?_map, List.getElem?_map,
      List.getElem?_append_right (by omega), Nat.add_sub_cancel_left, List.getElem?_append_left hk,
      List.getElem?_eq_getElem hk]
    rfl

/-- **every thread-local row is the row `ord[r]` of `A`: the same entries in the same order** -/
theorem locState_row (A : CRS K) (hasD : Bool) (Dv : Vec K) (tk : List (Nat × Nat)) (is : List Nat) (r : Nat)
    (h : r < is.length) : (locState A hasD Dv tk is).row r = A.row (is.getD r 0) := by
  unfold Loc.row
  rw [locState_ptr_succ A hasD Dv tk is r h, Nat.add_sub_cancel_left]
  show (List.range (A.row (is.getD r 0)).length).map (fun k =>
      (((locEntries A is).map Prod.fst).toArray.getD ((locPtr A is).toArray.getD r 0 + k) 0,
       ((locEntries A is).map Prod.snd).toArray.getD ((locPtr A is).toArray.getD r 0 + k) 0)) = _
  rw [locPtr_getD A is r (by omega), locEntries_split A is r h]
  exact seg_pair _ _ _

theorem locState_D (A : CRS K) (Dv : Vec K) (tk : List (Nat × Nat)) (is : List Nat) (r : Nat) (h : r < is.length) :
    (locState A true Dv tk is).D.getD r 0 = Dv.getD (is.getD r 0) 0 := by
  show (is.map fun i => Dv.getD i 0).toArray.getD r 0 = _
  rw [toArray_getD, List.getD_eq_getElem?_getD, List.getD_eq_getElem?_getD, List.getElem?_map,
    List.getElem?_eq_getElem h]
  rfl

end fill

/-! ### an event of `sweep`/`solve` is a row update of `A` -/
section rows
set_option linter.unusedSectionVars false
variable {K : Type} [Add K] [Mul K] [Sub K] [Zero K] [One K] [Div K]

/-- the scan of a local row reads `col[tid]`/`val[tid]` exactly as `gsScan` reads the row -/
theorem gsLocScan_eq (L : Loc K) (rhs x : Vec K) (i r : Nat) :
    gsLocScan L rhs x i (L.ptr.getD r 0) (L.ptr.getD (r + 1) 0) = gsScan (L.row r) rhs x i := by
  unfold gsLocScan gsScan Loc.row
  rw [List.foldl_map]

theorem iluLocDot_eq (L : Loc K) (x : Vec K) (r : Nat) :
    iluLocDot L x (L.ptr.getD r 0) (L.ptr.getD (r + 1) 0) = rowDot (L.row r) x := by
  unfold iluLocDot rowDot Loc.row
  rw [List.foldl_map]

/-- **Gauss–Seidel: an event on tables whose local row `r` is row `ord[r]` of `A` is the row update of `A`** -/
theorem gsLocRow_eq (A : CRS K) (L : Loc K) (rhs x : Vec K) (r : Nat) (h : L.row r = A.row (L.ord.getD r 0)) :
    gsLocRow L rhs x r = gsRow A rhs x (L.ord.getD r 0) := by
  unfold gsLocRow gsRow gsVal
  simp only []
  rw [gsLocScan_eq, h]

/-- **ILU: the same, with `D[tid][r] = _D[ord[r]]` for the upper solve** -/
theorem iluLocRow_eq (lower : Bool) (A : CRS K) (Dv : Vec K) (L : Loc K) (x : Vec K) (r : Nat)
    (h : L.row r = A.row (L.ord.getD r 0)) (hD : lower = false → L.D.getD r 0 = Dv.getD (L.ord.getD r 0) 0) :
    iluLocRow lower L x r = iluRow lower A Dv x (L.ord.getD r 0) := by
  unfold iluLocRow iluRow iluVal
  simp only []
  rw [iluLocDot_eq, h]
  cases lower
  · simp [hD rfl]
  · simp

end rows

/-! ### executions over events versus executions over rows -/

theorem Interleave.map {α β : Type} (f : α → β) {ls : List (List α)} {σ : List α} (h : Interleave ls σ) :
    Interleave (ls.map (List.map f)) (σ.map f) := by
  induction h with
  | done hall =>
    refine Interleave.done ?_
    intro l hl
    obtain ⟨l', hl', rfl⟩ := List.mem_map.mp hl
    rw [hall l' hl']; rfl
  | @step pre post l a σ _ ih =>
    rw [List.map_append, List.map_cons] at ih ⊢
    rw [List.map_cons, List.map_cons]
    exact Interleave.step ih

theorem levelTasksG_map {α β : Type} (f : α → β) (tk : List (List (List α))) (lev : Nat) :
    levelTasksG (tk.map (List.map (List.map f))) lev = (levelTasksG tk lev).map (List.map f) := by
  unfold levelTasksG
  rw [List.map_map, List.map_map]
  apply List.map_congr_left
  intro t _
  simp only [Function.comp_apply, List.getD_eq_getElem?_getD, List.getElem?_map]
  cases t[lev]? <;> rfl

theorem levelTasksG_eq (tk : List (List (List Nat))) (lev : Nat) : levelTasksG tk lev = levelTasks tk lev := rfl

theorem LevelwiseExecG.map {α : Type} (f : α → Nat) {tk : List (List (List α))} {levs : List Nat} {σ : List α}
    (h : LevelwiseExecG tk levs σ) : LevelwiseExec (tk.map (List.map (List.map f))) levs (σ.map f) := by
  induction h with
  | nil => exact LevelwiseExec.nil
  | @cons lev levs block σ hi _ ih =>
    rw [List.map_append]
    refine LevelwiseExec.cons ?_ ih
    rw [← levelTasksG_eq, levelTasksG_map]
    exact hi.map f

/-- an execution over events, read through `f`, is an execution over rows -/
theorem ExecG.map {α : Type} (f : α → Nat) (sk : Skeleton) {tk : List (List (List α))} {nlev : Nat} {σ : List α}
    (h : ExecG sk tk nlev σ) : Exec sk (tk.map (List.map (List.map f))) nlev (σ.map f) := by
  unfold ExecG at h
  unfold Exec
  split
  · rename_i hb
    rw [if_pos hb] at h
    exact h.map f
  · rename_i hb
    rw [if_neg hb] at h
    have := h.map f
    rw [List.map_map] at this ⊢
    have e : (List.map f ∘ List.flatten) = (List.flatten ∘ List.map (List.map f)) := by
      funext t; simp [List.map_flatten]
    rw [e] at this
    exact this

/-- every event of a level-wise execution belongs to some task of some thread -/
theorem LevelwiseExecG.mem {α : Type} {tk : List (List (List α))} {levs : List Nat} {σ : List α}
    (h : LevelwiseExecG tk levs σ) (e : α) (he : e ∈ σ) : ∃ t ∈ tk, ∃ task ∈ t, e ∈ task := by
  induction h with
  | nil => cases he
  | @cons lev levs block σ hi _ ih =>
    rcases List.mem_append.mp he with hb | hs
    · have := hi.perm.subset hb
      obtain ⟨l, hl, hel⟩ := List.mem_flatten.mp this
      obtain ⟨t, ht, rfl⟩ := List.mem_map.mp hl
      refine ⟨t, ht, t.getD lev [], ?_, hel⟩
      rw [List.getD_eq_getElem?_getD] at hel ⊢
      cases hq : t[lev]? with
      | none => rw [hq] at hel; cases hel
      | some task => exact List.mem_of_getElem? hq
    · exact ih hs

/-- thread order inside every level is admitted (`Interleave.flatten`, `Proofs/SchedMicro.lean`) -/
theorem LevelwiseExecG.threadOrder {α : Type} (tk : List (List (List α))) (levs : List Nat) :
    LevelwiseExecG tk levs (levs.flatMap fun lev => (levelTasksG tk lev).flatten) := by
  induction levs with
  | nil => exact LevelwiseExecG.nil
  | cons lev levs ih =>
    rw [List.flatMap_cons]
    exact LevelwiseExecG.cons (Interleave.flatten _) ih

/-! ### the tables of a whole team: `Ls = T.map locSpec`, `T[tid][lev]` = rows of the task -/
section team
set_option linter.unusedSectionVars false
variable {K : Type} [Zero K]

theorem localTasks_rows (ts : List (List Nat)) :
    (localTasks ts).map (fun t => (locTaskRows t).map (fun r => ts.flatten.getD r 0)) = ts := by
  apply List.ext_getElem
  · simp [localTasks_length]
  · intro lev h1 h2
    have hl : lev < ts.length := h2
    have := locSpec_task_rows ts lev hl
    rw [List.getD_eq_getElem?_getD, List.getElem?_eq_getElem (by rw [localTasks_length]; exact hl),
      List.getD_eq_getElem?_getD, List.getElem?_eq_getElem hl] at this
    rw [List.getElem_map]
    simpa using this

theorem specTables_getD (A : CRS K) (hasD : Bool) (Dv : Vec K) (T : List (List (List Nat))) (tid : Nat)
    (h : tid < T.length) :
    (T.map (locSpec A hasD Dv)).getD tid Loc.empty = locSpec A hasD Dv (T.getD tid []) := by
  rw [List.getD_eq_getElem?_getD, List.getD_eq_getElem?_getD, List.getElem?_map, List.getElem?_eq_getElem h]
  rfl

theorem rowOfEv_spec (A : CRS K) (hasD : Bool) (Dv : Vec K) (T : List (List (List Nat))) (e : Ev)
    (h : e.1 < T.length) :
    rowOfEv (T.map (locSpec A hasD Dv)) e = (T.getD e.1 []).flatten.getD e.2 0 := by
  unfold rowOfEv
  rw [specTables_getD A hasD Dv T e.1 h]
  exact toArray_getD _ _ _

/-- **the events of the literal tables, read through `ord`, are the task table** -/
theorem evTable_spec_map (A : CRS K) (hasD : Bool) (Dv : Vec K) (T : List (List (List Nat))) :
    (evTable (T.map (locSpec A hasD Dv))).map (List.map (List.map (rowOfEv (T.map (locSpec A hasD Dv))))) = T := by
  unfold evTable
  rw [List.length_map, List.map_map]
  apply List.ext_getElem
  · simp
  · intro tid h1 h2
    have ht : tid < T.length := h2
    rw [List.getElem_map, List.getElem_range]
    simp only [Function.comp_apply]
    rw [specTables_getD A hasD Dv T tid ht]
    show ((localTasks (T.getD tid [])).map (taskEvents tid)).map _ = _
    rw [List.map_map]
    have e : (List.map (rowOfEv (T.map (locSpec A hasD Dv))) ∘ taskEvents tid)
        = fun t => (locTaskRows t).map (fun r => (T.getD tid []).flatten.getD r 0) := by
      funext t
      simp only [Function.comp_apply, taskEvents, List.map_map]
      apply List.map_congr_left
      intro r _
      exact rowOfEv_spec A hasD Dv T (tid, r) ht
    rw [e, localTasks_rows, List.getD_eq_getElem?_getD, List.getElem?_eq_getElem ht]
    rfl

theorem nlevLoc_spec (A : CRS K) (hasD : Bool) (Dv : Vec K) (T : List (List (List Nat))) :
    nlevLoc (T.map (locSpec A hasD Dv)) = (T.getD 0 []).length := by
  unfold nlevLoc
  cases T with
  | nil => rfl
  | cons t rest =>
    rw [specTables_getD A hasD Dv (t :: rest) 0 (by simp)]
    exact localTasks_length _

/-- every event of a level-wise execution over the literal tables is a local row of its thread -/
theorem levelwise_valid (A : CRS K) (hasD : Bool) (Dv : Vec K) (T : List (List (List Nat))) (levs : List Nat)
    (σ : List Ev) (h : LevelwiseExecG (evTable (T.map (locSpec A hasD Dv))) levs σ) (e : Ev) (he : e ∈ σ) :
    e.1 < T.length ∧ e.2 < (T.getD e.1 []).flatten.length := by
  obtain ⟨t, ht, task, htask, hmem⟩ := h.mem e he
  unfold evTable at ht
  rw [List.length_map] at ht
  obtain ⟨tid, htid, rfl⟩ := List.mem_map.mp ht
  have htid : tid < T.length := List.mem_range.mp htid
  rw [specTables_getD A hasD Dv T tid htid] at htask
  obtain ⟨tk, htk, rfl⟩ := List.mem_map.mp htask
  have hb := localTasks_bounds (T.getD tid []) tk htk
  unfold taskEvents locTaskRows at hmem
  rw [List.map_map] at hmem
  obtain ⟨k, hk, rfl⟩ := List.mem_map.mp hmem
  have hk := List.mem_range.mp hk
  simp only [Function.comp_apply]
  exact ⟨htid, by omega⟩

theorem locSpec_row (A : CRS K) (hasD : Bool) (Dv : Vec K) (ts : List (List Nat)) (r : Nat)
    (h : r < ts.flatten.length) :
    (locSpec A hasD Dv ts).row r = A.row ((locSpec A hasD Dv ts).ord.getD r 0) := by
  unfold locSpec
  rw [locState_row A hasD Dv _ _ r h]
  congr 1
  exact (toArray_getD _ _ _).symm

theorem locSpec_D (A : CRS K) (Dv : Vec K) (ts : List (List Nat)) (r : Nat) (h : r < ts.flatten.length) :
    (locSpec A true Dv ts).D.getD r 0 = Dv.getD ((locSpec A true Dv ts).ord.getD r 0) 0 := by
  unfold locSpec
  rw [locState_D A Dv _ _ r h]
  congr 1
  exact (toArray_getD _ _ _).symm

end team

section sweeps
set_option linter.unusedSectionVars false
variable {K : Type} [Add K] [Mul K] [Sub K] [Zero K] [One K] [Div K]

/-- **Gauss–Seidel: the literal sweep over the literal tables = the row updates of `A` for the rows `ord[tid][r]`
of its events, in the order of the events** -/
theorem gsSweepLoc_spec (A : CRS K) (rhs : Vec K) (T : List (List (List Nat))) (σ : List Ev)
    (hv : ∀ e ∈ σ, e.1 < T.length ∧ e.2 < (T.getD e.1 []).flatten.length) (x : Vec K) :
    gsSweepLoc (T.map (locSpec A false #[])) rhs σ x
      = runRows (gsRow A rhs) (σ.map (rowOfEv (T.map (locSpec A false #[])))) x := by
  unfold gsSweepLoc runRows
  rw [List.foldl_map]
  apply foldl_congr_mem
  intro x e he
  obtain ⟨h1, h2⟩ := hv e he
  unfold rowOfEv
  rw [specTables_getD A false #[] T e.1 h1]
  exact gsLocRow_eq A _ rhs x e.2 (locSpec_row A false #[] _ e.2 h2)

theorem iluSolveLoc_spec (lower : Bool) (A : CRS K) (Dv : Vec K) (T : List (List (List Nat))) (σ : List Ev)
    (hv : ∀ e ∈ σ, e.1 < T.length ∧ e.2 < (T.getD e.1 []).flatten.length) (x : Vec K) :
    iluSolveLoc lower (T.map (locSpec A (!lower) Dv)) σ x
      = runRows (iluRow lower A Dv) (σ.map (rowOfEv (T.map (locSpec A (!lower) Dv)))) x := by
  unfold iluSolveLoc runRows
  rw [List.foldl_map]
  apply foldl_congr_mem
  intro x e he
  obtain ⟨h1, h2⟩ := hv e he
  unfold rowOfEv
  rw [specTables_getD A (!lower) Dv T e.1 h1]
  refine iluLocRow_eq lower A Dv _ x e.2 (locSpec_row A (!lower) Dv _ e.2 h2) ?_
  intro hl
  subst hl
  exact locSpec_D A Dv _ e.2 h2

end sweeps

/-! ### shape of the tables, the counters of step 3, one task run without interruption -/
section shape
set_option linter.unusedSectionVars false
variable {K : Type} [Zero K]

/-- sizes and end points of the thread-local arrays -/
theorem locSpec_shape (A : CRS K) (hasD : Bool) (Dv : Vec K) (ts : List (List Nat)) :
    let L := locSpec A hasD Dv ts
    L.ord = ts.flatten.toArray ∧ L.tasks = localTasks ts
    ∧ L.ptr.size = ts.flatten.length + 1 ∧ L.ptr.getD 0 0 = 0 ∧ L.ptr.getD ts.flatten.length 0 = L.col.size
    ∧ L.col.size = L.val.size ∧ L.D.size = (if hasD then ts.flatten.length else 0) := by
  refine ⟨rfl, rfl, locState_ptr_size _ _ _ _ _, ?_, ?_, ?_, ?_⟩
  · show (locPtr A ts.flatten).toArray.getD 0 0 = 0
    rw [locPtr_getD A _ 0 (by omega)]; simp [locEntries]
  · show (locPtr A ts.flatten).toArray.getD ts.flatten.length 0 = ((locEntries A ts.flatten).map Prod.fst).toArray.size
    rw [locPtr_getD A _ _ (Nat.le_refl _), List.take_length]
    generalize ts.flatten = is
    simp
  · show ((locEntries A ts.flatten).map Prod.fst).toArray.size = ((locEntries A ts.flatten).map Prod.snd).toArray.size
    simp
  · show (if hasD then (ts.flatten.map fun i => Dv.getD i 0).toArray else #[]).size = _
    generalize ts.flatten = is
    cases hasD <;> simp

theorem locSpec_ptr_succ (A : CRS K) (hasD : Bool) (Dv : Vec K) (ts : List (List Nat)) (r : Nat)
    (h : r < ts.flatten.length) :
    (locSpec A hasD Dv ts).ptr.getD (r + 1) 0
      = (locSpec A hasD Dv ts).ptr.getD r 0 + (A.row ((locSpec A hasD Dv ts).ord.getD r 0)).length := by
  unfold locSpec
  rw [locState_ptr_succ A hasD Dv _ _ r h]
  congr 3
  exact (toArray_getD _ _ _).symm

theorem entries_fold (A : CRS K) (f : Nat → Nat) (l : List Nat) (c0 : Nat) :
    l.foldl (fun c k => c + (A.row (f k)).length) c0 = c0 + (locEntries A (l.map f)).length := by
  induction l generalizing c0 with
  | nil => simp [locEntries]
  | cons a t ih =>
    rw [List.foldl_cons, ih]
    simp [locEntries, Nat.add_assoc]

theorem threadCounts_fold (A : CRS K) (order : Array Nat) (tasks : List (Nat × Nat)) (r0 c0 : Nat) :
    tasks.foldl (fun (rc : Nat × Nat) t =>
      (rc.1 + (t.2 - t.1),
       (List.range (t.2 - t.1)).foldl (fun c k => c + (A.row (order.getD (t.1 + k) 0)).length) rc.2)) (r0, c0)
      = (r0 + (tasks.map (taskRowsLit order)).flatten.length,
         c0 + (locEntries A (tasks.map (taskRowsLit order)).flatten).length) := by
  induction tasks generalizing r0 c0 with
  | nil => simp [locEntries]
  | cons t rest ih =>
    rw [List.foldl_cons, ih, entries_fold A (fun k => order.getD (t.1 + k) 0)]
    simp [taskRowsLit, locEntries, Nat.add_assoc]

/-- **the counters of step 3 are the final sizes of step 4** (`reserve` is exact) -/
theorem threadCounts_eq (A : CRS K) (hasD : Bool) (Dv : Vec K) (order : Array Nat) (tasks : List (Nat × Nat)) :
    threadCounts A order tasks
      = ((locFill A hasD Dv order tasks).ord.size, (locFill A hasD Dv order tasks).col.size) := by
  unfold threadCounts
  rw [threadCounts_fold, locFill_eq]
  simp [locSpec, locState]

theorem constructorLit_length (ln : Array Nat × Nat) (nt : Nat) : (constructorLit ln nt).length = nt := by
  simp [constructorLit, scheduleLitN, tasksLit]

theorem constructorLit_getD_length (ln : Array Nat × Nat) (nt tid : Nat) (h : tid < nt) :
    ((constructorLit ln nt).getD tid []).length = ln.2 := by
  unfold constructorLit scheduleLitN tasksLit
  rw [List.map_map, getD_map_range _ _ _ _ h]
  simp

theorem tasks_getD_length (level : Array Nat) (nt tid : Nat) (h : tid < nt) :
    ((tasks level nt).getD tid []).length = nlev level := by
  unfold tasks
  rw [getD_map_range _ _ _ _ h]
  simp

theorem localTasks_getD_mem (ts : List (List Nat)) (lev : Nat) (h : lev < ts.length) :
    (localTasks ts).getD lev (0, 0) ∈ localTasks ts := by
  rw [List.getD_eq_getElem?_getD, List.getElem?_eq_getElem (by rw [localTasks_length]; exact h)]
  exact List.getElem_mem _

theorem locTaskRows_lt (t : Nat × Nat) (r : Nat) (hr : r ∈ locTaskRows t) : t.1 ≤ r ∧ r < t.2 := by
  unfold locTaskRows at hr
  obtain ⟨k, hk, rfl⟩ := List.mem_map.mp hr
  have := List.mem_range.mp hk
  omega

end shape

section taskrun
set_option linter.unusedSectionVars false
variable {K : Type} [Add K] [Mul K] [Sub K] [Zero K] [One K] [Div K]

/-- **Gauss–Seidel: a task run on the thread-local arrays performs the row updates of `A` for the rows of the task,
in order** -/
theorem gsLocTask_spec (A : CRS K) (rhs : Vec K) (ts : List (List Nat)) (lev : Nat) (h : lev < ts.length) (x : Vec K) :
    gsLocTask (locSpec A false #[] ts) rhs x ((localTasks ts).getD lev (0, 0))
      = runRows (gsRow A rhs) (ts.getD lev []) x := by
  unfold gsLocTask runRows
  have hb := localTasks_bounds ts _ (localTasks_getD_mem ts lev h)
  rw [← locSpec_task_rows ts lev h, List.foldl_map]
  apply foldl_congr_mem
  intro x r hr
  have hr' := locTaskRows_lt _ r hr
  rw [gsLocRow_eq A _ rhs x r (locSpec_row A false #[] ts r (by omega))]
  congr 1
  exact toArray_getD _ _ _

theorem iluLocTask_spec (lower : Bool) (A : CRS K) (Dv : Vec K) (ts : List (List Nat)) (lev : Nat)
    (h : lev < ts.length) (x : Vec K) :
    iluLocTask lower (locSpec A (!lower) Dv ts) x ((localTasks ts).getD lev (0, 0))
      = runRows (iluRow lower A Dv) (ts.getD lev []) x := by
  unfold iluLocTask runRows
  have hb := localTasks_bounds ts _ (localTasks_getD_mem ts lev h)
  rw [← locSpec_task_rows ts lev h, List.foldl_map]
  apply foldl_congr_mem
  intro x r hr
  have hr' := locTaskRows_lt _ r hr
  have hlt : r < ts.flatten.length := by omega
  rw [iluLocRow_eq lower A Dv _ x r (locSpec_row A (!lower) Dv ts r hlt)
    (by intro hl; subst hl; exact locSpec_D A Dv ts r hlt)]
  congr 1
  exact toArray_getD _ _ _

end taskrun

end Amgcl.Sched
