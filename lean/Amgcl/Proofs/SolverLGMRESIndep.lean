import Amgcl.Proofs.SolverLGMRES
import Amgcl.Proofs.SolverGivens
/-!
LGMRES, work-array independence (C15): **the augmentation buffer is the only state that leaks.**

`H, H0, s, cs, sn, r, vs[], ws[]` and the cells of `outer_v_data` that are not referenced from the circular buffer
`outer_v` are written before they are read.  What a call reads of the incoming object is exactly

* the circular buffer `outer_v` itself (`Work.ov`: the slot numbers and `start`), and
* the vectors `outer_v_data[slot]` for the slots that are members of the buffer.

Two calls on work spaces that agree there (`AugRel`) return the same observable result — for every matrix, every
function `P`, both sides, `always_reset` on or off (`run_obs_indep_of_aug`).  With `always_reset = true` the buffer is
emptied first, so the result is independent of the whole incoming work space (`run_obs_indep_reset`,
`history_eq_fresh_reset`).

Two side conditions, both about index ranges (C10 territory) and both needed for the statement to be TRUE of the
model:

* `CBuf.WF cap b` (`buf.size() ≤ capacity`, and `start = 0` until the buffer is full) — the invariant of
  `circular_buffer`, satisfied by `.empty`, preserved by `push` (`CBuf.WF_push`) and hence by every call
  (`final_relSt` carries it).  Without it `outer_v[i]` may index outside `buf`, where the model returns slot `0`,
  which need not be a member.
* `0 < prm.M + prm.K`: with `M + K = 0` the first pass of the `do … while` body executes `z = outer_v[0]` on a
  possibly empty buffer (undefined behaviour in C++; the model reads `outer_v_data[0]`).
-/
namespace Amgcl.Solver.LGMRES
open Amgcl Amgcl.Solver
set_option linter.unusedSectionVars false
set_option linter.unusedSimpArgs false
set_option linter.unusedVariables false

/-! ### the circular buffer -/

/-- the class invariant of `circular_buffer` (util.hpp:324-359): at most `capacity` elements, and `start` stays `0`
until the buffer is full -/
def CBuf.WF (cap : Nat) (b : CBuf) : Prop := b.buf.length ≤ cap ∧ (b.buf.length < cap → b.start = 0)

theorem CBuf.WF_empty (cap : Nat) : CBuf.WF cap .empty := ⟨Nat.zero_le _, fun _ => rfl⟩

theorem CBuf.WF_push (cap : Nat) (b : CBuf) (v : Nat) (h : CBuf.WF cap b) : CBuf.WF cap (b.push cap v) := by
  obtain ⟨h1, h2⟩ := h
  unfold CBuf.push
  by_cases hl : b.buf.length < cap
  · rw [if_pos hl]
    refine ⟨?_, ?_⟩
    · show (b.buf ++ [v]).length ≤ cap
      rw [List.length_append]; simp only [List.length_cons, List.length_nil]; omega
    · intro _; exact h2 hl
  · rw [if_neg hl]
    refine ⟨?_, ?_⟩
    · show (b.buf.set b.start v).length ≤ cap
      rw [List.length_set]; exact h1
    · intro h3
      have : (b.buf.set b.start v).length < cap := h3
      rw [List.length_set] at this
      exact absurd this hl

/-- the members of the buffer after `push_back(v)` are old members or `v` -/
theorem CBuf.mem_push (cap : Nat) (b : CBuf) (v s : Nat) (h : s ∈ (b.push cap v).buf) : s ∈ b.buf ∨ s = v := by
  unfold CBuf.push at h
  by_cases hl : b.buf.length < cap
  · rw [if_pos hl] at h
    have h' : s ∈ b.buf ++ [v] := h
    rw [List.mem_append] at h'
    rcases h' with h' | h'
    · exact Or.inl h'
    · exact Or.inr (by simpa using h')
  · rw [if_neg hl] at h
    have h' : s ∈ b.buf.set b.start v := h
    exact List.mem_or_eq_of_mem_set h'

/-- `outer_v[i]`, `i < size()`, is a member of a well-formed buffer -/
theorem CBuf.get_mem (cap : Nat) (b : CBuf) (i : Nat) (h : CBuf.WF cap b) (hi : i < b.size) :
    b.get cap i ∈ b.buf := by
  obtain ⟨h1, h2⟩ := h
  have hi' : i < b.buf.length := hi
  have hidx : (b.start + i) % cap < b.buf.length := by
    by_cases hl : b.buf.length < cap
    · rw [h2 hl, Nat.zero_add, Nat.mod_eq_of_lt (by omega)]; exact hi'
    · have hc : 0 < cap := by omega
      have := Nat.mod_lt (b.start + i) hc
      omega
  unfold CBuf.get
  rw [List.getD_eq_getElem?_getD, List.getElem?_eq_getElem hidx, Option.getD_some]
  exact List.getElem_mem _

/-- a pointer stored in `ws[i]`: `vs[i]` or an augmentation vector referenced from the buffer -/
def PtrOK (ov : CBuf) (i : Nat) (p : Ptr) : Prop := p = .vs i ∨ ∃ s, s ∈ ov.buf ∧ p = .outer s

theorem pickZ_ok (MM cap : Nat) (ov : CBuf) (j : Nat) (h : CBuf.WF cap ov) (hj : j < MM) :
    PtrOK ov j (pickZ MM cap ov j) := by
  unfold pickZ
  by_cases hc : MM - ov.size ≤ j
  · rw [if_pos hc]
    exact Or.inr ⟨_, CBuf.get_mem cap ov _ h (by omega), rfl⟩
  · rw [if_neg hc]; exact Or.inl rfl

/-! ### `step` and `update` in pieces (generic over the notation classes, all by `rfl`) -/
section generic
variable {K : Type} [Add K] [Mul K] [Sub K] [Neg K] [Zero K] [One K] [Div K] [DecidableEq K] [LT K] [DecidableLT K]

/-- the pair `(v_new, r)` returned by `preconditioner::spmv(pside, P, A, *z, v_new, *r)` at inner index `t.j` -/
def stepX (side : Side) (MM cap : Nat) (A : CRS K) (P : Vec K → Vec K) (t : In K) : Vec K × Vec K :=
  pspmv side P A (deref t.w (pickZ MM cap t.w.ov t.j)) (t.w.vs.get (t.j + 1)) t.w.r

theorem step_innerRes (side : Side) (MM cap : Nat) (ip : Vec K → Vec K → K) (sqrt : K → K) (A : CRS K)
    (P : Vec K → Vec K) (t : In K) :
    (step side MM cap ip sqrt A P t).innerRes
      = (hessStep ip sqrt t.w.vs t.j t.w.h (stepX side MM cap A P t).1).2.2 := rfl

theorem step_h (side : Side) (MM cap : Nat) (ip : Vec K → Vec K → K) (sqrt : K → K) (A : CRS K)
    (P : Vec K → Vec K) (t : In K) :
    (step side MM cap ip sqrt A P t).w.h = (hessStep ip sqrt t.w.vs t.j t.w.h (stepX side MM cap A P t).1).1 := rfl

theorem step_vs (side : Side) (MM cap : Nat) (ip : Vec K → Vec K → K) (sqrt : K → K) (A : CRS K)
    (P : Vec K → Vec K) (t : In K) :
    (step side MM cap ip sqrt A P t).w.vs
      = setF t.w.vs (t.j + 1) (hessStep ip sqrt t.w.vs t.j t.w.h (stepX side MM cap A P t).1).2.1 := rfl

theorem step_wsp (side : Side) (MM cap : Nat) (ip : Vec K → Vec K → K) (sqrt : K → K) (A : CRS K)
    (P : Vec K → Vec K) (t : In K) :
    (step side MM cap ip sqrt A P t).w.wsp = setF t.w.wsp t.j (pickZ MM cap t.w.ov t.j) := rfl

theorem step_ov (side : Side) (MM cap : Nat) (ip : Vec K → Vec K → K) (sqrt : K → K) (A : CRS K)
    (P : Vec K → Vec K) (t : In K) : (step side MM cap ip sqrt A P t).w.ov = t.w.ov := rfl

theorem step_odata (side : Side) (MM cap : Nat) (ip : Vec K → Vec K → K) (sqrt : K → K) (A : CRS K)
    (P : Vec K → Vec K) (t : In K) : (step side MM cap ip sqrt A P t).w.odata = t.w.odata := rfl

/-- the solution of the triangular system -/
def updS (t : In K) : FArr K := backSubst t.j t.w.h.H t.w.h.s

/-- `dx = Σ s_i *ws[i]` (`lin_comb(j, s, ws, zero, dx)`) -/
def updDx (t : In K) : Vec K :=
  linComb (combList t.j (updS t).get (fun i => deref t.w (t.w.wsp.get i))) 0 t.w.r

def updW2 (t : In K) : Work K := { t.w with h := { t.w.h with s := updS t }, r := updDx t }

/-- the new `x` and the work space after `x += dx` resp. `tmp = P dx; x += tmp` (`tmp` aliases `*ws[0]`) -/
def updXW (side : Side) (P : Vec K → Vec K) (x : Vec K) (t : In K) : Vec K × Work K :=
  match side with
  | .left => (axpby 1 (updDx t) 1 x, updW2 t)
  | .right => (axpby 1 (P (updDx t)) 1 x, store (updW2 t) (t.w.wsp.get 0) (P (updDx t)))

/-- the new augmentation vector (lgmres.hpp:333-343) -/
def updFin (K' : Nat) (ip : Vec K → Vec K → K) (sqrt : K → K) (iter nOuter : Nat) (normR : K)
    (xw : Vec K × Work K) : St K :=
  if 0 < K' ∧ nrmA ip sqrt xw.2.r ≠ 0 then
    { iter := iter, nOuter := nOuter + 1, normR := normR, x := xw.1,
      w := { xw.2 with
        odata := setF xw.2.odata (nOuter % K')
          (axpby (inv1 (nrmA ip sqrt xw.2.r)) xw.2.r 0 (xw.2.odata.get (nOuter % K'))),
        ov := xw.2.ov.push K' (nOuter % K') } }
  else
    { iter := iter, nOuter := nOuter, normR := normR, x := xw.1, w := xw.2 }

theorem update_eq (prm : Params K) (ip : Vec K → Vec K → K) (sqrt : K → K) (P : Vec K → Vec K) (st : St K)
    (t : In K) :
    update prm ip sqrt P st t = updFin prm.K' ip sqrt t.iter st.nOuter st.normR (updXW prm.pside P st.x t) := by
  obtain ⟨base, M, K', ar, side⟩ := prm
  cases side <;> rfl

end generic

variable {K : Type} [Field K] [DecidableEq K] [LT K] [DecidableLT K]

/-! ### the relations -/

/-- agreement of two work spaces on the augmentation state: the same (well-formed) circular buffer, and the same
vectors in the slots it references -/
def AugRel (cap : Nat) (w w' : Work K) : Prop :=
  w.ov = w'.ov ∧ CBuf.WF cap w.ov ∧ ∀ s, s ∈ w.ov.buf → w.odata.get s = w'.odata.get s

/-- what the rest of a restart cycle reads of the inner-loop state after `j` Arnoldi steps -/
def RelIn (cap : Nat) (t t' : In K) : Prop :=
  t.j = t'.j ∧ t.iter = t'.iter ∧ t.innerRes = t'.innerRes ∧ t.w.h.s = t'.w.h.s ∧
  (∀ k, k ≤ t.j → t.w.vs.get k = t'.w.vs.get k) ∧
  (∀ i k, i < t.j → k ≤ i + 1 → t.w.h.H.get k i = t'.w.h.H.get k i) ∧
  (∀ k, k < t.j → t.w.h.cs.get k = t'.w.h.cs.get k) ∧
  (∀ k, k < t.j → t.w.h.sn.get k = t'.w.h.sn.get k) ∧
  AugRel cap t.w t'.w ∧
  (∀ i, i < t.j → t.w.wsp.get i = t'.w.wsp.get i ∧ PtrOK t.w.ov i (t.w.wsp.get i))

/-- what a pass of the outer loop reads of the state at the `break` test -/
def RelSt (cap : Nat) (s s' : St K) : Prop :=
  s.iter = s'.iter ∧ s.nOuter = s'.nOuter ∧ s.normR = s'.normR ∧ s.x = s'.x ∧ s.w.r = s'.w.r ∧
  AugRel cap s.w s'.w

/-- what `head` reads (and passes on) of the state after `update` -/
def RelU (cap : Nat) (s s' : St K) : Prop :=
  s.iter = s'.iter ∧ s.nOuter = s'.nOuter ∧ s.x = s'.x ∧ AugRel cap s.w s'.w

/-- dereferencing the same good pointer in two related work spaces -/
theorem deref_rel (cap : Nat) (w w' : Work K) (j i : Nat) (p : Ptr) (ha : AugRel cap w w')
    (hv : ∀ k, k ≤ j → w.vs.get k = w'.vs.get k) (hi : i ≤ j) (hp : PtrOK w.ov i p) : deref w p = deref w' p := by
  rcases hp with rfl | ⟨s, hs, rfl⟩
  · exact hv i hi
  · exact ha.2.2 s hs

/-- `*p = val` through the same pointer keeps the augmentation state related -/
theorem store_aug (cap : Nat) (w w' : Work K) (p : Ptr) (val : Vec K) (ha : AugRel cap w w') :
    AugRel cap (store w p val) (store w' p val) := by
  cases p with
  | null => exact ha
  | vs i => exact ha
  | outer s =>
    refine ⟨ha.1, ha.2.1, ?_⟩
    intro s' hs'
    show (setF w.odata s val).get s' = (setF w'.odata s val).get s'
    simp only [setF_get]
    by_cases h : s' = s
    · simp only [h, if_true]
    · simp only [h, if_false]; exact ha.2.2 s' hs'

theorem store_r (w : Work K) (p : Ptr) (val : Vec K) : (store w p val).r = w.r := by cases p <;> rfl

/-! ### the inner loop -/

theorem step_rel (side : Side) (MM cap : Nat) (ip : Vec K → Vec K → K) (sqrt : K → K) (A : CRS K)
    (P : Vec K → Vec K) (t t' : In K) (h : RelIn cap t t') (hj : t.j < MM) :
    RelIn cap (step side MM cap ip sqrt A P t) (step side MM cap ip sqrt A P t') := by
  obtain ⟨h1, h2, h3, hs, hv, hH, hcs, hsn, haug, hw⟩ := h
  have h1' : t'.j = t.j := h1.symm
  have hov : t'.w.ov = t.w.ov := haug.1.symm
  have hok := pickZ_ok MM cap t.w.ov t.j haug.2.1 hj
  have hd := deref_rel cap t.w t'.w t.j t.j _ haug hv (Nat.le_refl _) hok
  have hX : stepX side MM cap A P t' = stepX side MM cap A P t := by
    unfold stepX
    rw [hov, h1', ← hd]
    exact BiCGStab.pspmv_indep side P A _ _ _ _ _
  obtain ⟨g1, g2, g3, g4, g5, _⟩ :=
    hessStep_rel ip sqrt t.w.vs t'.w.vs t.j t.w.h t'.w.h (stepX side MM cap A P t).1 hv hs hcs hsn
  have g6 := hessStep_rel_H ip sqrt t.w.vs t'.w.vs t.j t.w.h t'.w.h (stepX side MM cap A P t).1 hv hs hcs hsn hH
  refine ⟨?_, ?_, ?_, ?_, ?_, ?_, ?_, ?_, ?_, ?_⟩
  · rw [step_j, step_j, h1]
  · rw [step_iter, step_iter, h2]
  · rw [step_innerRes, step_innerRes, hX, h1']; exact g2
  · rw [step_h, step_h, hX, h1']; exact g3
  · intro k hk
    rw [step_j] at hk
    rw [step_vs, step_vs, hX, h1']
    simp only [setF_get]
    by_cases hkj : k = t.j + 1
    · simp only [hkj, if_true]; exact g1
    · simp only [hkj, if_false]; exact hv k (by omega)
  · intro i k hi hk
    rw [step_j] at hi
    rw [step_h, step_h, hX, h1']
    exact g6 i k hi hk
  · intro k hk
    rw [step_j] at hk
    rw [step_h, step_h, hX, h1']
    exact g4 k hk
  · intro k hk
    rw [step_j] at hk
    rw [step_h, step_h, hX, h1']
    exact g5 k hk
  · unfold AugRel
    rw [step_ov, step_ov, step_odata, step_odata]
    exact haug
  · intro i hi
    rw [step_j] at hi
    rw [step_wsp, step_wsp, step_ov, hov, h1']
    simp only [setF_get]
    by_cases hij : i = t.j
    · simp only [hij, if_true]; exact ⟨trivial, hok⟩
    · simp only [hij, if_false]; exact hw i (by omega)

theorem cont_rel (cap maxiter MM : Nat) (epsT : K) (t t' : In K) (h : RelIn cap t t') :
    cont maxiter MM epsT t = cont maxiter MM epsT t' := by
  obtain ⟨h1, h2, h3, _⟩ := h
  simp only [cont, h1, h2, h3]

theorem cycleStart_rel (cap : Nat) (st st' : St K) (h : RelSt cap st st') :
    RelIn cap (cycleStart st) (cycleStart st') := by
  obtain ⟨h1, _, h3, _, h5, haug⟩ := h
  refine ⟨rfl, h1, rfl, ?_, ?_, ?_, ?_, ?_, haug, ?_⟩
  · show sInit st.normR = sInit st'.normR
    rw [h3]
  · intro k hk
    have hk0 : k = 0 := Nat.le_zero.mp hk
    subst hk0
    show (setF st.w.vs 0 (axpby (inv1 st.normR) st.w.r 0 (st.w.vs.get 0))).get 0
      = (setF st'.w.vs 0 (axpby (inv1 st'.normR) st'.w.r 0 (st'.w.vs.get 0))).get 0
    rw [setF_same, setF_same, h3, h5]
    exact axpby_b0_indep _ _ _ _
  · intro i k hi; exact absurd hi (Nat.not_lt_zero i)
  · intro k hk; exact absurd hk (Nat.not_lt_zero k)
  · intro k hk; exact absurd hk (Nat.not_lt_zero k)
  · intro i hi; exact absurd hi (Nat.not_lt_zero i)

/-- the two inner loops run in lock step; they end after the same number `j ≥ 1` of Arnoldi steps -/
theorem inner_rel (prm : Params K) (hM : 0 < prm.MM) (ip : Vec K → Vec K → K) (sqrt : K → K) (A : CRS K)
    (P : Vec K → Vec K) (epsT : K) (st st' : St K) (h : RelSt prm.K' st st') :
    RelIn prm.K' (inner prm ip sqrt A P epsT st) (inner prm ip sqrt A P epsT st') ∧
    1 ≤ (inner prm ip sqrt A P epsT st).j := by
  unfold inner
  apply doWhile_rel (cont prm.maxiter prm.MM epsT) (step prm.pside prm.MM prm.K' ip sqrt A P)
    (fun t t' : In K => RelIn prm.K' t t' ∧ 1 ≤ t.j)
  · intro s s' hs; exact cont_rel _ _ _ _ s s' hs.1
  · intro s s' hs hc
    exact ⟨step_rel _ _ _ ip sqrt A P s s' hs.1 (cont_iter _ _ _ _ hc).2, by rw [step_j]; omega⟩
  · exact ⟨step_rel _ _ _ ip sqrt A P _ _ (cycleStart_rel _ st st' h) hM, by rw [step_j]; omega⟩

/-! ### `update` -/

theorem updDx_rel (cap : Nat) (t t' : In K) (h : RelIn cap t t') (hj : 1 ≤ t.j) : updDx t' = updDx t := by
  obtain ⟨h1, _, _, hs, hv, hH, _, _, haug, hw⟩ := h
  have hb : backSubst t'.j t'.w.h.H t'.w.h.s = backSubst t.j t.w.h.H t.w.h.s := by
    rw [← h1, ← hs]
    exact (backSubst_rel t.j t.w.h.H t'.w.h.H t.w.h.s (fun i k hi hk => hH i k hi (by omega))).symm
  have hdr : ∀ i, i < t.j → deref t'.w (t'.w.wsp.get i) = deref t.w (t.w.wsp.get i) := by
    intro i hi
    rw [← (hw i hi).1]
    exact (deref_rel cap t.w t'.w t.j i _ haug hv (by omega) (hw i hi).2).symm
  unfold updDx updS
  rw [hb, ← h1,
    combList_congr t.j _ _ (fun i => deref t'.w (t'.w.wsp.get i)) (fun i => deref t.w (t.w.wsp.get i))
      (fun _ _ => rfl) hdr]
  obtain ⟨m, hm⟩ : ∃ m, t.j = m + 1 := ⟨t.j - 1, by omega⟩
  rw [hm, combList_succ]
  exact linComb_zero_indep _ _ _ _

theorem updXW_rel (cap : Nat) (side : Side) (P : Vec K → Vec K) (x : Vec K) (t t' : In K) (h : RelIn cap t t')
    (hj : 1 ≤ t.j) :
    (updXW side P x t).1 = (updXW side P x t').1 ∧ (updXW side P x t).2.r = (updXW side P x t').2.r ∧
    AugRel cap (updXW side P x t).2 (updXW side P x t').2 := by
  have hdx := updDx_rel cap t t' h hj
  have haug : AugRel cap (updW2 t) (updW2 t') := h.2.2.2.2.2.2.2.2.1
  cases side with
  | left =>
    refine ⟨?_, ?_, haug⟩
    · show axpby 1 (updDx t) 1 x = axpby 1 (updDx t') 1 x
      rw [hdx]
    · show updDx t = updDx t'
      rw [hdx]
  | right =>
    have hw0 : t'.w.wsp.get 0 = t.w.wsp.get 0 := ((h.2.2.2.2.2.2.2.2.2 0 (by omega)).1).symm
    refine ⟨?_, ?_, ?_⟩
    · show axpby 1 (P (updDx t)) 1 x = axpby 1 (P (updDx t')) 1 x
      rw [hdx]
    · show (store (updW2 t) (t.w.wsp.get 0) (P (updDx t))).r = (store (updW2 t') (t'.w.wsp.get 0) (P (updDx t'))).r
      rw [store_r, store_r]
      show updDx t = updDx t'
      rw [hdx]
    · show AugRel cap (store (updW2 t) (t.w.wsp.get 0) (P (updDx t)))
        (store (updW2 t') (t'.w.wsp.get 0) (P (updDx t')))
      rw [hw0, hdx]
      exact store_aug cap _ _ _ _ haug

theorem updFin_rel (K' : Nat) (ip : Vec K → Vec K → K) (sqrt : K → K) (iter nOuter : Nat) (normR normR' : K)
    (xw xw' : Vec K × Work K) (hx : xw.1 = xw'.1) (hr : xw.2.r = xw'.2.r) (ha : AugRel K' xw.2 xw'.2) :
    RelU K' (updFin K' ip sqrt iter nOuter normR xw) (updFin K' ip sqrt iter nOuter normR' xw') := by
  unfold updFin
  rw [← hr]
  by_cases hc : 0 < K' ∧ nrmA ip sqrt xw.2.r ≠ 0
  · rw [if_pos hc, if_pos hc]
    refine ⟨rfl, rfl, hx, ?_, ?_, ?_⟩
    · show xw.2.ov.push K' (nOuter % K') = xw'.2.ov.push K' (nOuter % K')
      rw [ha.1]
    · exact CBuf.WF_push K' _ _ ha.2.1
    · intro s hs
      show (setF xw.2.odata (nOuter % K') _).get s = (setF xw'.2.odata (nOuter % K') _).get s
      simp only [setF_get]
      by_cases hsl : s = nOuter % K'
      · simp only [hsl, if_true]
        exact axpby_b0_indep _ _ _ _
      · simp only [hsl, if_false]
        rcases CBuf.mem_push K' _ _ s hs with hm | hm
        · exact ha.2.2 s hm
        · exact absurd hm hsl
  · rw [if_neg hc, if_neg hc]
    exact ⟨rfl, rfl, hx, ha⟩

theorem update_rel (prm : Params K) (ip : Vec K → Vec K → K) (sqrt : K → K) (P : Vec K → Vec K)
    (st st' : St K) (t t' : In K) (h : RelSt prm.K' st st') (ht : RelIn prm.K' t t') (hj : 1 ≤ t.j) :
    RelU prm.K' (update prm ip sqrt P st t) (update prm ip sqrt P st' t') := by
  obtain ⟨_, h2, _, h4, _, _⟩ := h
  obtain ⟨u1, u2, u3⟩ := updXW_rel prm.K' prm.pside P st.x t t' ht hj
  rw [update_eq, update_eq, ← h2, ← h4, ← ht.2.1]
  exact updFin_rel prm.K' ip sqrt _ _ _ _ _ _ u1 u2 u3

theorem cycle_rel (prm : Params K) (hM : 0 < prm.MM) (ip : Vec K → Vec K → K) (sqrt : K → K) (A : CRS K)
    (P : Vec K → Vec K) (epsT : K) (st st' : St K) (h : RelSt prm.K' st st') :
    RelU prm.K' (cycle prm ip sqrt A P epsT st) (cycle prm ip sqrt A P epsT st') := by
  obtain ⟨hi, hj⟩ := inner_rel prm hM ip sqrt A P epsT st st' h
  exact update_rel prm ip sqrt P st st' _ _ h hi hj

/-! ### the outer loop -/

theorem head_nOuter (side : Side) (ip : Vec K → Vec K → K) (sqrt : K → K) (A : CRS K) (P : Vec K → Vec K)
    (f : Vec K) (st : St K) : (head side ip sqrt A P f st).nOuter = st.nOuter := by cases side <;> rfl

theorem head_aug (cap : Nat) (side : Side) (ip : Vec K → Vec K → K) (sqrt : K → K) (A : CRS K)
    (P : Vec K → Vec K) (f : Vec K) (st st' : St K) (h : AugRel cap st.w st'.w) :
    AugRel cap (head side ip sqrt A P f st).w (head side ip sqrt A P f st').w := by cases side <;> exact h

/-- `head` reads `iter`, `n_outer` (copied) and `x` only, and does not touch the augmentation state -/
theorem head_rel (cap : Nat) (side : Side) (ip : Vec K → Vec K → K) (sqrt : K → K) (A : CRS K)
    (P : Vec K → Vec K) (f : Vec K) (st st' : St K) (h : RelU cap st st') :
    RelSt cap (head side ip sqrt A P f st) (head side ip sqrt A P f st') := by
  obtain ⟨hi, hn, hx, ha⟩ := h
  unfold RelSt
  rw [head_iter, head_iter, head_nOuter, head_nOuter, head_normR, head_normR, head_x, head_x, head_r, head_r,
    hi, hn, hx]
  exact ⟨rfl, rfl, rfl, rfl, rfl, head_aug cap side ip sqrt A P f st st' ha⟩

theorem stop_rel (cap maxiter : Nat) (epsT : K) (s s' : St K) (h : RelSt cap s s') :
    stop maxiter epsT s = stop maxiter epsT s' := by
  obtain ⟨h1, _, h3, _⟩ := h
  simp only [stop, h1, h3]

/-- the states at the final `break` of two calls on work spaces with related augmentation state are related — in
particular the augmentation state the call leaves behind is again related (and well formed) -/
theorem final_relSt (prm : Params K) (hM : 0 < prm.MM) (ip : Vec K → Vec K → K) (sqrt : K → K) (A : CRS K)
    (P : Vec K → Vec K) (ws ws' : Work K) (f x0 : Vec K) (nf : K) (h : AugRel prm.K' ws ws') :
    RelSt prm.K' (final prm ip sqrt A P ws f x0 nf) (final prm ip sqrt A P ws' f x0 nf) := by
  unfold final outer
  apply loopN_rel _ _ (RelSt prm.K')
  · intro s s' h; rw [stop_rel _ _ _ s s' h]
  · intro s s' h _
    exact head_rel _ prm.pside ip sqrt A P f _ _ (cycle_rel prm hM ip sqrt A P (epsTol prm nf) s s' h)
  · unfold init
    exact head_rel _ prm.pside ip sqrt A P f _ _ ⟨rfl, rfl, rfl, h⟩

theorem reset_aug (prm : Params K) (ws ws' : Work K) (h : AugRel prm.K' ws ws') :
    AugRel prm.K' (reset prm ws) (reset prm ws') := by
  unfold reset
  by_cases ha : prm.alwaysReset = true
  · rw [if_pos ha, if_pos ha]
    exact ⟨rfl, CBuf.WF_empty _, fun s hs => by cases hs⟩
  · rw [if_neg ha, if_neg ha]; exact h

theorem reset_aug_of_reset (prm : Params K) (ha : prm.alwaysReset = true) (ws ws' : Work K) :
    AugRel prm.K' (reset prm ws) (reset prm ws') := by
  unfold reset
  rw [if_pos ha, if_pos ha]
  exact ⟨rfl, CBuf.WF_empty _, fun s hs => by cases hs⟩

theorem run_obs_indep_of_augRel (prm : Params K) (hM : 0 < prm.MM) (ip : Vec K → Vec K → K) (sqrt : K → K)
    (eps : K) (A : CRS K) (P : Vec K → Vec K) (ws ws' : Work K) (f x0 : Vec K)
    (h : AugRel prm.K' (reset prm ws) (reset prm ws')) :
    (run prm ip sqrt eps A P ws f x0).obs = (run prm ip sqrt eps A P ws' f x0).obs := by
  cases hp : prologueA prm.nsSearch ip sqrt eps f with
  | trivial n => rw [run_trivial _ _ _ _ _ _ _ _ _ n hp, run_trivial _ _ _ _ _ _ _ _ _ n hp]; rfl
  | go nf =>
    rw [run_go _ _ _ _ _ _ _ _ _ nf hp, run_go _ _ _ _ _ _ _ _ _ nf hp]
    obtain ⟨h1, _, h3, h4, _⟩ := final_relSt prm hM ip sqrt A P _ _ f x0 nf h
    simp only [Run.obs, h1, h3, h4]

/-- **(A) the augmentation buffer is the only state of an LGMRES object that leaks into a call**: two work spaces
with the same (well-formed) circular buffer `outer_v` and the same vectors in the slots it references give the same
observable result — whatever `H, H0, s, cs, sn, r, vs[], ws[]` and the unreferenced cells of `outer_v_data` hold; for
every matrix, every function `P`, both sides, `always_reset` on or off. -/
theorem run_obs_indep_of_aug (prm : Params K) (hM : 0 < prm.MM) (ip : Vec K → Vec K → K) (sqrt : K → K)
    (eps : K) (A : CRS K) (P : Vec K → Vec K) (ws ws' : Work K) (f x0 : Vec K)
    (hov : ws.ov = ws'.ov) (hwf : CBuf.WF prm.K' ws.ov)
    (hod : ∀ slot, slot ∈ ws.ov.buf → ws.odata.get slot = ws'.odata.get slot) :
    (run prm ip sqrt eps A P ws f x0).obs = (run prm ip sqrt eps A P ws' f x0).obs :=
  run_obs_indep_of_augRel prm hM ip sqrt eps A P ws ws' f x0 (reset_aug prm ws ws' ⟨hov, hwf, hod⟩)

/-- the same statement for the work space the call leaves behind: the augmentation state after the two calls is
again related (same well-formed buffer, same referenced vectors), so the hypothesis of `run_obs_indep_of_aug`
propagates along a history -/
theorem run_aug_preserved (prm : Params K) (hM : 0 < prm.MM) (ip : Vec K → Vec K → K) (sqrt : K → K)
    (eps : K) (A : CRS K) (P : Vec K → Vec K) (ws ws' : Work K) (f x0 : Vec K)
    (h : AugRel prm.K' ws ws') :
    AugRel prm.K' (run prm ip sqrt eps A P ws f x0).ws (run prm ip sqrt eps A P ws' f x0).ws := by
  cases hp : prologueA prm.nsSearch ip sqrt eps f with
  | trivial n =>
    rw [run_trivial _ _ _ _ _ _ _ _ _ n hp, run_trivial _ _ _ _ _ _ _ _ _ n hp]
    exact reset_aug prm ws ws' h
  | go nf =>
    rw [run_go _ _ _ _ _ _ _ _ _ nf hp, run_go _ _ _ _ _ _ _ _ _ nf hp]
    exact (final_relSt prm hM ip sqrt A P _ _ f x0 nf (reset_aug prm ws ws' h)).2.2.2.2.2

/-- the history form of (A), `always_reset` on or off: two LGMRES objects whose augmentation states are related
answer every sequence of calls alike — the rest of the work space never matters -/
theorem history_eq_of_aug (prm : Params K) (hM : 0 < prm.MM) (ip : Vec K → Vec K → K) (sqrt : K → K) (eps : K)
    (w w' : Work K) (cs : List (Call K)) (h : AugRel prm.K' w w') :
    history (call prm ip sqrt eps) w cs = history (call prm ip sqrt eps) w' cs := by
  induction cs generalizing w w' with
  | nil => rfl
  | cons c cs ih =>
    simp only [history]
    have h1 : (call prm ip sqrt eps w c).1 = (call prm ip sqrt eps w' c).1 :=
      run_obs_indep_of_augRel prm hM ip sqrt eps c.A c.P w w' c.f c.x0 (reset_aug prm w w' h)
    have h2 : AugRel prm.K' (call prm ip sqrt eps w c).2 (call prm ip sqrt eps w' c).2 :=
      run_aug_preserved prm hM ip sqrt eps c.A c.P w w' c.f c.x0 h
    rw [h1, ih _ _ h2]

/-- **(B)** with `always_reset = true` the result of a call is independent of the whole incoming work space -/
theorem run_obs_indep_reset (prm : Params K) (hM : 0 < prm.MM) (har : prm.alwaysReset = true)
    (ip : Vec K → Vec K → K) (sqrt : K → K) (eps : K) (A : CRS K) (P : Vec K → Vec K) (ws ws' : Work K)
    (f x0 : Vec K) :
    (run prm ip sqrt eps A P ws f x0).obs = (run prm ip sqrt eps A P ws' f x0).obs :=
  run_obs_indep_of_augRel prm hM ip sqrt eps A P ws ws' f x0 (reset_aug_of_reset prm har ws ws')

/-- hence with `always_reset = true` every call of every history on ONE LGMRES object returns what a fresh object
returns for that call -/
theorem history_eq_fresh_reset (prm : Params K) (hM : 0 < prm.MM) (har : prm.alwaysReset = true)
    (ip : Vec K → Vec K → K) (sqrt : K → K) (eps : K) (w w0 : Work K) (cs : List (Call K)) :
    history (call prm ip sqrt eps) w cs = cs.map (fun c => (call prm ip sqrt eps w0 c).1) :=
  history_eq_fresh_of_indep _ (fun a b c => run_obs_indep_reset prm hM har ip sqrt eps c.A c.P a b c.f c.x0) w0 w cs

/-- **(C)** two objects whose augmentation buffers are empty (fresh objects, or objects with `K = 0`, which never
push) behave alike, also with `always_reset = false` -/
theorem run_obs_indep_of_empty (prm : Params K) (hM : 0 < prm.MM) (ip : Vec K → Vec K → K) (sqrt : K → K)
    (eps : K) (A : CRS K) (P : Vec K → Vec K) (ws ws' : Work K) (f x0 : Vec K)
    (he : ws.ov = .empty) (he' : ws'.ov = .empty) :
    (run prm ip sqrt eps A P ws f x0).obs = (run prm ip sqrt eps A P ws' f x0).obs :=
  run_obs_indep_of_aug prm hM ip sqrt eps A P ws ws' f x0 (by rw [he, he']) (by rw [he]; exact CBuf.WF_empty _)
    (by rw [he]; intro s hs; cases hs)

end Amgcl.Solver.LGMRES
