import Amgcl.Model.StaticMatrix
import Mathlib.Data.Matrix.Mul
import Mathlib.Algebra.BigOperators.Fin
import Mathlib.Logic.Equiv.Fin.Basic
import Mathlib.Tactic.Ring
/-!
Helper lemmas for `Model/StaticMatrix.lean`: entry access of the loop-built buffers, the denotation
`SMat.toMatrix : SMat K N M → Matrix (Fin N) (Fin M) K`, and extensionality (two well-formed static matrices
with the same denotation are the same buffer).
-/
namespace Amgcl
open Finset

theorem getD_ofFn' {α : Type} {n : Nat} (f : Fin n → α) (i : Nat) (d : α) (h : i < n) :
    (Array.ofFn f).getD i d = f ⟨i, h⟩ := by
  unfold Array.getD; simp [h]

theorem foldl_add_eq_sum {K : Type} [AddCommMonoid K] (f : Nat → K) (n : Nat) (s : K) :
    (List.range n).foldl (fun s k => s + f k) s = s + ∑ k ∈ range n, f k := by
  induction n generalizing s with
  | zero => simp
  | succ n ih => rw [List.range_succ, List.foldl_append, ih]; simp [Finset.sum_range_succ, add_assoc]

namespace SMat
variable {K : Type}

theorem idx_lt {N M i j : Nat} (hi : i < N) (hj : j < M) : i * M + j < N * M := by
  calc i * M + j < i * M + M := by omega
    _ = (i + 1) * M := by ring
    _ ≤ N * M := Nat.mul_le_mul_right M hi

theorem idx_div {M i j : Nat} (hj : j < M) : (i * M + j) / M = i := by
  rw [Nat.mul_comm, Nat.mul_add_div (by omega), Nat.div_eq_of_lt hj]; simp

theorem idx_mod {M i j : Nat} (hj : j < M) : (i * M + j) % M = j := by
  rw [Nat.mul_comm, Nat.mul_add_mod]; exact Nat.mod_eq_of_lt hj

section
variable [Zero K]

theorem get_ofFn {N M : Nat} (f : Nat → Nat → K) {i j : Nat} (hi : i < N) (hj : j < M) :
    (ofFn (N := N) (M := M) f).get i j = f i j := by
  unfold get ofFn
  rw [getD_ofFn' _ _ _ (idx_lt hi hj)]
  simp only [idx_div hj, idx_mod hj]

theorem get_eq_get1 {N M : Nat} (a : SMat K N M) (i j : Nat) : a.get i j = a.get1 (i * M + j) := rfl

theorem wf_ofFn {N M : Nat} (f : Nat → Nat → K) : (ofFn (N := N) (M := M) f).WF := by simp [WF, ofFn]

/-- the denotation as a Mathlib matrix -/
def toMatrix {N M : Nat} (a : SMat K N M) : Matrix (Fin N) (Fin M) K := fun i j => a.get i.val j.val

/-- two well-formed static matrices with the same denotation are equal -/
theorem ext_of_toMatrix {N M : Nat} {a b : SMat K N M} (ha : a.WF) (hb : b.WF)
    (h : toMatrix a = toMatrix b) : a = b := by
  cases a with | mk x => cases b with | mk y =>
  simp only [WF] at ha hb
  congr 1
  apply Array.ext (by rw [ha, hb])
  intro idx h1 h2
  have hM : 0 < M := by
    rcases Nat.eq_zero_or_pos M with h0 | h0
    · subst h0; simp at ha; omega
    · exact h0
  have hidx : idx < N * M := ha ▸ h1
  have hi : idx / M < N := by
    rw [Nat.div_lt_iff_lt_mul hM]; exact hidx
  have hj : idx % M < M := Nat.mod_lt _ hM
  have := congrFun (congrFun h ⟨idx / M, hi⟩) ⟨idx % M, hj⟩
  simp only [toMatrix, get] at this
  have e : idx / M * M + idx % M = idx := by rw [Nat.mul_comm]; exact Nat.div_add_mod idx M
  rw [e] at this
  simpa [Array.getD, h1, h2] using this

end

section arith
variable [CommRing K]

theorem get1_ofFn {n : Nat} (f : Fin n → K) {i : Nat} (h : i < n) :
    (Array.ofFn f).getD i 0 = f ⟨i, h⟩ := getD_ofFn' f i 0 h

theorem toMatrix_add {N M : Nat} (a b : SMat K N M) : toMatrix (a + b) = toMatrix a + toMatrix b := by
  ext i j
  show (add a b).get i.val j.val = a.get i.val j.val + b.get i.val j.val
  unfold add get
  rw [getD_ofFn' _ _ _ (idx_lt i.isLt j.isLt)]; rfl

theorem toMatrix_sub {N M : Nat} (a b : SMat K N M) : toMatrix (a - b) = toMatrix a - toMatrix b := by
  ext i j
  show (sub a b).get i.val j.val = a.get i.val j.val - b.get i.val j.val
  unfold sub get
  rw [getD_ofFn' _ _ _ (idx_lt i.isLt j.isLt)]; rfl

theorem toMatrix_neg {N M : Nat} (a : SMat K N M) : toMatrix (-a) = - toMatrix a := by
  ext i j
  show (neg a).get i.val j.val = - a.get i.val j.val
  unfold neg get
  rw [getD_ofFn' _ _ _ (idx_lt i.isLt j.isLt)]; rfl

theorem toMatrix_smul {N M : Nat} (c : K) (a : SMat K N M) : toMatrix (smul c a) = c • toMatrix a := by
  ext i j
  show (smul c a).get i.val j.val = c * a.get i.val j.val
  unfold smul get
  rw [getD_ofFn' _ _ _ (idx_lt i.isLt j.isLt)]
  show a.get1 _ * c = _
  rw [mul_comm]; rfl

theorem toMatrix_zero {N M : Nat} : toMatrix (0 : SMat K N M) = 0 := by
  ext i j
  show (zero : SMat K N M).get i.val j.val = 0
  unfold zero get
  rw [getD_ofFn' _ _ _ (idx_lt i.isLt j.isLt)]

theorem toMatrix_const {N M : Nat} (c : K) : toMatrix (const c : SMat K N M) = fun _ _ => c := by
  ext i j
  show (const c : SMat K N M).get i.val j.val = c
  unfold const get
  rw [getD_ofFn' _ _ _ (idx_lt i.isLt j.isLt)]

theorem toMatrix_identity {N : Nat} : toMatrix (identity : SMat K N N) = 1 := by
  ext i j
  show (identity : SMat K N N).get i.val j.val = _
  unfold identity
  rw [get_ofFn _ i.isLt j.isLt, Matrix.one_apply]
  simp [Fin.ext_iff]

theorem get_mul {N P M : Nat} (a : SMat K N P) (b : SMat K P M) {i j : Nat} (hi : i < N) (hj : j < M) :
    (mul a b).get i j = ∑ k ∈ range P, a.get i k * b.get k j := by
  unfold mul
  rw [get_ofFn _ hi hj, foldl_add_eq_sum]; simp

theorem toMatrix_mul {N P M : Nat} (a : SMat K N P) (b : SMat K P M) :
    toMatrix (a * b) = toMatrix a * toMatrix b := by
  ext i j
  show (mul a b).get i.val j.val = _
  rw [get_mul a b i.isLt j.isLt, Matrix.mul_apply]
  exact (Fin.sum_univ_eq_sum_range (fun k => a.get i.val k * b.get k j.val) P).symm

theorem toMatrix_adjoint {N M : Nat} (conj : K → K) (a : SMat K N M) :
    toMatrix (adjoint conj a) = (toMatrix a).transpose.map conj := by
  ext i j
  show (adjoint conj a).get i.val j.val = _
  unfold adjoint
  rw [get_ofFn _ i.isLt j.isLt]; rfl

theorem toMatrix_transpose {N M : Nat} (a : SMat K N M) : toMatrix (transpose a) = (toMatrix a).transpose := by
  unfold transpose; rw [toMatrix_adjoint]; ext i j; rfl

theorem innerVec_eq {N : Nat} (conj : K → K) (x y : SMat K N 1) :
    innerVec conj x y = ∑ i : Fin N, toMatrix x i 0 * conj (toMatrix y i 0) := by
  unfold innerVec
  rw [foldl_add_eq_sum, zero_add, ← Fin.sum_univ_eq_sum_range (fun i => x.get1 i * conj (y.get1 i))]
  apply Finset.sum_congr rfl; intro i _
  simp [toMatrix, get, get1]

theorem toMatrix_innerMat {N M : Nat} (x y : SMat K N M) :
    toMatrix (innerMat id x y) = (toMatrix x).transpose * toMatrix y := by
  ext i j
  show (innerMat id x y).get i.val j.val = _
  unfold innerMat
  rw [get_ofFn _ i.isLt j.isLt, foldl_add_eq_sum, zero_add, Matrix.mul_apply]
  exact (Fin.sum_univ_eq_sum_range (fun k => x.get k i.val * y.get k j.val) N).symm

theorem normSq_eq {N M : Nat} (x : SMat K N M) :
    normSq id x = ∑ i : Fin N, ∑ j : Fin M, toMatrix x i j * toMatrix x i j := by
  unfold normSq
  rw [foldl_add_eq_sum, zero_add]
  simp only [toMatrix, get, id]
  rw [← Fin.sum_univ_eq_sum_range (fun i => x.get1 i * x.get1 i) (N * M)]
  rw [← Finset.sum_product', Finset.univ_product_univ]
  symm
  apply Fintype.sum_equiv finProdFinEquiv
  intro p
  simp only [finProdFinEquiv_apply_val, get1]
  have : (p.2 : Nat) + M * p.1 = p.1 * M + p.2 := by rw [Nat.mul_comm]; omega
  rw [this]

theorem wf_add {N M : Nat} (a b : SMat K N M) : (a + b).WF := by show (add a b).WF; simp [WF, add]
theorem wf_sub {N M : Nat} (a b : SMat K N M) : (a - b).WF := by show (sub a b).WF; simp [WF, sub]
theorem wf_neg {N M : Nat} (a : SMat K N M) : (-a).WF := by show (neg a).WF; simp [WF, neg]
theorem wf_smul {N M : Nat} (c : K) (a : SMat K N M) : (smul c a).WF := by simp [WF, smul]
theorem wf_mul {N P M : Nat} (a : SMat K N P) (b : SMat K P M) : (a * b).WF := wf_ofFn _
theorem wf_adjoint {N M : Nat} (conj : K → K) (a : SMat K N M) : (adjoint conj a).WF := wf_ofFn _
theorem wf_transpose {N M : Nat} (a : SMat K N M) : (transpose a).WF := wf_ofFn _

end arith
end SMat
end Amgcl
