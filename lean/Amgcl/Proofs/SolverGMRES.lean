import Amgcl.Model.SolverGMRES
import Amgcl.Proofs.SolverCommon2
import Amgcl.Proofs.SolverBiCGStab
/-!
Lemmas about the GMRES model, control-flow part: the state the call returns always comes out of `head` (the
residual has just been recomputed from the returned `x`); iteration counter; the fuel of both loops suffices;
early exits.
-/
namespace Amgcl.Solver.GMRES
open Amgcl Amgcl.Solver
set_option linter.unusedSectionVars false
set_option linter.unusedSimpArgs false

variable {K : Type} [Field K] [DecidableEq K] [LT K] [DecidableLT K]

/-- `eps = std::max(prm.tol * norm_rhs, prm.abstol)` -/
def epsTol (prm : Params K) (nf : K) : K := maxK (prm.tol * nf) prm.abstol

/-- the vector whose norm GMRES reports: `f − A x` (right) resp. `P(f − A x)` (left preconditioning) -/
abbrev Rf := @BiCGStab.Rf

/-- the state at the `break`, for a call that did not return early and uses `norm_rhs = nf` -/
def final (prm : Params K) (ip : Vec K → Vec K → K) (sqrt : K → K) (A : CRS K) (P : Vec K → Vec K)
    (ws : Work K) (f x0 : Vec K) (nf : K) : St K :=
  outer prm ip sqrt A P f (epsTol prm nf) prm.maxiter (init prm ip sqrt A P ws f x0)

theorem run_trivial (prm : Params K) (ip : Vec K → Vec K → K) (sqrt : K → K) (eps : K) (A : CRS K)
    (P : Vec K → Vec K) (ws : Work K) (f x0 : Vec K) (n : K)
    (h : prologueA prm.nsSearch ip sqrt eps f = .trivial n) :
    run prm ip sqrt eps A P ws f x0 = (.ok (0, n), vclear x0.size, ws) := by
  simp only [run, h]

theorem run_go (prm : Params K) (ip : Vec K → Vec K → K) (sqrt : K → K) (eps : K) (A : CRS K)
    (P : Vec K → Vec K) (ws : Work K) (f x0 : Vec K) (nf : K)
    (h : prologueA prm.nsSearch ip sqrt eps f = .go nf) :
    run prm ip sqrt eps A P ws f x0 =
      (.ok ((final prm ip sqrt A P ws f x0 nf).iter, (final prm ip sqrt A P ws f x0 nf).normR / nf),
       (final prm ip sqrt A P ws f x0 nf).x, (final prm ip sqrt A P ws f x0 nf).w) := by
  simp only [run, h, final, epsTol]

/-! #### `head` -/

theorem head_x (side : Side) (ip : Vec K → Vec K → K) (sqrt : K → K) (A : CRS K) (P : Vec K → Vec K) (f : Vec K)
    (st : St K) : (head side ip sqrt A P f st).x = st.x := by cases side <;> rfl

theorem head_iter (side : Side) (ip : Vec K → Vec K → K) (sqrt : K → K) (A : CRS K) (P : Vec K → Vec K) (f : Vec K)
    (st : St K) : (head side ip sqrt A P f st).iter = st.iter := by cases side <;> rfl

theorem head_r (side : Side) (ip : Vec K → Vec K → K) (sqrt : K → K) (A : CRS K) (P : Vec K → Vec K) (f : Vec K)
    (st : St K) : (head side ip sqrt A P f st).w.r = Rf side P f A st.x := by cases side <;> rfl

theorem head_normR (side : Side) (ip : Vec K → Vec K → K) (sqrt : K → K) (A : CRS K) (P : Vec K → Vec K) (f : Vec K)
    (st : St K) : (head side ip sqrt A P f st).normR = nrmA ip sqrt (Rf side P f A st.x) := by cases side <;> rfl

/-- what every state at the `break` test satisfies: `r` is the (preconditioned) true residual of the current `x`
and `norm_r` its norm -/
def Inv (side : Side) (ip : Vec K → Vec K → K) (sqrt : K → K) (A : CRS K) (P : Vec K → Vec K) (f : Vec K)
    (st : St K) : Prop :=
  st.w.r = Rf side P f A st.x ∧ st.normR = nrmA ip sqrt (Rf side P f A st.x)

theorem head_inv (side : Side) (ip : Vec K → Vec K → K) (sqrt : K → K) (A : CRS K) (P : Vec K → Vec K) (f : Vec K)
    (st : St K) : Inv side ip sqrt A P f (head side ip sqrt A P f st) := by
  unfold Inv
  rw [head_r, head_normR, head_x]
  exact ⟨rfl, rfl⟩

/-- **the returned state has just been through `head`** — for every matrix, every function `P`, both sides -/
theorem final_inv (prm : Params K) (ip : Vec K → Vec K → K) (sqrt : K → K) (A : CRS K) (P : Vec K → Vec K)
    (ws : Work K) (f x0 : Vec K) (nf : K) :
    Inv prm.pside ip sqrt A P f (final prm ip sqrt A P ws f x0 nf) :=
  loopN_inv _ _ _ (fun _ _ _ => head_inv prm.pside ip sqrt A P f _) _ _ (head_inv prm.pside ip sqrt A P f _)

/-! #### iteration counter -/

theorem step_iter (side : Side) (ip : Vec K → Vec K → K) (sqrt : K → K) (A : CRS K) (P : Vec K → Vec K) (t : In K) :
    (step side ip sqrt A P t).iter = t.iter + 1 := rfl

theorem step_j (side : Side) (ip : Vec K → Vec K → K) (sqrt : K → K) (A : CRS K) (P : Vec K → Vec K) (t : In K) :
    (step side ip sqrt A P t).j = t.j + 1 := rfl

theorem cont_iter (maxiter M : Nat) (epsT : K) (t : In K) (h : cont maxiter M epsT t = true) :
    t.iter < maxiter ∧ t.j < M := by
  simp only [cont, Bool.not_eq_true', Bool.or_eq_false_iff, decide_eq_false_iff_not, Nat.not_le] at h
  exact ⟨h.1.1, h.1.2⟩

/-- the inner loop makes at least one and at most `maxiter − iter` iterations, and `j` counts them -/
theorem inner_iter (prm : Params K) (ip : Vec K → Vec K → K) (sqrt : K → K) (A : CRS K) (P : Vec K → Vec K)
    (epsT : K) (st : St K) (hlt : st.iter < prm.maxiter) :
    st.iter < (inner prm ip sqrt A P epsT st).iter ∧ (inner prm ip sqrt A P epsT st).iter ≤ prm.maxiter ∧
    (inner prm ip sqrt A P epsT st).iter = st.iter + (inner prm ip sqrt A P epsT st).j ∧
    1 ≤ (inner prm ip sqrt A P epsT st).j := by
  unfold inner
  apply doWhile_inv _ _ (fun t : In K => st.iter < t.iter ∧ t.iter ≤ prm.maxiter ∧ t.iter = st.iter + t.j ∧ 1 ≤ t.j)
  · show st.iter < st.iter + 1 ∧ st.iter + 1 ≤ prm.maxiter ∧ st.iter + 1 = st.iter + (0 + 1) ∧ 1 ≤ 0 + 1
    omega
  · intro t ⟨h1, h2, h3, h4⟩ hc
    obtain ⟨hc1, _⟩ := cont_iter _ _ _ _ hc
    simp only [step_iter, step_j]; omega

theorem update_iter (side : Side) (P : Vec K → Vec K) (st : St K) (t : In K) :
    (update side P st t).iter = t.iter := by cases side <;> rfl

theorem stop_false (maxiter : Nat) (epsT : K) (st : St K) (h : (!stop maxiter epsT st) = true) :
    st.iter < maxiter ∧ ¬ st.normR < epsT := by
  simp only [stop, Bool.not_eq_true', Bool.or_eq_false_iff, decide_eq_false_iff_not, Nat.not_le] at h
  exact ⟨h.2, h.1⟩

theorem cycle_iter (prm : Params K) (ip : Vec K → Vec K → K) (sqrt : K → K) (A : CRS K) (P : Vec K → Vec K)
    (epsT : K) (st : St K) (hlt : st.iter < prm.maxiter) :
    st.iter < (cycle prm ip sqrt A P epsT st).iter ∧ (cycle prm ip sqrt A P epsT st).iter ≤ prm.maxiter := by
  unfold cycle
  rw [update_iter]
  obtain ⟨h1, h2, _⟩ := inner_iter prm ip sqrt A P epsT st hlt
  exact ⟨h1, h2⟩

theorem init_iter (prm : Params K) (ip : Vec K → Vec K → K) (sqrt : K → K) (A : CRS K) (P : Vec K → Vec K)
    (ws : Work K) (f x0 : Vec K) : (init prm ip sqrt A P ws f x0).iter = 0 := by
  unfold init; rw [head_iter]

theorem init_x (prm : Params K) (ip : Vec K → Vec K → K) (sqrt : K → K) (A : CRS K) (P : Vec K → Vec K)
    (ws : Work K) (f x0 : Vec K) : (init prm ip sqrt A P ws f x0).x = x0 := by
  unfold init; rw [head_x]

theorem final_iter_le (prm : Params K) (ip : Vec K → Vec K → K) (sqrt : K → K) (A : CRS K) (P : Vec K → Vec K)
    (ws : Work K) (f x0 : Vec K) (nf : K) : (final prm ip sqrt A P ws f x0 nf).iter ≤ prm.maxiter := by
  unfold final outer
  apply loopN_inv _ _ (fun s : St K => s.iter ≤ prm.maxiter)
  · intro s _ hc
    rw [head_iter]
    exact (cycle_iter prm ip sqrt A P _ s (stop_false _ _ _ hc).1).2
  · rw [init_iter]; exact Nat.zero_le _

/-- **the fuel `maxiter` of the outer loop never runs out before the `break`**: the returned state satisfies the
stopping test `norm_r < eps || iter >= maxiter` -/
theorem outer_fuel_ok (prm : Params K) (ip : Vec K → Vec K → K) (sqrt : K → K) (A : CRS K) (P : Vec K → Vec K)
    (ws : Work K) (f x0 : Vec K) (nf : K) :
    stop prm.maxiter (epsTol prm nf) (final prm ip sqrt A P ws f x0 nf) = true := by
  have h := loopN_fuel_ok (fun s => !stop prm.maxiter (epsTol prm nf) s)
    (fun s => head prm.pside ip sqrt A P f (cycle prm ip sqrt A P (epsTol prm nf) s)) St.iter prm.maxiter
    (fun s hc => (stop_false _ _ _ hc).1)
    (fun s hc => by rw [head_iter]; exact (cycle_iter prm ip sqrt A P _ s (stop_false _ _ _ hc).1).1)
    prm.maxiter (init prm ip sqrt A P ws f x0) (by omega)
  unfold final outer
  simpa using h

/-- the fuel `M` of the inner loop never runs out before its `break` either -/
theorem inner_fuel_ok (prm : Params K) (ip : Vec K → Vec K → K) (sqrt : K → K) (A : CRS K) (P : Vec K → Vec K)
    (epsT : K) (st : St K) :
    cont prm.maxiter prm.M epsT (inner prm ip sqrt A P epsT st) = false := by
  unfold inner doWhile
  apply loopN_fuel_ok _ _ In.j prm.M
  · intro s hc; exact (cont_iter _ _ _ _ hc).2
  · intro s _; rw [step_j]; omega
  · rw [step_j]; omega

/-! #### early exits -/

/-- a call whose first stopping test succeeds returns the state of `init` -/
theorem final_of_stop (prm : Params K) (ip : Vec K → Vec K → K) (sqrt : K → K) (A : CRS K) (P : Vec K → Vec K)
    (ws : Work K) (f x0 : Vec K) (nf : K)
    (h : stop prm.maxiter (epsTol prm nf) (init prm ip sqrt A P ws f x0) = true) :
    final prm ip sqrt A P ws f x0 nf = init prm ip sqrt A P ws f x0 := by
  unfold final outer
  apply loopN_of_not_cond
  simp [h]

end Amgcl.Solver.GMRES
