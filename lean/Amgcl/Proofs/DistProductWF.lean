import Amgcl.Proofs.DistProduct
import Amgcl.Proofs.DistAmgDirect
/-!
`mpi::product` returns a well-formed distributed matrix (`DistOK`): the shape statement that complements the entrywise
`dist_product_get` of C11.  Used by C12b (`dinit_ok`) for the Galerkin operator `R·(A·P)` of `mpi::amg::init`.
-/
namespace Amgcl.Dist
open Amgcl Amgcl.DistAmg

section
variable {K : Type} [CommRing K] [DecidableEq K]

/-- the marker accumulation creates no new columns -/
theorem accumInto_col (acc : Row K) (cv : Nat × K) (x : Nat × K) (hx : x ∈ accumInto acc cv) :
    (∃ y ∈ acc, y.1 = x.1) ∨ x.1 = cv.1 := by
  unfold accumInto at hx
  cases hf : acc.findIdx? (fun e => e.1 == cv.1) with
  | none =>
    rw [hf] at hx
    simp only [List.mem_append, List.mem_singleton] at hx
    rcases hx with hx | hx
    · exact Or.inl ⟨x, hx, rfl⟩
    · exact Or.inr (by rw [hx])
  | some k =>
    rw [hf] at hx
    simp only at hx
    obtain ⟨i, hi, rfl⟩ := List.getElem_of_mem hx
    rw [List.length_modify] at hi
    left
    rw [List.getElem_modify]
    by_cases hik : k = i
    · subst hik
      simp only [if_true]
      exact ⟨acc[k], List.getElem_mem hi, rfl⟩
    · simp only [if_neg hik]
      exact ⟨acc[i], List.getElem_mem hi, rfl⟩

theorem accumRow_col (l : Row K) (x : Nat × K) (hx : x ∈ accumRow l) : ∃ y ∈ l, y.1 = x.1 := by
  unfold accumRow at hx
  have key : ∀ (l acc : Row K), x ∈ l.foldl accumInto acc → (∃ y ∈ acc, y.1 = x.1) ∨ ∃ y ∈ l, y.1 = x.1 := by
    intro l
    induction l with
    | nil => intro acc h; exact Or.inl ⟨x, h, rfl⟩
    | cons cv t ih =>
      intro acc h
      rw [List.foldl_cons] at h
      rcases ih _ h with ⟨y, hy, e⟩ | ⟨y, hy, e⟩
      · rcases accumInto_col acc cv y hy with ⟨z, hz, e'⟩ | e'
        · exact Or.inl ⟨z, hz, e'.trans e⟩
        · exact Or.inr ⟨cv, by simp, e'.symm.trans e⟩
      · exact Or.inr ⟨y, by simp [hy], e⟩
  rcases key l [] hx with ⟨y, hy, _⟩ | h
  · cases hy
  · exact h

/-- every column of a full global row of a well-formed `B` is a global column -/
theorem fullRow_lt (Bs : List (DistMat K)) (mp cp : List Nat) (hB : DistOK Bs mp cp) (d c : Nat) :
    ∀ cb ∈ fullRow cp d (Bs.getD d default) c, cb.1 < cp.sum := by
  intro cb hcb
  unfold fullRow globalRow at hcb
  by_cases hd : d < mp.length
  · rcases List.mem_append.1 hcb with h | h
    · obtain ⟨e, he, rfl⟩ := List.mem_map.1 h
      have h1 := hB.wf.locLt d hd c e he
      have hdc : d < cp.length := by rw [← hB.wf.lenc]; exact hd
      have h2 := dom_succ cp d hdc
      have h3 := dom_le_sum cp (show d + 1 ≤ cp.length from hdc)
      simp only
      omega
    · exact hB.remLt d hd c cb h
  · have hlen : Bs.length ≤ d := by rw [hB.wf.len]; omega
    have : Bs.getD d default = default := by
      rw [List.getD_eq_getElem?_getD, List.getElem?_eq_none hlen]; rfl
    rw [this] at hcb
    have e1 : (default : DistMat K).loc.row c = [] := by simp [default, instInhabitedDistMat, CRS.row]
    have e2 : (default : DistMat K).rem.row c = [] := by simp [default, instInhabitedDistMat, CRS.row]
    rw [e1, e2] at hcb
    simp at hcb

theorem productContribs_lt (As Bs : List (DistMat K)) (mp cp : List Nat) (hB : DistOK Bs mp cp) (r ia : Nat) :
    ∀ cv ∈ productContribs cp r (As.getD r default) (Bs.getD r default) ((patternsOf As mp).getD r default)
        (remoteRows (patternsOf As mp) Bs cp r) ia, cv.1 < cp.sum := by
  intro cv hcv
  unfold productContribs at hcv
  rcases List.mem_append.1 hcv with h | h
  · obtain ⟨ca, _, h2⟩ := List.mem_flatMap.1 h
    obtain ⟨cb, hcb, rfl⟩ := List.mem_map.1 h2
    exact fullRow_lt Bs mp cp hB r ca.1 cb hcb
  · obtain ⟨ca, _, h2⟩ := List.mem_flatMap.1 h
    obtain ⟨cb, hcb, rfl⟩ := List.mem_map.1 h2
    -- a row of `B_nbr` is a full row of some rank's block (or empty)
    have hrow : ∀ row ∈ remoteRows (patternsOf As mp) Bs cp r, ∀ x ∈ row, x.1 < cp.sum := by
      intro row hrow x hx
      unfold remoteRows at hrow
      obtain ⟨ds, _, h3⟩ := List.mem_flatMap.1 hrow
      obtain ⟨c, _, rfl⟩ := List.mem_map.1 h3
      exact fullRow_lt Bs mp cp hB ds.1 c x hx
    by_cases hidx : ((patternsOf As mp).getD r default).localIndex ca.1 < (remoteRows (patternsOf As mp) Bs cp r).length
    · rw [List.getD_eq_getElem?_getD, List.getElem?_eq_getElem hidx] at hcb
      exact hrow _ (List.getElem_mem hidx) cb hcb
    · rw [List.getD_eq_getElem?_getD, List.getElem?_eq_none (Nat.le_of_not_lt hidx)] at hcb
      cases hcb

/-- **`mpi::product(A, B)` is well formed**: rows partitioned like `A`'s, columns like `B`'s -/
theorem distOK_product (As Bs : List (DistMat K)) (rp mp cp : List Nat) (hA : DistOK As rp mp) (hB : DistOK Bs mp cp) :
    DistOK (distProduct As Bs mp cp) rp cp := by
  have hlen : (distProduct As Bs mp cp).length = rp.length := by
    unfold distProduct; simp only [List.length_map, List.length_range]; exact hA.wf.len
  have hg : ∀ r, r < rp.length →
      (distProduct As Bs mp cp).getD r default = productRank cp (patternsOf As mp) As Bs r := by
    intro r hr
    unfold distProduct
    exact getD_map_range _ _ _ _ (by rw [hA.wf.len]; exact hr)
  have hlc : rp.length = cp.length := hA.wf.lenc.trans hB.wf.lenc
  -- the rows of both parts of rank `r`
  have hrowL : ∀ r i, ∀ x ∈ (productRank cp (patternsOf As mp) As Bs r).loc.row i,
      ∃ y ∈ locPart (dom cp r) (dom cp (r + 1)) (productContribs cp r (As.getD r default) (Bs.getD r default)
        ((patternsOf As mp).getD r default) (remoteRows (patternsOf As mp) Bs cp r) i), y.1 = x.1 := by
    intro r i x hx
    unfold productRank CRS.row at hx
    simp only at hx
    by_cases hi : i < (As.getD r default).loc.nrows
    · rw [Array.getD_eq_getD_getElem?] at hx
      simp only [List.getElem?_toArray, List.getElem?_map, List.getElem?_range hi, Option.map_some,
        Option.getD_some] at hx
      exact accumRow_col _ x hx
    · rw [Array.getD_eq_getD_getElem?] at hx
      simp only [List.getElem?_toArray, List.getElem?_map] at hx
      rw [List.getElem?_eq_none (by simpa using Nat.le_of_not_lt hi)] at hx
      simp at hx
  have hrowR : ∀ r i, ∀ x ∈ (productRank cp (patternsOf As mp) As Bs r).rem.row i,
      ∃ y ∈ remPart (dom cp r) (dom cp (r + 1)) (productContribs cp r (As.getD r default) (Bs.getD r default)
        ((patternsOf As mp).getD r default) (remoteRows (patternsOf As mp) Bs cp r) i), y.1 = x.1 := by
    intro r i x hx
    unfold productRank CRS.row at hx
    simp only at hx
    by_cases hi : i < (As.getD r default).loc.nrows
    · rw [Array.getD_eq_getD_getElem?] at hx
      simp only [List.getElem?_toArray, List.getElem?_map, List.getElem?_range hi, Option.map_some,
        Option.getD_some] at hx
      exact accumRow_col _ x hx
    · rw [Array.getD_eq_getD_getElem?] at hx
      simp only [List.getElem?_toArray, List.getElem?_map] at hx
      rw [List.getElem?_eq_none (by simpa using Nat.le_of_not_lt hi)] at hx
      simp at hx
  refine ⟨⟨hlen, hlc, ?_, ?_, ?_, ?_, ?_, ?_⟩, ?_⟩
  · intro r hr
    rw [hg r hr]
    show (productRank cp _ As Bs r).loc.rows.size = _
    simp only [productRank, List.size_toArray, List.length_map, List.length_range]
    exact hA.wf.locRows r hr
  · intro r hr
    rw [hg r hr]
    show (productRank cp _ As Bs r).rem.rows.size = _
    simp only [productRank, List.size_toArray, List.length_map, List.length_range]
    exact hA.wf.locRows r hr
  · intro r hr
    rw [hg r hr]
    show dom cp (r + 1) - dom cp r = _
    rw [dom_succ cp r (by rw [← hlc]; exact hr)]; omega
  · intro r hr; rw [hg r hr]; rfl
  · intro r hr i cv hcv
    rw [hg r hr] at hcv
    obtain ⟨y, hy, e⟩ := hrowL r i cv hcv
    unfold locPart at hy
    obtain ⟨z, hz, rfl⟩ := List.mem_map.1 hy
    have hzr := (List.mem_filter.1 hz).2
    unfold inRange at hzr
    simp only [Bool.and_eq_true, decide_eq_true_eq] at hzr
    rw [← e]
    have := dom_succ cp r (by rw [← hlc]; exact hr)
    simp only
    omega
  · intro r hr i cv hcv
    rw [hg r hr] at hcv
    obtain ⟨y, hy, e⟩ := hrowR r i cv hcv
    unfold remPart at hy
    have hzr := (List.mem_filter.1 hy).2
    unfold inRange at hzr
    simp only [Bool.not_eq_true', Bool.and_eq_false_iff, decide_eq_false_iff_not] at hzr
    rw [← e]
    omega
  · intro r hr i cv hcv
    rw [hg r hr] at hcv
    obtain ⟨y, hy, e⟩ := hrowR r i cv hcv
    unfold remPart at hy
    have hmem := (List.mem_filter.1 hy).1
    rw [← e]
    exact productContribs_lt As Bs mp cp hB r i y hmem

end
end Amgcl.Dist
