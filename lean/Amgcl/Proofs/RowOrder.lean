import Amgcl.Model.Amg
import Amgcl.Model.RelaxJacobi
import Amgcl.Proofs.Primitives
import Amgcl.Proofs.RowGet
/-!
The multigrid cycle model depends only on the DENOTED matrices, not on the order in which the entries of a row are
stored (C12 / C02 / C06): `spmv`, `residual`, the damped-Jacobi and SPAI-0 constructors and sweeps, and therefore
`Amg.cycle` / `Amg.apply`, are invariant under permuting the stored entries of each row of every level matrix.
-/
namespace Amgcl
open Amgcl.Relax

section perm
variable {K : Type} [CommRing K] [DecidableEq K]

/-- same shape, and every stored row of `B` is a permutation of the stored row of `A` -/
def RowPerm (A B : CRS K) : Prop := A.ncols = B.ncols ∧ A.nrows = B.nrows ∧ ∀ i, (A.row i).Perm (B.row i)

theorem RowPerm.refl (A : CRS K) : RowPerm A A := ⟨rfl, rfl, fun _ => List.Perm.refl _⟩

theorem RowPerm.symm {A B : CRS K} (h : RowPerm A B) : RowPerm B A := ⟨h.1.symm, h.2.1.symm, fun i => (h.2.2 i).symm⟩

/-- row-permuted matrices denote the same matrix -/
theorem RowPerm.get_eq {A B : CRS K} (h : RowPerm A B) (i j : Nat) : A.get i j = B.get i j :=
  rowGet_perm (h.2.2 i) j

theorem rowDot_perm {r s : Row K} (h : r.Perm s) (x : Vec K) : rowDot r x = rowDot s x := by
  rw [rowDot_eq_listSum, rowDot_eq_listSum]
  exact (h.map _).sum_eq

theorem rowDot_rowPerm {A B : CRS K} (h : RowPerm A B) (i : Nat) (x : Vec K) :
    rowDot (A.row i) x = rowDot (B.row i) x := rowDot_perm (h.2.2 i) x

theorem spmv_rowPerm {A B : CRS K} (h : RowPerm A B) (α : K) (x : Vec K) (β : K) (y : Vec K) :
    spmv α A x β y = spmv α B x β y := by
  unfold spmv
  simp only [rowDot_rowPerm h]
  rw [h.2.1]

theorem residual_rowPerm {A B : CRS K} (h : RowPerm A B) (f x : Vec K) : residual f A x = residual f B x := by
  unfold residual
  simp only [rowDot_rowPerm h]
  rw [h.2.1]

/-- the SPAI-0 diagonal does not depend on the entry order (sums over the row) -/
theorem spai0Diag_rowPerm [Div K] {A B : CRS K} (h : RowPerm A B) (norm : K → K) : spai0Diag norm A = spai0Diag norm B := by
  unfold spai0Diag
  have hf : ∀ (i : Nat), (A.row i).foldl (fun (nd : K × K) cv =>
        let nv := norm cv.2
        (if cv.1 = i then nd.1 + cv.2 else nd.1, nd.2 + nv * nv)) (0, 0)
      = (B.row i).foldl (fun (nd : K × K) cv =>
        let nv := norm cv.2
        (if cv.1 = i then nd.1 + cv.2 else nd.1, nd.2 + nv * nv)) (0, 0) := by
    intro i
    apply List.Perm.foldl_eq' (h.2.2 i)
    intro a _ b _ z
    apply Prod.ext
    · simp only
      split_ifs <;> first | rfl | exact add_right_comm _ _ _
    · simp only
      exact add_right_comm _ _ _
  simp only [hf]
  rw [h.2.1]

theorem firstDiag_perm {r s : Row K} (h : r.Perm s) (i : Nat) (h1 : r.countP (fun cv => cv.1 == i) = 1) :
    firstDiag r i = firstDiag s i := by
  unfold firstDiag
  rw [← List.head?_filter, ← List.head?_filter]
  have hp := h.filter (fun cv => cv.1 == i)
  rw [List.countP_eq_length_filter] at h1
  obtain ⟨a, ha⟩ := List.length_eq_one_iff.1 h1
  rw [ha] at hp ⊢
  rw [List.perm_comm, List.perm_singleton] at hp
  rw [hp]

theorem hasDiagb_rowPerm {A B : CRS K} (h : RowPerm A B) : hasDiagb A = hasDiagb B := by
  unfold hasDiagb
  rw [h.2.1]
  congr 1
  funext i
  exact Bool.eq_iff_iff.2 ⟨fun ha => by
      rw [List.any_eq_true] at ha ⊢
      obtain ⟨c, hc, hc2⟩ := ha
      exact ⟨c, (h.2.2 i).mem_iff.1 hc, hc2⟩,
    fun ha => by
      rw [List.any_eq_true] at ha ⊢
      obtain ⟨c, hc, hc2⟩ := ha
      exact ⟨c, (h.2.2 i).mem_iff.2 hc, hc2⟩⟩

/-- the inverted diagonal of damped Jacobi does not depend on the entry order when every row stores its diagonal
entry once (`backend::diagonal` takes the FIRST stored diagonal entry) -/
theorem diagInv_rowPerm [Div K] {A B : CRS K} (h : RowPerm A B) (hd : diagOnceb A = true) : diagInv A = diagInv B := by
  unfold diagInv
  have hf : ∀ i : Fin A.nrows, firstDiag (A.row i) i = firstDiag (B.row i) i := by
    intro i
    apply firstDiag_perm (h.2.2 i)
    unfold diagOnceb at hd
    rw [List.all_eq_true] at hd
    have := hd i.val (List.mem_range.2 i.isLt)
    simpa using this
  simp only [hf]
  rw [h.2.1]

end perm

namespace Amg
section cycle
variable {K S : Type} [CommRing K] [DecidableEq K]

/-- optional level matrices that are row permutations of each other -/
inductive OptPerm : Option (CRS K) → Option (CRS K) → Prop
  | none : OptPerm none none
  | some {A B : CRS K} : RowPerm A B → OptPerm (some A) (some B)

/-- two levels that differ only in the stored entry order of their matrices -/
structure LevelPerm (l l' : Level K S) : Prop where
  rows  : l.rows = l'.rows
  A     : OptPerm l.A l'.A
  P     : OptPerm l.P l'.P
  R     : OptPerm l.R l'.R
  solve : OptPerm l.solve l'.solve
  relax : l.relax = l'.relax

/-- the sweeps of a smoother read the matrix through its denotation only -/
def SweepInv (sm : Relax.Smoother K S) : Prop :=
  ∀ (s : S) (A B : CRS K), RowPerm A B → sm.applyPre s A = sm.applyPre s B ∧ sm.applyPost s A = sm.applyPost s B

/-- the coarse direct solver depends on the denoted matrix only -/
def DirectInv (direct : CRS K → Vec K → Vec K) : Prop := ∀ A B : CRS K, RowPerm A B → direct A = direct B

theorem cycleBody_rowPerm (prm : Params) (sm : Relax.Smoother K S) (hsm : SweepInv sm) (s : S) {A A' P P' R R' : CRS K}
    (hA : RowPerm A A') (hP : RowPerm P P') (hR : RowPerm R R') (n : Nat)
    (rc rc' : List (Scratch K) → Vec K → Vec K → Vec K × List (Scratch K)) (hrc : rc = rc') (rhs : Vec K) :
    cycleBody prm sm s A P R n rc rhs = cycleBody prm sm s A' P' R' n rc' rhs := by
  subst hrc
  funext st
  unfold cycleBody
  rw [(hsm s A A' hA).1, (hsm s A A' hA).2]
  simp only [residual_rowPerm hA, spmv_rowPerm hR, spmv_rowPerm hP]

/-- **the cycle depends only on the denoted matrices**: hierarchies whose level matrices are row permutations of each
other (same smoother states) give the same cycle — iterate and level vectors -/
theorem cycle_rowPerm (prm : Params) (sm : Relax.Smoother K S) (direct : CRS K → Vec K → Vec K) (hsm : SweepInv sm)
    (hd : DirectInv direct) :
    ∀ (ls ls' : List (Level K S)), List.Forall₂ LevelPerm ls ls' → ∀ (scr : List (Scratch K)) (rhs x : Vec K),
      cycle prm sm direct ls scr rhs x = cycle prm sm direct ls' scr rhs x
  | [], _, h, scr, rhs, x => by cases h; rfl
  | [lv], _, h, scr, rhs, x => by
    cases h with
    | cons h1 h2 =>
      cases h2
      rename_i lv'
      obtain ⟨rows, A, P, R, bP, bR, solve, relax⟩ := lv
      obtain ⟨rows', A', P', R', bP', bR', solve', relax'⟩ := lv'
      obtain ⟨_, hA, _, _, hS, hr⟩ := h1
      simp only at hA hS hr
      subst hr
      cases scr with
      | nil => simp only [cycle]
      | cons sc scr =>
        cases hS with
        | some hS => simp only [cycle, hd _ _ hS]
        | none =>
          cases hA with
          | none => simp only [cycle]
          | some hA =>
            cases relax with
            | none => simp only [cycle]
            | some s => simp only [cycle, (hsm s _ _ hA).1, (hsm s _ _ hA).2]
  | lv :: nxt :: rest, _, h, scr, rhs, x => by
    cases h with
    | cons h1 h2 =>
      rename_i lv' tl'
      cases h2 with
      | cons h3 h4 =>
        rename_i nxt' rest'
        have ih := cycle_rowPerm prm sm direct hsm hd (nxt :: rest) (nxt' :: rest') (List.Forall₂.cons h3 h4)
        have hrows : nxt.rows = nxt'.rows := h3.rows
        obtain ⟨rows, A, P, R, bP, bR, solve, relax⟩ := lv
        obtain ⟨rows', A', P', R', bP', bR', solve', relax'⟩ := lv'
        obtain ⟨_, hA, hP, hR, _, hr⟩ := h1
        simp only at hA hP hR hr
        subst hr
        cases scr with
        | nil => simp only [cycle]
        | cons sc scr =>
          cases scr with
          | nil => simp only [cycle]
          | cons scn scr =>
            cases hA with
            | none => simp only [cycle]
            | some hA =>
              cases relax with
              | none => simp only [cycle]
              | some s =>
                cases hP with
                | none => simp only [cycle]
                | some hP =>
                  cases hR with
                  | none => simp only [cycle]
                  | some hR =>
                    simp only [cycle]
                    rw [cycleBody_rowPerm prm sm hsm s hA hP hR nxt.rows _ _ (by funext a b c; exact ih a b c) rhs,
                      hrows]

/-- the same for the preconditioner call `amg::apply` -/
theorem apply_rowPerm (prm : Params) (sm : Relax.Smoother K S) (direct : CRS K → Vec K → Vec K) (hsm : SweepInv sm)
    (hd : DirectInv direct) (ls ls' : List (Level K S)) (h : List.Forall₂ LevelPerm ls ls')
    (scr : List (Scratch K)) (rhs : Vec K) :
    apply prm sm direct ls scr rhs = apply prm sm direct ls' scr rhs := by
  unfold apply
  have : (fun (st : Vec K × List (Scratch K)) => cycle prm sm direct ls st.2 rhs st.1)
      = (fun (st : Vec K × List (Scratch K)) => cycle prm sm direct ls' st.2 rhs st.1) := by
    funext st
    exact cycle_rowPerm prm sm direct hsm hd ls ls' h _ _ _
  rw [this]

end cycle

section smoothers
variable {K : Type} [Field K] [DecidableEq K]

theorem jacobi_sweepInv (ω : K) : SweepInv (Relax.jacobi ω) := by
  intro s A B h
  constructor <;> (funext f x t; simp only [Relax.jacobi, Relax.jacobiSweep, residual_rowPerm h])

theorem spai0_sweepInv (norm : K → K) : SweepInv (Relax.spai0 norm) := by
  intro s A B h
  constructor <;> (funext f x t; simp only [Relax.spai0, Relax.spai0Sweep, residual_rowPerm h])

/-- the constructors build the same smoother state from row-permuted matrices -/
theorem jacobi_setup_rowPerm (ω : K) {A B : CRS K} (h : RowPerm A B) (hd : Relax.diagOnceb A = true) :
    (Relax.jacobi ω).setup A = (Relax.jacobi ω).setup B := by
  simp only [Relax.jacobi, hasDiagb_rowPerm h, diagInv_rowPerm h hd]

theorem spai0_setup_rowPerm (norm : K → K) {A B : CRS K} (h : RowPerm A B) :
    (Relax.spai0 norm).setup A = (Relax.spai0 norm).setup B := by
  simp only [Relax.spai0, spai0Diag_rowPerm h]

end smoothers
end Amg
end Amgcl
