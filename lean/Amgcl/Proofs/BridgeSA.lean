import Amgcl.Proofs.BridgeReal
import Amgcl.Proofs.SmoothedAggregationWF
/-!
# Bridge: the smoothed-aggregation coarsening model satisfies the structural policy hypotheses

`smoothedAggregationPolicy` is `coarsening::smoothed_aggregation` (`block_size = 1`) as a `Policy`: `P` from
`Model/SmoothedAggregation.lean` with the parameters of level `idx` (`eps_strong` is halved from level to level), `R =
transpose(P)`, `coarse_operator = detail::galerkin`.  `PolicyOK` and `PolicyNodup` hold for it: `P` is well formed with one
row per fine unknown and no repeated column (position-marker discipline).  Injectivity of the smoothed `P` is NOT a
consequence of the construction (it depends on the values) and stays a hypothesis of the convergence theorem.
-/
set_option linter.unusedSectionVars false
namespace Amgcl.Energy.Bridge
open Amgcl Amgcl.Amg Amgcl.Relax Amgcl.Coarsening Matrix

section sa
variable {K : Type} [Field K] [LinearOrder K] [IsStrictOrderedRing K] [DecidableEq K]

def smoothedAggregationPolicy (norm : K → K) (prmOf : Nat → SAParams K) (nt : Nat) : Policy K :=
  { transfer := fun idx A => match smoothedAggregationTransfer norm (prmOf idx) A with
      | .ok T => some (T.P, transpose id T.P)
      | _ => none,
    coarseOp := galerkin nt }

/-- what the policy returns (`block_size = 1`) -/
theorem sa_transfer_spec (norm : K → K) (prmOf : Nat → SAParams K) (hb : ∀ l, (prmOf l).blockSize = 1)
    (hm : ∀ l, (prmOf l).minAggregate ≤ 1) (nt : Nat) (idx : Nat) (A P0 R0 : CRS K)
    (ht : (smoothedAggregationPolicy norm prmOf nt).transfer idx A = some (P0, R0)) :
    ∃ (agg : Aggregates) (omega : K), plainAggregates (prmOf idx).epsSq A = .ok agg ∧
      P0 = smoothProlongation omega A agg.strong (tentativeProlongation A.nrows agg.count agg.id) ∧
      R0 = transpose id P0 := by
  simp only [smoothedAggregationPolicy] at ht
  unfold smoothedAggregationTransfer at ht
  rw [hb idx, C04.pointwise_block_one norm (prmOf idx).epsSq (prmOf idx).minAggregate (hm idx) A] at ht
  cases hagg : plainAggregates (prmOf idx).epsSq A with
  | emptyLevel => rw [hagg] at ht; simp at ht
  | precondition => rw [hagg] at ht; simp at ht
  | ok agg =>
    rw [hagg] at ht
    simp only [Option.some.injEq, Prod.mk.injEq] at ht
    obtain ⟨hP0, hR0⟩ := ht
    exact ⟨agg, _, rfl, hP0.symm, by rw [← hR0, ← hP0]⟩

theorem ptent_wf_of_aggregates (eps : K) (A : CRS K) (agg : Aggregates) (hagg : plainAggregates eps A = .ok agg) :
    (tentativeProlongation A.nrows agg.count agg.id : CRS K).WF ∧
    (tentativeProlongation A.nrows agg.count agg.id : CRS K).ncols = agg.count := by
  obtain ⟨_, _, hsize, hids, _⟩ := C04.plain_aggregates_partition eps A agg hagg
  have hidr : ∀ i, i < A.nrows → agg.id.getD i aggrRemoved < 0 ∨ agg.id.getD i aggrRemoved < (agg.count : Int) := by
    intro i hi
    have hin : i < agg.id.size := by rw [hsize]; exact hi
    have e : agg.id.getD i aggrRemoved = agg.id.getD i 0 := by simp [Array.getD, hin]
    rw [e]
    obtain ⟨h1, h2⟩ := hids i hi
    by_cases hany : (agg.strong.getD i []).any id = true
    · exact Or.inr (h2 hany).2
    · have := h1 (by simpa using hany); left; omega
  obtain ⟨_, p2, p3⟩ := tentativeProlongation_shape (K := K) A.nrows agg.count agg.id hidr
  exact ⟨p3, p2⟩

theorem smoothProlongation_wf (omega : K) (A : CRS K) (S : Array (List Bool)) (Pt : CRS K) (hPt : Pt.WF) :
    (smoothProlongation omega A S Pt).WF ∧ (smoothProlongation omega A S Pt).nodupb = true := by
  obtain ⟨hn, hc⟩ := smoothProlongation_shape omega A S Pt hPt
  have hrow := smoothProlongation_rowOK omega A S Pt hPt
  refine ⟨fun r hr cv hcv => ?_, ?_⟩
  · obtain ⟨j, hj, rfl⟩ := List.getElem_of_mem hr
    have hj' : j < (smoothProlongation omega A S Pt).rows.size := by simpa using hj
    have e : (smoothProlongation omega A S Pt).rows.toList[j] = (smoothProlongation omega A S Pt).row j := by
      simp [CRS.row, Array.getD, hj']
    rw [e] at hcv
    rw [hc]
    exact (hrow j (by rw [← hn]; exact hj')).2 cv hcv
  · rw [K2.nodupb_iff]
    intro i
    by_cases hi : i < A.nrows
    · exact (hrow i hi).1
    · rw [K2.row_eq_nil_of_ge _ (by rw [hn]; omega)]
      exact List.nodup_nil

theorem policyOK_smoothedAggregation (norm : K → K) (prmOf : Nat → SAParams K) (hb : ∀ l, (prmOf l).blockSize = 1)
    (hm : ∀ l, (prmOf l).minAggregate ≤ 1) (nt : Nat) : PolicyOK (smoothedAggregationPolicy norm prmOf nt) := by
  refine ⟨fun idx A P0 R0 _ _ ht => ?_, fun A P R n m => policy_coarse_galerkin nt A P R n m⟩
  obtain ⟨agg, omega, hagg, hP0, hR0⟩ := sa_transfer_spec norm prmOf hb hm nt idx A P0 R0 ht
  obtain ⟨hPt, _⟩ := ptent_wf_of_aggregates (prmOf idx).epsSq A agg hagg
  subst hP0
  exact ⟨hR0, (smoothProlongation_wf omega A agg.strong _ hPt).1, (smoothProlongation_shape omega A agg.strong _ hPt).1⟩

theorem policyNodup_smoothedAggregation (norm : K → K) (prmOf : Nat → SAParams K) (hb : ∀ l, (prmOf l).blockSize = 1)
    (hm : ∀ l, (prmOf l).minAggregate ≤ 1) (nt : Nat) : PolicyNodup (smoothedAggregationPolicy norm prmOf nt) := by
  refine ⟨fun idx A P0 R0 ht => ?_, fun A P R hP hPs => policyNodup_coarse_galerkin nt A P R hP hPs⟩
  obtain ⟨agg, omega, hagg, hP0, _⟩ := sa_transfer_spec norm prmOf hb hm nt idx A P0 R0 ht
  obtain ⟨hPt, _⟩ := ptent_wf_of_aggregates (prmOf idx).epsSq A agg hagg
  subst hP0
  exact (smoothProlongation_wf omega A agg.strong _ hPt).2

end sa
end Amgcl.Energy.Bridge
