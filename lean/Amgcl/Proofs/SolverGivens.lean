import Amgcl.Model.SolverGivens
import Amgcl.Proofs.SolverCommon2
/-!
Relational ("two runs") lemmas about the Hessenberg / Givens code shared by GMRES, FGMRES and LGMRES
(`Model/SolverGivens.lean`): which cells of `v`, `H`, `s`, `cs`, `sn` each piece reads and which it writes.

For every piece there is a `_rel` lemma (two runs whose inputs agree on the cells that are READ produce outputs that
agree on the cells that are WRITTEN — the other input cells may differ arbitrarily) and a `_frame` lemma (the cells
that are not written keep their value).  Inner index `j`:

| piece       | reads                                                    | writes                                      |
|-------------|----------------------------------------------------------|---------------------------------------------|
| `mgs`       | `v[k]`, `k ≤ j`; `v_new`                                  | `H(k,j)`, `k ≤ j`; `v_new`                   |
| `orth`      | the same                                                 | `H(k,j)`, `k ≤ j+1`; `v_new`                 |
| `rotCol`    | `H(k,j)`, `k ≤ j`; `cs[k], sn[k]`, `k < j`                | `H(k,j)`, `k ≤ j`                            |
| `rotate`    | `H(k,j)`, `k ≤ j+1`; `cs[k], sn[k]`, `k < j`; `s[j], s[j+1]` | `H(k,j)`, `k ≤ j+1`; `cs[j], sn[j]`; `s[j], s[j+1]` |
| `hessStep`  | `v[k]`, `k ≤ j`; `cs[k], sn[k]`, `k < j`; `s[j], s[j+1]`; `v_new` — NOT `H` | column `j` of `H`, rows `≤ j+1`; `cs[j], sn[j]`; `s[j], s[j+1]` |
| `backSubst` | `H(k,i)`, `k ≤ i < j`; `s`                                | `s`                                         |
-/
namespace Amgcl.Solver
open Amgcl
set_option linter.unusedSectionVars false
set_option linter.unusedSimpArgs false

variable {K : Type} [Field K] [DecidableEq K] [LT K] [DecidableLT K]

/-! ### output arguments with zero output coefficient are not read -/

/-- `axpby(a, x, 0, y)` never reads `y` -/
theorem axpby_b0_indep (a : K) (x y y' : Vec K) : axpby a x 0 y = axpby a x 0 y' := by simp [axpby]

/-- `spmv(α, A, x, 0, y)` never reads `y` -/
theorem spmv_b0_indep (α : K) (A : CRS K) (x y y' : Vec K) : spmv α A x 0 y = spmv α A x 0 y' := by simp [spmv]

/-! ### `mgs` -/

/-- Gram–Schmidt reads `v[0..j]` and `v_new` only; it never reads `H` -/
theorem mgs_rel (ip : Vec K → Vec K → K) (v v' : FArr (Vec K)) (j : Nat) (H H' : FArr2 K) (vnew : Vec K)
    (hv : ∀ k, k ≤ j → v.get k = v'.get k) :
    (mgs ip v j H vnew).2 = (mgs ip v' j H' vnew).2 ∧
    ∀ k, k ≤ j → (mgs ip v j H vnew).1.get k j = (mgs ip v' j H' vnew).1.get k j := by
  have h := foldl_range_rel
    (fun (acc : FArr2 K × Vec K) k =>
      ((setF2 acc.1 k j (ip acc.2 (v.get k))),
        axpby (-((setF2 acc.1 k j (ip acc.2 (v.get k))).get k j)) (v.get k) 1 acc.2))
    (fun (acc : FArr2 K × Vec K) k =>
      ((setF2 acc.1 k j (ip acc.2 (v'.get k))),
        axpby (-((setF2 acc.1 k j (ip acc.2 (v'.get k))).get k j)) (v'.get k) 1 acc.2))
    (fun k (s t : FArr2 K × Vec K) => s.2 = t.2 ∧ ∀ a, a < k → s.1.get a j = t.1.get a j)
    (j + 1) (H, vnew) (H', vnew) ⟨rfl, fun a ha => absurd ha (Nat.not_lt_zero a)⟩
    (by
      intro k s t hk ⟨h2, h1⟩
      have hvk := hv k (Nat.le_of_lt_succ hk)
      refine ⟨?_, ?_⟩
      · simp only [setF2_same, hvk, h2]
      · intro a ha
        simp only [setF2_get, hvk, h2]
        by_cases hak : a = k
        · simp [hak]
        · simp only [hak, false_and, if_false]
          exact h1 a (by omega))
  exact ⟨h.1, fun k hk => h.2 k (Nat.lt_succ_of_le hk)⟩

/-- Gram–Schmidt writes `H(k,j)`, `k ≤ j`, only -/
theorem mgs_frame (ip : Vec K → Vec K → K) (v : FArr (Vec K)) (j : Nat) (H : FArr2 K) (vnew : Vec K)
    (a b : Nat) (hab : b ≠ j ∨ j < a) : (mgs ip v j H vnew).1.get a b = H.get a b := by
  have h := foldl_range_inv
    (fun (acc : FArr2 K × Vec K) k =>
      ((setF2 acc.1 k j (ip acc.2 (v.get k))),
        axpby (-((setF2 acc.1 k j (ip acc.2 (v.get k))).get k j)) (v.get k) 1 acc.2))
    (fun k (s : FArr2 K × Vec K) => ∀ a b, (b ≠ j ∨ k ≤ a) → s.1.get a b = H.get a b)
    (j + 1) (H, vnew) (fun _ _ _ => rfl)
    (by
      intro k s hk h1 a b hab
      simp only [setF2_get]
      have : ¬ (a = k ∧ b = j) := by omega
      simp only [this, if_false]
      exact h1 a b (by omega))
  exact h a b (by omega)

/-! ### `orth` -/

/-- `orth` (Gram–Schmidt, `H(j+1,j) = ‖v_new‖`, normalisation) reads `v[0..j]` and `v_new` only: two runs on basis
lists that agree up to index `j` and on ARBITRARY `H`, `H'` return the same vector and the same column `j` (rows
`≤ j+1`) -/
theorem orth_rel (ip : Vec K → Vec K → K) (sqrt : K → K) (v v' : FArr (Vec K)) (j : Nat) (H H' : FArr2 K)
    (vnew : Vec K) (hv : ∀ k, k ≤ j → v.get k = v'.get k) :
    (orth ip sqrt v j H vnew).2 = (orth ip sqrt v' j H' vnew).2 ∧
    ∀ k, k ≤ j + 1 → (orth ip sqrt v j H vnew).1.get k j = (orth ip sqrt v' j H' vnew).1.get k j := by
  obtain ⟨h2, h1⟩ := mgs_rel ip v v' j H H' vnew hv
  refine ⟨?_, ?_⟩
  · show axpby (inv1 ((setF2 (mgs ip v j H vnew).1 (j + 1) j (nrmA ip sqrt (mgs ip v j H vnew).2)).get (j + 1) j))
        (mgs ip v j H vnew).2 0 (mgs ip v j H vnew).2
      = axpby (inv1 ((setF2 (mgs ip v' j H' vnew).1 (j + 1) j (nrmA ip sqrt (mgs ip v' j H' vnew).2)).get (j + 1) j))
        (mgs ip v' j H' vnew).2 0 (mgs ip v' j H' vnew).2
    simp only [setF2_same, h2]
  · intro k hk
    show (setF2 (mgs ip v j H vnew).1 (j + 1) j (nrmA ip sqrt (mgs ip v j H vnew).2)).get k j
      = (setF2 (mgs ip v' j H' vnew).1 (j + 1) j (nrmA ip sqrt (mgs ip v' j H' vnew).2)).get k j
    simp only [setF2_get, h2]
    by_cases hkj : k = j + 1
    · simp [hkj]
    · simp only [hkj, false_and, if_false]
      exact h1 k (by omega)

/-- `orth` writes `H(k,j)`, `k ≤ j+1`, only -/
theorem orth_frame (ip : Vec K → Vec K → K) (sqrt : K → K) (v : FArr (Vec K)) (j : Nat) (H : FArr2 K)
    (vnew : Vec K) (a b : Nat) (hab : b ≠ j ∨ j + 1 < a) : (orth ip sqrt v j H vnew).1.get a b = H.get a b := by
  show (setF2 (mgs ip v j H vnew).1 (j + 1) j (nrmA ip sqrt (mgs ip v j H vnew).2)).get a b = H.get a b
  have : ¬ (a = j + 1 ∧ b = j) := by omega
  simp only [setF2_get, this, if_false]
  exact mgs_frame ip v j H vnew a b (by omega)

/-- the frame fact in the form "other columns are untouched" -/
theorem orth_other_col (ip : Vec K → Vec K → K) (sqrt : K → K) (v : FArr (Vec K)) (j : Nat) (H : FArr2 K)
    (vnew : Vec K) (a b : Nat) (hb : b ≠ j) : (orth ip sqrt v j H vnew).1.get a b = H.get a b :=
  orth_frame ip sqrt v j H vnew a b (Or.inl hb)

/-! ### `rotCol` -/

/-- the previous rotations applied to column `j` read `H(k,j)`, `k ≤ j`, and `cs[k], sn[k]`, `k < j`; row `j+1`
of the column is carried along -/
theorem rotCol_rel (j : Nat) (H H' : FArr2 K) (cs cs' sn sn' : FArr K)
    (hcs : ∀ k, k < j → cs.get k = cs'.get k) (hsn : ∀ k, k < j → sn.get k = sn'.get k)
    (hH : ∀ a, a ≤ j + 1 → H.get a j = H'.get a j) :
    ∀ a, a ≤ j + 1 → (rotCol j H cs sn).get a j = (rotCol j H' cs' sn').get a j := by
  exact foldl_range_rel
    (fun (H : FArr2 K) k =>
      setF2 (setF2 H (k + 1) j (applyRot (H.get k j) (H.get (k + 1) j) (cs.get k) (sn.get k)).2) k j
        (applyRot (H.get k j) (H.get (k + 1) j) (cs.get k) (sn.get k)).1)
    (fun (H : FArr2 K) k =>
      setF2 (setF2 H (k + 1) j (applyRot (H.get k j) (H.get (k + 1) j) (cs'.get k) (sn'.get k)).2) k j
        (applyRot (H.get k j) (H.get (k + 1) j) (cs'.get k) (sn'.get k)).1)
    (fun _ (s t : FArr2 K) => ∀ a, a ≤ j + 1 → s.get a j = t.get a j)
    j H H' hH
    (by
      intro k s t hk h1 a ha
      simp only [setF2_get, hcs k hk, hsn k hk, h1 k (by omega), h1 (k + 1) (by omega), h1 a ha])

/-- `rotCol` writes `H(k,j)`, `k ≤ j`, only -/
theorem rotCol_frame (j : Nat) (H : FArr2 K) (cs sn : FArr K) (a b : Nat) (hab : b ≠ j ∨ j < a) :
    (rotCol j H cs sn).get a b = H.get a b := by
  exact foldl_range_inv
    (fun (H : FArr2 K) k =>
      setF2 (setF2 H (k + 1) j (applyRot (H.get k j) (H.get (k + 1) j) (cs.get k) (sn.get k)).2) k j
        (applyRot (H.get k j) (H.get (k + 1) j) (cs.get k) (sn.get k)).1)
    (fun _ (s : FArr2 K) => ∀ a b, (b ≠ j ∨ j < a) → s.get a b = H.get a b)
    j H (fun _ _ _ => rfl)
    (by
      intro k s hk h1 a b hab
      have e1 : ¬ (a = k ∧ b = j) := by omega
      have e2 : ¬ (a = k + 1 ∧ b = j) := by omega
      simp only [setF2_get, e1, e2, if_false]
      exact h1 a b hab) a b hab

/-! ### `rotate` -/

/-- `rotate` reads column `j` of its argument `H2` (rows `≤ j+1`), `cs[k], sn[k]` for `k < j`, and `s`: two runs
that agree there return the same `inner_res`, the same `s`, and agree on `cs[k], sn[k]`, `k ≤ j`, and on column `j`
(rows `≤ j+1`).  `h.H` is not read at all. -/
theorem rotate_rel (sqrt : K → K) (j : Nat) (h h' : Hess K) (H2 H2' : FArr2 K)
    (hs : h.s = h'.s)
    (hcs : ∀ k, k < j → h.cs.get k = h'.cs.get k) (hsn : ∀ k, k < j → h.sn.get k = h'.sn.get k)
    (hH : ∀ a, a ≤ j + 1 → H2.get a j = H2'.get a j) :
    (rotate sqrt j h H2).2 = (rotate sqrt j h' H2').2 ∧
    (rotate sqrt j h H2).1.s = (rotate sqrt j h' H2').1.s ∧
    (∀ k, k < j + 1 → (rotate sqrt j h H2).1.cs.get k = (rotate sqrt j h' H2').1.cs.get k) ∧
    (∀ k, k < j + 1 → (rotate sqrt j h H2).1.sn.get k = (rotate sqrt j h' H2').1.sn.get k) ∧
    (∀ a, a ≤ j + 1 → (rotate sqrt j h H2).1.H.get a j = (rotate sqrt j h' H2').1.H.get a j) := by
  have h3 := rotCol_rel j H2 H2' h.cs h'.cs h.sn h'.sn hcs hsn hH
  have hj := h3 j (by omega)
  have hj1 := h3 (j + 1) (by omega)
  unfold rotate
  simp only [setF_same, hs, hj, hj1]
  refine ⟨trivial, trivial, ?_, ?_, ?_⟩
  · intro k hk
    simp only [setF_get]
    by_cases hkj : k = j
    · simp [hkj]
    · simp only [hkj, if_false]; exact hcs k (by omega)
  · intro k hk
    simp only [setF_get]
    by_cases hkj : k = j
    · simp [hkj]
    · simp only [hkj, if_false]; exact hsn k (by omega)
  · intro a ha
    simp only [setF2_get, h3 a ha]

/-- `rotate` writes column `j` (rows `≤ j+1`) of `H`, `cs[j]`, `sn[j]`, `s[j]`, `s[j+1]` only; the `H` it returns is
its argument `H2` elsewhere -/
theorem rotate_frame (sqrt : K → K) (j : Nat) (h : Hess K) (H2 : FArr2 K) :
    (∀ a b, (b ≠ j ∨ j + 1 < a) → (rotate sqrt j h H2).1.H.get a b = H2.get a b) ∧
    (∀ k, k ≠ j → (rotate sqrt j h H2).1.cs.get k = h.cs.get k) ∧
    (∀ k, k ≠ j → (rotate sqrt j h H2).1.sn.get k = h.sn.get k) ∧
    (∀ k, k ≠ j → k ≠ j + 1 → (rotate sqrt j h H2).1.s.get k = h.s.get k) := by
  unfold rotate
  refine ⟨?_, ?_, ?_, ?_⟩
  · intro a b hab
    have e1 : ¬ (a = j ∧ b = j) := by omega
    have e2 : ¬ (a = j + 1 ∧ b = j) := by omega
    simp only [setF2_get, e1, e2, if_false]
    exact rotCol_frame j H2 h.cs h.sn a b (by omega)
  · intro k hk; simp only [setF_get, hk, if_false]
  · intro k hk; simp only [setF_get, hk, if_false]
  · intro k hk hk1; simp only [setF_get, hk, hk1, if_false]

/-! ### `hessStep` = `orth` followed by `rotate` -/

/-- one Arnoldi/Givens step for inner index `j` reads `v[0..j]`, `v_new`, `s`, and `cs[k], sn[k]` for `k < j` —
it does NOT read `H`: on ARBITRARY `h.H`, `h'.H` it returns the same normalised vector, the same `inner_res`, the
same `s`, `cs`/`sn` that agree up to index `j`, and the same column `j` of `H` (rows `≤ j+1`) -/
theorem hessStep_rel (ip : Vec K → Vec K → K) (sqrt : K → K) (v v' : FArr (Vec K)) (j : Nat) (h h' : Hess K)
    (vnew : Vec K) (hv : ∀ k, k ≤ j → v.get k = v'.get k) (hs : h.s = h'.s)
    (hcs : ∀ k, k < j → h.cs.get k = h'.cs.get k) (hsn : ∀ k, k < j → h.sn.get k = h'.sn.get k) :
    (hessStep ip sqrt v j h vnew).2.1 = (hessStep ip sqrt v' j h' vnew).2.1 ∧
    (hessStep ip sqrt v j h vnew).2.2 = (hessStep ip sqrt v' j h' vnew).2.2 ∧
    (hessStep ip sqrt v j h vnew).1.s = (hessStep ip sqrt v' j h' vnew).1.s ∧
    (∀ k, k < j + 1 → (hessStep ip sqrt v j h vnew).1.cs.get k = (hessStep ip sqrt v' j h' vnew).1.cs.get k) ∧
    (∀ k, k < j + 1 → (hessStep ip sqrt v j h vnew).1.sn.get k = (hessStep ip sqrt v' j h' vnew).1.sn.get k) ∧
    (∀ a, a ≤ j + 1 → (hessStep ip sqrt v j h vnew).1.H.get a j = (hessStep ip sqrt v' j h' vnew).1.H.get a j) := by
  obtain ⟨o2, o1⟩ := orth_rel ip sqrt v v' j h.H h'.H vnew hv
  obtain ⟨r2, rs, rcs, rsn, rH⟩ := rotate_rel sqrt j h h' (orth ip sqrt v j h.H vnew).1
    (orth ip sqrt v' j h'.H vnew).1 hs hcs hsn o1
  exact ⟨o2, r2, rs, rcs, rsn, rH⟩

/-- `hessStep` writes column `j` of `H`, `cs[j]`, `sn[j]`, `s[j]`, `s[j+1]` only -/
theorem hessStep_frame (ip : Vec K → Vec K → K) (sqrt : K → K) (v : FArr (Vec K)) (j : Nat) (h : Hess K)
    (vnew : Vec K) :
    (∀ a b, (b ≠ j ∨ j + 1 < a) → (hessStep ip sqrt v j h vnew).1.H.get a b = h.H.get a b) ∧
    (∀ k, k ≠ j → (hessStep ip sqrt v j h vnew).1.cs.get k = h.cs.get k) ∧
    (∀ k, k ≠ j → (hessStep ip sqrt v j h vnew).1.sn.get k = h.sn.get k) ∧
    (∀ k, k ≠ j → k ≠ j + 1 → (hessStep ip sqrt v j h vnew).1.s.get k = h.s.get k) := by
  obtain ⟨f1, f2, f3, f4⟩ := rotate_frame sqrt j h (orth ip sqrt v j h.H vnew).1
  refine ⟨?_, f2, f3, f4⟩
  intro a b hab
  exact (f1 a b hab).trans (orth_frame ip sqrt v j h.H vnew a b hab)

/-- the loop-invariant form used by the inner loops: if the two `H` agree on the upper-Hessenberg part of the columns
`< j` (all that has been written so far), they agree on the upper-Hessenberg part of the columns `< j+1` afterwards -/
theorem hessStep_rel_H (ip : Vec K → Vec K → K) (sqrt : K → K) (v v' : FArr (Vec K)) (j : Nat) (h h' : Hess K)
    (vnew : Vec K) (hv : ∀ k, k ≤ j → v.get k = v'.get k) (hs : h.s = h'.s)
    (hcs : ∀ k, k < j → h.cs.get k = h'.cs.get k) (hsn : ∀ k, k < j → h.sn.get k = h'.sn.get k)
    (hH : ∀ i k, i < j → k ≤ i + 1 → h.H.get k i = h'.H.get k i) :
    ∀ i k, i < j + 1 → k ≤ i + 1 →
      (hessStep ip sqrt v j h vnew).1.H.get k i = (hessStep ip sqrt v' j h' vnew).1.H.get k i := by
  intro i k hi hk
  by_cases hij : i = j
  · subst hij
    exact (hessStep_rel ip sqrt v v' i h h' vnew hv hs hcs hsn).2.2.2.2.2 k hk
  · rw [(hessStep_frame ip sqrt v j h vnew).1 k i (Or.inl hij),
      (hessStep_frame ip sqrt v' j h' vnew).1 k i (Or.inl hij)]
    exact hH i k (by omega) hk

/-! ### `backSubst` -/

/-- the back substitution for `j` columns reads `H(k,i)` for `k ≤ i < j` only -/
theorem backSubst_rel (j : Nat) (H H' : FArr2 K) (s : FArr K)
    (hH : ∀ i k, i < j → k ≤ i → H.get k i = H'.get k i) : backSubst j H s = backSubst j H' s := by
  unfold backSubst
  apply foldl_mem_rel _ _ (fun (a b : FArr K) => a = b) _ _ _ rfl
  intro a b i hi hab
  subst hab
  have hij : i < j := by simpa using hi
  simp only [hH i i hij (Nat.le_refl i)]
  exact foldl_range_rel _ _ (fun _ (a b : FArr K) => a = b) i _ _ rfl
    (by
      intro k s t hk hst
      subst hst
      simp only [hH i k hij (Nat.le_of_lt hk)])

/-- `sInit` in both runs is the same array (it depends on `norm_r` only) -/
theorem sInit_get (normR : K) (k : Nat) : (sInit normR).get k = if k = 0 then normR else 0 := rfl

end Amgcl.Solver
