import Amgcl.Proofs.DistAmgCycle
import Amgcl.Proofs.DistConsolidate
/-!
The distributed coarse solver `solver_base` with one master (`comm_size = 1`: `mpi::direct::skyline_lu`) refines the
serial direct solver of the gathered matrix: the consolidated matrix IS the gathered matrix (`Dist.assemble`), the
consolidated right-hand side is the gathered right-hand side, and every rank is handed its own slice of the
solution (the running `shift` of slave `j` is `domain[slave j]`, C12 `coarse_consolidation_assembles`).
-/
namespace Amgcl.DistAmg
open Amgcl Amgcl.Dist Amgcl.Lockstep

section
variable {K : Type}

/-- a well-formed distributed matrix whose remote columns are global column numbers -/
structure DistOK (Ds : List (DistMat K)) (rp cp : List Nat) : Prop where
  wf : DistWF Ds rp cp
  remLt : ∀ r, r < rp.length → ∀ i, ∀ cv ∈ (Ds.getD r default).rem.row i, cv.1 < cp.sum

theorem distOK_split (A : CRS K) (rp cp : List Nat) (h : PartOK A rp cp) : DistOK (split A rp cp) rp cp := by
  refine ⟨distWF_split A rp cp h, ?_⟩
  intro r hr i cv hcv
  rw [split_getD A rp cp r hr] at hcv
  by_cases hi : i < dom rp (r + 1) - dom rp r
  · rw [splitRank_rem_row A rp cp r i hi] at hcv
    rw [h.cols]
    exact A_row_lt h.wf _ cv (mem_remPart hcv).1
  · have : (splitRank A rp cp r).rem.row i = [] :=
      CRS.row_ge _ i (by rw [(splitRank_nrows A rp cp r).2]; omega)
    rw [this] at hcv; cases hcv

/-- the gathered matrix of a well-formed distributed matrix has the shape its partitions announce -/
theorem assemble_partOK (Ds : List (DistMat K)) (rp cp : List Nat) (h : DistOK Ds rp cp) :
    PartOK (assemble Ds cp) rp cp := by
  have hn := assemble_nrows Ds rp cp h.wf
  refine ⟨?_, h.wf.lenc, hn.symm, rfl⟩
  rw [K2.wf_iff_row]
  intro i hi cv hcv
  rw [hn] at hi
  obtain ⟨r, hr, hlo, hhi⟩ := exists_owner rp i hi
  have hrc : r < cp.length := by rw [← h.wf.lenc]; exact hr
  have hrow := assemble_row Ds rp cp h.wf r (i - dom rp r) hr (by rw [dom_succ rp r hr] at hhi; omega)
  rw [show dom rp r + (i - dom rp r) = i by omega] at hrow
  rw [hrow] at hcv
  show cv.1 < cp.sum
  unfold globalRow at hcv
  rcases List.mem_append.1 hcv with hm | hm
  · obtain ⟨a, ha, rfl⟩ := List.mem_map.1 hm
    have h1 := h.wf.locLt r hr _ a ha
    have h2 := dom_le_sum cp (show r + 1 ≤ cp.length from hrc)
    rw [dom_succ cp r hrc] at h2
    simp only; omega
  · exact h.remLt r hr _ cv hm

theorem split_assemble_ok (Ds : List (DistMat K)) (rp cp : List Nat) (h : DistOK Ds rp cp) :
    Ds = split (assemble Ds cp) rp cp := (split_assemble Ds rp cp h.wf).symm

/-- `domain = exclusive_sum(n)`: the local row counts are the partition -/
theorem cnt_eq (Ds : List (DistMat K)) (rp cp : List Nat) (h : DistWF Ds rp cp) : Ds.map (·.loc.nrows) = rp := by
  apply List.ext_getElem?
  intro r
  rw [List.getElem?_map]
  by_cases hr : r < rp.length
  · have hrD : r < Ds.length := by rw [h.len]; exact hr
    have := h.locRows r hr
    rw [List.getD_eq_getElem?_getD, List.getElem?_eq_getElem hrD] at this
    rw [List.getElem?_eq_getElem hrD, List.getElem?_eq_getElem hr]
    simp only [Option.map_some, Option.getD_some] at this ⊢
    rw [this, List.getD_eq_getElem?_getD, List.getElem?_eq_getElem hr]; rfl
  · rw [List.getElem?_eq_none (by rw [h.len]; omega), List.getElem?_eq_none (by omega)]; rfl

/-! ### one master: the group is all active ranks -/

theorem groupOf_one (cnt : List Nat) (a0 : Nat) (tl : List Nat) (hact : activeRanks cnt = a0 :: tl) (r : Nat)
    (hr : r ∈ activeRanks cnt) :
    (groupOf cnt 1 r).master = a0 ∧ (groupOf cnt 1 r).slaves = tl ∧
    (groupOf cnt 1 r).counts = tl.map (fun i => dom cnt (i + 1) - dom cnt i) := by
  have hidx : (a0 :: tl).idxOf r < tl.length + 1 := by
    have := List.idxOf_lt_length_iff.2 (hact ▸ hr)
    simpa using this
  have hmin : min (tl.length + 1) 1 = 1 := by omega
  have hspm : (tl.length + 1 + 1 - 1) / 1 = tl.length + 1 := by simp
  have hgb : (a0 :: tl).idxOf r / (tl.length + 1) * (tl.length + 1) = 0 := by
    rw [Nat.div_eq_of_lt hidx]; simp
  unfold groupOf
  simp only [hact, List.length_cons, hmin, hspm, hgb]
  have hsl : (List.drop (0 + 1) (a0 :: tl)).take (min (0 + (tl.length + 1)) (tl.length + 1) - (0 + 1)) = tl := by
    simp
  rw [hsl]
  exact ⟨rfl, rfl, rfl⟩

theorem groupOf_one' (cnt : List Nat) (a0 : Nat) (tl : List Nat) (hact : activeRanks cnt = a0 :: tl) (r : Nat)
    (hr : r ∈ activeRanks cnt) :
    groupOf cnt 1 r = ⟨a0, tl, tl.map (fun i => dom cnt (i + 1) - dom cnt i)⟩ := by
  obtain ⟨h1, h2, h3⟩ := groupOf_one cnt a0 tl hact r hr
  cases hg : groupOf cnt 1 r with
  | mk m s c =>
    rw [hg] at h1 h2 h3
    simp only at h1 h2 h3
    rw [h1, h2, h3]

/-- nobody before the first active rank owns a row -/
theorem dom_first_active (cnt : List Nat) (a0 : Nat) (tl : List Nat) (hact : activeRanks cnt = a0 :: tl) :
    dom cnt a0 = 0 := by
  have hs := activeRanks_sorted cnt
  rw [hact] at hs
  have ha0 : a0 < cnt.length := ((mem_activeRanks cnt a0).1 (by rw [hact]; simp)).1
  have hzero : ∀ i, i < a0 → cnt.getD i 0 = 0 := by
    intro i hi
    by_contra hne
    have hmem : i ∈ activeRanks cnt := (mem_activeRanks cnt i).2 ⟨by omega, Nat.pos_of_ne_zero hne⟩
    rw [hact] at hmem
    rcases List.mem_cons.1 hmem with e | hm
    · omega
    · have := (List.pairwise_cons.1 hs).1 i hm; omega
  have key : ∀ k, k ≤ a0 → dom cnt k = 0 := by
    intro k
    induction k with
    | zero => intro _; exact dom_zero cnt
    | succ k ih =>
      intro hk
      rw [dom_succ cnt k (by omega), hzero k (by omega), ih (by omega)]
  exact key a0 (Nat.le_refl _)

theorem array_eq_of_size_zero {α : Type} (a b : Array α) (ha : a.size = 0) (hb : b.size = 0) : a = b := by
  rw [Array.eq_empty_of_size_eq_zero ha, Array.eq_empty_of_size_eq_zero hb]

theorem directInit_length (c : Nat) (Ds : List (DistMat K)) (cp : List Nat) : (directInit c Ds cp).length = Ds.length := by
  unfold directInit; simp

theorem directInit_getD (c : Nat) (Ds : List (DistMat K)) (cp : List Nat) (r : Nat) (hr : r < Ds.length) :
    (directInit c Ds cp).getD r default =
      { n := (Ds.map (·.loc.nrows)).getD r 0, group := groupOf (Ds.map (·.loc.nrows)) c r,
        cons := if (Ds.map (·.loc.nrows)).getD r 0 ≠ 0 ∧ r = (groupOf (Ds.map (·.loc.nrows)) c r).master
          then some ⟨(Ds.map (·.loc.nrows)).sum,
            (assembleRank cp r (Ds.getD r default)
              ++ (groupOf (Ds.map (·.loc.nrows)) c r).slaves.flatMap
                  (fun i => assembleRank cp i (Ds.getD i default))).toArray⟩
          else none } := by
  unfold directInit
  simp only
  rw [getD_map_range _ _ _ _ hr]

/-- the rows of the gathered matrix: the ranks' strips in rank order -/
theorem assemble_rows_eq (Ds : List (DistMat K)) (cp : List Nat) :
    (assemble Ds cp).rows = ((List.range Ds.length).flatMap (fun i => assembleRank cp i (Ds.getD i default))).toArray := by
  unfold assemble
  simp only
  rw [zipIdx_eq_map_range, List.flatMap_map]

theorem assembleRank_nil (cp : List Nat) (i : Nat) (D : DistMat K) (h : D.loc.nrows = 0) : assembleRank cp i D = [] := by
  unfold assembleRank; rw [h]; rfl

/-- with one master the consolidated strips (master first, then the slaves = the other active ranks) are all the
ranks' strips in rank order, for any per-rank data that is empty on inactive ranks -/
theorem active_flatMap {β : Type} (cnt : List Nat) (g : Nat → List β) (hg : ∀ i, i < cnt.length → cnt.getD i 0 = 0 → g i = []) :
    (activeRanks cnt).flatMap g = (List.range cnt.length).flatMap g := by
  unfold activeRanks
  apply flatMap_filter_of_nil
  intro i hi hp
  have hi' := List.mem_range.1 hi
  apply hg i hi'
  have : ¬ 0 < cnt.getD i 0 := by simpa using hp
  omega

end

section
variable {K : Type} [CommRing K] [DecidableEq K]

/-- **the distributed direct solver refines the serial one** (one master, e.g. `skyline_lu`) for every partition,
ranks without rows included; `hd`: the serial solver returns a vector of the system's size -/
theorem directSolve_ref (direct : CRS K → Vec K → Vec K) (Ds : List (DistMat K)) (p : List Nat) (h : DistOK Ds p p)
    (hd : ∀ f : Vec K, f.size = p.sum → (direct (assemble Ds p) f).size = p.sum) :
    DirectRef direct (directInit 1 Ds p) (assemble Ds p) p := by
  intro f x hf hx
  refine ⟨?_, hd f hf⟩
  have hcnt := cnt_eq Ds p p h.wf
  have hlen : Ds.length = p.length := h.wf.len
  unfold directSolve
  simp only
  rw [directInit_length, hlen]
  show _ = (List.range p.length).map (vecPart (direct (assemble Ds p) f) p)
  apply List.map_congr_left
  intro r hr
  have hr' := List.mem_range.1 hr
  have hXs := hd f hf
  rw [directInit_getD 1 Ds p r (by rw [hlen]; exact hr'), hcnt]
  simp only
  by_cases hz : p.getD r 0 = 0
  · rw [if_pos hz, splitVec_getD x p r hr']
    apply array_eq_of_size_zero
    · rw [vecPart_size x p r hr' (by rw [hx]), hz]
    · rw [vecPart_size _ p r hr' (by rw [hXs]), hz]
  · rw [if_neg hz]
    have hract : r ∈ activeRanks p := (mem_activeRanks p r).2 ⟨hr', Nat.pos_of_ne_zero hz⟩
    obtain ⟨a0, tl, hact⟩ : ∃ a0 tl, activeRanks p = a0 :: tl := by
      cases hh : activeRanks p with
      | nil => rw [hh] at hract; cases hract
      | cons a t => exact ⟨a, t, rfl⟩
    have ha0 : a0 ∈ activeRanks p := by rw [hact]; simp
    obtain ⟨ha0l, ha0p⟩ := (mem_activeRanks p a0).1 ha0
    rw [groupOf_one' p a0 tl hact r hract]
    dsimp only
    rw [directInit_getD 1 Ds p a0 (by rw [hlen]; exact ha0l), hcnt, groupOf_one' p a0 tl hact a0 ha0]
    dsimp only
    rw [if_pos (show p.getD a0 0 ≠ 0 ∧ a0 = a0 from ⟨by omega, rfl⟩)]
    dsimp only
    -- the consolidated right-hand side is the gathered right-hand side
    have hF : ((splitVec f p).getD a0 #[]).toList ++ tl.flatMap (fun i => ((splitVec f p).getD i #[]).toList)
        = f.toList := by
      have e1 : ((splitVec f p).getD a0 #[]).toList ++ tl.flatMap (fun i => ((splitVec f p).getD i #[]).toList)
          = (activeRanks p).flatMap (fun i => ((splitVec f p).getD i #[]).toList) := by
        rw [hact, List.flatMap_cons]
      rw [e1, active_flatMap p _ (by
        intro i hi hzi
        rw [splitVec_getD f p i hi]
        have : (vecPart f p i).size = 0 := by rw [vecPart_size f p i hi (by rw [hf]), hzi]
        rw [Array.eq_empty_of_size_eq_zero this])]
      have e2 := concat_vecParts f p hf
      unfold concatVec at e2
      rw [List.flatMap_map] at e2
      have e3 : (List.range p.length).flatMap (fun i => ((splitVec f p).getD i #[]).toList)
          = (List.range p.length).flatMap (fun r => (vecPart f p r).toList) := by
        apply List.flatMap_congr
        intro i hi
        rw [splitVec_getD f p i (List.mem_range.1 hi)]
      rw [e3]
      have := congrArg Array.toList e2
      simpa using this
    -- the consolidated matrix is the gathered matrix
    have hA : (⟨p.sum, (assembleRank p a0 (Ds.getD a0 default)
        ++ tl.flatMap (fun i => assembleRank p i (Ds.getD i default))).toArray⟩ : CRS K) = assemble Ds p := by
      have e1 : assembleRank p a0 (Ds.getD a0 default) ++ tl.flatMap (fun i => assembleRank p i (Ds.getD i default))
          = (activeRanks p).flatMap (fun i => assembleRank p i (Ds.getD i default)) := by
        rw [hact, List.flatMap_cons]
      rw [e1, active_flatMap p _ (by
        intro i hi hzi
        exact assembleRank_nil p i _ (by rw [h.wf.locRows i hi, hzi]))]
      have e2 := assemble_rows_eq Ds p
      rw [hlen] at e2
      rw [← e2]
      rfl
    rw [hF, hA]
    have hfa : f.toList.toArray = f := by simp
    rw [hfa]
    by_cases hra : r = a0
    · rw [if_pos hra]
      subst hra
      unfold vecPart
      rw [dom_first_active p r tl hact, dom_succ p r hr', dom_first_active p r tl hact, Nat.zero_add]
    · rw [if_neg hra]
      have hrtl : r ∈ tl := by
        rw [hact] at hract
        rcases List.mem_cons.1 hract with e | e
        · exact absurd e hra
        · exact e
      have hj : tl.idxOf r < tl.length := List.idxOf_lt_length_iff.2 hrtl
      have hget : tl.getD (tl.idxOf r) 0 = r := by
        rw [List.getD_eq_getElem _ _ hj]; exact List.getElem_idxOf hj
      obtain ⟨_, hsh⟩ := chain_rows p tl a0 [] [] (by rw [hact]; simp)
      have hs := hsh (tl.idxOf r) hj
      rw [hget] at hs
      unfold domainRow at hs
      rw [dom_first_active p a0 tl hact, Nat.sub_zero, dom_succ p a0 ha0l, dom_first_active p a0 tl hact,
        Nat.zero_add, Nat.sub_zero] at hs
      rw [← hs]
      have hc : (tl.map (fun i => dom p (i + 1) - dom p i)).getD (tl.idxOf r) 0 = p.getD r 0 := by
        rw [getD_map_lt _ tl _ 0 0 hj, hget, dom_succ p r hr']; omega
      rw [hc]
      unfold vecPart
      rw [dom_succ p r hr']

end
end Amgcl.DistAmg
