import Amgcl.Proofs.QRSolveWide
import Mathlib.Data.List.Forall2
/-!
Reuse of one `QR` object (`Model/QR.lean`: the members `tau`, `f`, `q` are `std::vector`s that are only ever `resize`d):
what a call returns does not depend on what the members held before.

* `computeS_indep` — `compute` returns the same buffer and the same `tau` whatever `tau` held (for `min m n ≠ 0`; otherwise
  `compute` returns immediately);
* `solveS_indep` — `solve` returns the same `x` as on a default-constructed object, for every input, without any hypothesis;
* `factorizeS_indep` — `factorize` returns the same buffer and the same `Q(i,j)`, `i < m`, `j < n` (under the layout
  hypothesis that makes `Q(i,j)` address distinct cells of `q`).
-/
set_option linter.unusedSectionVars false
namespace Amgcl
namespace QRModel
open Finset Matrix Arr2

variable {K : Type} [Field K] [LinearOrder K] [IsStrictOrderedRing K]

theorem array_ext_getD (a b : Array K) (hs : a.size = b.size) (h : ∀ i, i < a.size → a.getD i 0 = b.getD i 0) : a = b := by
  apply Array.ext hs
  intro i h1 h2
  have := h i h1
  simpa [Array.getD, h1, h2] using this

/-- the entries `< i` of `tau` after `i` steps do not depend on the initial content of `tau` -/
theorem stateAt_tau_indep (sqrt : K → K) (m n rs cs : Nat) (A tau0 tau1 : Array K) : ∀ i, i ≤ min m n →
    ∀ j, j < i → (stateAt sqrt m n rs cs A tau0 i).2.getD j 0 = (stateAt sqrt m n rs cs A tau1 i).2.getD j 0 := by
  intro i
  induction i with
  | zero => intro _ j hj; exact absurd hj (Nat.not_lt_zero _)
  | succ i ih =>
    intro hi j hj
    obtain ⟨h1, h2, h3⟩ := stateAt_buf_indep sqrt m n rs cs A tau0 tau1 i (by omega)
    rw [stateAt_succ, stateAt_succ]
    unfold computeStep
    simp only []
    by_cases hji : j = i
    · subst hji
      rw [getD_setIfInBounds_self _ _ _ (by rw [h2]; omega), getD_setIfInBounds_self _ _ _ (by rw [h3]; omega), h1]
    · rw [getD_setIfInBounds_ne _ _ _ (Ne.symm hji), getD_setIfInBounds_ne _ _ _ (Ne.symm hji)]
      exact ih (by omega) j (by omega)

/-- `compute` does not depend on what the member `tau` held -/
theorem computeS_indep (sqrt : K → K) (m n rs cs : Nat) (A tau0 tau1 : Array K) (hk : min m n ≠ 0) :
    computeS sqrt m n rs cs A tau0 = computeS sqrt m n rs cs A tau1 := by
  rw [computeS_stateAt _ _ _ _ _ _ _ hk, computeS_stateAt _ _ _ _ _ _ _ hk]
  obtain ⟨h1, h2, h3⟩ := stateAt_buf_indep sqrt m n rs cs A tau0 tau1 (min m n) (Nat.le_refl _)
  apply Prod.ext h1
  apply array_ext_getD _ _ (by rw [h2, h3])
  intro j hj
  exact stateAt_tau_indep sqrt m n rs cs A tau0 tau1 (min m n) (Nat.le_refl _) j (by rw [h2] at hj; exact hj)

theorem loadF_indep (rows : Nat) (b f0 f1 : Array K) (h0 : f0.size = rows) (h1 : f1.size = rows) :
    loadF rows b f0 = loadF rows b f1 := by
  obtain ⟨a1, a2⟩ := loadF_spec rows b f0 h0
  obtain ⟨b1, b2⟩ := loadF_spec rows b f1 h1
  apply array_ext_getD _ _ (by rw [a1, b1])
  intro i hi
  rw [a1] at hi
  rw [a2 i hi, b2 i hi]

/-- `solve` on an object in any state returns what it returns on a default-constructed object -/
theorem solveS_indep (sqrt : K → K) (rows cols rs cs : Nat) (A b : Array K) (o : Obj K) :
    (solveS sqrt rows cols rs cs A b o).1 = solve sqrt rows cols rs cs A b := by
  unfold solve
  have hl : loadF rows b (resizeZ o.f rows) = loadF rows b (resizeZ (Obj.fresh : Obj K).f rows) :=
    loadF_indep rows b _ _ (resizeZ_size _ _) (resizeZ_size _ _)
  by_cases h : rows ≥ cols
  · rw [solveS_tall sqrt rows cols rs cs A b o h, solveS_tall sqrt rows cols rs cs A b Obj.fresh h]
    simp only []
    by_cases hk : min rows cols = 0
    · have hc : cols = 0 := by omega
      subst hc
      rfl
    · rw [computeS_indep sqrt rows cols rs cs A o.tau (Obj.fresh : Obj K).tau hk, hl]
  · rw [solveS_wide sqrt rows cols rs cs A b o h, solveS_wide sqrt rows cols rs cs A b Obj.fresh h]
    simp only []
    by_cases hk : min cols rows = 0
    · have hr : rows = 0 := by omega
      subst hr
      rfl
    · rw [computeS_indep sqrt cols rows cs rs A o.tau (Obj.fresh : Obj K).tau hk, hl]

/-- `factorize` on an object in any state returns the buffer and the entries `Q(i,j)` it returns on a default-constructed
object -/
theorem factorizeS_indep (sqrt : K → K) (m n rs cs : Nat) (A : Array K) (o : Obj K) (Lq : Layout m n rs cs (m * n)) :
    (factorizeS sqrt m n rs cs A o).1 = (factorize sqrt m n rs cs A).1 ∧
    ∀ i j, i < m → j < n → getQ (factorizeS sqrt m n rs cs A o).2.q rs cs i j = getQ (factorize sqrt m n rs cs A).2.2 rs cs i j := by
  have hfr : factorize sqrt m n rs cs A = ((factorizeS sqrt m n rs cs A Obj.fresh).1,
      (factorizeS sqrt m n rs cs A Obj.fresh).2.tau, (factorizeS sqrt m n rs cs A Obj.fresh).2.q) := rfl
  rw [hfr]
  obtain ⟨a1, _, _, a4⟩ := factorize_q sqrt m n rs cs A o Lq
  obtain ⟨b1, _, _, b4⟩ := factorize_q sqrt m n rs cs A Obj.fresh Lq
  by_cases hk : min m n = 0
  · refine ⟨?_, ?_⟩
    · rw [a1, b1, computeS_eq, computeS_eq, if_pos hk, if_pos hk]
    · intro i j hi hj; omega
  · have hc := computeS_indep sqrt m n rs cs A o.tau (Obj.fresh : Obj K).tau hk
    refine ⟨by rw [a1, b1, hc], ?_⟩
    intro i j hi hj
    have e1 := congrFun (congrFun a4 ⟨i, hi⟩) ⟨j, hj⟩
    have e2 := congrFun (congrFun b4 ⟨i, hi⟩) ⟨j, hj⟩
    rw [hc] at e1
    exact e1.trans e2.symm

/-- the buffer returned by `factorize` does not depend on the object state (no layout hypothesis) -/
theorem factorizeS_indep' (sqrt : K → K) (m n rs cs : Nat) (A : Array K) (o : Obj K) :
    (factorizeS sqrt m n rs cs A o).1 = (factorize sqrt m n rs cs A).1 := by
  show (computeS sqrt m n rs cs A o.tau).1 = (computeS sqrt m n rs cs A (Obj.fresh : Obj K).tau).1
  by_cases hk : min m n = 0
  · rw [computeS_eq, computeS_eq, if_pos hk, if_pos hk]
  · rw [computeS_indep sqrt m n rs cs A o.tau (Obj.fresh : Obj K).tau hk]

/-- what a call of a sequence on ONE object must return: for `solve` exactly what a default-constructed object returns, for
`factorize` the same buffer and (where `Q(i,j)` addresses distinct cells) the same entries `Q(i,j)` -/
def CallFresh (sqrt : K → K) (c : Call K) (r : Array K × Array K) : Prop :=
  match c with
  | .factorize m n rs cs A =>
    r.1 = (factorize sqrt m n rs cs A).1 ∧
    (Layout m n rs cs (m * n) → ∀ i j, i < m → j < n → getQ r.2 rs cs i j = getQ (factorize sqrt m n rs cs A).2.2 rs cs i j)
  | .solve rows cols rs cs A b => r = (solve sqrt rows cols rs cs A b, #[])

/-- the loop body of `runSeq` -/
def seqStep (sqrt : K → K) (st : Obj K × List (Array K × Array K)) (c : Call K) : Obj K × List (Array K × Array K) :=
  match c with
  | .factorize m n rs cs A =>
    let (F, o) := factorizeS sqrt m n rs cs A st.1
    (o, (F, o.q) :: st.2)
  | .solve rows cols rs cs A b =>
    let (x, o) := solveS sqrt rows cols rs cs A b st.1
    (o, (x, #[]) :: st.2)

theorem runSeq_eq (sqrt : K → K) (calls : List (Call K)) :
    runSeq sqrt calls = (calls.foldl (seqStep sqrt) (Obj.fresh, [])).2.reverse := rfl

theorem seqStep_fresh (sqrt : K → K) (st : Obj K × List (Array K × Array K)) (c : Call K) :
    ∃ r, (seqStep sqrt st c).2 = r :: st.2 ∧ CallFresh sqrt c r := by
  cases c with
  | factorize m n rs cs A =>
    refine ⟨((factorizeS sqrt m n rs cs A st.1).1, (factorizeS sqrt m n rs cs A st.1).2.q), rfl, ?_⟩
    exact ⟨(factorizeS_indep' sqrt m n rs cs A st.1), fun L => (factorizeS_indep sqrt m n rs cs A st.1 L).2⟩
  | solve rows cols rs cs A b =>
    refine ⟨((solveS sqrt rows cols rs cs A b st.1).1, #[]), rfl, ?_⟩
    show _ = _
    rw [solveS_indep]

/-- every call of a sequence on one object returns what a default-constructed object returns -/
theorem runSeq_fresh (sqrt : K → K) (calls : List (Call K)) : List.Forall₂ (CallFresh sqrt) calls (runSeq sqrt calls) := by
  rw [runSeq_eq]
  have key : ∀ (cs : List (Call K)) (done : List (Call K)) (st : Obj K × List (Array K × Array K)),
      List.Forall₂ (CallFresh sqrt) done st.2.reverse →
      List.Forall₂ (CallFresh sqrt) (done ++ cs) (cs.foldl (seqStep sqrt) st).2.reverse := by
    intro cs
    induction cs with
    | nil => intro done st h; simpa using h
    | cons c t ih =>
      intro done st h
      rw [List.foldl_cons]
      obtain ⟨r, hr1, hr2⟩ := seqStep_fresh sqrt st c
      have := ih (done ++ [c]) (seqStep sqrt st c) (by
        rw [hr1, List.reverse_cons]
        exact List.rel_append h (List.Forall₂.cons hr2 List.Forall₂.nil))
      simpa using this
  simpa using key calls [] (Obj.fresh, []) (by simp)

end QRModel
end Amgcl
