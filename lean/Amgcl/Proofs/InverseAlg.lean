import Mathlib.Algebra.BigOperators.Group.Finset.Basic
import Mathlib.Algebra.BigOperators.Intervals
import Mathlib.Algebra.BigOperators.Ring.Finset
import Mathlib.Algebra.Field.Basic
import Mathlib.Tactic.Ring
import Mathlib.Tactic.FieldSimp
import Mathlib.Tactic.Linarith
/-!
Algebraic layer of `detail::inverse` on index functions (no arrays): the invariant of LU factorisation with row
exchanges, why a nonsingular matrix never yields a zero pivot under partial pivoting, and the two triangular solves.

`B` is the original matrix, `pf` the current row permutation (logical row `i` is physical row `pf i`), `M i j` the
current content of logical row `i`.  After `c` columns the stored content is: multipliers `M i m` (`m < min i c`),
the inverted pivots `M m m` (`m < c`), the rows of `U` right of the diagonal, and the not yet reduced block.
-/
namespace Amgcl
open Finset

variable {K : Type} [Field K]

/-- the reduced matrix after `c` columns: upper triangular rows `i < c` (pivot = inverse of the stored diagonal),
rows `i ≥ c` vanish left of column `c` -/
def Wmat (c : Nat) (M : Nat → Nat → K) (i j : Nat) : K :=
  if i < c then (if j < i then 0 else if j = i then (M i i)⁻¹ else M i j) else (if j < c then 0 else M i j)

/-- `P·B = L·W` row by row -/
def LUInv (n c : Nat) (B : Nat → Nat → K) (pf : Nat → Nat) (M : Nat → Nat → K) : Prop :=
  ∀ i j, i < n → j < n → B (pf i) j = ∑ m ∈ range (min i c), M i m * Wmat c M m j + Wmat c M i j

/-- nonsingular: only the zero vector is mapped to zero -/
def Nonsing (n : Nat) (B : Nat → Nat → K) : Prop :=
  ∀ x : Nat → K, (∀ r, r < n → ∑ j ∈ range n, B r j * x j = 0) → ∀ j, j < n → x j = 0

theorem LUInv_zero (n : Nat) (B : Nat → Nat → K) : LUInv n 0 B id B := by
  intro i j _ _
  simp [Wmat]

theorem LUInv_apply {n c : Nat} {B : Nat → Nat → K} {pf : Nat → Nat} {M : Nat → Nat → K} (h : LUInv n c B pf M)
    (x : Nat → K) (i : Nat) (hi : i < n) :
    ∑ j ∈ range n, B (pf i) j * x j
      = ∑ m ∈ range (min i c), M i m * (∑ j ∈ range n, Wmat c M m j * x j) + ∑ j ∈ range n, Wmat c M i j * x j := by
  have : ∀ j ∈ range n, B (pf i) j * x j
      = ∑ m ∈ range (min i c), M i m * (Wmat c M m j * x j) + Wmat c M i j * x j := by
    intro j hj
    rw [h i j hi (mem_range.mp hj), add_mul, sum_mul]
    congr 1
    apply sum_congr rfl; intro m _; ring
  rw [sum_congr rfl this, sum_add_distrib, sum_comm]
  congr 1
  apply sum_congr rfl; intro m _
  rw [mul_sum]

/-- exchanging two not yet reduced logical rows keeps the invariant -/
theorem LUInv_swap {n c : Nat} {B : Nat → Nat → K} {pf pf' : Nat → Nat} {M M' : Nat → Nat → K}
    (h : LUInv n c B pf M) (τ : Nat → Nat) (hτlt : ∀ i, i < c → τ i = i) (hτge : ∀ i, c ≤ i → i < n → c ≤ τ i ∧ τ i < n)
    (hpf : ∀ i, i < n → pf' i = pf (τ i)) (hM : ∀ i j, i < n → M' i j = M (τ i) j) :
    LUInv n c B pf' M' := by
  have hW : ∀ m j, m < n → Wmat c M' m j = Wmat c M (τ m) j := by
    intro m j hm
    unfold Wmat
    by_cases hmc : m < c
    · rw [hτlt m hmc, if_pos hmc, if_pos hmc, hM m m hm, hM m j hm, hτlt m hmc]
    · have := hτge m (by omega) hm
      rw [if_neg hmc, if_neg (show ¬ τ m < c by omega), hM m j hm]
  intro i j hi hj
  rw [hpf i hi]
  by_cases hic : i < c
  · have hc : c ≤ n ∨ n < c := le_or_gt c n
    rw [hτlt i hic] at *
    rw [h i j hi hj, hW i j hi, hτlt i hic]
    congr 1
    apply sum_congr rfl; intro m hm
    have hm' : m < i := by have := mem_range.mp hm; omega
    rw [hM i m hi, hτlt i hic, hW m j (by omega), hτlt m (by omega)]
  · obtain ⟨h1, h2⟩ := hτge i (by omega) hi
    rw [h (τ i) j h2 hj, hW i j hi]
    have e1 : min (τ i) c = c := by omega
    have e2 : min i c = c := by omega
    rw [e1, e2]
    congr 1
    apply sum_congr rfl; intro m hm
    have hm' : m < c := mem_range.mp hm
    rw [hM i m hi, hW m j (by omega), hτlt m hm']

/-- one elimination step with a nonzero pivot -/
theorem LUInv_step {n c : Nat} {B : Nat → Nat → K} {pf : Nat → Nat} {M M' : Nat → Nat → K} (hc : c < n)
    (h : LUInv n c B pf M) (hpiv : M c c ≠ 0)
    (hM' : ∀ i j, i < n → j < n → M' i j =
      if i = c then (if j = c then 1 / M c c else M c j)
      else if c < i then (if j = c then M i c * (1 / M c c) else if c < j then M i j - M i c * (1 / M c c) * M c j else M i j)
      else M i j) :
    LUInv n (c + 1) B pf M' := by
  -- rows above the pivot row are unchanged
  have hlt : ∀ i j, i < c → j < n → M' i j = M i j := by
    intro i j hi hj
    rw [hM' i j (by omega) hj, if_neg (by omega), if_neg (by omega)]
  have hWlt : ∀ m j, m < c → j < n → Wmat (c + 1) M' m j = Wmat c M m j := by
    intro m j hm hj
    unfold Wmat
    rw [if_pos (by omega), if_pos hm, hlt m m hm (by omega), hlt m j hm hj]
  have hWc : ∀ j, j < n → Wmat (c + 1) M' c j = Wmat c M c j := by
    intro j hj
    unfold Wmat
    rw [if_pos (by omega), if_neg (lt_irrefl c)]
    by_cases h1 : j < c
    · rw [if_pos h1, if_pos h1]
    · rw [if_neg h1, if_neg h1]
      by_cases h2 : j = c
      · subst h2
        rw [if_pos rfl, hM' j j hc hc, if_pos rfl, if_pos rfl]
        field_simp
      · rw [if_neg h2, hM' c j hc hj, if_pos rfl, if_neg h2]
  intro i j hi hj
  rw [h i j hi hj]
  by_cases hic : i < c
  · have e1 : min i (c + 1) = i := by omega
    have e2 : min i c = i := by omega
    rw [e1, e2, hWlt i j hic hj]
    congr 1
    apply sum_congr rfl; intro m hm
    have hm' : m < i := mem_range.mp hm
    rw [hlt i m hic (by omega), hWlt m j (by omega) hj]
  · by_cases hie : i = c
    · subst hie
      have e1 : min i (i + 1) = i := by omega
      have e2 : min i i = i := by omega
      rw [e1, e2, hWc j hj]
      congr 1
      apply sum_congr rfl; intro m hm
      have hm' : m < i := mem_range.mp hm
      rw [hWlt m j hm' hj, hM' i m hi (by omega), if_pos rfl, if_neg (by omega)]
    · have hgt : c < i := by omega
      have e1 : min i (c + 1) = c + 1 := by omega
      have e2 : min i c = c := by omega
      rw [e1, e2, sum_range_succ, hWc j hj]
      have hs : ∑ m ∈ range c, M' i m * Wmat (c + 1) M' m j = ∑ m ∈ range c, M i m * Wmat c M m j := by
        apply sum_congr rfl; intro m hm
        have hm' : m < c := mem_range.mp hm
        rw [hWlt m j hm' hj, hM' i m hi (by omega), if_neg hie, if_pos hgt, if_neg (by omega), if_neg (by omega)]
      rw [hs, add_assoc]
      congr 1
      rw [hM' i c hi hc, if_neg hie, if_pos hgt, if_pos rfl]
      have w1 : Wmat c M i j = if j < c then 0 else M i j := by
        unfold Wmat; rw [if_neg (show ¬ i < c by omega)]
      have w2 : Wmat c M c j = if j < c then 0 else M c j := by
        unfold Wmat; rw [if_neg (lt_irrefl c)]
      have w3 : Wmat (c + 1) M' i j = if j < c + 1 then 0 else M' i j := by
        unfold Wmat; rw [if_neg (show ¬ i < c + 1 by omega)]
      rw [w1, w2, w3]
      by_cases h1 : j < c
      · have h1' : j < c + 1 := by omega
        simp only [h1, h1', if_true]; ring
      · by_cases h2 : j = c
        · subst h2
          have h1' : j < j + 1 := by omega
          simp only [h1, h1', if_true, if_false]
          field_simp
          ring
        · have h1' : ¬ j < c + 1 := by omega
          have h3 : c < j := by omega
          rw [hM' i j hi hj]
          simp only [h1, h1', hie, hgt, h2, h3, if_true, if_false]
          ring

theorem sum_update_mul (n m : Nat) (hm : m < n) (U x : Nat → K) (v : K) :
    ∑ j ∈ range n, U j * (Function.update x m v) j = ∑ j ∈ range n, U j * x j + U m * (v - x m) := by
  have : ∀ j ∈ range n, U j * (Function.update x m v) j = U j * x j + (if j = m then U m * (v - x m) else 0) := by
    intro j _
    by_cases h : j = m
    · subst h; rw [Function.update_self, if_pos rfl]; ring
    · rw [Function.update_of_ne h, if_neg h, add_zero]
  rw [sum_congr rfl this, sum_add_distrib, sum_ite_eq' (range n) m]
  rw [if_pos (mem_range.mpr hm)]

/-- back substitution: an upper triangular `c×c` block with nonzero diagonal has a kernel vector with `x c = 1`
of the rows `< c`, supported on `0..c` -/
theorem backsub (n c : Nat) (hc : c < n) (U : Nat → Nat → K) (hU : ∀ i j, i < c → j < i → U i j = 0)
    (hd : ∀ i, i < c → U i i ≠ 0) :
    ∀ k, k ≤ c → ∃ x : Nat → K, x c = 1 ∧ (∀ j, c < j → x j = 0) ∧
      ∀ i, c - k ≤ i → i < c → ∑ j ∈ range n, U i j * x j = 0 := by
  intro k
  induction k with
  | zero =>
    intro _
    refine ⟨fun j => if j = c then 1 else 0, by simp, ?_, ?_⟩
    · intro j hj; simp; omega
    · intro i h1 h2; omega
  | succ k ih =>
    intro hk
    obtain ⟨x, hx1, hx2, hx3⟩ := ih (by omega)
    have hm : c - (k + 1) < c := by omega
    generalize hmdef : c - (k + 1) = m at hm
    let S := ∑ j ∈ range n, U m j * x j
    refine ⟨Function.update x m (x m - S / U m m), ?_, ?_, ?_⟩
    · rw [Function.update_of_ne (by omega)]; exact hx1
    · intro j hj; rw [Function.update_of_ne (by omega)]; exact hx2 j hj
    · intro i h1 h2
      rw [sum_update_mul n m (by omega)]
      by_cases him : i = m
      · subst him
        have := hd i hm
        show S + U i i * (x i - S / U i i - x i) = 0
        field_simp
        ring
      · have : U i m = 0 := hU i m h2 (by omega)
        rw [this, zero_mul, add_zero]
        exact hx3 i (by omega) h2

/-- partial pivoting on a nonsingular matrix never selects a zero pivot -/
theorem pivot_ne_zero {n c : Nat} {B : Nat → Nat → K} {pf : Nat → Nat} {M : Nat → Nat → K} (hc : c < n)
    (hsurj : ∀ r, r < n → ∃ i, i < n ∧ pf i = r) (h : LUInv n c B pf M) (hd : ∀ m, m < c → M m m ≠ 0)
    (hns : Nonsing n B) (q : Nat) (hmax : M q c = 0 → ∀ i, c ≤ i → i < n → M i c = 0) : M q c ≠ 0 := by
  intro hq
  have hz := hmax hq
  obtain ⟨x, hx1, hx2, hx3⟩ := backsub n c hc (Wmat c M)
    (by intro i j hi hj; unfold Wmat; rw [if_pos hi, if_pos hj])
    (by intro i hi; unfold Wmat; rw [if_pos hi, if_neg (lt_irrefl i), if_pos rfl]; exact inv_ne_zero (hd i hi))
    c (le_refl c)
  -- W x = 0
  have hWx : ∀ i, i < n → ∑ j ∈ range n, Wmat c M i j * x j = 0 := by
    intro i hi
    by_cases hic : i < c
    · exact hx3 i (by omega) hic
    · apply sum_eq_zero
      intro j hj
      have hj' := mem_range.mp hj
      unfold Wmat
      rw [if_neg hic]
      by_cases h1 : j < c
      · rw [if_pos h1, zero_mul]
      · rw [if_neg h1]
        by_cases h2 : j = c
        · subst h2; rw [hz i (by omega) hi, zero_mul]
        · rw [hx2 j (by omega), mul_zero]
  -- hence B x = 0
  have hBx : ∀ r, r < n → ∑ j ∈ range n, B r j * x j = 0 := by
    intro r hr
    obtain ⟨i, hi, rfl⟩ := hsurj r hr
    rw [LUInv_apply h x i hi, hWx i hi, add_zero]
    apply sum_eq_zero
    intro m hm
    have : m < n := by have := mem_range.mp hm; omega
    rw [hWx m this, mul_zero]
  have := hns x hBx c hc
  rw [hx1] at this
  exact one_ne_zero this

/-- the action of a fully reduced `W` (all `n` columns done) on a vector -/
theorem Wmat_full_apply (n : Nat) (M : Nat → Nat → K) (x : Nat → K) (m : Nat) (hm : m < n) :
    ∑ j ∈ range n, Wmat n M m j * x j = (M m m)⁻¹ * x m + ∑ j ∈ Ico (m + 1) n, M m j * x j := by
  rw [range_eq_Ico, ← sum_Ico_consecutive _ (Nat.zero_le m) (le_of_lt hm), sum_eq_sum_Ico_succ_bot hm]
  have h1 : ∑ j ∈ Ico 0 m, Wmat n M m j * x j = 0 := by
    apply sum_eq_zero; intro j hj
    have := (mem_Ico.mp hj).2
    unfold Wmat; rw [if_pos hm, if_pos this, zero_mul]
  have h2 : Wmat n M m m = (M m m)⁻¹ := by
    unfold Wmat; rw [if_pos hm, if_neg (lt_irrefl m), if_pos rfl]
  have h3 : ∑ j ∈ Ico (m + 1) n, Wmat n M m j * x j = ∑ j ∈ Ico (m + 1) n, M m j * x j := by
    apply sum_congr rfl; intro j hj
    have := (mem_Ico.mp hj).1
    unfold Wmat; rw [if_pos hm, if_neg (by omega), if_neg (by omega)]
  rw [h1, h2, h3, zero_add]

/-- forward and backward substitution through the stored factors solve `B x = P⁻¹ δ` -/
theorem solve_alg {n : Nat} {B : Nat → Nat → K} {pf : Nat → Nat} {M : Nat → Nat → K} (h : LUInv n n B pf M)
    (hd : ∀ m, m < n → M m m ≠ 0) (δ y x : Nat → K)
    (hy : ∀ i, i < n → y i = δ i - ∑ j ∈ range i, M i j * y j)
    (hx : ∀ i, i < n → x i = (y i - ∑ j ∈ Ico (i + 1) n, M i j * x j) * M i i) :
    ∀ i, i < n → ∑ j ∈ range n, B (pf i) j * x j = δ i := by
  have hW : ∀ m, m < n → ∑ j ∈ range n, Wmat n M m j * x j = y m := by
    intro m hm
    rw [Wmat_full_apply n M x m hm]
    have := hd m hm
    rw [hx m hm]
    field_simp
    ring
  intro i hi
  rw [LUInv_apply h x i hi, hW i hi]
  have e : min i n = i := by omega
  rw [e]
  have : ∑ m ∈ range i, M i m * ∑ j ∈ range n, Wmat n M m j * x j = ∑ m ∈ range i, M i m * y m := by
    apply sum_congr rfl; intro m hm
    rw [hW m (by have := mem_range.mp hm; omega)]
  rw [this, hy i hi]
  ring

end Amgcl
