import Amgcl.Proofs.CuthillMcKeeInv
/-!
`cuthill_mckee::get` (model `Model/CuthillMcKee.lean`): every loop of the model ends in the `ok` outcome and keeps the
invariant `Inv` of `Proofs/CuthillMcKeeInv.lean`, for every square well-formed pattern with `n ≥ 1`, both variants, and
every fuel `≥ n`.
-/
namespace Amgcl.CMK
open Amgcl.Arr2

/-- the fixed data of a run: a square well-formed pattern, its degrees and a bound of them -/
structure Ctx {K : Type} (A : CRS K) (n : Nat) (degree : Array Nat) (maxDeg : Nat) : Prop where
  hA : A.nrows = n
  hcol : ∀ i, i < n → ∀ cv ∈ A.row i, cv.1 < n
  hdeg : degree.size = n
  hmax : ∀ v, v < n → degree.getD v 0 ≤ maxDeg

variable {K : Type} {A : CRS K} {n : Nat} {degree : Array Nat} {maxDeg : Nat}

/-! ## generic fold -/

theorem foldR_spec {α σ : Type} (f : σ → α → Res σ) (I : σ → Prop) (R : σ → σ → Prop) (P : α → Prop)
    (hrefl : ∀ s, R s s) (htrans : ∀ s s' s'', R s s' → R s' s'' → R s s'')
    (hstep : ∀ s a, I s → P a → ∃ s', f s a = .ok s' ∧ I s' ∧ R s s') :
    ∀ (l : List α) (s : σ), I s → (∀ a ∈ l, P a) → ∃ s', foldR f s l = .ok s' ∧ I s' ∧ R s s' := by
  intro l
  induction l with
  | nil => intro s hs _; exact ⟨s, rfl, hs, hrefl s⟩
  | cons a l ih =>
    intro s hs hP
    obtain ⟨s1, h1, hI1, hR1⟩ := hstep s a hs (hP a (by simp))
    obtain ⟨s2, h2, hI2, hR2⟩ := ih s1 hI1 (fun b hb => hP b (by simp [hb]))
    exact ⟨s2, by simp only [foldR, h1, Res.bind_ok, h2], hI2, htrans _ _ _ hR1 hR2⟩

/-! ## one matrix entry -/

theorem visitCol_spec (C : Ctx A n degree maxDeg) {s : St} (hs : Inv n maxDeg s) {c : Nat} (hc : c < n) :
    ∃ s', visitCol degree s c = .ok s' ∧ Inv n maxDeg s' ∧ Ext s s' := by
  unfold visitCol
  have h1 : rd s.levelSet c = .ok (s.levelSet.getD c 0) := rd_ok 0 (by rw [hs.lab.hls]; exact hc)
  simp only [bind_def, pure_def, h1, Res.bind_ok]
  by_cases hl : s.levelSet.getD c 0 = 0
  · rw [if_pos hl]
    have hnext : s.next < n := hs.lab.next_lt hc hl
    have hdc : degree.getD c 0 ≤ maxDeg := C.hmax c hc
    have hnsz : degree.getD c 0 < s.nFirstWithDegree.size := by rw [hs.hnf]; omega
    have hcn : c < s.nextSameDegree.size := by rw [hs.hns]; exact hc
    rw [wr_ok _ (by rw [hs.lab.hls]; exact hc), Res.bind_ok, wr_ok _ (by rw [hs.lab.hperm]; exact hnext), Res.bind_ok,
      rd_ok 0 (by rw [C.hdeg]; exact hc), Res.bind_ok, rd_ok (-1) hnsz, Res.bind_ok, wr_ok _ hcn, Res.bind_ok,
      wr_ok _ hnsz, Res.bind_ok]
    refine ⟨_, rfl, ?_, ?_⟩
    · refine ⟨hs.lab.step hc hl (Nat.succ_ne_zero _), by simp [hs.hns], by simp [hs.hf], by simp [hs.hnf], ?_, ?_, ?_,
        hs.hmd, Nat.max_le.mpr ⟨hs.hnm, hdc⟩, hs.hcls⟩
      · intro d; exact (hs.lf d).step c
      · intro d
        show Link _ _ ((s.nFirstWithDegree.setIfInBounds (degree.getD c 0) (c : Int)).getD d (-1))
        rw [getD_setIfInBounds]
        by_cases hd : degree.getD c 0 = d ∧ degree.getD c 0 < s.nFirstWithDegree.size
        · rw [if_pos hd]; exact Link.new c (by rw [hs.lab.hperm]; exact hnext)
        · rw [if_neg hd]; exact (hs.lnf d).step c
      · apply hs.chn.step hs.lab hc hl (Nat.succ_ne_zero _)
        · intro v hv
          show (s.nextSameDegree.setIfInBounds c _).getD v (-1) = _
          exact getD_setIfInBounds_ne _ _ _ (fun e => hv e.symm)
        · show Link _ _ ((s.nextSameDegree.setIfInBounds c _).getD c (-1))
          rw [getD_setIfInBounds_self _ _ _ hcn]
          exact hs.lnf _
    · refine ⟨Nat.le_succ _, ?_, fun _ => Or.inr (Nat.lt_succ_self _), fun _ => rfl, fun h => absurd h (by simp)⟩
      intro k hk
      exact getD_setIfInBounds_ne _ _ _ (by omega)
  · rw [if_neg hl]
    exact ⟨s, rfl, hs, Ext.refl s⟩

/-! ## one row -/

theorem visitRow_spec (C : Ctx A n degree maxDeg) {s : St} (hs : Inv n maxDeg s) (r : Row K)
    (hr : ∀ cv ∈ r, cv.1 < n) :
    ∃ s', visitRow degree s r = .ok s' ∧ Inv n maxDeg s' ∧ Ext s s' :=
  foldR_spec (fun s (cv : Nat × K) => visitCol degree s cv.1) (Inv n maxDeg) Ext (fun cv => cv.1 < n) Ext.refl
    (fun _ _ _ => Ext.trans) (fun _ _ hs ha => visitCol_spec C hs ha) r s hs hr

/-! ## one linked list -/

theorem walk_spec (C : Ctx A n degree maxDeg) : ∀ (fuel : Nat) (s : St) (node : Int), Inv n maxDeg s →
    (node ≤ 0 ∨ ∃ j, j < s.next ∧ j < fuel ∧ node = ((s.perm.getD j 0 : Nat) : Int)) →
    ∃ s', walk A degree fuel node s = .ok s' ∧ Inv n maxDeg s' ∧ Ext s s' := by
  intro fuel
  induction fuel with
  | zero =>
    intro s node hs hnode
    have : ¬ node > 0 := by
      rcases hnode with h | ⟨j, _, hj, _⟩
      · omega
      · omega
    exact ⟨s, by simp only [walk, if_neg this], hs, Ext.refl s⟩
  | succ fuel ih =>
    intro s node hs hnode
    by_cases hpos : node > 0
    · rcases hnode with h | ⟨j, hj, hjf, hnj⟩
      · omega
      · have hv : s.perm.getD j 0 < n := (hs.lab.lab j hj).1
        have htn : node.toNat = s.perm.getD j 0 := by rw [hnj]; simp
        obtain ⟨s1, h1, hI1, hE1⟩ := visitRow_spec C hs (A.row (s.perm.getD j 0)) (C.hcol _ hv)
        have hj1 : j < s1.next := Nat.lt_of_lt_of_le hj hE1.next_le
        have hp1 : s1.perm.getD j 0 = s.perm.getD j 0 := hE1.pre j hj
        have hnode' : s1.nextSameDegree.getD (s.perm.getD j 0) (-1) ≤ 0 ∨ ∃ j', j' < s1.next ∧ j' < fuel ∧
            s1.nextSameDegree.getD (s.perm.getD j 0) (-1) = ((s1.perm.getD j' 0 : Nat) : Int) := by
          have := hI1.chn.chain j hj1
          rw [hp1] at this
          rcases this with h2 | ⟨j', hj', h2⟩
          · left; omega
          · right; exact ⟨j', by omega, by omega, h2⟩
        obtain ⟨s2, h2, hI2, hE2⟩ := ih s1 _ hI1 hnode'
        refine ⟨s2, ?_, hI2, hE1.trans hE2⟩
        simp only [walk, if_pos hpos, htn, C.hA, if_pos hv, h1, Res.bind_ok,
          rd_ok (-1) (by rw [hI1.hns]; exact hv : s.perm.getD j 0 < s1.nextSameDegree.size), h2]
    · exact ⟨s, by simp only [walk, if_neg hpos], hs, Ext.refl s⟩

/-! ## one degree, all degrees -/

theorem scanDegree_spec (C : Ctx A n degree maxDeg) {walkFuel : Nat} (hfuel : n ≤ walkFuel) {s : St}
    (hs : Inv n maxDeg s) {sought : Nat} (hsought : sought ≤ maxDeg) :
    ∃ s', scanDegree A degree walkFuel s sought = .ok s' ∧ Inv n maxDeg s' ∧ Ext s s' := by
  unfold scanDegree
  rw [rd_ok (-1) (by rw [hs.hf]; omega), Res.bind_ok]
  apply walk_spec C walkFuel s _ hs
  rcases hs.lf sought with h | ⟨j, hj, h⟩
  · left; omega
  · right; exact ⟨j, hj, by have := hs.lab.next_le; omega, h⟩

theorem mem_soughtList {reverse : Bool} {m a : Nat} (h : a ∈ soughtList reverse m) : a ≤ m := by
  unfold soughtList at h
  cases reverse <;> simp at h <;> omega

/-! ## copying the new heads back -/

theorem copyBack_spec {perm : Array Nat} {next : Nat} (nFirst first : Array Int) (cnt : Nat)
    (hsz : nFirst.size = first.size) (hcnt : cnt ≤ first.size)
    (hnf : ∀ d, Link perm next (nFirst.getD d (-1))) (hf : ∀ d, Link perm next (first.getD d (-1))) :
    ∃ fw, copyBack nFirst first cnt = .ok fw ∧ fw.size = first.size ∧ ∀ d, Link perm next (fw.getD d (-1)) := by
  unfold copyBack
  obtain ⟨fw, h1, ⟨h2, h3⟩, _⟩ := foldR_spec (fun (fw : Array Int) i => (rd nFirst i).bind fun v => wr fw i v)
    (fun fw => fw.size = first.size ∧ ∀ d, Link perm next (fw.getD d (-1))) (fun _ _ => True) (fun i => i < first.size)
    (fun _ => trivial) (fun _ _ _ _ _ => trivial)
    (by
      intro fw i ⟨hfs, hfl⟩ hi
      refine ⟨fw.setIfInBounds i (nFirst.getD i (-1)), ?_, ⟨by simp [hfs], ?_⟩, trivial⟩
      · rw [rd_ok (-1) (by omega), Res.bind_ok, wr_ok _ (by omega)]
      · intro d
        rw [getD_setIfInBounds]
        by_cases hd : i = d ∧ i < fw.size
        · rw [if_pos hd]; exact hnf i
        · rw [if_neg hd]; exact hfl d)
    (List.range cnt) first ⟨rfl, hf⟩ (by intro a ha; simp at ha; omega)
  exact ⟨fw, h1, h2, h3⟩

/-! ## the fallback -/

theorem search_spec (levelSet : Array Nat) : ∀ (l : List Nat), (∀ i ∈ l, i < levelSet.size) →
    search levelSet l = .ok (l.find? (fun i => levelSet.getD i 0 = 0)) := by
  intro l
  induction l with
  | nil => intro _; rfl
  | cons i l ih =>
    intro hl
    simp only [search, rd_ok 0 (hl i (by simp)), Res.bind_ok, List.find?_cons]
    by_cases h : levelSet.getD i 0 = 0
    · simp [h]
    · simp only [h, if_false, decide_false]
      exact ih (fun j hj => hl j (by simp [hj]))

theorem fallback_spec (C : Ctx A n degree maxDeg) {s : St} (hs : Inv n maxDeg s) (hnext : s.next < n) :
    ∃ s', fallback n degree s = .ok s' ∧ Inv n maxDeg s' ∧ s'.next = s.next + 1 ∧
      ∀ k, k < s.next → s'.perm.getD k 0 = s.perm.getD k 0 := by
  unfold fallback
  rw [search_spec _ _ (by intro i hi; simp at hi; rw [hs.lab.hls]; exact hi), Res.bind_ok]
  cases hfind : (List.range n).find? (fun i => s.levelSet.getD i 0 = 0) with
  | none =>
    exfalso
    have hall : ∀ v, v < n → s.levelSet.getD v 0 ≠ 0 := by
      intro v hv
      have := List.find?_eq_none.mp hfind v (by simp [hv])
      simpa using this
    have := hs.lab.full hall
    omega
  | some i =>
    have hi : i < n := by have := List.mem_of_find?_eq_some hfind; simpa using this
    have hl : s.levelSet.getD i 0 = 0 := by have := List.find?_some hfind; simpa using this
    have hdi : degree.getD i 0 ≤ maxDeg := C.hmax i hi
    have hfsz : degree.getD i 0 < s.firstWithDegree.size := by rw [hs.hf]; omega
    have hpn : s.next < s.perm.size := by rw [hs.lab.hperm]; exact hnext
    simp only [bind_def, pure_def]
    rw [wr_ok _ hpn, Res.bind_ok, wr_ok _ (by rw [hs.lab.hls]; exact hi), Res.bind_ok,
      rd_ok 0 (by rw [C.hdeg]; exact hi), Res.bind_ok, wr_ok _ hfsz, Res.bind_ok]
    refine ⟨_, rfl, ?_, rfl, fun k hk => getD_setIfInBounds_ne _ _ _ (by omega)⟩
    have hL : s.currentLevelSet ≠ 0 := Nat.pos_iff_ne_zero.mp hs.hcls
    refine ⟨hs.lab.step hi hl hL, hs.hns, by simp [hs.hf], hs.hnf, ?_, fun d => (hs.lnf d).step i, ?_, hdi, hs.hnm,
      hs.hcls⟩
    · intro d
      show Link _ _ ((s.firstWithDegree.setIfInBounds (degree.getD i 0) (i : Int)).getD d (-1))
      rw [getD_setIfInBounds]
      by_cases hd : degree.getD i 0 = d ∧ degree.getD i 0 < s.firstWithDegree.size
      · rw [if_pos hd]; exact Link.new i hpn
      · rw [if_neg hd]; exact (hs.lf d).step i
    · exact hs.chn.step hs.lab hi hl hL (fun _ _ => rfl) (by rw [hs.chn.unl i hl]; exact Or.inl rfl)

/-! ## one level set -/

theorem level_spec (C : Ctx A n degree maxDeg) (reverse : Bool) {walkFuel : Nat} (hfuel : n ≤ walkFuel) {s : St}
    (hs : Inv n maxDeg s) (hnext : s.next < n) :
    ∃ s', level reverse A n degree walkFuel s = .ok s' ∧ Inv n maxDeg s' ∧ s.next < s'.next ∧
      ∀ k, k < s.next → s'.perm.getD k 0 = s.perm.getD k 0 := by
  unfold level
  -- the reset state
  have hs0 : Inv n maxDeg
      { s with nMDICLS := 0, nFirstWithDegree := Array.replicate s.nFirstWithDegree.size (-1), empty := true } := by
    refine ⟨hs.lab, hs.hns, hs.hf, by simp [hs.hnf], hs.lf, ?_, hs.chn, hs.hmd, Nat.zero_le _, hs.hcls⟩
    intro d
    show Link _ _ ((Array.replicate s.nFirstWithDegree.size (-1 : Int)).getD d (-1))
    rw [getD_replicate]; simp only [ite_self]; exact Or.inl rfl
  obtain ⟨s1, h1, hI1, hE1⟩ := foldR_spec (scanDegree A degree walkFuel) (Inv n maxDeg) Ext (fun a => a ≤ maxDeg)
    Ext.refl (fun _ _ _ => Ext.trans) (fun _ _ hs ha => scanDegree_spec C hfuel hs ha)
    (soughtList reverse s.maxDegreeInCurrentLevelSet) _ hs0
    (fun a ha => Nat.le_trans (mem_soughtList ha) hs.hmd)
  simp only [h1, Res.bind_ok]
  obtain ⟨fw, h2, hfs, hfl⟩ := copyBack_spec (perm := s1.perm) (next := s1.next) s1.nFirstWithDegree s1.firstWithDegree
    (s1.nMDICLS + 1) (by rw [hI1.hnf, hI1.hf]) (by rw [hI1.hf]; have := hI1.hnm; omega) hI1.lnf hI1.lf
  simp only [h2, Res.bind_ok]
  have hs3 : Inv n maxDeg
      { s1 with currentLevelSet := s1.currentLevelSet + 1, maxDegreeInCurrentLevelSet := s1.nMDICLS,
                firstWithDegree := fw } :=
    ⟨hI1.lab, hI1.hns, by rw [← hI1.hf]; exact hfs, hI1.hnf, hfl, hI1.lnf, hI1.chn, hI1.hnm, hI1.hnm, Nat.succ_pos _⟩
  by_cases he : s1.empty = true
  · rw [if_pos he]
    obtain ⟨s4, h4, hI4, hn4, hp4⟩ := fallback_spec C hs3 (by
      show s1.next < n
      rw [hE1.stay he]; exact hnext)
    refine ⟨s4, h4, hI4, by rw [hn4]; have := hE1.next_le; exact Nat.lt_succ_of_le this, ?_⟩
    intro k hk
    have h5 : s4.perm.getD k 0 = s1.perm.getD k 0 := hp4 k (Nat.lt_of_lt_of_le hk hE1.next_le)
    rw [h5]; exact hE1.pre k hk
  · rw [if_neg he]
    refine ⟨_, rfl, hs3, ?_, fun k hk => hE1.pre k hk⟩
    have : s1.empty = false := by simpa using he
    rcases hE1.prog this with h | h
    · exact absurd h (by simp)
    · exact h

end Amgcl.CMK
