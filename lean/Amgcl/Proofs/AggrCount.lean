import Amgcl.Proofs.Renumber
import Mathlib.Algebra.BigOperators.Ring.Finset
/-!
`count < n`: the number of used aggregate numbers is the cardinality of the image of `id` on the aggregated rows;
it is below `n` as soon as one row is removed or two rows share a number.
-/
namespace Amgcl
namespace Coarsening
open Finset Classical

theorem rankS_eq_card (id : Array Int) (count : Nat) :
    rankS id count = ((range count).filter (Used id)).card := by
  unfold rankS markF
  rw [sum_boole]

theorem rankS_lt_size (count : Nat) (id : Array Int)
    (hx : (∃ r, r < id.size ∧ id.getD r 0 = -2) ∨ HasPair id.size id) :
    rankS id count < id.size := by
  rw [rankS_eq_card]
  -- the aggregated rows and the image of `id` on them
  let f : Nat → Int := fun j => id.getD j 0
  let D : Finset Nat := (range id.size).filter (fun j => 0 ≤ f j)
  have hsub : ((range count).filter (Used id)).image (fun k : Nat => (k : Int)) ⊆ D.image f := by
    intro x hx
    obtain ⟨k, hk, rfl⟩ := mem_image.1 hx
    obtain ⟨j, hj, hjk⟩ := (mem_filter.1 hk).2
    exact mem_image.2 ⟨j, mem_filter.2 ⟨mem_range.2 hj, by show 0 ≤ id.getD j 0; omega⟩, hjk⟩
  have hcard1 : ((range count).filter (Used id)).card ≤ (D.image f).card := by
    rw [← card_image_of_injOn (f := fun k : Nat => (k : Int)) (s := (range count).filter (Used id))
      (fun a _ b _ hab => by simpa using hab)]
    exact card_le_card hsub
  have hD : D.card ≤ id.size := by
    have := card_le_card (filter_subset (fun j => 0 ≤ f j) (range id.size))
    simpa using this
  have hlt : (D.image f).card < id.size := by
    rcases hx with ⟨r, hr, hr2⟩ | ⟨s, c, hs, hc, hne, heq, h0⟩
    · have hsub2 : D ⊆ (range id.size).erase r := by
        intro j hj
        obtain ⟨hj1, hj2⟩ := mem_filter.1 hj
        refine mem_erase.2 ⟨?_, hj1⟩
        rintro rfl
        have : f j = -2 := hr2
        omega
      have := card_le_card hsub2
      rw [card_erase_of_mem (mem_range.2 hr), card_range] at this
      have := card_image_le (s := D) (f := f)
      omega
    · have hsD : s ∈ D := mem_filter.2 ⟨mem_range.2 hs, h0⟩
      have hcD : c ∈ D := mem_filter.2 ⟨mem_range.2 hc, by show 0 ≤ id.getD c 0; rw [← heq]; exact h0⟩
      have hne' : (D.image f).card ≠ D.card := by
        intro he
        exact hne ((card_image_iff.1 he) hsD hcD heq)
      have := card_image_le (s := D) (f := f)
      omega
  exact_mod_cast lt_of_le_of_lt hcard1 hlt

/-! ### the greedy pass followed by the renumbering -/

theorem idsOK_aggregateIds (G : SGraph) : IdsOK (aggregateIds G).1 (aggregateIds G).2 := by
  obtain ⟨hsz, hsp⟩ := aggregateIds_spec G
  intro j hj
  rw [hsz] at hj
  cases hs : G.hasStrong j
  · exact Or.inl ((hsp j hj).1 hs)
  · exact Or.inr ((hsp j hj).2 hs)

theorem aggregatesOfGraph_ok (G : SGraph) (count : Nat) (id : Array Int)
    (h : aggregatesOfGraph G = .ok (count, id)) :
    0 < (aggregateIds G).1 ∧ (count, id) = renumber (aggregateIds G).1 (aggregateIds G).2 := by
  unfold aggregatesOfGraph at h
  by_cases h0 : (aggregateIds G).1 = 0
  · simp [h0] at h
  · simp only [h0, if_false] at h
    injection h with h
    exact ⟨Nat.pos_of_ne_zero h0, h.symm⟩

/-- no row has a strong entry: nobody becomes a seed -/
theorem loop_none (G : SGraph) (hnone : ∀ j, j < G.size → G.hasStrong j = false) (k : Nat) (hk : k ≤ G.size) :
    (List.range k).foldl (aggrStep G) (0, initIds G) = (0, initIds G) := by
  induction k with
  | zero => rfl
  | succ k ih =>
    rw [List.range_succ, List.foldl_append, List.foldl_cons, List.foldl_nil, ih (by omega)]
    apply aggrStep_skip
    simp only
    rw [initIds_getD G k (by omega), hnone k (by omega)]
    decide

theorem aggregatesOfGraph_emptyLevel_iff (G : SGraph) :
    aggregatesOfGraph G = .emptyLevel ↔ ∀ j, j < G.size → G.hasStrong j = false := by
  constructor
  · intro h j hj
    unfold aggregatesOfGraph at h
    by_cases h0 : (aggregateIds G).1 = 0
    · cases hs : G.hasStrong j
      · rfl
      · have := ((aggregateIds_spec G).2 j hj).2 hs
        rw [h0] at this; omega
    · simp [h0] at h
  · intro hnone
    unfold aggregatesOfGraph aggregateIds
    rw [loop_none G hnone G.size (Nat.le_refl _)]
    simp

theorem count_lt_size (G : SGraph) (hwf : G.WF) (hod : G.OffDiag) (count : Nat) (id : Array Int)
    (h : aggregatesOfGraph G = .ok (count, id)) : count < G.size := by
  obtain ⟨hpos, heq⟩ := aggregatesOfGraph_ok G count id h
  have hok := idsOK_aggregateIds G
  obtain ⟨hcnt, _, _⟩ := renumber_eq _ hpos _ hok
  obtain ⟨hsz, hsp⟩ := aggregateIds_spec G
  have hc : (count : Int) = rankS (aggregateIds G).2 (aggregateIds G).1 := by
    rw [← hcnt, ← heq]
  have hlt : rankS (aggregateIds G).2 (aggregateIds G).1 < (aggregateIds G).2.size := by
    apply rankS_lt_size
    by_cases hall : ∀ j, j < G.size → G.hasStrong j = true
    · right
      rw [hsz]
      exact loop_pair G hwf hod hall G.size (Nat.le_refl _) hpos
    · left
      push Not at hall
      obtain ⟨r, hr, hr2⟩ := hall
      refine ⟨r, by rw [hsz]; exact hr, (hsp r hr).1 ?_⟩
      cases hs : G.hasStrong r
      · rfl
      · exact absurd hs hr2
  rw [hsz] at hlt
  omega

end Coarsening
end Amgcl
