import Amgcl.Model.Schedule
/-!
Steps 2 and 3 of the constructors: the rows of a level, the order, and the cut of every level into `nt` chunks
`[min(tid·cs, m), min(tid·cs + cs, m))`, `cs = ⌈m / nt⌉`.  Core Lean only.
-/
namespace Amgcl.Sched

/-! ### the chunk formula -/

theorem chunkBeg_zero (m nt : Nat) : chunkBeg m nt 0 = 0 := by simp [chunkBeg]

theorem chunkEnd_eq (m nt t : Nat) : chunkEnd m nt t = chunkBeg m nt (t + 1) := by
  unfold chunkEnd chunkBeg
  rw [Nat.succ_mul]
  omega

theorem chunkBeg_mono (m nt t : Nat) : chunkBeg m nt t ≤ chunkBeg m nt (t + 1) := by
  unfold chunkBeg
  rw [Nat.succ_mul]
  omega

/-- `nt · ⌈m / nt⌉ ≥ m`: the last chunk ends at the end of the level -/
theorem chunkBeg_last (m nt : Nat) (hnt : 0 < nt) : chunkBeg m nt nt = m := by
  unfold chunkBeg chunkSize
  have h1 := Nat.div_add_mod (m + nt - 1) nt
  have h2 := Nat.mod_lt (m + nt - 1) hnt
  have : m ≤ nt * ((m + nt - 1) / nt) := by omega
  omega

/-- consecutive segments `[b t, b (t+1))` of a list, `t < n`, concatenate to the prefix of length `b n` -/
theorem segs_flatten {α : Type} (l : List α) (b : Nat → Nat) (h0 : b 0 = 0) (hm : ∀ t, b t ≤ b (t + 1)) (n : Nat) :
    ((List.range n).map fun t => (l.drop (b t)).take (b (t + 1) - b t)).flatten = l.take (b n) := by
  induction n with
  | zero => simp [h0]
  | succ n ih =>
    rw [List.range_succ, List.map_append, List.flatten_append, ih]
    simp only [List.map_cons, List.map_nil, List.flatten_cons, List.flatten_nil, List.append_nil]
    have hle := hm n
    have : l.take (b (n + 1)) = l.take (b n + (b (n + 1) - b n)) := by congr 1; omega
    rw [this, List.take_add]

/-- **the `nt` tasks of a level are consecutive chunks that concatenate to the rows of the level** -/
theorem taskRows_flatten (rows : List Nat) (nt : Nat) (hnt : 0 < nt) :
    ((List.range nt).map (taskRows rows nt)).flatten = rows := by
  have h := segs_flatten rows (chunkBeg rows.length nt) (chunkBeg_zero _ _) (chunkBeg_mono _ _) nt
  rw [chunkBeg_last _ _ hnt, List.take_length] at h
  have e : (List.range nt).map (taskRows rows nt) = (List.range nt).map fun t =>
      (rows.drop (chunkBeg rows.length nt t)).take (chunkBeg rows.length nt (t + 1) - chunkBeg rows.length nt t) := by
    apply List.map_congr_left
    intro t _
    simp [taskRows, chunkEnd_eq]
  rw [e]; exact h

/-! ### rows of a level, order -/

theorem mem_levelRows (level : Array Nat) (lev i : Nat) :
    i ∈ levelRows level lev ↔ i < level.size ∧ level.getD i 0 = lev := by
  simp [levelRows]

theorem levelRows_sorted (level : Array Nat) (lev : Nat) : (levelRows level lev).Pairwise (· < ·) :=
  List.Pairwise.filter _ List.pairwise_lt_range

theorem levelRows_nodup (level : Array Nat) (lev : Nat) : (levelRows level lev).Nodup :=
  (levelRows_sorted level lev).imp (fun h => Nat.ne_of_lt h)

theorem foldl_max_ge (l : List Nat) (m0 : Nat) : m0 ≤ l.foldl (fun m x => max m (x + 1)) m0 := by
  induction l generalizing m0 with
  | nil => exact Nat.le_refl _
  | cons a t ih => exact Nat.le_trans (Nat.le_max_left _ _) (ih _)

theorem foldl_max_gt (l : List Nat) (m0 x : Nat) (hx : x ∈ l) : x < l.foldl (fun m x => max m (x + 1)) m0 := by
  induction l generalizing m0 with
  | nil => cases hx
  | cons a t ih =>
    simp only [List.foldl_cons]
    rcases List.mem_cons.mp hx with h | h
    · subst h
      have := foldl_max_ge t (max m0 (x + 1))
      omega
    · exact ih _ h

/-- every row's level is below `nlev` -/
theorem lt_nlev (level : Array Nat) (i : Nat) (hi : i < level.size) : level.getD i 0 < nlev level := by
  unfold nlev
  rw [← Array.foldl_toList]
  apply foldl_max_gt
  simp [Array.getD, hi]

theorem mem_order (level : Array Nat) (i : Nat) : i ∈ order level ↔ i < level.size := by
  unfold order
  simp only [List.mem_flatMap, List.mem_range, mem_levelRows]
  constructor
  · rintro ⟨_, _, h, _⟩; exact h
  · intro h; exact ⟨level.getD i 0, lt_nlev level i h, h, rfl⟩

theorem order_nodup (level : Array Nat) : (order level).Nodup := by
  unfold order
  rw [List.flatMap_def, List.Nodup, List.pairwise_flatten]
  constructor
  · intro l hl
    obtain ⟨lev, _, rfl⟩ := List.mem_map.mp hl
    exact levelRows_nodup level lev
  · rw [List.pairwise_map]
    refine List.Pairwise.imp ?_ (List.pairwise_lt_range (n := nlev level))
    intro a b hab x hx y hy
    have h1 := ((mem_levelRows level a x).mp hx).2
    have h2 := ((mem_levelRows level b y).mp hy).2
    intro h; subst h; omega

/-- `order` is a permutation of the rows -/
theorem order_perm (level : Array Nat) : (order level).Perm (List.range level.size) :=
  (List.perm_ext_iff_of_nodup (order_nodup level) List.nodup_range).mpr
    (fun a => by rw [mem_order, List.mem_range])

/-! ### the task table -/

theorem levelTasks_tasks (level : Array Nat) (nt lev : Nat) (hlev : lev < nlev level) :
    levelTasks (tasks level nt) lev = (List.range nt).map (taskRows (levelRows level lev) nt) := by
  unfold levelTasks tasks
  rw [List.map_map]
  apply List.map_congr_left
  intro tid _
  simp [List.getD_eq_getElem?_getD, List.getElem?_map, List.getElem?_range hlev]

/-- **`tasks_partition`**: for every thread count `nt ≥ 1` the tasks of a level, in thread order, are exactly the rows
of that level in increasing order -/
theorem levelTasks_flatten (level : Array Nat) (nt : Nat) (hnt : 0 < nt) (lev : Nat) (hlev : lev < nlev level) :
    (levelTasks (tasks level nt) lev).flatten = levelRows level lev := by
  rw [levelTasks_tasks level nt lev hlev, taskRows_flatten _ _ hnt]

/-- different threads get disjoint tasks inside a level -/
theorem tasks_disjoint (level : Array Nat) (nt : Nat) (hnt : 0 < nt) (lev : Nat)
    (t1 t2 : Nat) (h1 : t1 < nt) (h2 : t2 < nt) (hne : t1 ≠ t2) (i : Nat)
    (hi1 : i ∈ taskRows (levelRows level lev) nt t1) (hi2 : i ∈ taskRows (levelRows level lev) nt t2) : False := by
  have hnd : (((List.range nt).map (taskRows (levelRows level lev) nt)).flatten).Nodup := by
    rw [taskRows_flatten _ _ hnt]; exact levelRows_nodup level lev
  rw [List.Nodup, List.pairwise_flatten, List.pairwise_map] at hnd
  have hpw := hnd.2
  -- wlog t1 < t2
  have key : ∀ a b, a < b → b < nt → ∀ x, x ∈ taskRows (levelRows level lev) nt a →
      x ∈ taskRows (levelRows level lev) nt b → False := by
    intro a b hab hb x hxa hxb
    have := List.pairwise_iff_getElem.mp hpw a b (by simp; omega) (by simpa using hb) hab
    simp only [List.getElem_range] at this
    exact this x hxa x hxb rfl
  rcases Nat.lt_or_gt_of_ne hne with h | h
  · exact key t1 t2 h h2 i hi1 hi2
  · exact key t2 t1 h h1 i hi2 hi1

end Amgcl.Sched
