import Amgcl.Proofs.RelaxSpai1
import Amgcl.Proofs.RelaxCheck
import Amgcl.Properties.C16b
/-!
SPAI-1: from the least-squares property of `QR::solve` on the local matrix `B` (`C16b.qr_solve_least_squares`) to the normal
equations of row `i` of `M` in terms of `A` (`spaiNormal A M n i k = 0` for every pattern column `k` of row `i`).
-/
set_option linter.unusedSectionVars false
set_option linter.unusedVariables false
namespace Amgcl
namespace Relax
open QRModel Finset Matrix

variable {K : Type} [Field K] [LinearOrder K] [IsStrictOrderedRing K]

/-! ### sums over lists with indices -/

theorem getD_lt (l : List Nat) (q : Nat) (h : q < l.length) : l.getD q 0 = l[q] := by
  rw [List.getD_eq_getElem?_getD, List.getElem?_eq_getElem h]; rfl

theorem sum_range_getD (l : List Nat) (g : Nat → K) : ∑ p ∈ range l.length, g (l.getD p 0) = (l.map g).sum := by
  induction l with
  | nil => simp
  | cons a t ih =>
    rw [List.length_cons, sum_range_succ', List.map_cons, List.sum_cons, ← ih, add_comm]
    simp

theorem sum_zipIdx_map (l : List Nat) (k : Nat) (h : Nat × Nat → K) :
    ((l.zipIdx k).map h).sum = ∑ q ∈ range l.length, h (l.getD q 0, k + q) := by
  induction l generalizing k with
  | nil => simp
  | cons a t ih =>
    rw [List.zipIdx_cons, List.map_cons, List.sum_cons, ih (k + 1), List.length_cons, sum_range_succ', add_comm]
    simp only [List.getD_cons_succ, List.getD_cons_zero, Nat.add_zero]
    congr 1
    apply sum_congr rfl
    intro q _
    rw [show k + 1 + q = k + (q + 1) by omega]

/-- a sum over the (distinct, in-range) entries of a list is the sum over `range n` of a function vanishing off the list -/
theorem sum_list_eq_sum_range (J : List Nat) (hnd : J.Nodup) (n : Nat) (hlt : ∀ d ∈ J, d < n) (g : Nat → K)
    (h0 : ∀ j, j < n → j ∉ J → g j = 0) : (J.map g).sum = ∑ j ∈ range n, g j := by
  rw [← List.sum_toFinset g hnd]
  apply sum_subset
  · intro j hj
    rw [List.mem_toFinset] at hj
    exact mem_range.mpr (hlt j hj)
  · intro j hj hnj
    exact h0 j (mem_range.mp hj) (fun hh => hnj (List.mem_toFinset.mpr hh))

/-! ### the local matrix in terms of `A` -/

/-- the facts about the local problem of row `i` used below, with total (`getD`) indexing -/
structure LocalFacts (A : CRS K) (i : Nat) : Prop where
  Jnodup : (spai1LocalAt A i).J.Nodup
  Jlt : ∀ d ∈ (spai1LocalAt A i).J, d < A.ncols
  cover : ∀ q, q < (spai1LocalAt A i).I.length → ∀ a ∈ A.row ((spai1LocalAt A i).I.getD q 0), a.1 ∈ (spai1LocalAt A i).J
  ekSize : (spai1LocalAt A i).ek.size = (spai1LocalAt A i).J.length
  ek : ∀ p, p < (spai1LocalAt A i).J.length →
    (spai1LocalAt A i).ek.getD p 0 = if (spai1LocalAt A i).J.getD p 0 = i then 1 else 0
  Bsize : (spai1LocalAt A i).B.size = (spai1LocalAt A i).J.length * (spai1LocalAt A i).I.length
  B : ∀ q, q < (spai1LocalAt A i).I.length → ∀ p, p < (spai1LocalAt A i).J.length →
    (spai1LocalAt A i).B.getD (p * 1 + q * (spai1LocalAt A i).J.length) 0
      = A.get ((spai1LocalAt A i).I.getD q 0) ((spai1LocalAt A i).J.getD p 0)

theorem localFacts (A : CRS K) (hA : A.WF) (hnd : A.nodupb = true) (i : Nat) : LocalFacts A i := by
  obtain ⟨s1, s2, s3, s4, s5, s6, s7, _⟩ := spai1Local_spec A hA i
  obtain ⟨s7a, s7b⟩ := s7 hnd
  refine ⟨?_, s4, ?_, s5, ?_, ?_, ?_⟩
  · exact (s2.imp (fun h => Nat.ne_of_lt h))
  · intro q hq a ha
    rw [s3]
    unfold visited
    rw [List.mem_flatMap]
    refine ⟨(spai1Local A i (Array.replicate A.ncols (-1))).I.getD q 0, ?_, List.mem_map.mpr ⟨a, ha, rfl⟩⟩
    rw [getD_lt _ _ hq]
    exact List.getElem_mem hq
  · intro p hp
    rw [s6 p hp]
    show _ = if (spai1Local A i (Array.replicate A.ncols (-1))).J.getD p 0 = i then 1 else 0
    rw [getD_lt _ _ hp]
  · show (spai1Local A i (Array.replicate A.ncols (-1))).B.size = _
    rw [s7a, Nat.mul_comm]
  · intro q hq p hp
    show (spai1Local A i (Array.replicate A.ncols (-1))).B.getD _ 0 = _
    rw [show p * 1 + q * (spai1Local A i (Array.replicate A.ncols (-1))).J.length
        = p + (spai1Local A i (Array.replicate A.ncols (-1))).J.length * q by rw [Nat.mul_one, Nat.mul_comm]]
    rw [s7b q hq p hp]
    show _ = A.get ((spai1Local A i (Array.replicate A.ncols (-1))).I.getD q 0)
      ((spai1Local A i (Array.replicate A.ncols (-1))).J.getD p 0)
    rw [getD_lt _ _ hq, getD_lt _ _ hp]

/-- the entries of `M` against any vector: `Σ_l M(i,l)·g(l) = Σ_q x_q·g(I[q])` -/
theorem spai1Row_sum (sqrt : K → K) (A : CRS K) (hA : A.WF) (i : Nat) (hi : i < A.nrows) (n : Nat) (hn : A.ncols ≤ n)
    (g : Nat → K) :
    ∑ l ∈ range n, (spai1Setup sqrt A).get i l * g l
      = ∑ q ∈ range (spai1LocalAt A i).I.length, (spai1X sqrt A i).getD q 0 * g ((spai1LocalAt A i).I.getD q 0) := by
  unfold CRS.get
  rw [spai1Setup_row sqrt A hA i hi]
  have hlt : ∀ cv ∈ spai1RowFresh sqrt A i, cv.1 < n := by
    intro cv hcv
    have : cv.1 ∈ (spai1RowFresh sqrt A i).map (·.1) := List.mem_map.mpr ⟨cv, hcv, rfl⟩
    rw [spai1RowFresh_cols] at this
    obtain ⟨a, ha, e⟩ := List.mem_map.mp this
    have := hA.row_lt i a ha
    rw [← e]; omega
  rw [← sum_map_mul_eq_sum_rowGet (spai1RowFresh sqrt A i) g n hlt]
  unfold spai1RowFresh
  rw [List.map_map, sum_zipIdx_map]
  apply sum_congr rfl
  intro q _
  simp

/-- **from the normal equations of the local matrix to the normal equations of row `i` of `M`** -/
theorem spai1_normal_of_local (sqrt : K → K) (A : CRS K) (hA : A.WF) (hsq : A.ncols = A.nrows) (hnd : A.nodupb = true)
    (i : Nat) (hi : i < A.nrows)
    (hNE : (matOf (spai1LocalAt A i).B 1 (spai1LocalAt A i).J.length (spai1LocalAt A i).J.length (spai1LocalAt A i).I.length)ᵀ *ᵥ
        (matOf (spai1LocalAt A i).B 1 (spai1LocalAt A i).J.length (spai1LocalAt A i).J.length (spai1LocalAt A i).I.length *ᵥ
          vecOf (spai1X sqrt A i) (spai1LocalAt A i).I.length)
      = (matOf (spai1LocalAt A i).B 1 (spai1LocalAt A i).J.length (spai1LocalAt A i).J.length (spai1LocalAt A i).I.length)ᵀ *ᵥ
        vecOf (spai1LocalAt A i).ek (spai1LocalAt A i).J.length) :
    ∀ cv ∈ A.row i, spaiNormal A (spai1Setup sqrt A) A.nrows i cv.1 = 0 := by
  have F := localFacts A hA hnd i
  set P := spai1LocalAt A i with hP
  set x := spai1X sqrt A i with hx
  have hI : P.I = (A.row i).map (·.1) := rfl
  intro cv hcv
  -- the position q' of the column in I
  have hmem : cv.1 ∈ P.I := by rw [hI]; exact List.mem_map.mpr ⟨cv, hcv, rfl⟩
  obtain ⟨q', hq', eq'⟩ := List.getElem_of_mem hmem
  have eq'' : P.I.getD q' 0 = cv.1 := by rw [getD_lt _ _ hq']; exact eq'
  -- the q'-th local normal equation, as sums over `range`
  have h1 := congrFun hNE ⟨q', hq'⟩
  simp only [Matrix.mulVec, dotProduct, Matrix.transpose_apply, matOf, vecOf] at h1
  rw [Fin.sum_univ_eq_sum_range (fun p => P.B.getD (p * 1 + q' * P.J.length) 0 *
      ∑ q : Fin P.I.length, P.B.getD (p * 1 + q.val * P.J.length) 0 * x.getD q.val 0) P.J.length,
    Fin.sum_univ_eq_sum_range (fun p => P.B.getD (p * 1 + q' * P.J.length) 0 * P.ek.getD p 0) P.J.length] at h1
  -- g j := a(k,j) * (δ_ij - Σ_q x_q a(I[q], j))
  let g : Nat → K := fun j => A.get cv.1 j *
    ((if i = j then 1 else 0) - ∑ q ∈ range P.I.length, x.getD q 0 * A.get (P.I.getD q 0) j)
  have hg : ∑ p ∈ range P.J.length, g (P.J.getD p 0) = 0 := by
    have : ∀ p ∈ range P.J.length, g (P.J.getD p 0)
        = P.B.getD (p * 1 + q' * P.J.length) 0 * P.ek.getD p 0
          - P.B.getD (p * 1 + q' * P.J.length) 0 *
            ∑ q : Fin P.I.length, P.B.getD (p * 1 + q.val * P.J.length) 0 * x.getD q.val 0 := by
      intro p hp
      have hp' := mem_range.mp hp
      rw [Fin.sum_univ_eq_sum_range (fun q => P.B.getD (p * 1 + q * P.J.length) 0 * x.getD q 0) P.I.length,
        F.B q' hq' p hp', F.ek p hp', eq'']
      have : ∑ q ∈ range P.I.length, P.B.getD (p * 1 + q * P.J.length) 0 * x.getD q 0
          = ∑ q ∈ range P.I.length, x.getD q 0 * A.get (P.I.getD q 0) (P.J.getD p 0) := by
        apply sum_congr rfl
        intro q hq
        rw [F.B q (mem_range.mp hq) p hp']; ring
      rw [this]
      show A.get cv.1 (P.J.getD p 0) * ((if i = P.J.getD p 0 then 1 else 0) - _) = _
      have : (if i = P.J.getD p 0 then (1 : K) else 0) = if P.J.getD p 0 = i then 1 else 0 := by
        by_cases h : i = P.J.getD p 0
        · rw [if_pos h, if_pos h.symm]
        · rw [if_neg h, if_neg (fun hh => h hh.symm)]
      rw [this]; ring
    rw [sum_congr rfl this, sum_sub_distrib, h1, sub_self]
  -- extend the sum over J to all columns
  have hg0 : ∀ j, j < A.nrows → j ∉ P.J → g j = 0 := by
    intro j _ hj
    show A.get cv.1 j * _ = 0
    have : A.get cv.1 j = 0 := by
      unfold CRS.get
      apply rowGet_eq_zero_of_not_mem
      intro hmj
      obtain ⟨a, ha, e⟩ := List.mem_map.mp hmj
      apply hj
      rw [← e]
      exact F.cover q' hq' a (by rw [eq'']; exact ha)
    rw [this, zero_mul]
  have hsum : ∑ j ∈ range A.nrows, g j = 0 := by
    rw [← sum_list_eq_sum_range P.J F.Jnodup A.nrows (fun d hd => by rw [← hsq]; exact F.Jlt d hd) g hg0,
      ← sum_range_getD]
    exact hg
  rw [spaiNormal_eq, ← hsum]
  apply sum_congr rfl
  intro j _
  rw [spaiResid_eq, spai1Row_sum sqrt A hA i hi A.nrows (by omega) (fun l => A.get l j)]
  show _ = A.get cv.1 j * _
  ring

end Relax
end Amgcl
