import Amgcl.Proofs.RelaxSpai1Local
import Amgcl.Proofs.QRObject
/-!
SPAI-1 (`Model/RelaxSpai1.lean`): the row loop of the constructor.

* `spai1Row_clean` — on an all-`-1` marker the body of the row loop returns the row a fresh `QR` object would produce and
  hands an all-`-1` marker to the next row, whatever the `QR` object holds (`QRModel.solveS_indep`);
* `spai1Loop_spec` / `spai1Setup_row` — row `i` of `M` is `spai1RowFresh sqrt A i`: the local problem assembled on a clean marker
  and solved by `QRModel.solve` (default-constructed object);
* shape of `M`: same row count, column count and column lists as `A`.
-/
set_option linter.unusedSectionVars false
set_option linter.unusedVariables false
namespace Amgcl
namespace Relax
open QRModel

variable {K : Type} [Field K] [LinearOrder K] [IsStrictOrderedRing K]

/-- the all-`-1` marker of a thread -/
abbrev cleanMarker (A : CRS K) : Array Int := Array.replicate A.ncols (-1)

/-- the local least-squares problem of row `i` (assembled on a clean marker) -/
abbrev spai1LocalAt (A : CRS K) (i : Nat) : Spai1Local K := spai1Local A i (cleanMarker A)

/-- its solution by `QR::solve` on a default-constructed object -/
def spai1X (sqrt : K → K) (A : CRS K) (i : Nat) : Array K :=
  QRModel.solve sqrt (spai1LocalAt A i).J.length (spai1LocalAt A i).I.length 1 (spai1LocalAt A i).J.length
    (spai1LocalAt A i).B (spai1LocalAt A i).ek

/-- row `i` of `M`: the columns of row `i` of `A` with the entries of the solution -/
def spai1RowFresh (sqrt : K → K) (A : CRS K) (i : Nat) : Row K :=
  (spai1LocalAt A i).I.zipIdx.map (fun cq => (cq.1, (spai1X sqrt A i).getD cq.2 0))

theorem spai1Row_clean (sqrt : K → K) (A : CRS K) (hA : A.WF) (i : Nat) (o : Obj K) :
    (spai1Row sqrt A i (cleanMarker A, o)).1 = spai1RowFresh sqrt A i ∧
    (spai1Row sqrt A i (cleanMarker A, o)).2.1 = cleanMarker A := by
  constructor
  · show (spai1LocalAt A i).I.zipIdx.map (fun cq => (cq.1,
      (solveS sqrt (spai1LocalAt A i).J.length (spai1LocalAt A i).I.length 1 (spai1LocalAt A i).J.length
        (spai1LocalAt A i).B (spai1LocalAt A i).ek o).1.getD cq.2 0)) = _
    rw [solveS_indep]
    rfl
  · exact (spai1Local_spec A hA i).2.2.2.2.2.2.2

/-- the state of the row loop after the rows `< k` -/
theorem spai1Loop_prefix (sqrt : K → K) (A : CRS K) (hA : A.WF) (k : Nat) :
    ∃ o : Obj K, (List.range k).foldl (fun (acc : Array (Row K) × (Array Int × Obj K)) i =>
        let r := spai1Row sqrt A i acc.2
        (acc.1.push r.1, r.2)) (#[], (Array.replicate A.ncols (-1), Obj.fresh))
      = (Array.ofFn (n := k) (fun i => spai1RowFresh sqrt A i.val), (cleanMarker A, o)) := by
  induction k with
  | zero => exact ⟨Obj.fresh, by simp [cleanMarker]⟩
  | succ k ih =>
    obtain ⟨o, ho⟩ := ih
    rw [List.range_succ, List.foldl_append, ho]
    obtain ⟨h1, h2⟩ := spai1Row_clean sqrt A hA k o
    refine ⟨(spai1Row sqrt A k (cleanMarker A, o)).2.2, ?_⟩
    show ((Array.ofFn (n := k) (fun i => spai1RowFresh sqrt A i.val)).push (spai1Row sqrt A k (cleanMarker A, o)).1,
      (spai1Row sqrt A k (cleanMarker A, o)).2) = _
    rw [h1]
    have : (spai1Row sqrt A k (cleanMarker A, o)).2 = (cleanMarker A, (spai1Row sqrt A k (cleanMarker A, o)).2.2) :=
      Prod.ext h2 rfl
    rw [this]
    congr 1
    rw [Array.ofFn_succ]
    simp

theorem spai1Setup_rows (sqrt : K → K) (A : CRS K) (hA : A.WF) :
    (spai1Setup sqrt A).rows = Array.ofFn (n := A.nrows) (fun i => spai1RowFresh sqrt A i.val) := by
  obtain ⟨o, ho⟩ := spai1Loop_prefix sqrt A hA A.nrows
  show (spai1Loop sqrt A).1 = _
  unfold spai1Loop
  rw [ho]

theorem spai1Setup_nrows (sqrt : K → K) (A : CRS K) (hA : A.WF) : (spai1Setup sqrt A).nrows = A.nrows := by
  unfold CRS.nrows; rw [spai1Setup_rows sqrt A hA]; simp [CRS.nrows]

theorem spai1Setup_ncols (sqrt : K → K) (A : CRS K) : (spai1Setup sqrt A).ncols = A.ncols := rfl

theorem spai1Setup_row (sqrt : K → K) (A : CRS K) (hA : A.WF) (i : Nat) (hi : i < A.nrows) :
    (spai1Setup sqrt A).row i = spai1RowFresh sqrt A i := by
  unfold CRS.row
  rw [spai1Setup_rows sqrt A hA]
  simp [Array.getD, hi]

theorem spai1RowFresh_cols (sqrt : K → K) (A : CRS K) (i : Nat) :
    (spai1RowFresh sqrt A i).map (·.1) = (A.row i).map (·.1) := by
  unfold spai1RowFresh
  rw [List.map_map]
  show (spai1LocalAt A i).I.zipIdx.map Prod.fst = _
  rw [List.zipIdx_map_fst]
  rfl

end Relax
end Amgcl
