import Amgcl.Model.IOCommon
/-!
Lemmas about the `sort_row` model (`insertFromRight`, `sortRow`, `sortSeg`, `sortRows`) — helper file for C19.
-/
namespace Amgcl.IO
variable {V : Type}

theorem insertFromRight_perm (x : Int × V) (l : List (Int × V)) :
    (insertFromRight x l).Perm (x :: l) := by
  unfold insertFromRight
  have h := @List.takeWhile_append_dropWhile _ (fun y : Int × V => decide (x.1 < y.1)) l.reverse
  have h2 : l = ((l.reverse.dropWhile fun y => decide (x.1 < y.1)).reverse ++
      (l.reverse.takeWhile fun y => decide (x.1 < y.1)).reverse) := by
    rw [← List.reverse_append, h, List.reverse_reverse]
  simp only []
  conv => rhs; rw [h2]
  exact List.perm_middle

theorem sortRow_perm_aux (l acc : List (Int × V)) :
    (l.foldl (fun acc x => insertFromRight x acc) acc).Perm (acc ++ l) := by
  induction l generalizing acc with
  | nil => simp
  | cons x t ih =>
    simp only [List.foldl_cons]
    refine (ih _).trans ?_
    have := insertFromRight_perm x acc
    refine (List.Perm.append_right t this).trans ?_
    simp only [List.cons_append]
    exact (List.perm_middle).symm

theorem sortRow_perm (l : List (Int × V)) : (sortRow l).Perm l := by
  have := sortRow_perm_aux l []
  simpa [sortRow] using this

theorem sortRow_length (l : List (Int × V)) : (sortRow l).length = l.length := (sortRow_perm l).length_eq

theorem mem_sortRow {x : Int × V} {l : List (Int × V)} : x ∈ sortRow l ↔ x ∈ l := (sortRow_perm l).mem_iff

/-- a row whose columns are already non-decreasing is left unchanged -/
def colSorted : List (Int × V) → Prop
  | [] => True
  | [_] => True
  | a :: b :: t => a.1 ≤ b.1 ∧ colSorted (b :: t)

theorem insertFromRight_of_le (x : Int × V) (l : List (Int × V)) (h : ∀ y, l.getLast? = some y → y.1 ≤ x.1) :
    insertFromRight x l = l ++ [x] := by
  unfold insertFromRight
  rcases List.eq_nil_or_concat l with rfl | ⟨l', y, rfl⟩
  · simp
  · have hy : y.1 ≤ x.1 := h y (by simp)
    have : ¬ (x.1 < y.1) := by omega
    simp [List.reverse_append, this]

theorem colSorted_append_singleton (l : List (Int × V)) (x : Int × V) :
    colSorted (l ++ [x]) ↔ colSorted l ∧ ∀ y, l.getLast? = some y → y.1 ≤ x.1 := by
  induction l with
  | nil => simp [colSorted]
  | cons a t ih =>
    cases t with
    | nil => simp [colSorted]
    | cons b t' =>
      have := ih
      simp only [List.cons_append, colSorted] at this ⊢
      rw [this]
      simp [List.getLast?_cons_cons, and_assoc]

theorem sortRow_of_sorted (l : List (Int × V)) (h : colSorted l) : sortRow l = l := by
  suffices H : ∀ n (l : List (Int × V)), l.length = n → colSorted l → sortRow l = l from H _ l rfl h
  intro n
  induction n with
  | zero => intro l hl _; have : l = [] := by simpa using hl
            subst this; rfl
  | succ n ih =>
    intro l hl h
    rcases List.eq_nil_or_concat l with rfl | ⟨l', x, rfl⟩
    · rfl
    · rw [List.concat_eq_append] at hl h ⊢
      rw [colSorted_append_singleton] at h
      have hl' : l'.length = n := by simpa using hl
      have ih' := ih l' hl' h.1
      unfold sortRow at ih' ⊢
      rw [List.foldl_append, ih']
      simp only [List.foldl_cons, List.foldl_nil]
      exact insertFromRight_of_le x l' h.2

/-- what `sort_row` does to a row when the length passes through the narrowing `narrow`: the first `narrow |r|`
entries get sorted (all of them when `narrow |r| = |r|`) -/
def sortRowN (narrow : Int → Int) (r : List (Int × V)) : List (Int × V) :=
  if narrow r.length ≤ 1 then r
  else sortRow (r.take (narrow r.length).toNat) ++ r.drop (narrow r.length).toNat

theorem sortRowN_perm (narrow : Int → Int) (r : List (Int × V)) : (sortRowN narrow r).Perm r := by
  unfold sortRowN
  split
  · exact List.Perm.refl _
  · conv => rhs; rw [← List.take_append_drop (narrow r.length).toNat r]
    exact List.Perm.append_right _ (sortRow_perm _)

theorem sortRowN_length (narrow : Int → Int) (r : List (Int × V)) : (sortRowN narrow r).length = r.length :=
  (sortRowN_perm narrow r).length_eq

theorem sortRowN_of_id (narrow : Int → Int) (r : List (Int × V)) (h : narrow r.length = r.length) :
    sortRowN narrow r = sortRow r := by
  unfold sortRowN
  rw [h]
  split
  · rename_i h1
    have : r.length ≤ 1 := by omega
    match r, this with
    | [], _ => rfl
    | [a], _ => simp [sortRow, insertFromRight]
  · simp

theorem sortSeg_mid (narrow : Int → Int) (hn : ∀ L : Int, 0 ≤ L → narrow L ≤ L)
    (pre r post : List (Int × V)) :
    sortSeg (pre ++ r ++ post) pre.length (narrow r.length) = some (pre ++ sortRowN narrow r ++ post) := by
  unfold sortSeg sortRowN
  have hle := hn r.length (by omega)
  by_cases h1 : narrow r.length ≤ 1
  · simp [h1]
  · simp only [h1, if_false]
    have hk : (narrow (r.length : Int)).toNat ≤ r.length := by omega
    have hcond : (0 : Int) ≤ (pre.length : Int) ∧ (pre.length : Int) + narrow r.length ≤ ((pre ++ r ++ post).length : Int) := by
      simp only [List.length_append]; omega
    rw [if_pos hcond]
    simp only [Int.toNat_natCast]
    congr 1
    have e1 : List.take pre.length (pre ++ r ++ post) = pre := by
      rw [List.append_assoc, List.take_left']; rfl
    have e2 : List.drop pre.length (pre ++ r ++ post) = r ++ post := by
      rw [List.append_assoc, List.drop_left']; rfl
    have e3 : List.take (narrow (r.length : Int)).toNat (r ++ post) = r.take (narrow (r.length : Int)).toNat := by
      rw [List.take_append_of_le_length hk]
    have e4 : List.drop (pre.length + (narrow (r.length : Int)).toNat) (pre ++ r ++ post)
        = r.drop (narrow (r.length : Int)).toNat ++ post := by
      rw [List.append_assoc, ← List.drop_drop, List.drop_left' rfl, List.drop_append_of_le_length hk]
    rw [e1, e2, e3, e4]
    simp [List.append_assoc]

/-- the row loop on a flat array that is the concatenation of the rows `rs` behind a prefix `pre` -/
theorem sortRows_flat (narrow : Int → Int) (hn : ∀ L : Int, 0 ≤ L → narrow L ≤ L)
    (rs : List (List (Int × V))) (pre post : List (Int × V)) :
    sortRows narrow (ptrFrom pre.length (rs.map List.length)) (pre ++ rs.flatten ++ post)
      = some (pre ++ (rs.map (sortRowN narrow)).flatten ++ post) := by
  induction rs generalizing pre with
  | nil => simp [ptrFrom, sortRows]
  | cons r t ih =>
    simp only [List.map_cons, ptrFrom, List.flatten_cons]
    cases ht : t.map List.length with
    | nil =>
      have : t = [] := by simpa using ht
      subst this
      simp only [ptrFrom, sortRows, List.map_nil, List.flatten_nil, List.append_nil]
      have hs := sortSeg_mid narrow hn pre r post
      have e : (pre.length : Int) + (r.length : Int) - (pre.length : Int) = (r.length : Int) := by omega
      rw [e, hs]
      rfl
    | cons k t' =>
      simp only [ptrFrom, sortRows]
      have hs := sortSeg_mid narrow hn pre r (t.flatten ++ post)
      have e : (pre.length : Int) + (r.length : Int) - (pre.length : Int) = (r.length : Int) := by omega
      have e0 : pre ++ (r ++ t.flatten) ++ post = pre ++ r ++ (t.flatten ++ post) := by simp [List.append_assoc]
      rw [e, e0, hs]
      simp only [Option.bind_eq_bind, Option.bind_some]
      have ih' := ih (pre ++ sortRowN narrow r)
      rw [ht] at ih'
      simp only [ptrFrom, List.length_append, sortRowN_length] at ih'
      have e1 : ((pre.length + r.length : Nat) : Int) = (pre.length : Int) + (r.length : Int) := by omega
      rw [e1] at ih'
      have e2 : pre ++ sortRowN narrow r ++ (t.flatten ++ post) = pre ++ sortRowN narrow r ++ t.flatten ++ post := by
        simp [List.append_assoc]
      rw [e2, ih']
      simp [List.append_assoc]

theorem rowRange_fixed (n rb re b e : Int) (h : rowRange true n rb re = some (b, e)) :
    0 ≤ b ∧ b ≤ e ∧ e ≤ n ∧ b = (if rb < 0 then 0 else rb) ∧ e = (if re < 0 then n else re) := by
  unfold rowRange at h
  simp only [] at h
  generalize (if rb < 0 then (0 : Int) else rb) = b0 at h ⊢
  generalize (if re < 0 then n else re) = e0 at h ⊢
  split at h
  · rename_i hc
    injection h with h; injection h with h1 h2
    simp at hc
    omega
  · contradiction

theorem wrap32_le (L : Int) (h : 0 ≤ L) : wrap32 L ≤ L := by
  unfold wrap32
  simp only []
  split <;> omega

end Amgcl.IO
