import Amgcl.Proofs.IOBinarySlice
/-!
Binary dense files: round trip and row-range = slice (helper file for C19).
-/
namespace Amgcl.IO
variable {V : Type}

theorem leVal_lt_two64 (file : Bytes) (pos : Nat) (bs : Bytes) (h : readAt file pos 8 = some bs) :
    leVal bs < 18446744073709551616 := by
  have := leVal_lt bs
  rw [readAt_length _ _ _ _ h] at this
  have h3 : (256 : Nat) ^ 8 = 18446744073709551616 := by decide
  omega

/-- **row-range `read_dense` = slice of the full read**, for every file shorter than `2^63` bytes -/
theorem binReadDense_range_eq_slice (memLimit vsz : Nat) (hvsz : 0 < vsz) (dec : Bytes → V) (file : Bytes)
    (hfile : file.length < two63) (F : RawDense V)
    (hF : binReadDense true memLimit vsz dec file (-1) (-1) = .ok F) (b e : Nat) (hbe : b ≤ e) (hen : e ≤ F.nrows) :
    binReadDense true memLimit vsz dec file b e
      = .ok ⟨e - b, F.ncols, (F.val.drop (b * F.ncols)).take ((e - b) * F.ncols)⟩ := by
  unfold binReadDense at hF ⊢
  split at hF
  · contradiction
  rename_i nb hnb
  split at hF
  · contradiction
  rename_i mb hmb
  simp only [] at hF
  split at hF
  · contradiction
  rename_i b0 e0 hr
  obtain ⟨hb0, hbe0, hen0, hbdef, hedef⟩ := rowRange_fixed _ _ _ _ _ hr
  simp at hbdef hedef
  subst hbdef hedef
  have hn64 := leVal_lt_two64 _ _ _ hnb
  have hn63 : leVal nb < 9223372036854775808 := by
    unfold toS64 two63 two64 at hbe0; split at hbe0 <;> omega
  have hS : toS64 (leVal nb) = (leVal nb : Int) := by unfold toS64 two63; rw [if_pos hn63]
  rw [hS] at hF
  split at hF
  · contradiction
  rename_i hov
  simp only [Int.sub_zero] at hF
  split at hF
  · contradiction
  rename_i hmem
  split at hF
  · contradiction
  rename_i vb hvb
  injection hF with hF
  subst hF
  simp only [] at hen ⊢
  have hov' : leVal nb * leVal mb * vsz < two64 := by simpa using hov
  have hofn : ofS64 (leVal nb : Int) = leVal nb := ofS64_natCast _ (by unfold two63; omega)
  rw [hofn] at hen hmem hvb
  rw [hS]
  have hr' : rowRange true (leVal nb : Int) (b : Int) (e : Int) = some ((b : Int), (e : Int)) := by
    unfold rowRange
    have h1 : ¬ ((b : Int) < 0) := by omega
    have h2 : ¬ ((e : Int) < 0) := by omega
    simp only [h1, h2, if_false]
    rw [if_pos]
    simp
    omega
  rw [hr']
  simp only []
  rw [if_neg (by simpa using hov')]
  have hofb : ofS64 (b : Int) = b := ofS64_natCast b (by unfold two63; omega)
  have hofc : ofS64 ((e : Int) - (b : Int)) = e - b := by
    have : ((e : Int) - (b : Int)) = ((e - b : Nat) : Int) := by omega
    rw [this]; exact ofS64_natCast _ (by unfold two63; omega)
  rw [hofb, hofc]
  -- no wrap-around
  have hnm : leVal nb * leVal mb < two64 := by
    have : leVal nb * leVal mb ≤ leVal nb * leVal mb * vsz := Nat.le_mul_of_pos_right _ hvsz
    omega
  have hcm : (e - b) * leVal mb ≤ leVal nb * leVal mb := Nat.mul_le_mul_right _ (by omega)
  have hbm : b * leVal mb + (e - b) * leVal mb ≤ leVal nb * leVal mb := by
    rw [← Nat.add_mul]; exact Nat.mul_le_mul_right _ (by omega)
  rw [Nat.mod_eq_of_lt hnm] at hmem hvb
  rw [Nat.mod_eq_of_lt (show (e - b) * leVal mb < two64 by omega)]
  have hcmv : (e - b) * leVal mb * vsz ≤ leVal nb * leVal mb * vsz := Nat.mul_le_mul_right _ hcm
  rw [if_neg (by omega)]
  have e0 : ofS64 0 = 0 := by unfold ofS64 two64; simp
  rw [e0] at hvb
  have hsub := readAt_sub_mod file (16 + 0 * leVal mb * vsz) (leVal nb * leVal mb * vsz) vb hvb
    (b * leVal mb * vsz) ((e - b) * leVal mb * vsz) (by
      rw [← Nat.add_mul]; exact Nat.mul_le_mul_right _ hbm) hfile
  have epos : 16 + 0 * leVal mb * vsz + b * leVal mb * vsz = 16 + b * leVal mb * vsz := by omega
  rw [epos] at hsub
  rw [hsub]
  simp only []
  rw [splitEvery_sub vsz (b * leVal mb) ((e - b) * leVal mb) (leVal nb * leVal mb) hbm vb, List.map_take, List.map_drop,
    hofn, Nat.mod_eq_of_lt hnm]

end Amgcl.IO

namespace Amgcl.IO
variable {V : Type}

/-- **binary round trip, dense** -/
theorem binReadDense_write (memLimit vsz : Nat) (hvsz : 0 < vsz) (enc : V → Bytes) (dec : Bytes → V)
    (henc : ∀ v, (enc v).length = vsz) (hdec : ∀ v, dec (enc v) = v) (D : RawDense V) (hD : D.WF)
    (hn : D.nrows < two63) (hm : D.ncols < two64)
    (hfile : (binWriteDense enc D).length < two63) (hmem : D.nrows * D.ncols * vsz ≤ memLimit) :
    binReadDense true memLimit vsz dec (binWriteDense enc D) (-1) (-1) = .ok D := by
  obtain ⟨n, m, val⟩ := D
  unfold RawDense.WF at hD
  simp only [] at hD hmem hn hm
  have hW : (val.flatMap enc).length = n * m * vsz := by rw [flatMap_length_const vsz enc henc, hD]
  have hfeq : binWriteDense enc ⟨n, m, val⟩ = enc64 n ++ (enc64 m ++ val.flatMap enc) := rfl
  have hflen : (binWriteDense enc ⟨n, m, val⟩).length = 16 + n * m * vsz := by
    rw [hfeq]; simp only [List.length_append, enc64_length, hW]; omega
  rw [hflen] at hfile
  generalize binWriteDense enc ⟨n, m, val⟩ = file at hfeq hflen ⊢
  unfold two63 at hfile hn
  unfold two64 at hm
  have hnm : n * m ≤ n * m * vsz := Nat.le_mul_of_pos_right _ hvsz
  have r0 : readAt file 0 8 = some (enc64 n) :=
    readAt_of_split _ [] (enc64 n) (enc64 m ++ val.flatMap enc) 0 8 (by rw [hfeq]; simp) rfl
      (enc64_length n).symm (by unfold two63; omega)
  have r1 : readAt file 8 8 = some (enc64 m) :=
    readAt_of_split _ (enc64 n) (enc64 m) (val.flatMap enc) 8 8 (by rw [hfeq]; simp) (enc64_length n).symm
      (enc64_length m).symm (by unfold two63; omega)
  unfold binReadDense
  rw [r0, r1]
  simp only []
  rw [leVal_enc64, leVal_enc64, Nat.mod_eq_of_lt (show n < two64 by unfold two64; omega),
    Nat.mod_eq_of_lt (show m < two64 by unfold two64; omega)]
  have hS : toS64 n = (n : Int) := by unfold toS64 two63; rw [if_pos (by omega)]
  have hrr : rowRange true (toS64 n) (-1) (-1) = some (0, (n : Int)) := by
    rw [hS]; unfold rowRange; simp
  rw [hrr]
  simp only [Int.sub_zero]
  rw [if_neg (by simp; unfold two64; omega)]
  have hofn : ofS64 (n : Int) = n := ofS64_natCast _ (by unfold two63; omega)
  have e0 : ofS64 0 = 0 := by unfold ofS64 two64; simp
  rw [hofn, e0, Nat.mod_eq_of_lt (show n * m < two64 by unfold two64; omega)]
  rw [if_neg (by unfold two63; omega)]
  have r2 : readAt file ((16 + 0 * m * vsz) % two64) (n * m * vsz) = some (val.flatMap enc) := by
    apply readAt_of_split _ (enc64 n ++ enc64 m) _ []
    · rw [hfeq]; simp [List.append_assoc]
    · rw [List.length_append, enc64_length, enc64_length]; unfold two64; omega
    · rw [hW]
    · unfold two64 two63; omega
  rw [r2]
  simp only []
  rw [← hD, decode_enc_list vsz enc dec henc hdec val]

end Amgcl.IO
