import Amgcl.Proofs.DistMisc
import Amgcl.Proofs.KernelsTranspose
/-!
`mpi::transpose`: the gathered distributed transpose denotes the (adjoint) transpose of the assembled matrix.
-/
namespace Amgcl.Dist
open Amgcl

/-! ### list helpers -/

/-- locating neighbour `r` in a per-neighbour segment list and the offset of its segment in the concatenation -/
theorem segment_lookup {α : Type} (g : Nat → List α) (r : Nat) : ∀ (F : List Nat), r ∈ F → F.Nodup →
    ∃ k, (F.map (fun d => (d, g d))).findIdx? (fun ds => ds.1 == r) = some k ∧
      (F.map (fun d => (d, g d))).getD k (0, []) = (r, g r) ∧
      ∀ t, t < (g r).length →
        (F.flatMap g)[(((F.map (fun d => (d, g d))).take k).map (·.2.length)).sum + t]? = (g r)[t]? := by
  intro F
  induction F with
  | nil => intro h; cases h
  | cons a F ih =>
    intro hr hn
    obtain ⟨hn1, hn2⟩ := List.nodup_cons.1 hn
    by_cases e : a = r
    · subst e
      refine ⟨0, by simp [List.findIdx?_cons], by simp, ?_⟩
      intro t ht
      simp only [List.map_cons, List.take_zero, List.map_nil, List.sum_nil, Nat.zero_add, List.flatMap_cons]
      exact List.getElem?_append_left ht
    · have hrF : r ∈ F := by
        rcases List.mem_cons.1 hr with h | h
        · exact absurd h.symm e
        · exact h
      obtain ⟨k, h1, h2, h3⟩ := ih hrF hn2
      refine ⟨k + 1, ?_, by simpa using h2, ?_⟩
      · rw [List.map_cons, List.findIdx?_cons]
        have : ((a, g a).1 == r) = false := by simpa using e
        simp only [this, Bool.false_eq_true, if_false, h1, Option.map_some]
      · intro t ht
        simp only [List.map_cons, List.take_succ_cons, List.sum_cons, List.flatMap_cons]
        rw [Nat.add_assoc, List.getElem?_append_right (Nat.le_add_right _ _), Nat.add_sub_cancel_left]
        exact h3 t ht

theorem segment_none {α : Type} (g : Nat → List α) (r : Nat) (F : List Nat) (h : r ∉ F) :
    (F.map (fun d => (d, g d))).findIdx? (fun ds => ds.1 == r) = none := by
  rw [List.findIdx?_eq_none_iff]
  intro x hx
  obtain ⟨d, hd, rfl⟩ := List.mem_map.1 hx
  have : d ≠ r := fun e => h (e ▸ hd)
  simpa using this

theorem map_range_getElem? {α β : Type} (l : List α) (f : α → β) (z : β) :
    (List.range l.length).map (fun t => match l[t]? with | some a => f a | none => z) = l.map f := by
  apply List.ext_getElem?
  intro i
  rw [List.getElem?_map, List.getElem?_map]
  by_cases hi : i < l.length
  · rw [List.getElem?_range hi, List.getElem?_eq_getElem hi]; simp [List.getElem?_eq_getElem hi]
  · rw [List.getElem?_eq_none (by simpa using hi), List.getElem?_eq_none (Nat.le_of_not_lt hi)]; rfl

/-- the bucket fold of `T_rem` (lines 678-704): bucket `j` collects, in order, the rows received for key `j` -/
theorem bucket_fold {α : Type} (l : List (Nat × List α)) : ∀ (b : Array (List α)) (j : Nat), j < b.size →
    (l.foldl (fun (b : Array (List α)) jr => b.modify jr.1 (· ++ jr.2)) b).size = b.size ∧
    (l.foldl (fun (b : Array (List α)) jr => b.modify jr.1 (· ++ jr.2)) b).getD j []
      = b.getD j [] ++ (l.filter (fun jr => jr.1 = j)).flatMap (·.2) := by
  induction l with
  | nil => intro b j _; simp
  | cons jr t ih =>
    intro b j hj
    rw [List.foldl_cons]
    have hs : (b.modify jr.1 (· ++ jr.2)).size = b.size := Array.size_modify
    obtain ⟨h1, h2⟩ := ih (b.modify jr.1 (· ++ jr.2)) j (by rw [hs]; exact hj)
    refine ⟨by rw [h1, hs], ?_⟩
    rw [h2]
    have hget : (b.modify jr.1 (· ++ jr.2)).getD j [] = if jr.1 = j then b.getD j [] ++ jr.2 else b.getD j [] := by
      simp only [Array.getD_eq_getD_getElem?, Array.getElem?_modify]
      split
      · next h => subst h; simp [Array.getElem?_eq_getElem hj]
      · rfl
    rw [hget]
    by_cases e : jr.1 = j
    · simp [e, List.filter_cons]
    · simp [e, List.filter_cons]

theorem row_map_rows {K : Type} (M : CRS K) (f : Row K → Row K) (hf : f [] = []) (n : Nat) (s : Nat) :
    (⟨n, M.rows.map f⟩ : CRS K).row s = f (M.row s) := by
  unfold CRS.row
  simp only [Array.getD_eq_getD_getElem?, Array.getElem?_map]
  cases M.rows[s]? with
  | none => simp [hf]
  | some r => rfl

/-- in a duplicate-free column list the slot of a member is `s` iff the member is the `s`-th column -/
theorem localIndex_iff (p : CommPattern) (cols : List Nat) (hn : cols.Nodup)
    (hidx : p.idx.map (fun e => (e.1, e.2.2)) = cols.zipIdx) (c s : Nat) (hc : c ∈ cols) (hs : s < cols.length) :
    p.localIndex c = s ↔ cols[s]? = some c := by
  have h := localIndex_spec p cols hn hidx c hc
  constructor
  · intro e; rw [← e]; exact h
  · intro e
    have hl : p.localIndex c < cols.length := by
      by_contra hcon
      rw [List.getElem?_eq_none (Nat.le_of_not_lt hcon)] at h; cases h
    exact (List.getElem?_inj hl hn).1 (by rw [h, e])

/-! ### sums with indicators -/
section sums
variable {K : Type} [AddCommMonoid K]

theorem sum_nodup_ite {α : Type} [DecidableEq α] (l : List α) (hn : l.Nodup) (a : α) (f : α → K) :
    (l.map (fun c => if c = a then f c else 0)).sum = if a ∈ l then f a else 0 := by
  induction l with
  | nil => simp
  | cons b t ih =>
    obtain ⟨h1, h2⟩ := List.nodup_cons.1 hn
    rw [List.map_cons, List.sum_cons, ih h2]
    by_cases e : b = a
    · subst e; simp [h1]
    · have : ¬ a = b := fun h => e h.symm
      simp [e, this]

theorem sum_filter_of_zero {α : Type} (p : α → Bool) (g : α → K) (l : List α)
    (h : ∀ a ∈ l, p a = false → g a = 0) : ((l.filter p).map g).sum = (l.map g).sum := by
  induction l with
  | nil => rfl
  | cons a t ih =>
    have iht := ih (fun b hb => h b (List.mem_cons_of_mem _ hb))
    by_cases hp : p a = true
    · rw [List.filter_cons_of_pos hp, List.map_cons, List.sum_cons, List.map_cons, List.sum_cons, iht]
    · have hp' : p a = false := by simpa using hp
      rw [List.filter_cons_of_neg hp, iht, List.map_cons, List.sum_cons, h a List.mem_cons_self hp', zero_add]

theorem rowGet_map_shift (s : Nat) (row : Row K) (g : Nat) :
    rowGet (row.map (fun cv => (cv.1 + s, cv.2))) g = if s ≤ g then rowGet row (g - s) else 0 := by
  induction row with
  | nil => simp
  | cons cv t ih =>
    rw [List.map_cons, rowGet_cons', rowGet_cons', ih]
    by_cases hs : s ≤ g
    · simp only [hs, if_true]
      have : (cv.1 + s = g) ↔ (cv.1 = g - s) := by omega
      simp only [this]
    · have : ¬ cv.1 + s = g := by omega
      simp [hs, this]

end sums

/-! ### what travels where -/
section core
variable {K : Type}

/-- the entries of global column `c` stored in the REMOTE part of rank `d`, as `(global row, adj value)`, in row order -/
def colEntries (adj : K → K) (A : CRS K) (rp cp : List Nat) (d c : Nat) : Row K :=
  (List.range (rp.getD d 0)).flatMap (fun i =>
    ((splitRank A rp cp d).rem.row i).filterMap (fun cv => if cv.1 = c then some (dom rp d + i, adj cv.2) else none))

/-- every remote column of a rank's block is in its `rem_cols` -/
theorem rem_col_mem (A : CRS K) (rp cp : List Nat) (d i : Nat) (hd : d < rp.length) (hi : i < rp.getD d 0)
    (cv : Nat × K) (hcv : cv ∈ (splitRank A rp cp d).rem.row i) :
    cv.1 ∈ remColsOf ((split A rp cp).map remColList) d := by
  have hw : dom rp (d + 1) - dom rp d = rp.getD d 0 := by rw [dom_succ rp d hd]; omega
  unfold remColsOf
  rw [mem_sortUnique, getD_map_lt remColList _ d [] default (by rw [split_length]; exact hd), split_getD A rp cp d hd,
    mem_remColList]
  exact ⟨i, by rw [(splitRank_nrows A rp cp d).2, hw]; exact hi, cv, hcv, rfl⟩

/-- row `s` of `t_rem` on rank `d` holds the entries of the `s`-th remote column, with global row numbers -/
theorem tRem_row (adj : K → K) (A : CRS K) (rp cp : List Nat) (h : PartOK A rp cp) (d s c : Nat) (hd : d < rp.length)
    (hs : (remColsOf ((split A rp cp).map remColList) d)[s]? = some c) :
    (tRem adj rp ((commPatterns cp ((split A rp cp).map remColList)).getD d default) (splitRank A rp cp d) d).row s
      = colEntries adj A rp cp d c := by
  have hok := remsOK_split A rp cp h
  have hdc : d < cp.length := by rw [← h.len]; exact hd
  obtain ⟨p1, _, _, p4, _, _⟩ := pattern_getD cp _ hok d hdc
  have hw : dom rp (d + 1) - dom rp d = rp.getD d 0 := by rw [dom_succ rp d hd]; omega
  have hsl : s < (remColsOf ((split A rp cp).map remColList) d).length := by
    by_contra hcon; rw [List.getElem?_eq_none (Nat.le_of_not_lt hcon)] at hs; cases hs
  unfold tRem
  simp only
  rw [row_map_rows _ _ (by rfl)]
  rw [transpose_row adj _ s (by show s < ((commPatterns cp _).getD d default).remCols.length; rw [p1]; exact hsl)]
  rw [renumberRem_nrows, (splitRank_nrows A rp cp d).2, hw, List.map_flatMap]
  unfold colEntries
  apply List.flatMap_congr
  intro i hi
  have hi' := List.mem_range.1 hi
  unfold trContrib
  rw [renumberRem_row, List.filterMap_map, List.map_filterMap]
  apply List.filterMap_congr
  intro cv hcv
  have hmem := rem_col_mem A rp cp d i hd hi' cv hcv
  have hiff := localIndex_iff _ (remColsOf ((split A rp cp).map remColList) d) (sortUnique_nodup _) p4 cv.1 s hmem hsl
  simp only [Function.comp]
  by_cases e : cv.1 = c
  · have : ((commPatterns cp ((split A rp cp).map remColList)).getD d default).localIndex cv.1 = s :=
      hiff.2 (by rw [hs, e])
    rw [if_pos this, if_pos e, Option.map_some, Nat.add_comm]
  · have : ¬ ((commPatterns cp ((split A rp cp).map remColList)).getD d default).localIndex cv.1 = s := by
      intro hl; have := hiff.1 hl; rw [hs] at this; exact e (Option.some.inj this).symm
    rw [if_neg this, if_neg e]; rfl

/-- the rows rank `d` ships to rank `r` in `mpi::transpose`: for every column `r` owns that `d` references, the
entries of that column in `d`'s remote part -/
theorem tMsg_eq (adj : K → K) (A : CRS K) (rp cp : List Nat) (h : PartOK A rp cp) (d r : Nat) (hd : d < rp.length)
    (hr : r < rp.length) :
    tMsg adj rp (commPatterns cp ((split A rp cp).map remColList)) (split A rp cp) d r
      = (request cp ((split A rp cp).map remColList) d r).map (colEntries adj A rp cp d) := by
  have hok := remsOK_split A rp cp h
  have hdc : d < cp.length := by rw [← h.len]; exact hd
  have hrc : r < cp.length := by rw [← h.len]; exact hr
  obtain ⟨_, _, p3, _, _, _⟩ := pattern_getD cp _ hok d hdc
  have htile := recv_tiles cp _ hok d hdc
  rw [p3, List.flatMap_map] at htile
  unfold tMsg
  simp only
  rw [p3]
  by_cases hF : r ∈ (List.range cp.length).filter
      (fun r' => (request cp ((split A rp cp).map remColList) d r').length ≠ 0)
  · obtain ⟨k, h1, h2, h3⟩ := segment_lookup (request cp ((split A rp cp).map remColList) d) r _ hF
      ((List.nodup_range).filter _)
    rw [h1]
    simp only
    have h2' : (((List.range cp.length).filter
        (fun r' => (request cp ((split A rp cp).map remColList) d r').length ≠ 0)).map
        (fun r' => (r', request cp ((split A rp cp).map remColList) d r'))).getD k default
          = (r, request cp ((split A rp cp).map remColList) d r) := h2
    rw [h2']
    simp only
    rw [← map_range_getElem? (request cp ((split A rp cp).map remColList) d r) (colEntries adj A rp cp d) []]
    apply List.map_congr_left
    intro t ht
    have ht' := List.mem_range.1 ht
    have hcol := h3 t ht'
    rw [htile] at hcol
    rw [List.getElem?_eq_getElem ht'] at hcol ⊢
    simp only
    rw [split_getD A rp cp d hd]
    unfold CommPattern.recvOff
    rw [p3]
    exact tRem_row adj A rp cp h d _ _ hd hcol
  · rw [segment_none _ r _ hF]
    simp only
    have : (request cp ((split A rp cp).map remColList) d r).length = 0 := by
      by_contra h0
      exact hF (List.mem_filter.2 ⟨List.mem_range.2 hrc, by simpa using h0⟩)
    rw [List.length_eq_zero_iff.1 this]; rfl

end core

/-! ### the denotation of the transposed parts -/
section denote
variable {K : Type} [AddCommMonoid K]

theorem sum_filter_ite {α : Type} (p : α → Prop) [DecidablePred p] (f : α → K) (l : List α) :
    ((l.filter (fun a => decide (p a))).map f).sum = (l.map (fun a => if p a then f a else 0)).sum := by
  induction l with
  | nil => rfl
  | cons a t ih =>
    by_cases h : p a
    · simp [List.filter_cons, h, ih]
    · simp [List.filter_cons, h, ih]

theorem sum_flatMap_map {α β : Type} (l : List α) (g : α → List β) (f : β → K) :
    ((l.flatMap g).map f).sum = (l.map (fun a => ((g a).map f).sum)).sum := by
  induction l with
  | nil => rfl
  | cons a t ih => rw [List.flatMap_cons, List.map_append, List.sum_append, ih, List.map_cons, List.sum_cons]

theorem sum_range_ite' (n i : Nat) (f : Nat → K) :
    ((List.range n).map (fun a => if a = i then f a else 0)).sum = if i < n then f i else 0 := by
  by_cases hi : i < n
  · rw [if_pos hi]; exact sum_range_ite n i f hi
  · rw [if_neg hi]
    apply List.sum_eq_zero
    intro x hx
    obtain ⟨a, ha, rfl⟩ := List.mem_map.1 hx
    have : a ≠ i := by have := List.mem_range.1 ha; omega
    simp [this]

/-- a column that rank `d` does not request from its owner does not occur in `d`'s remote part -/
theorem colEntries_nil (adj : K → K) (A : CRS K) (rp cp : List Nat) (h : PartOK A rp cp) (d r c : Nat)
    (hd : d < rp.length) (hown : IsOwner cp c r)
    (hnot : c ∉ request cp ((split A rp cp).map remColList) d r) : colEntries adj A rp cp d c = [] := by
  unfold colEntries
  rw [List.flatMap_eq_nil_iff]
  intro i hi
  rw [List.filterMap_eq_nil_iff]
  intro cv hcv
  have hmem := rem_col_mem A rp cp d i hd (List.mem_range.1 hi) cv hcv
  by_cases e : cv.1 = c
  · exfalso
    apply hnot
    unfold request
    exact List.mem_filter.2 ⟨e ▸ hmem, by simpa using ownerOf_eq hown⟩
  · simp [e]

theorem rowGet_filterMap_col (adj : K →+ K) (row : Row K) (c G g : Nat) :
    rowGet (row.filterMap (fun cv => if cv.1 = c then some (G, adj cv.2) else none)) g
      = if G = g then adj (rowGet row c) else 0 := by
  induction row with
  | nil => simp
  | cons cv t ih =>
    rw [List.filterMap_cons]
    by_cases hcv : cv.1 = c
    · simp only [hcv, if_true, rowGet_cons', ih]
      by_cases hG : G = g
      · simp [hG, map_add]
      · simp [hG]
    · simp only [hcv, if_false, ih, rowGet_cons']
      by_cases hG : G = g <;> simp [hG]

/-- the entry of `colEntries d c` at global row `g` -/
theorem colEntries_get (adj : K →+ K) (A : CRS K) (rp cp : List Nat) (d c g : Nat) :
    rowGet (colEntries adj A rp cp d c) g
      = if dom rp d ≤ g ∧ g - dom rp d < rp.getD d 0
        then adj (rowGet ((splitRank A rp cp d).rem.row (g - dom rp d)) c) else 0 := by
  unfold colEntries
  rw [rowGet_flatMap]
  have e : (List.range (rp.getD d 0)).map (fun i => rowGet (((splitRank A rp cp d).rem.row i).filterMap
        (fun cv => if cv.1 = c then some (dom rp d + i, (adj : K → K) cv.2) else none)) g)
      = (List.range (rp.getD d 0)).map (fun i => if i = g - dom rp d then
          (if dom rp d ≤ g then adj (rowGet ((splitRank A rp cp d).rem.row i) c) else 0) else 0) := by
    apply List.map_congr_left
    intro i _
    rw [rowGet_filterMap_col]
    by_cases hle : dom rp d ≤ g
    · have : (dom rp d + i = g) ↔ (i = g - dom rp d) := by omega
      simp only [this, hle, if_true]
    · have : ¬ dom rp d + i = g := by omega
      simp [this, hle]
  rw [e, sum_range_ite']
  by_cases hle : dom rp d ≤ g <;> by_cases hlt : g - dom rp d < rp.getD d 0 <;> simp [hle, hlt]

/-- row `j` of `T_rem` on rank `r` denotes, at global row `g`, the sum over all ranks of the entries of global column
`dom cp r + j` found in the ranks' remote parts -/
theorem transposeRank_rem_get (adj : K →+ K) (A : CRS K) (rp cp : List Nat) (h : PartOK A rp cp) (r j g : Nat)
    (hr : r < rp.length) (hj : j < cp.getD r 0) :
    rowGet ((transposeRank adj rp (commPatterns cp ((split A rp cp).map remColList)) (split A rp cp) r).rem.row j) g
      = ((List.range rp.length).map (fun d => rowGet (colEntries adj A rp cp d (dom cp r + j)) g)).sum := by
  have hok := remsOK_split A rp cp h
  have hrc : r < cp.length := by rw [← h.len]; exact hr
  obtain ⟨_, _, _, _, _, p6⟩ := pattern_getD cp _ hok r hrc
  have hgj : IsOwner cp (dom cp r + j) r := ⟨hrc, Nat.le_add_right _ _, by rw [dom_succ cp r hrc]; omega⟩
  have hloc : (splitRank A rp cp r).loc.ncols = cp.getD r 0 := by
    unfold splitRank; simp only; rw [dom_succ cp r hrc]; omega
  -- the received (key, row) pairs
  have hrecvd : ((commPatterns cp ((split A rp cp).map remColList)).getD r default).send.flatMap
        (fun dc => dc.2.zip (tMsg adj rp (commPatterns cp ((split A rp cp).map remColList)) (split A rp cp) dc.1 r))
      = ((List.range cp.length).filter (fun d => (request cp ((split A rp cp).map remColList) d r).length ≠ 0)).flatMap
          (fun d => (request cp ((split A rp cp).map remColList) d r).map
            (fun c => (c - dom cp r, colEntries adj A rp cp d c))) := by
    rw [p6, List.flatMap_map]
    apply List.flatMap_congr
    intro d hd
    have hd' : d < rp.length := by rw [h.len]; exact List.mem_range.1 (List.mem_filter.1 hd).1
    simp only
    rw [tMsg_eq adj A rp cp h d r hd' hr, List.zip_map']
  unfold transposeRank
  simp only
  unfold CRS.row
  simp only
  rw [split_getD A rp cp r hr, hrecvd]
  rw [(bucket_fold _ (Array.replicate (splitRank A rp cp r).loc.ncols []) j (by rw [Array.size_replicate, hloc]; exact hj)).2]
  have hnil : (Array.replicate (splitRank A rp cp r).loc.ncols ([] : Row K)).getD j [] = [] := by
    rw [Array.getD_eq_getD_getElem?, Array.getElem?_replicate, if_pos (by rw [hloc]; exact hj)]; rfl
  rw [hnil, List.nil_append, rowGet_flatMap]
  rw [sum_filter_ite (fun jr : Nat × Row K => jr.1 = j), sum_flatMap_map]
  -- per neighbour
  have hper : ∀ d, d < rp.length →
      (((request cp ((split A rp cp).map remColList) d r).map
          (fun c => (c - dom cp r, colEntries adj A rp cp d c))).map
        (fun a : Nat × Row K => if a.1 = j then rowGet a.2 g else 0)).sum
        = rowGet (colEntries adj A rp cp d (dom cp r + j)) g := by
    intro d hd
    rw [List.map_map]
    have e1 : (request cp ((split A rp cp).map remColList) d r).map
          ((fun a : Nat × Row K => if a.1 = j then rowGet a.2 g else 0) ∘
            fun c => (c - dom cp r, colEntries adj A rp cp d c))
        = (request cp ((split A rp cp).map remColList) d r).map
          (fun c => if c = dom cp r + j then rowGet (colEntries adj A rp cp d c) g else 0) := by
      apply List.map_congr_left
      intro c hc
      have hown := request_owner cp _ hok d r c hc
      have : (c - dom cp r = j) ↔ (c = dom cp r + j) := by have := hown.2.1; omega
      simp only [Function.comp, this]
    have hnd : (request cp ((split A rp cp).map remColList) d r).Nodup := by
      unfold request remColsOf; exact (sortUnique_nodup _).filter _
    rw [e1, sum_nodup_ite _ hnd]
    split
    · rfl
    · next hn => rw [colEntries_nil adj A rp cp h d r _ hd hgj hn]; rfl
  have e2 : ((List.range cp.length).filter (fun d => (request cp ((split A rp cp).map remColList) d r).length ≠ 0)).map
        (fun d => (((request cp ((split A rp cp).map remColList) d r).map
            (fun c => (c - dom cp r, colEntries adj A rp cp d c))).map
          (fun a : Nat × Row K => if a.1 = j then rowGet a.2 g else 0)).sum)
      = ((List.range cp.length).filter (fun d => (request cp ((split A rp cp).map remColList) d r).length ≠ 0)).map
        (fun d => rowGet (colEntries adj A rp cp d (dom cp r + j)) g) := by
    apply List.map_congr_left
    intro d hd
    exact hper d (by rw [h.len]; exact List.mem_range.1 (List.mem_filter.1 hd).1)
  rw [e2, sum_filter_of_zero, h.len]
  intro d hd hp
  have hlen : (request cp ((split A rp cp).map remColList) d r).length = 0 := by simpa using hp
  rw [colEntries_nil adj A rp cp h d r _ (by rw [h.len]; exact List.mem_range.1 hd) hgj
    (by rw [List.length_eq_zero_iff.1 hlen]; simp)]
  rfl

theorem transpose_row_get (adj : K →+ K) (M : CRS K) (c i : Nat) (hc : c < M.ncols) :
    rowGet ((transpose adj M).row c) i = if i < M.nrows then adj (M.get i c) else 0 := by
  rw [transpose_row adj M c hc, rowGet_flatMap]
  have e : (List.range M.nrows).map (fun a => rowGet (trContrib adj M c a) i)
      = (List.range M.nrows).map (fun a => if a = i then adj (M.get a c) else 0) := by
    apply List.map_congr_left
    intro a _
    exact rowGet_trContrib adj M c a i
  rw [e, sum_range_ite']

/-- `assemble_row` under the two facts it needs -/
theorem assemble_row_of (Ds : List (DistMat K)) (rp cp : List Nat) (hlen : Ds.length = rp.length)
    (hloc : ∀ r, r < rp.length → (Ds.getD r default).loc.nrows = rp.getD r 0) (r i : Nat) (hr : r < rp.length)
    (hi : i < rp.getD r 0) :
    (assemble Ds cp).row (dom rp r + i)
      = globalRow (dom cp r) ((Ds.getD r default).loc.row i) ((Ds.getD r default).rem.row i) := by
  unfold assemble CRS.row
  simp only
  rw [toArray_getD, zipIdx_eq_map_range, List.flatMap_map, hlen]
  have hl : ∀ r', r' < rp.length → (assembleRank cp r' (Ds.getD r' default)).length = rp.getD r' 0 := by
    intro r' hr'; unfold assembleRank; rw [List.length_map, List.length_range, hloc r' hr']
  rw [(flatMap_getD_chunk (fun r' => assembleRank cp r' (Ds.getD r' default)) rp [] hl rp.length (Nat.le_refl _)).2 r hr i hi]
  unfold assembleRank
  rw [getD_map_range _ _ _ _ (by rw [hloc r hr]; exact hi)]
  rfl

theorem locPart_col_lt (cb ce : Nat) (row : Row K) : ∀ cv ∈ locPart cb ce row, cv.1 < ce - cb := by
  intro cv hcv
  unfold locPart at hcv
  obtain ⟨a, ha, rfl⟩ := List.mem_map.1 hcv
  have hin := (List.mem_filter.1 ha).2
  unfold inRange at hin
  simp only [Bool.and_eq_true, decide_eq_true_eq] at hin
  simp only; omega

/-- the remote parts of all ranks at (global row `g`, global column `c`): only the owner of row `g` contributes -/
theorem sum_colEntries_get (adj : K →+ K) (A : CRS K) (rp cp : List Nat) (c g d0 : Nat) (hown : IsOwner rp g d0) :
    ((List.range rp.length).map (fun d => rowGet (colEntries adj A rp cp d c) g)).sum
      = adj (rowGet ((splitRank A rp cp d0).rem.row (g - dom rp d0)) c) := by
  have e : (List.range rp.length).map (fun d => rowGet (colEntries adj A rp cp d c) g)
      = (List.range rp.length).map (fun d => if d = d0 then
          adj (rowGet ((splitRank A rp cp d).rem.row (g - dom rp d)) c) else 0) := by
    apply List.map_congr_left
    intro d hd
    have hd' := List.mem_range.1 hd
    rw [colEntries_get]
    by_cases e : d = d0
    · subst e
      have h1 := hown.2.1; have h2 := hown.2.2
      rw [dom_succ rp d hd'] at h2
      rw [if_pos ⟨h1, by omega⟩, if_pos rfl]
    · rw [if_neg e, if_neg]
      rintro ⟨h1, h2⟩
      exact e (owner_unique ⟨hd', h1, by rw [dom_succ rp d hd']; omega⟩ hown)
  rw [e, sum_range_ite', if_pos hown.1]

/-- **the gathered distributed transpose denotes the (adjoint) transpose of the assembled matrix** -/
theorem dist_transpose_get (adj : K →+ K) (A : CRS K) (rp cp : List Nat) (h : PartOK A rp cp) (gi gj : Nat)
    (hi : gi < rp.sum) (hj : gj < cp.sum) :
    (assemble (distTranspose adj (split A rp cp) rp cp) rp).get gj gi = adj (A.get gi gj) := by
  obtain ⟨r, hr⟩ := exists_owner cp gj hj
  obtain ⟨d0, hd0⟩ := exists_owner rp gi hi
  have hrr : r < rp.length := by rw [h.len]; exact hr.1
  have hwc : dom cp (r + 1) = dom cp r + cp.getD r 0 := dom_succ cp r hr.1
  have hwr : dom rp (d0 + 1) = dom rp d0 + rp.getD d0 0 := dom_succ rp d0 hd0.1
  have hjl : gj - dom cp r < cp.getD r 0 := by have := hr.2.1; have := hr.2.2; omega
  have hil : gi - dom rp d0 < rp.getD d0 0 := by have := hd0.2.1; have := hd0.2.2; omega
  have hlenT : (distTranspose adj (split A rp cp) rp cp).length = cp.length := by
    unfold distTranspose; simp [split_length, h.len]
  have hgetT : ∀ q, q < rp.length → (distTranspose adj (split A rp cp) rp cp).getD q default
      = transposeRank adj rp (commPatterns cp ((split A rp cp).map remColList)) (split A rp cp) q := by
    intro q hq
    unfold distTranspose patternsOf
    simp only
    rw [split_length]
    exact getD_map_range _ _ _ _ hq
  have hlocT : ∀ q, q < cp.length → ((distTranspose adj (split A rp cp) rp cp).getD q default).loc.nrows = cp.getD q 0 := by
    intro q hq
    have hq' : q < rp.length := by rw [h.len]; exact hq
    rw [hgetT q hq']
    unfold transposeRank
    simp only
    rw [transpose_nrows, split_getD A rp cp q hq']
    unfold splitRank; simp only; rw [dom_succ cp q hq]; omega
  -- the assembled row
  have hrow := assemble_row_of (distTranspose adj (split A rp cp) rp cp) cp rp hlenT hlocT r (gj - dom cp r) hr.1 hjl
  rw [show dom cp r + (gj - dom cp r) = gj by have := hr.2.1; omega] at hrow
  unfold CRS.get
  rw [hrow, hgetT r hrr]
  unfold globalRow
  rw [rowGet_append, rowGet_map_shift,
    transposeRank_rem_get adj A rp cp h r (gj - dom cp r) gi hrr hjl,
    show dom cp r + (gj - dom cp r) = gj by have := hr.2.1; omega,
    sum_colEntries_get adj A rp cp gj gi d0 hd0]
  -- the local part
  have hlocrow : (transposeRank adj rp (commPatterns cp ((split A rp cp).map remColList)) (split A rp cp) r).loc
      = transpose adj (splitRank A rp cp r).loc := by
    unfold transposeRank; simp only; rw [split_getD A rp cp r hrr]
  rw [hlocrow]
  have hncols : (splitRank A rp cp r).loc.ncols = cp.getD r 0 := by
    unfold splitRank; simp only; rw [hwc]; omega
  have hnrows : (splitRank A rp cp r).loc.nrows = rp.getD r 0 := by
    rw [(splitRank_nrows A rp cp r).1, dom_succ rp r hrr]; omega
  rw [transpose_row_get adj _ _ _ (by rw [hncols]; exact hjl), hnrows]
  -- the serial entry, split by the parts of the owner of row `gi`
  have hA : rowGet (A.row gi) gj
      = rowGet ((locPart (dom cp d0) (dom cp (d0 + 1)) (A.row gi)).map (fun cv => (cv.1 + dom cp d0, cv.2))) gj
        + rowGet (remPart (dom cp d0) (dom cp (d0 + 1)) (A.row gi)) gj := by
    rw [← rowGet_append]; exact (rowGet_globalRow_split _ _ _ gj).symm
  have hd0c : d0 < cp.length := by rw [← h.len]; exact hd0.1
  have hremrow : (splitRank A rp cp d0).rem.row (gi - dom rp d0)
      = remPart (dom cp d0) (dom cp (d0 + 1)) (A.row gi) := by
    rw [splitRank_rem_row A rp cp d0 _ (by rw [hwr]; omega), show dom rp d0 + (gi - dom rp d0) = gi by have := hd0.2.1; omega]
  rw [hremrow, hA, map_add, rowGet_map_shift]
  congr 1
  by_cases e : d0 = r
  · subst e
    have h1 := hd0.2.1; have h2 := hd0.2.2
    rw [if_pos h1, if_pos (by omega), if_pos hr.2.1]
    unfold CRS.get
    rw [splitRank_loc_row A rp cp d0 _ (by rw [hwr]; omega),
      show dom rp d0 + (gi - dom rp d0) = gi by omega]
  · -- row `gi` is not owned by `r`, column `gj` is not owned by `d0`: both local contributions vanish
    have hz1 : (if dom rp r ≤ gi then (if gi - dom rp r < rp.getD r 0 then
        adj ((splitRank A rp cp r).loc.get (gi - dom rp r) (gj - dom cp r)) else 0) else 0) = 0 := by
      by_cases hle : dom rp r ≤ gi
      · rw [if_pos hle, if_neg]
        intro hlt
        exact e (owner_unique hd0 ⟨hrr, hle, by rw [dom_succ rp r hrr]; omega⟩)
      · rw [if_neg hle]
    have hz2 : (if dom cp d0 ≤ gj then rowGet (locPart (dom cp d0) (dom cp (d0 + 1)) (A.row gi)) (gj - dom cp d0) else 0)
        = 0 := by
      by_cases hle : dom cp d0 ≤ gj
      · rw [if_pos hle]
        apply rowGet_eq_zero_of_not_mem
        intro cv hcv hc
        have := locPart_col_lt _ _ _ cv hcv
        rw [dom_succ cp d0 hd0c] at this
        exact e (owner_unique ⟨hd0c, hle, by rw [dom_succ cp d0 hd0c]; omega⟩ hr)
      · rw [if_neg hle]
    rw [hz1, hz2, map_zero]

end denote

end Amgcl.Dist
