import Amgcl.Proofs.CPRDrsClosed
import Amgcl.Proofs.CPRApp
import Mathlib.Algebra.Order.Ring.Defs
import Mathlib.Algebra.Order.BigOperators.Group.Finset
/-!
`cpr_drs`, scalar input with strictly increasing columns (C18): the weights stored in `Fpp` are the dynamic row-sum
criteria evaluated on the matrix entries (`drsWeight`), `App` is the weighting of `A` by them, `partial_update` with the
matrix of the constructor is the identity on the object.
-/
set_option linter.unusedSectionVars false
namespace Amgcl.CPRDrs
open Amgcl Amgcl.CPR Finset

section spec
variable {K : Type} [Field K] [LinearOrder K]

/-- `a_dia[i]` in closed form: the entry of scalar row `i` of block row `ip` in the pressure column of the diagonal block -/
def wDia (A : CRS K) (B ip i : Nat) : K := A.get (ip * B + i) (ip * B)
/-- `a_off[i]`: the absolute pressure-column entries of scalar row `i` in the other active block columns -/
def wOff (A : CRS K) (B q ip i : Nat) : K := ∑ jp ∈ range q, if jp ≠ ip then absK (A.get (ip * B + i) (jp * B)) else 0
/-- `a_top[c]`: the absolute entries of the FIRST scalar row of the block row in component `c` of every active block column -/
def wTop (A : CRS K) (B q ip c : Nat) : K := ∑ jp ∈ range q, absK (A.get (ip * B) (jp * B + c))

/-- the dynamic row-sum weight of scalar row `i` of block row `ip` (`q` active block columns) -/
def drsWeight (p : Params K) (A : CRS K) (q ip i : Nat) : K :=
  if 0 < i ∧ (wDia A p.B ip i < p.epsDD * wOff A p.B q ip i ∨ wTop A p.B q ip i < p.epsPS * absK (wDia A p.B ip 0)) then 0
  else if p.weights.isEmpty then 1 else p.weights.getD (ip * p.B + i) 0

theorem blockRows_getD (A : CRS K) (B ip j : Nat) (hj : j < B) : (blockRows A B ip).getD j [] = A.row (ip * B + j) := by
  simp [blockRows, List.getD_eq_getElem?_getD, hj]

theorem blockRows_length (A : CRS K) (B ip : Nat) : (blockRows A B ip).length = B := by simp [blockRows]

/-- the accumulators at the end of the walk over block row `ip` -/
theorem passLoop_closed (A : CRS K) (hs : A.sortedb = true) (B q ip : Nat) (hB : 0 < B) (g : Bool) :
    Inv B q ip (blockRows A B ip) q
      (passLoop B (q * B) ip g (remaining (blockRows A B ip) + 1)
        { ks := blockRows A B ip, cnt := 0, acc := Acc.zero B }).acc := by
  have := passLoop_inv B (q * B) ip q hB rfl g (blockRows A B ip) (by rw [blockRows_length]) (blockRows_sorted A hs B ip)
    (remaining (blockRows A B ip) + 1) 0 0 (Acc.zero B) (Nat.zero_le _) (inv_zero B q ip _)
    (by rw [Nat.zero_mul, map_geC_zero]; omega)
  rw [Nat.zero_mul, map_geC_zero] at this
  exact this

/-- **the weights computed by `first_scalar_pass` are the dynamic row-sum criteria on the matrix entries** -/
theorem passRow0_weight (A : CRS K) (hs : A.sortedb = true) (p : Params K) (q : Nat) (hB : 0 < p.B) (ip : Nat)
    (hip : ip < q) (g : Bool) (i : Nat) (hi : i < p.B) :
    (passRow0 A p (q * p.B) ip g).w.getD i 0 = drsWeight p A q ip i := by
  rw [passRow0_w_getD A p _ ip g i hi]
  have inv := passLoop_closed A hs p.B q ip hB g
  set a := (passLoop p.B (q * p.B) ip g (remaining (blockRows A p.B ip) + 1)
    { ks := blockRows A p.B ip, cnt := 0, acc := Acc.zero p.B }).acc with ha
  have hR : ∀ j col, j < p.B → R (blockRows A p.B ip) j col = A.get (ip * p.B + j) col := by
    intro j col hj
    unfold R CRS.get
    rw [blockRows_getD A p.B ip j hj]
  have hdia : ∀ j, j < p.B → a.dia.getD j 0 = wDia A p.B ip j := by
    intro j hj
    rw [inv.dia j hj, if_pos hip, hR j _ hj]; rfl
  have hoff : a.off.getD i 0 = wOff A p.B q ip i := by
    rw [inv.off i hi]
    unfold wOff
    apply Finset.sum_congr rfl
    intro jp hjp
    have := Finset.mem_range.1 hjp
    rw [hR i _ hi]
    by_cases h : jp = ip <;> simp [h, this]
  have htop : a.top.getD i 0 = wTop A p.B q ip i := by
    rw [inv.top i hi]
    unfold wTop
    apply Finset.sum_congr rfl
    intro jp hjp
    have := Finset.mem_range.1 hjp
    rw [hR 0 _ hB, Nat.add_zero, if_pos this]
  unfold delta drsWeight
  simp only
  rw [hdia i hi, hdia 0 hB, hoff, htop, one_mul]
  by_cases h0 : 0 < i
  · by_cases h1 : wDia A p.B ip i < p.epsDD * wOff A p.B q ip i
    · by_cases h2 : wTop A p.B q ip i < p.epsPS * absK (wDia A p.B ip 0) <;> simp [h0, h1, h2]
    · by_cases h2 : wTop A p.B q ip i < p.epsPS * absK (wDia A p.B ip 0) <;> simp [h0, h1, h2]
  · simp [h0]

end spec

section state
variable {K : Type} [Field K] [LinearOrder K]

theorem fppOf_get (B np nc : Nat) (ws : Nat → Array K) (ip i : Nat) (hip : ip < np) (hi : i < B) :
    (fppOf B np nc ws).get ip (ip * B + i) = (ws ip).getD i 0 := by
  have hrow : (fppOf B np nc ws).row ip = (List.range B).map (fun t => (ip * B + t, (ws ip).getD t 0)) := by
    unfold fppOf CRS.row
    simp only
    rw [getD_ofFn_lt _ _ _ hip]
  unfold CRS.get
  rw [hrow]
  have : ∀ (l : List Nat), l.Nodup → i ∈ l →
      rowGet (l.map (fun t => (ip * B + t, (ws ip).getD t 0))) (ip * B + i) = (ws ip).getD i 0 := by
    intro l
    induction l with
    | nil => intro _ h; cases h
    | cons a t ih =>
      intro hnd hmem
      rw [List.map_cons, rowGet_cons']
      have hnd' := List.nodup_cons.1 hnd
      by_cases hai : a = i
      · subst hai
        rw [if_pos rfl, rowGet_eq_zero_of_not_mem, add_zero]
        intro cv hcv
        obtain ⟨t', ht', rfl⟩ := List.mem_map.1 hcv
        intro he
        have : t' = a := by simpa using he
        exact hnd'.1 (this ▸ ht')
      · rw [if_neg (by intro he; exact hai (by omega)), zero_add]
        exact ih hnd'.2 (by rcases List.mem_cons.1 hmem with h | h; exact absurd h.symm hai; exact h)
  exact this (List.range B) List.nodup_range (List.mem_range.2 hi)

/-- the rows of the first pass, as the map of the per-row function -/
theorem scalar_rs (A : CRS K) (p : Params K) (g : Bool) :
    (firstScalarPass A p A.nrows g (Acc.zero p.B)).1
      = (List.range ((if p.activeRows = 0 then A.nrows else p.activeRows) / p.B)).map
          (fun ip => passRow0 A p (if p.activeRows = 0 then A.nrows else p.activeRows) ip g) :=
  firstScalarPass_eq_map A p A.nrows g (Acc.zero p.B) (Acc.zero_sized p.B)

/-- the weights of block row `ip` are what `Fpp` stores in its row `ip` -/
theorem scalarState_Fpp_get (A : CRS K) (p : Params K) (q : Nat) (hB : 0 < p.B)
    (hN : (if p.activeRows = 0 then A.nrows else p.activeRows) = q * p.B) (ip : Nat) (hip : ip < q) (i : Nat)
    (hi : i < p.B) :
    (scalarState A p).Fpp.get ip (ip * p.B + i) = (passRow0 A p (q * p.B) ip true).w.getD i 0 := by
  have hnp : (if p.activeRows = 0 then A.nrows else p.activeRows) / p.B = q := by rw [hN]; exact Nat.mul_div_cancel _ hB
  unfold scalarState
  simp only
  rw [fppOf_get _ _ _ _ ip i (by rw [hnp]; exact hip) hi, scalar_rs, rowW_map _ _ _ (by rw [hnp]; exact hip), hN]

/-- row `ip` of the pressure matrix is the second pass run with the weights of the first -/
theorem scalarState_App_row (A : CRS K) (p : Params K) (ip : Nat)
    (hip : ip < (if p.activeRows = 0 then A.nrows else p.activeRows) / p.B) :
    (scalarState A p).App.row ip = appRow A p.B (if p.activeRows = 0 then A.nrows else p.activeRows) ip
      (passRow0 A p (if p.activeRows = 0 then A.nrows else p.activeRows) ip true).w := by
  unfold scalarState CRS.row
  simp only
  rw [getD_ofFn_lt _ _ _ hip]
  simp only
  rw [scalar_rs, rowW_map _ _ _ hip]

/-- **`App(ip, jp) = Σ_i w_i · A(ip·B + i, jp·B)`** with `w` the row of `Fpp` -/
theorem scalarState_App_get (A : CRS K) (hs : A.sortedb = true) (p : Params K) (q : Nat) (hB : 0 < p.B)
    (hN : (if p.activeRows = 0 then A.nrows else p.activeRows) = q * p.B) (ip jp : Nat) (hip : ip < q) (hjp : jp < q) :
    (scalarState A p).App.get ip jp
      = ∑ i ∈ range p.B, (scalarState A p).Fpp.get ip (ip * p.B + i) * A.get (ip * p.B + i) (jp * p.B) := by
  have hnp : (if p.activeRows = 0 then A.nrows else p.activeRows) / p.B = q := by rw [hN]; exact Nat.mul_div_cancel _ hB
  set w := (passRow0 A p (q * p.B) ip true).w with hw
  have hApp : (scalarState A p).App.row ip = appRow A p.B (q * p.B) ip w := by
    rw [scalarState_App_row A p ip (by rw [hnp]; exact hip), hN]
  unfold CRS.get
  rw [hApp]
  unfold appRow
  have hsr := blockRows_sorted A hs p.B ip
  have := appLoop_get p.B (q * p.B) hB q rfl w (blockRows A p.B ip) hsr jp hjp (remaining (blockRows A p.B ip) + 1) 0 []
    (by rw [map_geC_zero]; omega)
  rw [map_geC_zero] at this
  rw [this]
  simp only [rowGet_nil', zero_add, geC_zero]
  have hz : (blockRows A p.B ip).zipIdx = (List.range p.B).map (fun i => (A.row (ip * p.B + i), i)) := by
    unfold blockRows
    apply List.ext_getElem
    · simp
    · intro k h1 h2
      simp
  rw [hz, List.map_map]
  have hsum : ∀ (g : Nat → K) (m : Nat), ((List.range m).map g).sum = ∑ i ∈ range m, g i := by
    intro g m
    induction m with
    | zero => simp
    | succ k ih => rw [List.range_succ, List.map_append, List.sum_append, ih, Finset.sum_range_succ]; simp
  rw [hsum]
  apply Finset.sum_congr rfl
  intro i hi
  have hi' := Finset.mem_range.1 hi
  show w.getD i 0 * rowGet (A.row (ip * p.B + i)) (jp * p.B) = _
  have hg := scalarState_Fpp_get A p q hB hN ip hip i hi'
  unfold CRS.get at hg
  rw [hg]

theorem scatterOf_wf (B nr np : Nat) : (scatterOf B nr np : CRS K).WF := by
  intro r hr cv hcv
  unfold scatterOf at hr
  simp only [Array.toList_ofFn, List.mem_ofFn] at hr
  obtain ⟨i, rfl⟩ := hr
  split_ifs at hcv with h
  · simp only [List.mem_singleton] at hcv
    subst hcv
    exact h.2
  · cases hcv

theorem fppOf_congr (B np nc : Nat) (ws ws' : Nat → Array K) (h : ∀ ip, ip < np → ws ip = ws' ip) :
    fppOf B np nc ws = fppOf B np nc ws' := by
  unfold fppOf
  congr 1
  congr 1
  funext ip
  rw [h ip.val ip.isLt]

/-- `update_transfer` on the matrix of the constructor recomputes the constructor's `Fpp`: **partial update with an
unchanged matrix is the identity on the object** -/
theorem partialUpdateScalar_same (A : CRS K) (hs : A.sortedb = true) (p : Params K) (upd : Bool) :
    partialUpdateScalar (scalarState A p) A p upd = scalarState A p := by
  unfold partialUpdateScalar
  rw [K2.sortRows_of_sorted A hs]
  cases upd with
  | false => rfl
  | true =>
    simp only [if_true]
    have hn : (scalarState A p).n = A.nrows := rfl
    rw [hn]
    have hF : fppOf p.B ((if p.activeRows = 0 then A.nrows else p.activeRows) / p.B) A.nrows
          (rowW (firstScalarPass A p A.nrows false (Acc.zero p.B)).1) = (scalarState A p).Fpp := by
      unfold scalarState
      simp only
      apply fppOf_congr
      intro ip hip
      rw [scalar_rs, scalar_rs, rowW_map _ _ _ hip, rowW_map _ _ _ hip]
      exact (passRow0_mode A p _ ip).symm
    rw [hF]
    rfl

end state

end Amgcl.CPRDrs
