import Amgcl.Proofs.SchedLevels
import Amgcl.Proofs.SchedTasks
/-!
Execution semantics: every interleaving is a permutation of the task rows; a permutation of a sequence of
updates that keeps the relative order of every non-commuting pair computes the same thing; hence every
execution admitted by a skeleton with the level barrier equals the serial loop, provided the level function
respects the dependencies.  Core Lean only.
-/
namespace Amgcl.Sched

/-! ### interleavings -/

theorem flatten_eq_nil_of_all_nil {α : Type} (ls : List (List α)) (h : ∀ l ∈ ls, l = []) : ls.flatten = [] := by
  induction ls with
  | nil => rfl
  | cons a t ih =>
    rw [List.flatten_cons, h a List.mem_cons_self, ih (fun l hl => h l (List.mem_cons_of_mem _ hl))]
    rfl

theorem Interleave.perm {α : Type} {ls : List (List α)} {σ : List α} (h : Interleave ls σ) : σ.Perm ls.flatten := by
  induction h with
  | done hall => rw [flatten_eq_nil_of_all_nil _ hall]
  | @step pre post l a σ _ ih =>
    simp only [List.flatten_append, List.flatten_cons] at ih ⊢
    have : (pre.flatten ++ ((a :: l) ++ post.flatten)) = pre.flatten ++ a :: (l ++ post.flatten) := by simp
    rw [this]
    exact (List.Perm.cons a ih).trans List.perm_middle.symm

/-! ### reordering commuting updates -/
section trace
variable {S ι : Type}

theorem foldl_comm_front (upd : S → ι → S) (a : ι) (pre : List ι)
    (hc : ∀ b ∈ pre, ∀ s, upd (upd s a) b = upd (upd s b) a) (post : List ι) (s : S) :
    (pre ++ a :: post).foldl upd s = (a :: (pre ++ post)).foldl upd s := by
  induction pre generalizing s with
  | nil => rfl
  | cons b t ih =>
    simp only [List.cons_append, List.foldl_cons]
    rw [ih (fun c hc' => hc c (List.mem_cons_of_mem _ hc'))]
    simp only [List.foldl_cons]
    rw [hc b List.mem_cons_self]

/-- If `σ` is a permutation of `τ`, and in both lists no element `a` stands before an element `b` that must
precede it (`MP b a`), and any two elements neither of which must precede the other commute, then running the
updates in the order `σ` or in the order `τ` gives the same state. -/
theorem foldl_eq_of_perm_of_commute (upd : S → ι → S) (MP : ι → ι → Prop) (σ τ : List ι) (hp : σ.Perm τ)
    (hσ : σ.Pairwise (fun a b => ¬ MP b a)) (hτ : τ.Pairwise (fun a b => ¬ MP b a))
    (hc : ∀ a b, a ∈ τ → b ∈ τ → ¬ MP a b → ¬ MP b a → ∀ s, upd (upd s a) b = upd (upd s b) a) (s : S) :
    σ.foldl upd s = τ.foldl upd s := by
  induction τ generalizing σ s with
  | nil => rw [List.perm_nil.mp hp]
  | cons a τ' ih =>
    have ha : a ∈ σ := hp.symm.subset List.mem_cons_self
    obtain ⟨pre, post, rfl⟩ := List.append_of_mem ha
    have hp' : (pre ++ post).Perm τ' := (List.perm_middle.symm.trans hp).cons_inv
    obtain ⟨hτa, hτ'⟩ := List.pairwise_cons.mp hτ
    -- `a` commutes with everything in front of it in `σ`
    have hcomm : ∀ b ∈ pre, ∀ s, upd (upd s a) b = upd (upd s b) a := by
      intro b hb
      have hbτ' : b ∈ τ' := hp'.subset (List.mem_append_left _ hb)
      have h1 : ¬ MP a b := by
        have := List.pairwise_append.mp hσ
        exact this.2.2 b hb a List.mem_cons_self
      have h2 : ¬ MP b a := hτa b hbτ'
      exact hc a b List.mem_cons_self (List.mem_cons_of_mem _ hbτ') h1 h2
    rw [foldl_comm_front upd a pre hcomm post s]
    simp only [List.foldl_cons]
    apply ih
    · exact hp'
    · exact hσ.sublist ((List.Sublist.refl pre).append (List.sublist_cons_self a post))
    · exact hτ'
    · intro x y hx hy; exact hc x y (List.mem_cons_of_mem _ hx) (List.mem_cons_of_mem _ hy)

end trace

/-! ### level-wise executions -/

/-- a level-wise execution is a permutation of the tasks of its levels -/
theorem LevelwiseExec.perm {tk : List (List (List Nat))} {levs σ : List Nat} (h : LevelwiseExec tk levs σ) :
    σ.Perm (levs.flatMap fun lev => (levelTasks tk lev).flatten) := by
  induction h with
  | nil => simp
  | cons hi _ ih => rw [List.flatMap_cons]; exact hi.perm.append ih

/-- in a level-wise execution over increasing levels, rows appear in the order of their levels -/
theorem LevelwiseExec.pairwise_level {tk : List (List (List Nat))} {levs σ : List Nat} (h : LevelwiseExec tk levs σ)
    (lvl : Nat → Nat) (hlvl : ∀ lev ∈ levs, ∀ i ∈ (levelTasks tk lev).flatten, lvl i = lev)
    (hsorted : levs.Pairwise (· < ·)) : σ.Pairwise (fun a b => lvl a ≤ lvl b) := by
  induction h with
  | nil => exact List.Pairwise.nil
  | @cons lev levs block σ hi hrest ih =>
    obtain ⟨hlt, hs'⟩ := List.pairwise_cons.mp hsorted
    rw [List.pairwise_append]
    refine ⟨?_, ih (fun l hl => hlvl l (List.mem_cons_of_mem _ hl)) hs', ?_⟩
    · -- inside a block all rows have the level of the block
      have hall : ∀ a ∈ block, lvl a = lev := fun a ha => hlvl lev List.mem_cons_self a (hi.perm.subset ha)
      exact List.pairwise_of_forall_mem_list (fun a ha b hb => by rw [hall a ha, hall b hb]; exact Nat.le_refl _)
    · intro a ha b hb
      have h1 : lvl a = lev := hlvl lev List.mem_cons_self a (hi.perm.subset ha)
      have hb' := hrest.perm.subset hb
      obtain ⟨lev', hlev', hb''⟩ := List.mem_flatMap.mp hb'
      have h2 : lvl b = lev' := hlvl lev' (List.mem_cons_of_mem _ hlev') b hb''
      have := hlt lev' hlev'
      omega

/-! ### the serial order -/

theorem rowOrder_pairwise (fwd : Bool) (n : Nat) : (rowOrder fwd n).Pairwise (fun a b => before fwd a b = true) := by
  unfold rowOrder
  rw [List.pairwise_map]
  refine List.Pairwise.imp_of_mem ?_ (List.pairwise_lt_range (n := n))
  intro a b ha hb hab
  have ha' := List.mem_range.mp ha
  have hb' := List.mem_range.mp hb
  unfold before rowAt
  cases fwd <;> simp <;> omega

theorem mem_rowOrder (fwd : Bool) (n i : Nat) : i ∈ rowOrder fwd n ↔ i < n := by
  unfold rowOrder rowAt
  simp only [List.mem_map, List.mem_range]
  constructor
  · rintro ⟨k, hk, rfl⟩; cases fwd <;> simp <;> omega
  · intro hi
    cases fwd
    · exact ⟨n - 1 - i, by omega, by simp; omega⟩
    · exact ⟨i, hi, by simp⟩

theorem rowOrder_nodup (fwd : Bool) (n : Nat) : (rowOrder fwd n).Nodup :=
  (rowOrder_pairwise fwd n).imp (fun {a b} h => by
    intro hab; subst hab; unfold before at h; cases fwd <;> simp at h)

theorem rowOrder_perm (fwd : Bool) (n : Nat) : (rowOrder fwd n).Perm (List.range n) :=
  (List.perm_ext_iff_of_nodup (rowOrder_nodup fwd n) List.nodup_range).mpr
    (fun a => by rw [mem_rowOrder, List.mem_range])

theorem before_asymm (fwd : Bool) (a b : Nat) (h : before fwd a b = true) : before fwd b a = false := by
  unfold before at *; cases fwd <;> simp at * <;> omega

theorem before_total (fwd : Bool) (a b : Nat) (h : a ≠ b) : before fwd a b = true ∨ before fwd b a = true := by
  unfold before; cases fwd <;> simp <;> omega

/-! ### row updates that read a known set of unknowns -/

/-- `upd x i` overwrites `x[i]` with a value that depends only on `x[i]` and on `x[c]`, `c ∈ reads i` -/
structure LocalUpd {K : Type} [Zero K] (upd : Vec K → Nat → Vec K) (reads : Nat → List Nat) : Prop where
  val : ∃ f : Vec K → Nat → K, (∀ x i, upd x i = x.setIfInBounds i (f x i)) ∧
    (∀ x y i, x.getD i 0 = y.getD i 0 → (∀ c ∈ reads i, x.getD c 0 = y.getD c 0) → f x i = f y i)

theorem LocalUpd.commute {K : Type} [Zero K] {upd : Vec K → Nat → Vec K} {reads : Nat → List Nat}
    (h : LocalUpd upd reads) (i j : Nat) (hij : i ≠ j) (h1 : j ∉ reads i) (h2 : i ∉ reads j) (x : Vec K) :
    upd (upd x i) j = upd (upd x j) i := by
  obtain ⟨f, hf, hloc⟩ := h.val
  have e1 : f (x.setIfInBounds i (f x i)) j = f x j := by
    apply hloc
    · exact getD_set_ne _ _ _ _ _ (Ne.symm hij)
    · intro c hc; exact getD_set_ne _ _ _ _ _ (fun h => h2 (h ▸ hc))
  have e2 : f (x.setIfInBounds j (f x j)) i = f x i := by
    apply hloc
    · exact getD_set_ne _ _ _ _ _ hij
    · intro c hc; exact getD_set_ne _ _ _ _ _ (fun h => h1 (h ▸ hc))
  rw [hf x i, hf x j, hf _ j, hf _ i, e1, e2]
  exact Array.setIfInBounds_comm _ _ hij

/-- the dependency relation of the serial loop: `b` must be executed before `a` -/
def MustPrecede (reads : Nat → List Nat) (fwd : Bool) (b a : Nat) : Prop :=
  (b ∈ reads a ∨ a ∈ reads b) ∧ before fwd b a = true

/-- what the level function has to guarantee for the kernel whose row `i` reads `reads i` -/
def RespectsDeps (reads : Nat → List Nat) (fwd : Bool) (level : Array Nat) : Prop :=
  ∀ i, i < level.size → ∀ c ∈ reads i, c < level.size → c ≠ i →
    (before fwd c i = true → level.getD c 0 < level.getD i 0) ∧
    (before fwd i c = true → level.getD i 0 < level.getD c 0)

/-- **Every execution admitted by a skeleton with the level barrier equals the serial loop**, for every thread
count, for every carrier (no algebraic law is used: the results are identical bit for bit). -/
theorem exec_eq_serial {K : Type} [Zero K] (upd : Vec K → Nat → Vec K) (reads : Nat → List Nat)
    (hloc : LocalUpd upd reads) (fwd : Bool) (level : Array Nat) (hdep : RespectsDeps reads fwd level)
    (nt : Nat) (hnt : 0 < nt) (sk : Skeleton) (hsk : sk.levelBarrier = true)
    (σ : List Nat) (hσ : Exec sk (tasks level nt) (nlev level) σ) (x : Vec K) :
    σ.foldl upd x = (rowOrder fwd level.size).foldl upd x := by
  unfold Exec at hσ
  rw [if_pos hsk] at hσ
  -- σ is a permutation of `order level`, hence of the serial order
  have hflat : ∀ lev ∈ List.range (nlev level), (levelTasks (tasks level nt) lev).flatten = levelRows level lev :=
    fun lev hlev => levelTasks_flatten level nt hnt lev (List.mem_range.mp hlev)
  have hperm1 : σ.Perm (order level) := by
    refine hσ.perm.trans ?_
    unfold order
    have : (List.range (nlev level)).flatMap (fun lev => (levelTasks (tasks level nt) lev).flatten)
        = (List.range (nlev level)).flatMap (levelRows level) := by
      rw [List.flatMap_def, List.flatMap_def, List.map_congr_left hflat]
    rw [this]
  have hperm : σ.Perm (rowOrder fwd level.size) :=
    hperm1.trans ((order_perm level).trans (rowOrder_perm fwd level.size).symm)
  -- rows appear in σ in the order of their levels
  have hpw : σ.Pairwise (fun a b => level.getD a 0 ≤ level.getD b 0) := by
    apply hσ.pairwise_level (fun i => level.getD i 0)
    · intro lev hlev i hi
      rw [hflat lev hlev] at hi
      exact ((mem_levelRows level lev i).mp hi).2
    · exact List.pairwise_lt_range
  have hmemσ : ∀ a ∈ σ, a < level.size := fun a ha => (mem_order level a).mp (hperm1.subset ha)
  apply foldl_eq_of_perm_of_commute upd (MustPrecede reads fwd) σ _ hperm
  · -- no row stands in σ before a row that must precede it
    refine List.Pairwise.imp_of_mem ?_ hpw
    intro a b ha hb hle hmp
    obtain ⟨hconf, hbef⟩ := hmp
    have hne : b ≠ a := by intro h; subst h; unfold before at hbef; cases fwd <;> simp at hbef
    have hlt : level.getD b 0 < level.getD a 0 := by
      rcases hconf with h | h
      · exact (hdep a (hmemσ a ha) b h (hmemσ b hb) hne).1 hbef
      · exact (hdep b (hmemσ b hb) a h (hmemσ a ha) (Ne.symm hne)).2 hbef
    omega
  · refine List.Pairwise.imp ?_ (rowOrder_pairwise fwd level.size)
    intro a b hab hmp
    have := hmp.2
    rw [before_asymm fwd a b hab] at this
    exact absurd this (by simp)
  · intro a b _ _ hab hba s
    by_cases hne : a = b
    · subst hne; rfl
    · apply hloc.commute a b hne
      · intro h
        rcases before_total fwd a b hne with h' | h'
        · exact hab ⟨Or.inr h, h'⟩
        · exact hba ⟨Or.inl h, h'⟩
      · intro h
        rcases before_total fwd a b hne with h' | h'
        · exact hab ⟨Or.inl h, h'⟩
        · exact hba ⟨Or.inr h, h'⟩

end Amgcl.Sched
