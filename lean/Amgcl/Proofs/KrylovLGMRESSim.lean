import Amgcl.Proofs.KrylovGMRESRun
import Amgcl.Proofs.SolverLGMRESIndep
/-!
# LGMRES: the Krylov passes of a restart cycle ARE passes of GMRES(M+K) (C05)

`lgmres.hpp:278-284` feeds `z = vs[j]` into the Arnoldi process as long as `j < M − outer_v.size()` (`M` the member
`prm.M + prm.K`) and an augmentation vector afterwards.  Hence, on the work arrays `H, s, cs, sn, r, vs[]` that LGMRES
shares with GMRES (`lToGW`), the first `M − outer_v.size()` passes of EVERY restart cycle are statement by statement the
passes of `GMRES.step` (same `preconditioner::spmv`, same `hessStep`):

* `lsim`            the inner-loop state after `j ≤ MM − |outer_v|` passes, seen through `lToGIn`, IS
                    `innerPass side … (lToG st) j` of the GMRES model, and `ws[i]` points to `vs[i]` for `i < j`;
* `lupdate_sim`     with such pointers `LGMRES.update` is `GMRES.update` on the shared arrays (the stored augmentation
                    vector is invisible there), in particular the new `x` is the same;
* `lcycle_sim`      with an EMPTY buffer `outer_v` (first cycle of a call with `always_reset`, of a fresh object, or every
                    cycle when `K = 0`) the whole restart cycle of the model — its own pass count included — is the
                    restart cycle of GMRES with `M := prm.M + prm.K`: NOT of GMRES(`prm.M`);
* `lrun_K0`         LGMRES(M, 0) is GMRES(M): the calls return the same tuple, the same `x`, the same shared arrays;
* `lrun_one_cycle`  a call that starts with an empty buffer and makes at most one restart cycle returns what
                    GMRES(M+K) returns.
-/
set_option linter.unusedSectionVars false
set_option linter.unusedVariables false
namespace Amgcl.Krylov
open Amgcl Amgcl.Solver

section loops
variable {σ τ : Type}

/-- two loops over different state types from related states stay related -/
theorem loopN_rel2 (c1 : σ → Bool) (b1 : σ → σ) (c2 : τ → Bool) (b2 : τ → τ) (R : σ → τ → Prop)
    (hcond : ∀ s t, R s t → c1 s = c2 t) (hstep : ∀ s t, R s t → c1 s = true → R (b1 s) (b2 t)) :
    ∀ fuel s t, R s t → R (loopN c1 b1 fuel s) (loopN c2 b2 fuel t) := by
  intro fuel
  induction fuel with
  | zero => intro s t h; simpa [loopN] using h
  | succ n ih =>
    intro s t h
    unfold loopN
    rw [← hcond s t h]
    by_cases hc : c1 s = true
    · simp only [hc, if_true]; exact ih _ _ (hstep s t h hc)
    · simp only [hc]; exact h

end loops

section sim
variable {K : Type} [Field K] [DecidableEq K] [LT K] [DecidableLT K]

/-- the work arrays LGMRES shares with GMRES: `H, s, cs, sn`, `r`, `vs[]` -/
def lToGW (w : LGMRES.Work K) : GMRES.Work K := ⟨w.h, w.r, w.vs⟩

/-- an LGMRES outer-loop state seen as a GMRES outer-loop state -/
def lToG (st : LGMRES.St K) : GMRES.St K := ⟨st.iter, st.normR, st.x, lToGW st.w⟩

/-- an LGMRES inner-loop state seen as a GMRES inner-loop state -/
def lToGIn (t : LGMRES.In K) : GMRES.In K := ⟨t.j, t.iter, t.innerRes, lToGW t.w⟩

/-- the parameters of the GMRES object that the first cycle of LGMRES(M, K) imitates: restart length `M + K` -/
def lGPrm (prm : LGMRES.Params K) : GMRES.Params K :=
  { toParams := prm.toParams, M := prm.MM, pside := prm.pside }

/-- the inner-loop state of LGMRES after `j` passes of the body (inner product `stdIp`) -/
def lInnerPass (side : Side) (MM cap : ℕ) (sqrt : K → K) (A : CRS K) (P : Vec K → Vec K) (st : LGMRES.St K) (j : ℕ) :
    LGMRES.In K :=
  (LGMRES.step side MM cap stdIp sqrt A P)^[j] (LGMRES.cycleStart st)

theorem lInnerPass_succ (side : Side) (MM cap : ℕ) (sqrt : K → K) (A : CRS K) (P : Vec K → Vec K) (st : LGMRES.St K)
    (j : ℕ) : lInnerPass side MM cap sqrt A P st (j + 1)
      = LGMRES.step side MM cap stdIp sqrt A P (lInnerPass side MM cap sqrt A P st j) := by
  unfold lInnerPass; rw [Function.iterate_succ_apply']

theorem lInnerPass_j (side : Side) (MM cap : ℕ) (sqrt : K → K) (A : CRS K) (P : Vec K → Vec K) (st : LGMRES.St K)
    (j : ℕ) : (lInnerPass side MM cap sqrt A P st j).j = j := by
  induction j with
  | zero => rfl
  | succ j ih => rw [lInnerPass_succ, LGMRES.step_j, ih]

/-- the inner loop does not touch the circular buffer … -/
theorem lInnerPass_ov (side : Side) (MM cap : ℕ) (sqrt : K → K) (A : CRS K) (P : Vec K → Vec K) (st : LGMRES.St K)
    (j : ℕ) : (lInnerPass side MM cap sqrt A P st j).w.ov = st.w.ov := by
  induction j with
  | zero => rfl
  | succ j ih => rw [lInnerPass_succ, LGMRES.step_ov, ih]

/-- … nor the stored augmentation vectors -/
theorem lInnerPass_odata (side : Side) (MM cap : ℕ) (sqrt : K → K) (A : CRS K) (P : Vec K → Vec K) (st : LGMRES.St K)
    (j : ℕ) : (lInnerPass side MM cap sqrt A P st j).w.odata = st.w.odata := by
  induction j with
  | zero => rfl
  | succ j ih => rw [lInnerPass_succ, LGMRES.step_odata, ih]

/-- **a Krylov pass of LGMRES is a pass of GMRES** on the shared arrays, and `ws[j]` is made to point to `vs[j]` -/
theorem lstep_sim (side : Side) (MM cap : ℕ) (sqrt : K → K) (A : CRS K) (P : Vec K → Vec K) (t : LGMRES.In K)
    (hk : t.j < MM - t.w.ov.size) :
    lToGIn (LGMRES.step side MM cap stdIp sqrt A P t) = GMRES.step side stdIp sqrt A P (lToGIn t) ∧
    (LGMRES.step side MM cap stdIp sqrt A P t).w.wsp = setF t.w.wsp t.j (.vs t.j) := by
  have hp : LGMRES.pickZ MM cap t.w.ov t.j = .vs t.j := by
    unfold LGMRES.pickZ; rw [if_neg (by omega)]
  have hX : LGMRES.stepX side MM cap A P t = pspmv side P A (t.w.vs.get t.j) (t.w.vs.get (t.j + 1)) t.w.r := by
    unfold LGMRES.stepX; rw [hp]; rfl
  refine ⟨?_, ?_⟩
  · show (⟨t.j + 1, t.iter + 1, (hessStep stdIp sqrt t.w.vs t.j t.w.h (LGMRES.stepX side MM cap A P t).1).2.2,
        ⟨(hessStep stdIp sqrt t.w.vs t.j t.w.h (LGMRES.stepX side MM cap A P t).1).1,
         (LGMRES.stepX side MM cap A P t).2,
         setF t.w.vs (t.j + 1) (hessStep stdIp sqrt t.w.vs t.j t.w.h (LGMRES.stepX side MM cap A P t).1).2.1⟩⟩
        : GMRES.In K) = _
    rw [hX]; rfl
  · rw [LGMRES.step_wsp, hp]

/-- the simulation relation between an LGMRES and a GMRES inner-loop state of the cycle started in `st` -/
structure LSim (st : LGMRES.St K) (tL : LGMRES.In K) (tG : GMRES.In K) : Prop where
  g : lToGIn tL = tG
  wsp : ∀ i, i < tL.j → tL.w.wsp.get i = .vs i
  ov : tL.w.ov = st.w.ov
  odata : tL.w.odata = st.w.odata

theorem lsim_start (st : LGMRES.St K) : LSim st (LGMRES.cycleStart st) (GMRES.cycleStart (lToG st)) :=
  ⟨rfl, fun i hi => absurd hi (Nat.not_lt_zero i), rfl, rfl⟩

theorem lsim_step (side : Side) (MM cap : ℕ) (sqrt : K → K) (A : CRS K) (P : Vec K → Vec K) (st : LGMRES.St K)
    (tL : LGMRES.In K) (tG : GMRES.In K) (h : LSim st tL tG) (hk : tL.j < MM - st.w.ov.size) :
    LSim st (LGMRES.step side MM cap stdIp sqrt A P tL) (GMRES.step side stdIp sqrt A P tG) := by
  obtain ⟨h1, h2⟩ := lstep_sim side MM cap sqrt A P tL (by rw [h.ov]; exact hk)
  refine ⟨by rw [h1, h.g], ?_, by rw [LGMRES.step_ov, h.ov], by rw [LGMRES.step_odata, h.odata]⟩
  intro i hi
  rw [LGMRES.step_j] at hi
  rw [h2, setF_get]
  by_cases hij : i = tL.j
  · rw [if_pos hij, hij]
  · rw [if_neg hij]; exact h.wsp i (by omega)

/-- **the first `MM − |outer_v|` passes of every LGMRES cycle are the passes of GMRES** from the same state -/
theorem lsim (side : Side) (MM cap : ℕ) (sqrt : K → K) (A : CRS K) (P : Vec K → Vec K) (st : LGMRES.St K) (j : ℕ)
    (hj : j ≤ MM - st.w.ov.size) :
    LSim st (lInnerPass side MM cap sqrt A P st j) (innerPass side sqrt A P (lToG st) j) := by
  induction j with
  | zero => exact lsim_start st
  | succ j ih =>
    rw [lInnerPass_succ, innerPass_succ]
    exact lsim_step side MM cap sqrt A P st _ _ (ih (by omega)) (by rw [lInnerPass_j]; omega)

/-! ### `update` -/

/-- with `ws[i] = vs[i]` the correction is the GMRES one: `dx = Σ s_i vs[i]` -/
theorem lupdDx_sim (t : LGMRES.In K) (hw : ∀ i, i < t.j → t.w.wsp.get i = .vs i) :
    LGMRES.updDx t
      = linComb (combList t.j (backSubst t.j t.w.h.H t.w.h.s).get t.w.vs.get) 0 t.w.r := by
  unfold LGMRES.updDx LGMRES.updS
  rw [combList_congr t.j _ (backSubst t.j t.w.h.H t.w.h.s).get _ t.w.vs.get (fun _ _ => rfl)
    (fun i hi => by rw [hw i hi]; rfl)]

/-- **`LGMRES.update` is `GMRES.update` on the shared arrays** when the pointers `ws[0..j)` are `vs[0..j)` -/
theorem lupdate_sim (prm : LGMRES.Params K) (sqrt : K → K) (P : Vec K → Vec K) (st : LGMRES.St K) (t : LGMRES.In K)
    (hw : ∀ i, i < t.j → t.w.wsp.get i = .vs i) (hj : 1 ≤ t.j) :
    lToG (LGMRES.update prm stdIp sqrt P st t) = GMRES.update prm.pside P (lToG st) (lToGIn t) := by
  have hdx := lupdDx_sim t hw
  have h0 : t.w.wsp.get 0 = .vs 0 := hw 0 (by omega)
  have hfin : ∀ xw : Vec K × LGMRES.Work K,
      lToG (LGMRES.updFin prm.K' stdIp sqrt t.iter st.nOuter st.normR xw) = ⟨t.iter, st.normR, xw.1, lToGW xw.2⟩ := by
    intro xw
    unfold LGMRES.updFin
    split <;> rfl
  rw [LGMRES.update_eq, hfin]
  cases hs : prm.pside
  · show (⟨t.iter, st.normR, axpby 1 (LGMRES.updDx t) 1 st.x,
        ⟨{ t.w.h with s := LGMRES.updS t }, LGMRES.updDx t, t.w.vs⟩⟩ : GMRES.St K) = _
    rw [hdx]; rfl
  · show (⟨t.iter, st.normR, axpby 1 (P (LGMRES.updDx t)) 1 st.x,
        lToGW (LGMRES.store (LGMRES.updW2 t) (t.w.wsp.get 0) (P (LGMRES.updDx t)))⟩ : GMRES.St K) = _
    rw [h0]
    show (⟨t.iter, st.normR, axpby 1 (P (LGMRES.updDx t)) 1 st.x,
        ⟨{ t.w.h with s := LGMRES.updS t }, LGMRES.updDx t, setF t.w.vs 0 (P (LGMRES.updDx t))⟩⟩ : GMRES.St K) = _
    rw [hdx]; rfl

/-- `update` writes the buffer only when `K > 0` -/
theorem lupdate_ov_K0 (prm : LGMRES.Params K) (hK : prm.K' = 0) (sqrt : K → K) (P : Vec K → Vec K) (st : LGMRES.St K)
    (t : LGMRES.In K) (hw0 : t.w.wsp.get 0 = .vs 0) :
    (LGMRES.update prm stdIp sqrt P st t).w.ov = t.w.ov := by
  rw [LGMRES.update_eq]
  unfold LGMRES.updFin
  rw [if_neg (by rw [hK]; omega)]
  unfold LGMRES.updXW
  cases prm.pside
  · rfl
  · show (LGMRES.store (LGMRES.updW2 t) (t.w.wsp.get 0) _).ov = _
    rw [hw0]; rfl

/-! ### `head`, `stop` -/

theorem lhead_sim (side : Side) (sqrt : K → K) (A : CRS K) (P : Vec K → Vec K) (f : Vec K) (st : LGMRES.St K) :
    lToG (LGMRES.head side stdIp sqrt A P f st) = GMRES.head side stdIp sqrt A P f (lToG st) := by
  cases side <;> rfl

theorem lhead_ov (side : Side) (sqrt : K → K) (A : CRS K) (P : Vec K → Vec K) (f : Vec K) (st : LGMRES.St K) :
    (LGMRES.head side stdIp sqrt A P f st).w.ov = st.w.ov := by
  cases side <;> rfl

theorem lstop_sim (maxiter : ℕ) (epsT : K) (st : LGMRES.St K) :
    LGMRES.stop maxiter epsT st = GMRES.stop maxiter epsT (lToG st) := rfl

theorem lcont_sim (maxiter MM : ℕ) (epsT : K) (t : LGMRES.In K) :
    LGMRES.cont maxiter MM epsT t = GMRES.cont maxiter MM epsT (lToGIn t) := rfl

/-! ### a whole cycle with an empty buffer -/

/-- the inner `do … while` of LGMRES ends in `lInnerPass … j` for its own pass count `1 ≤ j` -/
theorem linner_eq (prm : LGMRES.Params K) (sqrt : K → K) (A : CRS K) (P : Vec K → Vec K) (epsT : K)
    (st : LGMRES.St K) :
    LGMRES.inner prm stdIp sqrt A P epsT st
      = lInnerPass prm.pside prm.MM prm.K' sqrt A P st (LGMRES.inner prm stdIp sqrt A P epsT st).j ∧
    1 ≤ (LGMRES.inner prm stdIp sqrt A P epsT st).j := by
  have hge : 1 ≤ (LGMRES.inner prm stdIp sqrt A P epsT st).j := by
    unfold LGMRES.inner
    apply doWhile_inv _ _ (fun t : LGMRES.In K => 1 ≤ t.j)
    · show 1 ≤ 0 + 1; omega
    · intro t ht _; rw [LGMRES.step_j]; omega
  refine ⟨?_, hge⟩
  have hit := loopN_iterate (LGMRES.cont prm.maxiter prm.MM epsT) (LGMRES.step prm.pside prm.MM prm.K' stdIp sqrt A P)
    LGMRES.In.j (LGMRES.step_j prm.pside prm.MM prm.K' stdIp sqrt A P) prm.MM
    (LGMRES.step prm.pside prm.MM prm.K' stdIp sqrt A P (LGMRES.cycleStart st))
  have h1 : (LGMRES.step prm.pside prm.MM prm.K' stdIp sqrt A P (LGMRES.cycleStart st)).j = 1 := rfl
  rw [h1] at hit
  have hdef : LGMRES.inner prm stdIp sqrt A P epsT st
      = loopN (LGMRES.cont prm.maxiter prm.MM epsT) (LGMRES.step prm.pside prm.MM prm.K' stdIp sqrt A P) prm.MM
          (LGMRES.step prm.pside prm.MM prm.K' stdIp sqrt A P (LGMRES.cycleStart st)) := rfl
  rw [← hdef] at hit
  obtain ⟨m, hm⟩ : ∃ m, (LGMRES.inner prm stdIp sqrt A P epsT st).j = m + 1 := ⟨_, (Nat.sub_add_cancel hge).symm⟩
  rw [hm, Nat.add_sub_cancel] at hit
  rw [hm]
  unfold lInnerPass
  rw [Function.iterate_succ_apply]
  exact hit

/-- the inner loop never makes more than `MM = prm.M + prm.K` passes (for `MM ≥ 1`) -/
theorem linner_j_le (prm : LGMRES.Params K) (hM : 1 ≤ prm.MM) (sqrt : K → K) (A : CRS K) (P : Vec K → Vec K) (epsT : K)
    (st : LGMRES.St K) : (LGMRES.inner prm stdIp sqrt A P epsT st).j ≤ prm.MM := by
  unfold LGMRES.inner
  apply doWhile_inv _ _ (fun t : LGMRES.In K => t.j ≤ prm.MM)
  · show 0 + 1 ≤ prm.MM; omega
  · intro t _ hc
    have := (LGMRES.cont_iter _ _ _ _ hc).2
    rw [LGMRES.step_j]; omega

/-- **with an empty buffer the inner loop of LGMRES(M, K) is the inner loop of GMRES(M+K)**, pass count included -/
theorem linner_sim (prm : LGMRES.Params K) (hM : 1 ≤ prm.MM) (sqrt : K → K) (A : CRS K) (P : Vec K → Vec K) (epsT : K)
    (st : LGMRES.St K) (hov : st.w.ov.size = 0) :
    LSim st (LGMRES.inner prm stdIp sqrt A P epsT st)
      (GMRES.inner (lGPrm prm) stdIp sqrt A P epsT (lToG st)) := by
  unfold LGMRES.inner GMRES.inner doWhile
  apply loopN_rel2 _ _ _ _ (LSim st)
  · intro s t h; rw [lcont_sim, h.g]; rfl
  · intro s t h hc
    have hj := (LGMRES.cont_iter _ _ _ _ hc).2
    exact lsim_step prm.pside prm.MM prm.K' sqrt A P st s t h (by rw [hov]; omega)
  · exact lsim_step prm.pside prm.MM prm.K' sqrt A P st _ _ (lsim_start st) (by rw [hov]; exact hM)


/-- **with an empty buffer a restart cycle of LGMRES(M, K) is a restart cycle of GMRES(M+K)** on the shared arrays -/
theorem lcycle_sim (prm : LGMRES.Params K) (hM : 1 ≤ prm.MM) (sqrt : K → K) (A : CRS K) (P : Vec K → Vec K) (epsT : K)
    (st : LGMRES.St K) (hov : st.w.ov.size = 0) :
    lToG (LGMRES.cycle prm stdIp sqrt A P epsT st) = GMRES.cycle (lGPrm prm) stdIp sqrt A P epsT (lToG st) := by
  have h := linner_sim prm hM sqrt A P epsT st hov
  have hge := (linner_eq prm sqrt A P epsT st).2
  unfold LGMRES.cycle GMRES.cycle
  rw [lupdate_sim prm sqrt P st _ h.wsp hge, h.g]; rfl

/-- with `K = 0` the buffer stays as it is -/
theorem lcycle_ov_K0 (prm : LGMRES.Params K) (hM : 1 ≤ prm.MM) (hK : prm.K' = 0) (sqrt : K → K) (A : CRS K)
    (P : Vec K → Vec K) (epsT : K) (st : LGMRES.St K) (hov : st.w.ov.size = 0) :
    (LGMRES.cycle prm stdIp sqrt A P epsT st).w.ov = st.w.ov := by
  have h := linner_sim prm hM sqrt A P epsT st hov
  have hge := (linner_eq prm sqrt A P epsT st).2
  unfold LGMRES.cycle
  rw [lupdate_ov_K0 prm hK sqrt P st _ (h.wsp 0 (by omega)), h.ov]

/-! ### whole calls -/

theorem lreset_toGW (prm : LGMRES.Params K) (ws : LGMRES.Work K) : lToGW (LGMRES.reset prm ws) = lToGW ws := by
  unfold LGMRES.reset; split <;> rfl

theorem linit_sim (prm : LGMRES.Params K) (sqrt : K → K) (A : CRS K) (P : Vec K → Vec K) (ws : LGMRES.Work K)
    (f x0 : Vec K) :
    lToG (LGMRES.init prm stdIp sqrt A P ws f x0) = GMRES.init (lGPrm prm) stdIp sqrt A P (lToGW ws) f x0 := by
  unfold LGMRES.init GMRES.init
  rw [lhead_sim]; rfl

theorem linit_ov (prm : LGMRES.Params K) (sqrt : K → K) (A : CRS K) (P : Vec K → Vec K) (ws : LGMRES.Work K)
    (f x0 : Vec K) : (LGMRES.init prm stdIp sqrt A P ws f x0).w.ov = ws.ov := by
  unfold LGMRES.init; rw [lhead_ov]

/-- **LGMRES(M, 0) is GMRES(M)**: the outer loops run in lockstep -/
theorem louter_sim_K0 (prm : LGMRES.Params K) (hM : 1 ≤ prm.MM) (hK : prm.K' = 0) (sqrt : K → K) (A : CRS K)
    (P : Vec K → Vec K) (f : Vec K) (epsT : K) (fuel : ℕ) (s : LGMRES.St K) (hov : s.w.ov.size = 0) :
    lToG (LGMRES.outer prm stdIp sqrt A P f epsT fuel s)
      = GMRES.outer (lGPrm prm) stdIp sqrt A P f epsT fuel (lToG s) := by
  have h := loopN_rel2 (fun s => !LGMRES.stop prm.maxiter epsT s)
    (fun s => LGMRES.head prm.pside stdIp sqrt A P f (LGMRES.cycle prm stdIp sqrt A P epsT s))
    (fun s => !GMRES.stop (lGPrm prm).maxiter epsT s)
    (fun s => GMRES.head (lGPrm prm).pside stdIp sqrt A P f (GMRES.cycle (lGPrm prm) stdIp sqrt A P epsT s))
    (fun (a : LGMRES.St K) (b : GMRES.St K) => lToG a = b ∧ a.w.ov.size = 0)
    (fun a b hab => by rw [lstop_sim, hab.1]; rfl)
    (fun a b hab _ => by
      refine ⟨?_, ?_⟩
      · rw [lhead_sim, lcycle_sim prm hM sqrt A P epsT a hab.2, hab.1]; rfl
      · rw [lhead_ov, lcycle_ov_K0 prm hM hK sqrt A P epsT a hab.2]; exact hab.2)
    fuel s (lToG s) ⟨rfl, hov⟩
  exact h.1

/-- **a call of LGMRES(M, 0) returns what the call of GMRES(M) on the shared arrays returns**: the same outcome tuple, the
same `x`, the same `H, s, cs, sn, r, vs[]` -/
theorem lrun_K0 (prm : LGMRES.Params K) (hM : 1 ≤ prm.MM) (hK : prm.K' = 0) (sqrt : K → K) (eps : K) (A : CRS K)
    (P : Vec K → Vec K) (ws : LGMRES.Work K) (f x0 : Vec K) (hov : (LGMRES.reset prm ws).ov.size = 0) :
    (LGMRES.run prm stdIp sqrt eps A P ws f x0).obs
        = (GMRES.run (lGPrm prm) stdIp sqrt eps A P (lToGW ws) f x0).obs ∧
    lToGW (LGMRES.run prm stdIp sqrt eps A P ws f x0).ws
        = (GMRES.run (lGPrm prm) stdIp sqrt eps A P (lToGW ws) f x0).ws := by
  cases hp : prologueA prm.nsSearch stdIp sqrt eps f with
  | trivial nf =>
    rw [LGMRES.run_trivial prm stdIp sqrt eps A P ws f x0 nf hp,
      GMRES.run_trivial (lGPrm prm) stdIp sqrt eps A P (lToGW ws) f x0 nf hp]
    exact ⟨rfl, lreset_toGW prm ws⟩
  | go nf =>
    rw [LGMRES.run_go prm stdIp sqrt eps A P ws f x0 nf hp,
      GMRES.run_go (lGPrm prm) stdIp sqrt eps A P (lToGW ws) f x0 nf hp]
    have hfin : lToG (LGMRES.final prm stdIp sqrt A P (LGMRES.reset prm ws) f x0 nf)
        = GMRES.final (lGPrm prm) stdIp sqrt A P (lToGW ws) f x0 nf := by
      unfold LGMRES.final GMRES.final
      rw [louter_sim_K0 prm hM hK sqrt A P f _ _ _ (by rw [linit_ov]; exact hov), linit_sim, lreset_toGW]
      rfl
    rw [← hfin]
    exact ⟨rfl, rfl⟩

/-- a call that starts with an empty buffer and makes at most one restart cycle ends in the state in which the call of
GMRES(M+K) ends -/
theorem lfinal_one_cycle (prm : LGMRES.Params K) (hM : 1 ≤ prm.MM) (sqrt : K → K) (A : CRS K) (P : Vec K → Vec K)
    (ws : LGMRES.Work K) (f x0 : Vec K) (nf : K) (hov : ws.ov.size = 0)
    (h : LGMRES.stop prm.maxiter (LGMRES.epsTol prm nf) (LGMRES.init prm stdIp sqrt A P ws f x0) = true ∨
      LGMRES.stop prm.maxiter (LGMRES.epsTol prm nf) (LGMRES.head prm.pside stdIp sqrt A P f
        (LGMRES.cycle prm stdIp sqrt A P (LGMRES.epsTol prm nf) (LGMRES.init prm stdIp sqrt A P ws f x0))) = true) :
    lToG (LGMRES.final prm stdIp sqrt A P ws f x0 nf) = GMRES.final (lGPrm prm) stdIp sqrt A P (lToGW ws) f x0 nf := by
  by_cases h0 : LGMRES.stop prm.maxiter (LGMRES.epsTol prm nf) (LGMRES.init prm stdIp sqrt A P ws f x0) = true
  · rw [LGMRES.final_of_stop prm stdIp sqrt A P ws f x0 nf h0,
      GMRES.final_of_stop (lGPrm prm) stdIp sqrt A P (lToGW ws) f x0 nf (by rw [← linit_sim]; exact h0), linit_sim]
  · have h1 : LGMRES.stop prm.maxiter (LGMRES.epsTol prm nf) (LGMRES.head prm.pside stdIp sqrt A P f
        (LGMRES.cycle prm stdIp sqrt A P (LGMRES.epsTol prm nf) (LGMRES.init prm stdIp sqrt A P ws f x0))) = true := by
      rcases h with h | h
      · exact absurd h h0
      · exact h
    have h0' : LGMRES.stop prm.maxiter (LGMRES.epsTol prm nf) (LGMRES.init prm stdIp sqrt A P ws f x0) = false := by
      simpa using h0
    have hlt : (LGMRES.init prm stdIp sqrt A P ws f x0).iter < prm.maxiter :=
      (LGMRES.stop_false prm.maxiter (LGMRES.epsTol prm nf) _ (by rw [h0']; rfl)).1
    obtain ⟨m, hm⟩ : ∃ m, prm.maxiter = m + 1 := ⟨prm.maxiter - 1, by omega⟩
    have hcyc : lToG (LGMRES.head prm.pside stdIp sqrt A P f
          (LGMRES.cycle prm stdIp sqrt A P (LGMRES.epsTol prm nf) (LGMRES.init prm stdIp sqrt A P ws f x0)))
        = GMRES.head (lGPrm prm).pside stdIp sqrt A P f (GMRES.cycle (lGPrm prm) stdIp sqrt A P
            (GMRES.epsTol (lGPrm prm) nf) (GMRES.init (lGPrm prm) stdIp sqrt A P (lToGW ws) f x0)) := by
      rw [lhead_sim, lcycle_sim prm hM sqrt A P _ _ (by rw [linit_ov]; exact hov), linit_sim]; rfl
    have hL : LGMRES.final prm stdIp sqrt A P ws f x0 nf = LGMRES.head prm.pside stdIp sqrt A P f
        (LGMRES.cycle prm stdIp sqrt A P (LGMRES.epsTol prm nf) (LGMRES.init prm stdIp sqrt A P ws f x0)) := by
      unfold LGMRES.final LGMRES.outer
      rw [hm, loopN, if_pos (by simp [← hm, h0'])]
      apply loopN_of_not_cond
      simp [← hm, h1]
    have hG : GMRES.final (lGPrm prm) stdIp sqrt A P (lToGW ws) f x0 nf
        = GMRES.head (lGPrm prm).pside stdIp sqrt A P f (GMRES.cycle (lGPrm prm) stdIp sqrt A P
            (GMRES.epsTol (lGPrm prm) nf) (GMRES.init (lGPrm prm) stdIp sqrt A P (lToGW ws) f x0)) := by
      have g0 : GMRES.stop (lGPrm prm).maxiter (GMRES.epsTol (lGPrm prm) nf)
          (GMRES.init (lGPrm prm) stdIp sqrt A P (lToGW ws) f x0) = false := by
        rw [← linit_sim]; exact h0'
      have g1 : GMRES.stop (lGPrm prm).maxiter (GMRES.epsTol (lGPrm prm) nf)
          (GMRES.head (lGPrm prm).pside stdIp sqrt A P f (GMRES.cycle (lGPrm prm) stdIp sqrt A P
            (GMRES.epsTol (lGPrm prm) nf) (GMRES.init (lGPrm prm) stdIp sqrt A P (lToGW ws) f x0))) = true := by
        rw [← hcyc]; exact h1
      have hm' : (lGPrm prm).maxiter = m + 1 := hm
      unfold GMRES.final GMRES.outer
      rw [hm', loopN, if_pos (by simp [← hm', g0])]
      apply loopN_of_not_cond
      simp [← hm', g1]
    rw [hL, hG, hcyc]

/-- **a call of LGMRES(M, K) that starts with an empty buffer (`always_reset`, or a fresh object) and makes at most one
restart cycle returns what the call of GMRES(M+K) returns** -/
theorem lrun_one_cycle (prm : LGMRES.Params K) (hM : 1 ≤ prm.MM) (sqrt : K → K) (eps : K) (A : CRS K)
    (P : Vec K → Vec K) (ws : LGMRES.Work K) (f x0 : Vec K) (hov : (LGMRES.reset prm ws).ov.size = 0)
    (h : ∀ nf, prologueA prm.nsSearch stdIp sqrt eps f = .go nf →
      LGMRES.stop prm.maxiter (LGMRES.epsTol prm nf)
        (LGMRES.init prm stdIp sqrt A P (LGMRES.reset prm ws) f x0) = true ∨
      LGMRES.stop prm.maxiter (LGMRES.epsTol prm nf) (LGMRES.head prm.pside stdIp sqrt A P f
        (LGMRES.cycle prm stdIp sqrt A P (LGMRES.epsTol prm nf)
          (LGMRES.init prm stdIp sqrt A P (LGMRES.reset prm ws) f x0))) = true) :
    (LGMRES.run prm stdIp sqrt eps A P ws f x0).obs
        = (GMRES.run (lGPrm prm) stdIp sqrt eps A P (lToGW ws) f x0).obs ∧
    lToGW (LGMRES.run prm stdIp sqrt eps A P ws f x0).ws
        = (GMRES.run (lGPrm prm) stdIp sqrt eps A P (lToGW ws) f x0).ws := by
  cases hp : prologueA prm.nsSearch stdIp sqrt eps f with
  | trivial nf =>
    rw [LGMRES.run_trivial prm stdIp sqrt eps A P ws f x0 nf hp,
      GMRES.run_trivial (lGPrm prm) stdIp sqrt eps A P (lToGW ws) f x0 nf hp]
    exact ⟨rfl, lreset_toGW prm ws⟩
  | go nf =>
    rw [LGMRES.run_go prm stdIp sqrt eps A P ws f x0 nf hp,
      GMRES.run_go (lGPrm prm) stdIp sqrt eps A P (lToGW ws) f x0 nf hp]
    have hfin := lfinal_one_cycle prm hM sqrt A P (LGMRES.reset prm ws) f x0 nf hov (h nf hp)
    rw [lreset_toGW] at hfin
    rw [← hfin]
    exact ⟨rfl, rfl⟩

end sim
end Amgcl.Krylov
