import Mathlib.Data.Matrix.Mul
import Mathlib.LinearAlgebra.Matrix.NonsingularInverse
import Mathlib.LinearAlgebra.Matrix.ToLinearEquiv
import Mathlib.Algebra.Order.Field.Basic
import Mathlib.Tactic.Ring
import Mathlib.Tactic.Linarith
import Mathlib.Tactic.NoncommRing
/-!
# Energy-norm (quadratic form) toolkit for the multigrid convergence theory (C02, mathematical clauses)

Everything is stated over a linearly ordered field `𝕜` (so it applies verbatim to `ℚ`, the executed instance, and
to `ℝ`), with Mathlib matrices and **quadratic forms only**: no spectral theory, no square roots.

* `en A u v = u ⬝ᵥ A *ᵥ v` — the energy form `⟪u, v⟫_A`;
* `IsSPD A` — `Aᵀ = A ∧ ∀ v ≠ 0, 0 < ⟪v, v⟫_A` (our own predicate, usable at `ℚ`);
* `NonExp A E`, `Contr A E` — `E` is `A`-norm nonexpansive / strictly contracting (`⟪Ee,Ee⟫_A < ⟪e,e⟫_A`, `e ≠ 0`);
* `seqB A B₁ B₂`, `powB A B k` — the preconditioner ("approximate inverse") of the composition of stationary
  iterations `x ↦ x + B(f − A x)`; the error propagates by `1 − B A` and composition multiplies the error operators.
-/
set_option linter.unusedSectionVars false
namespace Amgcl.Energy
open Matrix

variable {𝕜 : Type*} [Field 𝕜]
variable {ι κ : Type*} [Fintype ι] [Fintype κ]

/-! ### algebra (any field) -/

/-- the energy (bilinear) form `⟪u, v⟫_A = uᵀ A v` -/
def en (A : Matrix ι ι 𝕜) (u v : ι → 𝕜) : 𝕜 := u ⬝ᵥ A *ᵥ v

section en
variable (A : Matrix ι ι 𝕜) (u v w : ι → 𝕜) (c : 𝕜)

theorem en_add_left : en A (u + v) w = en A u w + en A v w := by simp [en, add_dotProduct]
theorem en_add_right : en A u (v + w) = en A u v + en A u w := by simp [en, mulVec_add, dotProduct_add]
theorem en_sub_left : en A (u - v) w = en A u w - en A v w := by simp [en, sub_dotProduct]
theorem en_sub_right : en A u (v - w) = en A u v - en A u w := by simp [en, mulVec_sub, dotProduct_sub]
theorem en_smul_left : en A (c • u) w = c * en A u w := by simp [en, smul_dotProduct]
theorem en_smul_right : en A u (c • w) = c * en A u w := by simp [en, mulVec_smul, dotProduct_smul]
@[simp] theorem en_zero_left : en A 0 w = 0 := by simp [en]
@[simp] theorem en_zero_right : en A u 0 = 0 := by simp [en]

/-- `⟪u, S v⟫_A = ⟪u, v⟫_{A S}` -/
theorem en_mulVec_right (S : Matrix ι ι 𝕜) : en A u (S *ᵥ v) = en (A * S) u v := by
  simp [en, mulVec_mulVec]

/-- `⟪T u, v⟫_A = ⟪u, v⟫_{Tᵀ A}` (rectangular `T` allowed) -/
theorem en_mulVec_left (T : Matrix ι κ 𝕜) (x : κ → 𝕜) (y : ι → 𝕜) :
    en A (T *ᵥ x) y = x ⬝ᵥ (Tᵀ * A) *ᵥ y := by
  rw [en, ← mulVec_mulVec, dotProduct_mulVec x Tᵀ, vecMul_transpose]

/-- `⟪P x, P y⟫_A = ⟪x, y⟫_{Pᵀ A P}` -/
theorem en_galerkin (P : Matrix ι κ 𝕜) (x y : κ → 𝕜) :
    en A (P *ᵥ x) (P *ᵥ y) = en (Pᵀ * A * P) x y := by
  rw [en_mulVec_left, en, ← mulVec_mulVec (M := Pᵀ * A)]

theorem en_comm (hA : Aᵀ = A) : en A u v = en A v u := by
  unfold en
  rw [dotProduct_mulVec, ← mulVec_transpose, hA, dotProduct_comm]

theorem en_smul_mat : en (c • A) u v = c * en A u v := by
  simp [en, smul_mulVec, dotProduct_smul]

/-- expansion of `‖u − v‖²_A` for symmetric `A` -/
theorem en_sub_sub (hA : Aᵀ = A) : en A (u - v) (u - v) = en A u u - 2 * en A u v + en A v v := by
  rw [en_sub_left, en_sub_right, en_sub_right, en_comm A v u hA]; ring

/-- expansion of `‖u + v‖²_A` for symmetric `A` -/
theorem en_add_add (hA : Aᵀ = A) : en A (u + v) (u + v) = en A u u + 2 * en A u v + en A v v := by
  rw [en_add_left, en_add_right, en_add_right, en_comm A v u hA]; ring

end en

/-! ### composition of stationary iterations at the level of the preconditioner matrices -/
section seq
variable [DecidableEq ι]

/-- the preconditioner of "first `x ↦ x + B₁(f − A x)`, then `x ↦ x + B₂(f − A x)`" -/
def seqB (A B₁ B₂ : Matrix ι ι 𝕜) : Matrix ι ι 𝕜 := B₁ + B₂ - B₂ * A * B₁

/-- `k` steps of `x ↦ x + B(f − A x)` starting from `x = 0` give `x = powB A B k *ᵥ f` -/
def powB (A B : Matrix ι ι 𝕜) : ℕ → Matrix ι ι 𝕜
  | 0 => 0
  | k + 1 => seqB A (powB A B k) B

variable (A B B₁ B₂ B₃ : Matrix ι ι 𝕜)

/-- one step of the stationary iteration `x ↦ x + B (f − A x)` -/
def step (f x : ι → 𝕜) : ι → 𝕜 := x + B *ᵥ (f - A *ᵥ x)

/-- **error propagation**: if `A x* = f` the error after one step is `(1 − B A)` times the error before -/
theorem step_error (f x xs : ι → 𝕜) (hs : A *ᵥ xs = f) :
    xs - step A B f x = (1 - B * A) *ᵥ (xs - x) := by
  rw [step, ← hs, ← mulVec_sub, sub_mulVec, one_mulVec, ← mulVec_mulVec]; abel

/-- a step is the affine map `x ↦ (1 − B A) x + B f` -/
theorem step_affine (f x : ι → 𝕜) : step A B f x = (1 - B * A) *ᵥ x + B *ᵥ f := by
  rw [step, mulVec_sub, sub_mulVec, one_mulVec, ← mulVec_mulVec]; abel

/-- two steps in a row are one step with `seqB` -/
theorem step_step (f x : ι → 𝕜) : step A B₂ f (step A B₁ f x) = step A (seqB A B₁ B₂) f x := by
  simp only [step, seqB, mulVec_add, mulVec_sub, add_mulVec, sub_mulVec, ← mulVec_mulVec]; abel

/-- composition multiplies the error operators -/
theorem one_sub_seqB_mul : 1 - seqB A B₁ B₂ * A = (1 - B₂ * A) * (1 - B₁ * A) := by
  unfold seqB; noncomm_ring

theorem seqB_assoc : seqB A (seqB A B₁ B₂) B₃ = seqB A B₁ (seqB A B₂ B₃) := by
  unfold seqB; noncomm_ring

@[simp] theorem seqB_zero_left : seqB A 0 B = B := by simp [seqB]
@[simp] theorem seqB_zero_right : seqB A B 0 = B := by simp [seqB]

theorem seqB_transpose (hA : Aᵀ = A) : (seqB A B₁ B₂)ᵀ = seqB A B₂ᵀ B₁ᵀ := by
  simp only [seqB, transpose_sub, transpose_add, transpose_mul, hA, Matrix.mul_assoc]; abel

@[simp] theorem powB_zero : powB A B 0 = 0 := rfl
theorem powB_succ (k : ℕ) : powB A B (k + 1) = seqB A (powB A B k) B := rfl
@[simp] theorem powB_one : powB A B 1 = B := by simp [powB]

theorem powB_succ' (k : ℕ) : powB A B (k + 1) = seqB A B (powB A B k) := by
  induction k with
  | zero => simp [powB]
  | succ k ih => rw [powB_succ, ih, seqB_assoc, ← powB_succ, ih]

theorem one_sub_powB_mul (k : ℕ) : 1 - powB A B k * A = (1 - B * A) ^ k := by
  induction k with
  | zero => simp
  | succ k ih => rw [powB_succ, one_sub_seqB_mul, ih, pow_succ']

theorem powB_transpose (hA : Aᵀ = A) (k : ℕ) : (powB A B k)ᵀ = powB A Bᵀ k := by
  induction k with
  | zero => simp
  | succ k ih => rw [powB_succ, seqB_transpose _ _ _ hA, ih, ← powB_succ']

/-- `k` steps from `x₀ = 0` -/
theorem iterate_step_zero (f : ι → 𝕜) (k : ℕ) : (step A B f)^[k] 0 = powB A B k *ᵥ f := by
  induction k with
  | zero => simp
  | succ k ih =>
    rw [Function.iterate_succ_apply', ih, powB_succ]
    have : powB A B k *ᵥ f = step A (powB A B k) f 0 := by simp [step]
    rw [this, step_step]; simp [step]

/-- scaling: `A ↦ c A`, `Bᵢ ↦ c⁻¹ Bᵢ` scales the composed preconditioner by `c⁻¹` -/
theorem seqB_smul {c : 𝕜} (hc : c ≠ 0) : seqB (c • A) (c⁻¹ • B₁) (c⁻¹ • B₂) = c⁻¹ • seqB A B₁ B₂ := by
  simp only [seqB, Matrix.smul_mul, Matrix.mul_smul, smul_smul, smul_sub, smul_add]
  congr 2
  field_simp

theorem powB_smul {c : 𝕜} (hc : c ≠ 0) (k : ℕ) : powB (c • A) (c⁻¹ • B) k = c⁻¹ • powB A B k := by
  induction k with
  | zero => simp
  | succ k ih => rw [powB_succ, ih, seqB_smul _ _ _ hc, ← powB_succ]

end seq

/-! ### order: positive definiteness, nonexpansive and contracting operators -/

variable [LinearOrder 𝕜] [IsStrictOrderedRing 𝕜]

/-- symmetric positive definite, as a statement about the quadratic form (usable over `ℚ`) -/
def IsSPD (A : Matrix ι ι 𝕜) : Prop := Aᵀ = A ∧ ∀ v : ι → 𝕜, v ≠ 0 → 0 < en A v v

/-- `E` is nonexpansive in the `A`-norm -/
def NonExp (A E : Matrix ι ι 𝕜) : Prop := ∀ e : ι → 𝕜, en A (E *ᵥ e) (E *ᵥ e) ≤ en A e e

/-- `E` is strictly contracting in the `A`-norm -/
def Contr (A E : Matrix ι ι 𝕜) : Prop := ∀ e : ι → 𝕜, e ≠ 0 → en A (E *ᵥ e) (E *ᵥ e) < en A e e

section spd
variable {A : Matrix ι ι 𝕜}

theorem IsSPD.symm (h : IsSPD A) : Aᵀ = A := h.1
theorem IsSPD.pos (h : IsSPD A) {v : ι → 𝕜} (hv : v ≠ 0) : 0 < en A v v := h.2 v hv

theorem IsSPD.nonneg (h : IsSPD A) (v : ι → 𝕜) : 0 ≤ en A v v := by
  by_cases hv : v = 0
  · simp [hv]
  · exact (h.pos hv).le

theorem IsSPD.eq_zero_of_en_le (h : IsSPD A) {v : ι → 𝕜} (hv : en A v v ≤ 0) : v = 0 := by
  by_contra hne; exact absurd (h.pos hne) (not_lt.mpr hv)

theorem IsSPD.mulVec_ne_zero (h : IsSPD A) {v : ι → 𝕜} (hv : v ≠ 0) : A *ᵥ v ≠ 0 := by
  intro h0
  have := h.pos hv
  rw [en, h0, dotProduct_zero] at this
  exact lt_irrefl _ this

theorem IsSPD.det_ne_zero [DecidableEq ι] (h : IsSPD A) : A.det ≠ 0 := by
  intro hd
  obtain ⟨v, hv, h0⟩ := (exists_mulVec_eq_zero_iff (M := A)).mpr hd
  exact h.mulVec_ne_zero hv h0

theorem IsSPD.isUnit_det [DecidableEq ι] (h : IsSPD A) : IsUnit A.det := isUnit_iff_ne_zero.mpr h.det_ne_zero

theorem IsSPD.inv_mul [DecidableEq ι] (h : IsSPD A) : A⁻¹ * A = 1 := nonsing_inv_mul A h.isUnit_det
theorem IsSPD.mul_inv [DecidableEq ι] (h : IsSPD A) : A * A⁻¹ = 1 := mul_nonsing_inv A h.isUnit_det

/-- every right-hand side is `A w` for some `w` -/
theorem IsSPD.exists_solve [DecidableEq ι] (h : IsSPD A) (g : ι → 𝕜) : ∃ w, A *ᵥ w = g :=
  ⟨A⁻¹ *ᵥ g, by rw [mulVec_mulVec, h.mul_inv, one_mulVec]⟩

/-- a positive multiple of an SPD matrix is SPD -/
theorem IsSPD.smul (h : IsSPD A) {c : 𝕜} (hc : 0 < c) : IsSPD (c • A) := by
  refine ⟨by rw [transpose_smul, h.1], fun v hv => ?_⟩
  rw [en_smul_mat]; exact mul_pos hc (h.pos hv)

/-- the Galerkin operator `Pᵀ A P` of an SPD matrix with injective `P` is SPD -/
theorem IsSPD.galerkin (h : IsSPD A) (P : Matrix ι κ 𝕜) (hP : ∀ w : κ → 𝕜, P *ᵥ w = 0 → w = 0) :
    IsSPD (Pᵀ * A * P) := by
  refine ⟨by simp [transpose_mul, h.1, Matrix.mul_assoc], fun w hw => ?_⟩
  rw [← en_galerkin]
  exact h.pos (fun h0 => hw (hP w h0))

end spd

section contr
variable [DecidableEq ι] {A E F : Matrix ι ι 𝕜}

theorem Contr.nonExp (h : Contr A E) : NonExp A E := by
  intro e
  by_cases he : e = 0
  · simp [he]
  · exact (h e he).le

theorem nonExp_one : NonExp A (1 : Matrix ι ι 𝕜) := fun e => by simp

theorem NonExp.mul (hE : NonExp A E) (hF : NonExp A F) : NonExp A (E * F) := fun e => by
  rw [← mulVec_mulVec]; exact (hE _).trans (hF e)

/-- nonexpansive after strictly contracting is strictly contracting -/
theorem NonExp.mul_contr (hE : NonExp A E) (hF : Contr A F) : Contr A (E * F) := fun e he => by
  rw [← mulVec_mulVec]; exact (hE _).trans_lt (hF e he)

/-- strictly contracting after nonexpansive is strictly contracting (`A` SPD) -/
theorem Contr.mul_nonExp (hA : IsSPD A) (hE : Contr A E) (hF : NonExp A F) : Contr A (E * F) := fun e he => by
  rw [← mulVec_mulVec]
  by_cases h0 : F *ᵥ e = 0
  · rw [h0, mulVec_zero, en_zero_left]; exact hA.pos he
  · exact (hE _ h0).trans_le (hF e)

theorem NonExp.pow (hE : NonExp A E) (k : ℕ) : NonExp A (E ^ k) := by
  induction k with
  | zero => simpa using nonExp_one
  | succ k ih => rw [pow_succ]; exact ih.mul hE

theorem Contr.pow (hE : Contr A E) {k : ℕ} (hk : 0 < k) : Contr A (E ^ k) := by
  obtain ⟨k, rfl⟩ := Nat.exists_eq_succ_of_ne_zero hk.ne'
  rw [pow_succ]; exact (hE.nonExp.pow k).mul_contr hE

/-- the zero operator (exact solve) is strictly contracting -/
theorem contr_zero (hA : IsSPD A) : Contr A (0 : Matrix ι ι 𝕜) := fun e he => by
  rw [zero_mulVec, en_zero_left]; exact hA.pos he

end contr

end Amgcl.Energy
