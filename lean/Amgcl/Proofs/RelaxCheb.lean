import Amgcl.Model.RelaxCheb
import Amgcl.Proofs.RelaxJacobi
/-!
Helper lemmas for the Chebyshev smoother: the first iteration overwrites the scratch members `p`, `r`
(`beta = 0`), every iteration is jointly linear in `(b, x, p)`, and a solution is a fixed point.
-/
namespace Amgcl
namespace Relax

section anyK
variable {K : Type} [Field K] [DecidableEq K]

/-- size of the (possibly scaled) residual of an iteration -/
theorem chebStep_sizes (s : ChebState K) (A : CRS K) (hM : s.scale = true → s.M.size = A.nrows) (b : Vec K)
    (st : ChebIter K) (k : Nat) :
    (chebStep s A b st k).x.size = A.nrows ∧ (chebStep s A b st k).p.size = A.nrows := by
  unfold chebStep
  cases hs : s.scale
  · simp
  · simp [hM hs]

/-- the (possibly scaled) residual used by an iteration -/
def chebResid (s : ChebState K) (A : CRS K) (b x : Vec K) : Vec K :=
  let r := residual b A x
  if s.scale then vmul 1 s.M r 0 r else r

theorem chebResid_size (s : ChebState K) (A : CRS K) (hM : s.scale = true → s.M.size = A.nrows) (b x : Vec K) :
    (chebResid s A b x).size = A.nrows := by
  unfold chebResid
  cases hs : s.scale
  · simp
  · simp [hM hs]

theorem chebResid_vlin (s : ChebState K) (A : CRS K) (hM : s.scale = true → s.M.size = A.nrows)
    (a b : K) (f g x y : Vec K) (hf : f.size = A.nrows) (hg : g.size = A.nrows) (hxy : x.size = y.size) :
    chebResid s A (vlin a f b g) (vlin a x b y) = vlin a (chebResid s A f x) b (chebResid s A g y) := by
  unfold chebResid
  simp only
  rw [residual_vlin A a b f g x y hf hg hxy]
  cases hs : s.scale
  · simp
  · simp only [if_true]
    apply ext_getD' (0 : K) (by simp)
    intro i
    by_cases hi : i < s.M.size
    · rw [getD_vmul _ _ _ _ _ _ hi, getD_vlin _ _ _ _ (by simp), getD_vlin _ _ _ _ (by simp),
        getD_vmul _ _ _ _ _ _ hi, getD_vmul _ _ _ _ _ _ hi]
      ring
    · rw [getD_of_size_le _ _ _ (by simp; omega), getD_of_size_le _ _ _ (by simp; omega)]

theorem chebResid_zero (s : ChebState K) (A : CRS K) (f x : Vec K)
    (h : ∀ i, i < A.nrows → rowDot (A.row i) x = f.getD i 0) (i : Nat) :
    (chebResid s A f x).getD i 0 = 0 := by
  unfold chebResid
  simp only
  rw [residual_eq_zero A f x h]
  cases hs : s.scale
  · simp only [Bool.false_eq_true, if_false]; exact getD_vclear _ _
  · simp only [if_true]
    by_cases hi : i < s.M.size
    · rw [getD_vmul _ _ _ _ _ _ hi, getD_vclear]; ring
    · rw [getD_of_size_le _ _ _ (by simp; omega)]

/-- the coefficients `(alpha, beta)` of iteration `k` depend on the previous `alpha` only -/
def chebCoef (s : ChebState K) (alpha : K) (k : Nat) : K × K :=
  if k = 0 then (1 / s.d, 0)
  else if k = 1 then
    let a := (1 + 1) * s.d * (1 / ((1 + 1) * s.d * s.d - s.c * s.c))
    (a, a * s.d - 1)
  else
    let a := 1 / (s.d - 1 / ((1 + 1) * (1 + 1)) * alpha * s.c * s.c)
    (a, a * s.d - 1)

theorem chebStep_eq (s : ChebState K) (A : CRS K) (b : Vec K) (st : ChebIter K) (k : Nat) :
    chebStep s A b st k =
      let r := chebResid s A b st.x
      let ab := chebCoef s st.alpha k
      let p := axpby ab.1 r ab.2 st.p
      { x := axpby 1 p 1 st.x, p := p, r := r, alpha := ab.1, beta := ab.2 } := by
  unfold chebStep chebResid chebCoef
  rfl

/-- `axpby` with a zero second coefficient never reads its output argument -/
theorem axpby_zero_indep' (a : K) (x y y' : Vec K) : axpby a x 0 y = axpby a x 0 y' := by simp [axpby]

/-- iteration `k = 0` reads nothing but `x` from the loop state -/
theorem chebStep_zero_indep (s : ChebState K) (A : CRS K) (b : Vec K) (st st' : ChebIter K) (h : st.x = st'.x) :
    chebStep s A b st 0 = chebStep s A b st' 0 := by
  rw [chebStep_eq, chebStep_eq]
  have hc : ∀ α : K, chebCoef s α 0 = (1 / s.d, 0) := by intro α; simp [chebCoef]
  simp only [hc, h]
  rw [axpby_zero_indep' _ _ st.p st'.p]

theorem chebFold_indep (s : ChebState K) (A : CRS K) (b : Vec K) (st st' : ChebIter K) (h : st.x = st'.x)
    (n : Nat) :
    ((List.range n).foldl (chebStep s A b) st).x = ((List.range n).foldl (chebStep s A b) st').x := by
  cases n with
  | zero => simpa using h
  | succ m =>
    rw [List.range_succ_eq_map, List.foldl_cons, List.foldl_cons, chebStep_zero_indep s A b st st' h]

/-- the result of `solve` does not depend on what the members `p`, `r` contained -/
theorem chebSolve_indep (s : ChebState K) (A : CRS K) (b x p r p' r' : Vec K) :
    (chebSolve s A b x p r).1 = (chebSolve s A b x p' r').1 := by
  show ((List.range s.degree).foldl (chebStep s A b) _).x = ((List.range s.degree).foldl (chebStep s A b) _).x
  exact chebFold_indep s A b { x := x, p := p, r := r, alpha := 0, beta := 0 }
    { x := x, p := p', r := r', alpha := 0, beta := 0 } rfl _

theorem axpby_vlin (α β a b : K) (r1 r2 p1 p2 : Vec K) (h1 : r1.size = r2.size) (h2 : p1.size = p2.size)
    (h3 : r1.size = p1.size) :
    axpby α (vlin a r1 b r2) β (vlin a p1 b p2) = vlin a (axpby α r1 β p1) b (axpby α r2 β p2) := by
  have hs1 : (axpby α r1 β p1).size = (axpby α r2 β p2).size := by rw [axpby_size, axpby_size]; exact h1
  apply ext_getD' (0 : K) (by rw [axpby_size, vlin_size, vlin_size, axpby_size])
  intro i
  by_cases hi : i < r1.size
  · rw [getD_axpby _ _ _ _ _ (by rw [vlin_size]; exact hi), getD_vlin _ _ _ _ h1, getD_vlin _ _ _ _ h2,
      getD_vlin _ _ _ _ hs1, getD_axpby _ _ _ _ _ hi, getD_axpby _ _ _ _ _ (by omega)]
    ring
  · rw [getD_of_size_le _ _ _ (by rw [axpby_size, vlin_size]; omega),
      getD_of_size_le _ _ _ (by rw [vlin_size, axpby_size]; omega)]

/-- one iteration maps linearly related states to linearly related states -/
theorem chebStep_vlin (s : ChebState K) (A : CRS K) (hM : s.scale = true → s.M.size = A.nrows)
    (a b : K) (f g : Vec K) (hf : f.size = A.nrows) (hg : g.size = A.nrows)
    (st st1 st2 : ChebIter K) (k : Nat)
    (hx : st.x = vlin a st1.x b st2.x) (hp : st.p = vlin a st1.p b st2.p)
    (ha1 : st.alpha = st1.alpha) (ha2 : st.alpha = st2.alpha)
    (hx1 : st1.x.size = A.nrows) (hx2 : st2.x.size = A.nrows)
    (hp1 : st1.p.size = A.nrows) (hp2 : st2.p.size = A.nrows) :
    (chebStep s A (vlin a f b g) st k).x = vlin a (chebStep s A f st1 k).x b (chebStep s A g st2 k).x
    ∧ (chebStep s A (vlin a f b g) st k).p = vlin a (chebStep s A f st1 k).p b (chebStep s A g st2 k).p
    ∧ (chebStep s A (vlin a f b g) st k).alpha = (chebStep s A f st1 k).alpha
    ∧ (chebStep s A (vlin a f b g) st k).alpha = (chebStep s A g st2 k).alpha := by
  simp only [chebStep_eq]
  rw [hx, hp, chebResid_vlin s A hM a b f g _ _ hf hg (by omega), ← ha1, ← ha2]
  have hr1 := chebResid_size s A hM f st1.x
  have hr2 := chebResid_size s A hM g st2.x
  set r1 := chebResid s A f st1.x
  set r2 := chebResid s A g st2.x
  set α := (chebCoef s st.alpha k).1
  set β := (chebCoef s st.alpha k).2
  have hpl : axpby α (vlin a r1 b r2) β (vlin a st1.p b st2.p)
      = vlin a (axpby α r1 β st1.p) b (axpby α r2 β st2.p) :=
    axpby_vlin α β a b r1 r2 st1.p st2.p (by omega) (by omega) (by omega)
  refine ⟨?_, hpl, rfl, rfl⟩
  rw [hpl]
  exact axpby_vlin 1 1 a b _ _ st1.x st2.x (by rw [axpby_size, axpby_size]; omega) (by omega)
    (by rw [axpby_size]; omega)

theorem chebFold_vlin (s : ChebState K) (A : CRS K) (hM : s.scale = true → s.M.size = A.nrows)
    (a b : K) (f g : Vec K) (hf : f.size = A.nrows) (hg : g.size = A.nrows) (l : List Nat)
    (st st1 st2 : ChebIter K)
    (hx : st.x = vlin a st1.x b st2.x) (hp : st.p = vlin a st1.p b st2.p)
    (ha1 : st.alpha = st1.alpha) (ha2 : st.alpha = st2.alpha)
    (hx1 : st1.x.size = A.nrows) (hx2 : st2.x.size = A.nrows)
    (hp1 : st1.p.size = A.nrows) (hp2 : st2.p.size = A.nrows) :
    (l.foldl (chebStep s A (vlin a f b g)) st).x
      = vlin a (l.foldl (chebStep s A f) st1).x b (l.foldl (chebStep s A g) st2).x := by
  induction l generalizing st st1 st2 with
  | nil => exact hx
  | cons k t ih =>
    simp only [List.foldl_cons]
    obtain ⟨h1, h2, h3, h4⟩ := chebStep_vlin s A hM a b f g hf hg st st1 st2 k hx hp ha1 ha2 hx1 hx2 hp1 hp2
    exact ih _ _ _ h1 h2 h3 h4 (chebStep_sizes s A hM f st1 k).1 (chebStep_sizes s A hM g st2 k).1
      (chebStep_sizes s A hM f st1 k).2 (chebStep_sizes s A hM g st2 k).2

/-- `solve` is jointly linear in `(b, x)`, whatever the scratch members contain -/
theorem chebSolve_vlin (s : ChebState K) (A : CRS K) (hM : s.scale = true → s.M.size = A.nrows)
    (a b : K) (f g x y p r p1 r1 p2 r2 : Vec K) (hf : f.size = A.nrows) (hg : g.size = A.nrows)
    (hx : x.size = A.nrows) (hy : y.size = A.nrows) :
    (chebSolve s A (vlin a f b g) (vlin a x b y) p r).1
      = vlin a (chebSolve s A f x p1 r1).1 b (chebSolve s A g y p2 r2).1 := by
  -- replace every scratch content by zero vectors of the right length, which are linearly related
  rw [chebSolve_indep s A _ _ p r (vlin a (vclear A.nrows) b (vclear A.nrows)) r,
    chebSolve_indep s A f x p1 r1 (vclear A.nrows) r1, chebSolve_indep s A g y p2 r2 (vclear A.nrows) r2]
  unfold chebSolve
  exact chebFold_vlin s A hM a b f g hf hg _ _ _ _ rfl rfl rfl rfl hx hy (by simp) (by simp)

/-- a solution of `A x = b` is left unchanged by every iteration, and `p` becomes zero -/
theorem chebStep_fixed (s : ChebState K) (A : CRS K) (hM : s.scale = true → s.M.size = A.nrows) (f x : Vec K)
    (hx : x.size = A.nrows) (h : ∀ i, i < A.nrows → rowDot (A.row i) x = f.getD i 0)
    (st : ChebIter K) (k : Nat) (hst : st.x = x) (hp : k = 0 ∨ ∀ i, st.p.getD i 0 = 0) :
    (chebStep s A f st k).x = x ∧ ∀ i, (chebStep s A f st k).p.getD i 0 = 0 := by
  simp only [chebStep_eq]
  rw [hst]
  have hr := chebResid_zero s A f x h
  have hrs := chebResid_size s A hM f x
  have hp' : ∀ i, (axpby (chebCoef s st.alpha k).1 (chebResid s A f x) (chebCoef s st.alpha k).2 st.p).getD i 0 = 0 := by
    intro i
    by_cases hi : i < A.nrows
    · rw [getD_axpby _ _ _ _ _ (by omega), hr]
      rcases hp with hk | hp
      · subst hk; simp [chebCoef]
      · rw [hp]; ring
    · rw [getD_of_size_le _ _ _ (by simp; omega)]
  refine ⟨?_, hp'⟩
  apply ext_getD' (0 : K) (by simp; omega)
  intro i
  by_cases hi : i < A.nrows
  · rw [getD_axpby _ _ _ _ _ (by simp; omega), hp']; ring
  · rw [getD_of_size_le _ _ _ (by simp; omega), getD_of_size_le _ _ _ (by omega)]

theorem chebFold_fixed (s : ChebState K) (A : CRS K) (hM : s.scale = true → s.M.size = A.nrows) (f x : Vec K)
    (hx : x.size = A.nrows) (h : ∀ i, i < A.nrows → rowDot (A.row i) x = f.getD i 0)
    (st : ChebIter K) (hst : st.x = x) (n : Nat) :
    ((List.range n).foldl (chebStep s A f) st).x = x
    ∧ (n = 0 ∨ ∀ i, ((List.range n).foldl (chebStep s A f) st).p.getD i 0 = 0) := by
  induction n with
  | zero => exact ⟨hst, Or.inl rfl⟩
  | succ m ih =>
    rw [List.range_succ, List.foldl_append, List.foldl_cons, List.foldl_nil]
    obtain ⟨h1, h2⟩ := chebStep_fixed s A hM f x hx h _ m ih.1 ih.2
    exact ⟨h1, Or.inr h2⟩

theorem chebSolve_fixed (s : ChebState K) (A : CRS K) (hM : s.scale = true → s.M.size = A.nrows) (f x p r : Vec K)
    (hx : x.size = A.nrows) (h : ∀ i, i < A.nrows → rowDot (A.row i) x = f.getD i 0) :
    (chebSolve s A f x p r).1 = x := by
  unfold chebSolve
  exact (chebFold_fixed s A hM f x hx h _ rfl _).1

theorem chebSolve_size (s : ChebState K) (A : CRS K) (hM : s.scale = true → s.M.size = A.nrows) (f x p r : Vec K)
    (hx : x.size = A.nrows) : (chebSolve s A f x p r).1.size = A.nrows := by
  unfold chebSolve
  generalize hst : ({ x := x, p := p, r := r, alpha := 0, beta := 0 } : ChebIter K) = st
  have hsx : st.x.size = A.nrows := by rw [← hst]; exact hx
  clear hst
  induction s.degree with
  | zero => simpa using hsx
  | succ m ih =>
    rw [List.range_succ, List.foldl_append, List.foldl_cons, List.foldl_nil]
    exact (chebStep_sizes s A hM f _ m).1

end anyK

end Relax
end Amgcl
