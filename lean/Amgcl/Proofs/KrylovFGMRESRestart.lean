import Amgcl.Proofs.KrylovFGMRES
import Amgcl.Proofs.KrylovGMRESOuter
/-!
# FGMRES: a restart cycle never increases the residual; the restarted sequence is monotone; breakdown (C05)

The statements of `Proofs/KrylovGMRESRestart.lean` / `KrylovGMRESOuter.lean` for the FGMRES model, for an ARBITRARY
preconditioner function (only `(P u).size = n`), through the simulation `fsim` by right-preconditioned GMRES:

* `fcycle_basis_last`, `fcycle_ls_last`   basis / least-squares identity with breakdown allowed in the last pass;
* `fcycle_residual_le`, `fcycle_monotone`   `‖f − A x'‖² ≤ ‖f − A x‖²` over a restart cycle of the model;
* `fouterPass`, `ffinal_eq_outerPass`, `fouterPass_antitone`   the restarted sequence as a whole;
* `fbreakdown_exact`   breakdown in the last pass, `A` injective and `z_0..z_m` linearly independent (true for an injective
  linear preconditioner): the iterate is the exact solution.
-/
set_option linter.unusedSectionVars false
set_option linter.unusedVariables false
namespace Amgcl.Krylov
open Amgcl Amgcl.Solver Amgcl.Energy.Bridge Matrix Finset

section la
variable {K : Type} [Field K] {n : ℕ}

/-- the last residual coefficient vanishes when `H̃(m+1,m) = 0` -/
theorem hres_last_zero (m : ℕ) (Ht : ℕ → ℕ → K) (β : K) (y : ℕ → K) (h : Ht (m + 1) m = 0) :
    hres (m + 1) Ht β y (m + 1) = 0 := by
  rw [hres_apply]
  have h0 : e0 β (m + 1) = 0 := by simp [e0]
  rw [h0, zero_sub, neg_eq_zero]
  apply sum_eq_zero
  intro i hi
  have hi' : i < m + 1 := mem_range.mp hi
  simp only [colT]
  by_cases him : i = m
  · rw [him, if_pos (Nat.le_refl _), h, mul_zero]
  · rw [if_neg (by omega), mul_zero]

/-- `ls_abstract` when the last basis vector is only known to be orthogonal to the others, and is a unit vector or does
not take part -/
theorem ls_abstract_last {j : ℕ} (V : ℕ → Fin n → K)
    (hV : ∀ a b, a < j → b < j → V a ⬝ᵥ V b = if a = b then 1 else 0) (ho : ∀ a, a < j → V a ⬝ᵥ V j = 0)
    {cs sn : ℕ → K} {H Ht : ℕ → ℕ → K} {s : ℕ → K} {β : K} (hg : GivensRel j cs sn H Ht s β) (y : ℕ → K)
    (hl : V j ⬝ᵥ V j = 1 ∨ hres j Ht β y j = 0) :
    (β • V 0 - ∑ i ∈ range j, y i • ∑ k ∈ range (i + 2), Ht k i • V k)
      ⬝ᵥ (β • V 0 - ∑ i ∈ range j, y i • ∑ k ∈ range (i + 2), Ht k i • V k)
    = ∑ a ∈ range j, (s a - ∑ i ∈ Ico a j, H a i * y i) * (s a - ∑ i ∈ Ico a j, H a i * y i) + s j * s j := by
  rw [← hres_expand, orthonormal_sum_sq_last j V hV ho _ hl]
  exact givens_ls hg y

end la

section passes
variable {K : Type} [Field K] [DecidableEq K] [LT K] [DecidableLT K]

theorem fInnerPass_j (sqrt : K → K) (A : CRS K) (P : Vec K → Vec K) (st : FGMRES.St K) (j : ℕ) :
    (fInnerPass sqrt A P st j).j = j := by rw [(fsim sqrt A P st j).j, innerPass_j]

/-- the FGMRES inner loop continued after each of its passes but the last -/
theorem finner_conds (prm : FGMRES.Params K) (sqrt : K → K) (A : CRS K) (P : Vec K → Vec K) (epsT : K)
    (st : FGMRES.St K) (i : ℕ) (h1 : 1 ≤ i) (hi : i < (FGMRES.inner prm stdIp sqrt A P epsT st).j) :
    FGMRES.cont prm.maxiter prm.M epsT (fInnerPass sqrt A P st i) = true := by
  obtain ⟨k, _, hk1, hk2, _⟩ := loopN_iterate_conds (FGMRES.cont prm.maxiter prm.M epsT)
    (FGMRES.step stdIp sqrt A P) prm.M (FGMRES.step stdIp sqrt A P (FGMRES.cycleStart st))
  have hdef : FGMRES.inner prm stdIp sqrt A P epsT st
      = loopN (FGMRES.cont prm.maxiter prm.M epsT) (FGMRES.step stdIp sqrt A P) prm.M
          (FGMRES.step stdIp sqrt A P (FGMRES.cycleStart st)) := rfl
  have hpass : ∀ a, (FGMRES.step stdIp sqrt A P)^[a] (FGMRES.step stdIp sqrt A P (FGMRES.cycleStart st))
      = fInnerPass sqrt A P st (a + 1) := by
    intro a; unfold fInnerPass; rw [Function.iterate_succ_apply]
  rw [← hdef, hpass] at hk1
  have hj : (FGMRES.inner prm stdIp sqrt A P epsT st).j = k + 1 := by rw [hk1, fInnerPass_j]
  obtain ⟨a, rfl⟩ : ∃ a, i = a + 1 := ⟨i - 1, by omega⟩
  rw [← hpass]
  exact hk2 a (by omega)

/-- a breakdown can only be met in the last pass of an FGMRES cycle (threshold not negative) -/
theorem finner_no_early_breakdown (prm : FGMRES.Params K) (sqrt : K → K) (A : CRS K) (P : Vec K → Vec K) (epsT : K)
    (heps : ¬ epsT < 0) (st : FGMRES.St K) (i : ℕ) (hi : i + 1 < (FGMRES.inner prm stdIp sqrt A P epsT st).j) :
    arnoldiNorm .right sqrt A P (toG st) i ≠ 0 := by
  intro hb
  have hc := finner_conds prm sqrt A P epsT st (i + 1) (by omega) hi
  rw [FGMRES.cont, (fsim sqrt A P st (i + 1)).res, (breakdown_innerRes .right sqrt A P (toG st) i hb).2.2] at hc
  simp only [Bool.not_eq_true', Bool.or_eq_false_iff, decide_eq_false_iff_not, Bool.not_eq_false',
    decide_eq_true_eq] at hc
  exact heps hc.2

end passes

section main
variable {K : Type} [Field K] [LinearOrder K] [IsStrictOrderedRing K]

variable (n : ℕ) (A : CRS K) (hA : A.WF) (hn : A.nrows = n) (hm : A.ncols = n)
  (P : Vec K → Vec K) (hPsz : ∀ u, (P u).size = n) (sqrt : K → K) (f : Vec K) (st : FGMRES.St K)
  (hst : FCycleStart sqrt A f st) (hx : st.x.size = n)
include hA hn hm hPsz hst hx

/-- the Arnoldi basis of the FGMRES cycle after `m+1` passes, breakdown allowed in pass `m` -/
theorem fcycle_basis_last (m : ℕ) (hroots : RootsExact .right sqrt A P (toG st) (m + 1))
    (hnb : ∀ i, i < m → arnoldiNorm .right sqrt A P (toG st) i ≠ 0) :
    (∀ a, a ≤ m + 1 → ((fInnerPass sqrt A P st (m + 1)).w.v.get a).size = n) ∧
    (∀ a b, a ≤ m → b ≤ m → vecOf n ((fInnerPass sqrt A P st (m + 1)).w.v.get a)
        ⬝ᵥ vecOf n ((fInnerPass sqrt A P st (m + 1)).w.v.get b) = if a = b then 1 else 0) ∧
    (∀ a, a ≤ m → vecOf n ((fInnerPass sqrt A P st (m + 1)).w.v.get a)
        ⬝ᵥ vecOf n ((fInnerPass sqrt A P st (m + 1)).w.v.get (m + 1)) = 0) ∧
    (arnoldiNorm .right sqrt A P (toG st) m ≠ 0 → vecOf n ((fInnerPass sqrt A P st (m + 1)).w.v.get (m + 1))
        ⬝ᵥ vecOf n ((fInnerPass sqrt A P st (m + 1)).w.v.get (m + 1)) = 1) ∧
    (∀ i, i < m + 1 → matOf A n n *ᵥ vecOf n ((fInnerPass sqrt A P st (m + 1)).w.z.get i)
        = ∑ k ∈ range (i + 2), hTilde .right sqrt A P (toG st) (m + 1) k i
            • vecOf n ((fInnerPass sqrt A P st (m + 1)).w.v.get k)) ∧
    vecOf n (residual f A st.x) = st.normR • vecOf n ((fInnerPass sqrt A P st (m + 1)).w.v.get 0) := by
  have hcA : ColsLt A n := by rw [← hm]; exact colsLt_of_wf A hA
  obtain ⟨hsize, hon, harn, hr0⟩ := fcycle_basis n A hA hn hm P hPsz sqrt f st hst hx m
    (hroots.mono (Nat.le_succ m)) hnb
  have hsim := fsim sqrt A P st m
  have hsim' := fsim sqrt A P st (m + 1)
  rw [hsim.v] at hsize hon harn hr0
  have hjj : (fInnerPass sqrt A P st m).j = m := fInnerPass_j sqrt A P st m
  have hjj' : (fInnerPass sqrt A P st (m + 1)).j = m + 1 := fInnerPass_j sqrt A P st (m + 1)
  have hAop : ∀ u : Vec K, (GMRES.Aop .right P A u).size = n := fun u => by
    rw [GMRES.Aop_size_right, hn]
  obtain ⟨hold, hnsz, horth, hunit, hcol⟩ := arnoldi_last_step .right sqrt A P (toG st) n m hAop hsize hon
    (hroots.orth m (Nat.lt_succ_self m))
  have hHt := hTilde_succ .right sqrt A P (toG st) m
  rw [hsim'.v]
  refine ⟨?_, ?_, ?_, hunit, ?_, ?_⟩
  · intro a ha
    by_cases h1 : a = m + 1
    · rw [h1]; exact hnsz
    · rw [hold a (by omega)]; exact hsize a (by omega)
  · intro a b ha hb
    rw [hold a ha, hold b hb]; exact hon a b ha hb
  · intro a ha
    rw [hold a ha]; exact horth a ha
  · intro i hi
    rw [hsim'.z i (by rw [hjj']; exact hi)]
    by_cases him : i < m
    · have := harn i him
      rw [hsim.z i (by rw [hjj]; exact him)] at this
      rw [hold i (by omega), this]
      apply sum_congr rfl
      intro k hk
      have hk' : k ≤ m := by have := mem_range.mp hk; omega
      rw [hold k hk', hHt, if_pos him]
    · have hi' : i = m := by omega
      subst hi'
      rw [hold i (Nat.le_refl i), ← vecOf_spmv0 A hn hcA _ #[]]
      exact hcol
  · rw [hold 0 (Nat.zero_le m)]; exact hr0

/-- **least-squares identity of the FGMRES cycle, breakdown allowed in the last pass** -/
theorem fcycle_ls_last (m : ℕ) (hroots : RootsExact .right sqrt A P (toG st) (m + 1))
    (hnb : ∀ i, i < m → arnoldiNorm .right sqrt A P (toG st) i ≠ 0) (y : ℕ → K) :
    (vecOf n f - matOf A n n *ᵥ (vecOf n st.x
        + ∑ i ∈ range (m + 1), y i • vecOf n ((fInnerPass sqrt A P st (m + 1)).w.z.get i)))
      ⬝ᵥ (vecOf n f - matOf A n n *ᵥ (vecOf n st.x
        + ∑ i ∈ range (m + 1), y i • vecOf n ((fInnerPass sqrt A P st (m + 1)).w.z.get i)))
    = ∑ a ∈ range (m + 1), ((fInnerPass sqrt A P st (m + 1)).w.h.s.get a
          - ∑ i ∈ Ico a (m + 1), (fInnerPass sqrt A P st (m + 1)).w.h.H.get a i * y i)
        * ((fInnerPass sqrt A P st (m + 1)).w.h.s.get a
          - ∑ i ∈ Ico a (m + 1), (fInnerPass sqrt A P st (m + 1)).w.h.H.get a i * y i)
      + (fInnerPass sqrt A P st (m + 1)).w.h.s.get (m + 1) * (fInnerPass sqrt A P st (m + 1)).w.h.s.get (m + 1) := by
  have hcA : ColsLt A n := by rw [← hm]; exact colsLt_of_wf A hA
  obtain ⟨hsize, hon, hlast, hunit, harn, hr0⟩ :=
    fcycle_basis_last n A hA hn hm P hPsz sqrt f st hst hx m hroots hnb
  have hgiv := (innerPassG_givens .right sqrt A P (toG st) g00 (m + 1) hroots.rot).1
  rw [← (fsim sqrt A P st (m + 1)).h] at hgiv
  have hresV : vecOf n f - matOf A n n *ᵥ (vecOf n st.x
        + ∑ i ∈ range (m + 1), y i • vecOf n ((fInnerPass sqrt A P st (m + 1)).w.z.get i))
      = st.normR • vecOf n ((fInnerPass sqrt A P st (m + 1)).w.v.get 0)
        - ∑ i ∈ range (m + 1), y i • ∑ k ∈ range (i + 2), hTilde .right sqrt A P (toG st) (m + 1) k i
            • vecOf n ((fInnerPass sqrt A P st (m + 1)).w.v.get k) := by
    rw [mulVec_add, ← sub_sub, ← vecOf_residual A hn hcA, hr0, mulVec_sum]
    congr 1
    apply sum_congr rfl
    intro i hi
    rw [mulVec_smul, harn i (mem_range.mp hi)]
  rw [hresV]
  refine ls_abstract_last _ (fun a b ha hb => hon a b (by omega) (by omega)) (fun a ha => hlast a (by omega)) hgiv y ?_
  by_cases hb : arnoldiNorm .right sqrt A P (toG st) m = 0
  · right
    apply hres_last_zero
    exact (ghost_sub .right sqrt A P (toG st) g00 (m + 1) m (Nat.lt_succ_self m)).trans hb
  · left; exact hunit hb

/-- `‖f − A x₀‖² = β²` at the start of an FGMRES cycle -/
theorem fcycleStart_normR_sq (hr0 : RootAt sqrt (stdIp (st.w.v.get 0) (st.w.v.get 0))) :
    st.normR * st.normR = stdIp (residual f A st.x) (residual f A st.x) := by
  rw [hst.normR]
  unfold nrmA
  rw [absK_mul_self, hr0, hst.r]

/-- the residual of the FGMRES iterate after `m+1` passes, breakdown allowed in pass `m` -/
theorem fcycle_residual_last (m : ℕ) (hroots : RootsExact .right sqrt A P (toG st) (m + 1))
    (hnb : ∀ i, i < m → arnoldiNorm .right sqrt A P (toG st) i ≠ 0) :
    stdIp (residual f A (fCycleIterate sqrt A P st (m + 1))) (residual f A (fCycleIterate sqrt A P st (m + 1)))
      = ((fInnerPass sqrt A P st (m + 1)).w.h.s.get m - (fInnerPass sqrt A P st (m + 1)).w.h.H.get m m
            * (backSubst (m + 1) (fInnerPass sqrt A P st (m + 1)).w.h.H (fInnerPass sqrt A P st (m + 1)).w.h.s).get m)
        * ((fInnerPass sqrt A P st (m + 1)).w.h.s.get m - (fInnerPass sqrt A P st (m + 1)).w.h.H.get m m
            * (backSubst (m + 1) (fInnerPass sqrt A P st (m + 1)).w.h.H (fInnerPass sqrt A P st (m + 1)).w.h.s).get m)
        + (fInnerPass sqrt A P st (m + 1)).w.h.s.get (m + 1) * (fInnerPass sqrt A P st (m + 1)).w.h.s.get (m + 1) := by
  have hcA : ColsLt A n := by rw [← hm]; exact colsLt_of_wf A hA
  have hd := (innerPassG_givens .right sqrt A P (toG st) g00 (m + 1) hroots.rot).2
  rw [← (fsim sqrt A P st (m + 1)).h] at hd
  obtain ⟨_, bs⟩ := backSubst_spec' (fInnerPass sqrt A P st (m + 1)).w.h.H (m + 1)
    (fInnerPass sqrt A P st (m + 1)).w.h.s
  have hrs : (residual f A (fCycleIterate sqrt A P st (m + 1))).size = n := by rw [residual_size', hn]
  rw [stdIp_vecOf n _ _ hrs hrs, vecOf_residual A hn hcA, fCycleIterate_vec n A hn P hPsz sqrt st hx (m + 1),
    fcycle_ls_last n A hA hn hm P hPsz sqrt f st hst hx m hroots hnb, sum_range_succ]
  have hz : ∀ a ∈ range m, ((fInnerPass sqrt A P st (m + 1)).w.h.s.get a
        - ∑ i ∈ Ico a (m + 1), (fInnerPass sqrt A P st (m + 1)).w.h.H.get a i
          * (backSubst (m + 1) (fInnerPass sqrt A P st (m + 1)).w.h.H (fInnerPass sqrt A P st (m + 1)).w.h.s).get i)
      * ((fInnerPass sqrt A P st (m + 1)).w.h.s.get a
        - ∑ i ∈ Ico a (m + 1), (fInnerPass sqrt A P st (m + 1)).w.h.H.get a i
          * (backSubst (m + 1) (fInnerPass sqrt A P st (m + 1)).w.h.H (fInnerPass sqrt A P st (m + 1)).w.h.s).get i) = 0 := by
    intro a ha
    have ha' : a < m := mem_range.mp ha
    rw [bs a (by omega) (hd a (by omega) (hnb a ha')), sub_self, mul_zero]
  rw [sum_eq_zero hz, zero_add, Nat.Ico_succ_singleton, sum_singleton]

/-- … it is `s_{m+1}²` when the last diagonal entry of the triangular factor is non-zero -/
theorem fcycle_residual_last_eq (m : ℕ) (hroots : RootsExact .right sqrt A P (toG st) (m + 1))
    (hnb : ∀ i, i < m → arnoldiNorm .right sqrt A P (toG st) i ≠ 0)
    (hdiag : (fInnerPass sqrt A P st (m + 1)).w.h.H.get m m ≠ 0) :
    stdIp (residual f A (fCycleIterate sqrt A P st (m + 1))) (residual f A (fCycleIterate sqrt A P st (m + 1)))
      = (fInnerPass sqrt A P st (m + 1)).w.h.s.get (m + 1) * (fInnerPass sqrt A P st (m + 1)).w.h.s.get (m + 1) := by
  rw [fcycle_residual_last n A hA hn hm P hPsz sqrt f st hst hx m hroots hnb]
  have bs := (backSubst_spec' (fInnerPass sqrt A P st (m + 1)).w.h.H (m + 1)
    (fInnerPass sqrt A P st (m + 1)).w.h.s).2 m (Nat.lt_succ_self m) hdiag
  rw [Nat.Ico_succ_singleton, sum_singleton] at bs
  rw [bs, sub_self, mul_zero, zero_add]

/-- in every case the FGMRES iterate after `m+1` passes has a residual no larger than the one the cycle started with -/
theorem fcycle_residual_le (m : ℕ) (hroots : RootsExact .right sqrt A P (toG st) (m + 1))
    (hnb : ∀ i, i < m → arnoldiNorm .right sqrt A P (toG st) i ≠ 0) :
    stdIp (residual f A (fCycleIterate sqrt A P st (m + 1))) (residual f A (fCycleIterate sqrt A P st (m + 1)))
      ≤ stdIp (residual f A st.x) (residual f A st.x) := by
  have hgiv := (innerPassG_givens .right sqrt A P (toG st) g00 (m + 1) hroots.rot).1
  rw [← (fsim sqrt A P st (m + 1)).h] at hgiv
  have hsq := givens_rhs_sq hgiv
  have hn2 : (toG st).normR * (toG st).normR = stdIp (residual f A st.x) (residual f A st.x) :=
    fcycleStart_normR_sq n A hA hn hm P hPsz sqrt f st hst hx hroots.r0
  rw [hn2, sum_range_succ, sum_range_succ] at hsq
  have hrest : 0 ≤ ∑ a ∈ range m, (fInnerPass sqrt A P st (m + 1)).w.h.s.get a
      * (fInnerPass sqrt A P st (m + 1)).w.h.s.get a := sum_nonneg (fun a _ => mul_self_nonneg _)
  rw [← hsq, fcycle_residual_last n A hA hn hm P hPsz sqrt f st hst hx m hroots hnb]
  by_cases hdiag : (fInnerPass sqrt A P st (m + 1)).w.h.H.get m m = 0
  · rw [hdiag, zero_mul, sub_zero]; linarith
  · have bs := (backSubst_spec' (fInnerPass sqrt A P st (m + 1)).w.h.H (m + 1)
      (fInnerPass sqrt A P st (m + 1)).w.h.s).2 m (Nat.lt_succ_self m) hdiag
    rw [Nat.Ico_succ_singleton, sum_singleton] at bs
    rw [bs, sub_self, mul_zero]
    have := mul_self_nonneg ((fInnerPass sqrt A P st (m + 1)).w.h.s.get m)
    linarith

/-- **the restart cycle of the FGMRES model does not increase the residual** -/
theorem fcycle_monotone (prm : FGMRES.Params K) (epsT : K) (heps : ¬ epsT < 0)
    (hroots : RootsExact .right sqrt A P (toG st) (FGMRES.inner prm stdIp sqrt A P epsT st).j) :
    stdIp (residual f A (FGMRES.cycle prm stdIp sqrt A P epsT st).x)
        (residual f A (FGMRES.cycle prm stdIp sqrt A P epsT st).x)
      ≤ stdIp (residual f A st.x) (residual f A st.x) := by
  obtain ⟨_, hge, hcx⟩ := finner_eq prm sqrt A P epsT st
  have hnb := finner_no_early_breakdown prm sqrt A P epsT heps st
  rw [hcx]
  obtain ⟨m, hm'⟩ : ∃ m, (FGMRES.inner prm stdIp sqrt A P epsT st).j = m + 1 := ⟨_, (Nat.sub_add_cancel hge).symm⟩
  rw [hm'] at hroots hnb ⊢
  exact fcycle_residual_le n A hA hn hm P hPsz sqrt f st hst hx m hroots (fun i hi => hnb i (by omega))

/-- **breakdown in pass `m` of an FGMRES cycle, `A` injective and `z_0..z_m` linearly independent: the triangular factor
is regular** -/
theorem fbreakdown_diag_ne (m : ℕ) (hroots : RootsExact .right sqrt A P (toG st) (m + 1))
    (hnb : ∀ i, i < m → arnoldiNorm .right sqrt A P (toG st) i ≠ 0)
    (hAinj : ∀ u : Fin n → K, matOf A n n *ᵥ u = 0 → u = 0)
    (hindep : ∀ c : ℕ → K, ∑ i ∈ range (m + 1), c i • vecOf n ((fInnerPass sqrt A P st (m + 1)).w.z.get i) = 0 →
      ∀ i, i < m + 1 → c i = 0)
    (hb : arnoldiNorm .right sqrt A P (toG st) m = 0) :
    (fInnerPass sqrt A P st (m + 1)).w.h.H.get m m ≠ 0 := by
  intro hdiag
  have hd := (innerPassG_givens .right sqrt A P (toG st) g00 (m + 1) hroots.rot).2
  rw [← (fsim sqrt A P st (m + 1)).h] at hd
  have hls := fcycle_ls_last n A hA hn hm P hPsz sqrt f st hst hx m hroots hnb
  generalize (fInnerPass sqrt A P st (m + 1)).w.h.H = H at hdiag hd hls
  generalize (fInnerPass sqrt A P st (m + 1)).w.h.s = s at hls
  generalize hZ : (fun a => vecOf n ((fInnerPass sqrt A P st (m + 1)).w.z.get a)) = Z at hls hindep
  have hZa : ∀ a, vecOf n ((fInnerPass sqrt A P st (m + 1)).w.z.get a) = Z a := fun a => by rw [← hZ]
  simp only [hZa] at hls hindep
  obtain ⟨_, bs⟩ := backSubst_spec' H m (⟨fun a => -H.get a m⟩ : FArr K)
  set y : ℕ → K := fun i => if i = m then 1 else (backSubst m H (⟨fun a => -H.get a m⟩ : FArr K)).get i with hy
  have hym : y m = 1 := by simp [hy]
  have hker : ∀ a, a < m + 1 → ∑ i ∈ Ico a (m + 1), H.get a i * y i = 0 := by
    intro a ha
    rw [sum_Ico_succ_top (by omega)]
    by_cases ham : a < m
    · have h1 : ∑ i ∈ Ico a m, H.get a i * y i
          = ∑ i ∈ Ico a m, H.get a i * (backSubst m H (⟨fun a => -H.get a m⟩ : FArr K)).get i := by
        apply sum_congr rfl
        intro i hi
        have : i ≠ m := by have := (mem_Ico.mp hi).2; omega
        simp [hy, this]
      rw [h1, bs a ham (hd a (by omega) (hnb a ham)), hym]
      ring
    · have : a = m := by omega
      subst this
      rw [Ico_self, sum_empty, hdiag]; ring
  have hconst : ∀ c : K,
      (vecOf n f - matOf A n n *ᵥ (vecOf n st.x + c • ∑ i ∈ range (m + 1), y i • Z i))
        ⬝ᵥ (vecOf n f - matOf A n n *ᵥ (vecOf n st.x + c • ∑ i ∈ range (m + 1), y i • Z i))
      = (vecOf n f - matOf A n n *ᵥ vecOf n st.x) ⬝ᵥ (vecOf n f - matOf A n n *ᵥ vecOf n st.x) := by
    intro c
    have e1 : c • ∑ i ∈ range (m + 1), y i • Z i = ∑ i ∈ range (m + 1), (fun i => c * y i) i • Z i := by
      rw [smul_sum]; apply sum_congr rfl; intro i _; rw [mul_smul]
    have e0' : vecOf n st.x = vecOf n st.x + ∑ i ∈ range (m + 1), (fun _ => (0 : K)) i • Z i := by
      simp
    rw [e1, hls]
    conv_rhs => rw [e0', hls]
    congr 1
    apply sum_congr rfl
    intro a ha
    have ha' : a < m + 1 := mem_range.mp ha
    have z1 : ∑ i ∈ Ico a (m + 1), H.get a i * (c * y i) = 0 := by
      have : ∑ i ∈ Ico a (m + 1), H.get a i * (c * y i) = c * ∑ i ∈ Ico a (m + 1), H.get a i * y i := by
        rw [mul_sum]; apply sum_congr rfl; intro i _; ring
      rw [this, hker a ha', mul_zero]
    have z2 : ∑ i ∈ Ico a (m + 1), H.get a i * (0 : K) = 0 := by simp
    rw [z1, z2]
  set u : Fin n → K := ∑ i ∈ range (m + 1), y i • Z i with hu
  have h1 := hconst 1
  have h2 := hconst (-1)
  rw [mulVec_add, mulVec_smul, ← sub_sub] at h1 h2
  generalize vecOf n f - matOf A n n *ᵥ vecOf n st.x = R0 at h1 h2
  generalize hw : matOf A n n *ᵥ u = w at h1 h2
  have hww : w ⬝ᵥ w = 0 := by
    simp only [one_smul, neg_smul, sub_neg_eq_add, sub_dotProduct, dotProduct_sub, add_dotProduct,
      dotProduct_add] at h1 h2
    have hc := dotProduct_comm R0 w
    linarith
  have hw0 : w = 0 := dotProduct_self_eq_zero.mp hww
  have hu0 : u = 0 := hAinj u (by rw [hw, hw0])
  have := hindep y hu0 m (Nat.lt_succ_self m)
  rw [hym] at this
  exact one_ne_zero this

/-- **breakdown returns the exact solution (FGMRES)**: `f − A x = 0` for the iterate after the pass of the breakdown -/
theorem fbreakdown_exact (m : ℕ) (hroots : RootsExact .right sqrt A P (toG st) (m + 1))
    (hnb : ∀ i, i < m → arnoldiNorm .right sqrt A P (toG st) i ≠ 0)
    (hAinj : ∀ u : Fin n → K, matOf A n n *ᵥ u = 0 → u = 0)
    (hindep : ∀ c : ℕ → K, ∑ i ∈ range (m + 1), c i • vecOf n ((fInnerPass sqrt A P st (m + 1)).w.z.get i) = 0 →
      ∀ i, i < m + 1 → c i = 0)
    (hb : arnoldiNorm .right sqrt A P (toG st) m = 0) :
    residual f A (fCycleIterate sqrt A P st (m + 1)) = vclear n := by
  have hdiag := fbreakdown_diag_ne n A hA hn hm P hPsz sqrt f st hst hx m hroots hnb hAinj hindep hb
  have h := fcycle_residual_last_eq n A hA hn hm P hPsz sqrt f st hst hx m hroots hnb hdiag
  rw [(fsim sqrt A P st (m + 1)).h, (breakdown_innerRes .right sqrt A P (toG st) m hb).1, mul_zero] at h
  have r1 : (residual f A (fCycleIterate sqrt A P st (m + 1))).size = n := by rw [residual_size', hn]
  apply eq_of_vecOf_eq n _ _ r1 (by simp [vclear])
  rw [vecOf_zero_of_stdIp_self n _ r1 h]
  funext τ
  simp [vecOf, vclear]

end main

/-! ### the restarted sequence -/
section outer
variable {K : Type} [Field K] [LinearOrder K] [IsStrictOrderedRing K]

/-- the FGMRES state at the `break` test after `k` restart cycles -/
def fouterPass (prm : FGMRES.Params K) (sqrt : K → K) (A : CRS K) (P : Vec K → Vec K) (f : Vec K) (epsT : K)
    (st0 : FGMRES.St K) (k : ℕ) : FGMRES.St K :=
  (fun s => FGMRES.head stdIp sqrt A f (FGMRES.cycle prm stdIp sqrt A P epsT s))^[k] st0

theorem fouterPass_succ (prm : FGMRES.Params K) (sqrt : K → K) (A : CRS K) (P : Vec K → Vec K) (f : Vec K) (epsT : K)
    (st0 : FGMRES.St K) (k : ℕ) :
    fouterPass prm sqrt A P f epsT st0 (k + 1)
      = FGMRES.head stdIp sqrt A f (FGMRES.cycle prm stdIp sqrt A P epsT (fouterPass prm sqrt A P f epsT st0 k)) := by
  unfold fouterPass; rw [Function.iterate_succ_apply']

/-- the cycle keeps the length of `x` -/
theorem fcycle_x_size (n : ℕ) (prm : FGMRES.Params K) (sqrt : K → K) (A : CRS K) (P : Vec K → Vec K)
    (hPsz : ∀ u, (P u).size = n) (epsT : K) (st : FGMRES.St K) (hx : st.x.size = n) :
    (FGMRES.cycle prm stdIp sqrt A P epsT st).x.size = n := by
  obtain ⟨heq, _, _⟩ := finner_eq prm sqrt A P epsT st
  unfold FGMRES.cycle
  rw [heq]
  generalize (FGMRES.inner prm stdIp sqrt A P epsT st).j = j
  have hjj := fInnerPass_j sqrt A P st j
  have hsim := fsim sqrt A P st j
  show (linComb (combList (fInnerPass sqrt A P st j).j _ _) 1 st.x).size = n
  refine (BiCGStabL.linComb_spec n _ st.x ?_ hx).1
  intro cv hcv
  simp only [combList, List.mem_map, List.mem_range] at hcv
  obtain ⟨i, hi, rfl⟩ := hcv
  show ((fInnerPass sqrt A P st j).w.z.get i).size = n
  rw [hsim.z i hi]
  exact hPsz _

theorem fouterPass_inv (n : ℕ) (prm : FGMRES.Params K) (sqrt : K → K) (A : CRS K) (P : Vec K → Vec K)
    (hPsz : ∀ u, (P u).size = n) (f : Vec K) (epsT : K)
    (st0 : FGMRES.St K) (h0 : FGMRES.Inv stdIp sqrt A f st0) (hx0 : st0.x.size = n) (k : ℕ) :
    FGMRES.Inv stdIp sqrt A f (fouterPass prm sqrt A P f epsT st0 k) ∧
    (fouterPass prm sqrt A P f epsT st0 k).x.size = n := by
  induction k with
  | zero => exact ⟨h0, hx0⟩
  | succ k ih =>
    rw [fouterPass_succ]
    exact ⟨FGMRES.head_inv _ _ _ _ _, by rw [FGMRES.head_x]; exact fcycle_x_size n prm sqrt A P hPsz epsT _ ih.2⟩

/-- the FGMRES call returns a member of the restart sequence: the first one whose stopping test succeeds -/
theorem ffinal_eq_outerPass (prm : FGMRES.Params K) (sqrt : K → K) (A : CRS K) (P : Vec K → Vec K)
    (ws : FGMRES.Work K) (f x0 : Vec K) (nf : K) :
    ∃ k, k ≤ prm.maxiter ∧
      FGMRES.final prm stdIp sqrt A P ws f x0 nf
        = fouterPass prm sqrt A P f (FGMRES.epsTol prm nf) (FGMRES.init stdIp sqrt A ws f x0) k ∧
      (∀ i, i < k → FGMRES.stop prm.maxiter (FGMRES.epsTol prm nf)
        (fouterPass prm sqrt A P f (FGMRES.epsTol prm nf) (FGMRES.init stdIp sqrt A ws f x0) i) = false) ∧
      FGMRES.stop prm.maxiter (FGMRES.epsTol prm nf)
        (fouterPass prm sqrt A P f (FGMRES.epsTol prm nf) (FGMRES.init stdIp sqrt A ws f x0) k) = true := by
  obtain ⟨k, hk, h1, h2, _⟩ := loopN_iterate_conds (fun s => !FGMRES.stop prm.maxiter (FGMRES.epsTol prm nf) s)
    (fun s => FGMRES.head stdIp sqrt A f (FGMRES.cycle prm stdIp sqrt A P (FGMRES.epsTol prm nf) s)) prm.maxiter
    (FGMRES.init stdIp sqrt A ws f x0)
  have hfin : FGMRES.final prm stdIp sqrt A P ws f x0 nf
      = fouterPass prm sqrt A P f (FGMRES.epsTol prm nf) (FGMRES.init stdIp sqrt A ws f x0) k := h1
  refine ⟨k, hk, hfin, fun i hi => ?_, ?_⟩
  · have := h2 i hi
    unfold fouterPass
    simpa using this
  · rw [← hfin]; exact FGMRES.outer_fuel_ok prm stdIp sqrt A P ws f x0 nf

variable (n : ℕ) (A : CRS K) (hA : A.WF) (hn : A.nrows = n) (hm : A.ncols = n)
  (P : Vec K → Vec K) (hPsz : ∀ u, (P u).size = n)
include hA hn hm hPsz

theorem fouterPass_step_le (prm : FGMRES.Params K) (sqrt : K → K) (f : Vec K) (epsT : K) (heps : 0 < epsT)
    (st0 : FGMRES.St K) (h0 : FGMRES.Inv stdIp sqrt A f st0) (hx0 : st0.x.size = n) (k : ℕ)
    (hstop : FGMRES.stop prm.maxiter epsT (fouterPass prm sqrt A P f epsT st0 k) = false)
    (hroots : RootsExact .right sqrt A P (toG (fouterPass prm sqrt A P f epsT st0 k))
      (FGMRES.inner prm stdIp sqrt A P epsT (fouterPass prm sqrt A P f epsT st0 k)).j) :
    stdIp (residual f A (fouterPass prm sqrt A P f epsT st0 (k + 1)).x)
        (residual f A (fouterPass prm sqrt A P f epsT st0 (k + 1)).x)
      ≤ stdIp (residual f A (fouterPass prm sqrt A P f epsT st0 k).x)
        (residual f A (fouterPass prm sqrt A P f epsT st0 k).x) := by
  obtain ⟨⟨i1, i2⟩, hxk⟩ := fouterPass_inv n prm sqrt A P hPsz f epsT st0 h0 hx0 k
  have hnlt : ¬ (fouterPass prm sqrt A P f epsT st0 k).normR < epsT :=
    (FGMRES.stop_false prm.maxiter epsT _ (by rw [hstop]; rfl)).2
  have hne : (fouterPass prm sqrt A P f epsT st0 k).normR ≠ 0 := by
    intro h; rw [h] at hnlt; exact hnlt heps
  have hst : FCycleStart sqrt A f (fouterPass prm sqrt A P f epsT st0 k) := ⟨i1, by rw [i2, i1], hne⟩
  rw [fouterPass_succ, FGMRES.head_x]
  exact fcycle_monotone n A hA hn hm P hPsz sqrt f _ hst hxk prm epsT (not_lt.mpr (le_of_lt heps)) hroots

/-- **the whole restarted FGMRES sequence is monotone** -/
theorem fouterPass_antitone (prm : FGMRES.Params K) (sqrt : K → K) (f : Vec K) (epsT : K) (heps : 0 < epsT)
    (st0 : FGMRES.St K) (h0 : FGMRES.Inv stdIp sqrt A f st0) (hx0 : st0.x.size = n) (k : ℕ)
    (hstop : ∀ i, i < k → FGMRES.stop prm.maxiter epsT (fouterPass prm sqrt A P f epsT st0 i) = false)
    (hroots : ∀ i, i < k → RootsExact .right sqrt A P (toG (fouterPass prm sqrt A P f epsT st0 i))
      (FGMRES.inner prm stdIp sqrt A P epsT (fouterPass prm sqrt A P f epsT st0 i)).j)
    (i j : ℕ) (hij : i ≤ j) (hj : j ≤ k) :
    stdIp (residual f A (fouterPass prm sqrt A P f epsT st0 j).x) (residual f A (fouterPass prm sqrt A P f epsT st0 j).x)
      ≤ stdIp (residual f A (fouterPass prm sqrt A P f epsT st0 i).x)
        (residual f A (fouterPass prm sqrt A P f epsT st0 i).x) := by
  induction j with
  | zero =>
    have : i = 0 := by omega
    subst this; exact le_refl _
  | succ j ih =>
    by_cases h : i = j + 1
    · subst h; exact le_refl _
    · exact le_trans
        (fouterPass_step_le n A hA hn hm P hPsz prm sqrt f epsT heps st0 h0 hx0 j (hstop j (by omega)) (hroots j (by omega)))
        (ih (by omega) (by omega))

end outer

end Amgcl.Krylov
