import Amgcl.Proofs.SolverIDRs
/-!
Lemmas about the IDR(s) model, part 3 (property C15): **the observable result of a call does not depend on the work
space the solver object is in** — every work array is written before it is read.

`init` overwrites `r`, (`x_s`, `r_s` with smoothing), `G[i]`, `U[i]`, `M(i,j)` for `i, j < s`; a pass of the `while`
body first overwrites `f[i]`, `i < s`; the triangular solve writes `c[i]` (`k ≤ i < s`) before it reads `c[j]`
(`k ≤ j < i`); `v`, `t` are pure outputs.  The relation between two runs (`Rel`) therefore says NOTHING about `c`, `v`,
`t`, about `f` at the head of a pass, about `x_s`, `r_s` without smoothing, nor about indices `≥ s`.
-/
namespace Amgcl.Solver.IDRs
open Amgcl Amgcl.Solver
set_option linter.unusedSectionVars false
set_option linter.unusedSimpArgs false
set_option linter.unusedVariables false

variable {K : Type} [Field K] [DecidableEq K] [LT K] [DecidableLT K]

/-! ### a `for (i = k; i < n; ++i)` loop, relational form with an index -/

theorem foldl_drop_rel {σ τ : Type} (f : σ → Nat → σ) (g : τ → Nat → τ) (R : Nat → σ → τ → Prop) (k n : Nat)
    (hk : k ≤ n) (a : σ) (b : τ) (h0 : R k a b)
    (hstep : ∀ i s t, k ≤ i → i < n → R i s t → R (i + 1) (f s i) (g t i)) :
    R n (((List.range n).drop k).foldl f a) (((List.range n).drop k).foldl g b) := by
  induction n, hk using Nat.le_induction with
  | base =>
    rw [List.drop_eq_nil_of_le (by simp)]
    exact h0
  | succ n hkn ih =>
    rw [List.range_succ, List.drop_append_of_le_length (by simpa using hkn), List.foldl_append, List.foldl_append]
    exact hstep n _ _ hkn (Nat.lt_succ_self n) (ih (fun i s t h1 h2 => hstep i s t h1 (Nat.lt_succ_of_lt h2)))

theorem spmv_z' (A : CRS K) (u z z' : Vec K) : spmv 1 A u 0 z = spmv 1 A u 0 z' := by simp [spmv]
theorem axpbypcz_z (a b : K) (x y z z' : Vec K) : axpbypcz a x b y 0 z = axpbypcz a x b y 0 z' := by
  simp [axpbypcz]

/-! ### the relation -/

/-- what the loop reads of the work space -/
def RelW (prm : Params K) (w w' : Work K) : Prop :=
  w.r = w'.r ∧ (prm.smoothing = true → w.xs = w'.xs ∧ w.rs = w'.rs) ∧
  (∀ i, i < prm.s → w.G i = w'.G i ∧ w.U i = w'.U i) ∧
  (∀ i j, i < prm.s → j < prm.s → w.M i j = w'.M i j)

/-- the relation between two runs at the head of a pass of the `while` loop -/
def Rel (prm : Params K) (s s' : St K) : Prop :=
  s.iter = s'.iter ∧ s.resNorm = s'.resNorm ∧ s.om = s'.om ∧ s.brk = s'.brk ∧ s.x = s'.x ∧ RelW prm s.w s'.w

/-- the relation inside the `for k` loop: additionally `f[i]`, `i < s` -/
def RelF (prm : Params K) (s s' : St K) : Prop :=
  Rel prm s s' ∧ ∀ i, i < prm.s → s.w.f i = s'.w.f i

/-! ### the triangular solve -/

/-- one `i` pass of the triangular solve -/
def solveStep (k : Nat) (w : Work K) (acc : FArr K × Vec K) (i : Nat) : FArr K × Vec K :=
  let c0 := setF acc.1 i (w.f i)
  let c1 := ((List.range i).drop k).foldl (fun c j => setF c i (c i - w.M i j * c j)) c0
  let c2 := setF c1 i (inv1 (w.M i i) * c1 i)
  (c2, axpby (-(c2 i)) (w.G i) 1 acc.2)

theorem solveC_eq (s k : Nat) (w : Work K) (v : Vec K) :
    solveC s k w v = ((List.range s).drop k).foldl (solveStep k w) (w.c, v) := rfl

theorem solveStep_rel (s k i : Nat) (hki : k ≤ i) (his : i < s) (w w' : Work K)
    (hf : ∀ a, a < s → w.f a = w'.f a) (hM : ∀ a b, a < s → b < s → w.M a b = w'.M a b)
    (hG : ∀ a, a < s → w.G a = w'.G a) (acc acc' : FArr K × Vec K) (h2 : acc.2 = acc'.2)
    (h1 : ∀ j, k ≤ j → j < i → acc.1 j = acc'.1 j) :
    (solveStep k w acc i).2 = (solveStep k w' acc' i).2 ∧
    ∀ j, k ≤ j → j < i + 1 → (solveStep k w acc i).1 j = (solveStep k w' acc' i).1 j := by
  have hc1 := foldl_mem_rel (fun (c : FArr K) j => setF c i (c i - w.M i j * c j))
    (fun (c : FArr K) j => setF c i (c i - w'.M i j * c j))
    (fun c c' : FArr K => c i = c' i ∧ ∀ j, k ≤ j → j < i → c j = c' j) ((List.range i).drop k)
    (setF acc.1 i (w.f i)) (setF acc'.1 i (w'.f i))
    (by
      refine ⟨?_, fun j hkj hj => ?_⟩
      · rw [setF_same, setF_same]; exact hf i his
      · rw [setF_other _ _ _ _ (by omega), setF_other _ _ _ _ (by omega)]; exact h1 j hkj hj)
    (by
      intro c c' j hj ⟨g1, g2⟩
      obtain ⟨hkj, hji⟩ := mem_range_drop hj
      refine ⟨?_, fun j' hkj' hj' => ?_⟩
      · rw [setF_same, setF_same, g1, g2 j hkj hji, hM i j his (by omega)]
      · rw [setF_other _ _ _ _ (by omega), setF_other _ _ _ _ (by omega)]; exact g2 j' hkj' hj')
  obtain ⟨g1, g2⟩ := hc1
  unfold solveStep
  dsimp only
  refine ⟨?_, fun j hkj hj => ?_⟩
  · rw [setF_same, setF_same, g1, hM i i his his, hG i his, h2]
  · rw [setF_get, setF_get]
    by_cases hji : j = i
    · rw [if_pos hji, if_pos hji, g1, hM i i his his]
    · rw [if_neg hji, if_neg hji]; exact g2 j hkj (by omega)

/-- the solve writes `c[i]`, `k ≤ i < s`, before reading it: results agree whatever `c` held before -/
theorem solveC_rel (s k : Nat) (hk : k ≤ s) (w w' : Work K) (v : Vec K)
    (hf : ∀ a, a < s → w.f a = w'.f a) (hM : ∀ a b, a < s → b < s → w.M a b = w'.M a b)
    (hG : ∀ a, a < s → w.G a = w'.G a) :
    (solveC s k w v).2 = (solveC s k w' v).2 ∧
    ∀ j, k ≤ j → j < s → (solveC s k w v).1 j = (solveC s k w' v).1 j := by
  rw [solveC_eq, solveC_eq]
  exact foldl_drop_rel (solveStep k w) (solveStep k w')
    (fun i (acc acc' : FArr K × Vec K) => acc.2 = acc'.2 ∧ ∀ j, k ≤ j → j < i → acc.1 j = acc'.1 j) k s hk
    (w.c, v) (w'.c, v) ⟨rfl, fun j h1 h2 => by omega⟩
    (fun i acc acc' hki his ⟨h2, h1⟩ => solveStep_rel s k i hki his w w' hf hM hG acc acc' h2 h1)

/-! ### one `k` pass -/

theorem kcv_rel (prm : Params K) (k : Nat) (hk : k < prm.s) (st st' : St K) (h : RelF prm st st') :
    kv prm k st = kv prm k st' ∧ ∀ j, k ≤ j → j < prm.s → kc prm k st j = kc prm k st' j := by
  obtain ⟨⟨_, _, _, _, _, hr, _, hGU, hM⟩, hf⟩ := h
  unfold kc kv
  rw [hr]
  exact solveC_rel prm.s k (Nat.le_of_lt hk) st.w st'.w (vcopy st'.w.r) hf hM (fun a ha => (hGU a ha).1)

theorem kuk1_rel (prm : Params K) (Prec : Vec K → Vec K) (k : Nat) (hk : k < prm.s) (st st' : St K)
    (h : RelF prm st st') : kuk1 prm Prec k st = kuk1 prm Prec k st' := by
  obtain ⟨hv, hc⟩ := kcv_rel prm k hk st st' h
  obtain ⟨⟨_, _, hom, _, _, _, _, hGU, _⟩, _⟩ := h
  unfold kuk1
  apply foldl_mem_rel _ _ (fun u u' : Vec K => u = u')
  · rw [hom, hv, hc k (Nat.le_refl k) hk, (hGU k hk).2]
  · intro u u' i hi huu
    obtain ⟨h1, h2⟩ := mem_range_drop hi
    show axpby _ _ 1 u = axpby _ _ 1 u'
    rw [huu, hc i (by omega) h2, (hGU i h2).2]

theorem kgu_rel (prm : Params K) (ip : Vec K → Vec K → K) (A : CRS K) (Prec : Vec K → Vec K) (Pv : FArr (Vec K))
    (k : Nat) (hk : k < prm.s) (st st' : St K) (h : RelF prm st st') :
    kgu prm ip A Prec Pv k st = kgu prm ip A Prec Pv k st' := by
  have hu := kuk1_rel prm Prec k hk st st' h
  obtain ⟨⟨_, _, _, _, _, _, _, hGU, hM⟩, _⟩ := h
  unfold kgu
  rw [hu]
  apply foldl_mem_rel _ _ (fun a a' : Vec K × Vec K => a = a')
  · rw [spmv_z' A _ (st.w.G k) (st'.w.G k)]
  · intro acc acc' i hi e
    have hik : i < prm.s := lt_trans (List.mem_range.mp hi) hk
    subst e
    show (axpby (-(ip acc.1 (Pv i) / st.w.M i i)) (st.w.G i) 1 acc.1,
          axpby (-(ip acc.1 (Pv i) / st.w.M i i)) (st.w.U i) 1 acc.2) =
         (axpby (-(ip acc.1 (Pv i) / st'.w.M i i)) (st'.w.G i) 1 acc.1,
          axpby (-(ip acc.1 (Pv i) / st'.w.M i i)) (st'.w.U i) 1 acc.2)
    rw [hM i i hik hik, (hGU i hik).1, (hGU i hik).2]

theorem kM_rel (prm : Params K) (ip : Vec K → Vec K → K) (A : CRS K) (Prec : Vec K → Vec K) (Pv : FArr (Vec K))
    (k : Nat) (hk : k < prm.s) (st st' : St K) (h : RelF prm st st') :
    ∀ a b, a < prm.s → b < prm.s → (kM prm ip A Prec Pv k st) a b = (kM prm ip A Prec Pv k st') a b := by
  have hg := kgu_rel prm ip A Prec Pv k hk st st' h
  obtain ⟨⟨_, _, _, _, _, _, _, _, hM⟩, _⟩ := h
  unfold kM
  rw [hg]
  apply foldl_mem_rel _ _ (fun M M' : FArr2 K => ∀ a b, a < prm.s → b < prm.s → M a b = M' a b)
  · exact hM
  · intro M M' i hi hMM a b ha hb
    show (setF2 M i k _).get a b = (setF2 M' i k _).get a b
    rw [setF2_get, setF2_get, hMM a b ha hb]

theorem kbeta_rel (prm : Params K) (ip : Vec K → Vec K → K) (A : CRS K) (Prec : Vec K → Vec K) (Pv : FArr (Vec K))
    (k : Nat) (hk : k < prm.s) (st st' : St K) (h : RelF prm st st') :
    kbeta prm ip A Prec Pv k st = kbeta prm ip A Prec Pv k st' := by
  unfold kbeta
  rw [kM_rel prm ip A Prec Pv k hk st st' h k k hk hk, h.2 k hk]

theorem kx_rel (prm : Params K) (ip : Vec K → Vec K → K) (A : CRS K) (Prec : Vec K → Vec K) (Pv : FArr (Vec K))
    (k : Nat) (hk : k < prm.s) (st st' : St K) (h : RelF prm st st') :
    kx prm ip A Prec Pv k st = kx prm ip A Prec Pv k st' := by
  unfold kx
  rw [kbeta_rel prm ip A Prec Pv k hk st st' h, kgu_rel prm ip A Prec Pv k hk st st' h, h.1.2.2.2.2.1]

theorem kw1_rel (prm : Params K) (ip : Vec K → Vec K → K) (A : CRS K) (Prec : Vec K → Vec K) (Pv : FArr (Vec K))
    (k : Nat) (hk : k < prm.s) (st st' : St K) (h : RelF prm st st') :
    RelW prm (kw1 prm ip A Prec Pv k st) (kw1 prm ip A Prec Pv k st') := by
  have hg := kgu_rel prm ip A Prec Pv k hk st st' h
  have hm := kM_rel prm ip A Prec Pv k hk st st' h
  obtain ⟨⟨_, _, _, _, _, hr, hsm, hGU, _⟩, _⟩ := h
  refine ⟨hr, hsm, fun i hi => ?_, hm⟩
  show (setF st.w.G k _).get i = (setF st'.w.G k _).get i ∧ (setF st.w.U k _).get i = (setF st'.w.U k _).get i
  rw [setF_get, setF_get, setF_get, setF_get, hg]
  by_cases hik : i = k
  · rw [if_pos hik, if_pos hik, if_pos hik, if_pos hik]; exact ⟨rfl, rfl⟩
  · rw [if_neg hik, if_neg hik, if_neg hik, if_neg hik]; exact hGU i hi

theorem kw2_rel (prm : Params K) (ip : Vec K → Vec K → K) (A : CRS K) (Prec : Vec K → Vec K) (Pv : FArr (Vec K))
    (k : Nat) (hk : k < prm.s) (st st' : St K) (h : RelF prm st st') :
    RelW prm (kw2 prm ip A Prec Pv k st) (kw2 prm ip A Prec Pv k st') := by
  obtain ⟨_, g2, g3, g4⟩ := kw1_rel prm ip A Prec Pv k hk st st' h
  refine ⟨?_, g2, g3, g4⟩
  show axpby (-(kbeta prm ip A Prec Pv k st)) (kgu prm ip A Prec Pv k st).1 1 st.w.r
     = axpby (-(kbeta prm ip A Prec Pv k st')) (kgu prm ip A Prec Pv k st').1 1 st'.w.r
  rw [kbeta_rel prm ip A Prec Pv k hk st st' h, kgu_rel prm ip A Prec Pv k hk st st' h, h.1.2.2.2.2.2.1]

/-- the smoothing block reads `r`, `x_s`, `r_s` and the caller's `x`, never the old `t` -/
theorem post_rel (prm : Params K) (ip : Vec K → Vec K → K) (sqrt : K → K) (w w' : Work K) (x : Vec K)
    (h : RelW prm w w') :
    RelW prm (post prm ip sqrt w x).1 (post prm ip sqrt w' x).1 ∧
    (post prm ip sqrt w x).2 = (post prm ip sqrt w' x).2 ∧
    (post prm ip sqrt w x).1.f = w.f ∧ (post prm ip sqrt w' x).1.f = w'.f := by
  obtain ⟨hr, hsm, hGU, hM⟩ := h
  unfold post
  cases hs : prm.smoothing with
  | false =>
    rw [if_neg Bool.false_ne_true, if_neg Bool.false_ne_true]
    exact ⟨⟨hr, hsm, hGU, hM⟩, by show nrmA ip sqrt w.r = nrmA ip sqrt w'.r; rw [hr], rfl, rfl⟩
  | true =>
    obtain ⟨hxs, hrs⟩ := hsm hs
    rw [if_pos rfl, if_pos rfl]
    have e1 : (smooth ip sqrt w x).1.rs = (smooth ip sqrt w' x).1.rs := by
      simp only [smooth, hr, hxs, hrs, axpbypcz_z _ _ _ _ w.t w'.t]
    have e2 : (smooth ip sqrt w x).1.xs = (smooth ip sqrt w' x).1.xs := by
      simp only [smooth, hr, hxs, hrs, axpbypcz_z _ _ _ _ w.t w'.t]
    have e3 : (smooth ip sqrt w x).2 = (smooth ip sqrt w' x).2 := by
      simp only [smooth, hr, hxs, hrs, axpbypcz_z _ _ _ _ w.t w'.t]
    exact ⟨⟨hr, fun _ => ⟨e2, e1⟩, hGU, hM⟩, e3, rfl, rfl⟩

theorem kpost_rel (prm : Params K) (ip : Vec K → Vec K → K) (sqrt : K → K) (A : CRS K) (Prec : Vec K → Vec K)
    (Pv : FArr (Vec K)) (k : Nat) (hk : k < prm.s) (st st' : St K) (h : RelF prm st st') :
    RelW prm (kpost prm ip sqrt A Prec Pv k st).1 (kpost prm ip sqrt A Prec Pv k st').1 ∧
    (kpost prm ip sqrt A Prec Pv k st).2 = (kpost prm ip sqrt A Prec Pv k st').2 ∧
    (kpost prm ip sqrt A Prec Pv k st).1.f = st.w.f ∧ (kpost prm ip sqrt A Prec Pv k st').1.f = st'.w.f := by
  unfold kpost
  rw [kx_rel prm ip A Prec Pv k hk st st' h]
  exact post_rel prm ip sqrt _ _ _ (kw2_rel prm ip A Prec Pv k hk st st' h)

theorem kf_rel (prm : Params K) (ip : Vec K → Vec K → K) (sqrt : K → K) (A : CRS K) (Prec : Vec K → Vec K)
    (Pv : FArr (Vec K)) (k : Nat) (hk : k < prm.s) (st st' : St K) (h : RelF prm st st') :
    ∀ a, a < prm.s → (kf prm ip sqrt A Prec Pv k st) a = (kf prm ip sqrt A Prec Pv k st') a := by
  obtain ⟨_, _, p3, p4⟩ := kpost_rel prm ip sqrt A Prec Pv k hk st st' h
  have hm := kM_rel prm ip A Prec Pv k hk st st' h
  unfold kf
  rw [kbeta_rel prm ip A Prec Pv k hk st st' h, p3, p4]
  apply foldl_mem_rel _ _ (fun f f' : FArr K => ∀ a, a < prm.s → f a = f' a)
  · exact h.2
  · intro f f' i hi hff a ha
    obtain ⟨_, his⟩ := mem_range_drop hi
    show (setF f i _).get a = (setF f' i _).get a
    rw [setF_get, setF_get, hff a ha, hff i his, hm i k his hk]

/-- **one `k` pass on related states**: same outcome (normal with the same `break` flag, or the same exception) and
related states -/
theorem kStep_rel (prm : Params K) (ip : Vec K → Vec K → K) (sqrt : K → K) (A : CRS K) (Prec : Vec K → Vec K)
    (Pv : FArr (Vec K)) (epsT : K) (k : Nat) (hk : k < prm.s) (st st' : St K) (h : RelF prm st st') :
    (∃ t t' b, kStep prm ip sqrt A Prec Pv epsT k st = .ok (t, b) ∧
       kStep prm ip sqrt A Prec Pv epsT k st' = .ok (t', b) ∧ RelF prm t t') ∨
    (∃ e t t', kStep prm ip sqrt A Prec Pv epsT k st = .error (e, t) ∧
       kStep prm ip sqrt A Prec Pv epsT k st' = .error (e, t') ∧ Rel prm t t') := by
  have e1 := kM_rel prm ip A Prec Pv k hk st st' h k k hk hk
  have hw1 := kw1_rel prm ip A Prec Pv k hk st st' h
  have ex := kx_rel prm ip A Prec Pv k hk st st' h
  obtain ⟨p1, p2, p3, p4⟩ := kpost_rel prm ip sqrt A Prec Pv k hk st st' h
  have hkf := kf_rel prm ip sqrt A Prec Pv k hk st st' h
  obtain ⟨⟨hit, hres, hom, hbrk, hx, _⟩, hf⟩ := h
  rw [kStep_eq, kStep_eq]
  by_cases c1 : (kM prm ip A Prec Pv k st') k k = 0
  · rw [if_pos c1, if_pos (e1.trans c1)]
    right
    exact ⟨_, _, _, rfl, rfl, hit, hres, hom, hbrk, hx, hw1⟩
  · rw [if_neg c1, if_neg (fun hh => c1 (e1.symm.trans hh))]
    left
    by_cases c2 : ¬ epsT < (kpost prm ip sqrt A Prec Pv k st').2
    · rw [if_pos c2, if_pos (by rw [p2]; exact c2)]
      exact ⟨_, _, true, rfl, rfl, ⟨hit, p2, hom, hbrk, ex, p1⟩, fun i hi => by
        show (kpost prm ip sqrt A Prec Pv k st).1.f i = (kpost prm ip sqrt A Prec Pv k st').1.f i
        rw [p3, p4]; exact hf i hi⟩
    · rw [if_neg c2, if_neg (by rw [p2]; exact c2)]
      by_cases c3 : prm.maxiter ≤ st'.iter + 1
      · rw [if_pos c3, if_pos (by rw [hit]; exact c3)]
        exact ⟨_, _, true, rfl, rfl, ⟨by show st.iter + 1 = st'.iter + 1; rw [hit], p2, hom, hbrk, ex, p1⟩,
          fun i hi => by
            show (kpost prm ip sqrt A Prec Pv k st).1.f i = (kpost prm ip sqrt A Prec Pv k st').1.f i
            rw [p3, p4]; exact hf i hi⟩
      · rw [if_neg c3, if_neg (by rw [hit]; exact c3)]
        exact ⟨_, _, false, rfl, rfl, ⟨by show st.iter + 1 = st'.iter + 1; rw [hit], p2, hom, hbrk, ex, p1⟩,
          hkf⟩

/-- the `for k` loop on related states -/
theorem kLoop_rel (prm : Params K) (ip : Vec K → Vec K → K) (sqrt : K → K) (A : CRS K) (Prec : Vec K → Vec K)
    (Pv : FArr (Vec K)) (epsT : K) :
    ∀ (fuel k : Nat) (st st' : St K), k + fuel = prm.s → RelF prm st st' →
      (∃ t t', kLoop prm ip sqrt A Prec Pv epsT fuel k st = .ok t ∧
         kLoop prm ip sqrt A Prec Pv epsT fuel k st' = .ok t' ∧ RelF prm t t') ∨
      (∃ e t t', kLoop prm ip sqrt A Prec Pv epsT fuel k st = .error (e, t) ∧
         kLoop prm ip sqrt A Prec Pv epsT fuel k st' = .error (e, t') ∧ Rel prm t t') := by
  intro fuel
  induction fuel with
  | zero => intro k st st' _ h; left; exact ⟨st, st', rfl, rfl, h⟩
  | succ n ih =>
    intro k st st' hk h
    rcases kStep_rel prm ip sqrt A Prec Pv epsT k (by omega) st st' h with
      ⟨t, t', b, h1, h2, h3⟩ | ⟨e, t, t', h1, h2, h3⟩
    · cases b with
      | true =>
        left
        refine ⟨t, t', ?_, ?_, h3⟩
        · rw [kLoop, h1]
        · rw [kLoop, h2]
      | false =>
        rcases ih (k + 1) t t' (by omega) h3 with ⟨u, u', g1, g2, g3⟩ | ⟨e, u, u', g1, g2, g3⟩
        · left
          refine ⟨u, u', ?_, ?_, g3⟩
          · rw [kLoop, h1]; exact g1
          · rw [kLoop, h2]; exact g2
        · right
          refine ⟨e, u, u', ?_, ?_, g3⟩
          · rw [kLoop, h1]; exact g1
          · rw [kLoop, h2]; exact g2
    · right
      refine ⟨e, t, t', ?_, ?_, h3⟩
      · rw [kLoop, h1]
      · rw [kLoop, h2]

/-! ### one pass of the `while` body -/

/-- the first statement of a pass overwrites `f[i]`, `i < s` -/
theorem bodyF_rel (prm : Params K) (ip : Vec K → Vec K → K) (Pv : FArr (Vec K)) (st st' : St K)
    (h : Rel prm st st') : RelF prm (bodyF prm ip Pv st) (bodyF prm ip Pv st') := by
  obtain ⟨hit, hres, hom, hbrk, hx, hr, hsm, hGU, hM⟩ := h
  refine ⟨⟨hit, hres, hom, hbrk, hx, hr, hsm, hGU, hM⟩, ?_⟩
  show ∀ i, i < prm.s →
    ((List.range prm.s).foldl (fun f i => setF f i (ip st.w.r (Pv i))) st.w.f) i =
    ((List.range prm.s).foldl (fun f i => setF f i (ip st'.w.r (Pv i))) st'.w.f) i
  rw [hr]
  apply foldl_range_rel _ _ (fun n (f f' : FArr K) => ∀ i, i < n → f i = f' i)
  · intro i hi; omega
  · intro n f f' _ hff i hi
    show (setF f n _).get i = (setF f' n _).get i
    rw [setF_get, setF_get]
    by_cases hin : i = n
    · rw [if_pos hin, if_pos hin]
    · rw [if_neg hin, if_neg hin]; exact hff i (by omega)

theorem tail_rel (prm : Params K) (ip : Vec K → Vec K → K) (sqrt : K → K) (A : CRS K) (Prec : Vec K → Vec K)
    (rhs : Vec K) (epsT : K) (st st' : St K) (h : Rel prm st st') :
    (∃ t t', tail prm ip sqrt A Prec rhs epsT st = .ok t ∧ tail prm ip sqrt A Prec rhs epsT st' = .ok t' ∧
       Rel prm t t') ∨
    (∃ e t t', tail prm ip sqrt A Prec rhs epsT st = .error (e, t) ∧
       tail prm ip sqrt A Prec rhs epsT st' = .error (e, t') ∧ Rel prm t t') := by
  obtain ⟨hit, hres, hom, hbrk, hx, hr, hsm, hGU, hM⟩ := h
  have ebt : bt A Prec st = bt A Prec st' := by
    unfold bt; rw [hr]; exact spmv_z' A _ _ _
  have ebom : bom prm ip sqrt A Prec st = bom prm ip sqrt A Prec st' := by
    unfold bom; rw [ebt, hr]
  have ebx : bx prm ip sqrt A Prec st = bx prm ip sqrt A Prec st' := by
    unfold bx; rw [ebom, hr, hx]
  have hw1 : RelW prm (bw1 A Prec st) (bw1 A Prec st') := ⟨hr, hsm, hGU, hM⟩
  have hw2 : RelW prm (bw2 prm ip sqrt A Prec rhs st) (bw2 prm ip sqrt A Prec rhs st') := by
    refine ⟨?_, hsm, hGU, hM⟩
    show (if prm.replacement then residual rhs A (bx prm ip sqrt A Prec st)
          else axpby (-(bom prm ip sqrt A Prec st)) (bt A Prec st) 1 st.w.r) =
         (if prm.replacement then residual rhs A (bx prm ip sqrt A Prec st')
          else axpby (-(bom prm ip sqrt A Prec st')) (bt A Prec st') 1 st'.w.r)
    rw [ebx, ebom, ebt, hr]
  obtain ⟨p1, p2, _, _⟩ := post_rel prm ip sqrt _ _ (bx prm ip sqrt A Prec st') hw2
  unfold tail
  by_cases c1 : ¬ epsT < st'.resNorm ∨ prm.maxiter ≤ st'.iter
  · rw [if_pos c1, if_pos (by rw [hres, hit]; exact c1)]
    left
    exact ⟨_, _, rfl, rfl, hit, hres, hom, rfl, hx, hr, hsm, hGU, hM⟩
  · rw [if_neg c1, if_neg (by rw [hres, hit]; exact c1)]
    by_cases c2 : bom prm ip sqrt A Prec st' = 0
    · rw [if_pos c2, if_pos (ebom.trans c2)]
      right
      exact ⟨_, _, _, rfl, rfl, hit, hres, ebom, hbrk, hx, hw1⟩
    · rw [if_neg c2, if_neg (fun hh => c2 (ebom.symm.trans hh))]
      left
      refine ⟨_, _, rfl, rfl, ?_, ?_, ebom, rfl, ebx, ?_⟩
      · show st.iter + 1 = st'.iter + 1
        rw [hit]
      · show (post prm ip sqrt (bw2 prm ip sqrt A Prec rhs st) (bx prm ip sqrt A Prec st)).2 = _
        rw [ebx]; exact p2
      · show RelW prm (post prm ip sqrt (bw2 prm ip sqrt A Prec rhs st) (bx prm ip sqrt A Prec st)).1 _
        rw [ebx]; exact p1

/-- **one pass of the `while` body on related states** -/
theorem body_rel (prm : Params K) (ip : Vec K → Vec K → K) (sqrt : K → K) (A : CRS K) (Prec : Vec K → Vec K)
    (Pv : FArr (Vec K)) (rhs : Vec K) (epsT : K) (st st' : St K) (h : Rel prm st st') :
    (∃ t t', body prm ip sqrt A Prec Pv rhs epsT st = .ok t ∧ body prm ip sqrt A Prec Pv rhs epsT st' = .ok t' ∧
       Rel prm t t') ∨
    (∃ e t t', body prm ip sqrt A Prec Pv rhs epsT st = .error (e, t) ∧
       body prm ip sqrt A Prec Pv rhs epsT st' = .error (e, t') ∧ Rel prm t t') := by
  rw [body_eq, body_eq]
  rcases kLoop_rel prm ip sqrt A Prec Pv epsT prm.s 0 _ _ (by omega) (bodyF_rel prm ip Pv st st' h) with
    ⟨t, t', h1, h2, h3⟩ | ⟨e, t, t', h1, h2, h3⟩
  · rw [h1, h2]
    exact tail_rel prm ip sqrt A Prec rhs epsT t t' h3.1
  · rw [h1, h2]
    right
    exact ⟨e, t, t', rfl, rfl, h3⟩

/-- `init` overwrites everything the loop reads -/
theorem init_rel (prm : Params K) (ws ws' : Work K) (x0 r : Vec K) (n : K) :
    Rel prm (init prm ws x0 r n) (init prm ws' x0 r n) := by
  obtain ⟨a1, a2, a3, a4⟩ := initW_spec prm ws x0 r
  obtain ⟨b1, b2, b3, b4⟩ := initW_spec prm ws' x0 r
  refine ⟨rfl, rfl, rfl, rfl, rfl, ?_⟩
  rw [init_w, init_w]
  refine ⟨by rw [a1, b1], fun hs => ?_, fun i hi => ?_, fun i j hi hj => ?_⟩
  · rw [(a2 hs).1, (a2 hs).2, (b2 hs).1, (b2 hs).2]; exact ⟨rfl, rfl⟩
  · rw [(a3 i hi).1, (a3 i hi).2, (b3 i hi).1, (b3 i hi).2]; exact ⟨rfl, rfl⟩
  · rw [a4 i j hi hj, b4 i j hi hj]

/-- the two runs of the `while` loop end with the same outcome and in related states -/
theorem final_rel (prm : Params K) (ip : Vec K → Vec K → K) (sqrt : K → K) (A : CRS K) (Prec : Vec K → Vec K)
    (Pv : FArr (Vec K)) (ws ws' : Work K) (f x0 : Vec K) (nf : K) :
    (final prm ip sqrt A Prec Pv ws f x0 nf).1 = (final prm ip sqrt A Prec Pv ws' f x0 nf).1 ∧
    Rel prm (final prm ip sqrt A Prec Pv ws f x0 nf).2 (final prm ip sqrt A Prec Pv ws' f x0 nf).2 := by
  apply loopE_rel (cond prm.maxiter (epsTol prm nf)) (body prm ip sqrt A Prec Pv f (epsTol prm nf)) (Rel prm)
  · intro s s' h
    obtain ⟨hit, hres, _, hbrk, _⟩ := h
    simp only [cond, hit, hres, hbrk]
  · intro s s' h _
    exact body_rel prm ip sqrt A Prec Pv f _ s s' h
  · exact init_rel prm ws ws' x0 _ _

/-- **C15 for IDR(s)**: outcome (returned pair or exception kind) and the caller's `x` — also the partially updated
`x` after an exception — do not depend on the state of the work space, for ALL inputs -/
theorem run_obs_indep (prm : Params K) (ip : Vec K → Vec K → K) (sqrt : K → K) (eps : K) (A : CRS K)
    (Prec : Vec K → Vec K) (Pv : FArr (Vec K)) (ws ws' : Work K) (f x0 : Vec K) :
    (run prm ip sqrt eps A Prec Pv ws f x0).obs = (run prm ip sqrt eps A Prec Pv ws' f x0).obs := by
  cases hp : prologueA prm.nsSearch ip sqrt eps f with
  | trivial n =>
    rw [run_trivial prm ip sqrt eps A Prec Pv ws f x0 n hp, run_trivial prm ip sqrt eps A Prec Pv ws' f x0 n hp]
    rfl
  | go nf =>
    rw [run_go prm ip sqrt eps A Prec Pv ws f x0 nf hp, run_go prm ip sqrt eps A Prec Pv ws' f x0 nf hp]
    by_cases hc : ¬ epsTol prm nf < nrmA ip sqrt (residual f A x0)
    · rw [if_pos hc, if_pos hc]; rfl
    · rw [if_neg hc, if_neg hc]
      obtain ⟨he, hit, hres, _, _, hx, _, hsm, _, _⟩ := final_rel prm ip sqrt A Prec Pv ws ws' f x0 nf
      cases h : final prm ip sqrt A Prec Pv ws f x0 nf with
      | mk oe st =>
        cases h' : final prm ip sqrt A Prec Pv ws' f x0 nf with
        | mk oe' st' =>
          rw [h, h'] at he hit hres hx hsm
          simp only at he hit hres hx hsm
          subst he
          cases oe with
          | some e => simp only [Run.obs, hx]
          | none =>
            simp only [Run.obs, hit, hres, hx]
            cases hs : prm.smoothing with
            | false => simp only [Bool.false_eq_true, if_false]
            | true => simp only [if_true, (hsm hs).1]

/-- the history form: any sequence of calls on one solver object (also through calls that threw) returns what fresh
objects return -/
theorem history_eq_fresh (prm : Params K) (ip : Vec K → Vec K → K) (sqrt : K → K) (eps : K) (Pv : FArr (Vec K))
    (w w0 : Work K) (cs : List (Call K)) :
    history (call prm ip sqrt eps Pv) w cs = cs.map (fun c => (call prm ip sqrt eps Pv w0 c).1) :=
  history_eq_fresh_of_indep _ (fun a b c => run_obs_indep prm ip sqrt eps c.A c.P Pv a b c.f c.x0) w0 w cs

end Amgcl.Solver.IDRs
