import Amgcl.Proofs.AmgCycle2
import Amgcl.Proofs.AmgLast
/-!
`amg::apply` (pre_cycles cycles from a cleared vector, or a copy) and the link from constructed hierarchies
(`Chain`) to the shape predicate `HierOK` used by the cycle theorems.
-/
namespace Amgcl
namespace Amg
open Relax

variable {K S : Type} [CommRing K] [DecidableEq K] [Nontrivial K]

section apply
variable (prm : Params) (sm : Smoother K S) (direct : CRS K → Vec K → Vec K)

theorem iterCycle_len {n : Nat} {ls : List (Level K S)} (h : HierOK sm direct n ls) (rhs : Vec K) (k : Nat)
    (st : Vec K × List (Scratch K)) (hl : st.2.length = ls.length) :
    (iter (fun (st : Vec K × List (Scratch K)) => cycle prm sm direct ls st.2 rhs st.1) k st).2.length = ls.length := by
  induction k generalizing st with
  | zero => exact hl
  | succ k ih => rw [iter_succ]; exact ih _ ((cycle_ok prm sm direct h).len_out _ _ _ hl)

theorem iterCycle_indep {n : Nat} {ls : List (Level K S)} (h : HierOK sm direct n ls) (rhs : Vec K) (k : Nat)
    (st st' : Vec K × List (Scratch K)) (hx : st.1 = st'.1) (hl : st.2.length = ls.length)
    (hl' : st'.2.length = ls.length) :
    (iter (fun (st : Vec K × List (Scratch K)) => cycle prm sm direct ls st.2 rhs st.1) k st).1 =
      (iter (fun (st : Vec K × List (Scratch K)) => cycle prm sm direct ls st.2 rhs st.1) k st').1 := by
  induction k generalizing st st' with
  | zero => exact hx
  | succ k ih =>
    rw [iter_succ, iter_succ]
    have ok := cycle_ok prm sm direct h
    refine ih _ _ ?_ (ok.len_out _ _ _ hl) (ok.len_out _ _ _ hl')
    show (cycle prm sm direct ls st.2 rhs st.1).1 = (cycle prm sm direct ls st'.2 rhs st'.1).1
    rw [hx]; exact ok.indep _ _ _ _ hl hl'

theorem iterCycle_size {n : Nat} {ls : List (Level K S)} (h : HierOK sm direct n ls) (rhs : Vec K) (k : Nat)
    (st : Vec K × List (Scratch K)) (hr : rhs.size = n) (hx : st.1.size = n) (hl : st.2.length = ls.length) :
    (iter (fun (st : Vec K × List (Scratch K)) => cycle prm sm direct ls st.2 rhs st.1) k st).1.size = n := by
  induction k generalizing st with
  | zero => exact hx
  | succ k ih =>
    rw [iter_succ]
    have ok := cycle_ok prm sm direct h
    exact ih _ (ok.size _ _ _ hl hr hx) (ok.len_out _ _ _ hl)

theorem iterCycle_linear {n : Nat} {ls : List (Level K S)} (h : HierOK sm direct n ls) (a b : K) (f g : Vec K)
    (k : Nat) (st st1 st2 : Vec K × List (Scratch K)) (hf : f.size = n) (hg : g.size = n)
    (hx1 : st1.1.size = n) (hx2 : st2.1.size = n) (hx : st.1 = vlin a st1.1 b st2.1)
    (hl : st.2.length = ls.length) (hl1 : st1.2.length = ls.length) (hl2 : st2.2.length = ls.length) :
    (iter (fun (st : Vec K × List (Scratch K)) => cycle prm sm direct ls st.2 (vlin a f b g) st.1) k st).1 =
      vlin a (iter (fun (st : Vec K × List (Scratch K)) => cycle prm sm direct ls st.2 f st.1) k st1).1
        b (iter (fun (st : Vec K × List (Scratch K)) => cycle prm sm direct ls st.2 g st.1) k st2).1 := by
  induction k generalizing st st1 st2 with
  | zero => exact hx
  | succ k ih =>
    rw [iter_succ, iter_succ, iter_succ]
    have ok := cycle_ok prm sm direct h
    refine ih _ _ _ (ok.size _ _ _ hl1 hf hx1) (ok.size _ _ _ hl2 hg hx2) ?_ (ok.len_out _ _ _ hl)
      (ok.len_out _ _ _ hl1) (ok.len_out _ _ _ hl2)
    show (cycle prm sm direct ls st.2 (vlin a f b g) st.1).1 = _
    rw [hx]; exact ok.linear a b _ _ _ f g _ _ hl hl1 hl2 hf hg hx1 hx2

theorem apply_len {n : Nat} {ls : List (Level K S)} (h : HierOK sm direct n ls) (scr : List (Scratch K))
    (f : Vec K) (hl : scr.length = ls.length) : (apply prm sm direct ls scr f).2.length = ls.length := by
  unfold apply
  split
  · exact hl
  · exact iterCycle_len prm sm direct h f _ _ hl

theorem apply_indep {n : Nat} {ls : List (Level K S)} (h : HierOK sm direct n ls) (scr scr' : List (Scratch K))
    (f : Vec K) (hl : scr.length = ls.length) (hl' : scr'.length = ls.length) :
    (apply prm sm direct ls scr f).1 = (apply prm sm direct ls scr' f).1 := by
  unfold apply
  split
  · rfl
  · exact iterCycle_indep prm sm direct h f _ _ _ rfl hl hl'

theorem apply_linear' {n : Nat} {ls : List (Level K S)} (h : HierOK sm direct n ls) (a b : K)
    (scr scr1 scr2 : List (Scratch K)) (f g : Vec K) (hf : f.size = n) (hg : g.size = n)
    (hl : scr.length = ls.length) (hl1 : scr1.length = ls.length) (hl2 : scr2.length = ls.length) :
    (apply prm sm direct ls scr (vlin a f b g)).1 =
      vlin a (apply prm sm direct ls scr1 f).1 b (apply prm sm direct ls scr2 g).1 := by
  unfold apply
  split
  · simp only [vcopy_eq]
  · refine iterCycle_linear prm sm direct h a b f g _ _ _ _ hf hg ?_ ?_ ?_ hl hl1 hl2
    · simp [vclear_size, hf]
    · simp [vclear_size, hg]
    · show vclear (vlin a f b g).size = vlin a (vclear f.size) b (vclear g.size)
      rw [vlin_size, hf, hg]; exact vclear_vlin a b n

/-- a sequence of preconditioner applications on ONE object: the scratch left by each call is handed to the next -/
def applyHistory (prm : Params) (sm : Smoother K S) (direct : CRS K → Vec K → Vec K) (ls : List (Level K S)) :
    List (Scratch K) → List (Vec K) → List (Vec K)
  | _, [] => []
  | scr, f :: fs =>
    (apply prm sm direct ls scr f).1 :: applyHistory prm sm direct ls (apply prm sm direct ls scr f).2 fs

theorem applyHistory_eq {n : Nat} {ls : List (Level K S)} (h : HierOK sm direct n ls) (fs : List (Vec K))
    (scr scr0 : List (Scratch K)) (hl : scr.length = ls.length) (hl0 : scr0.length = ls.length) :
    applyHistory prm sm direct ls scr fs = fs.map (fun f => (apply prm sm direct ls scr0 f).1) := by
  induction fs generalizing scr with
  | nil => rfl
  | cons f fs ih =>
    simp only [applyHistory, List.map_cons]
    rw [apply_indep prm sm direct h scr scr0 f hl hl0, ih _ (apply_len prm sm direct h scr f hl)]

end apply

section link
variable {K S : Type} [CommRing K] [DecidableEq K]

theorem Good.smOK {sm : Smoother K S} {s : S} {A : CRS K} (h : sm.Good s A) :
    SmOK (sm.applyPre s A) (sm.applyPost s A) A.nrows :=
  ⟨h.pre_indep, h.post_indep, h.pre_linear, h.post_linear, h.pre_size, h.post_size⟩

/-- every constructed hierarchy (`Chain`) with `Good` smoothers, a linear direct solver and shape-correct
transfer operators satisfies the shape predicate of the cycle theorems -/
theorem Chain.hierOK {pol : Policy K} {sm : Smoother K S} {direct : CRS K → Vec K → Vec K} {allow : Bool}
    (hgood : ∀ A s, sm.setup A = .ok s → sm.Good s A)
    (hdir : ∀ Ad : CRS K, DirectOK (direct Ad) Ad.nrows)
    (hpol : ∀ idx A P0 R0, pol.transfer idx A = some (P0, R0) → P0.nrows = A.nrows)
    (hop : ∀ A P R : CRS K, (pol.coarseOp A P R).nrows = R.nrows)
    {idx : Nat} {A : CRS K} {ls : List (Level K S)} (h : Chain pol sm allow idx A ls) :
    HierOK sm direct A.nrows ls := by
  induction h with
  | relaxLast idx A lv hl =>
    obtain ⟨s, hs, hr⟩ := hl.hrelax
    exact HierOK.relaxLast _ lv A s hl.hsolve hl.hA hr (Good.smOK (hgood A s hs))
  | solveLast idx A lv hl => exact HierOK.solveLast _ lv A hl.hsolve (hdir A)
  | cons idx A lv P R rest hl hne hc ih =>
    obtain ⟨s, hs, hr⟩ := hl.hrelax
    obtain ⟨P0, R0, ht, hP, hR⟩ := hl.htr
    obtain ⟨nxt, rest', hrest, _, hrows⟩ := hc.head_matrix
    subst hrest
    refine HierOK.cons A.nrows (sortRows (pol.coarseOp A P R)).nrows lv nxt rest' A P R s hl.hA hr hl.hP hl.hR
      (Good.smOK (hgood A s hs)) ⟨rfl, ?_, ?_⟩ hrows ih
    · rw [hP, sortRows_nrows]; exact hpol idx A P0 R0 ht
    · rw [sortRows_nrows, hop]

end link

end Amg
end Amgcl
