import Amgcl.Model.DefinedIlu
import Mathlib.Data.List.GetD
import Mathlib.Tactic.Common
/-!
# The threaded pointer table of `ilu0` is all-NULL at the start of every row; every load of `D` hits a written cell

`ilu0Cells_ok`: whenever the (correspondence-validated) row-level model `Relax.ilu0Factor A` succeeds, the constructor
model with the loop-carried `work` table and the uninitialised `D` cells (`Defined.ilu0Cells true A junk`) succeeds
with the same factors, every cell of `D` written, `work` all-NULL again — for every prior heap content `junk`.
-/
namespace Amgcl
namespace Defined
open Relax

/-! ### cells -/
section cells
variable {α : Type}

theorem load_store_same (a : Array (Cell α)) (i : Nat) (v : α) (h : i < a.size) : load (store a i v) i = some v := by
  unfold load store
  rw [Array.getElem?_setIfInBounds_self_of_lt h]
  rfl

theorem load_store_ne (a : Array (Cell α)) (i j : Nat) (v : α) (h : i ≠ j) : load (store a i v) j = load a j := by
  unfold load store
  rw [Array.getElem?_setIfInBounds_ne h]

theorem store_size (a : Array (Cell α)) (i : Nat) (v : α) : (store a i v).size = a.size := by
  unfold store; simp

theorem alloc_size (junk : Array α) : (alloc junk).size = junk.size := by unfold alloc; simp

theorem load_alloc (junk : Array α) (i : Nat) : load (alloc junk) i = none := by
  unfold load alloc
  rw [Array.getElem?_map]
  cases junk[i]? <;> simp

/-- an array all of whose cells load as the entries of `v` is `written v` -/
theorem eq_written_of_load (a : Array (Cell α)) (v : Array α) (hs : a.size = v.size)
    (h : ∀ i (hi : i < v.size), load a i = some v[i]) : a = written v := by
  apply Array.ext_getElem?
  intro i
  unfold written
  rw [Array.getElem?_map]
  by_cases hi : i < v.size
  · have := h i hi
    unfold load at this
    have h1 : i < a.size := by rw [hs]; exact hi
    rw [Array.getElem?_eq_getElem h1] at this ⊢
    rw [Array.getElem?_eq_getElem hi]
    simp only at this
    cases hc : a[i] with
    | mk val wr =>
      rw [hc] at this
      cases wr with
      | false => simp at this
      | true => simp at this; simp [this]
  · rw [Array.getElem?_eq_none (by omega), Array.getElem?_eq_none (by omega)]; rfl

theorem erase_written (v : Array α) : erase (written v) = v := by
  unfold erase written
  apply Array.ext
  · simp
  · intro i h1 h2; simp

theorem allWritten_written (v : Array α) : allWritten (written v) = true := by
  unfold allWritten written
  rw [Array.all_eq_true]
  intro i hi; simp

end cells

/-! ### the pointer table -/
section work
variable {K : Type}

theorem workFold_size (l : List ((Nat × K) × Nat)) (wk : Array (Option Nat)) :
    (l.foldl (fun wk cj => wk.setIfInBounds cj.1.1 (some cj.2)) wk).size = wk.size := by
  induction l generalizing wk with
  | nil => rfl
  | cons a t ih => rw [List.foldl_cons, ih]; simp

theorem iluWorkFrom_size (work : Array (Option Nat)) (r : Row K) : (iluWorkFrom work r).size = work.size :=
  workFold_size _ _

theorem resetFold_getD (l : Row K) (wk : Array (Option Nat)) (k : Nat) :
    (l.foldl (fun wk cv => wk.setIfInBounds cv.1 none) wk).getD k none =
      if k ∈ l.map (·.1) then none else wk.getD k none := by
  induction l generalizing wk with
  | nil => simp
  | cons a t ih =>
    rw [List.foldl_cons, ih]
    by_cases hk : k ∈ t.map (·.1)
    · simp [hk]
    · simp only [hk, if_false, List.map_cons, List.mem_cons]
      by_cases ha : k = a.1
      · subst ha
        simp only [true_or, if_true]
        simp only [Array.getD_eq_getD_getElem?]
        by_cases hlt : a.1 < wk.size
        · rw [Array.getElem?_setIfInBounds_self_of_lt hlt]; rfl
        · rw [Array.getElem?_eq_none (by simp; omega)]; rfl
      · simp only [ha, false_or, hk, if_false]
        simp only [Array.getD_eq_getD_getElem?]
        rw [Array.getElem?_setIfInBounds_ne (Ne.symm ha)]

theorem resetFold_size (l : Row K) (wk : Array (Option Nat)) :
    (l.foldl (fun wk cv => wk.setIfInBounds cv.1 none) wk).size = wk.size := by
  induction l generalizing wk with
  | nil => rfl
  | cons a t ih => rw [List.foldl_cons, ih]; simp

theorem workFold_getD_not_mem (l : List ((Nat × K) × Nat)) (wk : Array (Option Nat)) (k : Nat)
    (h : k ∉ l.map (·.1.1)) :
    (l.foldl (fun wk cj => wk.setIfInBounds cj.1.1 (some cj.2)) wk).getD k none = wk.getD k none := by
  induction l generalizing wk with
  | nil => rfl
  | cons a t ih =>
    simp only [List.map_cons, List.mem_cons, not_or] at h
    rw [List.foldl_cons, ih _ h.2]
    simp only [Array.getD_eq_getD_getElem?]
    rw [Array.getElem?_setIfInBounds_ne (Ne.symm h.1)]

/-- **step 4 undoes step 1**: on an all-NULL table, setting the pointers of a row and resetting the columns of the
same row gives the all-NULL table back -/
theorem reset_workFrom (n : Nat) (r : Row K) :
    iluWorkReset (iluWorkFrom (Array.replicate n none) r) r = Array.replicate n none := by
  apply Array.ext
  · unfold iluWorkReset; rw [resetFold_size, iluWorkFrom_size]
  · intro k h1 h2
    have hk := resetFold_getD r (iluWorkFrom (Array.replicate n none) r) k
    have e1 : (iluWorkReset (iluWorkFrom (Array.replicate n none) r) r)[k] =
        (iluWorkReset (iluWorkFrom (Array.replicate n none) r) r).getD k none := by
      simp only [Array.getD_eq_getD_getElem?]; rw [Array.getElem?_eq_getElem h1]; rfl
    rw [e1]
    unfold iluWorkReset
    rw [hk]
    by_cases hm : k ∈ r.map (·.1)
    · simp [hm]
    · rw [if_neg hm]
      unfold iluWorkFrom
      rw [workFold_getD_not_mem]
      · by_cases hkn : k < n <;> simp [hkn]
      · intro hc
        apply hm
        simp only [List.mem_map] at hc ⊢
        obtain ⟨cj, hcj, rfl⟩ := hc
        exact ⟨cj.1, List.fst_mem_of_mem_zipIdx hcj, rfl⟩

end work

/-! ### the elimination loop -/
section elim
variable {K : Type} [Add K] [Mul K] [Sub K] [Zero K] [One K] [Div K] [DecidableEq K]

theorem diagWrite_size (D : Array (Cell K)) (i : Nat) (r : Row K) : (iluDiagWrite D i r).size = D.size := by
  unfold iluDiagWrite
  induction r generalizing D with
  | nil => rfl
  | cons a t ih =>
    rw [List.foldl_cons, ih]
    split
    · exact store_size _ _ _
    · rfl

theorem diagWrite_load_ne (D : Array (Cell K)) (i c : Nat) (r : Row K) (h : i ≠ c) :
    load (iluDiagWrite D i r) c = load D c := by
  unfold iluDiagWrite
  induction r generalizing D with
  | nil => rfl
  | cons a t ih =>
    rw [List.foldl_cons, ih]
    split
    · exact load_store_ne _ _ _ _ h
    · rfl

theorem diagFold_not_mem (i : Nat) (t : Row K) (ht : i ∉ t.map (·.1)) (D' : Array (Cell K)) :
    t.foldl (fun D cv => if cv.1 = i then store D i cv.2 else D) D' = D' := by
  induction t generalizing D' with
  | nil => rfl
  | cons b u ihu =>
    simp only [List.map_cons, List.mem_cons, not_or] at ht
    rw [List.foldl_cons, if_neg (fun hb => ht.1 hb.symm)]
    exact ihu ht.2 D'

theorem diagWrite_load_self (D : Array (Cell K)) (i : Nat) (r : Row K) (hi : i < D.size)
    (hm : i ∈ r.map (·.1)) : ∃ v, load (iluDiagWrite D i r) i = some v := by
  unfold iluDiagWrite
  induction r generalizing D with
  | nil => simp at hm
  | cons a t ih =>
    rw [List.foldl_cons]
    by_cases ht : i ∈ t.map (·.1)
    · apply ih _ _ ht
      split
      · rw [store_size]; exact hi
      · exact hi
    · simp only [List.map_cons, List.mem_cons] at hm
      have ha : a.1 = i := by
        rcases hm with h | h
        · exact h.symm
        · exact absurd h ht
      rw [if_pos ha]
      have hrest := diagFold_not_mem i t ht
      rw [hrest]
      exact ⟨a.2, load_store_same _ _ _ hi⟩

/-- the checked elimination loop agrees with the row-level one as long as the pivots of the finished rows are
written cells holding the values the row-level model keeps in `D`, and `D[i]` has been written if the row stores
column `i` -/
theorem iluElimC_of_iluElim (U : Array (Row K)) (D : Vec K) (Dc : Array (Cell K)) (i : Nat)
    (work : Array (Option Nat)) (hD : ∀ c, c < i → load Dc c = some (D.getD c 0)) :
    ∀ (cols : List Nat) (w : Array K), (i ∈ cols → ∃ v, load Dc i = some v) →
      (∀ w', iluElim U D i work cols w = .ok w' → iluElimC U Dc i work cols w = .ok (w', true)) ∧
      (iluElim U D i work cols w = .precondition → iluElimC U Dc i work cols w = .precondition) := by
  intro cols
  induction cols with
  | nil => intro w _; constructor <;> simp [iluElim]
  | cons c rest ih =>
    intro w hi
    unfold iluElim iluElimC
    by_cases hic : i ≤ c
    · rw [if_pos hic, if_pos hic]
      by_cases hne : c ≠ i
      · rw [if_pos hne, if_pos hne]; simp
      · rw [if_neg hne, if_neg hne]
        have hci : c = i := not_not.mp hne
        obtain ⟨v, hv⟩ := hi (by rw [hci]; exact List.mem_cons_self)
        rw [hv]
        cases hw : work.getD i none with
        | none => simp
        | some p =>
          simp only
          by_cases hz : w.getD p 0 = 0
          · rw [if_pos hz, if_pos hz]; simp
          · rw [if_neg hz, if_neg hz]; simp
    · rw [if_neg hic, if_neg hic]
      have hlt : c < i := Nat.lt_of_not_le hic
      rw [hD c hlt]
      cases hw : work.getD c none with
      | none => simp
      | some p =>
        simp only
        apply ih
        intro hm
        exact hi (List.mem_cons_of_mem _ hm)

/-- a successful elimination has found the slot of the diagonal -/
theorem iluElim_work_diag (U : Array (Row K)) (D : Vec K) (i : Nat) (work : Array (Option Nat)) (cols : List Nat)
    (w w' : Array K) (h : iluElim U D i work cols w = .ok w') : ∃ p, work.getD i none = some p := by
  induction cols generalizing w with
  | nil => simp [iluElim] at h
  | cons c rest ih =>
    unfold iluElim at h
    by_cases hic : i ≤ c
    · rw [if_pos hic] at h
      by_cases hne : c ≠ i
      · rw [if_pos hne] at h; exact absurd h (by simp)
      · rw [if_neg hne] at h
        cases hw : work.getD i none with
        | none => rw [hw] at h; exact absurd h (by simp)
        | some p => exact ⟨p, rfl⟩
    · rw [if_neg hic] at h
      cases hw : work.getD c none with
      | none => rw [hw] at h; exact absurd h (by simp)
      | some p => rw [hw] at h; exact ih _ h

theorem iluElim_mem_diag (U : Array (Row K)) (D : Vec K) (i : Nat) (work : Array (Option Nat)) (cols : List Nat)
    (w w' : Array K) (h : iluElim U D i work cols w = .ok w') : i ∈ cols := by
  induction cols generalizing w with
  | nil => simp [iluElim] at h
  | cons c rest ih =>
    unfold iluElim at h
    by_cases hic : i ≤ c
    · rw [if_pos hic] at h
      by_cases hne : c ≠ i
      · rw [if_pos hne] at h; exact absurd h (by simp)
      · have : c = i := not_not.mp hne
        rw [this]; exact List.mem_cons_self
    · rw [if_neg hic] at h
      cases hw : work.getD c none with
      | none => rw [hw] at h; exact absurd h (by simp)
      | some p => rw [hw] at h; exact List.mem_cons_of_mem _ (ih _ h)

end elim

/-! ### rows and the row loop -/
section loop
variable {K : Type} [Add K] [Mul K] [Sub K] [Zero K] [One K] [Div K] [DecidableEq K]

/-- loop invariant tying the threaded state to the row-level factors after `i` rows -/
structure IluInvC (n i : Nat) (S : IluState K) (F : IluFactors K) : Prop where
  hL : S.L = F.L.rows
  hU : S.U = F.U.rows
  hwork : S.work = Array.replicate n none
  hDsize : S.D.size = n
  hFD : F.D.size = i
  hD : ∀ c, c < i → load S.D c = some (F.D.getD c 0)

theorem iluRowC_of_iluRow (n i : Nat) (hi : i < n) (S : IluState K) (F : IluFactors K) (r : Row K)
    (inv : IluInvC n i S F) :
    (∀ l d u, iluRow n F.U.rows F.D i r = .ok (l, d, u) →
      ∃ S', iluRowC true S i r = .ok S' ∧
        IluInvC n (i + 1) S' { L := { F.L with rows := F.L.rows.push l }, U := { F.U with rows := F.U.rows.push u },
                                D := F.D.push d }) ∧
    (iluRow n F.U.rows F.D i r = .precondition → iluRowC true S i r = .precondition) := by
  have hwk : iluWorkFrom S.work r = iluWork n r := by rw [inv.hwork]; rfl
  have hD1 : ∀ c, c < i → load (iluDiagWrite S.D i r) c = some (F.D.getD c 0) := by
    intro c hc; rw [diagWrite_load_ne _ _ _ _ (by omega)]; exact inv.hD c hc
  have hself : i ∈ r.map (·.1) → ∃ v, load (iluDiagWrite S.D i r) i = some v :=
    diagWrite_load_self _ _ _ (by rw [inv.hDsize]; exact hi)
  have key := iluElimC_of_iluElim F.U.rows F.D (iluDiagWrite S.D i r) i (iluWork n r) hD1
    (r.map (·.1)) (r.map (·.2)).toArray hself
  constructor
  · intro l d u h
    unfold iluRow at h
    simp only at h
    cases he : iluElim F.U.rows F.D i (iluWork n r) (r.map (·.1)) (r.map (·.2)).toArray with
    | precondition => rw [he] at h; exact absurd h (by simp)
    | undefinedInput => rw [he] at h; exact absurd h (by simp)
    | ok w =>
      rw [he] at h
      simp only [SetupOutcome.ok.injEq, Prod.mk.injEq] at h
      obtain ⟨hl, hd, hu⟩ := h
      obtain ⟨p, hp⟩ := iluElim_work_diag _ _ _ _ _ _ _ he
      have hc := key.1 w he
      rw [hp] at hd
      simp only at hd
      have hrow : iluRowC true S i r = .ok
          { L := S.L.push l, U := S.U.push u, D := store (iluDiagWrite S.D i r) i d,
            work := iluWorkReset (iluWork n r) r } := by
        unfold iluRowC
        simp only [hwk]
        rw [inv.hU, hc]
        simp only [hp, if_true, hl, hu, hd]
      refine ⟨_, hrow, ?_⟩
      constructor
      · simp only; rw [inv.hL]
      · simp only; rw [inv.hU]
      · simp only; rw [← hwk, inv.hwork]; exact reset_workFrom n r
      · simp only; rw [store_size, diagWrite_size]; exact inv.hDsize
      · simp only [Array.size_push]; rw [inv.hFD]
      · intro c hc'
        simp only
        by_cases hci : c = i
        · subst hci
          rw [load_store_same _ _ _ (by rw [diagWrite_size, inv.hDsize]; exact hi)]
          simp only [Array.getD_eq_getD_getElem?]
          rw [← inv.hFD, Array.getElem?_push_size]
          rfl
        · have hlt : c < i := by omega
          rw [load_store_ne _ _ _ _ (Ne.symm hci), hD1 c hlt]
          simp only [Array.getD_eq_getD_getElem?]
          rw [Array.getElem?_push_lt (by rw [inv.hFD]; exact hlt)]
          rw [Array.getElem?_eq_getElem (by rw [inv.hFD]; exact hlt)]
  · intro h
    unfold iluRow at h
    simp only at h
    cases he : iluElim F.U.rows F.D i (iluWork n r) (r.map (·.1)) (r.map (·.2)).toArray with
    | ok w => rw [he] at h; exact absurd h (by simp)
    | undefinedInput => rw [he] at h; exact absurd h (by simp)
    | precondition =>
      have hc := key.2 he
      unfold iluRowC
      simp only [hwk]
      rw [inv.hU, hc]

theorem iluLoopC_of_iluLoop (A : CRS K) (k : Nat) :
    ∀ (i : Nat) (S : IluState K) (F : IluFactors K), i + k = A.nrows → IluInvC A.nrows i S F →
      (∀ F', iluLoop A (List.range' i k) F = .ok F' →
        ∃ S', iluLoopC true A (List.range' i k) S = .ok S' ∧ IluInvC A.nrows A.nrows S' F') ∧
      (iluLoop A (List.range' i k) F = .precondition → iluLoopC true A (List.range' i k) S = .precondition) := by
  induction k with
  | zero =>
    intro i S F hik inv
    have : i = A.nrows := by omega
    subst this
    constructor
    · intro F' h; simp [iluLoop] at h; subst h; exact ⟨S, by simp [iluLoopC], inv⟩
    · intro h; simp [iluLoop] at h
  | succ k ih =>
    intro i S F hik inv
    have hi : i < A.nrows := by omega
    rw [List.range'_succ]
    have hrow := iluRowC_of_iluRow A.nrows i hi S F (A.row i) inv
    constructor
    · intro F' h
      unfold iluLoop at h
      cases hr : iluRow A.nrows F.U.rows F.D i (A.row i) with
      | precondition => rw [hr] at h; exact absurd h (by simp)
      | undefinedInput => rw [hr] at h; exact absurd h (by simp)
      | ok ldu =>
        obtain ⟨l, d, u⟩ := ldu
        rw [hr] at h
        simp only at h
        obtain ⟨S1, hS1, inv1⟩ := hrow.1 l d u hr
        obtain ⟨S', hS', inv'⟩ := (ih (i + 1) S1 _ (by omega) inv1).1 F' h
        refine ⟨S', ?_, inv'⟩
        unfold iluLoopC
        rw [hS1]
        exact hS'
    · intro h
      unfold iluLoop at h
      unfold iluLoopC
      cases hr : iluRow A.nrows F.U.rows F.D i (A.row i) with
      | precondition => rw [hrow.2 hr]
      | undefinedInput => rw [hr] at h; exact absurd h (by simp)
      | ok ldu =>
        obtain ⟨l, d, u⟩ := ldu
        rw [hr] at h
        simp only at h
        obtain ⟨S1, hS1, inv1⟩ := hrow.1 l d u hr
        rw [hS1]
        exact (ih (i + 1) S1 _ (by omega) inv1).2 h

theorem ilu0Cells_ok (A : CRS K) (junk : Array K) (hj : junk.size = A.nrows) (F : IluFactors K)
    (h : ilu0Factor A = .ok F) :
    ilu0Cells true A junk = .ok { L := F.L.rows, U := F.U.rows, D := written F.D,
                                  work := Array.replicate A.nrows none } := by
  unfold ilu0Factor at h
  unfold ilu0Cells
  rw [List.range_eq_range'] at h ⊢
  have inv0 : IluInvC A.nrows 0 ({ L := #[], U := #[], D := alloc junk, work := Array.replicate A.nrows none } : IluState K)
      { L := ⟨A.nrows, #[]⟩, U := ⟨A.nrows, #[]⟩, D := #[] } :=
    ⟨rfl, rfl, rfl, by rw [alloc_size, hj], rfl, fun c hc => absurd hc (Nat.not_lt_zero c)⟩
  obtain ⟨S', hS', inv'⟩ := (iluLoopC_of_iluLoop A A.nrows 0 _ _ (by omega) inv0).1 F h
  rw [hS']
  congr 1
  cases S' with
  | mk L U D work =>
    have hDw : D = written F.D := by
      apply eq_written_of_load
      · rw [inv'.hDsize, inv'.hFD]
      · intro i hi
        have := inv'.hD i (by rw [← inv'.hFD]; exact hi)
        rw [this]
        simp only [Array.getD_eq_getD_getElem?]
        rw [Array.getElem?_eq_getElem hi]; rfl
    have hL := inv'.hL
    have hU := inv'.hU
    have hw := inv'.hwork
    simp only at hL hU hw hDw
    rw [hL, hU, hw, hDw]

theorem ilu0Cells_precondition (A : CRS K) (junk : Array K) (hj : junk.size = A.nrows)
    (h : ilu0Factor A = .precondition) : ilu0Cells true A junk = .precondition := by
  unfold ilu0Factor at h
  unfold ilu0Cells
  rw [List.range_eq_range'] at h ⊢
  have inv0 : IluInvC A.nrows 0 ({ L := #[], U := #[], D := alloc junk, work := Array.replicate A.nrows none } : IluState K)
      { L := ⟨A.nrows, #[]⟩, U := ⟨A.nrows, #[]⟩, D := #[] } :=
    ⟨rfl, rfl, rfl, by rw [alloc_size, hj], rfl, fun c hc => absurd hc (Nat.not_lt_zero c)⟩
  exact (iluLoopC_of_iluLoop A A.nrows 0 _ _ (by omega) inv0).2 h

end loop
end Defined
end Amgcl

/-! ### totality: a stored diagonal in every row excludes the outcome `undefinedInput` -/
namespace Amgcl
namespace Defined
open Relax
section total
variable {K : Type} [Add K] [Mul K] [Sub K] [Zero K] [One K] [Div K] [DecidableEq K]

theorem workFold_some (l : List ((Nat × K) × Nat)) (wk : Array (Option Nat)) (c : Nat) (hc : c < wk.size)
    (h : wk.getD c none ≠ none ∨ c ∈ l.map (·.1.1)) :
    (l.foldl (fun wk cj => wk.setIfInBounds cj.1.1 (some cj.2)) wk).getD c none ≠ none := by
  induction l generalizing wk with
  | nil =>
    rcases h with h | h
    · exact h
    · simp at h
  | cons a t ih =>
    rw [List.foldl_cons]
    apply ih _ (by simpa using hc)
    by_cases hac : a.1.1 = c
    · left
      subst hac
      simp only [Array.getD_eq_getD_getElem?]
      rw [Array.getElem?_setIfInBounds_self_of_lt hc]
      simp
    · rcases h with h | h
      · left
        simp only [Array.getD_eq_getD_getElem?] at h ⊢
        rw [Array.getElem?_setIfInBounds_ne hac]; exact h
      · right
        simp only [List.map_cons, List.mem_cons] at h
        rcases h with h | h
        · exact absurd h.symm hac
        · exact h

theorem iluWork_some (n : Nat) (r : Row K) (c : Nat) (hc : c < n) (hm : c ∈ r.map (·.1)) :
    ∃ p, (iluWork n r).getD c none = some p := by
  have : (iluWork n r).getD c none ≠ none := by
    unfold iluWork
    apply workFold_some _ _ _ (by simpa using hc)
    right
    simp only [List.mem_map] at hm ⊢
    obtain ⟨cv, hcv, rfl⟩ := hm
    obtain ⟨k, hk⟩ := List.getElem_of_mem hcv
    obtain ⟨hk1, hk2⟩ := hk
    exact ⟨(cv, k), by rw [List.mem_zipIdx_iff_getElem?]; simp [List.getElem?_eq_getElem hk1, hk2], rfl⟩
  cases h : (iluWork n r).getD c none with
  | none => exact absurd h this
  | some p => exact ⟨p, rfl⟩

theorem iluElim_defined (U : Array (Row K)) (D : Vec K) (i : Nat) (work : Array (Option Nat)) :
    ∀ (cols : List Nat) (w : Array K), (∀ c ∈ cols, ∃ p, work.getD c none = some p) → i ∈ cols →
      iluElim U D i work cols w ≠ .undefinedInput := by
  intro cols
  induction cols with
  | nil => intro w _ hi; simp at hi
  | cons c rest ih =>
    intro w hw hi
    unfold iluElim
    by_cases hic : i ≤ c
    · rw [if_pos hic]
      by_cases hne : c ≠ i
      · rw [if_pos hne]; simp
      · rw [if_neg hne]
        have hci : c = i := not_not.mp hne
        obtain ⟨p, hp⟩ := hw c List.mem_cons_self
        rw [hci] at hp
        rw [hp]
        simp only
        split <;> simp
    · rw [if_neg hic]
      obtain ⟨p, hp⟩ := hw c List.mem_cons_self
      rw [hp]
      simp only
      apply ih
      · intro c' hc'; exact hw c' (List.mem_cons_of_mem _ hc')
      · rcases List.mem_cons.mp hi with h | h
        · omega
        · exact h

/-- a square matrix with in-range columns that stores the diagonal entry of every row is in the domain of the
constructor: the outcome is `ok` or `precondition`, never `undefinedInput` -/
theorem ilu0Factor_defined (A : CRS K) (hcols : ∀ i, i < A.nrows → ∀ cv ∈ A.row i, cv.1 < A.nrows)
    (hdiag : ∀ i, i < A.nrows → i ∈ (A.row i).map (·.1)) : ilu0Factor A ≠ .undefinedInput := by
  unfold ilu0Factor
  rw [List.range_eq_range']
  have key : ∀ (k i : Nat) (F : IluFactors K), i + k = A.nrows → iluLoop A (List.range' i k) F ≠ .undefinedInput := by
    intro k
    induction k with
    | zero => intro i F _; simp [iluLoop]
    | succ k ih =>
      intro i F hik
      rw [List.range'_succ]
      unfold iluLoop
      have hi : i < A.nrows := by omega
      have hrow : iluRow A.nrows F.U.rows F.D i (A.row i) ≠ .undefinedInput := by
        unfold iluRow
        simp only
        have := iluElim_defined F.U.rows F.D i (iluWork A.nrows (A.row i)) ((A.row i).map (·.1))
          ((A.row i).map (·.2)).toArray
          (by
            intro c hc
            apply iluWork_some A.nrows (A.row i) c _ hc
            simp only [List.mem_map] at hc
            obtain ⟨cv, hcv, rfl⟩ := hc
            exact hcols i hi cv hcv)
          (hdiag i hi)
        cases he : iluElim F.U.rows F.D i (iluWork A.nrows (A.row i)) ((A.row i).map (·.1)) ((A.row i).map (·.2)).toArray with
        | ok w => simp
        | precondition => simp
        | undefinedInput => exact absurd he this
      cases hr : iluRow A.nrows F.U.rows F.D i (A.row i) with
      | ok ldu => obtain ⟨l, d, u⟩ := ldu; simp only; exact ih (i + 1) _ (by omega)
      | precondition => simp
      | undefinedInput => exact absurd hr hrow
  exact key A.nrows 0 _ (by omega)

end total
end Defined
end Amgcl
