import Amgcl.Model.Schedule
/-!
Level computation of the level-scheduled kernels (step 1 of the constructors of `parallel_sweep` and
`sptr_solve`): after the loop, every looked-at entry `(j,c)` has `level c < level j` and every raised entry has
`level j < level c`.  One invariant proof for the four loops (ILU lower/upper, Gauss–Seidel forward/backward,
as-is and repaired), generalising `notes/feasibility_Schedule.lean.txt`.  Core Lean only.
-/
namespace Amgcl.Sched

theorem getD_set_ne {α : Type} (a : Array α) (i j : Nat) (v d : α) (h : j ≠ i) :
    (a.setIfInBounds i v).getD j d = a.getD j d := by
  unfold Array.getD
  by_cases hj : j < a.size
  · simp only [Array.size_setIfInBounds, hj, dite_true]
    exact Array.getElem_setIfInBounds_ne hj (Ne.symm h)
  · simp [hj]

theorem getD_set_eq {α : Type} (a : Array α) (i : Nat) (v d : α) (h : i < a.size) :
    (a.setIfInBounds i v).getD i d = v := by
  simp [Array.getD, h]

/-! ### the scan of one row -/

theorem rowLevel_foldl_ge (take : Nat → Nat → Bool) (level : Array Nat) (i : Nat) (row : List Nat) (l0 : Nat) :
    l0 ≤ row.foldl (fun l c => if take c i then max l (level.getD c 0 + 1) else l) l0 := by
  induction row generalizing l0 with
  | nil => simp
  | cons c cs ih =>
    simp only [List.foldl_cons]
    refine Nat.le_trans ?_ (ih _)
    split
    · exact Nat.le_max_left _ _
    · exact Nat.le_refl _

theorem rowLevel_ge_init (take : Nat → Nat → Bool) (level : Array Nat) (i : Nat) (row : List Nat) :
    level.getD i 0 ≤ rowLevel take level i row := rowLevel_foldl_ge take level i row _

theorem rowLevel_foldl_gt (take : Nat → Nat → Bool) (level : Array Nat) (i : Nat) (row : List Nat) (l0 c : Nat)
    (hc : c ∈ row) (ht : take c i = true) :
    level.getD c 0 < row.foldl (fun l c => if take c i then max l (level.getD c 0 + 1) else l) l0 := by
  induction row generalizing l0 with
  | nil => cases hc
  | cons d ds ih =>
    simp only [List.foldl_cons]
    rcases List.mem_cons.mp hc with h | h
    · subst h
      have e : (if take c i = true then max l0 (level.getD c 0 + 1) else l0) = max l0 (level.getD c 0 + 1) := by
        simp [ht]
      rw [e]
      have := rowLevel_foldl_ge take level i ds (max l0 (level.getD c 0 + 1))
      omega
    · exact ih _ h

theorem rowLevel_gt_mem (take : Nat → Nat → Bool) (level : Array Nat) (i : Nat) (row : List Nat) (c : Nat)
    (hc : c ∈ row) (ht : take c i = true) : level.getD c 0 < rowLevel take level i row :=
  rowLevel_foldl_gt take level i row _ c hc ht

/-! ### the raising loop of the repaired Gauss–Seidel constructor -/

theorem raiseRow_size (raise : Nat → Nat → Bool) (i l : Nat) (row : List Nat) (lv : Array Nat) :
    (raiseRow raise i l row lv).size = lv.size := by
  unfold raiseRow
  induction row generalizing lv with
  | nil => rfl
  | cons c cs ih =>
    simp only [List.foldl_cons]
    rw [ih]
    split <;> simp

theorem raiseRow_mono (raise : Nat → Nat → Bool) (i l : Nat) (row : List Nat) (lv : Array Nat) (x : Nat) :
    lv.getD x 0 ≤ (raiseRow raise i l row lv).getD x 0 := by
  unfold raiseRow
  induction row generalizing lv with
  | nil => exact Nat.le_refl _
  | cons c cs ih =>
    simp only [List.foldl_cons]
    refine Nat.le_trans ?_ (ih _)
    split
    · by_cases hx : x = c
      · subst hx
        by_cases hs : x < lv.size
        · rw [getD_set_eq _ _ _ _ hs]; exact Nat.le_max_left _ _
        · simp [Array.getD, hs]
      · rw [getD_set_ne _ _ _ _ _ hx]; exact Nat.le_refl _
    · exact Nat.le_refl _

theorem raiseRow_unchanged (raise : Nat → Nat → Bool) (i l : Nat) (row : List Nat) (lv : Array Nat) (x : Nat)
    (hx : ∀ c ∈ row, raise c i = true → c ≠ x) : (raiseRow raise i l row lv).getD x 0 = lv.getD x 0 := by
  unfold raiseRow
  induction row generalizing lv with
  | nil => rfl
  | cons c cs ih =>
    simp only [List.foldl_cons]
    rw [ih _ (fun d hd => hx d (List.mem_cons_of_mem _ hd))]
    split
    · rename_i hc
      have : x ≠ c := fun h => hx c List.mem_cons_self hc h.symm
      rw [getD_set_ne _ _ _ _ _ this]
    · rfl

theorem raiseRow_ge (raise : Nat → Nat → Bool) (i l : Nat) (row : List Nat) (lv : Array Nat) (c : Nat)
    (hc : c ∈ row) (hr : raise c i = true) (hs : c < lv.size) :
    l + 1 ≤ (raiseRow raise i l row lv).getD c 0 := by
  induction row generalizing lv with
  | nil => cases hc
  | cons d ds ih =>
    have hstep : raiseRow raise i l (d :: ds) lv
        = raiseRow raise i l ds (if raise d i then lv.setIfInBounds d (max (lv.getD d 0) (l + 1)) else lv) := by
      simp [raiseRow]
    rw [hstep]
    rcases List.mem_cons.mp hc with h | h
    · subst h
      rw [hr]
      simp only [if_true]
      refine Nat.le_trans ?_ (raiseRow_mono raise i l ds _ c)
      rw [getD_set_eq _ _ _ _ hs]
      exact Nat.le_max_right _ _
    · apply ih _ h
      split <;> simpa using hs

/-! ### the outer loop -/

/-- row `j` has been visited before the `k`-th iteration -/
def Done (fwd : Bool) (n k j : Nat) : Prop := j < n ∧ (if fwd then j < k else n - k ≤ j)

/-- what the loop has established after `k` iterations -/
structure LevelInv (take raise : Nat → Nat → Bool) (A : Pattern) (fwd : Bool) (k : Nat) (level : Array Nat) : Prop where
  size : level.size = A.size
  dep : ∀ j, Done fwd A.size k j → ∀ c ∈ A.getD j [], c < A.size →
      (take c j = true → level.getD c 0 < level.getD j 0) ∧ (raise c j = true → level.getD j 0 < level.getD c 0)

/-- the two hypotheses on which entries the loop looks at: `take` only entries of rows visited earlier, `raise` only
entries of rows visited later -/
structure Sound (take raise : Nat → Nat → Bool) (A : Pattern) (fwd : Bool) : Prop where
  take : ∀ j, j < A.size → ∀ c ∈ A.getD j [], take c j = true → before fwd c j = true
  raise : ∀ j, j < A.size → ∀ c ∈ A.getD j [], raise c j = true → before fwd j c = true

theorem levelStep_size (take raise : Nat → Nat → Bool) (A : Pattern) (level : Array Nat) (i : Nat) :
    (levelStep take raise A level i).size = level.size := by
  simp [levelStep, raiseRow_size]

theorem done_succ (fwd : Bool) (n k j : Nat) (hk : k < n) :
    Done fwd n (k + 1) j ↔ Done fwd n k j ∨ j = rowAt fwd n k := by
  unfold Done rowAt; cases fwd <;> simp <;> omega

theorem done_of_before (fwd : Bool) (n k c j : Nat) (hc : c < n) (hj : Done fwd n k j) (hb : before fwd c j = true) :
    Done fwd n k c := by
  unfold Done before at *; cases fwd <;> simp at * <;> omega

theorem done_of_before_cur (fwd : Bool) (n k c : Nat) (hk : k < n) (hc : c < n) (hb : before fwd c (rowAt fwd n k) = true) :
    Done fwd n k c := by
  unfold Done before rowAt at *; cases fwd <;> simp at * <;> omega

theorem not_done_of_after_cur (fwd : Bool) (n k c : Nat) (hk : k < n) (hb : before fwd (rowAt fwd n k) c = true) :
    ¬ Done fwd n k c ∧ c ≠ rowAt fwd n k := by
  unfold Done before rowAt at *; cases fwd <;> simp at * <;> omega

theorem cur_not_done (fwd : Bool) (n k : Nat) (hk : k < n) : ¬ Done fwd n k (rowAt fwd n k) ∧ rowAt fwd n k < n := by
  unfold Done rowAt; cases fwd <;> simp <;> omega

theorem levelStep_inv (take raise : Nat → Nat → Bool) (A : Pattern) (fwd : Bool) (hs : Sound take raise A fwd)
    (k : Nat) (hk : k < A.size) (level : Array Nat) (hinv : LevelInv take raise A fwd k level) :
    LevelInv take raise A fwd (k + 1) (levelStep take raise A level (rowAt fwd A.size k)) := by
  obtain ⟨hsz, hdep⟩ := hinv
  refine ⟨by rw [levelStep_size, hsz], ?_⟩
  have hcur := cur_not_done fwd A.size k hk
  generalize hi : rowAt fwd A.size k = i at *
  obtain ⟨hnd, hiN⟩ := hcur
  have hisz : i < level.size := by omega
  have hnew : levelStep take raise A level i = raiseRow raise i (rowLevel take level i (A.getD i [])) (A.getD i [])
      (level.setIfInBounds i (rowLevel take level i (A.getD i []))) := rfl
  rw [hnew]
  generalize hl : rowLevel take level i (A.getD i []) = l
  -- raised entries are rows visited later
  have hraised : ∀ c ∈ A.getD i [], raise c i = true → ¬ Done fwd A.size k c ∧ c ≠ i := by
    intro c hc hr
    have := not_done_of_after_cur fwd A.size k c hk (by rw [hi]; exact hs.raise i hiN c hc hr)
    rwa [hi] at this
  -- (1) rows already visited keep their level, row i gets l
  have hkeep : ∀ x, Done fwd A.size k x →
      (raiseRow raise i l (A.getD i []) (level.setIfInBounds i l)).getD x 0 = level.getD x 0 := by
    intro x hx
    rw [raiseRow_unchanged raise i l _ _ x (fun c hc hr h => (hraised c hc hr).1 (h ▸ hx))]
    exact getD_set_ne _ _ _ _ _ (fun h => hnd (h ▸ hx))
  have hcur : (raiseRow raise i l (A.getD i []) (level.setIfInBounds i l)).getD i 0 = l := by
    rw [raiseRow_unchanged raise i l _ _ i (fun c hc hr => (hraised c hc hr).2)]
    exact getD_set_eq _ _ _ _ hisz
  -- (2) no level decreases
  have hmono : ∀ x, level.getD x 0 ≤ (raiseRow raise i l (A.getD i []) (level.setIfInBounds i l)).getD x 0 := by
    intro x
    refine Nat.le_trans ?_ (raiseRow_mono raise i l _ _ x)
    by_cases hx : x = i
    · subst hx; rw [getD_set_eq _ _ _ _ hisz, ← hl]; exact rowLevel_ge_init take level x _
    · rw [getD_set_ne _ _ _ _ _ hx]; exact Nat.le_refl _
  intro j hj c hc hcN
  rcases (done_succ fwd A.size k j hk).mp hj with hjd | hji
  · -- a row visited earlier
    obtain ⟨h1, h2⟩ := hdep j hjd c hc hcN
    rw [hkeep j hjd]
    constructor
    · intro ht
      have hcd := done_of_before fwd A.size k c j hcN hjd (hs.take j hjd.1 c hc ht)
      rw [hkeep c hcd]; exact h1 ht
    · intro hr
      exact Nat.lt_of_lt_of_le (h2 hr) (hmono c)
  · -- the current row
    rw [hi] at hji; subst hji
    rw [hcur]
    constructor
    · intro ht
      have hb := hs.take j hiN c hc ht
      have hcd := done_of_before_cur fwd A.size k c hk hcN (by rw [hi]; exact hb)
      rw [hkeep c hcd, ← hl]
      exact rowLevel_gt_mem take level j _ c hc ht
    · intro hr
      have := raiseRow_ge raise j l (A.getD j []) (level.setIfInBounds j l) c hc hr (by simpa [hsz] using hcN)
      omega

/-- the loop of step 1 after `k` iterations -/
def levelsUpTo (take raise : Nat → Nat → Bool) (fwd : Bool) (A : Pattern) (k : Nat) : Array Nat :=
  (List.range k).foldl (fun lv k' => levelStep take raise A lv (rowAt fwd A.size k')) (Array.replicate A.size 0)

theorem levelsGen_eq (take raise : Nat → Nat → Bool) (fwd : Bool) (A : Pattern) :
    levelsGen take raise fwd A = levelsUpTo take raise fwd A A.size := by
  simp [levelsGen, levelsUpTo, rowOrder, List.foldl_map]

theorem levelsUpTo_inv (take raise : Nat → Nat → Bool) (A : Pattern) (fwd : Bool) (hs : Sound take raise A fwd) :
    ∀ k, k ≤ A.size → LevelInv take raise A fwd k (levelsUpTo take raise fwd A k) := by
  intro k
  induction k with
  | zero =>
    intro _
    refine ⟨by simp [levelsUpTo], ?_⟩
    intro j hj
    exfalso; unfold Done at hj; cases fwd <;> simp at hj <;> omega
  | succ k ih =>
    intro hk
    have : levelsUpTo take raise fwd A (k + 1)
        = levelStep take raise A (levelsUpTo take raise fwd A k) (rowAt fwd A.size k) := by
      simp [levelsUpTo, List.range_succ, List.foldl_append]
    rw [this]
    exact levelStep_inv take raise A fwd hs k (by omega) _ (ih (by omega))

theorem levelsGen_size (take raise : Nat → Nat → Bool) (fwd : Bool) (A : Pattern) :
    (levelsGen take raise fwd A).size = A.size := by
  rw [levelsGen_eq]
  unfold levelsUpTo
  suffices h : ∀ (l : List Nat) (lv : Array Nat), (l.foldl (fun lv k' => levelStep take raise A lv (rowAt fwd A.size k')) lv).size = lv.size by
    rw [h]; simp
  intro l
  induction l with
  | nil => intro lv; rfl
  | cons a t ih => intro lv; simp only [List.foldl_cons]; rw [ih, levelStep_size]

/-- **the level function respects every looked-at dependency** (all patterns, all sizes) -/
theorem levelsGen_dep (take raise : Nat → Nat → Bool) (fwd : Bool) (A : Pattern) (hs : Sound take raise A fwd)
    (j : Nat) (hj : j < A.size) (c : Nat) (hc : c ∈ A.getD j []) (hcN : c < A.size) :
    (take c j = true → (levelsGen take raise fwd A).getD c 0 < (levelsGen take raise fwd A).getD j 0) ∧
    (raise c j = true → (levelsGen take raise fwd A).getD j 0 < (levelsGen take raise fwd A).getD c 0) := by
  rw [levelsGen_eq]
  have := (levelsUpTo_inv take raise A fwd hs A.size (Nat.le_refl _)).dep j
    (by unfold Done; cases fwd <;> simp <;> omega) c hc hcN
  exact this

end Amgcl.Sched
