import Amgcl.Proofs.KrylovLGMRESRestart
import Amgcl.Proofs.KrylovGMRESRestartExample
/-!
# Concrete inputs for the non-vacuity examples of `Properties/C05f.lean` (general LGMRES cycles)

**Augmentation without breakdown** (`ExL`): the system of `KrylovGMRESExample.lean` (`A = [[3,0,1],[4,5,2],[0,4,3]]`, identity
preconditioner, right side, `f = (25,0,0)`, `x₀ = 0`), LGMRES(1, 1) without `always_reset` on an object that carries ONE
augmentation vector `z = (1,1,0)` in slot `0` (any stored vector of length `n` is admitted by the theorems; the real object
stores normalised corrections of earlier cycles).  The cycle makes a Krylov pass (`v₀ = e₁`, `A v₀ = (3,4,0)`, `H̃(1,0) = 4`,
rotation `(3/5,4/5)`) and an augmentation pass (`A z = (3,9,4)`, `H̃(·,1) = (3,9,4)`, rotated `(9,3|4)`, rotation `(3/5,4/5)`):
`rsqrt` is exact on every number met (`625, 16, 16, 25/16, 25/16`), `s = (15,−12,16)`.

**Breakdown in the augmentation pass** (`ExLB`): `A = [[−8,−6],[6,−8]]`, identity preconditioner, right side, `f = (5,0)`, `x₀ = 0`,
LGMRES(1, 1) without `always_reset` on an object that carries the augmentation vector `z = (1,0)`: the Krylov pass gives
`v₀ = e₁`, `v₁ = e₂` (`H̃(1,0) = 6`, rotation argument `25/16`), the augmentation pass feeds `z = v₀`, `A z ∈ span{v₀,v₁}`:
`H̃(2,1) = 0`, and the rotated diagonal entry `H(1,1)` is `0` as well (singular triangular factor, `y₁ = s₁/0 = 0`).

**Restarts with a carried vector** (`ExLR`): the same system, LGMRES(1, 1) with `always_reset`, `abstol = 3` (threshold `3`),
`maxiter = 4`, a fresh object.  The first cycle ends after ONE pass (`inner_res = 3 ≤ 3`), `‖r‖` goes from `5` to `3`, the
stopping test `3 < 3` fails; the second cycle starts with the stored (inexactly normalised) `dx` of the first one in the
buffer and ends after its Krylov pass (`inner_res = 9/5 ≤ 3`); then `norm_r < 3` and the call returns.  `rsqrt` is exact on
every number the two cycles apply it to (`25, 36, 25/16`; `9, 36, 25/16`) — the normalisation of the augmentation vector
(`rsqrt(4/25)`, NOT exact) is not among them.
-/
namespace Amgcl.Krylov.ExL
open Amgcl Amgcl.Solver Amgcl.Krylov Amgcl.Energy.Bridge Amgcl.Krylov.ExG

def prmL : LGMRES.Params ℚ :=
  { maxiter := 2, tol := 0, abstol := 0, nsSearch := false, M := 1, K' := 1, alwaysReset := false, pside := .right }
/-- an object that carries the augmentation vector `(1,1,0)` in slot `0` -/
def wsL : LGMRES.Work ℚ :=
  { LGMRES.Work.fresh 3 with odata := setF (.const #[0, 0, 0]) 0 #[1, 1, 0], ov := ⟨0, [0]⟩ }
/-- the state at the first `break` test of a call on that object -/
def stL : LGMRES.St ℚ := LGMRES.init prmL stdIp Amgcl.rsqrt Ag Pg (LGMRES.reset prmL wsL) fg xg

theorem hstL : CycleStart prmL.pside Amgcl.rsqrt Ag Pg fg (lToG stL) := by
  show CycleStart .right Amgcl.rsqrt Ag Pg fg (lToG stL)
  unfold stL
  rw [linit_sim]
  exact cycleStart_head .right Amgcl.rsqrt Ag Pg fg _ (by decide +kernel)
theorem hodL : ∀ s, (stL.w.odata.get s).size = 3 := by
  intro s
  show ((setF (FArr.const (#[0, 0, 0] : Vec ℚ)) 0 #[1, 1, 0]).get s).size = 3
  rw [setF_get]; split <;> rfl
/-- one augmentation vector is held: pass `0` is a Krylov pass, pass `1` feeds `(1,1,0)` -/
theorem hovL : stL.w.ov.size = 1 ∧ prmL.MM = 2 := by decide +kernel
theorem hrootsL : LRootsExact prmL Amgcl.rsqrt Ag Pg stL 2 := ⟨by decide +kernel, by decide +kernel, by decide +kernel⟩
theorem hnbL : ∀ i, i < 2 → lArnoldiNorm prmL Amgcl.rsqrt Ag Pg stL i ≠ 0 := by decide +kernel

end Amgcl.Krylov.ExL

namespace Amgcl.Krylov.ExLB
open Amgcl Amgcl.Solver Amgcl.Krylov Amgcl.Energy.Bridge Amgcl.Krylov.ExG Amgcl.Krylov.ExR

def prmLB : LGMRES.Params ℚ :=
  { maxiter := 2, tol := 0, abstol := 0, nsSearch := false, M := 1, K' := 1, alwaysReset := false, pside := .right }
/-- an object that carries the augmentation vector `(1,0)` in slot `0` -/
def wsLB : LGMRES.Work ℚ :=
  { LGMRES.Work.fresh 2 with odata := setF (.const #[0, 0]) 0 #[1, 0], ov := ⟨0, [0]⟩ }
def stLB : LGMRES.St ℚ := LGMRES.init prmLB stdIp Amgcl.rsqrt Ar Pg (LGMRES.reset prmLB wsLB) fr xr

theorem hstLB : CycleStart prmLB.pside Amgcl.rsqrt Ar Pg fr (lToG stLB) := by
  show CycleStart .right Amgcl.rsqrt Ar Pg fr (lToG stLB)
  unfold stLB
  rw [linit_sim]
  exact cycleStart_head .right Amgcl.rsqrt Ar Pg fr _ (by decide +kernel)
theorem hodLB : ∀ s, (stLB.w.odata.get s).size = 2 := by
  intro s
  show ((setF (FArr.const (#[0, 0] : Vec ℚ)) 0 #[1, 0]).get s).size = 2
  rw [setF_get]; split <;> rfl
theorem hrootsLB : LRootsExact prmLB Amgcl.rsqrt Ar Pg stLB 2 := ⟨by decide +kernel, by decide +kernel, by decide +kernel⟩
/-- no breakdown in the Krylov pass, breakdown in the augmentation pass (`A z ∈ span{v₀,v₁}`) -/
theorem hnbLB : ∀ i, i < 1 → lArnoldiNorm prmLB Amgcl.rsqrt Ar Pg stLB i ≠ 0 := by decide +kernel
theorem hbLB : lArnoldiNorm prmLB Amgcl.rsqrt Ar Pg stLB 1 = 0 := by decide +kernel

end Amgcl.Krylov.ExLB

namespace Amgcl.Krylov.ExLR
open Amgcl Amgcl.Solver Amgcl.Krylov Amgcl.Energy.Bridge Amgcl.Krylov.ExG Amgcl.Krylov.ExR

def prmLR : LGMRES.Params ℚ :=
  { maxiter := 4, tol := 0, abstol := 3, nsSearch := false, M := 1, K' := 1, alwaysReset := true, pside := .right }
def stLR : LGMRES.St ℚ :=
  LGMRES.init prmLR stdIp Amgcl.rsqrt Ar Pg (LGMRES.reset prmLR (LGMRES.Work.fresh 2)) fr xr

theorem hpLR : prologueA prmLR.nsSearch stdIp Amgcl.rsqrt 0 fr = .go 5 :=
  (prologueA_go _ _ _ _ _ _).mpr (Or.inr (by decide +kernel))
theorem hepsLR : LGMRES.epsTol prmLR 5 = 3 := by decide +kernel
theorem hwsLR : ∀ s, ((LGMRES.Work.fresh 2 : LGMRES.Work ℚ).odata.get s).size = 2 := fun _ => rfl
/-- both cycles make one (Krylov) pass; the second one starts with one stored augmentation vector -/
theorem hjLR : ∀ i, i < 2 →
    (LGMRES.inner prmLR stdIp Amgcl.rsqrt Ar Pg 3 (louterPass prmLR Amgcl.rsqrt Ar Pg fr 3 stLR i)).j = 1 := by
  decide +kernel
theorem hovLR : (louterPass prmLR Amgcl.rsqrt Ar Pg fr 3 stLR 1).w.ov.size = 1 := by decide +kernel
/-- `rsqrt` is exact on every number the two restart cycles apply it to -/
theorem hrootsLR : ∀ i, i < 2 → LRootsExact prmLR Amgcl.rsqrt Ar Pg (louterPass prmLR Amgcl.rsqrt Ar Pg fr 3 stLR i)
    (LGMRES.inner prmLR stdIp Amgcl.rsqrt Ar Pg 3 (louterPass prmLR Amgcl.rsqrt Ar Pg fr 3 stLR i)).j := by
  intro i hi
  rw [hjLR i hi]
  match i, hi with
  | 0, _ => exact ⟨by decide +kernel, by decide +kernel, by decide +kernel⟩
  | 1, _ => exact ⟨by decide +kernel, by decide +kernel, by decide +kernel⟩

end Amgcl.Krylov.ExLR
