import Amgcl.Proofs.IOMMRoundTrip
/-!
`ValKind.RoundTrip` for the three MatrixMarket value kinds (helper file for C19): `int` concretely; real and
complex from the contract of an abstract scalar codec.
-/
namespace Amgcl.IO

/-! ### `Val = int` -/

def int32 (v : Int) : Prop := -2147483648 ≤ v ∧ v < 2147483648

theorem two31_lit : (2 : Nat) ^ (32 - 1) = 2147483648 := by decide

theorem extractInt_neg_natDec (bits n : Nat) (hn : n ≤ 2 ^ (bits - 1)) :
    extractInt true bits (45 :: natDec n) = some (-(n : Int), []) := by
  obtain ⟨hne, hd, hv⟩ := natDec_spec n
  unfold extractInt
  have hs : skipWs (45 :: natDec n) = 45 :: natDec n := by simp [skipWs, List.dropWhile, isSpace]
  simp only []
  rw [hs]
  simp only [splitSign]
  have h12 := takeWhile_digits (natDec n) [] hd (Or.inl rfl)
  rw [List.append_nil] at h12
  rw [h12.1, h12.2, hv]
  have : (natDec n).isEmpty = false := by
    cases h : natDec n with
    | nil => exact absurd h hne
    | cons a t => rfl
  rw [this]
  simp only [Bool.false_eq_true, if_false, intOfDigits, if_true, hn]

theorem extractInt_intDec (v : Int) (hv : int32 v) : extractInt true 32 (intDec v) = some (v, []) := by
  unfold intDec
  by_cases h : v < 0
  · rw [if_pos h]
    have := extractInt_neg_natDec 32 v.natAbs (by rw [two31_lit]; unfold int32 at hv; omega)
    rw [this]; congr 2; omega
  · rw [if_neg h]
    have := extractInt_natDec true 32 v.natAbs [] (Or.inl rfl) (by
      simp only [if_true]; rw [two31_lit]; unfold int32 at hv; omega)
    rw [List.append_nil] at this
    rw [this]; congr 2; omega

theorem extractInt_sp (signed : Bool) (bits : Nat) (s : Bytes) :
    extractInt signed bits (32 :: s) = extractInt signed bits s := by
  unfold extractInt
  have hs : skipWs (32 :: s) = skipWs s := by simp [skipWs, List.dropWhile, isSpace]
  rw [hs]

theorem intDec_no_nl (v : Int) : ∀ c ∈ intDec v, c ≠ 10 := by
  intro c hc
  unfold intDec at hc
  split at hc
  · rcases List.mem_cons.mp hc with rfl | hc
    · omega
    · exact natDec_no_nl _ c hc
  · exact natDec_no_nl _ c hc

theorem intKind_roundTrip : intKind.RoundTrip int32 where
  noNL := fun v _ => intDec_no_nl v
  read_write := fun v hv => ⟨[], extractInt_intDec v hv⟩
  read_sp_write := fun v hv => ⟨[], by
    show extractInt true 32 (32 :: intDec v) = some (v, [])
    rw [extractInt_sp]; exact extractInt_intDec v hv⟩
  flags := by simp [intKind]

/-! ### real and complex values through an abstract scalar codec -/

/-- contract of a scalar text codec on the value set `dom`: parsing the printed token gives the value back, the
`num_get` scanner consumes exactly the printed token when a blank or the end of the line follows (also behind a
leading blank), and the printed token contains no newline -/
structure Codec.TokenOK {S : Type} (c : Codec S) (dom : S → Prop) : Prop where
  parse_print : ∀ v, dom v → c.parse (c.print v) = some v
  scan : ∀ v, dom v → ∀ rest, Delim rest → floatTok (c.print v ++ rest) = (c.print v, rest)
  scan_sp : ∀ v, dom v → ∀ rest, Delim rest → floatTok (32 :: (c.print v ++ rest)) = (c.print v, rest)
  noNL : ∀ v, dom v → ∀ ch ∈ c.print v, ch ≠ 10

variable {S : Type} {dom : S → Prop}

theorem readScalar_print (c : Codec S) (hc : c.TokenOK dom) (v : S) (hv : dom v) (rest : Bytes) (hr : Delim rest) :
    readScalar c (c.print v ++ rest) = some (v, rest) ∧ readScalar c (32 :: (c.print v ++ rest)) = some (v, rest) := by
  unfold readScalar
  rw [hc.scan v hv rest hr, hc.scan_sp v hv rest hr]
  simp only [hc.parse_print v hv, and_self]

theorem realKind_roundTrip (c : Codec S) (zero : S) (hc : c.TokenOK dom) : (realKind c zero).RoundTrip dom where
  noNL := fun v hv => hc.noNL v hv
  read_write := fun v hv => ⟨[], by
    have := (readScalar_print c hc v hv [] (Or.inl rfl)).1
    rwa [List.append_nil] at this⟩
  read_sp_write := fun v hv => ⟨[], by
    have := (readScalar_print c hc v hv [] (Or.inl rfl)).2
    rwa [List.append_nil] at this⟩
  flags := by simp [realKind]

theorem complexKind_roundTrip (c : Codec S) (zero : S) (hc : c.TokenOK dom) :
    (complexKind c zero).RoundTrip (fun v => dom v.1 ∧ dom v.2) where
  noNL := by
    intro v hv ch hch
    simp only [complexKind, List.mem_append, List.mem_cons] at hch
    rcases hch with h | rfl | h
    · exact hc.noNL v.1 hv.1 ch h
    · omega
    · exact hc.noNL v.2 hv.2 ch h
  read_write := by
    intro v hv
    refine ⟨[], ?_⟩
    simp only [complexKind]
    rw [(readScalar_print c hc v.1 hv.1 (32 :: c.print v.2) (Or.inr ⟨_, rfl⟩)).1]
    simp only []
    have := (readScalar_print c hc v.2 hv.2 [] (Or.inl rfl)).2
    rw [List.append_nil] at this
    rw [this]
  read_sp_write := by
    intro v hv
    refine ⟨[], ?_⟩
    simp only [complexKind]
    have h1 := (readScalar_print c hc v.1 hv.1 (32 :: c.print v.2) (Or.inr ⟨_, rfl⟩)).2
    rw [h1]
    simp only []
    have := (readScalar_print c hc v.2 hv.2 [] (Or.inl rfl)).2
    rw [List.append_nil] at this
    rw [this]
  flags := by simp [complexKind]

end Amgcl.IO

namespace Amgcl.IO

/-! ### a concrete codec satisfying the contract (non-vacuity): non-negative integers printed in decimal -/

def natCodec : Codec Nat where
  print := natDec
  parse := fun tok => if tok.all isDigit && !tok.isEmpty then some (decVal tok) else none

theorem scanFloat_digits (st : FState) (hst : st.afterE = false) (ds rest : Bytes) (hd : allDigits ds)
    (hr : Delim rest) : scanFloat st (ds ++ rest) = (ds, rest) := by
  induction ds generalizing st with
  | nil =>
    rcases hr with rfl | ⟨t, rfl⟩
    · simp [scanFloat]
    · simp [scanFloat, hst, isDigit]
  | cons a t ih =>
    have ha := hd a (by simp)
    have := ih { st with mant := true, afterE := false } rfl (fun c hc => hd c (by simp [hc]))
    simp only [List.cons_append, scanFloat, hst, Bool.false_and, Bool.false_eq_true, if_false, ha, if_true, this]

theorem floatTok_natDec (n : Nat) (rest : Bytes) (hr : Delim rest) :
    floatTok (natDec n ++ rest) = (natDec n, rest) ∧ floatTok (32 :: (natDec n ++ rest)) = (natDec n, rest) := by
  obtain ⟨hne, hd, _⟩ := natDec_spec n
  have hsk := skipWs_digits (natDec n) rest hd hne
  have hsk2 : skipWs (32 :: (natDec n ++ rest)) = natDec n ++ rest := by
    have : skipWs (32 :: (natDec n ++ rest)) = skipWs (natDec n ++ rest) := by simp [skipWs, List.dropWhile, isSpace]
    rw [this, hsk]
  have hscan := scanFloat_digits ⟨false, false, false, false⟩ rfl (natDec n) rest hd hr
  have hmain : (match natDec n ++ rest with
      | 45 :: t => let r := scanFloat ⟨false, false, false, false⟩ t; (45 :: r.1, r.2)
      | 43 :: t => let r := scanFloat ⟨false, false, false, false⟩ t; (43 :: r.1, r.2)
      | _ => scanFloat ⟨false, false, false, false⟩ (natDec n ++ rest)) = (natDec n, rest) := by
    cases h : natDec n with
    | nil => exact absurd h hne
    | cons a t =>
      have ha := hd a (by rw [h]; simp)
      rw [isDigit_iff] at ha
      rw [h] at hscan
      simp only [List.cons_append] at hscan ⊢
      split
      · rename_i heq; injection heq with h1 _; omega
      · rename_i heq; injection heq with h1 _; omega
      · exact hscan
  constructor
  · unfold floatTok; rw [hsk]; exact hmain
  · unfold floatTok; rw [hsk2]; exact hmain

theorem natCodec_tokenOK : natCodec.TokenOK (fun _ => True) where
  parse_print := by
    intro v _
    obtain ⟨hne, hd, hv⟩ := natDec_spec v
    simp only [natCodec]
    have h1 : (natDec v).all isDigit = true := List.all_eq_true.mpr hd
    have h2 : (natDec v).isEmpty = false := by
      cases h : natDec v with
      | nil => exact absurd h hne
      | cons a t => rfl
    simp [h1, h2, hv]
  scan := fun v _ rest hr => (floatTok_natDec v rest hr).1
  scan_sp := fun v _ rest hr => (floatTok_natDec v rest hr).2
  noNL := fun v _ => natDec_no_nl v

end Amgcl.IO
