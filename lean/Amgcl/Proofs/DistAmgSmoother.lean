import Amgcl.Proofs.DistAmgDirect
/-!
The constructors of the distributed damped Jacobi and SPAI-0 relaxations compute, rank by rank, the slices of what
the serial constructors compute on the gathered matrix (rows and columns partitioned alike, so that the diagonal is
local), and the sweeps refine the serial sweeps (`distDiagSweep_ref`).
-/
namespace Amgcl.DistAmg
open Amgcl Amgcl.Dist Amgcl.Lockstep

section
variable {K : Type} [Field K] [DecidableEq K]

/-! ### damped Jacobi -/

omit [Field K] [DecidableEq K] in
theorem find_locPart (cb ce i : Nat) (hi : cb + i < ce) (row : Row K) :
    ((locPart cb ce row).find? (fun cv => cv.1 == i)).map (·.2) = (row.find? (fun cv => cv.1 == cb + i)).map (·.2) := by
  unfold locPart
  induction row with
  | nil => rfl
  | cons a t ih =>
    by_cases hin : (fun cv : Nat × K => inRange cb ce cv.1) a = true
    · rw [List.filter_cons_of_pos (p := fun cv : Nat × K => inRange cb ce cv.1) (a := a) hin, List.map_cons,
        List.find?_cons, List.find?_cons]
      have hr : inRange cb ce a.1 = true := hin
      unfold inRange at hr
      simp only [Bool.and_eq_true, decide_eq_true_eq] at hr
      by_cases hc : a.1 = cb + i
      · have e1 : (a.1 - cb == i) = true := by simp; omega
        have e2 : (a.1 == cb + i) = true := by simp [hc]
        simp only [e1, e2]; rfl
      · have e1 : (a.1 - cb == i) = false := by simp; omega
        have e2 : (a.1 == cb + i) = false := by simp [hc]
        simp only [e1, e2]; exact ih
    · rw [List.filter_cons_of_neg (p := fun cv : Nat × K => inRange cb ce cv.1) (a := a) hin, List.find?_cons]
      have hr : ¬ (cb ≤ a.1 ∧ a.1 < ce) := by
        intro hh; apply hin; show inRange cb ce a.1 = true; unfold inRange; simp [hh.1, hh.2]
      have e2 : (a.1 == cb + i) = false := by simp; omega
      simp only [e2]; exact ih

omit [Field K] [DecidableEq K] in
theorem any_locPart (cb ce i : Nat) (hi : cb + i < ce) (row : Row K) :
    (locPart cb ce row).any (fun cv => cv.1 == i) = row.any (fun cv => cv.1 == cb + i) := by
  have h := find_locPart cb ce i hi row
  have e1 : ∀ (l : Row K) (q : Nat × K → Bool), l.any q = ((l.find? q).map (·.2)).isSome := by
    intro l q
    rw [Option.isSome_map, Bool.eq_iff_iff, List.any_eq_true, List.find?_isSome]
  rw [e1, e1, h]

omit [Field K] [DecidableEq K] in
/-- shape facts about a rank's block of a square distribution -/
theorem rank_rows (A : CRS K) (p : List Nat) (hP : PartOK A p p) (r : Nat) (hr : r < p.length) :
    (splitRank A p p r).loc.nrows = p.getD r 0 ∧ (splitRank A p p r).rem.nrows = p.getD r 0 ∧
    dom p (r + 1) - dom p r = p.getD r 0 ∧ dom p r + p.getD r 0 ≤ A.nrows := by
  have hw : dom p (r + 1) - dom p r = p.getD r 0 := by rw [dom_succ p r hr]; omega
  have hn := splitRank_nrows A p p r
  refine ⟨by rw [hn.1, hw], by rw [hn.2, hw], hw, ?_⟩
  have := dom_le_sum p (show r + 1 ≤ p.length from hr)
  rw [dom_succ p r hr, hP.rows] at this
  exact this

theorem size_diagInv (A : CRS K) : (Relax.diagInv A).size = A.nrows := by simp [Relax.diagInv]

/-- `diagonal(A_loc, invert)` on a rank is the rank's slice of `diagonal(A, invert)` -/
theorem diagInv_rank (A : CRS K) (p : List Nat) (hP : PartOK A p p) (r : Nat) (hr : r < p.length) :
    Relax.diagInv (splitRank A p p r).loc = vecPart (Relax.diagInv A) p r := by
  obtain ⟨hn, _, hw, hle⟩ := rank_rows A p hP r hr
  apply eq_vecPart _ _ p r hr (by rw [size_diagInv, hP.rows]) (by rw [size_diagInv, hn])
  intro i hi
  unfold Relax.diagInv
  rw [getD_ofFn_lt _ _ _ (by rw [hn]; exact hi), getD_ofFn_lt _ _ _ (by omega)]
  simp only
  unfold Relax.firstDiag
  rw [splitRank_loc_row A p p r i (by rw [hw]; exact hi), find_locPart _ _ i (by rw [dom_succ p r hr]; omega)]

omit [Field K] [DecidableEq K] in
theorem hasDiagb_ranks (A : CRS K) (p : List Nat) (hP : PartOK A p p) :
    (split A p p).all (fun D => Relax.hasDiagb D.loc) = Relax.hasDiagb A := by
  rw [Bool.eq_iff_iff, List.all_eq_true]
  unfold Relax.hasDiagb
  constructor
  · intro h
    rw [List.all_eq_true]
    intro g hg
    have hg' := List.mem_range.1 hg
    rw [← hP.rows] at hg'
    obtain ⟨r, hr, hlo, hhi⟩ := exists_owner p g hg'
    obtain ⟨hn, _, hw, _⟩ := rank_rows A p hP r hr
    have hD : splitRank A p p r ∈ split A p p := by
      unfold split; exact List.mem_map.2 ⟨r, List.mem_range.2 hr, rfl⟩
    have := h _ hD
    rw [List.all_eq_true] at this
    have hi : g - dom p r < p.getD r 0 := by rw [dom_succ p r hr] at hhi; omega
    have := this (g - dom p r) (List.mem_range.2 (by rw [hn]; exact hi))
    rw [splitRank_loc_row A p p r _ (by rw [hw]; exact hi), any_locPart _ _ _ (by omega),
      show dom p r + (g - dom p r) = g by omega] at this
    exact this
  · intro h D hD
    rw [List.all_eq_true] at h ⊢
    unfold split at hD
    obtain ⟨r, hr, rfl⟩ := List.mem_map.1 hD
    have hr' := List.mem_range.1 hr
    obtain ⟨hn, _, hw, hle⟩ := rank_rows A p hP r hr'
    intro i hi
    have hi' : i < p.getD r 0 := by rw [← hn]; exact List.mem_range.1 hi
    rw [splitRank_loc_row A p p r i (by rw [hw]; exact hi'), any_locPart _ _ _ (by rw [dom_succ p r hr']; omega)]
    exact h (dom p r + i) (List.mem_range.2 (by omega))

/-- **damped Jacobi**: the distributed constructor succeeds exactly when the serial one does, the ranks then hold the
slices of the serial `dia`, and the distributed sweeps refine the serial sweeps -/
theorem distJacobi_ref (ω : K) (A : CRS K) (p : List Nat) (hP : PartOK A p p) :
    (Relax.hasDiagb A = true →
      (distJacobi ω).setup (split A p p) p = .ok (splitVec (Relax.diagInv A) p) ∧
      (Relax.jacobi ω).setup A = .ok (Relax.diagInv A)) ∧
    (Relax.hasDiagb A = false →
      (distJacobi ω).setup (split A p p) p = .undefinedInput ∧ (Relax.jacobi ω).setup A = .undefinedInput) ∧
    SweepRef ((distJacobi ω).applyPre (splitVec (Relax.diagInv A) p) (split A p p) p)
      ((Relax.jacobi ω).applyPre (Relax.diagInv A) A) p ∧
    SweepRef ((distJacobi ω).applyPost (splitVec (Relax.diagInv A) p) (split A p p) p)
      ((Relax.jacobi ω).applyPost (Relax.diagInv A) A) p := by
  have hsw := distDiagSweep_ref ω (Relax.diagInv A) A p hP (by rw [size_diagInv, hP.rows])
  refine ⟨?_, ?_, hsw, hsw⟩
  · intro hd
    refine ⟨?_, by simp [Relax.jacobi, hd]⟩
    show distJacobiSetup (split A p p) = _
    unfold distJacobiSetup
    rw [hasDiagb_ranks A p hP, if_pos hd]
    congr 1
    unfold split splitVec
    rw [List.map_map]
    apply List.map_congr_left
    intro r hr
    exact diagInv_rank A p hP r (List.mem_range.1 hr)
  · intro hd
    refine ⟨?_, by simp [Relax.jacobi, hd]⟩
    show distJacobiSetup (split A p p) = _
    unfold distJacobiSetup
    rw [hasDiagb_ranks A p hP, if_neg (by simp [hd])]

/-! ### SPAI-0 -/

omit [DecidableEq K] in
theorem spai_fold (norm : K → K) (i : Nat) (row : Row K) (a b : K) :
    row.foldl (fun (nd : K × K) cv => (if cv.1 = i then nd.1 + cv.2 else nd.1, nd.2 + norm cv.2 * norm cv.2)) (a, b)
      = (a + (row.map (fun cv => if cv.1 = i then cv.2 else 0)).sum,
         b + (row.map (fun cv => norm cv.2 * norm cv.2)).sum) := by
  induction row generalizing a b with
  | nil => simp
  | cons c t ih =>
    rw [List.foldl_cons, ih]
    by_cases hc : c.1 = i
    · simp only [hc, if_true, List.map_cons, List.sum_cons]
      congr 1 <;> ring
    · simp only [hc, if_false, List.map_cons, List.sum_cons]
      congr 1 <;> ring

omit [DecidableEq K] in
theorem den_fold (norm : K → K) (row : Row K) (b : K) :
    row.foldl (fun (den : K) cv => den + norm cv.2 * norm cv.2) b
      = b + (row.map (fun cv => norm cv.2 * norm cv.2)).sum := by
  induction row generalizing b with
  | nil => simp
  | cons c t ih => rw [List.foldl_cons, ih, List.map_cons, List.sum_cons]; ring

omit [DecidableEq K] in
theorem size_spai0Diag (norm : K → K) (A : CRS K) : (Relax.spai0Diag norm A).size = A.nrows := by
  simp [Relax.spai0Diag]

omit [DecidableEq K] in
/-- numerator: the entries with global column `cb + i` are the local entries with local column `i` -/
theorem num_locPart (cb ce i : Nat) (hi : cb + i < ce) (row : Row K) :
    ((locPart cb ce row).map (fun cv => if cv.1 = i then cv.2 else 0)).sum
      = (row.map (fun cv => if cv.1 = cb + i then cv.2 else 0)).sum := by
  rw [← sum_filter_split (fun cv => inRange cb ce cv.1) (fun cv => if cv.1 = cb + i then cv.2 else 0) row]
  have hz : ((row.filter (fun cv => !inRange cb ce cv.1)).map (fun cv => if cv.1 = cb + i then cv.2 else (0 : K))).sum = 0 := by
    apply List.sum_eq_zero
    intro v hv
    obtain ⟨cv, hcv, rfl⟩ := List.mem_map.1 hv
    have hout := (List.mem_filter.1 hcv).2
    unfold inRange at hout
    have : cv.1 ≠ cb + i := by
      intro e
      simp [e] at hout
      omega
    simp [this]
  rw [hz, add_zero]
  unfold locPart
  rw [List.map_map]
  congr 1
  apply List.map_congr_left
  intro cv hcv
  have hin := (List.mem_filter.1 hcv).2
  unfold inRange at hin
  simp only [Bool.and_eq_true, decide_eq_true_eq] at hin
  simp only [Function.comp]
  by_cases hc : cv.1 = cb + i
  · rw [if_pos (by omega), if_pos hc]
  · rw [if_neg (by omega), if_neg hc]

omit [DecidableEq K] in
/-- denominator: local entries, then remote entries -/
theorem den_split (norm : K → K) (cb ce : Nat) (row : Row K) :
    ((locPart cb ce row).map (fun cv => norm cv.2 * norm cv.2)).sum
      + ((remPart cb ce row).map (fun cv => norm cv.2 * norm cv.2)).sum
      = (row.map (fun cv => norm cv.2 * norm cv.2)).sum := by
  rw [← sum_filter_split (fun cv => inRange cb ce cv.1) (fun cv => norm cv.2 * norm cv.2) row]
  unfold locPart remPart
  rw [List.map_map]
  rfl

/-- the SPAI-0 diagonal of a rank (local numerator, local + remote denominator) is the rank's slice of the serial one -/
theorem spai0Diag_rank (norm : K → K) (A : CRS K) (p : List Nat) (hP : PartOK A p p) (r : Nat) (hr : r < p.length) :
    spai0DiagRank norm (splitRank A p p r) = vecPart (Relax.spai0Diag norm A) p r := by
  obtain ⟨hn, _, hw, hle⟩ := rank_rows A p hP r hr
  apply eq_vecPart _ _ p r hr (by rw [size_spai0Diag, hP.rows]) (by simp [spai0DiagRank, hn])
  intro i hi
  unfold spai0DiagRank Relax.spai0Diag
  rw [getD_ofFn_lt _ _ _ (by rw [hn]; exact hi), getD_ofFn_lt _ _ _ (by omega)]
  simp only
  rw [spai_fold, spai_fold, den_fold, splitRank_loc_row A p p r i (by rw [hw]; exact hi),
    splitRank_rem_row A p p r i (by rw [hw]; exact hi), num_locPart _ _ i (by rw [dom_succ p r hr]; omega)]
  simp only
  rw [add_assoc, den_split]

/-- **SPAI-0** -/
theorem distSpai0_ref (norm : K → K) (A : CRS K) (p : List Nat) (hP : PartOK A p p) :
    (distSpai0 norm).setup (split A p p) p = .ok (splitVec (Relax.spai0Diag norm A) p) ∧
    (Relax.spai0 norm).setup A = .ok (Relax.spai0Diag norm A) ∧
    SweepRef ((distSpai0 norm).applyPre (splitVec (Relax.spai0Diag norm A) p) (split A p p) p)
      ((Relax.spai0 norm).applyPre (Relax.spai0Diag norm A) A) p ∧
    SweepRef ((distSpai0 norm).applyPost (splitVec (Relax.spai0Diag norm A) p) (split A p p) p)
      ((Relax.spai0 norm).applyPost (Relax.spai0Diag norm A) A) p := by
  have hsw := distDiagSweep_ref 1 (Relax.spai0Diag norm A) A p hP (by rw [size_spai0Diag, hP.rows])
  refine ⟨?_, rfl, hsw, hsw⟩
  show Relax.SetupOutcome.ok ((split A p p).map (spai0DiagRank norm)) = _
  congr 1
  unfold split splitVec
  rw [List.map_map]
  apply List.map_congr_left
  intro r hr
  exact spai0Diag_rank norm A p hP r (List.mem_range.1 hr)

end
end Amgcl.DistAmg
