import Amgcl.Model.KernelsCopy
import Amgcl.Proofs.KernelsCommon
/-! the CRS copy / convert constructors are the identity on the stored rows -/
namespace Amgcl.K2
open Amgcl

theorem crsCopy_eq {K : Type} (A : CRS K) : crsCopy A = A := by
  cases A with
  | mk nc rows =>
    unfold crsCopy
    simp only [CRS.mk.injEq, true_and]
    apply Array.ext
    · simp [CRS.nrows]
    · intro i h1 h2
      simp only [Array.getElem_ofFn, Prod.mk.eta, List.map_id']
      exact row_eq_getElem _ h2

end Amgcl.K2
