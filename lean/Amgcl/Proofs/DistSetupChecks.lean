import Amgcl.Model.DistSetupChecks
import Amgcl.Proofs.RowGet
import Amgcl.Proofs.CoarseningChecks
import Mathlib.Tactic.Ring
import Mathlib.Tactic.Linarith
/-!
Soundness of the V-grade predicates of C12's setup phase (`Model/DistSetupChecks.lean`): a `true` verdict implies the
denotational statement about the gathered output of the distributed coarsening.
-/
set_option linter.unusedSectionVars false
namespace Amgcl
namespace DistSetup
open Finset Coarsening

section shape
variable {K : Type} [Add K] [Mul K] [Sub K] [Neg K] [Zero K] [One K] [DecidableEq K] [LT K] [DecidableLT K]

theorem all_range {p : Nat → Bool} {n : Nat} (h : (List.range n).all p = true) (i : Nat) (hi : i < n) : p i = true := by
  rw [List.all_eq_true] at h
  exact h i (List.mem_range.2 hi)

/-- the conjuncts of `tentShape` -/
theorem tentShape_parts (bs cols : Nat) (T : CRS K) (h : tentShape bs cols T = true) :
    T.wfb = true ∧ 0 < bs ∧ T.nrows % bs = 0 ∧ T.ncols % aggWidth bs cols = 0 ∧
    (∀ i, i < T.nrows → rowShapeOk bs cols i (T.row i) = true) ∧
    (∀ p, p < T.nrows / bs → pointOk bs (aggWidth bs cols) T p = true) := by
  unfold tentShape at h
  simp only [Bool.and_eq_true, decide_eq_true_eq, beq_iff_eq] at h
  obtain ⟨⟨⟨⟨⟨h1, h2⟩, h3⟩, h4⟩, h5⟩, h6⟩ := h
  exact ⟨h1, h2, h3, h4, fun i hi => all_range h5 i hi, fun p hp => all_range h6 p hp⟩

/-- a row accepted by `rowShapeOk`: every stored entry lies in the column block of the row's aggregate -/
theorem rowShape_block (bs cols i : Nat) (r : Row K) (h : rowShapeOk bs cols i r = true) :
    ∀ cv ∈ r, rowAgg (aggWidth bs cols) r = some (cv.1 / aggWidth bs cols) := by
  intro cv hcv
  cases r with
  | nil => cases hcv
  | cons e t =>
    obtain ⟨c, v⟩ := e
    unfold rowShapeOk at h
    by_cases hc : cols = 0
    · simp only [hc, if_true, Bool.and_eq_true, List.isEmpty_iff] at h
      obtain ⟨⟨ht, _⟩, _⟩ := h
      subst ht
      have : cv = (c, v) := by simpa using hcv
      subst this
      simp [rowAgg]
    · simp only [hc, if_false, beq_iff_eq] at h
      have hw : aggWidth bs cols = cols := by unfold aggWidth; simp [hc]
      rw [hw]
      have hmem : cv.1 ∈ ((c, v) :: t).map (·.1) := List.mem_map_of_mem hcv
      rw [h, List.mem_map] at hmem
      obtain ⟨j, hj, hjc⟩ := hmem
      have hj' : j < cols := List.mem_range.1 hj
      have hpos : 0 < cols := Nat.pos_of_ne_zero hc
      have : cv.1 / cols = c / cols := by
        rw [← hjc, Nat.mul_comm, Nat.mul_add_div hpos, Nat.div_eq_of_lt hj', Nat.add_zero]
      simp [rowAgg, this]

/-- without near-null space an accepted non-empty row is a single unit entry -/
theorem rowShape_unit (bs i : Nat) (r : Row K) (h : rowShapeOk bs 0 i r = true) (hne : r ≠ []) :
    ∃ c, r = [(c, 1)] ∧ c % bs = i % bs := by
  cases r with
  | nil => exact absurd rfl hne
  | cons e t =>
    obtain ⟨c, v⟩ := e
    unfold rowShapeOk at h
    simp only [if_true, Bool.and_eq_true, List.isEmpty_iff, decide_eq_true_eq, beq_iff_eq] at h
    obtain ⟨⟨ht, hv⟩, hc⟩ := h
    exact ⟨c, by rw [ht, hv], hc⟩

theorem noEmptyAgg_sound (bs cols : Nat) (T : CRS K) (h : noEmptyAgg bs cols T = true) :
    ∀ a, a < T.ncols / aggWidth bs cols → ∃ i, i < T.nrows ∧ rowAgg (aggWidth bs cols) (T.row i) = some a := by
  intro a ha
  unfold noEmptyAgg at h
  have h1 := all_range h a ha
  rw [List.any_eq_true] at h1
  obtain ⟨i, hi, hia⟩ := h1
  exact ⟨i, List.mem_range.1 hi, by simpa using hia⟩

theorem isolatedOk_sound (eps2 : K) (bs : Nat) (S T : CRS K) (h : isolatedOk eps2 bs S T = true) :
    ∀ p, p < S.nrows → T.row (p * bs) = [] → ∀ cv ∈ S.row p, cv.1 ≠ p →
      ¬ (eps2 * diagOf S p * diagOf S cv.1 < cv.2 * cv.2) := by
  intro p hp hrow cv hcv hne
  unfold isolatedOk at h
  have h1 := all_range h p hp
  simp only [hrow, List.isEmpty_nil, Bool.not_true, Bool.false_or, Bool.not_eq_eq_eq_not, Bool.not_true] at h1
  unfold hasStrong at h1
  rw [List.any_eq_false] at h1
  have h2 := h1 cv hcv
  unfold strongEntry at h2
  intro hlt
  apply h2
  simp [hne, hlt]

theorem isTranspose_sound (R P : CRS K) (h : isTranspose R P = true) :
    R.nrows = P.ncols ∧ R.ncols = P.nrows ∧ ∀ i, i < R.nrows → ∀ j, j < R.ncols → R.get i j = P.get j i := by
  unfold isTranspose at h
  simp only [Bool.and_eq_true, beq_iff_eq] at h
  obtain ⟨⟨⟨⟨_, _⟩, h3⟩, h4⟩, h5⟩ := h
  refine ⟨h3, h4, fun i hi j hj => ?_⟩
  have := all_range (all_range h5 i hi) j hj
  simpa using this

end shape

section galerkin
variable {K : Type} [CommRing K] [LinearOrder K] [IsStrictOrderedRing K]

theorem within_iff (tol x : K) : within tol x = true ↔ -tol ≤ x ∧ x ≤ tol := by
  unfold within
  simp only [Bool.and_eq_true, Bool.not_eq_eq_eq_not, Bool.not_true, decide_eq_false_iff_not, not_lt]
  constructor
  · rintro ⟨h1, h2⟩; exact ⟨by have := neg_le_neg h2; simpa using this, h1⟩
  · rintro ⟨h1, h2⟩; exact ⟨h2, by have := neg_le_neg h1; simpa using this⟩

omit [LinearOrder K] [IsStrictOrderedRing K] in
/-- the unmerged sparse product row denotes the row-times-matrix product -/
theorem rowGet_rowMul (r : Row K) (M : CRS K) (m : Nat) (hr : ∀ cv ∈ r, cv.1 < m) (j : Nat) :
    rowGet (rowMul r M) j = ∑ k ∈ range m, rowGet r k * M.get k j := by
  unfold rowMul
  rw [rowGet_flatMap]
  have : (r.map (fun kv => rowGet ((M.row kv.1).map (fun cw => (cw.1, kv.2 * cw.2))) j))
      = r.map (fun kv => kv.2 * M.get kv.1 j) := by
    apply List.map_congr_left; intro kv _; rw [rowGet_map_mul_left]; rfl
  rw [this, sum_map_mul_eq_sum_rowGet r (fun k => M.get k j) m hr]

omit [LinearOrder K] [IsStrictOrderedRing K] in
theorem rowGet_zero_of_ne (r : Row K) (j : Nat) (h : ∀ cv ∈ r, cv.1 ≠ j) : rowGet r j = 0 := by
  induction r with
  | nil => rfl
  | cons cv t ih =>
    rw [rowGet_cons', if_neg (h cv List.mem_cons_self), ih (fun c hc => h c (List.mem_cons_of_mem _ hc)), add_zero]

omit [LinearOrder K] [IsStrictOrderedRing K] in
theorem rowMul_cols (r : Row K) (M : CRS K) (hM : M.WF) : ∀ cv ∈ rowMul r M, cv.1 < M.ncols := by
  intro cv hcv
  unfold rowMul at hcv
  rw [List.mem_flatMap] at hcv
  obtain ⟨kv, _, h2⟩ := hcv
  rw [List.mem_map] at h2
  obtain ⟨cw, hcw, rfl⟩ := h2
  exact hM.row_lt kv.1 cw hcw

omit [LinearOrder K] [IsStrictOrderedRing K] in
/-- entry `(i, j)` of the unmerged triple product row is `(R A P)_ij` -/
theorem rowGet_tripleRow (R A P : CRS K) (hR : R.WF) (hA : A.WF) (hRA : R.ncols = A.nrows) (_hAP : A.ncols = P.nrows)
    (i j : Nat) :
    rowGet (tripleRow R A P i) j =
      ∑ l ∈ range A.ncols, (∑ k ∈ range A.nrows, R.get i k * A.get k l) * P.get l j := by
  unfold tripleRow
  rw [rowGet_rowMul (rowMul (R.row i) A) P A.ncols (rowMul_cols (R.row i) A hA) j]
  apply sum_congr rfl
  intro l _
  rw [rowGet_rowMul (R.row i) A A.nrows (by rw [← hRA]; exact hR.row_lt i) l]
  rfl

/-- a `true` verdict of `isGalerkin`: the coarse operator is `s · R · A · P` entry by entry up to
`rel · galerkinScale` (exactly for `rel = 0`) -/
theorem isGalerkin_sound (rel s : K) (R A P Ac : CRS K) (h : isGalerkin rel s R A P Ac = true) :
    Ac.nrows = R.nrows ∧ Ac.ncols = P.ncols ∧
    ∀ i, i < R.nrows → ∀ j, j < P.ncols →
      -(rel * galerkinScale s R A P) ≤
        Ac.get i j - s * ∑ l ∈ range A.ncols, (∑ k ∈ range A.nrows, R.get i k * A.get k l) * P.get l j ∧
      Ac.get i j - s * ∑ l ∈ range A.ncols, (∑ k ∈ range A.nrows, R.get i k * A.get k l) * P.get l j
        ≤ rel * galerkinScale s R A P := by
  unfold isGalerkin at h
  simp only [Bool.and_eq_true, beq_iff_eq] at h
  obtain ⟨⟨⟨⟨⟨⟨⟨⟨hR, hA⟩, _⟩, _⟩, hRA⟩, hAP⟩, hn⟩, hm⟩, hall⟩ := h
  refine ⟨hn, hm, fun i hi j hj => ?_⟩
  have h1 := all_range (all_range hall i hi) j hj
  rw [rowGet_tripleRow R A P (wf_of_wfb R hR) (wf_of_wfb A hA) hRA hAP i j] at h1
  exact (within_iff _ _).1 h1

end galerkin
end DistSetup
end Amgcl
