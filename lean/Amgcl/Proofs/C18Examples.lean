import Amgcl.Proofs.SchurExact
import Amgcl.Proofs.Deflation
import Amgcl.Model.CPR
import Mathlib.Algebra.Order.Field.Rat
import Amgcl.Proofs.InverseMatrix
/-!
Concrete instances over `ℚ` used by the non-vacuity `example`s of `Properties/C18.lean`: a 2×2 saddle-point style
system with interleaved mask `[u, p]`, its exact inner solvers, and a deflation set-up.
-/
namespace Amgcl.C18Ex
open Amgcl Amgcl.Schur Matrix

theorem CRS.ext' {K : Type} {A B : CRS K} (h1 : A.ncols = B.ncols) (h2 : A.rows = B.rows) : A = B := by
  cases A; cases B; simp_all

theorem vec1 {K : Type} [Zero K] (r : Vec K) (h : r.size = 1) : r = #[r.getD 0 0] := by
  apply Array.ext (by simp [h])
  intro i h1 h2
  have : i = 0 := by omega
  subst this
  simp [Array.getD, h]

/-- `K = [2 1; 1 3]`, first unknown u, second unknown p -/
def A2 : CRS ℚ := ⟨2, #[[(0, 2), (1, 1)], [(0, 1), (1, 3)]]⟩
def pm2 : Array Bool := #[false, true]
/-- `U = Kuu⁻¹ = 1/2` -/
def U2 (r : Vec ℚ) : Vec ℚ := #[r.getD 0 0 / 2]
/-- `P = S⁻¹`, `S = 3 - 1·(1/2)·1 = 5/2` -/
def P2 (r : Vec ℚ) : Vec ℚ := #[r.getD 0 0 * (2 / 5)]

theorem A2_ok : A2.WF ∧ A2.nrows = pm2.size ∧ A2.ncols = pm2.size := by decide
theorem cls2 : (cls pm2 false).length = 1 ∧ (cls pm2 true).length = 1 := by decide

/-- the parameter sets of the examples: `adjust_p = 1` (default), `simplec_dia`, no `approx_schur`, any `type` -/
def prmT (ty : Nat) : Params := ⟨ty, false, 1, true⟩

section
variable (ty : Nat)

theorem hKuu : (init 1 (prmT ty) A2 pm2).Kuu = ⟨1, #[[(0, 2)]]⟩ := by
  have : (init 1 (prmT ty) A2 pm2).Kuu = (init 1 (prmT 1) A2 pm2).Kuu := rfl
  rw [this]; exact CRS.ext' (by decide +kernel) (by decide +kernel)
theorem hKup : (init 1 (prmT ty) A2 pm2).Kup = ⟨1, #[[(0, 1)]]⟩ := by
  have : (init 1 (prmT ty) A2 pm2).Kup = (init 1 (prmT 1) A2 pm2).Kup := rfl
  rw [this]; exact CRS.ext' (by decide +kernel) (by decide +kernel)
theorem hKpu : (init 1 (prmT ty) A2 pm2).Kpu = ⟨1, #[[(0, 1)]]⟩ := by
  have : (init 1 (prmT ty) A2 pm2).Kpu = (init 1 (prmT 1) A2 pm2).Kpu := rfl
  rw [this]; exact CRS.ext' (by decide +kernel) (by decide +kernel)
theorem hKppP : (init 1 (prmT ty) A2 pm2).KppP = ⟨1, #[[(0, 5/2)]]⟩ := by
  have : (init 1 (prmT ty) A2 pm2).KppP = (init 1 (prmT 1) A2 pm2).KppP := rfl
  rw [this]; exact CRS.ext' (by decide +kernel) (by decide +kernel)
theorem hLd : (init 1 (prmT ty) A2 pm2).Ld = some #[1/2] := by
  have : (init 1 (prmT ty) A2 pm2).Ld = (init 1 (prmT 1) A2 pm2).Ld := rfl
  rw [this]; decide +kernel
theorem hnu : (init 1 (prmT ty) A2 pm2).nu = 1 := by
  have : (init 1 (prmT ty) A2 pm2).nu = (init 1 (prmT 1) A2 pm2).nu := rfl
  rw [this]; decide +kernel
theorem hnp : (init 1 (prmT ty) A2 pm2).np = 1 := by
  have : (init 1 (prmT ty) A2 pm2).np = (init 1 (prmT 1) A2 pm2).np := rfl
  rw [this]; decide +kernel

theorem det2 : IsUnit (toMat (init 1 (prmT ty) A2 pm2).Kuu (cls pm2 false).length (cls pm2 false).length).det := by
  rw [hKuu]
  have : toMat (⟨1, #[[(0, 2)]]⟩ : CRS ℚ) (cls pm2 false).length (cls pm2 false).length
      = Matrix.of (fun _ _ => (2 : ℚ)) := by
    funext i j
    have hi : i.val = 0 := by have := i.isLt; have := cls2.1; omega
    have hj : j.val = 0 := by have := j.isLt; have := cls2.1; omega
    simp [toMat, CRS.get, CRS.row, rowGet, hi, hj]
  rw [this]
  have h1 : ∀ (m : Nat), m = 1 → IsUnit (Matrix.of (fun (_ _ : Fin m) => (2 : ℚ))).det := by
    intro m hm; subst hm; simp
  exact h1 _ cls2.1

theorem hU2 (r : Vec ℚ) (hr : r.size = (cls pm2 false).length) :
    (U2 r).size = (cls pm2 false).length ∧
    spmv 1 (init 1 (prmT ty) A2 pm2).Kuu (U2 r) 0 (vclear (init 1 (prmT ty) A2 pm2).nu) = r := by
  rw [cls2.1] at hr
  refine ⟨by rw [cls2.1]; rfl, ?_⟩
  rw [hKuu, hnu, vec1 r hr]
  simp [spmv, rowDot, CRS.row, CRS.nrows, U2]
  apply Array.ext (by simp)
  intro i h1 h2
  simp
  ring

theorem hP2 (r : Vec ℚ) (hr : r.size = (cls pm2 true).length) :
    (P2 r).size = (cls pm2 true).length ∧
    (init 1 (prmT ty) A2 pm2).spmv U2 1 (P2 r) 0 (vclear (init 1 (prmT ty) A2 pm2).np) = r := by
  rw [cls2.2] at hr
  refine ⟨by rw [cls2.2]; rfl, ?_⟩
  rw [vec1 r hr]
  unfold State.spmv State.kppPart
  simp only [hKup, hKpu, hKppP, hLd, hnu, hnp]
  simp [spmv, vmul, rowDot, CRS.row, CRS.nrows, U2, P2, init, prmT]
  apply Array.ext (by simp)
  intro i h1 h2
  simp
  ring

end

end Amgcl.C18Ex

namespace Amgcl.C18Ex
open Amgcl Amgcl.Deflation Finset

/-- 1-D Laplacian on two points, one constant deflation vector: `E = Zᵀ A Z = (2)` -/
def Ad : CRS ℚ := ⟨2, #[[(0, 2), (1, -1)], [(0, -1), (1, 2)]]⟩
def Zd : Array (Vec ℚ) := #[#[1, 1]]
def std : Deflation.State ℚ := { A := Ad, Z := Zd, Einv := #[1/2] }

theorem Ad_ok : Ad.WF ∧ Ad.nrows = 2 ∧ Ad.ncols = 2 := by decide
theorem mkE_d : mkE Ad Zd = #[2] := by decide +kernel
theorem init_d : Deflation.init Ad Zd = some std := by
  have h1 : zeroPivot Zd.size (mkE Ad Zd) = false := by decide +kernel
  have h2 : (inverse Zd.size (mkE Ad Zd) (Array.replicate (Zd.size * Zd.size) 0) (Array.replicate Zd.size 0)).1 = #[1/2] := by
    decide +kernel
  unfold Deflation.init
  simp only [h1, h2]
  rfl
theorem det_d : (matOf Zd.size (mkE Ad Zd)).det ≠ 0 := by
  rw [mkE_d]
  have : matOf Zd.size (#[2] : Array ℚ) = Matrix.of (fun _ _ => (2 : ℚ)) := by
    funext i j
    have hi : i.val = 0 := by have := i.isLt; have : Zd.size = 1 := rfl; omega
    have hj : j.val = 0 := by have := j.isLt; have : Zd.size = 1 := rfl; omega
    simp [matOf, get2, hi, hj]
  rw [this]
  have h1 : ∀ (m : Nat), m = 1 → (Matrix.of (fun (_ _ : Fin m) => (2 : ℚ))).det ≠ 0 := by
    intro m hm; subst hm; simp
  exact h1 _ rfl
/-- the exact preconditioner `A⁻¹ = [2 1; 1 2] / 3` -/
def Pd (r : Vec ℚ) : Vec ℚ := #[(2 * r.getD 0 0 + r.getD 1 0) / 3, (r.getD 0 0 + 2 * r.getD 1 0) / 3]
theorem Pd_ok : (Pd #[3, 0]).size = 2 ∧ spmv 1 Ad (Pd #[3, 0]) 0 (vclear 2) = #[3, 0] := by decide +kernel
theorem Zd_ok (j : Nat) (hj : j < Zd.size) : (Zd.getD j #[]).size = 2 := by
  have hj0 : j = 0 := by have : Zd.size = 1 := rfl; omega
  subst hj0; rfl

/-- a 4×4 scalar system with 2×2 blocks for the CPR statements (rows sorted) -/
def Ac : CRS ℚ := ⟨4, #[[(0, 4), (1, 1), (2, -1)], [(0, 1), (1, 3), (3, 1)], [(0, -1), (2, 5), (3, 2)], [(1, 1), (2, 1), (3, 4)]]⟩
theorem Ac_flags : (CPR.initScalar Ac 2 0).uninit = false ∧ (CPR.initScalar Ac 2 0).zeroPivot = false := by
  decide +kernel
theorem Ac_ok : Ac.sortedb = true ∧ (if (0 : Nat) = 0 then Ac.nrows else 0) = 2 * 2 := by decide

/-- a 3×3 block matrix of 2×2 blocks; block row 0 couples to the (inactive) block column 2 -/
def Abk : CRS (CPR.Blk ℚ) := ⟨3, #[[(0, #[4, 1, 1, 3]), (2, #[1, 0, 0, 1])], [(1, #[5, 2, 1, 4])],
  [(0, #[1, 0, 0, 1]), (2, #[3, 0, 0, 3])]]⟩
theorem Abk_ok : Abk.sortedb = true ∧ 2 ≤ Abk.nrows := by decide

end Amgcl.C18Ex
