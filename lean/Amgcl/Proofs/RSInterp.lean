import Amgcl.Proofs.RSInv
import Amgcl.Proofs.KernelsCommon
import Mathlib.Order.Defs.LinearOrder
/-!
Ruge–Stuben interpolation (`Model/RugeStuben.lean`, section `interp`): the coarse numbering `cidx`, agreement of the
counting pass and the fill pass (the row widths of `P`), well-formedness of `P`.
-/
namespace Amgcl
namespace RS

/-! ### `cidx` -/

/-- number of C points among the first `m` variables -/
def countC (cf : Array CF) : Nat → Nat
  | 0 => 0
  | m + 1 => countC cf m + if cf.getD m CF.U = CF.C then 1 else 0

theorem countC_mono (cf : Array CF) {m m' : Nat} (h : m ≤ m') : countC cf m ≤ countC cf m' := by
  induction m' with
  | zero => have : m = 0 := by omega
            subst this; exact Nat.le_refl _
  | succ k ih =>
    by_cases hk : m = k + 1
    · subst hk; exact Nat.le_refl _
    · have := ih (by omega); simp only [countC]; omega

theorem countC_lt (cf : Array CF) {i n : Nat} (hi : i < n) (hc : cf.getD i CF.U = CF.C) : countC cf i < countC cf n := by
  have h1 : countC cf (i + 1) = countC cf i + 1 := by simp [countC, hc]
  have h2 := countC_mono cf (show i + 1 ≤ n by omega)
  omega

/-- the numbering is strictly increasing on the C points -/
theorem countC_strict (cf : Array CF) {i j : Nat} (hij : i < j) (hc : cf.getD i CF.U = CF.C) : countC cf i < countC cf j :=
  countC_lt cf hij hc

/-- … and hits every number below the count: `0 … nc-1` are all used -/
theorem countC_surj (cf : Array CF) (n k : Nat) (hk : k < countC cf n) :
    ∃ i, i < n ∧ cf.getD i CF.U = CF.C ∧ countC cf i = k := by
  induction n with
  | zero => simp [countC] at hk
  | succ m ih =>
    by_cases h : k < countC cf m
    · obtain ⟨i, hi, hc, he⟩ := ih h
      exact ⟨i, by omega, hc, he⟩
    · simp only [countC] at hk
      by_cases hc : cf.getD m CF.U = CF.C
      · rw [if_pos hc] at hk
        exact ⟨m, by omega, hc, by omega⟩
      · rw [if_neg hc] at hk; omega

theorem countC_le (cf : Array CF) (m : Nat) : countC cf m ≤ m := by
  induction m with
  | zero => simp [countC]
  | succ k ih => simp only [countC]; split <;> omega

private def cidxStep (cf : Array CF) (st : Nat × Array Nat) (i : Nat) : Nat × Array Nat :=
  if cf.getD i CF.U = CF.C then (st.1 + 1, st.2.setIfInBounds i st.1) else st

theorem getD_replicate_zero (n i : Nat) : (Array.replicate n (0 : Nat)).getD i 0 = 0 := by
  simp only [Array.getD_eq_getD_getElem?, Array.getElem?_replicate]
  split <;> rfl

private theorem cidx_fold (cf : Array CF) (m : Nat) (hm : m ≤ cf.size) :
    ∃ st, (List.range m).foldl (cidxStep cf) (0, Array.replicate cf.size 0) = st ∧
    st.1 = countC cf m ∧ st.2.size = cf.size ∧
    ∀ i, st.2.getD i 0 = if i < m ∧ cf.getD i CF.U = CF.C then countC cf i else 0 := by
  induction m with
  | zero =>
    refine ⟨_, rfl, rfl, by simp, fun i => ?_⟩
    simp only [List.range_zero, List.foldl_nil]
    rw [getD_replicate_zero]; simp
  | succ k ih =>
    obtain ⟨st, hst, h1, h2, h3⟩ := ih (by omega)
    rw [List.range_succ, List.foldl_append, hst, List.foldl_cons, List.foldl_nil]
    refine ⟨_, rfl, ?_⟩
    unfold cidxStep
    by_cases hc : cf.getD k CF.U = CF.C
    · rw [if_pos hc]
      refine ⟨by simp only [countC, if_pos hc, h1], by simp only [Array.size_setIfInBounds, h2], fun i => ?_⟩
      show (st.2.setIfInBounds k st.1).getD i 0 = _
      rw [getD_set, h3 i, h1, h2]
      by_cases hik : k = i
      · subst hik
        have : k < k + 1 := by omega
        rw [if_pos ⟨rfl, by omega⟩, if_pos ⟨this, hc⟩]
      · have : ¬ (k = i ∧ k < cf.size) := fun h => hik h.1
        rw [if_neg this]
        by_cases hi : i < k
        · have h' : i < k + 1 := by omega
          simp only [hi, h', true_and]
        · have h' : ¬ i < k + 1 := by omega
          simp only [hi, h', false_and]
    · rw [if_neg hc]
      refine ⟨by simp only [countC, if_neg hc, h1, Nat.add_zero], h2, fun i => ?_⟩
      rw [h3 i]
      by_cases hik : i = k
      · subst hik
        have : ¬ i < i := by omega
        simp only [hc, this, and_false]
      · by_cases hi : i < k
        · have h' : i < k + 1 := by omega
          simp only [hi, h', true_and]
        · have h' : ¬ i < k + 1 := by omega
          simp only [hi, h', false_and]

theorem cidxOf_eq (cf : Array CF) :
    (cidxOf cf).1 = countC cf cf.size ∧ (cidxOf cf).2.size = cf.size ∧
    ∀ i, (cidxOf cf).2.getD i 0 = if cf.getD i CF.U = CF.C then countC cf i else 0 := by
  obtain ⟨st, hst, h1, h2, h3⟩ := cidx_fold cf cf.size (Nat.le_refl _)
  have he : cidxOf cf = st := hst
  rw [he]
  refine ⟨h1, h2, fun i => ?_⟩
  rw [h3 i]
  by_cases hi : i < cf.size
  · simp only [hi, true_and]
  · have : cf.getD i CF.U = CF.U := by
      simp only [Array.getD_eq_getD_getElem?]
      rw [Array.getElem?_eq_none (by omega)]; rfl
    rw [this]; simp

/-! ### widths -/
section width
variable {K : Type} [Add K] [Sub K] [Neg K] [Mul K] [Div K] [Zero K] [One K] [LinearOrder K]

/-- the counting pass (`v < amin || amax < v`) and the fill pass (`!(Amin <= v && v <= Amax)`) keep the same
entries: `P->ptr` allocates exactly the cells the fill pass writes -/
theorem interp_width_consistent (norm : K → K) (doTrunc : Bool) (epsTrunc eps : K) (cf : Array CF) (cidx : Array Nat)
    (i : Nat) (r : Row K) (flags : List Bool) :
    (interpRow norm doTrunc epsTrunc eps cf cidx i r flags).1
      = (interpRow norm doTrunc epsTrunc eps cf cidx i r flags).2.length := by
  unfold interpRow interpFill interpWidth
  cases doTrunc with
  | false =>
    simp only [Bool.false_and, Bool.not_false, Bool.and_true, List.length_map]
    rfl
  | true =>
    simp only [Bool.true_and, List.length_map, if_true]
    congr 1
    apply List.filter_congr
    intro e _
    cases e.2 with
    | false => simp
    | true =>
      simp only [Bool.true_and]
      by_cases h1 : e.1.2 < (truncBounds epsTrunc (interpEntries cf r flags)).1
      · simp [h1, not_le.mpr h1]
      · by_cases h2 : (truncBounds epsTrunc (interpEntries cf r flags)).2 < e.1.2
        · simp [h1, h2, not_le.mpr h2]
        · simp [h1, h2, not_lt.mp h1, not_lt.mp h2]

/-- a row of `P` consists of the written entries only: nothing of the uninitialised allocation survives -/
theorem prolongRow_eq (gp : Nat → Nat × K) (norm : K → K) (doTrunc : Bool) (epsTrunc eps : K) (cf : Array CF)
    (cidx : Array Nat) (i : Nat) (r : Row K) (flags : List Bool) :
    prolongRow gp norm doTrunc epsTrunc eps cf cidx i r flags
      = if cf.getD i CF.U = CF.C then [(cidx.getD i 0, 1)]
        else (interpRow norm doTrunc epsTrunc eps cf cidx i r flags).2 := by
  unfold prolongRow
  split
  · rfl
  · simp only
    rw [interp_width_consistent]
    simp

omit [Add K] [Sub K] [Neg K] [Mul K] [Div K] [Zero K] [One K] [LinearOrder K] in
/-- a flagged interpolation entry points to a C variable inside the matrix -/
theorem interpEntries_flag (cf : Array CF) (r : Row K) (flags : List Bool) (e : (Nat × K) × Bool)
    (he : e ∈ interpEntries cf r flags) (h2 : e.2 = true) : cf.getD e.1.1 CF.U = CF.C := by
  unfold interpEntries at he
  induction r generalizing flags with
  | nil => simp at he
  | cons cv t ih =>
    cases flags with
    | nil => simp at he
    | cons s fl =>
      rw [List.zipWith_cons_cons, List.mem_cons] at he
      rcases he with rfl | he
      · simp only [Bool.and_eq_true, decide_eq_true_eq] at h2
        exact h2.2
      · exact ih fl he

theorem getD_C_lt (cf : Array CF) {c : Nat} (h : cf.getD c CF.U = CF.C) : c < cf.size := by
  by_contra hc
  have : cf.getD c CF.U = CF.U := by
    simp only [Array.getD_eq_getD_getElem?]
    rw [Array.getElem?_eq_none (by omega)]; rfl
  rw [this] at h; cases h

theorem interpolation_row (g : Garbage K) (norm : K → K) (doTrunc : Bool) (epsTrunc eps : K) (A : CRS K)
    (sval : Array (List Bool)) (cf : Array CF) (P : CRS K)
    (h : interpolation g norm doTrunc epsTrunc eps A sval cf = .ok P) :
    P.ncols = (cidxOf cf).1 ∧ P.nrows = A.nrows ∧ 0 < (cidxOf cf).1 ∧
    ∀ i, i < A.nrows → P.row i = prolongRow (g.pent i) norm doTrunc epsTrunc eps cf (cidxOf cf).2 i (A.row i)
      (sval.getD i []) := by
  unfold interpolation at h
  simp only at h
  split at h
  · cases h
  · rename_i hnc
    injection h with h
    subst h
    refine ⟨rfl, by simp [CRS.nrows], by omega, fun i hi => ?_⟩
    simp only [CRS.row, Array.getD_eq_getD_getElem?, Array.getElem?_ofFn, hi, dif_pos, Option.getD_some]

/-- `P` is well-formed CRS with `nc` columns; C rows are the unit rows of their coarse index; nothing depends on the
contents of the uninitialised allocation -/
theorem interpolation_wf (g : Garbage K) (norm : K → K) (doTrunc : Bool) (epsTrunc eps : K) (A : CRS K)
    (sval : Array (List Bool)) (cf : Array CF) (P : CRS K)
    (h : interpolation g norm doTrunc epsTrunc eps A sval cf = .ok P) :
    P.nrows = A.nrows ∧ P.ncols = countC cf cf.size ∧ 0 < P.ncols ∧ P.WF ∧
    (∀ i, i < A.nrows → cf.getD i CF.U = CF.C → P.row i = [(countC cf i, 1)]) ∧
    (∀ i, i < A.nrows → cf.getD i CF.U ≠ CF.C →
      P.row i = (interpRow norm doTrunc epsTrunc eps cf (cidxOf cf).2 i (A.row i) (sval.getD i [])).2) := by
  obtain ⟨hc, hn, hpos, hrow⟩ := interpolation_row g norm doTrunc epsTrunc eps A sval cf P h
  obtain ⟨c1, _, c3⟩ := cidxOf_eq cf
  have hCrow : ∀ i, i < A.nrows → cf.getD i CF.U = CF.C → P.row i = [(countC cf i, 1)] := by
    intro i hi hC
    rw [hrow i hi, prolongRow_eq, if_pos hC, c3 i, if_pos hC]
  have hFrow : ∀ i, i < A.nrows → cf.getD i CF.U ≠ CF.C →
      P.row i = (interpRow norm doTrunc epsTrunc eps cf (cidxOf cf).2 i (A.row i) (sval.getD i [])).2 := by
    intro i hi hC
    rw [hrow i hi, prolongRow_eq, if_neg hC]
  refine ⟨hn, hc.trans c1, by rw [hc]; exact hpos, ?_, hCrow, hFrow⟩
  rw [K2.wf_iff_row]
  intro i hi cv hcv
  rw [hn] at hi
  rw [hc, c1]
  by_cases hC : cf.getD i CF.U = CF.C
  · rw [hCrow i hi hC, List.mem_singleton] at hcv
    subst hcv
    exact countC_lt cf (getD_C_lt cf hC) hC
  · rw [hFrow i hi hC] at hcv
    unfold interpRow interpFill at hcv
    simp only [List.mem_map, List.mem_filter] at hcv
    obtain ⟨e, ⟨he, hk⟩, rfl⟩ := hcv
    have h2 : e.2 = true := by
      simp only [Bool.and_eq_true] at hk; exact hk.1
    have hCe := interpEntries_flag cf _ _ e he h2
    show (cidxOf cf).2.getD e.1.1 0 < _
    rw [c3, if_pos hCe]
    exact countC_lt cf (getD_C_lt cf hCe) hCe

end width

end RS
end Amgcl
