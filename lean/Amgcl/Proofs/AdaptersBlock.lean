import Amgcl.Proofs.AdaptersBlockIter2
/-!
`adapter::block_matrix` on row-sorted input and its relation to `unblock_matrix` (C13): the block matrix has the entries
of the scalar matrix (incomplete blocks zero-filled), SpMV agrees, and the two conversions are mutually inverse.
-/
namespace Amgcl.Adapters
open Amgcl Amgcl.K2 Finset

section defs
variable {K : Type} [Zero K]

/-- the `b` scalar rows merged into block row `I` -/
def scalarRows (b : Nat) (A : CRS K) (I : Nat) : List (Row K) := (List.range b).map (fun i => A.row (I * b + i))

/-- the matrix copied out of `block_matrix_adapter` when the divisibility precondition holds -/
def blockOf (b : Nat) (A : CRS K) : CRS (Blk K) :=
  { ncols := A.ncols / b, rows := Array.ofFn (n := A.nrows / b) (fun I => blockRow b A I.val) }

theorem blockRow_eq (b : Nat) (A : CRS K) (I : Nat) :
    blockRow b A I = blockIter b (totalLen (scalarRows b A I)) (scalarRows b A I) := rfl

theorem scalarRows_length (b : Nat) (A : CRS K) (I : Nat) : (scalarRows b A I).length = b := by
  simp [scalarRows]

theorem scalarRows_getD (b : Nat) (A : CRS K) (I i : Nat) (hi : i < b) :
    (scalarRows b A I).getD i [] = A.row (I * b + i) := by
  rw [List.getD_eq_getElem _ _ (by rw [scalarRows_length]; exact hi)]
  simp [scalarRows]

theorem blockMatrix_ok (b : Nat) (A : CRS K) (hr : A.nrows % b = 0) (hc : A.ncols % b = 0) :
    blockMatrix b A = .ok (blockOf b A) := by
  unfold blockMatrix
  rw [if_pos ⟨hr, hc⟩]
  rfl

theorem blockMatrix_precondition (b : Nat) (A : CRS K) (h : ¬ (A.nrows % b = 0 ∧ A.ncols % b = 0)) :
    blockMatrix b A = .precondition := by
  unfold blockMatrix
  rw [if_neg h]

theorem blockOf_nrows (b : Nat) (A : CRS K) : (blockOf b A).nrows = A.nrows / b := by
  simp [blockOf, CRS.nrows]

theorem blockOf_row (b : Nat) (A : CRS K) (I : Nat) (hI : I < A.nrows / b) :
    (blockOf b A).row I = blockRow b A I := by
  have h : I < (blockOf b A).rows.size := by simpa [blockOf] using hI
  rw [row_eq_getElem _ h]
  simp [blockOf]

end defs

section sorted
variable {K : Type} [AddCommMonoid K]

theorem blockRow_spec (b : Nat) (hb : 0 < b) (A : CRS K) (hs : A.sortedb = true) (I : Nat) :
    IterSpec b (scalarRows b A I) (blockRow b A I) := by
  rw [blockRow_eq]
  apply blockIter_spec b hb _ _ (scalarRows_length b A I) _ (Nat.le_refl _)
  intro r hr
  obtain ⟨i, _, rfl⟩ := List.mem_map.1 hr
  exact sortedb_iff.1 hs _

/-- **`unblock_block_id`**: on row-sorted, block-aligned input, unblocking the block matrix gives back every entry of the
scalar matrix — structurally incomplete blocks are completed by zeros, which do not change the denotation. -/
theorem unblock_blockOf_get (b : Nat) (hb : 0 < b) (A : CRS K) (hs : A.sortedb = true) (hr : A.nrows % b = 0)
    (ia j : Nat) : (unblock b (blockOf b A)).get ia j = A.get ia j := by
  have hn : A.nrows / b * b = A.nrows := Nat.div_mul_cancel (Nat.dvd_of_mod_eq_zero hr)
  unfold CRS.get
  by_cases hia : ia < A.nrows
  · have hI : ia / b < A.nrows / b := by
      rw [Nat.div_lt_iff_lt_mul hb, hn]; exact hia
    have hi : ia % b < b := Nat.mod_lt _ hb
    rw [unblock_row b _ ia (by rw [blockOf_nrows, hn]; exact hia), blockOf_row b A _ hI]
    have := (blockRow_spec b hb A hs (ia / b)).get (ia % b) (by rw [scalarRows_length]; exact hi) j
    rw [this, scalarRows_getD b A _ _ hi]
    congr 2
    rw [Nat.mul_comm]; exact Nat.div_add_mod ia b
  · have h1 : (unblock b (blockOf b A)).row ia = [] := by
      apply row_eq_nil_of_ge
      rw [unblock_nrows, blockOf_nrows, hn]; omega
    rw [h1, row_eq_nil_of_ge A (by omega)]

/-- columns of the block matrix are in range -/
theorem blockOf_wf (b : Nat) (hb : 0 < b) (A : CRS K) (hA : A.WF) (hs : A.sortedb = true) (hc : A.ncols % b = 0) :
    (blockOf b A).WF := by
  rw [wf_iff_row]
  intro I hI o ho
  rw [blockOf_nrows] at hI
  rw [blockOf_row b A I hI] at ho
  obtain ⟨r, hr, cv, hcv, e⟩ := (blockRow_spec b hb A hs I).cols o ho
  obtain ⟨i, _, rfl⟩ := List.mem_map.1 hr
  have hlt : cv.1 < A.ncols := row_col_lt hA _ hcv
  show o.1 < A.ncols / b
  rw [e, Nat.div_lt_iff_lt_mul hb, Nat.div_mul_cancel (Nat.dvd_of_mod_eq_zero hc)]
  exact hlt

/-- block rows are strictly sorted and every block is `b × b` -/
theorem blockOf_sorted (b : Nat) (hb : 0 < b) (A : CRS K) (hs : A.sortedb = true) :
    (blockOf b A).sortedb = true ∧ ∀ I, ∀ o ∈ (blockOf b A).row I, o.2.size = b * b := by
  constructor
  · rw [sortedb_iff]
    intro I
    by_cases hI : I < A.nrows / b
    · rw [blockOf_row b A I hI]; exact (blockRow_spec b hb A hs I).sorted
    · rw [row_eq_nil_of_ge _ (by rw [blockOf_nrows]; omega)]; exact List.Pairwise.nil
  · intro I o ho
    by_cases hI : I < A.nrows / b
    · rw [blockOf_row b A I hI] at ho; exact (blockRow_spec b hb A hs I).size o ho
    · rw [row_eq_nil_of_ge _ (by rw [blockOf_nrows]; omega)] at ho; cases ho

end sorted

section spmv
variable {K : Type} [CommRing K] [DecidableEq K]

/-- two well-formed matrices of the same shape with the same denotation have the same SpMV -/
theorem spmv_congr_get (A B : CRS K) (hA : A.WF) (hB : B.WF) (hn : A.nrows = B.nrows) (hm : A.ncols = B.ncols)
    (hg : ∀ i j, A.get i j = B.get i j) (α β : K) (x y : Vec K) : spmv α A x β y = spmv α B x β y := by
  have hrow : ∀ i, rowDot (A.row i) x = rowDot (B.row i) x := by
    intro i
    rw [rowDot_eq_sum (A.row i) x A.ncols (fun cv h => row_col_lt hA i h),
      rowDot_eq_sum (B.row i) x B.ncols (fun cv h => row_col_lt hB i h), hm]
    apply sum_congr rfl
    intro j _
    have := hg i j
    unfold CRS.get at this
    rw [this]
  unfold spmv
  split
  · apply Vec.ext_getD (0 : K) (by simp [hn])
    intro i hi
    have h1 : i < A.nrows := by simpa using hi
    rw [getD_ofFn_lt _ _ _ h1, getD_ofFn_lt _ _ _ (by rw [← hn]; exact h1), hrow]
  · apply Vec.ext_getD (0 : K) (by simp [hn])
    intro i hi
    have h1 : i < A.nrows := by simpa using hi
    rw [getD_ofFn_lt _ _ _ h1, getD_ofFn_lt _ _ _ (by rw [← hn]; exact h1), hrow]

/-- **SpMV through the block adapter** on reinterpreted scalar vectors is the scalar SpMV -/
theorem blockSpmv_blockOf (b : Nat) (hb : 0 < b) (A : CRS K) (hA : A.WF) (hs : A.sortedb = true)
    (hr : A.nrows % b = 0) (hc : A.ncols % b = 0) (α β : K) (x y : Vec K) :
    blockSpmv b α (blockOf b A) x β y = spmv α A x β y := by
  rw [blockSpmv_eq_spmv_unblock]
  apply spmv_congr_get _ _ (unblock_wf b _ (blockOf_wf b hb A hA hs hc)) hA
  · rw [unblock_nrows, blockOf_nrows, Nat.div_mul_cancel (Nat.dvd_of_mod_eq_zero hr)]
  · show A.ncols / b * b = A.ncols
    exact Nat.div_mul_cancel (Nat.dvd_of_mod_eq_zero hc)
  · exact unblock_blockOf_get b hb A hs hr

end spmv

/-! ## `block_matrix(unblock_matrix(B)) = B` -/
section roundtrip
variable {K : Type} [AddCommMonoid K]

/-- unblocking a strictly sorted block row gives a strictly sorted scalar row -/
theorem unblockRow_strict (b i : Nat) (r : Row (Blk K)) (hs : StrictCols r) : StrictCols (unblockRow b i r) := by
  induction r with
  | nil => exact List.Pairwise.nil
  | cons cv t ih =>
    rw [unblockRow_cons]
    unfold StrictCols
    rw [List.pairwise_append]
    refine ⟨?_, ih (List.pairwise_cons.1 hs).2, ?_⟩
    · rw [List.pairwise_map]
      exact (List.pairwise_lt_range (n := b)).imp (fun h => by simpa using h)
    · intro a ha c hc
      obtain ⟨j, hj, rfl⟩ := List.mem_map.1 ha
      unfold unblockRow at hc
      obtain ⟨e, he, hc'⟩ := List.mem_flatMap.1 hc
      obtain ⟨j', _, rfl⟩ := List.mem_map.1 hc'
      have hj' : j < b := List.mem_range.1 hj
      have hlt : cv.1 < e.1 := (List.pairwise_cons.1 hs).1 e he
      show cv.1 * b + j < e.1 * b + j'
      calc cv.1 * b + j < cv.1 * b + b := by omega
        _ = (cv.1 + 1) * b := by ring
        _ ≤ e.1 * b := Nat.mul_le_mul_right b hlt
        _ ≤ e.1 * b + j' := Nat.le_add_right _ _

theorem rowGet_unblockRow_absent (b : Nat) (hb : 0 < b) (i : Nat) (t : Row (Blk K)) (col : Nat)
    (h : ∀ e ∈ t, e.1 ≠ col / b) : rowGet (unblockRow b i t) col = 0 := by
  rw [rowGet_unblockRow b hb]
  apply rowGet_eq_zero_of_not_mem
  intro cv hcv
  obtain ⟨e, he, rfl⟩ := List.mem_map.1 hcv
  exact h e he

/-- a strictly sorted block row with `b × b` blocks is determined by its block columns and its unblocked denotation -/
theorem blockRow_unique (b : Nat) (hb : 0 < b) (r out : Row (Blk K)) (hso : StrictCols out) (hsr : StrictCols r)
    (hzo : ∀ o ∈ out, o.2.size = b * b) (hzr : ∀ e ∈ r, e.2.size = b * b)
    (hc1 : ∀ o ∈ out, ∃ e ∈ r, o.1 = e.1) (hc2 : ∀ e ∈ r, ∃ o ∈ out, o.1 = e.1)
    (hg : ∀ i, i < b → ∀ col, rowGet (unblockRow b i out) col = rowGet (unblockRow b i r) col) : out = r := by
  induction r generalizing out with
  | nil =>
    cases out with
    | nil => rfl
    | cons o t' => obtain ⟨e, he, _⟩ := hc1 o List.mem_cons_self; cases he
  | cons e t ih =>
    cases out with
    | nil => obtain ⟨o, ho, _⟩ := hc2 e List.mem_cons_self; cases ho
    | cons o t' =>
      have hgt' : ∀ o' ∈ t', o.1 < o'.1 := (List.pairwise_cons.1 hso).1
      have hgt : ∀ e' ∈ t, e.1 < e'.1 := (List.pairwise_cons.1 hsr).1
      -- same first block column
      have hC : o.1 = e.1 := by
        obtain ⟨e', he', h1⟩ := hc1 o List.mem_cons_self
        obtain ⟨o', ho', h2⟩ := hc2 e List.mem_cons_self
        have a1 : e.1 ≤ o.1 := by
          rcases List.mem_cons.1 he' with rfl | hm
          · omega
          · have := hgt e' hm; omega
        have a2 : o.1 ≤ e.1 := by
          rcases List.mem_cons.1 ho' with rfl | hm
          · omega
          · have := hgt' o' hm; omega
        omega
      -- same block
      have hV : o.2 = e.2 := by
        apply Array.ext
        · rw [hzo o List.mem_cons_self, hzr e List.mem_cons_self]
        · intro idx h1 h2
          have hidx : idx < b * b := by rw [← hzo o List.mem_cons_self]; exact h1
          have hi : idx / b < b := (Nat.div_lt_iff_lt_mul hb).2 hidx
          have hk : idx % b < b := Nat.mod_lt _ hb
          have hdec : idx / b * b + idx % b = idx := by rw [Nat.mul_comm]; exact Nat.div_add_mod idx b
          have hq : (e.1 * b + idx % b) / b = e.1 := by
            rw [Nat.add_comm, Nat.add_mul_div_right _ _ hb, Nat.div_eq_of_lt hk, Nat.zero_add]
          have hm : (e.1 * b + idx % b) % b = idx % b := by
            rw [Nat.add_comm, Nat.add_mul_mod_self_right, Nat.mod_eq_of_lt hk]
          have := hg (idx / b) hi (e.1 * b + idx % b)
          rw [unblockRow_cons, unblockRow_cons, rowGet_append, rowGet_append, rowGet_block_entries b hb,
            rowGet_block_entries b hb, hq, hm, hdec, if_pos hC, if_pos rfl,
            rowGet_unblockRow_absent b hb _ t' _ (by rw [hq]; intro o' ho'; have := hgt' o' ho'; omega),
            rowGet_unblockRow_absent b hb _ t _ (by rw [hq]; intro e' he'; have := hgt e' he'; omega),
            add_zero, add_zero] at this
          simpa [Array.getD, h1, h2] using this
      have htail : t' = t := by
        apply ih t' (List.pairwise_cons.1 hso).2 (List.pairwise_cons.1 hsr).2
          (fun o' ho' => hzo o' (List.mem_cons_of_mem _ ho')) (fun e' he' => hzr e' (List.mem_cons_of_mem _ he'))
        · intro o' ho'
          obtain ⟨e', he', h1⟩ := hc1 o' (List.mem_cons_of_mem _ ho')
          rcases List.mem_cons.1 he' with rfl | hm
          · have := hgt' o' ho'; omega
          · exact ⟨e', hm, h1⟩
        · intro e' he'
          obtain ⟨o', ho', h1⟩ := hc2 e' (List.mem_cons_of_mem _ he')
          rcases List.mem_cons.1 ho' with rfl | hm
          · have := hgt e' he'; omega
          · exact ⟨o', hm, h1⟩
        · intro i hi col
          by_cases hcol : col / b = e.1
          · rw [rowGet_unblockRow_absent b hb i t' col (by intro o' ho'; have := hgt' o' ho'; omega),
              rowGet_unblockRow_absent b hb i t col (by intro e' he'; have := hgt e' he'; omega)]
          · have := hg i hi col
            rw [unblockRow_cons, unblockRow_cons, rowGet_append, rowGet_append, rowGet_block_entries b hb,
              rowGet_block_entries b hb, if_neg (by omega), if_neg (by omega), zero_add, zero_add] at this
            exact this
      have : o = e := Prod.ext hC hV
      rw [this, htail]

/-- **`block_unblock_id`**: converting the unblocked matrix back with the block adapter reproduces the stored block
matrix exactly (block columns, values, explicit zero blocks), for strictly sorted block rows of `b × b` blocks. -/
theorem blockOf_unblock (b : Nat) (hb : 0 < b) (B : CRS (Blk K)) (hs : B.sortedb = true)
    (hz : ∀ I, ∀ o ∈ B.row I, o.2.size = b * b) : blockOf b (unblock b B) = B := by
  have hrows : ∀ I, I < B.nrows → blockRow b (unblock b B) I = B.row I := by
    intro I hI
    have hsr : StrictCols (B.row I) := sortedb_iff.1 hs I
    have hrs : scalarRows b (unblock b B) I = (List.range b).map (fun i => unblockRow b i (B.row I)) := by
      unfold scalarRows
      apply List.map_congr_left
      intro i hi
      exact unblock_row_block b hb B I i hI (List.mem_range.1 hi)
    have hspec : IterSpec b (scalarRows b (unblock b B) I) (blockRow b (unblock b B) I) := by
      rw [blockRow_eq]
      apply blockIter_spec b hb _ _ (scalarRows_length b _ I) _ (Nat.le_refl _)
      intro r hr
      rw [hrs] at hr
      obtain ⟨i, _, rfl⟩ := List.mem_map.1 hr
      exact unblockRow_strict b i _ hsr
    have hget : ∀ i, i < b → (scalarRows b (unblock b B) I).getD i [] = unblockRow b i (B.row I) := by
      intro i hi
      rw [scalarRows_getD b _ I i hi, unblock_row_block b hb B I i hI hi]
    apply blockRow_unique b hb (B.row I) _ hspec.sorted hsr hspec.size (hz I)
    · intro o ho
      obtain ⟨r, hr, cv, hcv, e⟩ := hspec.cols o ho
      rw [hrs] at hr
      obtain ⟨i, _, rfl⟩ := List.mem_map.1 hr
      unfold unblockRow at hcv
      obtain ⟨e', he', hcv'⟩ := List.mem_flatMap.1 hcv
      obtain ⟨j, hj, rfl⟩ := List.mem_map.1 hcv'
      refine ⟨e', he', ?_⟩
      rw [e]
      show (e'.1 * b + j) / b = e'.1
      rw [Nat.add_comm, Nat.add_mul_div_right _ _ hb, Nat.div_eq_of_lt (List.mem_range.1 hj), Nat.zero_add]
    · intro e he
      have hmem : (e.1 * b + 0, e.2.getD (0 * b + 0) 0) ∈ unblockRow b 0 (B.row I) := by
        unfold unblockRow
        exact List.mem_flatMap.2 ⟨e, he, List.mem_map.2 ⟨0, List.mem_range.2 hb, rfl⟩⟩
      have hrow : unblockRow b 0 (B.row I) ∈ scalarRows b (unblock b B) I := by
        rw [hrs]; exact List.mem_map.2 ⟨0, List.mem_range.2 hb, rfl⟩
      obtain ⟨o, ho, e'⟩ := hspec.complete _ hrow _ hmem
      refine ⟨o, ho, ?_⟩
      rw [e']
      show (e.1 * b + 0) / b = e.1
      rw [Nat.add_zero, Nat.mul_div_cancel _ hb]
    · intro i hi col
      rw [hspec.get i (by rw [scalarRows_length]; exact hi) col, hget i hi]
  cases B with
  | mk nc rows =>
    unfold blockOf
    simp only [CRS.mk.injEq]
    refine ⟨by show nc * b / b = nc; exact Nat.mul_div_cancel _ hb, ?_⟩
    have hsz : (unblock b (⟨nc, rows⟩ : CRS (Blk K))).nrows / b = rows.size := by
      rw [unblock_nrows]; exact Nat.mul_div_cancel _ hb
    apply Array.ext (by simpa using hsz)
    intro I h1 h2
    simp only [Array.getElem_ofFn]
    rw [hrows I h2]
    exact row_eq_getElem _ h2

end roundtrip

end Amgcl.Adapters
