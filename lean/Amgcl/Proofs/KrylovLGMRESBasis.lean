import Amgcl.Proofs.KrylovLGMRES
import Amgcl.Proofs.KrylovGMRESRestart
/-!
# LGMRES: the augmented Arnoldi relation of a general restart cycle (C05)

Setting: ordered field, `A` well formed `n × n`, the preconditioner denotes a linear map `Pl`, either side, inner product
`stdIp`; `st` a state at the `break` test of the outer loop with non-zero residual (`CycleStart … (lToG st)`), whose stored
augmentation vectors have length `n` (`hod`; true for a fresh object and preserved by every cycle).  `z_i = *ws[i]` (`lZ`) is
the vector fed in pass `i`: `vs[i]` or an augmentation vector.

* `lstep_basis`   one pass from an orthonormal list `vs[0..j]`, breakdown or not: the old vectors are untouched, `vs[j+1]` is
                  orthogonal to them, a unit vector unless `H̃(j+1,j) = 0`, and `v_new = Σ_{k ≤ j+1} H̃(k,j) vs[k]`;
* `lcycle_basis`, `lcycle_last`   after `j` passes without breakdown (`m + 1` passes with a possible breakdown in the last
                  one): `vs[0..j]` orthonormal, `T z_i = Σ_{k ≤ i+1} H̃(k,i) V_k` for EVERY fed vector — Krylov or augmentation —
                  (`T = A Pl` right, `Pl A` left), `r₀ = β V₀`.  This is the relation `A·[v_1..v_m, z_aug] = V_{m+1} H̃`.
-/
set_option linter.unusedSectionVars false
set_option linter.unusedVariables false
namespace Amgcl.Krylov
open Amgcl Amgcl.Solver Amgcl.Solver.GMRES Amgcl.Energy.Bridge Matrix Finset

section ptr
variable {K : Type} [Field K] [DecidableEq K] [LT K] [DecidableLT K]

/-- what `ws[i]` can hold after pass `i`: `vs[i]` or an augmentation slot -/
def LPtrOK (i : ℕ) (p : LGMRES.Ptr) : Prop := p = .vs i ∨ ∃ s, p = .outer s

theorem lpickZ_ok (MM cap : ℕ) (ov : LGMRES.CBuf) (j : ℕ) : LPtrOK j (LGMRES.pickZ MM cap ov j) := by
  unfold LGMRES.pickZ
  split
  · exact Or.inr ⟨_, rfl⟩
  · exact Or.inl rfl

/-- `*ws[i]` is not changed by a later pass -/
theorem lZ_step (prm : LGMRES.Params K) (sqrt : K → K) (A : CRS K) (P : Vec K → Vec K) (t : LGMRES.In K) (i : ℕ)
    (hi : i < t.j) (hp : LPtrOK i (t.w.wsp.get i)) : lZ (lStep prm sqrt A P t) i = lZ t i := by
  unfold lZ
  rw [LGMRES.step_wsp, setF_other _ _ _ _ (by omega)]
  rcases hp with h | ⟨s, h⟩
  · rw [h]
    show (lStep prm sqrt A P t).w.vs.get i = t.w.vs.get i
    rw [lStep_vs, setF_other _ _ _ _ (by omega)]
  · rw [h]; rfl

/-- `*ws[j]` after pass `j` is the vector that pass fed, and `v_new` is the preconditioned operator applied to it -/
theorem lZ_new (prm : LGMRES.Params K) (sqrt : K → K) (A : CRS K) (P : Vec K → Vec K) (t : LGMRES.In K) :
    LPtrOK t.j ((lStep prm sqrt A P t).w.wsp.get t.j) ∧
    lZ (lStep prm sqrt A P t) t.j = LGMRES.deref t.w (LGMRES.pickZ prm.MM prm.K' t.w.ov t.j) ∧
    Aop prm.pside P A (lZ (lStep prm sqrt A P t) t.j) = lVnew prm A P t := by
  have hp := lpickZ_ok prm.MM prm.K' t.w.ov t.j
  have hw : (lStep prm sqrt A P t).w.wsp.get t.j = LGMRES.pickZ prm.MM prm.K' t.w.ov t.j := by
    rw [LGMRES.step_wsp, setF_same]
  have hz : lZ (lStep prm sqrt A P t) t.j = LGMRES.deref t.w (LGMRES.pickZ prm.MM prm.K' t.w.ov t.j) := by
    unfold lZ
    rw [hw]
    rcases hp with h | ⟨s, h⟩
    · rw [h]
      show (lStep prm sqrt A P t).w.vs.get t.j = t.w.vs.get t.j
      rw [lStep_vs, setF_other _ _ _ _ (by omega)]
    · rw [h]; rfl
  refine ⟨by rw [hw]; exact hp, hz, ?_⟩
  rw [hz]
  unfold Aop lVnew LGMRES.stepX
  exact congrArg Prod.fst (BiCGStab.pspmv_indep prm.pside P A _ #[] #[] _ _)

/-- `ws[i]` after pass `i` is what `lgmres.hpp:278-284` selects from the buffer the cycle started with -/
theorem lPass_wsp (prm : LGMRES.Params K) (sqrt : K → K) (A : CRS K) (P : Vec K → Vec K) (st : LGMRES.St K) :
    ∀ j i, i < j → (lPass prm sqrt A P st j).w.wsp.get i = LGMRES.pickZ prm.MM prm.K' st.w.ov i := by
  intro j
  induction j with
  | zero => intro i hi; omega
  | succ j ih =>
    intro i hi
    have hj := lPass_j prm sqrt A P st j
    rw [lPass_succ, LGMRES.step_wsp, setF_get, hj]
    by_cases hij : i = j
    · rw [if_pos hij, hij]
      show LGMRES.pickZ prm.MM prm.K' (lPass prm sqrt A P st j).w.ov j = _
      rw [lInnerPass_ov]
    · rw [if_neg hij]; exact ih i (by omega)

/-- **which vector pass `i` fed**: the basis vector `vs[i]` while `i < M − |outer_v|`, afterwards the augmentation vector
`outer_v[i − (M − |outer_v|)]` the cycle started with (`M` the member `prm.M + prm.K`) -/
theorem lZ_eq (prm : LGMRES.Params K) (sqrt : K → K) (A : CRS K) (P : Vec K → Vec K) (st : LGMRES.St K) (j i : ℕ)
    (hi : i < j) :
    lZ (lPass prm sqrt A P st j) i
      = if prm.MM - st.w.ov.size ≤ i then st.w.odata.get (st.w.ov.get prm.K' (i - (prm.MM - st.w.ov.size)))
        else (lPass prm sqrt A P st j).w.vs.get i := by
  unfold lZ
  rw [lPass_wsp prm sqrt A P st j i hi]
  unfold LGMRES.pickZ
  split
  · show (lPass prm sqrt A P st j).w.odata.get _ = _
    rw [lInnerPass_odata]
  · rfl

end ptr

section step
variable {K : Type} [Field K] [LinearOrder K] [IsStrictOrderedRing K]

/-- **one more Arnoldi step of LGMRES, breakdown or not** (array level): if `vs[0..j]` is orthonormal, `v_new` has length
`n` and the root is exact on `⟨w_j,w_j⟩`, then after the pass the old vectors are untouched, `vs[j+1]` has length `n`, is
orthogonal to `vs[0..j]`, is a unit vector unless `H̃(j+1,j) = 0`, and `v_new = Σ_{k ≤ j+1} H̃(k,j) vs[k]`. -/
theorem lstep_basis (prm : LGMRES.Params K) (sqrt : K → K) (A : CRS K) (P : Vec K → Vec K) (n : ℕ) (t : LGMRES.In K)
    (hvn : (lVnew prm A P t).size = n)
    (hsize : ∀ a, a ≤ t.j → (t.w.vs.get a).size = n)
    (hon : ∀ a b, a ≤ t.j → b ≤ t.j → vecOf n (t.w.vs.get a) ⬝ᵥ vecOf n (t.w.vs.get b) = if a = b then 1 else 0)
    (hroot : RootAt sqrt (stdIp (lOrthVec prm A P t) (lOrthVec prm A P t))) :
    (∀ a, a ≤ t.j → (lStep prm sqrt A P t).w.vs.get a = t.w.vs.get a) ∧
    ((lStep prm sqrt A P t).w.vs.get (t.j + 1)).size = n ∧
    (∀ a, a ≤ t.j → vecOf n (t.w.vs.get a) ⬝ᵥ vecOf n ((lStep prm sqrt A P t).w.vs.get (t.j + 1)) = 0) ∧
    ((orth stdIp sqrt t.w.vs t.j t.w.h.H (lVnew prm A P t)).1.get (t.j + 1) t.j ≠ 0 →
      vecOf n ((lStep prm sqrt A P t).w.vs.get (t.j + 1)) ⬝ᵥ vecOf n ((lStep prm sqrt A P t).w.vs.get (t.j + 1)) = 1) ∧
    vecOf n (lVnew prm A P t)
      = ∑ k ∈ range (t.j + 2), (orth stdIp sqrt t.w.vs t.j t.w.h.H (lVnew prm A P t)).1.get k t.j
          • vecOf n ((lStep prm sqrt A P t).w.vs.get k) := by
  unfold lOrthVec at hroot
  have hO : Orthonormal stdIp n t.w.vs t.j :=
    ⟨hsize, fun a b ha hb => by rw [stdIp_vecOf n _ _ (hsize a ha) (hsize b hb)]; exact hon a b ha hb⟩
  have hosz : (orth stdIp sqrt t.w.vs t.j t.w.h.H (lVnew prm A P t)).2.size = n :=
    orth_size stdIp sqrt n (stdIp_ipOK n) t.w.vs t.j t.w.h.H _ hO hvn
  have hget : ∀ a, (lStep prm sqrt A P t).w.vs.get a
      = if a = t.j + 1 then (orth stdIp sqrt t.w.vs t.j t.w.h.H (lVnew prm A P t)).2 else t.w.vs.get a := by
    intro a; rw [lStep_vs, setF_get]
  have hold : ∀ a, a ≤ t.j → (lStep prm sqrt A P t).w.vs.get a = t.w.vs.get a := by
    intro a ha; rw [hget, if_neg (by omega)]
  have hnew : (lStep prm sqrt A P t).w.vs.get (t.j + 1)
      = (orth stdIp sqrt t.w.vs t.j t.w.h.H (lVnew prm A P t)).2 := by rw [hget, if_pos rfl]
  refine ⟨hold, by rw [hnew]; exact hosz, ?_, ?_, ?_⟩
  · intro a ha
    rw [hnew, ← stdIp_vecOf n _ _ (hsize a ha) hosz, (stdIp_ipOK n).symm _ _ (hsize a ha) hosz]
    exact orth_orthogonal stdIp sqrt n (stdIp_ipOK n) t.w.vs t.j t.w.h.H _ hO hvn a ha
  · intro hne
    rw [hnew, ← stdIp_vecOf n _ _ hosz hosz]
    exact orth_normalised stdIp sqrt n (stdIp_ipOK n) t.w.vs t.j t.w.h.H _ hO hvn hroot hne
  · rw [sum_range_succ, hnew]
    have hsum : ∑ k ∈ range (t.j + 1), (orth stdIp sqrt t.w.vs t.j t.w.h.H (lVnew prm A P t)).1.get k t.j
          • vecOf n ((lStep prm sqrt A P t).w.vs.get k)
        = ∑ k ∈ range (t.j + 1), (orth stdIp sqrt t.w.vs t.j t.w.h.H (lVnew prm A P t)).1.get k t.j
          • vecOf n (t.w.vs.get k) := by
      apply sum_congr rfl
      intro k hk
      have hk' : k ≤ t.j := by have := mem_range.mp hk; omega
      rw [hold k hk']
    rw [hsum]
    funext τ
    simp only [Pi.add_apply, Finset.sum_apply, Pi.smul_apply, smul_eq_mul]
    show (lVnew prm A P t).getD τ.val 0 = _
    by_cases hne : (orth stdIp sqrt t.w.vs t.j t.w.h.H (lVnew prm A P t)).1.get (t.j + 1) t.j = 0
    · obtain ⟨hw0, hrel⟩ := orth_arnoldi_breakdown stdIp sqrt n (stdIp_ipOK n) t.w.vs t.j t.w.h.H _ hO hvn hroot hne
      have hwsz := (mgs_inv stdIp n (stdIp_ipOK n) t.w.vs t.j t.w.h.H _ hO hvn).1
      have hwz := congrFun (vecOf_zero_of_stdIp_self n _ hwsz hw0) τ
      rw [hrel τ.val τ.isLt, hne, zero_mul, add_zero]
      show _ + vecOf n _ τ = _
      rw [hwz]
      simp only [Pi.zero_apply, add_zero, vecOf]
    · rw [orth_arnoldi stdIp sqrt n (stdIp_ipOK n) t.w.vs t.j t.w.h.H _ hO hvn hne τ.val τ.isLt]
      rfl

end step

section basis
variable {K : Type} [Field K] [LinearOrder K] [IsStrictOrderedRing K]

/-- the unrotated Hessenberg matrix `H̃` of the LGMRES cycle after `j` passes -/
def lHTilde (prm : LGMRES.Params K) (sqrt : K → K) (A : CRS K) (P : Vec K → Vec K) (st : LGMRES.St K) (j : ℕ) :
    ℕ → ℕ → K :=
  (lPassG prm sqrt A P st g00 j).2.Ht.get

/-- the columns of `H̃` are written once -/
theorem lHTilde_succ (prm : LGMRES.Params K) (sqrt : K → K) (A : CRS K) (P : Vec K → Vec K) (st : LGMRES.St K)
    (m k i : ℕ) :
    lHTilde prm sqrt A P st (m + 1) k i
      = if i = m then (orth stdIp sqrt (lPass prm sqrt A P st m).w.vs m (lPass prm sqrt A P st m).w.h.H
          (lVnew prm A P (lPass prm sqrt A P st m))).1.get k m
        else lHTilde prm sqrt A P st m k i := by
  unfold lHTilde
  rw [lPassG_succ]
  show (if i = (lPassG prm sqrt A P st g00 m).1.j then _ else _) = _
  rw [lPassG_fst, lPass_j]
  by_cases h2 : i = m
  · rw [if_pos h2, if_pos h2, h2]
  · rw [if_neg h2, if_neg h2]

theorem lHTilde_sub (prm : LGMRES.Params K) (sqrt : K → K) (A : CRS K) (P : Vec K → Vec K) (st : LGMRES.St K)
    (j i : ℕ) (hi : i < j) : lHTilde prm sqrt A P st j (i + 1) i = lArnoldiNorm prm sqrt A P st i :=
  lghost_sub prm sqrt A P st g00 j i hi

/-- the augmented Arnoldi relation after `j` passes WITHOUT breakdown -/
structure LBasis (n : ℕ) (A : CRS K) (P : Vec K → Vec K) (Pl : (Fin n → K) →ₗ[K] (Fin n → K))
    (prm : LGMRES.Params K) (sqrt : K → K) (st : LGMRES.St K) (j : ℕ) : Prop where
  size : ∀ a, a ≤ j → ((lPass prm sqrt A P st j).w.vs.get a).size = n
  on : ∀ a b, a ≤ j → b ≤ j → vecOf n ((lPass prm sqrt A P st j).w.vs.get a)
    ⬝ᵥ vecOf n ((lPass prm sqrt A P st j).w.vs.get b) = if a = b then 1 else 0
  ptr : ∀ i, i < j → LPtrOK i ((lPass prm sqrt A P st j).w.wsp.get i)
  zsize : ∀ i, i < j → (lZ (lPass prm sqrt A P st j) i).size = n
  arn : ∀ i, i < j → Tl prm.pside (matOf A n n) Pl (vecOf n (lZ (lPass prm sqrt A P st j) i))
    = ∑ k ∈ range (i + 2), lHTilde prm sqrt A P st j k i • vecOf n ((lPass prm sqrt A P st j).w.vs.get k)
  r0 : vecOf n st.w.r = st.normR • vecOf n ((lPass prm sqrt A P st j).w.vs.get 0)

/-- … after `m + 1` passes, breakdown allowed in the last one -/
structure LLast (n : ℕ) (A : CRS K) (P : Vec K → Vec K) (Pl : (Fin n → K) →ₗ[K] (Fin n → K))
    (prm : LGMRES.Params K) (sqrt : K → K) (st : LGMRES.St K) (m : ℕ) : Prop where
  size : ∀ a, a ≤ m + 1 → ((lPass prm sqrt A P st (m + 1)).w.vs.get a).size = n
  on : ∀ a b, a ≤ m → b ≤ m → vecOf n ((lPass prm sqrt A P st (m + 1)).w.vs.get a)
    ⬝ᵥ vecOf n ((lPass prm sqrt A P st (m + 1)).w.vs.get b) = if a = b then 1 else 0
  last : ∀ a, a ≤ m → vecOf n ((lPass prm sqrt A P st (m + 1)).w.vs.get a)
    ⬝ᵥ vecOf n ((lPass prm sqrt A P st (m + 1)).w.vs.get (m + 1)) = 0
  unit : lArnoldiNorm prm sqrt A P st m ≠ 0 → vecOf n ((lPass prm sqrt A P st (m + 1)).w.vs.get (m + 1))
    ⬝ᵥ vecOf n ((lPass prm sqrt A P st (m + 1)).w.vs.get (m + 1)) = 1
  ptr : ∀ i, i < m + 1 → LPtrOK i ((lPass prm sqrt A P st (m + 1)).w.wsp.get i)
  zsize : ∀ i, i < m + 1 → (lZ (lPass prm sqrt A P st (m + 1)) i).size = n
  arn : ∀ i, i < m + 1 → Tl prm.pside (matOf A n n) Pl (vecOf n (lZ (lPass prm sqrt A P st (m + 1)) i))
    = ∑ k ∈ range (i + 2), lHTilde prm sqrt A P st (m + 1) k i
        • vecOf n ((lPass prm sqrt A P st (m + 1)).w.vs.get k)
  r0 : vecOf n st.w.r = st.normR • vecOf n ((lPass prm sqrt A P st (m + 1)).w.vs.get 0)

variable (n : ℕ) (A : CRS K) (hA : A.WF) (hn : A.nrows = n) (hm : A.ncols = n)
  (P : Vec K → Vec K) (Pl : (Fin n → K) →ₗ[K] (Fin n → K)) (hP : PDenotes n P Pl) (sqrt : K → K)
  (f : Vec K) (prm : LGMRES.Params K) (st : LGMRES.St K)
  (hst : CycleStart prm.pside sqrt A P f (lToG st)) (hod : ∀ s, (st.w.odata.get s).size = n)
include hA hn hm hP hst hod

/-- on entry of the inner loop -/
theorem lbasis_zero (hr0 : RootAt sqrt (stdIp st.w.r st.w.r)) : LBasis n A P Pl prm sqrt st 0 := by
  have hsz := (Rf_vec n A hA hn hm P Pl hP prm.pside f st.x).1
  have hr : st.w.r = GMRES.Rf prm.pside P f A st.x := hst.r
  rw [← hr] at hsz
  have hinv := GMRES.cycleStart_inv prm.pside stdIp sqrt A P n (stdIp_ipOK n) (lToG st) g00 hsz hst.normR hr0 hst.ne
  obtain ⟨⟨hsize, hon⟩, _⟩ := hinv.2 (fun i hi => absurd hi (Nat.not_lt_zero i))
  refine ⟨hsize, ?_, fun i hi => absurd hi (Nat.not_lt_zero i), fun i hi => absurd hi (Nat.not_lt_zero i),
    fun i hi => absurd hi (Nat.not_lt_zero i), ?_⟩
  · intro a b ha hb
    have := hon a b ha hb
    rw [stdIp_vecOf n _ _ (hsize a ha) (hsize b hb)] at this
    exact this
  · show vecOf n st.w.r = st.normR • vecOf n (axpby (inv1 st.normR) st.w.r 0 (st.w.vs.get 0))
    have hne : st.normR ≠ 0 := hst.ne
    rw [vecOf_axpby n _ _ _ _ hsz, zero_smul, add_zero, smul_smul]
    unfold inv1
    rw [mul_one_div_cancel hne, one_smul]

/-- one more pass, breakdown or not -/
theorem lbasis_last (m : ℕ) (hb : LBasis n A P Pl prm sqrt st m)
    (hroot : RootAt sqrt (stdIp (lOrthVec prm A P (lPass prm sqrt A P st m))
      (lOrthVec prm A P (lPass prm sqrt A P st m)))) :
    LLast n A P Pl prm sqrt st m := by
  have hj := lPass_j prm sqrt A P st m
  have hvn : (lVnew prm A P (lPass prm sqrt A P st m)).size = n := by
    rw [← (lZ_new prm sqrt A P (lPass prm sqrt A P st m)).2.2]
    exact Aop_size_all n A hA hn hm P Pl hP prm.pside _
  obtain ⟨hold, hnsz, horth, hunit, hcol⟩ := lstep_basis prm sqrt A P n (lPass prm sqrt A P st m) hvn
    (fun a ha => hb.size a (by rw [hj] at ha; exact ha))
    (fun a b ha hb' => hb.on a b (by rw [hj] at ha; exact ha) (by rw [hj] at hb'; exact hb')) hroot
  obtain ⟨hznew_ptr, hznew, hzA⟩ := lZ_new prm sqrt A P (lPass prm sqrt A P st m)
  rw [hj] at hold hnsz horth hunit hcol hznew_ptr hznew hzA
  rw [← lPass_succ] at hold hnsz horth hunit hcol hznew_ptr hznew hzA
  have hzold : ∀ i, i < m → lZ (lPass prm sqrt A P st (m + 1)) i = lZ (lPass prm sqrt A P st m) i := by
    intro i hi
    rw [lPass_succ]
    exact lZ_step prm sqrt A P _ i (by rw [hj]; exact hi) (hb.ptr i hi)
  have hzsz : (lZ (lPass prm sqrt A P st (m + 1)) m).size = n := by
    rw [hznew]
    rcases lpickZ_ok prm.MM prm.K' (lPass prm sqrt A P st m).w.ov m with h | ⟨s, h⟩
    · rw [h]; exact hb.size m (Nat.le_refl m)
    · rw [h]
      show ((lPass prm sqrt A P st m).w.odata.get s).size = n
      rw [lInnerPass_odata]; exact hod s
  refine ⟨?_, ?_, ?_, ?_, ?_, ?_, ?_, ?_⟩
  · intro a ha
    by_cases h1 : a = m + 1
    · rw [h1]; exact hnsz
    · rw [hold a (by omega)]; exact hb.size a (by omega)
  · intro a b ha hb'
    rw [hold a ha, hold b hb']; exact hb.on a b ha hb'
  · intro a ha
    rw [hold a ha]; exact horth a ha
  · exact hunit
  · intro i hi
    by_cases him : i = m
    · rw [him]; exact hznew_ptr
    · have hi' : i < m := by omega
      rw [lPass_succ, LGMRES.step_wsp, setF_other _ _ _ _ (by rw [hj]; exact him)]
      exact hb.ptr i hi'
  · intro i hi
    by_cases him : i = m
    · rw [him]; exact hzsz
    · rw [hzold i (by omega)]; exact hb.zsize i (by omega)
  · intro i hi
    by_cases him : i = m
    · subst him
      rw [← (Aop_vec n A hA hn hm P Pl hP prm.pside _ hzsz).2, hzA, hcol]
      apply sum_congr rfl
      intro k _
      rw [lHTilde_succ, if_pos rfl]
    · have hi' : i < m := by omega
      rw [hzold i hi', hb.arn i hi']
      apply sum_congr rfl
      intro k hk
      have hk' : k ≤ m := by have := mem_range.mp hk; omega
      rw [hold k hk', lHTilde_succ, if_neg him]
  · rw [hold 0 (Nat.zero_le m)]; exact hb.r0

/-- a pass without breakdown extends the orthonormal list -/
theorem lbasis_succ (m : ℕ) (hl : LLast n A P Pl prm sqrt st m) (hnb : lArnoldiNorm prm sqrt A P st m ≠ 0) :
    LBasis n A P Pl prm sqrt st (m + 1) := by
  refine ⟨hl.size, ?_, hl.ptr, hl.zsize, hl.arn, hl.r0⟩
  intro a b ha hb
  by_cases h1 : a = m + 1
  · by_cases h2 : b = m + 1
    · rw [h1, h2, if_pos rfl]; exact hl.unit hnb
    · rw [h1, if_neg (by omega), dotProduct_comm]; exact hl.last b (by omega)
  · by_cases h2 : b = m + 1
    · rw [h2, if_neg h1]; exact hl.last a (by omega)
    · exact hl.on a b (by omega) (by omega)

/-- **the augmented Arnoldi relation** after `j` passes without breakdown -/
theorem lcycle_basis (j : ℕ) (hroots : LRootsExact prm sqrt A P st j)
    (hnb : ∀ i, i < j → lArnoldiNorm prm sqrt A P st i ≠ 0) : LBasis n A P Pl prm sqrt st j := by
  induction j with
  | zero => exact lbasis_zero n A hA hn hm P Pl hP sqrt f prm st hst hod hroots.r0
  | succ j ih =>
    exact lbasis_succ n A hA hn hm P Pl hP sqrt f prm st hst hod j
      (lbasis_last n A hA hn hm P Pl hP sqrt f prm st hst hod j
        (ih (hroots.mono (Nat.le_succ j)) (fun i hi => hnb i (by omega))) (hroots.orth j (Nat.lt_succ_self j)))
      (hnb j (Nat.lt_succ_self j))

/-- … after `m + 1` passes when only the passes `i < m` are known to be free of breakdown -/
theorem lcycle_last (m : ℕ) (hroots : LRootsExact prm sqrt A P st (m + 1))
    (hnb : ∀ i, i < m → lArnoldiNorm prm sqrt A P st i ≠ 0) : LLast n A P Pl prm sqrt st m :=
  lbasis_last n A hA hn hm P Pl hP sqrt f prm st hst hod m
    (lcycle_basis n A hA hn hm P Pl hP sqrt f prm st hst hod m (hroots.mono (Nat.le_succ m)) hnb)
    (hroots.orth m (Nat.lt_succ_self m))

end basis
end Amgcl.Krylov
