import Amgcl.Proofs.KrylovGMRESRun
import Mathlib.LinearAlgebra.Matrix.DotProduct
/-!
# GMRES: (lucky) breakdown of the Arnoldi process (C05)

`arnoldiNorm … i = 0` (`H̃(i+1,i) = ‖w_i‖ = 0`, the next basis vector cannot be formed) is the breakdown of the
Arnoldi process.

* `breakdown_innerRes`      in the pass of the breakdown the generated rotation is the identity (`cs = 1`, `sn = 0`),
                            `s_{i+1} = 0` and `inner_res = 0`;
* `inner_no_early_breakdown`  hence, for a non-negative threshold, the inner loop ENDS with that pass: a breakdown can
                            only be met in the LAST pass of a cycle;
* `cycle_basis_last`        the Arnoldi basis after `m+1` passes when only the passes `i < m` are known to be free of
                            breakdown: `v[0..m]` orthonormal, `v[m+1] ⟂ v[0..m]`, the Arnoldi relation for EVERY column
                            `i ≤ m` (in a breakdown `w_m = 0` and `H̃(m+1,m) = 0`), `v[m+1]` a unit vector unless breakdown;
* `cycle_ls_last`           the least-squares identity of `Proofs/KrylovGMRESMain.lean` under these weaker hypotheses.
-/
set_option linter.unusedSectionVars false
set_option linter.unusedVariables false
namespace Amgcl.Krylov
open Amgcl Amgcl.Solver Amgcl.Solver.GMRES Amgcl.Energy.Bridge Matrix Finset

/-! ### a loop is the iterate of its body over states that all satisfy the guard -/
section loops
variable {σ : Type}

theorem loopN_iterate_conds (cond : σ → Bool) (body : σ → σ) :
    ∀ fuel s, ∃ k, k ≤ fuel ∧ loopN cond body fuel s = body^[k] s ∧
      (∀ i, i < k → cond (body^[i] s) = true) ∧ (k = fuel ∨ cond (body^[k] s) = false) := by
  intro fuel
  induction fuel with
  | zero => intro s; exact ⟨0, Nat.le_refl 0, rfl, fun i hi => absurd hi (Nat.not_lt_zero i), Or.inl rfl⟩
  | succ n ih =>
    intro s
    unfold loopN
    by_cases hc : cond s = true
    · simp only [hc, if_true]
      obtain ⟨k, hk, h1, h2, h3⟩ := ih (body s)
      refine ⟨k + 1, by omega, by rw [h1, Function.iterate_succ_apply], ?_, ?_⟩
      · intro i hi
        cases i with
        | zero => exact hc
        | succ i => rw [Function.iterate_succ_apply]; exact h2 i (by omega)
      · rcases h3 with h3 | h3
        · left; omega
        · right; rw [Function.iterate_succ_apply]; exact h3
    · simp only [hc]
      exact ⟨0, Nat.zero_le _, rfl, fun i hi => absurd hi (Nat.not_lt_zero i), Or.inr (by simpa using hc)⟩

end loops

section passes
variable {K : Type} [Field K] [DecidableEq K] [LT K] [DecidableLT K]

/-- the inner loop continued after each of its passes but the last: `cont` holds in `innerPass … i`, `1 ≤ i < j` -/
theorem inner_conds (prm : GMRES.Params K) (sqrt : K → K) (A : CRS K) (P : Vec K → Vec K) (epsT : K)
    (st : GMRES.St K) (i : ℕ) (h1 : 1 ≤ i) (hi : i < (inner prm stdIp sqrt A P epsT st).j) :
    cont prm.maxiter prm.M epsT (innerPass prm.pside sqrt A P st i) = true := by
  obtain ⟨k, _, hk1, hk2, _⟩ := loopN_iterate_conds (cont prm.maxiter prm.M epsT)
    (GMRES.step prm.pside stdIp sqrt A P) prm.M (GMRES.step prm.pside stdIp sqrt A P (cycleStart st))
  have hdef : inner prm stdIp sqrt A P epsT st
      = loopN (cont prm.maxiter prm.M epsT) (GMRES.step prm.pside stdIp sqrt A P) prm.M
          (GMRES.step prm.pside stdIp sqrt A P (cycleStart st)) := rfl
  have hpass : ∀ a, (GMRES.step prm.pside stdIp sqrt A P)^[a] (GMRES.step prm.pside stdIp sqrt A P (cycleStart st))
      = innerPass prm.pside sqrt A P st (a + 1) := by
    intro a; unfold innerPass; rw [Function.iterate_succ_apply]
  rw [← hdef, hpass] at hk1
  have hj : (inner prm stdIp sqrt A P epsT st).j = k + 1 := by rw [hk1, innerPass_j]
  obtain ⟨a, rfl⟩ : ∃ a, i = a + 1 := ⟨i - 1, by omega⟩
  rw [← hpass]
  exact hk2 a (by omega)

/-- the plane rotation that pass `j` of the cycle generates -/
def rotOf (side : Side) (sqrt : K → K) (A : CRS K) (P : Vec K → Vec K) (st : GMRES.St K) (j : ℕ) : K × K :=
  rotG sqrt j (innerPass side sqrt A P st j).w.h
    (orth stdIp sqrt (innerPass side sqrt A P st j).w.v j (innerPass side sqrt A P st j).w.h.H
      (stepV side A P (innerPass side sqrt A P st j))).1

/-- the last entry of the reduced right-hand side after pass `j`: `s_{j+1} = −sn_j · s_j` -/
theorem innerPass_s_last (side : Side) (sqrt : K → K) (A : CRS K) (P : Vec K → Vec K) (st : GMRES.St K) (j : ℕ) :
    (innerPass side sqrt A P st (j + 1)).w.h.s.get (j + 1)
      = -(rotOf side sqrt A P st j).2 * (innerPass side sqrt A P st j).w.h.s.get j := by
  have hz := innerPass_s_zero side sqrt A P st j (j + 1) (Nat.lt_succ_self j)
  have hj := innerPass_j side sqrt A P st j
  unfold rotOf
  rw [innerPass_succ]
  generalize innerPass side sqrt A P st j = t at hz hj ⊢
  subst hj
  obtain ⟨_, _, rs, _, _⟩ := rotate_spec sqrt t.j t.w.h (orth stdIp sqrt t.w.v t.j t.w.h.H (stepV side A P t)).1
  show (rotate sqrt t.j t.w.h (orth stdIp sqrt t.w.v t.j t.w.h.H (stepV side A P t)).1).1.s.get (t.j + 1) = _
  rw [rs (t.j + 1)]
  show (if t.j + 1 = t.j then _ else if t.j + 1 = t.j + 1 then _ else _) = _
  rw [if_neg (by omega), if_pos rfl, hz]; ring

/-- … and the entry before it: `s_j ← cs_j · s_j` -/
theorem innerPass_s_prev (side : Side) (sqrt : K → K) (A : CRS K) (P : Vec K → Vec K) (st : GMRES.St K) (j : ℕ) :
    (innerPass side sqrt A P st (j + 1)).w.h.s.get j
      = (rotOf side sqrt A P st j).1 * (innerPass side sqrt A P st j).w.h.s.get j := by
  have hz := innerPass_s_zero side sqrt A P st j (j + 1) (Nat.lt_succ_self j)
  have hj := innerPass_j side sqrt A P st j
  unfold rotOf
  rw [innerPass_succ]
  generalize innerPass side sqrt A P st j = t at hz hj ⊢
  subst hj
  obtain ⟨_, _, rs, _, _⟩ := rotate_spec sqrt t.j t.w.h (orth stdIp sqrt t.w.v t.j t.w.h.H (stepV side A P t)).1
  show (rotate sqrt t.j t.w.h (orth stdIp sqrt t.w.v t.j t.w.h.H (stepV side A P t)).1).1.s.get t.j = _
  rw [rs t.j]
  show (if t.j = t.j then _ else _) = _
  rw [if_pos rfl, hz]; ring

/-- in a breakdown the generated rotation is the identity -/
theorem rotOf_breakdown (side : Side) (sqrt : K → K) (A : CRS K) (P : Vec K → Vec K) (st : GMRES.St K) (j : ℕ)
    (hb : arnoldiNorm side sqrt A P st j = 0) : rotOf side sqrt A P st j = (1, 0) := by
  have hj := innerPass_j side sqrt A P st j
  unfold arnoldiNorm at hb
  unfold rotOf rotG
  generalize innerPass side sqrt A P st j = t at hb hj ⊢
  subst hj
  rw [rotCol_frame t.j _ t.w.h.cs t.w.h.sn (t.j + 1) t.j (Or.inr (Nat.lt_succ_self _)), hb]
  simp [genRot]

/-- `inner_res = |s_{j+1}|` (every field; `innerPass_innerRes` is the same statement over an ordered field) -/
theorem innerPass_innerRes' (side : Side) (sqrt : K → K) (A : CRS K) (P : Vec K → Vec K) (st : GMRES.St K) (j : ℕ) :
    (innerPass side sqrt A P st (j + 1)).innerRes
      = Solver.absK ((innerPass side sqrt A P st (j + 1)).w.h.s.get (j + 1)) := by
  have hj := innerPass_j side sqrt A P st j
  rw [innerPass_succ]
  generalize innerPass side sqrt A P st j = t at hj ⊢
  subst hj
  exact (rotate_spec sqrt t.j t.w.h (orth stdIp sqrt t.w.v t.j t.w.h.H (stepV side A P t)).1).2.2.2.2

/-- **breakdown ends the inner loop**: `s_{j+1} = 0`, `inner_res = 0` after the pass of the breakdown -/
theorem breakdown_innerRes (side : Side) (sqrt : K → K) (A : CRS K) (P : Vec K → Vec K) (st : GMRES.St K) (j : ℕ)
    (hb : arnoldiNorm side sqrt A P st j = 0) :
    (innerPass side sqrt A P st (j + 1)).w.h.s.get (j + 1) = 0 ∧
    (innerPass side sqrt A P st (j + 1)).w.h.s.get j = (innerPass side sqrt A P st j).w.h.s.get j ∧
    (innerPass side sqrt A P st (j + 1)).innerRes = 0 := by
  have h1 : (innerPass side sqrt A P st (j + 1)).w.h.s.get (j + 1) = 0 := by
    rw [innerPass_s_last, rotOf_breakdown side sqrt A P st j hb]; simp
  refine ⟨h1, ?_, ?_⟩
  · rw [innerPass_s_prev, rotOf_breakdown side sqrt A P st j hb]; simp
  · rw [innerPass_innerRes', h1, absK_zero]

/-- **a breakdown can only be met in the last pass of a cycle** (threshold not negative): every pass but the last of
the inner loop of the model has `H̃(i+1,i) ≠ 0` -/
theorem inner_no_early_breakdown (prm : GMRES.Params K) (sqrt : K → K) (A : CRS K) (P : Vec K → Vec K) (epsT : K)
    (heps : ¬ epsT < 0) (st : GMRES.St K) (i : ℕ) (hi : i + 1 < (inner prm stdIp sqrt A P epsT st).j) :
    arnoldiNorm prm.pside sqrt A P st i ≠ 0 := by
  intro hb
  have hc := inner_conds prm sqrt A P epsT st (i + 1) (by omega) hi
  rw [cont, (breakdown_innerRes prm.pside sqrt A P st i hb).2.2] at hc
  simp only [Bool.not_eq_true', Bool.or_eq_false_iff, decide_eq_false_iff_not, Bool.not_eq_false',
    decide_eq_true_eq] at hc
  exact heps hc.2

end passes

section la
variable {K : Type} [Field K] {n : ℕ}

/-- squared norm of a combination of orthonormal vectors and one more vector orthogonal to them, which is a unit
vector or does not take part -/
theorem orthonormal_sum_sq_last (m : ℕ) (V : ℕ → Fin n → K)
    (hV : ∀ a b, a < m → b < m → V a ⬝ᵥ V b = if a = b then 1 else 0) (ho : ∀ a, a < m → V a ⬝ᵥ V m = 0)
    (c : ℕ → K) (hl : V m ⬝ᵥ V m = 1 ∨ c m = 0) :
    (∑ a ∈ range (m + 1), c a • V a) ⬝ᵥ (∑ b ∈ range (m + 1), c b • V b) = ∑ a ∈ range (m + 1), c a * c a := by
  have hu : (∑ a ∈ range m, c a • V a) ⬝ᵥ V m = 0 := by
    rw [sum_dotProduct]
    apply sum_eq_zero
    intro a ha
    rw [smul_dotProduct, ho a (mem_range.mp ha), smul_zero]
  have hu' : V m ⬝ᵥ (∑ a ∈ range m, c a • V a) = 0 := by rw [dotProduct_comm]; exact hu
  rw [sum_range_succ, sum_range_succ]
  simp only [add_dotProduct, dotProduct_add, smul_dotProduct, dotProduct_smul, smul_eq_mul]
  rw [orthonormal_sum_sq m V hV c, hu, hu']
  rcases hl with h | h
  · rw [h]; ring
  · rw [h]; ring

end la

section last
variable {K : Type} [Field K] [LinearOrder K] [IsStrictOrderedRing K]

/-- over an ordered field a vector with `⟨w,w⟩ = 0` is the zero vector -/
theorem vecOf_zero_of_stdIp_self (n : ℕ) (w : Vec K) (hw : w.size = n) (h : stdIp w w = 0) : vecOf n w = 0 := by
  rw [stdIp_vecOf n w w hw hw] at h
  exact dotProduct_self_eq_zero.mp h

/-- pass `m` writes `v[m+1]` only -/
theorem innerPass_v_succ (side : Side) (sqrt : K → K) (A : CRS K) (P : Vec K → Vec K) (st : GMRES.St K) (m : ℕ) :
    (innerPass side sqrt A P st (m + 1)).w.v = setF (innerPass side sqrt A P st m).w.v (m + 1)
      (orth stdIp sqrt (innerPass side sqrt A P st m).w.v m (innerPass side sqrt A P st m).w.h.H
        (stepV side A P (innerPass side sqrt A P st m))).2 := by
  have hj := innerPass_j side sqrt A P st m
  rw [innerPass_succ, step_v, hj]

/-- the columns of `H̃` are written once -/
theorem hTilde_succ (side : Side) (sqrt : K → K) (A : CRS K) (P : Vec K → Vec K) (st : GMRES.St K) (m k i : ℕ) :
    hTilde side sqrt A P st (m + 1) k i
      = if i < m then hTilde side sqrt A P st m k i
        else if i = m then (orth stdIp sqrt (innerPass side sqrt A P st m).w.v m (innerPass side sqrt A P st m).w.h.H
          (stepV side A P (innerPass side sqrt A P st m))).1.get k m
        else hTilde side sqrt A P st m k i := by
  unfold hTilde
  rw [innerPassG_succ]
  show (if i = (innerPassG side sqrt A P st g00 m).1.j then _ else _) = _
  rw [innerPassG_fst, innerPass_j]
  by_cases h1 : i < m
  · rw [if_neg (by omega), if_pos h1]
  · rw [if_neg h1]
    by_cases h2 : i = m
    · rw [if_pos h2, if_pos h2, h2]
    · rw [if_neg h2, if_neg h2]

/-- **one more Arnoldi step, breakdown or not** (array level; nothing assumed about `P` but the size of `A' u`): if
`v[0..m]` is orthonormal after `m` passes and the root is exact on `⟨w_m,w_m⟩`, then after pass `m` the old vectors are
untouched, `v[m+1]` has length `n`, is orthogonal to `v[0..m]`, is a unit vector unless `H̃(m+1,m) = 0`, and
`A' v[m] = Σ_{k ≤ m+1} H̃(k,m) v[k]` — in a breakdown because `w_m = 0` and `H̃(m+1,m) = 0`. -/
theorem arnoldi_last_step (side : Side) (sqrt : K → K) (A : CRS K) (P : Vec K → Vec K) (st : GMRES.St K) (n m : ℕ)
    (hAsz : ∀ u : Vec K, (Aop side P A u).size = n)
    (hsize : ∀ a, a ≤ m → ((innerPass side sqrt A P st m).w.v.get a).size = n)
    (hon : ∀ a b, a ≤ m → b ≤ m → vecOf n ((innerPass side sqrt A P st m).w.v.get a)
        ⬝ᵥ vecOf n ((innerPass side sqrt A P st m).w.v.get b) = if a = b then 1 else 0)
    (hroot : RootAt sqrt (stdIp (orthVecOf side sqrt A P (innerPass side sqrt A P st m))
      (orthVecOf side sqrt A P (innerPass side sqrt A P st m)))) :
    (∀ a, a ≤ m → (innerPass side sqrt A P st (m + 1)).w.v.get a = (innerPass side sqrt A P st m).w.v.get a) ∧
    ((innerPass side sqrt A P st (m + 1)).w.v.get (m + 1)).size = n ∧
    (∀ a, a ≤ m → vecOf n ((innerPass side sqrt A P st m).w.v.get a)
        ⬝ᵥ vecOf n ((innerPass side sqrt A P st (m + 1)).w.v.get (m + 1)) = 0) ∧
    (arnoldiNorm side sqrt A P st m ≠ 0 → vecOf n ((innerPass side sqrt A P st (m + 1)).w.v.get (m + 1))
        ⬝ᵥ vecOf n ((innerPass side sqrt A P st (m + 1)).w.v.get (m + 1)) = 1) ∧
    vecOf n (Aop side P A ((innerPass side sqrt A P st m).w.v.get m))
      = ∑ k ∈ range (m + 2), hTilde side sqrt A P st (m + 1) k m
          • vecOf n ((innerPass side sqrt A P st (m + 1)).w.v.get k) := by
  have hj := innerPass_j side sqrt A P st m
  unfold orthVecOf at hroot
  rw [hj] at hroot
  have hv' := innerPass_v_succ side sqrt A P st m
  have hHt := hTilde_succ side sqrt A P st m
  have hvn : (stepV side A P (innerPass side sqrt A P st m)).size = n := by
    rw [stepV_eq]; exact hAsz _
  have hTv : Aop side P A ((innerPass side sqrt A P st m).w.v.get m) = stepV side A P (innerPass side sqrt A P st m) := by
    rw [stepV_eq, hj]
  have hbd : arnoldiNorm side sqrt A P st m
      = (orth stdIp sqrt (innerPass side sqrt A P st m).w.v m (innerPass side sqrt A P st m).w.h.H
          (stepV side A P (innerPass side sqrt A P st m))).1.get (m + 1) m := rfl
  generalize innerPass side sqrt A P st m = t at hsize hon hj hroot hv' hHt hvn hTv hbd
  have hO : Orthonormal stdIp n t.w.v m :=
    ⟨hsize, fun a b ha hb => by rw [stdIp_vecOf n _ _ (hsize a ha) (hsize b hb)]; exact hon a b ha hb⟩
  have hosz : (orth stdIp sqrt t.w.v m t.w.h.H (stepV side A P t)).2.size = n :=
    orth_size stdIp sqrt n (stdIp_ipOK n) t.w.v m t.w.h.H _ hO hvn
  have hget : ∀ a, (innerPass side sqrt A P st (m + 1)).w.v.get a
      = if a = m + 1 then (orth stdIp sqrt t.w.v m t.w.h.H (stepV side A P t)).2 else t.w.v.get a := by
    intro a; rw [hv', setF_get]
  have hold : ∀ a, a ≤ m → (innerPass side sqrt A P st (m + 1)).w.v.get a = t.w.v.get a := by
    intro a ha; rw [hget, if_neg (by omega)]
  have hnew : (innerPass side sqrt A P st (m + 1)).w.v.get (m + 1)
      = (orth stdIp sqrt t.w.v m t.w.h.H (stepV side A P t)).2 := by rw [hget, if_pos rfl]
  refine ⟨hold, by rw [hnew]; exact hosz, ?_, ?_, ?_⟩
  · intro a ha
    rw [hnew, ← stdIp_vecOf n _ _ (hsize a ha) hosz, (stdIp_ipOK n).symm _ _ (hsize a ha) hosz]
    exact orth_orthogonal stdIp sqrt n (stdIp_ipOK n) t.w.v m t.w.h.H _ hO hvn a ha
  · intro hne
    rw [hnew, ← stdIp_vecOf n _ _ hosz hosz]
    exact orth_normalised stdIp sqrt n (stdIp_ipOK n) t.w.v m t.w.h.H _ hO hvn hroot (by rw [← hbd]; exact hne)
  · rw [hTv, sum_range_succ, hnew]
    have hsum : ∑ k ∈ range (m + 1), hTilde side sqrt A P st (m + 1) k m
          • vecOf n ((innerPass side sqrt A P st (m + 1)).w.v.get k)
        = ∑ k ∈ range (m + 1), (orth stdIp sqrt t.w.v m t.w.h.H (stepV side A P t)).1.get k m
          • vecOf n (t.w.v.get k) := by
      apply sum_congr rfl
      intro k hk
      have hk' : k ≤ m := by have := mem_range.mp hk; omega
      rw [hold k hk', hHt, if_neg (Nat.lt_irrefl m), if_pos rfl]
    rw [hsum, hHt, if_neg (Nat.lt_irrefl m), if_pos rfl]
    funext τ
    simp only [Pi.add_apply, Finset.sum_apply, Pi.smul_apply, smul_eq_mul]
    show (stepV side A P t).getD τ.val 0 = _
    by_cases hne : arnoldiNorm side sqrt A P st m = 0
    · rw [hbd] at hne
      obtain ⟨hw0, hrel⟩ := orth_arnoldi_breakdown stdIp sqrt n (stdIp_ipOK n) t.w.v m t.w.h.H _ hO hvn hroot hne
      have hwsz := (mgs_inv stdIp n (stdIp_ipOK n) t.w.v m t.w.h.H _ hO hvn).1
      have hwz := congrFun (vecOf_zero_of_stdIp_self n _ hwsz hw0) τ
      rw [hrel τ.val τ.isLt, hne, zero_mul, add_zero]
      show _ + vecOf n _ τ = _
      rw [hwz]
      simp only [Pi.zero_apply, add_zero, vecOf]
    · rw [hbd] at hne
      rw [orth_arnoldi stdIp sqrt n (stdIp_ipOK n) t.w.v m t.w.h.H _ hO hvn hne τ.val τ.isLt]
      rfl

variable (n : ℕ) (A : CRS K) (hA : A.WF) (hn : A.nrows = n) (hm : A.ncols = n)
  (P : Vec K → Vec K) (Pl : (Fin n → K) →ₗ[K] (Fin n → K)) (hP : PDenotes n P Pl) (side : Side) (sqrt : K → K)
  (f : Vec K) (st : GMRES.St K)
  (hst : CycleStart side sqrt A P f st)
include hA hn hm hP hst

/-- **the Arnoldi basis after `m+1` passes when only the passes `i < m` are known to be free of breakdown** -/
theorem cycle_basis_last (m : ℕ) (hroots : RootsExact side sqrt A P st (m + 1))
    (hnb : ∀ i, i < m → arnoldiNorm side sqrt A P st i ≠ 0) :
    (∀ a, a ≤ m + 1 → ((innerPass side sqrt A P st (m + 1)).w.v.get a).size = n) ∧
    (∀ a b, a ≤ m → b ≤ m → vecOf n ((innerPass side sqrt A P st (m + 1)).w.v.get a)
        ⬝ᵥ vecOf n ((innerPass side sqrt A P st (m + 1)).w.v.get b) = if a = b then 1 else 0) ∧
    (∀ a, a ≤ m → vecOf n ((innerPass side sqrt A P st (m + 1)).w.v.get a)
        ⬝ᵥ vecOf n ((innerPass side sqrt A P st (m + 1)).w.v.get (m + 1)) = 0) ∧
    (arnoldiNorm side sqrt A P st m ≠ 0 → vecOf n ((innerPass side sqrt A P st (m + 1)).w.v.get (m + 1))
        ⬝ᵥ vecOf n ((innerPass side sqrt A P st (m + 1)).w.v.get (m + 1)) = 1) ∧
    (∀ i, i < m + 1 → Tl side (matOf A n n) Pl (vecOf n ((innerPass side sqrt A P st (m + 1)).w.v.get i))
        = ∑ k ∈ range (i + 2), hTilde side sqrt A P st (m + 1) k i
            • vecOf n ((innerPass side sqrt A P st (m + 1)).w.v.get k)) ∧
    vecOf n st.w.r = st.normR • vecOf n ((innerPass side sqrt A P st (m + 1)).w.v.get 0) := by
  obtain ⟨hsize, hon, harn, hr0⟩ := cycle_basis n A hA hn hm P Pl hP side sqrt f st hst m
    (hroots.mono (Nat.le_succ m)) hnb
  obtain ⟨hold, hnsz, horth, hunit, hcol⟩ := arnoldi_last_step side sqrt A P st n m
    (Aop_size_all n A hA hn hm P Pl hP side) hsize hon (hroots.orth m (Nat.lt_succ_self m))
  have hHt := hTilde_succ side sqrt A P st m
  refine ⟨?_, ?_, ?_, hunit, ?_, ?_⟩
  · intro a ha
    by_cases h1 : a = m + 1
    · rw [h1]; exact hnsz
    · rw [hold a (by omega)]; exact hsize a (by omega)
  · intro a b ha hb
    rw [hold a ha, hold b hb]; exact hon a b ha hb
  · intro a ha
    rw [hold a ha]; exact horth a ha
  · intro i hi
    by_cases him : i < m
    · rw [hold i (by omega), harn i him]
      apply sum_congr rfl
      intro k hk
      have hk' : k ≤ m := by have := mem_range.mp hk; omega
      rw [hold k hk', hHt, if_pos him]
    · have hi' : i = m := by omega
      subst hi'
      rw [hold i (Nat.le_refl i), ← (Aop_vec n A hA hn hm P Pl hP side _ (hsize i (Nat.le_refl i))).2]
      exact hcol
  · rw [hold 0 (Nat.zero_le m)]; exact hr0

/-- **least-squares identity of the cycle, breakdown allowed in the last pass**: for every coefficient vector `y` -/
theorem cycle_ls_last (m : ℕ) (hroots : RootsExact side sqrt A P st (m + 1))
    (hnb : ∀ i, i < m → arnoldiNorm side sqrt A P st i ≠ 0) (y : ℕ → K) :
    resOf side (matOf A n n) Pl (vecOf n f) (vecOf n st.x
        + Xl side Pl (∑ i ∈ range (m + 1), y i • vecOf n ((innerPass side sqrt A P st (m + 1)).w.v.get i)))
      ⬝ᵥ resOf side (matOf A n n) Pl (vecOf n f) (vecOf n st.x
        + Xl side Pl (∑ i ∈ range (m + 1), y i • vecOf n ((innerPass side sqrt A P st (m + 1)).w.v.get i)))
    = ∑ a ∈ range (m + 1), ((innerPass side sqrt A P st (m + 1)).w.h.s.get a
          - ∑ i ∈ Ico a (m + 1), (innerPass side sqrt A P st (m + 1)).w.h.H.get a i * y i)
        * ((innerPass side sqrt A P st (m + 1)).w.h.s.get a
          - ∑ i ∈ Ico a (m + 1), (innerPass side sqrt A P st (m + 1)).w.h.H.get a i * y i)
      + (innerPass side sqrt A P st (m + 1)).w.h.s.get (m + 1) * (innerPass side sqrt A P st (m + 1)).w.h.s.get (m + 1) := by
  obtain ⟨hsize, hon, hlast, hunit, harn, hr0⟩ :=
    cycle_basis_last n A hA hn hm P Pl hP side sqrt f st hst m hroots hnb
  have hgiv := (innerPassG_givens side sqrt A P st g00 (m + 1) hroots.rot).1
  have hresV : resOf side (matOf A n n) Pl (vecOf n f) (vecOf n st.x
        + Xl side Pl (∑ i ∈ range (m + 1), y i • vecOf n ((innerPass side sqrt A P st (m + 1)).w.v.get i)))
      = ∑ a ∈ range (m + 1 + 1), hres (m + 1) (hTilde side sqrt A P st (m + 1)) st.normR y a
          • vecOf n ((innerPass side sqrt A P st (m + 1)).w.v.get a) := by
    rw [resOf_add, ← (Rf_vec n A hA hn hm P Pl hP side f st.x).2, ← hst.r, hr0, hres_expand, map_sum]
    congr 1
    apply sum_congr rfl
    intro i hi
    rw [map_smul, harn i (mem_range.mp hi)]
  have hl : vecOf n ((innerPass side sqrt A P st (m + 1)).w.v.get (m + 1))
        ⬝ᵥ vecOf n ((innerPass side sqrt A P st (m + 1)).w.v.get (m + 1)) = 1 ∨
      hres (m + 1) (hTilde side sqrt A P st (m + 1)) st.normR y (m + 1) = 0 := by
    by_cases hb : arnoldiNorm side sqrt A P st m = 0
    · right
      rw [hres_apply]
      have h0 : e0 st.normR (m + 1) = 0 := by simp [e0]
      rw [h0, zero_sub, neg_eq_zero]
      apply sum_eq_zero
      intro i hi
      have hi' : i < m + 1 := mem_range.mp hi
      simp only [colT]
      by_cases him : i = m
      · rw [him, if_pos (Nat.le_refl _)]
        have : hTilde side sqrt A P st (m + 1) (m + 1) m = arnoldiNorm side sqrt A P st m :=
          ghost_sub side sqrt A P st g00 (m + 1) m (Nat.lt_succ_self m)
        rw [this, hb, mul_zero]
      · rw [if_neg (by omega), mul_zero]
    · left; exact hunit hb
  rw [hresV, orthonormal_sum_sq_last (m + 1) _ (fun a b ha hb => hon a b (by omega) (by omega))
    (fun a ha => hlast a (by omega)) _ hl]
  exact givens_ls hgiv y

end last

end Amgcl.Krylov
