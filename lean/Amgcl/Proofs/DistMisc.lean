import Amgcl.Proofs.DistSpmv
import Amgcl.Proofs.RowGet
/-!
Inner product, `scale`, and `assemble` as the inverse of `split`.
-/
namespace Amgcl.Dist
open Amgcl

/-! ### `mpi::inner_product` -/
section ip
variable {K : Type} [CommRing K]

theorem foldl_add_eq_sum (l : List K) (a : K) : l.foldl (· + ·) a = a + l.sum := by
  induction l generalizing a with
  | nil => simp
  | cons b t ih => rw [List.foldl_cons, ih, List.sum_cons, add_assoc]

theorem sum_map_sum_flatMap {α β : Type} (l : List α) (g : α → List β) (h : β → K) :
    (l.map (fun r => ((g r).map h).sum)).sum = ((l.flatMap g).map h).sum := by
  induction l with
  | nil => simp
  | cons a t ih => rw [List.map_cons, List.sum_cons, List.flatMap_cons, List.map_append, List.sum_append, ih]

theorem kahan_eq_sum' (conj : K → K) (x y : Vec K) :
    innerProductSerial conj x y = ((x.toList.zip y.toList).map (fun p => p.1 * conj p.2)).sum := by
  unfold innerProductSerial; rw [kahan_foldl]; simp

theorem zip_chunk {α β : Type} (X : List α) (Y : List β) (b w : Nat) :
    ((X.drop b).take w).zip ((Y.drop b).take w) = ((X.zip Y).drop b).take w := by
  show List.zipWith Prod.mk _ _ = (List.drop b (List.zipWith Prod.mk X Y)).take w
  rw [List.drop_zipWith, List.take_zipWith]

theorem dist_ip_eq (conj : K → K) (part : List Nat) (x y : Vec K) (hx : x.size = part.sum) (hy : y.size = part.sum) :
    distInnerProduct conj (splitVec x part) (splitVec y part) = innerProductSerial conj x y := by
  unfold distInnerProduct allreduceSum splitVec
  rw [List.zip_map', List.map_map, foldl_add_eq_sum, zero_add, kahan_eq_sum']
  have e2 : (List.range part.length).map
        ((fun xy : Vec K × Vec K => innerProductSerial conj xy.1 xy.2) ∘ fun a => (vecPart x part a, vecPart y part a))
      = (List.range part.length).map (fun r => ((((x.toList.zip y.toList).drop (dom part (min r part.length))).take
          (dom part (min (r + 1) part.length) - dom part (min r part.length))).map (fun p => p.1 * conj p.2)).sum) := by
    apply List.map_congr_left
    intro r hr
    have hr' := List.mem_range.1 hr
    simp only [Function.comp]
    rw [kahan_eq_sum', vecPart_toList, vecPart_toList, zip_chunk, Nat.min_eq_left (Nat.le_of_lt hr'), Nat.min_eq_left hr']
  rw [e2, sum_map_sum_flatMap,
    flatMap_chunks (x.toList.zip y.toList) (fun t => dom part (min t part.length)) (by simp [dom_zero]) (dom_step part)]
  simp only [Nat.min_self, dom_length]
  rw [List.take_of_length_le (by simp [hx, hy])]

end ip

/-! ### `mpi::scale` commutes with the distribution -/
section scale
variable {K : Type} [Mul K]

theorem locPart_scale (cb ce : Nat) (s : K) (row : Row K) :
    locPart cb ce (row.map (fun cv => (cv.1, cv.2 * s))) = (locPart cb ce row).map (fun cv => (cv.1, cv.2 * s)) := by
  unfold locPart
  rw [List.filter_map, List.map_map, List.map_map]
  rfl

theorem remPart_scale (cb ce : Nat) (s : K) (row : Row K) :
    remPart cb ce (row.map (fun cv => (cv.1, cv.2 * s))) = (remPart cb ce row).map (fun cv => (cv.1, cv.2 * s)) := by
  unfold remPart
  rw [List.filter_map]
  rfl

variable [Add K] [Zero K]

theorem scale_row (A : CRS K) (s : K) (i : Nat) : (scale A s).row i = (A.row i).map (fun cv => (cv.1, cv.2 * s)) := by
  unfold scale CRS.row
  simp only [Array.getD_eq_getD_getElem?, Array.getElem?_map]
  cases A.rows[i]? <;> rfl

theorem strip_scale (A : CRS K) (s : K) (rb re : Nat) :
    strip (scale A s) rb re = (strip A rb re).map (fun row => row.map (fun cv => (cv.1, cv.2 * s))) := by
  unfold strip
  rw [List.map_map]
  apply List.map_congr_left
  intro i _
  exact scale_row A s _

/-- `mpi::scale` of the distributed matrix IS the distribution of the serially scaled matrix -/
theorem dist_scale_split (A : CRS K) (rp cp : List Nat) (s : K) :
    distScale (split A rp cp) s = split (scale A s) rp cp := by
  unfold distScale split
  rw [List.map_map]
  apply List.map_congr_left
  intro r _
  simp only [Function.comp]
  unfold splitRank
  simp only [strip_scale, List.map_map]
  have hn : (scale A s).ncols = A.ncols := rfl
  unfold scale
  simp only [List.map_toArray, List.map_map, DistMat.mk.injEq, CRS.mk.injEq, true_and]
  refine ⟨?_, ?_⟩
  · congr 1
    apply List.map_congr_left
    intro row _
    simp only [Function.comp]
    exact (locPart_scale _ _ s row).symm
  · congr 1
    apply List.map_congr_left
    intro row _
    simp only [Function.comp]
    exact (remPart_scale _ _ s row).symm

end scale

/-! ### `assemble` is the inverse of `split` -/
section assemble
variable {K : Type}

theorem zipIdx_eq_map_range {α : Type} [Inhabited α] (l : List α) :
    l.zipIdx = (List.range l.length).map (fun r => (l.getD r default, r)) := by
  apply List.ext_getElem?
  intro i
  rw [List.getElem?_zipIdx, List.getElem?_map]
  by_cases hi : i < l.length
  · rw [List.getElem?_range hi, List.getElem?_eq_getElem hi]
    simp [List.getD_eq_getElem?_getD, List.getElem?_eq_getElem hi]
  · rw [List.getElem?_eq_none (Nat.le_of_not_lt hi), List.getElem?_eq_none (by simpa using hi)]
    rfl

/-- indexing into the concatenation of per-rank chunks whose lengths are the partition sizes -/
theorem flatMap_getD_chunk {α : Type} (L : Nat → List α) (part : List Nat) (z : α)
    (hlen : ∀ r, r < part.length → (L r).length = part.getD r 0) :
    ∀ k, k ≤ part.length → ((List.range k).flatMap L).length = dom part k ∧
      ∀ r, r < k → ∀ i, i < part.getD r 0 → ((List.range k).flatMap L).getD (dom part r + i) z = (L r).getD i z := by
  intro k
  induction k with
  | zero => intro _; exact ⟨by simp [dom_zero], fun r hr => absurd hr (Nat.not_lt_zero _)⟩
  | succ k ih =>
    intro hk
    obtain ⟨h1, h2⟩ := ih (Nat.le_of_succ_le hk)
    have hkl : k < part.length := hk
    rw [List.range_succ, List.flatMap_append]
    simp only [List.flatMap_cons, List.flatMap_nil, List.append_nil]
    refine ⟨by rw [List.length_append, h1, hlen k hkl, dom_succ part k hkl], ?_⟩
    intro r hr i hi
    rw [List.getD_eq_getElem?_getD]
    by_cases hrk : r < k
    · have hlt : dom part r + i < ((List.range k).flatMap L).length := by
        rw [h1]
        have := dom_mono part (show r + 1 ≤ k by omega) (Nat.le_of_lt hkl)
        rw [dom_succ part r (by omega)] at this; omega
      rw [List.getElem?_append_left hlt, ← List.getD_eq_getElem?_getD]
      exact h2 r hrk i hi
    · have e : r = k := by omega
      subst e
      rw [List.getElem?_append_right (by rw [h1]; omega), h1, Nat.add_sub_cancel_left, ← List.getD_eq_getElem?_getD]

/-- well-formedness of a distributed matrix with respect to its partitions -/
structure DistWF (Ds : List (DistMat K)) (rp cp : List Nat) : Prop where
  len : Ds.length = rp.length
  lenc : rp.length = cp.length
  locRows : ∀ r, r < rp.length → (Ds.getD r default).loc.nrows = rp.getD r 0
  remRows : ∀ r, r < rp.length → (Ds.getD r default).rem.nrows = rp.getD r 0
  locCols : ∀ r, r < rp.length → (Ds.getD r default).loc.ncols = cp.getD r 0
  remCols : ∀ r, r < rp.length → (Ds.getD r default).rem.ncols = cp.sum
  /-- local columns are in range -/
  locLt : ∀ r, r < rp.length → ∀ i, ∀ cv ∈ (Ds.getD r default).loc.row i, cv.1 < cp.getD r 0
  /-- remote columns are not owned by the rank itself -/
  remOut : ∀ r, r < rp.length → ∀ i, ∀ cv ∈ (Ds.getD r default).rem.row i, ¬ (dom cp r ≤ cv.1 ∧ cv.1 < dom cp (r + 1))

theorem assemble_row (Ds : List (DistMat K)) (rp cp : List Nat) (h : DistWF Ds rp cp) (r i : Nat) (hr : r < rp.length)
    (hi : i < rp.getD r 0) :
    (assemble Ds cp).row (dom rp r + i)
      = globalRow (dom cp r) ((Ds.getD r default).loc.row i) ((Ds.getD r default).rem.row i) := by
  unfold assemble CRS.row
  simp only
  rw [toArray_getD, zipIdx_eq_map_range, List.flatMap_map, h.len]
  have hlen : ∀ r', r' < rp.length → (assembleRank cp r' (Ds.getD r' default)).length = rp.getD r' 0 := by
    intro r' hr'; unfold assembleRank; rw [List.length_map, List.length_range, h.locRows r' hr']
  rw [(flatMap_getD_chunk (fun r' => assembleRank cp r' (Ds.getD r' default)) rp [] hlen rp.length (Nat.le_refl _)).2 r hr i hi]
  unfold assembleRank
  rw [getD_map_range _ _ _ _ (by rw [h.locRows r hr]; exact hi)]
  rfl

theorem assemble_nrows (Ds : List (DistMat K)) (rp cp : List Nat) (h : DistWF Ds rp cp) :
    (assemble Ds cp).nrows = rp.sum := by
  unfold assemble CRS.nrows
  simp only [List.size_toArray]
  rw [zipIdx_eq_map_range, List.flatMap_map, h.len]
  have hlen : ∀ r', r' < rp.length → (assembleRank cp r' (Ds.getD r' default)).length = rp.getD r' 0 := by
    intro r' hr'; unfold assembleRank; rw [List.length_map, List.length_range, h.locRows r' hr']
  rw [(flatMap_getD_chunk (fun r' => assembleRank cp r' (Ds.getD r' default)) rp [] hlen rp.length (Nat.le_refl _)).1,
    dom_length]

theorem locPart_globalRow (cp : List Nat) (r : Nat) (hr : r < cp.length) (l rm : Row K)
    (hl : ∀ cv ∈ l, cv.1 < cp.getD r 0) (hrm : ∀ cv ∈ rm, ¬ (dom cp r ≤ cv.1 ∧ cv.1 < dom cp (r + 1))) :
    locPart (dom cp r) (dom cp (r + 1)) (globalRow (dom cp r) l rm) = l
    ∧ remPart (dom cp r) (dom cp (r + 1)) (globalRow (dom cp r) l rm) = rm := by
  have hs := dom_succ cp r hr
  have hin : ∀ cv ∈ l.map (fun cv => (cv.1 + dom cp r, cv.2)), inRange (dom cp r) (dom cp (r + 1)) cv.1 = true := by
    intro cv hcv
    obtain ⟨a, ha, rfl⟩ := List.mem_map.1 hcv
    have := hl a ha
    unfold inRange; simp; omega
  have hout : ∀ cv ∈ rm, inRange (dom cp r) (dom cp (r + 1)) cv.1 = false := by
    intro cv hcv
    have := hrm cv hcv
    unfold inRange
    by_cases h1 : dom cp r ≤ cv.1
    · have : ¬ cv.1 < dom cp (r + 1) := fun h2 => this ⟨h1, h2⟩
      simp [h1, this]
    · simp [h1]
  unfold locPart remPart globalRow
  rw [List.filter_append, List.filter_append]
  rw [List.filter_eq_self.2 hin, List.filter_eq_nil_iff.2 (by intro cv hcv; rw [hout cv hcv]; simp)]
  rw [List.filter_eq_nil_iff.2 (by intro cv hcv; rw [hin cv hcv]; simp),
    List.filter_eq_self.2 (by intro cv hcv; rw [hout cv hcv]; rfl)]
  refine ⟨?_, by simp⟩
  rw [List.append_nil, List.map_map]
  apply List.map_id''
  intro cv
  simp

theorem crs_ext_rows (A B : CRS K) (hc : A.ncols = B.ncols) (hn : A.nrows = B.nrows)
    (hrow : ∀ i, i < A.nrows → A.row i = B.row i) : A = B := by
  obtain ⟨ac, ar⟩ := A
  obtain ⟨bc, br⟩ := B
  simp only at hc
  subst hc
  congr 1
  unfold CRS.nrows at hn hrow
  simp only at hn hrow
  apply Array.ext hn
  intro i h1 h2
  have := hrow i h1
  unfold CRS.row at this
  simpa [Array.getD, h1, h2] using this

/-- **`split ∘ assemble = id`** on well-formed distributed matrices -/
theorem split_assemble (Ds : List (DistMat K)) (rp cp : List Nat) (h : DistWF Ds rp cp) :
    split (assemble Ds cp) rp cp = Ds := by
  apply List.ext_getElem?
  intro r
  by_cases hr : r < rp.length
  · have e1 : (split (assemble Ds cp) rp cp)[r]? = some (splitRank (assemble Ds cp) rp cp r) := by
      unfold split; rw [List.getElem?_map, List.getElem?_range hr]; rfl
    have hrD : r < Ds.length := by rw [h.len]; exact hr
    have e2 : Ds[r]? = some (Ds.getD r default) := by
      rw [List.getD_eq_getElem?_getD, List.getElem?_eq_getElem hrD]; rfl
    rw [e1, e2]
    congr 1
    have hrc : r < cp.length := by rw [← h.lenc]; exact hr
    have hw : dom rp (r + 1) - dom rp r = rp.getD r 0 := by rw [dom_succ rp r hr]; omega
    have hn := splitRank_nrows (assemble Ds cp) rp cp r
    have hrows : ∀ i, i < rp.getD r 0 →
        (splitRank (assemble Ds cp) rp cp r).loc.row i = (Ds.getD r default).loc.row i ∧
        (splitRank (assemble Ds cp) rp cp r).rem.row i = (Ds.getD r default).rem.row i := by
      intro i hi
      have hi' : i < dom rp (r + 1) - dom rp r := by rw [hw]; exact hi
      rw [splitRank_loc_row _ rp cp r i hi', splitRank_rem_row _ rp cp r i hi', assemble_row Ds rp cp h r i hr hi]
      exact locPart_globalRow cp r hrc _ _ (h.locLt r hr i) (h.remOut r hr i)
    have hloc : (splitRank (assemble Ds cp) rp cp r).loc = (Ds.getD r default).loc := by
      apply crs_ext_rows
      · unfold splitRank; simp only; rw [h.locCols r hr, dom_succ cp r hrc]; omega
      · rw [hn.1, hw, h.locRows r hr]
      · intro i hi; rw [hn.1, hw] at hi; exact (hrows i hi).1
    have hrem : (splitRank (assemble Ds cp) rp cp r).rem = (Ds.getD r default).rem := by
      apply crs_ext_rows
      · unfold splitRank; simp only; rw [h.remCols r hr]; rfl
      · rw [hn.2, hw, h.remRows r hr]
      · intro i hi; rw [hn.2, hw] at hi; exact (hrows i hi).2
    cases hD : Ds.getD r default with
    | mk l rm =>
      cases hS : splitRank (assemble Ds cp) rp cp r with
      | mk l' rm' =>
        rw [hD, hS] at hloc hrem
        simp only at hloc hrem
        rw [hloc, hrem]
  · rw [List.getElem?_eq_none (by rw [split_length]; omega), List.getElem?_eq_none (by rw [h.len]; omega)]

/-- the distribution of a matrix is a well-formed distributed matrix -/
theorem distWF_split (A : CRS K) (rp cp : List Nat) (h : PartOK A rp cp) : DistWF (split A rp cp) rp cp := by
  have hw : ∀ r, r < rp.length → dom rp (r + 1) - dom rp r = rp.getD r 0 := fun r hr => by rw [dom_succ rp r hr]; omega
  refine ⟨split_length A rp cp, h.len, ?_, ?_, ?_, ?_, ?_, ?_⟩
  · intro r hr; rw [split_getD A rp cp r hr, (splitRank_nrows A rp cp r).1, hw r hr]
  · intro r hr; rw [split_getD A rp cp r hr, (splitRank_nrows A rp cp r).2, hw r hr]
  · intro r hr; rw [split_getD A rp cp r hr]; unfold splitRank; simp only
    rw [dom_succ cp r (by rw [← h.len]; exact hr)]; omega
  · intro r hr; rw [split_getD A rp cp r hr]; unfold splitRank; simp only; exact h.cols.symm
  · intro r hr i cv hcv
    rw [split_getD A rp cp r hr] at hcv
    by_cases hi : i < dom rp (r + 1) - dom rp r
    · rw [splitRank_loc_row A rp cp r i hi] at hcv
      unfold locPart at hcv
      obtain ⟨a, ha, rfl⟩ := List.mem_map.1 hcv
      have hin := (List.mem_filter.1 ha).2
      unfold inRange at hin
      simp only [Bool.and_eq_true, decide_eq_true_eq] at hin
      rw [dom_succ cp r (by rw [← h.len]; exact hr)] at hin
      simp only; omega
    · have : (splitRank A rp cp r).loc.row i = [] :=
        CRS.row_ge _ i (by rw [(splitRank_nrows A rp cp r).1]; omega)
      rw [this] at hcv; cases hcv
  · intro r hr i cv hcv
    rw [split_getD A rp cp r hr] at hcv
    by_cases hi : i < dom rp (r + 1) - dom rp r
    · rw [splitRank_rem_row A rp cp r i hi] at hcv
      exact (mem_remPart hcv).2
    · have : (splitRank A rp cp r).rem.row i = [] :=
        CRS.row_ge _ i (by rw [(splitRank_nrows A rp cp r).2]; omega)
      rw [this] at hcv; cases hcv

end assemble

section assembleGet
variable {K : Type} [AddCommMonoid K]

theorem rowGet_globalRow_split (cb ce : Nat) (row : Row K) (j : Nat) :
    rowGet (globalRow cb (locPart cb ce row) (remPart cb ce row)) j = rowGet row j := by
  unfold globalRow locPart remPart
  rw [List.map_map]
  have e : (row.filter (fun cv => inRange cb ce cv.1)).map
      ((fun cv : Nat × K => (cv.1 + cb, cv.2)) ∘ fun cv => (cv.1 - cb, cv.2)) = row.filter (fun cv => inRange cb ce cv.1) := by
    have hid : ∀ cv ∈ row.filter (fun cv => inRange cb ce cv.1),
        ((fun cv : Nat × K => (cv.1 + cb, cv.2)) ∘ fun cv => (cv.1 - cb, cv.2)) cv = id cv := by
      intro cv hcv
      have hin := (List.mem_filter.1 hcv).2
      unfold inRange at hin
      simp only [Bool.and_eq_true, decide_eq_true_eq] at hin
      simp only [Function.comp, id]
      ext
      · simp only; omega
      · rfl
    rw [List.map_congr_left hid, List.map_id]
  rw [e]
  exact rowGet_perm (List.filter_append_perm (fun cv => inRange cb ce cv.1) row) j

/-- **the assembled distribution of `A` denotes `A`** (the rows are permuted: local entries first) -/
theorem assemble_split_get (A : CRS K) (rp cp : List Nat) (h : PartOK A rp cp) (i j : Nat) :
    (assemble (split A rp cp) cp).get i j = A.get i j := by
  have hwf := distWF_split A rp cp h
  by_cases hi : i < rp.sum
  · obtain ⟨r, hr, hlo, hhi⟩ := exists_owner rp i hi
    have hrow := assemble_row (split A rp cp) rp cp hwf r (i - dom rp r) hr
      (by rw [dom_succ rp r hr] at hhi; omega)
    rw [show dom rp r + (i - dom rp r) = i by omega] at hrow
    unfold CRS.get
    rw [hrow, split_getD A rp cp r hr,
      splitRank_loc_row A rp cp r _ (by omega), splitRank_rem_row A rp cp r _ (by omega),
      show dom rp r + (i - dom rp r) = i by omega]
    exact rowGet_globalRow_split _ _ _ j
  · unfold CRS.get
    rw [CRS.row_ge _ i (by rw [assemble_nrows _ rp cp hwf]; omega), CRS.row_ge A i (by rw [← h.rows]; omega)]

end assembleGet

end Amgcl.Dist
