import Amgcl.Model.CApiTable
import Amgcl.Proofs.CApiView
/-!
# C20 — helper lemmas for the entry-point table (`Model/CApiTable.lean`)

* `stdTuple_view`: the view denoted by THE crs tuple (as an extracted `TupleSpec`) is `mkView` of `Model/CApi.lean`;
* unpacking of `Table.check` into per-entry facts;
* per body shape: the extracted handle footprint is the declared one.
-/
namespace Amgcl.CApi

section view
variable {K : Type}

theorem stdTuple_view (s : SizeE) (p : Nat) (β : Int) (n : Nat) (ptr col : Array Int) (val : Array K) :
    (stdTuple s p β).view n ptr col val = mkView β n ptr col val := by
  unfold TupleSpec.view mkView stdTuple
  simp only [Off.eval, if_true]
  cases h : rd ptr (n : Int) with
  | none => simp [h]
  | some pn => simp [h]

end view

/-! ## unpacking `Table.check` -/

structure EntryOk (t : Table) (e : Entry) : Prop where
  name : e.nameOk = true
  decl : e.declOk = true
  verb : e.verbOk = true
  body : e.bodyOk t = true
  twin : e.twinOk t = true

theorem Table.Consistent.entry {t : Table} (h : t.Consistent) {e : Entry} (he : e ∈ t.entries) : EntryOk t e := by
  unfold Table.Consistent Table.check at h
  simp only [Bool.and_eq_true, List.all_eq_true] at h
  obtain ⟨⟨_, hall⟩, _⟩ := h
  have := hall e he
  exact ⟨this.1.1.1.1, this.1.1.1.2, this.1.1.2, this.1.2, this.2⟩

theorem Table.Consistent.families {t : Table} (h : t.Consistent) (k : Kind) :
    (∃ e ∈ t.entries, e.body.creates = some k) ∧ (∃ e ∈ t.entries, e.body.destroys = some k) := by
  unfold Table.Consistent Table.check at h
  simp only [Bool.and_eq_true, List.all_eq_true, List.any_eq_true, beq_iff_eq] at h
  have := h.2 k (by cases k <;> simp)
  exact this

theorem Table.find?_mem {t : Table} {name : String} {e : Entry} (h : t.find? name = some e) :
    e ∈ t.entries ∧ e.name = name := by
  unfold Table.find? at h
  have h1 := List.mem_of_find?_eq_some h
  have h2 := List.find?_some h
  exact ⟨h1, by simpa using h2⟩

/-! ## what `bodyOk` says per shape -/

/-- an extracted tuple of a consistent table is THE crs tuple over parameters 1, 2, 3 with the base of the name -/
theorem EntryOk.tuple_std {t : Table} {e : Entry} (h : EntryOk t e) {A : TupleSpec} (hA : e.body.tuple? = some A) :
    ∃ s, A = stdTuple s 1 e.base := by
  have hb := h.body
  unfold Entry.bodyOk at hb
  generalize hbd : e.body = b at hb hA
  cases b with
  | create k A' prm g =>
    simp only [Body.tuple?, Option.some.injEq] at hA
    subst hA
    simp only [Bool.and_eq_true, beq_iff_eq] at hb
    exact ⟨_, hb.2⟩
  | solve k h' A' r x f =>
    simp only [Body.tuple?] at hA
    subst hA
    simp only [Bool.and_eq_true, beq_iff_eq] at hb
    exact ⟨_, hb.2.1.1.1⟩
  | _ => simp [Body.tuple?] at hA

/-! ## handle footprints -/

theorem handleParams_of_types (e : Entry) (l : List CType) (h : e.types = l) :
    e.handleParams = (List.range l.length).filter (fun i => l[i]? == some CType.handle) := by
  unfold Entry.handleParams
  have : e.params.length = l.length := by rw [← h]; simp [Entry.types]
  rw [this, h]

theorem verb_flags {e : Entry} (h : e.verbOk = true) :
    (e.verb == "create") = e.body.creates.isSome ∧ (e.verb == "destroy") = e.body.destroys.isSome := by
  unfold Entry.verbOk at h
  simp only [Bool.and_eq_true, beq_iff_eq] at h
  exact h

/-- for a body that is not a `forward`: the extracted footprint is the declared call -/
theorem nonforward_call_eq_declared {t : Table} {e : Entry} (ok : EntryOk t e) (hnf : e.body.isForward = false)
    (hs : List (Option Nat)) :
    (if hs.length ≠ e.handleParams.length then none else e.body.call (e.argOf hs))
      = declaredCall e.family e.verb hs := by
  have hb := ok.body
  obtain ⟨hc, hd⟩ := verb_flags ok.verb
  unfold Entry.bodyOk at hb
  unfold declaredCall Entry.argOf
  generalize hbd : e.body = b at hb hnf hc hd
  cases b with
  | paramsNew =>
    simp only [Bool.and_eq_true, beq_iff_eq, Bool.not_eq_true'] at hb
    obtain ⟨⟨⟨hfam, hty⟩, _⟩, _⟩ := hb
    have hp : e.handleParams = [] := by rw [handleParams_of_types e _ hty]; rfl
    rw [hp, hfam]
    simp only [Body.creates, Option.isSome_some] at hc
    rw [hc]
    cases hs <;> simp [Body.call]
  | put h nm v =>
    simp only [Bool.and_eq_true, beq_iff_eq, Bool.or_eq_true, Bool.not_eq_true'] at hb
    obtain ⟨⟨⟨⟨⟨⟨hfam, hh⟩, _⟩, _⟩, _⟩, _⟩, hty⟩ := hb
    simp only [Body.creates, Body.destroys, Option.isSome_none] at hc hd
    rw [hc, hd, hfam, hh]
    have hp : e.handleParams = [0] := by
      rcases hty with (hty | hty) | hty <;> rw [handleParams_of_types e _ hty] <;> rfl
    rw [hp]
    (match hs with
       | [] => simp [Body.call]
       | [none] => simp [Body.call, List.idxOf?]
       | [some a] => simp [Body.call, List.idxOf?]
       | _ :: _ :: _ => simp [Body.call])
  | readJson h f =>
    simp only [Bool.and_eq_true, beq_iff_eq, Bool.not_eq_true'] at hb
    obtain ⟨⟨⟨⟨⟨hfam, hh⟩, _⟩, hty⟩, _⟩, _⟩ := hb
    simp only [Body.creates, Body.destroys, Option.isSome_none] at hc hd
    have hp : e.handleParams = [0] := by rw [handleParams_of_types e _ hty]; rfl
    rw [hc, hd, hfam, hh, hp]
    match hs with
    | [] => simp [Body.call]
    | [none] => simp [Body.call, List.idxOf?]
    | [some a] => simp [Body.call, List.idxOf?]
    | _ :: _ :: _ => simp [Body.call]
  | destroy k h =>
    simp only [Bool.and_eq_true, beq_iff_eq, Bool.not_eq_true'] at hb
    obtain ⟨⟨⟨⟨hfam, hh⟩, hty⟩, _⟩, _⟩ := hb
    simp only [Body.creates, Body.destroys, Option.isSome_none, Option.isSome_some] at hc hd
    have hcd : (e.verb == "create") = false := hc
    have hp : e.handleParams = [0] := by rw [handleParams_of_types e _ hty]; rfl
    rw [hcd, hd, ← hfam, hh, hp]
    match hs with
    | [] => simp [Body.call]
    | [none] => simp [Body.call, List.idxOf?]
    | [some a] => simp [Body.call, List.idxOf?]
    | _ :: _ :: _ => simp [Body.call]
  | create k A prm g =>
    simp only [Bool.and_eq_true, beq_iff_eq, bne_iff_ne, ne_eq] at hb
    obtain ⟨⟨⟨⟨⟨⟨hfam, hk⟩, hty⟩, _⟩, hprm⟩, hg⟩, _⟩ := hb
    simp only [Body.creates, Option.isSome_some] at hc
    have hp : e.handleParams = [4] := by rw [handleParams_of_types e _ hty]; rfl
    rw [hc, ← hfam, hprm, hg, hp]
    cases k with
    | params => exact absurd rfl hk
    | precond =>
      match hs with
      | [] => simp [Body.call]
      | [none] => simp [Body.call, List.idxOf?]
      | [some a] => simp [Body.call, List.idxOf?]
      | _ :: _ :: _ => simp [Body.call]
    | solver =>
      match hs with
      | [] => simp [Body.call]
      | [none] => simp [Body.call, List.idxOf?]
      | [some a] => simp [Body.call, List.idxOf?]
      | _ :: _ :: _ => simp [Body.call]
  | apply k h r x =>
    simp only [Bool.and_eq_true, beq_iff_eq, Bool.not_eq_true'] at hb
    obtain ⟨⟨⟨⟨⟨⟨⟨hfam, _⟩, hh⟩, hty⟩, _⟩, _⟩, _⟩, _⟩ := hb
    simp only [Body.creates, Body.destroys, Option.isSome_none] at hc hd
    have hp : e.handleParams = [0] := by rw [handleParams_of_types e _ hty]; rfl
    rw [hc, hd, ← hfam, hh, hp]
    match hs with
    | [] => simp [Body.call]
    | [none] => simp [Body.call, List.idxOf?]
    | [some a] => simp [Body.call, List.idxOf?]
    | _ :: _ :: _ => simp [Body.call]
  | report k h w en =>
    simp only [Bool.and_eq_true, beq_iff_eq, Bool.not_eq_true'] at hb
    obtain ⟨⟨⟨⟨⟨⟨⟨hfam, _⟩, hh⟩, hty⟩, _⟩, _⟩, _⟩, _⟩ := hb
    simp only [Body.creates, Body.destroys, Option.isSome_none] at hc hd
    have hp : e.handleParams = [0] := by rw [handleParams_of_types e _ hty]; rfl
    rw [hc, hd, ← hfam, hh, hp]
    match hs with
    | [] => simp [Body.call]
    | [none] => simp [Body.call, List.idxOf?]
    | [some a] => simp [Body.call, List.idxOf?]
    | _ :: _ :: _ => simp [Body.call]
  | solve k h A r x f =>
    simp only [Body.creates, Body.destroys, Option.isSome_none] at hc hd
    simp only [Bool.and_eq_true, beq_iff_eq] at hb
    obtain ⟨⟨⟨hfam, _⟩, hh⟩, hrest⟩ := hb
    rw [hc, hd, ← hfam, hh]
    have hty : e.handleParams = [0] := by
      cases A with
      | none =>
        simp only [Bool.and_eq_true, beq_iff_eq] at hrest
        rw [handleParams_of_types e _ hrest.1.1.1.1.1]; rfl
      | some T =>
        simp only [Bool.and_eq_true, beq_iff_eq] at hrest
        obtain ⟨_, hif⟩ := hrest
        split at hif
        · simp only [Bool.and_eq_true, beq_iff_eq] at hif
          rw [handleParams_of_types e _ hif.1.1]; rfl
        · simp only [Bool.and_eq_true, beq_iff_eq] at hif
          rw [handleParams_of_types e _ hif.1.1]; rfl
    rw [hty]
    match hs with
    | [] => simp [Body.call]
    | [none] => simp [Body.call, List.idxOf?]
    | [some a] => simp [Body.call, List.idxOf?]
    | _ :: _ :: _ => simp [Body.call]
  | forward c a f => simp [Body.isForward] at hnf

theorem handleParams_append_convInfoP (e c : Entry) (h : e.types = c.types ++ [CType.convInfoP]) :
    e.handleParams = c.handleParams := by
  rw [handleParams_of_types e _ h, handleParams_of_types c _ rfl]
  simp only [List.length_append, List.length_singleton, List.range_succ, List.filter_append]
  have h1 : List.filter (fun i => (c.types ++ [CType.convInfoP])[i]? == some CType.handle) [c.types.length] = [] := by
    simp
  rw [h1, List.append_nil]
  apply List.filter_congr
  intro i hi
  rw [List.mem_range] at hi
  rw [List.getElem?_append_left hi]

/-- **the extracted footprint of every entry point is the declared one** -/
theorem call_eq_declared {t : Table} (ht : t.Consistent) (c : ApiCall) : t.call c = t.declared c := by
  unfold Table.call Table.declared
  cases hf : t.find? c.name with
  | none => rfl
  | some e =>
    obtain ⟨hmem, _⟩ := Table.find?_mem hf
    have ok := ht.entry hmem
    simp only
    by_cases hfw : e.body.isForward = false
    · have : t.resolve e = e.body := by
        unfold Table.resolve
        cases hb : e.body <;> simp_all [Body.isForward]
      rw [this]
      exact nonforward_call_eq_declared ok hfw c.handles
    · -- `forward`: the callee is a consistent non-forward entry of the same family and verb with the same handles
      have hb := ok.body
      unfold Entry.bodyOk at hb
      unfold Table.resolve
      cases hbd : e.body with
      | forward callee args fill =>
        rw [hbd] at hb
        simp only at hb ⊢
        cases hc : t.find? callee with
        | none => rw [hc] at hb; simp at hb
        | some ce =>
          rw [hc] at hb
          simp only [Bool.and_eq_true, beq_iff_eq, Bool.not_eq_true'] at hb
          obtain ⟨_, ⟨⟨⟨⟨⟨⟨⟨⟨_, hfam⟩, hverb⟩, _⟩, hnf⟩, _⟩, _⟩, hty⟩, _⟩⟩ := hb
          have okc := ht.entry (Table.find?_mem hc).1
          have hp := handleParams_append_convInfoP e ce hty
          have := nonforward_call_eq_declared okc hnf c.handles
          have harg : e.argOf c.handles = ce.argOf c.handles := by
            funext i; unfold Entry.argOf; rw [hp]
          rw [hp, harg, this, hfam, hverb]
      | _ => simp_all [Body.isForward]

/-! ## twins -/

theorem EntryOk.twin_exists {t : Table} {e : Entry} (ok : EntryOk t e) (hf : e.fortran = true) :
    ∃ e0 ∈ t.entries, e0.family = e.family ∧ e0.verb = e.verb ∧ e0.fortran = false
      ∧ (t.resolve e).cppCall = (t.resolve e0).cppCall := by
  have h := ok.twin
  unfold Entry.twinOk at h
  simp only [hf, Bool.not_true, Bool.false_or, List.any_eq_true, Bool.and_eq_true, beq_iff_eq,
    Bool.not_eq_true'] at h
  obtain ⟨e0, hm, ⟨⟨⟨h1, h2⟩, h3⟩, h4⟩⟩ := h
  exact ⟨e0, hm, h1, h2, h3, h4⟩

theorem EntryOk.nonfortran_not_forward {t : Table} {e : Entry} (ok : EntryOk t e) (hf : e.fortran = false) :
    e.body.isForward = false := by
  have hb := ok.body
  unfold Entry.bodyOk at hb
  cases hbd : e.body with
  | forward c a f => rw [hbd] at hb; simp [hf] at hb
  | _ => rfl

theorem resolve_of_not_forward (t : Table) (e : Entry) (h : e.body.isForward = false) : t.resolve e = e.body := by
  unfold Table.resolve
  cases hb : e.body <;> simp_all [Body.isForward]

def CppCall.hasMatrix (c : CppCall) : Bool :=
  match c.args with
  | .matrix _ _ _ _ :: _ => true
  | _ => false

theorem hasMatrix_cppCall (b : Body) : b.cppCall.hasMatrix = b.tuple?.isSome := by
  cases b with
  | solve k h A r x f => cases A <;> rfl
  | _ => rfl

/-- two bodies with the same C++ call (callee + argument roles) both take a matrix or both do not -/
theorem tuple_of_cppCall_eq {b b' : Body} (h : b.cppCall = b'.cppCall) {A : TupleSpec} (hA : b.tuple? = some A) :
    ∃ A0, b'.tuple? = some A0 := by
  have h1 := hasMatrix_cppCall b
  have h2 := hasMatrix_cppCall b'
  rw [h, h2, hA] at h1
  exact Option.isSome_iff_exists.1 h1

theorem EntryOk.forward_resolve_tuple_none {t : Table} {e : Entry} (ok : EntryOk t e)
    (hfw : e.body.isForward = true) : (t.resolve e).tuple? = none := by
  have hb := ok.body
  unfold Entry.bodyOk at hb
  unfold Table.resolve
  cases hbd : e.body with
  | forward callee args fill =>
    rw [hbd] at hb
    simp only at hb ⊢
    cases hc : t.find? callee with
    | none => rfl
    | some ce =>
      rw [hc] at hb
      simp only [Bool.and_eq_true, beq_iff_eq, Bool.not_eq_true', Option.isNone_iff_eq_none] at hb
      exact hb.2.1.1.1.2
  | _ => simp_all [Body.isForward]

/-- only the solver family returns `conv_info` -/
theorem EntryOk.ret_convInfo_solver {t : Table} {e : Entry} (ok : EntryOk t e) (hret : e.ret = .convInfo)
    (hnf : e.body.isForward = false) : e.family = .solver := by
  have hb := ok.body
  unfold Entry.bodyOk at hb
  cases hbd : e.body with
  | solve k h A r x f =>
    rw [hbd] at hb
    simp only [Bool.and_eq_true, beq_iff_eq] at hb
    rw [← hb.1.1.1, hb.1.1.2]
  | forward c a f => rw [hbd] at hnf; simp [Body.isForward] at hnf
  | _ => rw [hbd] at hb; simp [hret] at hb

/-- in the parameter family a consistent entry with three parameters is a typed setter: `put(name, value)` -/
theorem setter_is_put {t : Table} (ht : t.Consistent) {e : Entry} (he : e ∈ t.entries) (hfam : e.family = .params)
    (h3 : e.params.length = 3) :
    e.body = .put 0 1 2 ∧ (e.types = [.handle, .cstr, .int] ∨ e.types = [.handle, .cstr, .float]
      ∨ e.types = [.handle, .cstr, .cstr]) := by
  have ok := ht.entry he
  have hb := ok.body
  unfold Entry.bodyOk at hb
  have hlen : e.types.length = 3 := by simp [Entry.types, h3]
  cases hbd : e.body with
  | put h nm v =>
    rw [hbd] at hb
    simp only [Bool.and_eq_true, beq_iff_eq, Bool.or_eq_true, Bool.not_eq_true'] at hb
    obtain ⟨⟨⟨⟨⟨⟨_, hh⟩, hn⟩, hv⟩, _⟩, _⟩, hty⟩ := hb
    subst hh hn hv
    exact ⟨rfl, by rcases hty with (h | h) | h <;> simp [h]⟩
  | paramsNew => rw [hbd] at hb; simp at hb; rw [hb.1.1.2] at hlen; simp at hlen
  | readJson h f => rw [hbd] at hb; simp at hb; rw [hb.1.1.2] at hlen; simp at hlen
  | destroy k h => rw [hbd] at hb; simp at hb; rw [hb.1.1.2] at hlen; simp at hlen
  | create k A prm g => rw [hbd] at hb; simp [hfam] at hb
  | apply k h r x =>
    rw [hbd] at hb; simp [hfam] at hb
    obtain ⟨⟨⟨⟨⟨⟨⟨h1, h2⟩, _⟩, _⟩, _⟩, _⟩, _⟩, _⟩ := hb
    rw [h1] at h2; exact Kind.noConfusion h2
  | report k h w en => rw [hbd] at hb; simp [hfam] at hb
  | solve k h A r x f =>
    rw [hbd] at hb; simp [hfam] at hb
    obtain ⟨⟨⟨h1, h2⟩, _⟩, _⟩ := hb
    rw [h1] at h2; exact Kind.noConfusion h2
  | forward c a f =>
    rw [hbd] at hb
    simp only [Bool.and_eq_true] at hb
    cases hc : t.find? c with
    | none => rw [hc] at hb; simp at hb
    | some ce =>
      -- the callee returns conv_info and is in the same family: impossible in the parameter family
      exfalso
      rw [hc] at hb
      simp only [Bool.and_eq_true, beq_iff_eq, Bool.not_eq_true'] at hb
      obtain ⟨_, ⟨⟨⟨⟨⟨⟨⟨⟨_, hcf⟩, _⟩, hret⟩, hnf⟩, _⟩, _⟩, _⟩, _⟩⟩ := hb
      have okc := ht.entry (Table.find?_mem hc).1
      have := okc.ret_convInfo_solver hret hnf
      rw [hcf, hfam] at this
      exact Kind.noConfusion this

end Amgcl.CApi
