import Amgcl.Proofs.SkylineFactor
import Mathlib.Algebra.Module.Defs
import Mathlib.Algebra.Module.BigOperators
import Mathlib.Algebra.BigOperators.GroupWithZero.Action
/-!
`skyline_lu::operator()` for a NON-COMMUTATIVE value type (block values `static_matrix<T,N,N>` with right-hand sides
`static_matrix<T,N,1>`): the values live in an arbitrary ring `K`, the right-hand sides in a `K`-module `R`, the product
`V * R → R` of the model (`HMul V R R`) is the scalar action.  Every product is kept on the side the code writes it:
`L[k] * y[j]`, `D[i] * sum`, `U[k] * y[j]` (skyline_lu.hpp:184-197).  The pivots are NOT recovered from the stored
inverted `D`: the lower factor `Lt pv` carries a pivot function `pv` and the only algebraic fact used about `D` is
`pv i * D[i] = 1` (the stored `D[i]` is a RIGHT inverse of the pivot).

Copy of part B of `Proofs/SkylineSolve.lean` (which needs a field) with the commutative steps removed.
-/
namespace Amgcl
open Arr2
open Finset
namespace SkyNC
open Skyline

/-- the product `V * R → R` of the model read as the scalar action of a module -/
@[reducible] def smulHMul (K R : Type) [SMul K R] : HMul K R R := ⟨fun a x => a • x⟩

section defs
variable {K R : Type} [Zero K]

/-- dense embedding of the strictly lower rows -/
def Ld (S : Skyline K R) (i j : Nat) : K :=
  if j < i ∧ i ≤ j + (S.P (i + 1) - S.P i) then S.L.getD (S.P (i + 1) + j - i) 0 else 0
/-- dense embedding of the strictly upper columns -/
def Ud (S : Skyline K R) (i j : Nat) : K :=
  if i < j ∧ j ≤ i + (S.P (j + 1) - S.P j) then S.U.getD (S.P (j + 1) + i - j) 0 else 0
/-- the stored (inverted) pivots -/
def Dd (S : Skyline K R) (i : Nat) : K := S.D.getD i 0

end defs

/-- re-indexing a profile segment by the column / row index it stands for -/
theorem sum_profile {M : Type} [AddCommMonoid M] (b h i : Nat) (hh : h ≤ i) (f : Nat → Nat → M) :
    ∑ k ∈ Ico b (b + h), f k (i + k - (b + h)) = ∑ j ∈ Ico (i - h) i, f (b + h + j - i) j := by
  refine sum_nbij' (fun k => i + k - (b + h)) (fun j => b + h + j - i) ?_ ?_ ?_ ?_ ?_
  · intro k hk; have := mem_Ico.mp hk; exact mem_Ico.mpr (by omega)
  · intro j hj; have := mem_Ico.mp hj; exact mem_Ico.mpr (by omega)
  · intro k hk; have := mem_Ico.mp hk; show b + h + (i + k - (b + h)) - i = k; omega
  · intro j hj; have := mem_Ico.mp hj; show i + (b + h + j - i) - (b + h) = j; omega
  · intro k hk; have := mem_Ico.mp hk
    have e : b + h + (i + k - (b + h)) - i = k := by omega
    show f k (i + k - (b + h)) = f (b + h + (i + k - (b + h)) - i) (i + k - (b + h))
    rw [e]

section module
variable {K R : Type} [Ring K] [AddCommGroup R] [Module K R]
attribute [local instance] smulHMul

theorem sum_Ld (S : Skyline K R) (i : Nat) (h1 : S.P i ≤ S.P (i + 1)) (h2 : S.P (i + 1) - S.P i ≤ i) (y : Nat → R) :
    ∑ k ∈ Ico (S.P i) (S.P (i + 1)), S.L.getD k 0 • y (i + k - S.P (i + 1)) = ∑ j ∈ range i, Ld S i j • y j := by
  have e : S.P (i + 1) = S.P i + (S.P (i + 1) - S.P i) := by omega
  generalize S.P (i + 1) - S.P i = h at e h2
  rw [e, sum_profile (S.P i) h i h2 (fun k j => S.L.getD k 0 • y j)]
  rw [range_eq_Ico, ← sum_Ico_consecutive _ (Nat.zero_le (i - h)) (Nat.sub_le i h)]
  have z : ∑ j ∈ Ico 0 (i - h), Ld S i j • y j = 0 := by
    apply sum_eq_zero; intro j hj
    have := mem_Ico.mp hj
    unfold Ld
    rw [if_neg (by rw [e]; omega), zero_smul]
  rw [z, zero_add]
  apply sum_congr rfl; intro j hj
  have := mem_Ico.mp hj
  unfold Ld
  rw [if_pos (by rw [e]; omega), e]

/-- forward loop: every entry satisfies the row equation in terms of the new entries (`y[i] = D[i] * sum`) -/
theorem fwdLoop_spec (S : Skyline K R) (rhs y : Array R) (hwf : S.WFProfile) (hy : y.size = S.n) (m : Nat) (hm : m ≤ S.n) :
    ((List.range m).foldl (fwdStep S rhs) y).size = S.n ∧
    (∀ i, i < m → ((List.range m).foldl (fwdStep S rhs) y).getD i 0
        = Dd S i • (rhs.getD (S.perm.getD i 0) 0
            - ∑ j ∈ range i, Ld S i j • ((List.range m).foldl (fwdStep S rhs) y).getD j 0)) := by
  induction m with
  | zero => exact ⟨by simpa using hy, by intro i hi; omega⟩
  | succ m ih =>
    obtain ⟨hs, hg⟩ := ih (by omega)
    rw [List.range_succ, List.foldl_append]
    simp only [List.foldl_cons, List.foldl_nil]
    generalize (List.range m).foldl (fwdStep S rhs) y = T at hs hg ⊢
    obtain ⟨h1, h2⟩ := hwf m (by omega)
    have hval : (fwdStep S rhs T m).getD m 0
        = Dd S m • (rhs.getD (S.perm.getD m 0) 0 - ∑ j ∈ range m, Ld S m j • T.getD j 0) := by
      unfold fwdStep
      simp only
      rw [getD_setIfInBounds_self _ _ _ (by omega)]
      have hf := foldl_sub_range' (fun k => S.L.getD k 0 • T.getD (m + k - S.P (m + 1)) 0) (S.P m) (S.P (m + 1) - S.P m)
        (rhs.getD (S.perm.getD m 0) 0)
      have e : S.P m + (S.P (m + 1) - S.P m) = S.P (m + 1) := by omega
      rw [e, sum_Ld S m h1 h2 (fun j => T.getD j 0)] at hf
      show S.D.getD m 0 • (List.range' (S.P m) (S.P (m + 1) - S.P m)).foldl
        (fun s k => s - S.L.getD k 0 • T.getD (m + k - S.P (m + 1)) 0) (rhs.getD (S.perm.getD m 0) 0) = _
      rw [hf]
      rfl
    have hold : ∀ j, j ≠ m → (fwdStep S rhs T m).getD j 0 = T.getD j 0 := by
      intro j hj
      unfold fwdStep; simp only
      exact getD_setIfInBounds_ne _ _ _ (fun e => hj e.symm)
    refine ⟨by rw [size_fwdStep]; exact hs, ?_⟩
    intro i hi
    have hsum : ∀ i0, i0 ≤ m → ∑ j ∈ range i0, Ld S i0 j • (fwdStep S rhs T m).getD j 0
        = ∑ j ∈ range i0, Ld S i0 j • T.getD j 0 := by
      intro i0 hi0
      apply sum_congr rfl; intro j hj
      have := mem_range.mp hj
      rw [hold j (by omega)]
    by_cases him : i = m
    · subst him; rw [hval, hsum i (le_refl i)]
    · rw [hold i him, hsum i (by omega)]; exact hg i (by omega)

/-- the `k` loop of one column of the backward substitution after `len` iterations (`y[i] -= U[k] * y[j]`) -/
theorem bwdInner_spec (S : Skyline K R) (y : Array R) (j : Nat) (hy : y.size = S.n) (hj : j < S.n)
    (h1 : S.P j ≤ S.P (j + 1)) (h2 : S.P (j + 1) - S.P j ≤ j) (len : Nat) (hlen : len ≤ S.P (j + 1) - S.P j) :
    ((List.range' (S.P j) len).foldl (fun y k =>
        y.setIfInBounds (j + k - S.P (j + 1)) (y.getD (j + k - S.P (j + 1)) 0 - S.U.getD k 0 • y.getD j 0)) y).size = S.n ∧
    ∀ i, ((List.range' (S.P j) len).foldl (fun y k =>
        y.setIfInBounds (j + k - S.P (j + 1)) (y.getD (j + k - S.P (j + 1)) 0 - S.U.getD k 0 • y.getD j 0)) y).getD i 0
      = if j + S.P j ≤ i + S.P (j + 1) ∧ i + S.P (j + 1) < j + S.P j + len
        then y.getD i 0 - S.U.getD (S.P (j + 1) + i - j) 0 • y.getD j 0 else y.getD i 0 := by
  induction len with
  | zero =>
    refine ⟨by simpa using hy, ?_⟩
    intro i
    rw [if_neg (by omega)]; rfl
  | succ len ih =>
    obtain ⟨hs, hg⟩ := ih (by omega)
    rw [List.range'_concat, List.foldl_append]
    simp only [List.foldl_cons, List.foldl_nil, Nat.one_mul]
    generalize (List.range' (S.P j) len).foldl _ y = T at hs hg ⊢
    refine ⟨by rw [Array.size_setIfInBounds]; exact hs, ?_⟩
    intro i
    rw [getD_setIfInBounds]
    have hidx : j + (S.P j + len) - S.P (j + 1) < j := by omega
    by_cases hi : j + (S.P j + len) - S.P (j + 1) = i
    · rw [if_pos ⟨hi, by rw [hs]; omega⟩, hg (j + (S.P j + len) - S.P (j + 1)), hg j]
      rw [if_neg (by omega), if_neg (by omega), if_pos (by omega)]
      subst hi
      congr 3
      omega
    · rw [if_neg (fun e => hi e.1), hg i]
      by_cases hc : j + S.P j ≤ i + S.P (j + 1) ∧ i + S.P (j + 1) < j + S.P j + len
      · rw [if_pos hc, if_pos (by omega)]
      · rw [if_neg hc, if_neg (by omega)]

theorem bwdStep_spec (S : Skyline K R) (y : Array R) (j : Nat) (hy : y.size = S.n) (hj : j < S.n) (hwf : S.WFProfile) :
    (bwdStep S y j).size = S.n ∧ ∀ i, (bwdStep S y j).getD i 0 = y.getD i 0 - Ud S i j • y.getD j 0 := by
  obtain ⟨h1, h2⟩ := hwf j hj
  obtain ⟨hs, hg⟩ := bwdInner_spec S y j hy hj h1 h2 (S.P (j + 1) - S.P j) (le_refl _)
  unfold bwdStep
  refine ⟨hs, ?_⟩
  intro i
  refine (hg i).trans ?_
  unfold Ud
  by_cases hc : i < j ∧ j ≤ i + (S.P (j + 1) - S.P j)
  · rw [if_pos (by omega), if_pos hc]
  · rw [if_neg (by omega), if_neg hc, zero_smul, sub_zero]

/-- backward loop over the columns `m-1, …, 0`, started from any `y` -/
theorem bwdLoop_spec (S : Skyline K R) (hwf : S.WFProfile) (m : Nat) (hm : m ≤ S.n) :
    ∀ y : Array R, y.size = S.n →
    ((List.range m).reverse.foldl (bwdStep S) y).size = S.n ∧
    ∀ i, ((List.range m).reverse.foldl (bwdStep S) y).getD i 0
      = y.getD i 0 - ∑ j ∈ Ico (i + 1) m, Ud S i j • ((List.range m).reverse.foldl (bwdStep S) y).getD j 0 := by
  induction m with
  | zero =>
    intro y hy
    refine ⟨by simpa using hy, ?_⟩
    intro i; simp
  | succ m ih =>
    intro y hy
    rw [List.range_succ, List.reverse_append]
    simp only [List.reverse_cons, List.reverse_nil, List.nil_append, List.cons_append, List.foldl_cons]
    obtain ⟨hs1, hg1⟩ := bwdStep_spec S y m hy (by omega) hwf
    obtain ⟨hs, hg⟩ := ih (by omega) (bwdStep S y m) hs1
    generalize (List.range m).reverse.foldl (bwdStep S) (bwdStep S y m) = X at hs hg ⊢
    refine ⟨hs, ?_⟩
    have hXm : X.getD m 0 = y.getD m 0 := by
      rw [hg m, hg1 m]
      have : Ico (m + 1) m = ∅ := Ico_eq_empty (by omega)
      rw [this, sum_empty, sub_zero]
      unfold Ud; rw [if_neg (by omega), zero_smul, sub_zero]
    intro i
    rw [hg i, hg1 i]
    by_cases him : i < m
    · rw [sum_Ico_succ_top (by omega), hXm]; abel
    · have e1 : Ico (i + 1) m = ∅ := Ico_eq_empty (by omega)
      have e2 : Ico (i + 1) (m + 1) = ∅ := Ico_eq_empty (by omega)
      rw [e1, e2, sum_empty, sub_zero, sub_zero]
      unfold Ud; rw [if_neg (by omega), zero_smul, sub_zero]

/-- the scatter loop `x[perm[i]] = y[i]` -/
theorem scatter_spec (n : Nat) (perm : Array Nat) (y x : Array R) (hp : PermOn n perm) (hx : x.size = n) (m : Nat) (hm : m ≤ n) :
    ((List.range m).foldl (fun x i => x.setIfInBounds (perm.getD i 0) (y.getD i 0)) x).size = n ∧
    (∀ i, i < m → ((List.range m).foldl (fun x i => x.setIfInBounds (perm.getD i 0) (y.getD i 0)) x).getD (perm.getD i 0) 0
        = y.getD i 0) ∧
    (∀ r, (∀ i, i < m → perm.getD i 0 ≠ r) →
      ((List.range m).foldl (fun x i => x.setIfInBounds (perm.getD i 0) (y.getD i 0)) x).getD r 0 = x.getD r 0) := by
  induction m with
  | zero => exact ⟨by simpa using hx, by intro i hi; omega, by intro r _; rfl⟩
  | succ m ih =>
    obtain ⟨hs, hin, hout⟩ := ih (by omega)
    rw [List.range_succ, List.foldl_append]
    simp only [List.foldl_cons, List.foldl_nil]
    generalize (List.range m).foldl _ x = T at hs hin hout ⊢
    refine ⟨by rw [Array.size_setIfInBounds]; exact hs, ?_, ?_⟩
    · intro i hi
      rw [getD_setIfInBounds]
      by_cases him : i = m
      · subst him; rw [if_pos ⟨rfl, by rw [hs]; exact hp.lt i (by omega)⟩]
      · have : perm.getD m 0 ≠ perm.getD i 0 := by
          intro e; have := hp.inj _ _ (by omega) (by omega) e; omega
        rw [if_neg (fun e => this e.1)]
        exact hin i (by omega)
    · intro r hr
      rw [getD_setIfInBounds, if_neg (fun e => hr m (by omega) e.1)]
      exact hout r (fun i hi => hr i (by omega))

/-- lower factor with the pivots `pv` on the diagonal -/
def Lt (pv : Nat → K) (S : Skyline K R) (i m : Nat) : K := if m < i then Ld S i m else if m = i then pv i else 0
/-- unit upper factor -/
def Ut (S : Skyline K R) (m j : Nat) : K := if m < j then Ud S m j else if m = j then 1 else 0

theorem sum_Lt (pv : Nat → K) (S : Skyline K R) (i : Nat) (hi : i < S.n) (y : Nat → R) :
    ∑ m ∈ range S.n, Lt pv S i m • y m = ∑ m ∈ range i, Ld S i m • y m + pv i • y i := by
  rw [range_eq_Ico, ← sum_Ico_consecutive _ (Nat.zero_le i) (le_of_lt hi), sum_eq_sum_Ico_succ_bot hi]
  have a : ∑ m ∈ Ico 0 i, Lt pv S i m • y m = ∑ m ∈ Ico 0 i, Ld S i m • y m := by
    apply sum_congr rfl; intro m hm; have := (mem_Ico.mp hm).2; unfold Lt; rw [if_pos this]
  have b : Lt pv S i i = pv i := by unfold Lt; rw [if_neg (lt_irrefl i), if_pos rfl]
  have c : ∑ m ∈ Ico (i + 1) S.n, Lt pv S i m • y m = 0 := by
    apply sum_eq_zero; intro m hm; have := (mem_Ico.mp hm).1
    unfold Lt; rw [if_neg (by omega), if_neg (by omega), zero_smul]
  rw [a, b, c, add_zero, Nat.Ico_zero_eq_range]

theorem sum_Ut (S : Skyline K R) (m : Nat) (hm : m < S.n) (x : Nat → R) :
    ∑ j ∈ range S.n, Ut S m j • x j = x m + ∑ j ∈ Ico (m + 1) S.n, Ud S m j • x j := by
  rw [range_eq_Ico, ← sum_Ico_consecutive _ (Nat.zero_le m) (le_of_lt hm), sum_eq_sum_Ico_succ_bot hm]
  have a : ∑ j ∈ Ico 0 m, Ut S m j • x j = 0 := by
    apply sum_eq_zero; intro j hj; have := (mem_Ico.mp hj).2
    unfold Ut; rw [if_neg (by omega), if_neg (by omega), zero_smul]
  have b : Ut S m m = 1 := by unfold Ut; rw [if_neg (lt_irrefl m), if_pos rfl]
  have c : ∑ j ∈ Ico (m + 1) S.n, Ut S m j • x j = ∑ j ∈ Ico (m + 1) S.n, Ud S m j • x j := by
    apply sum_congr rfl; intro j hj; have := (mem_Ico.mp hj).1; unfold Ut; rw [if_pos (by omega)]
  rw [a, b, c, zero_add, one_smul]

/-- **`operator()` solves the system** whenever the stored factors satisfy the factorisation identity
`(P A Pᵀ)(i,j) = Σ_m L̃(i,m)·Ũ(m,j)` (products in this order) with pivots `pv` whose stored inverses are right
inverses: `pv i * D[i] = 1`.  No commutativity is used. -/
theorem solve_spec (pv : Nat → K) (S : Skyline K R) (A : Nat → Nat → K) (rhs x : Array R) (hwf : S.WFProfile)
    (hp : PermOn S.n S.perm) (hy : S.y.size = S.n) (hx : x.size = S.n) (hD : ∀ i, i < S.n → pv i * Dd S i = 1)
    (hfac : ∀ i j, i < S.n → j < S.n →
      A (S.perm.getD i 0) (S.perm.getD j 0) = ∑ m ∈ range S.n, Lt pv S i m * Ut S m j) :
    ∀ r, r < S.n → ∑ c ∈ range S.n, A r c • (solve S rhs x).1.getD c 0 = rhs.getD r 0 := by
  unfold solve
  simp only
  obtain ⟨hsY, hY⟩ := fwdLoop_spec S rhs S.y hwf hy S.n (le_refl _)
  generalize (List.range S.n).foldl (fwdStep S rhs) S.y = Y at hsY hY ⊢
  obtain ⟨hsX, hX⟩ := bwdLoop_spec S hwf S.n (le_refl _) Y hsY
  generalize (List.range S.n).reverse.foldl (bwdStep S) Y = X at hsX hX ⊢
  obtain ⟨hsO, hO, _⟩ := scatter_spec S.n S.perm X x hp hx S.n (le_refl _)
  generalize (List.range S.n).foldl (fun x i => x.setIfInBounds (S.perm.getD i 0) (X.getD i 0)) x = O at hsO hO ⊢
  -- L̃ Y = P b and Ũ X = Y
  have hLY : ∀ i, i < S.n → ∑ m ∈ range S.n, Lt pv S i m • Y.getD m 0 = rhs.getD (S.perm.getD i 0) 0 := by
    intro i hi
    rw [sum_Lt pv S i hi (fun m => Y.getD m 0)]
    show ∑ m ∈ range i, Ld S i m • Y.getD m 0 + pv i • Y.getD i 0 = _
    conv_lhs => rw [hY i hi]
    rw [← mul_smul, hD i hi, one_smul]
    abel
  have hUX : ∀ m, m < S.n → ∑ j ∈ range S.n, Ut S m j • X.getD j 0 = Y.getD m 0 := by
    intro m hm
    rw [sum_Ut S m hm (fun j => X.getD j 0), hX m]
    abel
  -- (P A Pᵀ) X = P b
  have hPA : ∀ i, i < S.n → ∑ j ∈ range S.n, A (S.perm.getD i 0) (S.perm.getD j 0) • X.getD j 0 = rhs.getD (S.perm.getD i 0) 0 := by
    intro i hi
    rw [← hLY i hi]
    have : ∀ j ∈ range S.n, A (S.perm.getD i 0) (S.perm.getD j 0) • X.getD j 0
        = ∑ m ∈ range S.n, Lt pv S i m • (Ut S m j • X.getD j 0) := by
      intro j hj
      rw [hfac i j hi (mem_range.mp hj), sum_smul]
      apply sum_congr rfl; intro m _; rw [mul_smul]
    rw [sum_congr rfl this, sum_comm]
    apply sum_congr rfl; intro m hm
    rw [← smul_sum, hUX m (mem_range.mp hm)]
  -- undo the permutation
  intro r hr
  obtain ⟨i, hi, rfl⟩ := hp.surj r hr
  rw [← hPA i hi]
  have key : ∀ f : Nat → R, ∑ c ∈ range S.n, f c = ∑ j ∈ range S.n, f (S.perm.getD j 0) := by
    intro f
    symm
    apply sum_nbij (fun j => S.perm.getD j 0)
    · intro j hj; exact mem_range.mpr (hp.lt j (mem_range.mp hj))
    · intro a ha b hb hab
      exact hp.inj a b (mem_range.mp (mem_coe.mp ha)) (mem_range.mp (mem_coe.mp hb)) hab
    · intro c hc
      obtain ⟨j, hj, e⟩ := hp.surj c (mem_range.mp (mem_coe.mp hc))
      exact ⟨j, mem_coe.mpr (mem_range.mpr hj), e⟩
    · intro j _; rfl
  rw [key (fun c => A (S.perm.getD i 0) c • O.getD c 0)]
  apply sum_congr rfl; intro j hj
  rw [hO j (mem_range.mp hj)]

end module
end SkyNC
end Amgcl
