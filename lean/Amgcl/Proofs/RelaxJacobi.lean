import Amgcl.Model.RelaxJacobi
import Amgcl.Proofs.RelaxBasic
import Mathlib.Algebra.BigOperators.Group.Finset.Basic
import Mathlib.Algebra.BigOperators.Ring.Finset
import Mathlib.Algebra.Order.Field.Basic
import Mathlib.Algebra.Order.BigOperators.Ring.Finset
import Mathlib.Tactic.FieldSimp
/-!
Helper lemmas for damped Jacobi and SPAI-0: rows that store their diagonal once, linearity / fixed point of a
`residual`+`vmul` sweep, the SPAI-0 sums.
-/
namespace Amgcl
namespace Relax
open Finset

section rows
variable {K : Type} [CommRing K]

theorem rowGet_eq_zero_of_countP (r : Row K) (j : Nat) (h : r.countP (fun cv => cv.1 == j) = 0) :
    rowGet r j = 0 := by
  induction r with
  | nil => rfl
  | cons cv t ih =>
    rw [List.countP_cons] at h
    have h1 : (cv.1 == j) = false := by
      cases hc : (cv.1 == j) <;> simp_all
    have h2 : List.countP (fun cv => cv.1 == j) t = 0 := by omega
    have hne : cv.1 ≠ j := by simpa using h1
    rw [rowGet_cons, if_neg hne]; exact ih h2

theorem diagOnce_row {A : CRS K} (h : diagOnceb A = true) (i : Nat) (hi : i < A.nrows) :
    (A.row i).countP (fun cv => cv.1 == i) = 1 := by
  unfold diagOnceb at h
  rw [List.all_eq_true] at h
  have := h i (List.mem_range.mpr hi)
  simpa using this

/-- a row that stores column `i` exactly once: the first stored diagonal entry is the matrix entry -/
theorem firstDiag_of_once (r : Row K) (i : Nat) (h : r.countP (fun cv => cv.1 == i) = 1) :
    firstDiag r i = some (rowGet r i) := by
  induction r with
  | nil => simp at h
  | cons cv t ih =>
    rw [List.countP_cons] at h
    by_cases hc : cv.1 = i
    · have h' : (if (cv.1 == i) = true then 1 else 0) = 1 := by simp [hc]
      have h2 : List.countP (fun cv => cv.1 == i) t = 0 := by omega
      rw [rowGet_cons, if_pos hc, rowGet_eq_zero_of_countP t i h2]
      simp [firstDiag, List.find?_cons, hc]
    · have h' : (if (cv.1 == i) = true then 1 else 0) = 0 := by simp [hc]
      have h2 : List.countP (fun cv => cv.1 == i) t = 1 := by omega
      rw [rowGet_cons, if_neg hc, ← ih h2]
      simp [firstDiag, List.find?_cons, hc]

theorem hasDiag_of_once {A : CRS K} (h : diagOnceb A = true) : hasDiagb A = true := by
  unfold hasDiagb
  rw [List.all_eq_true]
  intro i hi
  have h1 := diagOnce_row h i (List.mem_range.mp hi)
  rw [List.any_eq_true]
  have : 0 < (A.row i).countP (fun cv => cv.1 == i) := by omega
  rw [List.countP_pos_iff] at this
  exact this

end rows

section field
variable {K : Type} [Field K] [DecidableEq K]

@[simp] theorem diagInv_size (A : CRS K) : (diagInv A).size = A.nrows := by simp [diagInv]

/-- `backend::diagonal(A, true)`: the inverse of the diagonal entry, `1` for a zero entry -/
theorem getD_diagInv (A : CRS K) (h : diagOnceb A = true) (i : Nat) (hi : i < A.nrows) :
    (diagInv A).getD i 0 = if A.get i i = 0 then 1 else (A.get i i)⁻¹ := by
  unfold diagInv
  rw [getD_ofFn_lt _ _ _ hi]
  simp only
  rw [firstDiag_of_once _ _ (diagOnce_row h i hi)]
  unfold CRS.get
  simp only [one_div]

@[simp] theorem spai0Diag_size (norm : K → K) (A : CRS K) : (spai0Diag norm A).size = A.nrows := by
  simp [spai0Diag]

end field

section sweep
variable {K : Type} [CommRing K] [DecidableEq K]

/-- the common form of the Jacobi and SPAI-0 sweeps -/
def dsweep (ω : K) (d : Vec K) (A : CRS K) (f x : Vec K) : Vec K := vmul ω d (residual f A x) 1 x

theorem getD_dsweep (ω : K) (d : Vec K) (A : CRS K) (f x : Vec K) (hd : d.size = A.nrows)
    (i : Nat) (hi : i < A.nrows) :
    (dsweep ω d A f x).getD i 0 = x.getD i 0 + ω * d.getD i 0 * (f.getD i 0 - rowDot (A.row i) x) := by
  unfold dsweep
  rw [getD_vmul _ _ _ _ _ _ (by omega), getD_residual _ _ _ _ hi]; ring

theorem dsweep_linear (ω : K) (d : Vec K) (A : CRS K) (hd : d.size = A.nrows) (a b : K) (f g x y : Vec K)
    (hf : f.size = A.nrows) (hg : g.size = A.nrows) (hx : x.size = A.nrows) (hy : y.size = A.nrows) :
    dsweep ω d A (vlin a f b g) (vlin a x b y) = vlin a (dsweep ω d A f x) b (dsweep ω d A g y) := by
  apply ext_getD' (0 : K) (by simp [dsweep])
  intro i
  by_cases hi : i < A.nrows
  · rw [getD_vlin _ _ _ _ (by simp [dsweep]), getD_dsweep _ _ _ _ _ hd i hi, getD_dsweep _ _ _ _ _ hd i hi,
      getD_dsweep _ _ _ _ _ hd i hi, getD_vlin _ _ _ _ (by omega), getD_vlin _ _ _ _ (by omega),
      rowDot_vlin _ _ _ _ _ (by omega)]
    ring
  · rw [getD_of_size_le _ _ _ (by simp [dsweep]; omega), getD_of_size_le _ _ _ (by simp [dsweep]; omega)]

theorem dsweep_fixed (ω : K) (d : Vec K) (A : CRS K) (hd : d.size = A.nrows) (f x : Vec K)
    (hx : x.size = A.nrows) (h : ∀ i, i < A.nrows → rowDot (A.row i) x = f.getD i 0) :
    dsweep ω d A f x = x := by
  apply ext_getD' (0 : K) (by simp [dsweep]; omega)
  intro i
  by_cases hi : i < A.nrows
  · rw [getD_dsweep _ _ _ _ _ hd i hi, h i hi]; ring
  · rw [getD_of_size_le _ _ _ (by simp [dsweep]; omega), getD_of_size_le _ _ _ (by omega)]

end sweep

section spai
variable {K : Type} [Field K] [DecidableEq K]

/-- the accumulator loop of the SPAI-0 constructor in closed form -/
theorem spai0_fold (norm : K → K) (r : Row K) (i : Nat) (n0 d0 : K) :
    r.foldl (fun (nd : K × K) cv =>
        (if cv.1 = i then nd.1 + cv.2 else nd.1, nd.2 + norm cv.2 * norm cv.2)) (n0, d0)
      = (n0 + rowGet r i, d0 + (r.map (fun cv => norm cv.2 * norm cv.2)).sum) := by
  induction r generalizing n0 d0 with
  | nil => simp
  | cons cv t ih =>
    simp only [List.foldl_cons, List.map_cons, List.sum_cons]
    rw [ih, rowGet_cons]
    by_cases hc : cv.1 = i
    · simp only [hc, if_true]; congr 1 <;> ring
    · simp only [hc, if_false]; congr 1; ring

theorem getD_spai0Diag (norm : K → K) (A : CRS K) (i : Nat) (hi : i < A.nrows) :
    (spai0Diag norm A).getD i 0
      = (1 / ((A.row i).map (fun cv => norm cv.2 * norm cv.2)).sum) * A.get i i := by
  unfold spai0Diag
  rw [getD_ofFn_lt _ _ _ hi]
  simp only
  rw [spai0_fold]
  simp [CRS.get]

theorem rowGet_eq_zero_of_not_mem (r : Row K) (j : Nat) (h : j ∉ r.map (·.1)) : rowGet r j = 0 := by
  induction r with
  | nil => rfl
  | cons cv t ih =>
    simp only [List.map_cons, List.mem_cons, not_or] at h
    rw [rowGet_cons, if_neg (fun e => h.1 e.symm)]
    exact ih h.2

/-- without duplicate columns the stored squares are the squares of the matrix row -/
theorem sum_sq_of_nodup (r : Row K) (m : Nat) (hm : ∀ cv ∈ r, cv.1 < m) (hn : (r.map (·.1)).Nodup) :
    (r.map (fun cv => cv.2 * cv.2)).sum = ∑ j ∈ range m, rowGet r j * rowGet r j := by
  induction r with
  | nil => simp
  | cons cv t ih =>
    simp only [List.map_cons, List.nodup_cons] at hn
    have ht : ∀ c ∈ t, c.1 < m := fun c hc => hm c (List.mem_cons_of_mem _ hc)
    have hcv : cv.1 < m := hm cv List.mem_cons_self
    simp only [List.map_cons, List.sum_cons]
    rw [ih ht hn.2]
    have h0 := rowGet_eq_zero_of_not_mem t cv.1 hn.1
    have : ∀ j ∈ range m, rowGet (cv :: t) j * rowGet (cv :: t) j
        = (if cv.1 = j then cv.2 * cv.2 else 0) + rowGet t j * rowGet t j := by
      intro j _
      rw [rowGet_cons]
      by_cases hc : cv.1 = j
      · subst hc; simp [h0]
      · simp [hc]
    rw [sum_congr rfl this, sum_add_distrib, sum_ite_eq]
    simp [hcv]

end spai

end Relax
end Amgcl

namespace Amgcl
namespace Relax
section good
variable {K : Type} [CommRing K] [DecidableEq K]

/-- all the facts the cycle needs, for a sweep of the form `x ← x + ω·d.*(f − A x)` -/
theorem dsweep_facts (ω : K) (d : Vec K) (A : CRS K) (hd : d.size = A.nrows)
    (sw : Sweep K) (hsw : ∀ f x t, (sw f x t).1 = dsweep ω d A f x) :
    Sweep.ScratchIndep sw ∧ Sweep.JointlyLinear sw A.nrows ∧ Sweep.SizeOk sw A.nrows ∧ Sweep.FixedPoint sw A := by
  refine ⟨?_, ?_, ?_, ?_⟩
  · intro f x t t'; rw [hsw, hsw]
  · intro a b f g x y t t₁ t₂ hf hg hx hy
    rw [hsw, hsw, hsw]; exact dsweep_linear ω d A hd a b f g x y hf hg hx hy
  · intro f x t _ _; rw [hsw]; simp [dsweep, hd]
  · intro f x t hx _ h; rw [hsw]; exact dsweep_fixed ω d A hd f x hx h

end good
end Relax
end Amgcl
