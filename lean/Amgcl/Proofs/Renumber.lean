import Amgcl.Proofs.PlainAggregates
/-!
The renumbering of `plain_aggregates` (l.196-206): `cnt` marks the used aggregate numbers, its running sum is
the rank function; the new number of a used `k` is `#{used j ≤ k} - 1`, the new count is the number of used ones.
-/
namespace Amgcl
namespace Coarsening
open Finset Classical

/-- aggregate number `k` occurs in `id` -/
def Used (id : Array Int) (k : Nat) : Prop := ∃ j, j < id.size ∧ id.getD j 0 = (k : Int)

/-- `cnt[k]` after l.196-198 -/
noncomputable def markF (id : Array Int) (k : Nat) : Int := if Used id k then 1 else 0

/-- number of used aggregate numbers below `k` -/
noncomputable def rankS (id : Array Int) (k : Nat) : Int := ∑ j ∈ range k, markF id j

theorem markF_nonneg (id : Array Int) (k : Nat) : 0 ≤ markF id k := by unfold markF; split <;> decide
theorem markF_le_one (id : Array Int) (k : Nat) : markF id k ≤ 1 := by unfold markF; split <;> decide

theorem rankS_zero (id : Array Int) : rankS id 0 = 0 := by simp [rankS]
theorem rankS_succ (id : Array Int) (k : Nat) : rankS id (k + 1) = rankS id k + markF id k := by
  unfold rankS; rw [sum_range_succ]

theorem rankS_nonneg (id : Array Int) (k : Nat) : 0 ≤ rankS id k := by
  induction k with
  | zero => simp [rankS_zero]
  | succ k ih => rw [rankS_succ]; have := markF_nonneg id k; omega

theorem rankS_add_le (id : Array Int) (k d : Nat) : rankS id k ≤ rankS id (k + d) ∧ rankS id (k + d) ≤ rankS id k + d := by
  induction d with
  | zero => simp
  | succ d ih =>
    rw [← Nat.add_assoc, rankS_succ]
    have h1 := markF_nonneg id (k + d); have h2 := markF_le_one id (k + d)
    push_cast; omega

theorem rankS_mono (id : Array Int) {a b : Nat} (h : a ≤ b) : rankS id a ≤ rankS id b := by
  obtain ⟨d, rfl⟩ := Nat.exists_eq_add_of_le h
  exact (rankS_add_le id a d).1

theorem rankS_le (id : Array Int) (k : Nat) : rankS id k ≤ k := by
  have := (rankS_add_le id 0 k).2
  simpa [rankS_zero] using this

/-- discrete intermediate value: every rank below `rankS K` is attained at a used number -/
theorem rankS_ivt (id : Array Int) (K : Nat) (a : Nat) (ha : (a : Int) < rankS id K) :
    ∃ k, k < K ∧ Used id k ∧ rankS id k = a := by
  induction K with
  | zero => rw [rankS_zero] at ha; omega
  | succ K ih =>
    by_cases h : (a : Int) < rankS id K
    · obtain ⟨k, hk, hu, hr⟩ := ih h
      exact ⟨k, by omega, hu, hr⟩
    · rw [rankS_succ] at ha
      have h1 := markF_le_one id K
      have hm : markF id K = 1 := by omega
      have hu : Used id K := by
        unfold markF at hm
        by_contra hn; rw [if_neg hn] at hm; exact absurd hm (by decide)
      exact ⟨K, by omega, hu, by omega⟩

/-! ### the arrays -/

theorem usedMarks_step (v : Int) (cnt0 : Array Int) (k : Nat) :
    (if v ≥ 0 then cnt0.setIfInBounds v.toNat 1 else cnt0).getD k 0 =
      if k < cnt0.size ∧ 0 ≤ v ∧ v.toNat = k then 1 else cnt0.getD k 0 := by
  by_cases hv0 : v ≥ 0
  · rw [if_pos hv0, getD_set]
    by_cases hx : v.toNat = k ∧ v.toNat < cnt0.size
    · rw [if_pos hx, if_pos ⟨by rw [← hx.1]; exact hx.2, hv0, hx.1⟩]
    · rw [if_neg hx, if_neg]
      rintro ⟨h1, _, h3⟩; exact hx ⟨h3, by rw [h3]; exact h1⟩
  · rw [if_neg hv0, if_neg]
    rintro ⟨_, h2, _⟩; exact hv0 h2

theorem usedMarks_fold (l : List Int) (cnt0 : Array Int) :
    (l.foldl (fun cnt v => if v ≥ 0 then cnt.setIfInBounds v.toNat 1 else cnt) cnt0).size = cnt0.size ∧
    ∀ k, (l.foldl (fun cnt v => if v ≥ 0 then cnt.setIfInBounds v.toNat 1 else cnt) cnt0).getD k 0 =
      if k < cnt0.size ∧ ∃ v ∈ l, 0 ≤ v ∧ v.toNat = k then 1 else cnt0.getD k 0 := by
  induction l generalizing cnt0 with
  | nil => simp
  | cons v t ih =>
    rw [List.foldl_cons]
    obtain ⟨h1, h2⟩ := ih (if v ≥ 0 then cnt0.setIfInBounds v.toNat 1 else cnt0)
    have hsz : (if v ≥ 0 then cnt0.setIfInBounds v.toNat 1 else cnt0).size = cnt0.size := by split <;> simp
    refine ⟨h1.trans hsz, fun k => ?_⟩
    rw [h2 k, hsz, usedMarks_step]
    by_cases ht : k < cnt0.size ∧ ∃ w ∈ t, 0 ≤ w ∧ w.toNat = k
    · rw [if_pos ht, if_pos]
      obtain ⟨hk, w, hw, hw2⟩ := ht
      exact ⟨hk, w, List.mem_cons_of_mem _ hw, hw2⟩
    · rw [if_neg ht]
      by_cases hv : k < cnt0.size ∧ 0 ≤ v ∧ v.toNat = k
      · rw [if_pos hv, if_pos ⟨hv.1, v, List.mem_cons_self, hv.2⟩]
      · rw [if_neg hv, if_neg]
        rintro ⟨hk, w, hw, hw2⟩
        rcases List.mem_cons.1 hw with rfl | hw
        · exact hv ⟨hk, hw2⟩
        · exact ht ⟨hk, w, hw, hw2⟩

theorem usedMarks_spec (count : Nat) (id : Array Int) :
    (usedMarks count id).size = count ∧ ∀ k, k < count → (usedMarks count id).getD k 0 = markF id k := by
  unfold usedMarks
  rw [← Array.foldl_toList]
  obtain ⟨h1, h2⟩ := usedMarks_fold id.toList (Array.replicate count 0)
  refine ⟨by rw [h1]; simp, fun k hk => ?_⟩
  rw [h2 k]
  unfold markF
  have hiff : (k < (Array.replicate count (0:Int)).size ∧ ∃ v ∈ id.toList, 0 ≤ v ∧ v.toNat = k) ↔ Used id k := by
    constructor
    · rintro ⟨_, v, hv, hv0, hvk⟩
      obtain ⟨j, hj, rfl⟩ := List.mem_iff_getElem.1 hv
      simp only [Array.length_toList] at hj
      refine ⟨j, hj, ?_⟩
      simp only [Array.getD_eq_getD_getElem?, hj, getElem?_pos, Option.getD_some]
      simp only [Array.getElem_toList] at hv0 hvk
      omega
    · rintro ⟨j, hj, hjk⟩
      refine ⟨by simpa using hk, id.getD j 0, ?_, by rw [hjk]; omega, by rw [hjk]; simp⟩
      simp only [Array.getD_eq_getD_getElem?, hj, getElem?_pos, Option.getD_some]
      exact Array.mem_toList_iff.2 (Array.getElem_mem hj)
  by_cases hu : Used id k
  · rw [if_pos (hiff.2 hu), if_pos hu]
  · rw [if_neg (fun h => hu (hiff.1 h)), if_neg hu]
    simp [Array.getD_eq_getD_getElem?, hk]

theorem partialSum_fold (l : List Int) (acc : Array Int) (s : Int) :
    let res := l.foldl (fun (acc : Array Int × Int) v => (acc.1.push (acc.2 + v), acc.2 + v)) (acc, s)
    res.1.size = acc.size + l.length ∧ (∀ j, j < acc.size → res.1.getD j 0 = acc.getD j 0) ∧
    ∀ k, k < l.length → res.1.getD (acc.size + k) 0 = s + ∑ j ∈ range (k + 1), l.getD j 0 := by
  induction l generalizing acc s with
  | nil => simp
  | cons v t ih =>
    intro res
    obtain ⟨h1, h2, h3⟩ := ih (acc.push (s + v)) (s + v)
    have hres : res = t.foldl (fun (acc : Array Int × Int) v => (acc.1.push (acc.2 + v), acc.2 + v)) (acc.push (s + v), s + v) := rfl
    rw [hres]
    refine ⟨by rw [h1]; simp; omega, fun j hj => ?_, fun k hk => ?_⟩
    · rw [h2 j (by simp; omega)]
      have hne : j ≠ acc.size := by omega
      simp [Array.getD_eq_getD_getElem?, Array.getElem?_push, hne]
    · cases k with
      | zero =>
        rw [Nat.add_zero, h2 acc.size (by simp)]
        simp [Array.getD_eq_getD_getElem?]
      | succ k =>
        have := h3 k (by simpa using hk)
        simp only [Array.size_push] at this
        rw [show acc.size + (k + 1) = acc.size + 1 + k by omega, this, sum_range_succ' _ (k + 1)]
        simp only [List.getD_cons_succ, List.getD_cons_zero]
        omega

theorem partialSum_spec (a : Array Int) :
    (partialSum a).size = a.size ∧ ∀ k, k < a.size → (partialSum a).getD k 0 = ∑ j ∈ range (k + 1), a.getD j 0 := by
  unfold partialSum
  rw [← Array.foldl_toList]
  obtain ⟨h1, _, h3⟩ := partialSum_fold a.toList #[] 0
  refine ⟨by simpa using h1, fun k hk => ?_⟩
  have := h3 k (by simpa using hk)
  simp only [Array.size_empty, Nat.zero_add, Int.zero_add] at this
  rw [this]
  apply sum_congr rfl
  intro j _
  simp [Array.getD_eq_getD_getElem?, List.getD_eq_getElem?_getD]

/-- `cnt[k]` after the `partial_sum` is the number of used aggregate numbers `≤ k` -/
theorem cnt_spec (count : Nat) (id : Array Int) (k : Nat) (hk : k < count) :
    (partialSum (usedMarks count id)).getD k 0 = rankS id (k + 1) := by
  obtain ⟨hs, hm⟩ := usedMarks_spec count id
  rw [(partialSum_spec _).2 k (by rw [hs]; exact hk)]
  unfold rankS
  apply sum_congr rfl
  intro j hj
  exact hm j (by have := mem_range.1 hj; omega)

/-! ### `renumber` -/

/-- the ids entering the renumbering: `removed` or below `count` -/
def IdsOK (count : Nat) (id : Array Int) : Prop :=
  ∀ j, j < id.size → id.getD j 0 = -2 ∨ (0 ≤ id.getD j 0 ∧ id.getD j 0 < (count : Int))

/-- new number of an old id -/
noncomputable def newId (id : Array Int) (v : Int) : Int := if v ≥ 0 then rankS id (v.toNat + 1) - 1 else v

theorem getD_map_lt (f : Int → Int) (a : Array Int) (j : Nat) (hj : j < a.size) :
    (a.map f).getD j 0 = f (a.getD j 0) := by
  simp [Array.getD_eq_getD_getElem?, hj]

theorem renumber_eq (count : Nat) (hc : 0 < count) (id : Array Int) (h : IdsOK count id) :
    ((renumber count id).1 : Int) = rankS id count ∧ (renumber count id).2.size = id.size ∧
    ∀ j, j < id.size → (renumber count id).2.getD j 0 = newId id (id.getD j 0) := by
  have hlast : (partialSum (usedMarks count id)).getD (count - 1) 0 = rankS id count := by
    rw [cnt_spec count id (count - 1) (by omega)]; congr 1; omega
  have hnn := rankS_nonneg id count
  have hle := rankS_le id count
  unfold renumber
  simp only [hlast]
  by_cases hgt : (count : Int) > rankS id count
  · rw [if_pos hgt]
    refine ⟨by simp only; omega, by simp, fun j hj => ?_⟩
    simp only
    rw [getD_map_lt _ _ _ hj]
    unfold newId
    rcases h j hj with hv | ⟨hv0, hv1⟩
    · rw [hv]; simp
    · rw [if_pos hv0, if_pos hv0, cnt_spec count id _ (by omega)]
  · rw [if_neg hgt]
    have heq : rankS id count = count := by omega
    refine ⟨by simp only; omega, rfl, fun j hj => ?_⟩
    simp only
    unfold newId
    rcases h j hj with hv | ⟨hv0, hv1⟩
    · rw [hv]; simp
    · rw [if_pos hv0]
      have hk : (id.getD j 0).toNat + 1 ≤ count := by omega
      obtain ⟨d, hd⟩ := Nat.exists_eq_add_of_le hk
      have h1 := (rankS_add_le id ((id.getD j 0).toNat + 1) d).2
      rw [← hd, heq] at h1
      have h2 := rankS_le id ((id.getD j 0).toNat + 1)
      have h3 : ((count : Nat) : Int) = (((id.getD j 0).toNat + 1 + d : Nat) : Int) := by rw [← hd]
      push_cast at h1 h2 h3
      omega

/-- the renumbering keeps `removed`, maps the aggregated rows onto `[0, count')` surjectively, and does not merge
or split aggregates -/
theorem renumber_partition (count : Nat) (hc : 0 < count) (id : Array Int) (h : IdsOK count id) :
    (renumber count id).2.size = id.size ∧
    (∀ j, j < id.size → id.getD j 0 = -2 → (renumber count id).2.getD j 0 = -2) ∧
    (∀ j, j < id.size → 0 ≤ id.getD j 0 →
        0 ≤ (renumber count id).2.getD j 0 ∧ (renumber count id).2.getD j 0 < ((renumber count id).1 : Int)) ∧
    (∀ a, a < (renumber count id).1 → ∃ j, j < id.size ∧ (renumber count id).2.getD j 0 = (a : Int)) ∧
    (∀ i j, i < id.size → j < id.size → 0 ≤ id.getD i 0 → 0 ≤ id.getD j 0 →
        ((renumber count id).2.getD i 0 = (renumber count id).2.getD j 0 ↔ id.getD i 0 = id.getD j 0)) := by
  obtain ⟨hcnt, hsz, hid⟩ := renumber_eq count hc id h
  -- rank of a used number
  have hrank : ∀ j, j < id.size → 0 ≤ id.getD j 0 →
      newId id (id.getD j 0) = rankS id (id.getD j 0).toNat ∧ Used id (id.getD j 0).toNat ∧ (id.getD j 0).toNat < count := by
    intro j hj h0
    have hu : Used id (id.getD j 0).toNat := ⟨j, hj, by omega⟩
    have hm : markF id (id.getD j 0).toNat = 1 := by unfold markF; rw [if_pos hu]
    rcases h j hj with hv | ⟨_, hv1⟩
    · omega
    · refine ⟨?_, hu, by omega⟩
      unfold newId; rw [if_pos h0, rankS_succ, hm]; omega
  refine ⟨hsz, fun j hj hv => ?_, fun j hj h0 => ?_, fun a ha => ?_, fun i j hi hj h0i h0j => ?_⟩
  · rw [hid j hj, hv]; unfold newId; simp
  · obtain ⟨hr, hu, hlt⟩ := hrank j hj h0
    rw [hid j hj, hr, hcnt]
    have hm : markF id (id.getD j 0).toNat = 1 := by unfold markF; rw [if_pos hu]
    have := rankS_mono id (show (id.getD j 0).toNat + 1 ≤ count by omega)
    rw [rankS_succ, hm] at this
    exact ⟨rankS_nonneg _ _, by omega⟩
  · obtain ⟨k, hk, ⟨j, hj, hjk⟩, hr⟩ := rankS_ivt id count a (by rw [← hcnt]; exact_mod_cast ha)
    refine ⟨j, hj, ?_⟩
    have h0 : 0 ≤ id.getD j 0 := by omega
    rw [hid j hj, (hrank j hj h0).1, hjk]; simpa using hr
  · rw [hid i hi, hid j hj, (hrank i hi h0i).1, (hrank j hj h0j).1]
    constructor
    · intro heq
      -- strictly monotone on used numbers
      by_contra hne
      obtain ⟨_, hui, _⟩ := hrank i hi h0i
      obtain ⟨_, huj, _⟩ := hrank j hj h0j
      have hmi : markF id (id.getD i 0).toNat = 1 := by unfold markF; rw [if_pos hui]
      have hmj : markF id (id.getD j 0).toNat = 1 := by unfold markF; rw [if_pos huj]
      rcases Nat.lt_or_gt_of_ne (show (id.getD i 0).toNat ≠ (id.getD j 0).toNat by omega) with hlt | hlt
      · have := rankS_mono id (show (id.getD i 0).toNat + 1 ≤ (id.getD j 0).toNat by omega)
        rw [rankS_succ, hmi] at this; omega
      · have := rankS_mono id (show (id.getD j 0).toNat + 1 ≤ (id.getD i 0).toNat by omega)
        rw [rankS_succ, hmj] at this; omega
    · intro heq; rw [heq]

end Coarsening
end Amgcl
