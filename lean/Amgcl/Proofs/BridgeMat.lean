import Amgcl.Proofs.BridgeVec
import Amgcl.Properties.C03
/-!
# Bridge, part 1: the dense denotation `matOf` of the sparse kernels used by `Amg.build`

* `colsLt_of_wf`            — `ColsLt` from `CRS.WF`;
* `matOf_sortRows`          — `sort_rows` does not change the denoted matrix (`C08b.sortRows_spec`);
* `matOf_transpose`         — `matOf (transpose id P) = (matOf P)ᵀ` (`C08.transpose_get`);
* `matOf_galerkin`          — `matOf (galerkin nt A P R) = matOf R * matOf A * matOf P` for every thread count
                              (`C03.galerkin_get_any`);
* `matOf_scale`, `matOf_scaledGalerkin` — `matOf (scaledGalerkin nt s A P R) = s • (matOf R * matOf A * matOf P)`;
-/
set_option linter.unusedSectionVars false
namespace Amgcl.Energy.Bridge
open Amgcl Amgcl.Amg Matrix Finset

variable {K : Type} [Field K] [DecidableEq K]

/-- every stored column of a well-formed matrix is `< ncols` -/
theorem colsLt_of_wf {A : CRS K} (hA : A.WF) : ColsLt A A.ncols := fun i _ h => K2.row_col_lt hA i h

theorem colsLt_of_wf' {A : CRS K} (hA : A.WF) {m : Nat} (hm : A.ncols = m) : ColsLt A m := hm ▸ colsLt_of_wf hA

/-- `sort_rows` keeps the denoted matrix -/
theorem matOf_sortRows (A : CRS K) (n m : Nat) : matOf (sortRows A) n m = matOf A n m := by
  ext i j; exact (C08b.sortRows_spec A).1 i.val j.val

/-- the model's `transpose` denotes the transposed matrix -/
theorem matOf_transpose (P : CRS K) {n m : Nat} (hn : P.nrows = n) (hm : P.ncols = m) :
    matOf (transpose id P) m n = (matOf P n m)ᵀ := by
  ext c i
  have := C08.transpose_get (AddMonoidHom.id K) P c.val i.val (hm ▸ c.isLt) (hn ▸ i.isLt)
  simpa using this

/-- **the Galerkin product** (either SpGEMM algorithm) denotes `R · A · P` -/
theorem matOf_galerkin (nt : Nat) (A P R : CRS K) {n m : Nat} (hA : A.WF) (hP : P.WF) (hR : R.WF)
    (hAn : A.nrows = n) (hAc : A.ncols = n) (hRn : R.nrows = m) (hRc : R.ncols = n) :
    matOf (galerkin nt A P R) m m = matOf R m n * matOf A n n * matOf P n m := by
  ext i j
  rw [matOf_apply, C03.galerkin_get_any nt A P R hA hP hR (by rw [hRc, hAn]) i.val j.val (by rw [hRn]; exact i.isLt),
    Matrix.mul_assoc, Matrix.mul_apply, hRc, Finset.sum_range]
  refine Finset.sum_congr rfl fun k _ => ?_
  rw [Matrix.mul_apply, hAc, Finset.sum_range]
  rfl

/-- `scale` multiplies the denoted matrix -/
theorem matOf_scale (M : CRS K) (s : K) (n m : Nat) : matOf (scale M s) n m = s • matOf M n m := by
  ext i j; simp [C08.scale_get, mul_comm]

/-- the rescaled Galerkin product of plain aggregation -/
theorem matOf_scaledGalerkin (nt : Nat) (s : K) (A P R : CRS K) {n m : Nat} (hA : A.WF) (hP : P.WF) (hR : R.WF)
    (hAn : A.nrows = n) (hAc : A.ncols = n) (hRn : R.nrows = m) (hRc : R.ncols = n) :
    matOf (scaledGalerkin nt s A P R) m m = s • (matOf R m n * matOf A n n * matOf P n m) := by
  unfold scaledGalerkin
  rw [matOf_scale, matOf_galerkin nt A P R hA hP hR hAn hAc hRn hRc]

end Amgcl.Energy.Bridge
