import Amgcl.Proofs.EnergyBridge
import Amgcl.Properties.C03
/-!
# Bridge, part 1: the dense denotation `matOf` of the sparse kernels used by `Amg.build`

* `colsLt_of_wf`            — `ColsLt` from `CRS.WF`;
* `matOf_sortRows`          — `sort_rows` does not change the denoted matrix (`C08b.sortRows_spec`);
* `matOf_transpose`         — `matOf (transpose id P) = (matOf P)ᵀ` (`C08.transpose_get`);
* `matOf_galerkin`          — `matOf (galerkin nt A P R) = matOf R * matOf A * matOf P` for every thread count
                              (`C03.galerkin_get_any`);
* `matOf_scale`, `matOf_scaledGalerkin` — `matOf (scaledGalerkin nt s A P R) = s • (matOf R * matOf A * matOf P)`;
* `vecOf_ofFn`, `vecOf_ext` — arrays of the right length are determined by their denotation.
-/
set_option linter.unusedSectionVars false
namespace Amgcl.Energy.Bridge
open Amgcl Amgcl.Amg Matrix Finset

variable {K : Type} [Field K] [DecidableEq K]

/-- every stored column of a well-formed matrix is `< ncols` -/
theorem colsLt_of_wf {A : CRS K} (hA : A.WF) : ColsLt A A.ncols := fun i _ h => K2.row_col_lt hA i h

theorem colsLt_of_wf' {A : CRS K} (hA : A.WF) {m : Nat} (hm : A.ncols = m) : ColsLt A m := hm ▸ colsLt_of_wf hA

@[simp] theorem matOf_apply (A : CRS K) (n m : Nat) (i : Fin n) (j : Fin m) : matOf A n m i j = A.get i.val j.val := rfl

/-- `sort_rows` keeps the denoted matrix -/
theorem matOf_sortRows (A : CRS K) (n m : Nat) : matOf (sortRows A) n m = matOf A n m := by
  ext i j; exact (C08b.sortRows_spec A).1 i.val j.val

/-- the model's `transpose` denotes the transposed matrix -/
theorem matOf_transpose (P : CRS K) {n m : Nat} (hn : P.nrows = n) (hm : P.ncols = m) :
    matOf (transpose id P) m n = (matOf P n m)ᵀ := by
  ext c i
  have := C08.transpose_get (AddMonoidHom.id K) P c.val i.val (hm ▸ c.isLt) (hn ▸ i.isLt)
  simpa using this

/-- **the Galerkin product** (either SpGEMM algorithm) denotes `R · A · P` -/
theorem matOf_galerkin (nt : Nat) (A P R : CRS K) {n m : Nat} (hA : A.WF) (hP : P.WF) (hR : R.WF)
    (hAn : A.nrows = n) (hAc : A.ncols = n) (hRn : R.nrows = m) (hRc : R.ncols = n) :
    matOf (galerkin nt A P R) m m = matOf R m n * matOf A n n * matOf P n m := by
  ext i j
  rw [matOf_apply, C03.galerkin_get_any nt A P R hA hP hR (by rw [hRc, hAn]) i.val j.val (by rw [hRn]; exact i.isLt),
    Matrix.mul_assoc, Matrix.mul_apply, hRc, Finset.sum_range]
  refine Finset.sum_congr rfl fun k _ => ?_
  rw [Matrix.mul_apply, hAc, Finset.sum_range]
  rfl

/-- `scale` multiplies the denoted matrix -/
theorem matOf_scale (M : CRS K) (s : K) (n m : Nat) : matOf (scale M s) n m = s • matOf M n m := by
  ext i j; simp [C08.scale_get, mul_comm]

/-- the rescaled Galerkin product of plain aggregation -/
theorem matOf_scaledGalerkin (nt : Nat) (s : K) (A P R : CRS K) {n m : Nat} (hA : A.WF) (hP : P.WF) (hR : R.WF)
    (hAn : A.nrows = n) (hAc : A.ncols = n) (hRn : R.nrows = m) (hRc : R.ncols = n) :
    matOf (scaledGalerkin nt s A P R) m m = s • (matOf R m n * matOf A n n * matOf P n m) := by
  unfold scaledGalerkin
  rw [matOf_scale, matOf_galerkin nt A P R hA hP hR hAn hAc hRn hRc]

omit [DecidableEq K] in
/-- reading back an array built from a function -/
theorem vecOf_ofFn {n : Nat} (g : Fin n → K) : vecOf n (Array.ofFn g) = g := by
  funext i
  simp [vecOf, getD_ofFn_lt _ _ _ i.isLt]

omit [DecidableEq K] in
/-- arrays of length `n` with the same denotation are equal -/
theorem vecOf_ext {n : Nat} {x y : Vec K} (hx : x.size = n) (hy : y.size = n) (h : vecOf n x = vecOf n y) : x = y := by
  apply Array.ext (by rw [hx, hy])
  intro i h1 h2
  have := congrFun h ⟨i, by omega⟩
  simpa [vecOf, Array.getD, h1, h2] using this

omit [DecidableEq K] in
theorem vecOf_apply {n : Nat} (x : Vec K) (i : Fin n) : vecOf n x i = x.getD i.val 0 := rfl

omit [DecidableEq K] in
/-- the denotation of a linear combination -/
theorem vecOf_vlin {n : Nat} (a b : K) (x y : Vec K) (hx : x.size = n) (hy : y.size = n) :
    vecOf n (Relax.vlin a x b y) = a • vecOf n x + b • vecOf n y := by
  funext i
  simp only [vecOf, Pi.add_apply, Pi.smul_apply, smul_eq_mul]
  rw [vlin_getD a b x y i.val (by rw [hx, hy])]

end Amgcl.Energy.Bridge
