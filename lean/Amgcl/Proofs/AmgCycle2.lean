import Amgcl.Proofs.AmgCycle
/-!
From one pass of the cycle body to `ncycle` passes, to all levels (`cycle_ok`), to `apply`.
-/
namespace Amgcl
namespace Amg
open Relax

variable {K S : Type} [CommRing K] [DecidableEq K] [Nontrivial K]

section iterBody
variable {prm : Params} {sm : Smoother K S} {s : S} {A P R : CRS K} {n m len : Nat}
variable {rc : List (Scratch K) → Vec K → Vec K → Vec K × List (Scratch K)}

theorem iterBody_len (hrc : CycOK rc len m) (rhs : Vec K) (k : Nat) (st : CycSt K)
    (hl : st.2.2.2.length + 1 = len) :
    (iter (cycleBody prm sm s A P R m rc rhs) k st).2.2.2.length + 1 = len := by
  induction k generalizing st with
  | zero => exact hl
  | succ k ih => rw [iter_succ]; exact ih _ (cycleBody_len prm sm s A P R m len rc hrc rhs st hl)

theorem iterBody_indep (hsm : SmOK (sm.applyPre s A) (sm.applyPost s A) n) (hrc : CycOK rc len m)
    (rhs : Vec K) (k : Nat) (st st' : CycSt K) (hx : st.1 = st'.1)
    (hl : st.2.2.2.length + 1 = len) (hl' : st'.2.2.2.length + 1 = len) :
    (iter (cycleBody prm sm s A P R m rc rhs) k st).1 = (iter (cycleBody prm sm s A P R m rc rhs) k st').1 := by
  induction k generalizing st st' with
  | zero => exact hx
  | succ k ih =>
    rw [iter_succ, iter_succ]
    exact ih _ _ (cycleBody_indep hsm hrc rhs st st' hx hl hl')
      (cycleBody_len prm sm s A P R m len rc hrc rhs st hl) (cycleBody_len prm sm s A P R m len rc hrc rhs st' hl')

theorem iterBody_size (hsm : SmOK (sm.applyPre s A) (sm.applyPost s A) n) (hsh : InnerShape A P R n m)
    (rhs : Vec K) (k : Nat) (st : CycSt K) (hr : rhs.size = n) (hx : st.1.size = n) :
    (iter (cycleBody prm sm s A P R m rc rhs) k st).1.size = n := by
  induction k generalizing st with
  | zero => exact hx
  | succ k ih => rw [iter_succ]; exact ih _ (cycleBody_size hsm hsh rhs st hr)

theorem iterBody_linear (hsm : SmOK (sm.applyPre s A) (sm.applyPost s A) n) (hsh : InnerShape A P R n m)
    (hrc : CycOK rc len m) (a b : K) (f g : Vec K) (k : Nat) (st st1 st2 : CycSt K)
    (hf : f.size = n) (hg : g.size = n) (hx1 : st1.1.size = n) (hx2 : st2.1.size = n)
    (hx : st.1 = vlin a st1.1 b st2.1)
    (hl : st.2.2.2.length + 1 = len) (hl1 : st1.2.2.2.length + 1 = len) (hl2 : st2.2.2.2.length + 1 = len) :
    (iter (cycleBody prm sm s A P R m rc (vlin a f b g)) k st).1 =
      vlin a (iter (cycleBody prm sm s A P R m rc f) k st1).1 b (iter (cycleBody prm sm s A P R m rc g) k st2).1 := by
  induction k generalizing st st1 st2 with
  | zero => exact hx
  | succ k ih =>
    rw [iter_succ, iter_succ, iter_succ]
    exact ih _ _ _ (cycleBody_size hsm hsh f st1 hf) (cycleBody_size hsm hsh g st2 hg)
      (cycleBody_linear hsm hsh hrc a b f g st st1 st2 hf hg hx1 hx2 hx hl hl1 hl2)
      (cycleBody_len prm sm s A P R m len rc hrc _ st hl) (cycleBody_len prm sm s A P R m len rc hrc f st1 hl1)
      (cycleBody_len prm sm s A P R m len rc hrc g st2 hl2)

end iterBody

/-- a hierarchy on which the cycle is well defined and every component is linear: sizes fit, smoothers are
`Good`-like, the direct solver is linear.  (Every hierarchy produced by `build` from well-formed transfer
operators has this shape; the driver evaluates the decidable part on every explored hierarchy.) -/
inductive HierOK (sm : Smoother K S) (direct : CRS K → Vec K → Vec K) : Nat → List (Level K S) → Prop
  | solveLast (n : Nat) (lv : Level K S) (Ad : CRS K) :
      lv.solve = some Ad → DirectOK (direct Ad) n → HierOK sm direct n [lv]
  | relaxLast (n : Nat) (lv : Level K S) (A : CRS K) (s : S) :
      lv.solve = none → lv.A = some A → lv.relax = some s → SmOK (sm.applyPre s A) (sm.applyPost s A) n →
      HierOK sm direct n [lv]
  | cons (n m : Nat) (lv nxt : Level K S) (rest : List (Level K S)) (A P R : CRS K) (s : S) :
      lv.A = some A → lv.relax = some s → lv.P = some P → lv.R = some R →
      SmOK (sm.applyPre s A) (sm.applyPost s A) n → InnerShape A P R n m → nxt.rows = m →
      HierOK sm direct m (nxt :: rest) → HierOK sm direct n (lv :: nxt :: rest)

/-- **the cycle is a scratch-independent, jointly linear operator on every well-formed hierarchy** -/
theorem cycle_ok (prm : Params) (sm : Smoother K S) (direct : CRS K → Vec K → Vec K) {n : Nat}
    {ls : List (Level K S)} (h : HierOK sm direct n ls) : CycOK (cycle prm sm direct ls) ls.length n := by
  induction h with
  | solveLast n lv Ad hs hd =>
    refine ⟨?_, ?_, ?_, ?_⟩
    · intro scr f x hl
      match scr, hl with
      | [sc], _ => simp [cycle, hs]
    · intro scr scr' f x hl hl'
      match scr, scr', hl, hl' with
      | [sc], [sc'], _, _ => simp [cycle, hs]
    · intro scr f x hl hf _
      match scr, hl with
      | [sc], _ => simp only [cycle, hs]; exact hd.size f hf
    · intro a b scr scr1 scr2 f g x y hl hl1 hl2 hf hg _ _
      match scr, scr1, scr2, hl, hl1, hl2 with
      | [sc], [sc1], [sc2], _, _, _ => simp only [cycle, hs]; exact hd.linear a b f g hf hg
  | relaxLast n lv A s hs hA hr hsm =>
    refine ⟨?_, ?_, ?_, ?_⟩
    · intro scr f x hl
      match scr, hl with
      | [sc], _ => simp [cycle, hs, hA, hr]
    · intro scr scr' f x hl hl'
      match scr, scr', hl, hl' with
      | [sc], [sc'], _, _ =>
        simp only [cycle, hs, hA, hr]
        rw [sweeps_indep _ hsm.post_indep _ _ _ _ (sweeps (sm.applyPre s A) prm.npre f x sc'.t).2,
          sweeps_indep _ hsm.pre_indep _ _ _ sc.t sc'.t]
    · intro scr f x hl hf hx
      match scr, hl with
      | [sc], _ =>
        simp only [cycle, hs, hA, hr]
        exact sweeps_size _ n hsm.post_size _ _ _ _ hf (sweeps_size _ n hsm.pre_size _ _ _ _ hf hx)
    · intro a b scr scr1 scr2 f g x y hl hl1 hl2 hf hg hx hy
      match scr, scr1, scr2, hl, hl1, hl2 with
      | [sc], [sc1], [sc2], _, _, _ =>
        simp only [cycle, hs, hA, hr]
        rw [sweeps_linear _ n hsm.pre_linear hsm.pre_size prm.npre a b f g x y sc.t sc1.t sc2.t hf hg hx hy]
        exact sweeps_linear _ n hsm.post_linear hsm.post_size prm.npost a b f g _ _ _ _ _ hf hg
          (sweeps_size _ n hsm.pre_size _ _ _ _ hf hx) (sweeps_size _ n hsm.pre_size _ _ _ _ hg hy)
  | cons n m lv nxt rest A P R s hA hr hP hR hsm hsh hm _ ih =>
    have hlen : (nxt :: rest).length = rest.length + 1 := rfl
    refine ⟨?_, ?_, ?_, ?_⟩
    · intro scr f x hl
      match scr, hl with
      | sc :: scn :: scr, hl =>
        simp only [cycle, hA, hr, hP, hR, List.length_cons]
        have := iterBody_len (prm := prm) (sm := sm) (s := s) (A := A) (P := P) (R := R) (m := nxt.rows)
          (by rw [hm]; exact ih) f prm.ncycle (x, sc, scn, scr) (by simpa using hl)
        simp only [List.length_cons] at this hl ⊢
        omega
    · intro scr scr' f x hl hl'
      match scr, scr', hl, hl' with
      | sc :: scn :: scr, sc' :: scn' :: scr', hl, hl' =>
        simp only [cycle, hA, hr, hP, hR]
        exact iterBody_indep hsm (by rw [hm]; exact ih) f prm.ncycle _ _ rfl (by simpa using hl) (by simpa using hl')
    · intro scr f x hl hf hx
      match scr, hl with
      | sc :: scn :: scr, hl =>
        simp only [cycle, hA, hr, hP, hR]
        exact iterBody_size hsm (by rw [hm]; exact hsh) f prm.ncycle _ hf hx
    · intro a b scr scr1 scr2 f g x y hl hl1 hl2 hf hg hx hy
      match scr, scr1, scr2, hl, hl1, hl2 with
      | sc :: scn :: scr, sc1 :: scn1 :: scr1, sc2 :: scn2 :: scr2, hl, hl1, hl2 =>
        simp only [cycle, hA, hr, hP, hR]
        exact iterBody_linear hsm (by rw [hm]; exact hsh) (by rw [hm]; exact ih) a b f g prm.ncycle _ _ _ hf hg hx hy rfl
          (by simpa using hl) (by simpa using hl1) (by simpa using hl2)

end Amg
end Amgcl
