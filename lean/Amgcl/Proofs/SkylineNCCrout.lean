import Amgcl.Proofs.SkylineNCGeom
import Amgcl.Proofs.SkylineNCCroutAlg
/-!
(Copy of `Proofs/SkylineCrout.lean` for a NON-COMMUTATIVE value ring `K`, an arbitrary zero test `isZero` and a
partial inverse `inv` that is only required to be a right inverse of the pivots that occur.)
`skyline_lu::factorize()` (Crout's algorithm in the profile storage) establishes `E = L̃·Ũ` for the dense embedding
`E` of the storage it starts from.  Array layer: what the three inner loops of one iteration do to the dense
embeddings `Ld/Ud/Dd`; then `Amgcl.croutInv_step`.
-/
namespace Amgcl
open Arr2
namespace SkyNC
open Skyline
open Finset
variable {K R : Type} [Ring K]

/-! ### the column loop ("Compute column k+1 of U") -/

/-- body of the column loop for column `c = k+1` -/
def colBody (S : Skyline K R) (c : Nat) (U : Array K) (i : Nat) : Array K :=
  if i = 0 then U else
    U.setIfInBounds (S.P c + (i - (c + S.P c - S.P (c + 1))))
      (S.D.getD i 0 * dotSub S.L U
        (S.P i + max (c + S.P c - S.P (c + 1)) (i + S.P i - S.P (i + 1)) - (i + S.P i - S.P (i + 1)))
        (S.P c + max (c + S.P c - S.P (c + 1)) (i + S.P i - S.P (i + 1)) - (c + S.P c - S.P (c + 1)))
        (i - max (c + S.P c - S.P (c + 1)) (i + S.P i - S.P (i + 1)))
        (U.getD (S.P c + (i - (c + S.P c - S.P (c + 1)))) 0))

theorem factorColU_eq (S : Skyline K R) (k : Nat) :
    factorColU S k = (List.range' (k + 1 + S.P (k + 1) - S.P (k + 1 + 1))
      (k + 1 - (k + 1 + S.P (k + 1) - S.P (k + 1 + 1)))).foldl (colBody S (k + 1)) S.U := rfl

theorem colFold_spec (S : Skyline K R) (hst : StorageWF S) (c : Nat) (hcn : c < S.n) (len : Nat)
    (hlen : c + S.P c - S.P (c + 1) + len ≤ c) :
    StorageWF { S with U := (List.range' (c + S.P c - S.P (c + 1)) len).foldl (colBody S c) S.U } ∧
    (∀ i j, j < S.n → (j ≠ c ∨ i < c + S.P c - S.P (c + 1) ∨ c + S.P c - S.P (c + 1) + len ≤ i ∨ i = 0) →
      Ud { S with U := (List.range' (c + S.P c - S.P (c + 1)) len).foldl (colBody S c) S.U } i j = Ud S i j) ∧
    (∀ i, c + S.P c - S.P (c + 1) ≤ i → i < c + S.P c - S.P (c + 1) + len → i ≠ 0 →
      Ud { S with U := (List.range' (c + S.P c - S.P (c + 1)) len).foldl (colBody S c) S.U } i c
        = Dd S i * (Ud S i c - ∑ j ∈ range i, Ld S i j *
            Ud { S with U := (List.range' (c + S.P c - S.P (c + 1)) len).foldl (colBody S c) S.U } j c)) := by
  obtain ⟨hc1, hc2⟩ := hst.prof c hcn
  induction len with
  | zero =>
    refine ⟨hst, ?_, ?_⟩
    · intro i j _ _; rfl
    · intro i h1 h2; omega
  | succ len ih =>
    obtain ⟨hsT, hout, hin⟩ := ih (by omega)
    rw [List.range'_concat, List.foldl_append]
    simp only [List.foldl_cons, List.foldl_nil, Nat.one_mul]
    generalize (List.range' (c + S.P c - S.P (c + 1)) len).foldl (colBody S c) S.U = U1 at hsT hout hin ⊢
    generalize hi0 : c + S.P c - S.P (c + 1) + len = i0 at *
    have hi0c : i0 < c := by omega
    by_cases hz : i0 = 0
    · -- `continue`
      have e : colBody S c U1 i0 = U1 := by unfold colBody; rw [if_pos hz]
      rw [e]
      refine ⟨hsT, ?_, ?_⟩
      · intro i j hj hcond
        apply hout i j hj
        rcases hcond with h | h | h | h
        · exact Or.inl h
        · exact Or.inr (Or.inl h)
        · exact Or.inr (Or.inr (Or.inl (by omega)))
        · exact Or.inr (Or.inr (Or.inr h))
      · intro i h1 h2 h3
        exact hin i h1 (by omega) h3
    · -- a proper row of the column
      have hpos : S.P c + (i0 - (c + S.P c - S.P (c + 1))) = S.P (c + 1) + i0 - c := by omega
      have hprof : i0 < c ∧ c ≤ i0 + (S.P (c + 1) - S.P c) := by omega
      have e : colBody S c U1 i0 = U1.setIfInBounds (S.P (c + 1) + i0 - c)
          (S.D.getD i0 0 * dotSub S.L U1
            (S.P i0 + max (c + S.P c - S.P (c + 1)) (i0 + S.P i0 - S.P (i0 + 1)) - (i0 + S.P i0 - S.P (i0 + 1)))
            (S.P c + max (c + S.P c - S.P (c + 1)) (i0 + S.P i0 - S.P (i0 + 1)) - (c + S.P c - S.P (c + 1)))
            (i0 - max (c + S.P c - S.P (c + 1)) (i0 + S.P i0 - S.P (i0 + 1)))
            (U1.getD (S.P (c + 1) + i0 - c) 0)) := by
        unfold colBody; rw [if_neg hz, hpos]
      rw [e]
      generalize hv : S.D.getD i0 0 * dotSub S.L U1 _ _ _ _ = v
      -- the new state as an update of the previous one
      have hset := Ud_setU { S with U := U1 } hsT i0 c v hcn hprof
      have hT' : ∀ i' j', j' < S.n →
          Ud { S with U := U1.setIfInBounds (S.P (c + 1) + i0 - c) v } i' j'
            = if i' = i0 ∧ j' = c then v else Ud { S with U := U1 } i' j' := fun i' j' hj' => hset i' j' hj'
      refine ⟨storageWF_setU { S with U := U1 } hsT _ _, ?_, ?_⟩
      · intro i j hj hcond
        rw [hT' i j hj]
        have hne : ¬ (i = i0 ∧ j = c) := by
          rintro ⟨rfl, rfl⟩
          rcases hcond with h | h | h | h <;> omega
        rw [if_neg hne]
        apply hout i j hj
        rcases hcond with h | h | h | h
        · exact Or.inl h
        · exact Or.inr (Or.inl h)
        · exact Or.inr (Or.inr (Or.inl (by omega)))
        · exact Or.inr (Or.inr (Or.inr h))
      · intro i h1 h2 h3
        have hsum : ∀ i', i' ≤ i0 → ∑ j ∈ range i', Ld S i' j * Ud { S with U := U1.setIfInBounds (S.P (c + 1) + i0 - c) v } j c
            = ∑ j ∈ range i', Ld S i' j * Ud { S with U := U1 } j c := by
          intro i' hi'
          apply sum_congr rfl; intro j hj
          have := mem_range.mp hj
          rw [hT' j c hcn, if_neg (by omega)]
        rw [hT' i c hcn]
        by_cases hii : i = i0
        · subst hii
          rw [if_pos ⟨rfl, rfl⟩, hsum i (le_refl i), ← hv, dotSub_eq]
          have hread : U1.getD (S.P (c + 1) + i - c) 0 = Ud S i c := by
            rw [← hout i c hcn (Or.inr (Or.inr (Or.inl (by omega)))), Ud_withU, if_pos hprof]
          rw [hread]
          have hdot := dot_profile' S S.L U1 hst.prof i c i (by omega) hcn (le_refl i)
            (by omega) (by omega) (by have := hst.prof i (by omega); omega)
          rw [hdot]
          rfl
        · rw [if_neg (fun e => hii e.1), hsum i (by omega)]
          exact hin i h1 (by omega) h3

/-! ### the row loop ("Compute row k+1 of L") -/

/-- body of the row loop for row `c = k+1`; `U` is the array after the column loop -/
def rowBody (S : Skyline K R) (U : Array K) (c : Nat) (L : Array K) (i : Nat) : Array K :=
  if i = 0 then L else
    L.setIfInBounds (S.P c + (i - (c + S.P c - S.P (c + 1))))
      (dotSub L U
        (S.P c + max (i + S.P i - S.P (i + 1)) (c + S.P c - S.P (c + 1)) - (c + S.P c - S.P (c + 1)))
        (S.P i + max (i + S.P i - S.P (i + 1)) (c + S.P c - S.P (c + 1)) - (i + S.P i - S.P (i + 1)))
        (i - max (i + S.P i - S.P (i + 1)) (c + S.P c - S.P (c + 1)))
        (L.getD (S.P c + (i - (c + S.P c - S.P (c + 1)))) 0))

theorem factorRowL_eq (S : Skyline K R) (U : Array K) (k : Nat) :
    factorRowL S U k = (List.range' (k + 1 + S.P (k + 1) - S.P (k + 1 + 1))
      (k + 1 - (k + 1 + S.P (k + 1) - S.P (k + 1 + 1)))).foldl (rowBody S U (k + 1)) S.L := rfl

/-- `S` already carries the updated `U` -/
theorem rowFold_spec (S : Skyline K R) (hst : StorageWF S) (c : Nat) (hcn : c < S.n) (len : Nat)
    (hlen : c + S.P c - S.P (c + 1) + len ≤ c) :
    StorageWF { S with L := (List.range' (c + S.P c - S.P (c + 1)) len).foldl (rowBody S S.U c) S.L } ∧
    (∀ i j, i < S.n → (i ≠ c ∨ j < c + S.P c - S.P (c + 1) ∨ c + S.P c - S.P (c + 1) + len ≤ j ∨ j = 0) →
      Ld { S with L := (List.range' (c + S.P c - S.P (c + 1)) len).foldl (rowBody S S.U c) S.L } i j = Ld S i j) ∧
    (∀ j, c + S.P c - S.P (c + 1) ≤ j → j < c + S.P c - S.P (c + 1) + len → j ≠ 0 →
      Ld { S with L := (List.range' (c + S.P c - S.P (c + 1)) len).foldl (rowBody S S.U c) S.L } c j
        = Ld S c j - ∑ m ∈ range j,
            Ld { S with L := (List.range' (c + S.P c - S.P (c + 1)) len).foldl (rowBody S S.U c) S.L } c m * Ud S m j) := by
  obtain ⟨hc1, hc2⟩ := hst.prof c hcn
  induction len with
  | zero =>
    refine ⟨hst, ?_, ?_⟩
    · intro i j _ _; rfl
    · intro i h1 h2; omega
  | succ len ih =>
    obtain ⟨hsT, hout, hin⟩ := ih (by omega)
    rw [List.range'_concat, List.foldl_append]
    simp only [List.foldl_cons, List.foldl_nil, Nat.one_mul]
    generalize (List.range' (c + S.P c - S.P (c + 1)) len).foldl (rowBody S S.U c) S.L = L1 at hsT hout hin ⊢
    generalize hi0 : c + S.P c - S.P (c + 1) + len = i0 at *
    have hi0c : i0 < c := by omega
    by_cases hz : i0 = 0
    · have e : rowBody S S.U c L1 i0 = L1 := by unfold rowBody; rw [if_pos hz]
      rw [e]
      refine ⟨hsT, ?_, ?_⟩
      · intro i j hi hcond
        apply hout i j hi
        rcases hcond with h | h | h | h
        · exact Or.inl h
        · exact Or.inr (Or.inl h)
        · exact Or.inr (Or.inr (Or.inl (by omega)))
        · exact Or.inr (Or.inr (Or.inr h))
      · intro j h1 h2 h3
        exact hin j h1 (by omega) h3
    · have hpos : S.P c + (i0 - (c + S.P c - S.P (c + 1))) = S.P (c + 1) + i0 - c := by omega
      have hprof : i0 < c ∧ c ≤ i0 + (S.P (c + 1) - S.P c) := by omega
      have e : rowBody S S.U c L1 i0 = L1.setIfInBounds (S.P (c + 1) + i0 - c)
          (dotSub L1 S.U
            (S.P c + max (i0 + S.P i0 - S.P (i0 + 1)) (c + S.P c - S.P (c + 1)) - (c + S.P c - S.P (c + 1)))
            (S.P i0 + max (i0 + S.P i0 - S.P (i0 + 1)) (c + S.P c - S.P (c + 1)) - (i0 + S.P i0 - S.P (i0 + 1)))
            (i0 - max (i0 + S.P i0 - S.P (i0 + 1)) (c + S.P c - S.P (c + 1)))
            (L1.getD (S.P (c + 1) + i0 - c) 0)) := by
        unfold rowBody; rw [if_neg hz, hpos]
      rw [e]
      generalize hv : dotSub L1 S.U _ _ _ _ = v
      have hset := Ld_setL { S with L := L1 } hsT c i0 v hcn hprof
      have hT' : ∀ i' j', i' < S.n →
          Ld { S with L := L1.setIfInBounds (S.P (c + 1) + i0 - c) v } i' j'
            = if i' = c ∧ j' = i0 then v else Ld { S with L := L1 } i' j' := fun i' j' hi' => hset i' j' hi'
      refine ⟨storageWF_setL { S with L := L1 } hsT _ _, ?_, ?_⟩
      · intro i j hi hcond
        rw [hT' i j hi]
        have hne : ¬ (i = c ∧ j = i0) := by
          rintro ⟨rfl, rfl⟩
          rcases hcond with h | h | h | h <;> omega
        rw [if_neg hne]
        apply hout i j hi
        rcases hcond with h | h | h | h
        · exact Or.inl h
        · exact Or.inr (Or.inl h)
        · exact Or.inr (Or.inr (Or.inl (by omega)))
        · exact Or.inr (Or.inr (Or.inr h))
      · intro j h1 h2 h3
        have hsum : ∀ j', j' ≤ i0 → ∑ m ∈ range j', Ld { S with L := L1.setIfInBounds (S.P (c + 1) + i0 - c) v } c m * Ud S m j'
            = ∑ m ∈ range j', Ld { S with L := L1 } c m * Ud S m j' := by
          intro j' hj'
          apply sum_congr rfl; intro m hm
          have := mem_range.mp hm
          rw [hT' c m hcn, if_neg (by omega)]
        rw [hT' c j hcn]
        by_cases hjj : j = i0
        · subst hjj
          rw [if_pos ⟨rfl, rfl⟩, hsum j (le_refl j), ← hv, dotSub_eq]
          have hread : L1.getD (S.P (c + 1) + j - c) 0 = Ld S c j := by
            rw [← hout c j hcn (Or.inr (Or.inr (Or.inl (by omega)))), Ld_withL, if_pos hprof]
          rw [hread]
          have hdot := dot_profile' S L1 S.U hst.prof c j j hcn (by omega) (by omega)
            (le_refl j) (by have := hst.prof j (by omega); omega) (by omega)
          rw [hdot]
        · rw [if_neg (fun e => hjj e.2), hsum j (by omega)]
          exact hin j h1 (by omega) h3

/-! ### one iteration -/

theorem Ud_out (T : Skyline K R) (i c : Nat) (h : ¬ (i < c ∧ c ≤ i + (T.P (c + 1) - T.P c))) : Ud T i c = 0 := by
  unfold Ud; rw [if_neg h]
theorem Ld_out (T : Skyline K R) (c j : Nat) (h : ¬ (j < c ∧ c ≤ j + (T.P (c + 1) - T.P c))) : Ld T c j = 0 := by
  unfold Ld; rw [if_neg h]

/-- the scaling of `U(0,k+1)` by `D[0]` (252-255) -/
theorem scale_spec (S : Skyline K R) (hst : StorageWF S) (c : Nat) (hc : 0 < c) (hcn : c < S.n) :
    ∃ SA : Skyline K R,
      (if S.P c + c = S.P (c + 1)
        then { S with U := S.U.setIfInBounds (S.P c) (S.D.getD 0 0 * S.U.getD (S.P c) 0) } else S) = SA ∧
      StorageWF SA ∧ SA.n = S.n ∧ SA.perm = S.perm ∧ SA.ptr = S.ptr ∧ SA.y = S.y ∧ SA.L = S.L ∧ SA.D = S.D ∧
      ∀ i j, j < S.n → Ud SA i j = if i = 0 ∧ j = c then Dd S 0 * Ud S 0 c else Ud S i j := by
  obtain ⟨hc1, hc2⟩ := hst.prof c hcn
  by_cases hcond : S.P c + c = S.P (c + 1)
  · rw [if_pos hcond]
    refine ⟨_, rfl, storageWF_setU S hst _ _, rfl, rfl, rfl, rfl, rfl, rfl, ?_⟩
    have hprof : 0 < c ∧ c ≤ 0 + (S.P (c + 1) - S.P c) := by omega
    have hset := Ud_setU S hst 0 c (S.D.getD 0 0 * S.U.getD (S.P c) 0) hcn hprof
    have e : S.P (c + 1) + 0 - c = S.P c := by omega
    rw [e] at hset
    intro i j hj
    rw [hset i j hj]
    have hv : Ud S 0 c = S.U.getD (S.P c) 0 := by unfold Ud; rw [if_pos hprof, e]
    rw [hv]; rfl
  · rw [if_neg hcond]
    refine ⟨S, rfl, hst, rfl, rfl, rfl, rfl, rfl, rfl, ?_⟩
    intro i j _
    by_cases h : i = 0 ∧ j = c
    · obtain ⟨rfl, rfl⟩ := h
      rw [if_pos ⟨rfl, rfl⟩, Ud_out S 0 j (by omega), mul_zero]
    · rw [if_neg h]

theorem factorStepLU_eq (S : Skyline K R) (k : Nat) :
    factorStepLU S k =
      (let SA := if S.P (k + 1) + (k + 1) = S.P (k + 1 + 1)
          then { S with U := S.U.setIfInBounds (S.P (k + 1)) (S.D.getD 0 0 * S.U.getD (S.P (k + 1)) 0) } else S
       { SA with L := factorRowL SA (factorColU SA k) k, U := factorColU SA k }) := rfl

/-- what one iteration (before the zero test) does to the dense embeddings -/
theorem stepLU_spec (S : Skyline K R) (hst : StorageWF S) (k : Nat) (hk : k + 1 < S.n) :
    StorageWF (factorStepLU S k) ∧ SameFrame S (factorStepLU S k) ∧ (factorStepLU S k).D = S.D ∧
    (∀ i j, j < S.n → j ≠ k + 1 → Ud (factorStepLU S k) i j = Ud S i j) ∧
    (∀ i, i < k + 1 → Ud (factorStepLU S k) i (k + 1)
      = Dd S i * (Ud S i (k + 1) - ∑ j ∈ range i, Ld S i j * Ud (factorStepLU S k) j (k + 1))) ∧
    (∀ i j, i < S.n → i ≠ k + 1 → Ld (factorStepLU S k) i j = Ld S i j) ∧
    (∀ j, j < k + 1 → Ld (factorStepLU S k) (k + 1) j
      = Ld S (k + 1) j - ∑ m ∈ range j, Ld (factorStepLU S k) (k + 1) m * Ud (factorStepLU S k) m j) := by
  rw [factorStepLU_eq]
  obtain ⟨SA, hSA, hstA, hnA, hpermA, hptrA, hyA, hLA, hDA, hUdA⟩ := scale_spec S hst (k + 1) (by omega) hk
  rw [hSA]
  simp only
  have hPA : ∀ i, SA.P i = S.P i := by intro i; unfold P; rw [hptrA]
  have hLdA : ∀ i j, Ld SA i j = Ld S i j := by intro i j; unfold Ld; rw [hPA, hPA, hLA]
  have hDdA : ∀ i, Dd SA i = Dd S i := by intro i; unfold Dd; rw [hDA]
  obtain ⟨hc1, hc2⟩ := hst.prof (k + 1) hk
  have hkA : k + 1 < SA.n := by rw [hnA]; exact hk
  -- column loop
  rw [factorColU_eq]
  have hlenA : k + 1 + SA.P (k + 1) - SA.P (k + 1 + 1) + (k + 1 - (k + 1 + SA.P (k + 1) - SA.P (k + 1 + 1))) = k + 1 := by
    rw [hPA, hPA]; omega
  obtain ⟨hstB, houtB, hinB⟩ := colFold_spec SA hstA (k + 1) hkA (k + 1 - (k + 1 + SA.P (k + 1) - SA.P (k + 1 + 1))) (by omega)
  rw [hlenA] at houtB hinB
  generalize (List.range' (k + 1 + SA.P (k + 1) - SA.P (k + 1 + 1)) (k + 1 - (k + 1 + SA.P (k + 1) - SA.P (k + 1 + 1)))).foldl
    (colBody SA (k + 1)) SA.U = U' at hstB houtB hinB ⊢
  -- the column formula for every row above the diagonal
  have hcol : ∀ i, i < k + 1 → Ud { SA with U := U' } i (k + 1)
      = Dd S i * (Ud S i (k + 1) - ∑ j ∈ range i, Ld S i j * Ud { SA with U := U' } j (k + 1)) := by
    intro i hi
    by_cases hprof : i < k + 1 ∧ k + 1 ≤ i + (S.P (k + 1 + 1) - S.P (k + 1))
    · by_cases hi0 : i = 0
      · subst hi0
        rw [houtB 0 (k + 1) hkA (Or.inr (Or.inr (Or.inr rfl))), hUdA 0 (k + 1) hk, if_pos ⟨rfl, rfl⟩]
        simp only [range_zero, sum_empty, sub_zero]
      · rw [hinB i (by rw [hPA, hPA]; omega) hi hi0, hDdA, hUdA i (k + 1) hk, if_neg (fun e => hi0 e.1)]
        congr 2
        apply sum_congr rfl; intro j _; rw [hLdA]
    · have z1 : Ud { SA with U := U' } i (k + 1) = 0 := Ud_out _ i (k + 1) (by
        show ¬ (i < k + 1 ∧ k + 1 ≤ i + (SA.P (k + 1 + 1) - SA.P (k + 1))); rw [hPA, hPA]; exact hprof)
      have z2 : Ud S i (k + 1) = 0 := Ud_out S i (k + 1) hprof
      have z3 : ∑ j ∈ range i, Ld S i j * Ud { SA with U := U' } j (k + 1) = 0 := by
        apply sum_eq_zero; intro j hj
        have := mem_range.mp hj
        have : Ud { SA with U := U' } j (k + 1) = 0 := Ud_out _ j (k + 1) (by
          show ¬ (j < k + 1 ∧ k + 1 ≤ j + (SA.P (k + 1 + 1) - SA.P (k + 1))); rw [hPA, hPA]; omega)
        rw [this, mul_zero]
      rw [z1, z2, z3, sub_zero, mul_zero]
  have hUother : ∀ i j, j < S.n → j ≠ k + 1 → Ud { SA with U := U' } i j = Ud S i j := by
    intro i j hj hne
    rw [houtB i j (by rw [hnA]; exact hj) (Or.inl hne), hUdA i j hj, if_neg (fun e => hne e.2)]
  -- row loop
  obtain ⟨hstC0, houtC0, hinC0⟩ := rowFold_spec { SA with U := U' } hstB (k + 1) hkA
    (k + 1 - (k + 1 + SA.P (k + 1) - SA.P (k + 1 + 1))) (by
      show k + 1 + SA.P (k + 1) - SA.P (k + 1 + 1) + (k + 1 - (k + 1 + SA.P (k + 1) - SA.P (k + 1 + 1))) ≤ k + 1
      omega)
  have hstC : StorageWF { SA with L := factorRowL SA U' k, U := U' } := hstC0
  have houtC : ∀ i j, i < SA.n → (i ≠ k + 1 ∨ j < k + 1 + SA.P (k + 1) - SA.P (k + 1 + 1) ∨
        k + 1 + SA.P (k + 1) - SA.P (k + 1 + 1) + (k + 1 - (k + 1 + SA.P (k + 1) - SA.P (k + 1 + 1))) ≤ j ∨ j = 0) →
      Ld { SA with L := factorRowL SA U' k, U := U' } i j = Ld { SA with U := U' } i j := houtC0
  have hinC : ∀ j, k + 1 + SA.P (k + 1) - SA.P (k + 1 + 1) ≤ j →
      j < k + 1 + SA.P (k + 1) - SA.P (k + 1 + 1) + (k + 1 - (k + 1 + SA.P (k + 1) - SA.P (k + 1 + 1))) → j ≠ 0 →
      Ld { SA with L := factorRowL SA U' k, U := U' } (k + 1) j
        = Ld { SA with U := U' } (k + 1) j - ∑ m ∈ range j,
            Ld { SA with L := factorRowL SA U' k, U := U' } (k + 1) m * Ud { SA with U := U' } m j := hinC0
  rw [hlenA] at houtC hinC
  clear hstC0 houtC0 hinC0
  generalize factorRowL SA U' k = L' at hstC houtC hinC ⊢
  have hLdB : ∀ i j, Ld { SA with U := U' } i j = Ld S i j := fun i j => (Ld_withU SA U' i j).trans (hLdA i j)
  have hrow : ∀ j, j < k + 1 → Ld { SA with L := L', U := U' } (k + 1) j
      = Ld S (k + 1) j - ∑ m ∈ range j, Ld { SA with L := L', U := U' } (k + 1) m * Ud { SA with U := U' } m j := by
    intro j hj
    by_cases hprof : j < k + 1 ∧ k + 1 ≤ j + (S.P (k + 1 + 1) - S.P (k + 1))
    · by_cases hj0 : j = 0
      · subst hj0
        have := houtC (k + 1) 0 hkA (Or.inr (Or.inr (Or.inr rfl)))
        rw [show Ld { SA with L := L', U := U' } (k + 1) 0 = Ld S (k + 1) 0 from this.trans (hLdB _ _)]
        simp only [range_zero, sum_empty, sub_zero]
      · have := hinC j (by show k + 1 + SA.P (k + 1) - SA.P (k + 1 + 1) ≤ j; rw [hPA, hPA]; omega) hj hj0
        rw [hLdB] at this
        exact this
    · have z1 : Ld { SA with L := L', U := U' } (k + 1) j = 0 := Ld_out _ (k + 1) j (by
        show ¬ (j < k + 1 ∧ k + 1 ≤ j + (SA.P (k + 1 + 1) - SA.P (k + 1))); rw [hPA, hPA]; exact hprof)
      have z2 : Ld S (k + 1) j = 0 := Ld_out S (k + 1) j hprof
      have z3 : ∑ m ∈ range j, Ld { SA with L := L', U := U' } (k + 1) m * Ud { SA with U := U' } m j = 0 := by
        apply sum_eq_zero; intro m hm
        have := mem_range.mp hm
        have : Ld { SA with L := L', U := U' } (k + 1) m = 0 := Ld_out _ (k + 1) m (by
          show ¬ (m < k + 1 ∧ k + 1 ≤ m + (SA.P (k + 1 + 1) - SA.P (k + 1))); rw [hPA, hPA]; omega)
        rw [this, zero_mul]
      rw [z1, z2, z3, sub_zero]
  refine ⟨hstC, ⟨hnA, hpermA, hptrA, hyA⟩, hDA, ?_, ?_, ?_, ?_⟩
  · intro i j hj hne; exact hUother i j hj hne
  · intro i hi; exact hcol i hi
  · intro i j hi hne
    have := houtC i j (by rw [hnA]; exact hi) (Or.inl hne)
    exact this.trans (hLdB i j)
  · intro j hj; exact hrow j hj

/-! ### the pivot, the loop, the result -/

theorem pivotSum_eq (T : Skyline K R) (hwf : T.WFProfile) (k : Nat) (hk : k + 1 < T.n) :
    pivotSum T k = Dd T (k + 1) - ∑ m ∈ range (k + 1), Ld T (k + 1) m * Ud T m (k + 1) := by
  obtain ⟨h1, h2⟩ := hwf (k + 1) hk
  have hd := dot_profile T T (fun _ => rfl) hwf (k + 1) (k + 1) (k + 1) hk hk (le_refl _) (le_refl _)
    (by omega) (by omega)
  have e1 : k + 1 - (k + 1 + T.P (k + 1) - T.P (k + 1 + 1)) = T.P (k + 1 + 1) - T.P (k + 1) := by omega
  rw [Nat.max_self, Nat.add_sub_cancel, e1] at hd
  unfold pivotSum
  rw [dotSub_eq]
  show T.D.getD (k + 1) 0 - ∑ t ∈ range (T.P (k + 1 + 1) - T.P (k + 1)),
      T.L.getD (T.P (k + 1) + t) 0 * T.U.getD (T.P (k + 1) + t) 0 = _
  rw [hd]; rfl

/-- `Σ_m L̃(i,m)·Ũ(m,j)` in reduced form -/
theorem sum_LtUt (pv : Nat → K) (S : Skyline K R) (i j : Nat) (hi : i < S.n) (hj : j < S.n) :
    ∑ m ∈ range S.n, Lt pv S i m * Ut S m j = croutRed pv (Ld S) (Ud S) i j := by
  unfold croutRed
  have hμ : min i j < S.n := by omega
  rw [show (∑ m ∈ range S.n, Lt pv S i m * Ut S m j) = ∑ m ∈ Ico 0 S.n, Lt pv S i m * Ut S m j from by rw [range_eq_Ico],
    ← sum_Ico_consecutive _ (Nat.zero_le (min i j)) (le_of_lt hμ), sum_eq_sum_Ico_succ_bot hμ]
  have a : ∑ m ∈ Ico 0 (min i j), Lt pv S i m * Ut S m j = ∑ m ∈ range (min i j), Ld S i m * Ud S m j := by
    rw [range_eq_Ico]
    apply sum_congr rfl; intro m hm
    have := (mem_Ico.mp hm).2
    unfold Lt Ut; rw [if_pos (by omega), if_pos (by omega)]
  have c : ∑ m ∈ Ico (min i j + 1) S.n, Lt pv S i m * Ut S m j = 0 := by
    apply sum_eq_zero; intro m hm
    have := (mem_Ico.mp hm).1
    by_cases h : i < m
    · unfold Lt; rw [if_neg (by omega), if_neg (by omega), zero_mul]
    · unfold Ut; rw [if_neg (by omega), if_neg (by omega), mul_zero]
  have b : Lt pv S i (min i j) * Ut S (min i j) j
      = if i < j then pv i * Ud S i j else if i = j then pv i else Ld S i j := by
    by_cases h1 : i < j
    · have e : min i j = i := by omega
      rw [e, if_pos h1]; unfold Lt Ut
      rw [if_neg (lt_irrefl i), if_pos rfl, if_pos h1]
    · by_cases h2 : i = j
      · subst h2
        rw [Nat.min_self, if_neg h1, if_pos rfl]; unfold Lt Ut
        rw [if_neg (lt_irrefl i), if_pos rfl, if_neg (lt_irrefl i), if_pos rfl, mul_one]
      · have e : min i j = j := by omega
        rw [e, if_neg h1, if_neg h2]; unfold Lt Ut
        rw [if_pos (by omega), if_neg (lt_irrefl j), if_pos rfl, mul_one]
  rw [a, b, c, add_zero]

/-- the state of the factorisation: storage, frame, and the algebraic invariant on the dense embeddings; `pv` are the
pivots found so far (the stored `D[i]` are their images under `inv`) -/
structure CroutState (S0 S : Skyline K R) (c : Nat) (pv : Nat → K) : Prop where
  storage : StorageWF S
  frame : SameFrame S0 S
  inv : CroutInv S0.n c (Emb S0) (Ld S) (Ud S) (Dd S) pv

/-- **the pivots that occur have right inverses**: `inv` applied to the first diagonal entry and to every pivot
candidate `D[k+1] − Σ L[j]*U[j]` met by the main loop of `factorize()` returns a right inverse (`a * inv a = 1`).
Nothing is required of `inv` on any other argument (for block values `math::inverse` of a singular non-zero block is
not defined: `detail::inverse` asserts). -/
def PivotsOK (isZero : K → Bool) (inv : K → K) (S : Skyline K R) : Prop :=
  S.D.getD 0 0 * inv (S.D.getD 0 0) = 1 ∧
  ∀ k Sk, k < S.n - 1 → factorLoop isZero inv { S with D := S.D.setIfInBounds 0 (inv (S.D.getD 0 0)) } k = .ok Sk →
    pivotSum (factorStepLU Sk k) k * inv (pivotSum (factorStepLU Sk k) k) = 1

theorem factorStep_state {isZero : K → Bool} {inv : K → K} {S0 S S' : Skyline K R} {k : Nat} {pv : Nat → K}
    (hk : k + 1 < S0.n) (h : CroutState S0 S (k + 1) pv) (hstep : factorStep isZero inv S k = .ok S')
    (hinv : pivotSum (factorStepLU S k) k * inv (pivotSum (factorStepLU S k) k) = 1) :
    CroutState S0 S' (k + 1 + 1) (fun i => if i = k + 1 then pivotSum (factorStepLU S k) k else pv i) := by
  obtain ⟨_, hS'⟩ := factorStep_ok hstep
  have hn : S.n = S0.n := h.frame.1
  have hkS : k + 1 < S.n := by rw [hn]; exact hk
  obtain ⟨hst2, hfr2, hD2, hUo, hUc, hLo, hLc⟩ := stepLU_spec S h.storage k hkS
  generalize factorStepLU S k = S2 at *
  have hkS2 : k + 1 < S2.n := by rw [hfr2.1]; exact hkS
  have hpiv := pivotSum_eq S2 hst2.prof k hkS2
  have hDd2 : ∀ i, Dd S2 i = Dd S i := by intro i; unfold Dd; rw [hD2]
  rw [hDd2] at hpiv
  subst hS'
  refine ⟨storageWF_setD S2 hst2 _ _, h.frame.trans (hfr2.trans ⟨rfl, rfl, rfl, rfl⟩), ?_⟩
  have hDd' : ∀ i, Dd { S2 with D := S2.D.setIfInBounds (k + 1) (inv (pivotSum S2 k)) } i
      = if i = k + 1 then inv (pivotSum S2 k) else Dd S i := by
    intro i
    show (S2.D.setIfInBounds (k + 1) (inv (pivotSum S2 k))).getD i 0 = _
    rw [getD_setIfInBounds]
    by_cases hi : i = k + 1
    · subst hi; rw [if_pos ⟨rfl, by rw [hst2.sizeD]; exact hkS2⟩, if_pos rfl]
    · rw [if_neg (fun e => hi e.1.symm), if_neg hi]; exact hDd2 i
  apply croutInv_step (ld' := Ld S2) (ud' := Ud S2) hk h.inv
  · intro i hi; exact hUc i hi
  · intro j hj; exact hLc j hj
  · show (if k + 1 = k + 1 then pivotSum S2 k else pv (k + 1)) = _
    rw [if_pos rfl, hpiv]
  · show (if k + 1 = k + 1 then pivotSum S2 k else pv (k + 1)) * _ = 1
    rw [if_pos rfl, hDd' (k + 1), if_pos rfl]; exact hinv
  · intro i j hj hne'; exact hUo i j (by rw [hn]; exact hj) hne'
  · intro i j hi hne'; exact hLo i j (by rw [hn]; exact hi) hne'
  · intro i hi; rw [hDd' i, if_neg hi]
  · intro i hi; show (if i = k + 1 then _ else pv i) = pv i; rw [if_neg hi]

theorem factorLoop_state {isZero : K → Bool} {inv : K → K} {S0 S1 : Skyline K R} {pv1 : Nat → K}
    (h1 : CroutState S0 S1 1 pv1) (m : Nat) (hm : m + 1 ≤ S0.n)
    (hpi : ∀ k Sk, k < m → factorLoop isZero inv S1 k = .ok Sk →
      pivotSum (factorStepLU Sk k) k * inv (pivotSum (factorStepLU Sk k) k) = 1) :
    ∀ S', factorLoop isZero inv S1 m = .ok S' → ∃ pv, CroutState S0 S' (m + 1) pv := by
  induction m with
  | zero => intro S' h; injection h with h; subst h; exact ⟨pv1, h1⟩
  | succ m ih =>
    intro S' h
    unfold factorLoop at h
    split at h
    · exact absurd h (by simp)
    · rename_i S2 h2
      obtain ⟨pv, hst⟩ := ih (by omega) (fun k Sk hk hr => hpi k Sk (by omega) hr) S2 h2
      exact ⟨_, factorStep_state (by omega) hst h (hpi m S2 (by omega) h2)⟩

/-- **Crout's loop in the profile storage factorises the dense embedding of the storage it starts from**, over a
non-commutative ring: `E = L̃·Ũ` with the lower factor (pivots `pv` on its diagonal) on the left, the unit upper factor
on the right, and the stored `D[i]` right inverses of the pivots. -/
theorem factorize_spec (isZero : K → Bool) (inv : K → K) (S S' : Skyline K R) (hst : StorageWF S)
    (h : factorize isZero inv S = .ok S') (hn : 1 ≤ S.n) (hpi : PivotsOK isZero inv S) :
    StorageWF S' ∧ SameFrame S S' ∧ ∃ pv : Nat → K, (∀ i, i < S.n → pv i * Dd S' i = 1) ∧
    ∀ i j, i < S.n → j < S.n → Emb S i j = ∑ m ∈ range S.n, Lt pv S' i m * Ut S' m j := by
  rw [factorize_of_pos (by omega)] at h
  split at h
  · exact absurd h (by simp)
  · have h1 : CroutState S { S with D := S.D.setIfInBounds 0 (inv (S.D.getD 0 0)) } 1 (fun _ => S.D.getD 0 0) := by
      refine ⟨storageWF_setD S hst _ _, ⟨rfl, rfl, rfl, rfl⟩, ?_⟩
      apply croutInv_init
      · intro i j _ hji; unfold Emb; rw [if_pos hji]; rfl
      · intro i j _ hij; unfold Emb; rw [if_neg (by omega), if_pos hij]; rfl
      · intro i _ hi
        show (S.D.setIfInBounds 0 (inv (S.D.getD 0 0))).getD i 0 = Emb S i i
        rw [getD_setIfInBounds_ne _ _ _ (by omega)]
        unfold Emb; rw [if_neg (lt_irrefl i), if_neg (lt_irrefl i)]; rfl
      · show S.D.getD 0 0 = Emb S 0 0
        unfold Emb; rw [if_neg (lt_irrefl 0), if_neg (lt_irrefl 0)]; rfl
      · show S.D.getD 0 0 * (S.D.setIfInBounds 0 (inv (S.D.getD 0 0))).getD 0 0 = 1
        rw [getD_setIfInBounds_self _ _ _ (by rw [hst.sizeD]; omega)]
        exact hpi.1
    obtain ⟨pv, hfin⟩ := factorLoop_state h1 (S.n - 1) (by omega) hpi.2 S' h
    have hnn : S.n - 1 + 1 = S.n := by omega
    rw [hnn] at hfin
    have hfr := hfin.frame
    refine ⟨hfin.storage, hfr, pv, fun i hi => hfin.inv.piv i hi, ?_⟩
    intro i j hi hj
    rw [hfin.inv.done i j hi hj]
    have := sum_LtUt pv S' i j (by rw [hfr.1]; exact hi) (by rw [hfr.1]; exact hj)
    rw [hfr.1] at this
    exact this.symm

/-- a total right inverse on the values that pass the zero test (division rings; any `isZero` that rejects every
non-unit) makes every pivot that occurs invertible -/
theorem pivotsOK_of_global {isZero : K → Bool} {inv : K → K} {S S' : Skyline K R} (hn : S.n ≠ 0)
    (hinv : ∀ a, isZero a = false → a * inv a = 1) (h : factorize isZero inv S = .ok S') : PivotsOK isZero inv S := by
  rw [factorize_of_pos hn] at h
  split at h
  · exact absurd h (by simp)
  · rename_i h0
    refine ⟨hinv _ (by simpa using h0), ?_⟩
    intro k Sk hk hrun
    obtain ⟨Sk', hrun', hz⟩ := factorLoop_ok_pivots (S.n - 1) S' h k hk
    rw [hrun] at hrun'
    injection hrun' with e
    subst e
    exact hinv _ hz

/-- the pivot candidate of iteration `k` is the Schur complement entry `E(k+1,k+1) − Σ_{m≤k} L(k+1,m)·U(m,k+1)` of the
storage the factorisation started from -/
theorem pivot_schur {S0 S : Skyline K R} {k : Nat} {pv : Nat → K} (hk : k + 1 < S0.n) (h : CroutState S0 S (k + 1) pv) :
    pivotSum (factorStepLU S k) k
      = Emb S0 (k + 1) (k + 1) - ∑ m ∈ range (k + 1), Ld (factorStepLU S k) (k + 1) m * Ud (factorStepLU S k) m (k + 1) := by
  have hn : S.n = S0.n := h.frame.1
  have hkS : k + 1 < S.n := by rw [hn]; exact hk
  obtain ⟨hst2, hfr2, hD2, _⟩ := stepLU_spec S h.storage k hkS
  have hkS2 : k + 1 < (factorStepLU S k).n := by rw [hfr2.1]; exact hkS
  rw [pivotSum_eq _ hst2.prof k hkS2]
  have : Dd (factorStepLU S k) (k + 1) = Emb S0 (k + 1) (k + 1) := by
    unfold Dd; rw [hD2]; exact h.inv.rawD (k + 1) hk (le_refl _)
  rw [this]

/-! ### the constructor's storage -/

theorem fillLUD_sizes {V : Type} [Zero V] (isZero : V → Bool) (A : CRS V) (n : Nat) (invperm ptr : Array Nat)
    (LUD : Array V × Array V × Array V) :
    (fillLUD isZero A n invperm ptr LUD).1.size = LUD.1.size ∧
    (fillLUD isZero A n invperm ptr LUD).2.1.size = LUD.2.1.size ∧
    (fillLUD isZero A n invperm ptr LUD).2.2.size = LUD.2.2.size := by
  unfold fillLUD
  apply foldl_inv (fun X : Array V × Array V × Array V =>
    X.1.size = LUD.1.size ∧ X.2.1.size = LUD.2.1.size ∧ X.2.2.size = LUD.2.2.size)
  · exact ⟨rfl, rfl, rfl⟩
  · intro X i hX
    apply foldl_inv (fun X : Array V × Array V × Array V =>
      X.1.size = LUD.1.size ∧ X.2.1.size = LUD.2.1.size ∧ X.2.2.size = LUD.2.2.size) _ _ _ hX
    intro X cv ⟨h1, h2, h3⟩
    simp only
    split
    · split
      · exact ⟨h1, by rw [Array.size_setIfInBounds]; exact h2, h3⟩
      · split
        · exact ⟨h1, h2, by rw [Array.size_setIfInBounds]; exact h3⟩
        · exact ⟨by rw [Array.size_setIfInBounds]; exact h1, h2, h3⟩
    · exact ⟨h1, h2, h3⟩

theorem build_storage (isZero : K → Bool) (A : CRS K) (perm : Array Nat) [Zero R] :
    StorageWF (build (R := R) isZero A perm) := by
  refine ⟨build_profile _ A perm, ?_, ?_, ?_⟩
  · have := (fillLUD_sizes isZero A A.nrows (invPerm A.nrows perm)
      (prefixPtr A.nrows (profileLens isZero A A.nrows (invPerm A.nrows perm)))
      (Array.replicate ((prefixPtr A.nrows (profileLens isZero A A.nrows (invPerm A.nrows perm))).getD A.nrows 0) 0,
       Array.replicate ((prefixPtr A.nrows (profileLens isZero A A.nrows (invPerm A.nrows perm))).getD A.nrows 0) 0,
       Array.replicate A.nrows 0)).1
    show (fillLUD _ A A.nrows _ _ _).1.size = _
    rw [this, Array.size_replicate]; rfl
  · have := (fillLUD_sizes isZero A A.nrows (invPerm A.nrows perm)
      (prefixPtr A.nrows (profileLens isZero A A.nrows (invPerm A.nrows perm)))
      (Array.replicate ((prefixPtr A.nrows (profileLens isZero A A.nrows (invPerm A.nrows perm))).getD A.nrows 0) 0,
       Array.replicate ((prefixPtr A.nrows (profileLens isZero A A.nrows (invPerm A.nrows perm))).getD A.nrows 0) 0,
       Array.replicate A.nrows 0)).2.1
    show (fillLUD _ A A.nrows _ _ _).2.1.size = _
    rw [this, Array.size_replicate]; rfl
  · have := (fillLUD_sizes isZero A A.nrows (invPerm A.nrows perm)
      (prefixPtr A.nrows (profileLens isZero A A.nrows (invPerm A.nrows perm)))
      (Array.replicate ((prefixPtr A.nrows (profileLens isZero A A.nrows (invPerm A.nrows perm))).getD A.nrows 0) 0,
       Array.replicate ((prefixPtr A.nrows (profileLens isZero A A.nrows (invPerm A.nrows perm))).getD A.nrows 0) 0,
       Array.replicate A.nrows 0)).2.2
    show (fillLUD _ A A.nrows _ _ _).2.2.size = _
    rw [this, Array.size_replicate]; rfl

section module
variable [AddCommGroup R] [Module K R]
attribute [local instance] smulHMul

/-- constructor + `factorize()` + `operator()` over a non-commutative ring -/
theorem construct_solve_spec (isZero : K → Bool) (inv : K → K) (A : CRS K) (perm : Array Nat) (S : Skyline K R)
    (hn : 1 ≤ A.nrows) (hp : PermOn A.nrows perm)
    (h : factorize isZero inv (build (R := R) isZero A perm) = .ok S)
    (hpi : PivotsOK isZero inv (build (R := R) isZero A perm))
    (Ad : Nat → Nat → K)
    (hemb : ∀ i j, i < A.nrows → j < A.nrows →
      Ad (perm.getD i 0) (perm.getD j 0) = Emb (build (R := R) isZero A perm) i j)
    (rhs x : Array R) (hx : x.size = A.nrows) :
    ∀ r, r < A.nrows → ∑ c ∈ range A.nrows, Ad r c • (solve S rhs x).1.getD c 0 = rhs.getD r 0 := by
  obtain ⟨hst, hfr, pv, hD, hfac⟩ := factorize_spec isZero inv _ S (build_storage isZero A perm) h hn hpi
  have hSn : S.n = A.nrows := hfr.1
  have hSperm : S.perm = perm := hfr.2.1
  have hSy : S.y.size = S.n := by rw [hfr.2.2.2, hSn]; show (Array.replicate A.nrows (0 : R)).size = _; simp
  have := solve_spec pv S Ad rhs x hst.prof (by rw [hSn, hSperm]; exact hp) hSy (by rw [hSn]; exact hx)
    (by intro i hi; exact hD i (by rw [hSn] at hi; exact hi))
    (by intro i j hi hj
        rw [hSn] at hi hj
        rw [hSperm, hemb i j hi hj, hSn]
        exact hfac i j hi hj)
  rw [hSn] at this
  exact this

end module

end SkyNC
end Amgcl
