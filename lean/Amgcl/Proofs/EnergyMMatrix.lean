import Amgcl.Proofs.EnergySmoother
/-!
# Z-matrices with non-negative row sums under aggregation

`ZRow A`: off-diagonal entries `≤ 0`, row sums `≥ 0` (a weakly diagonally dominant M-matrix pattern).
* `ZRow.weakDD` — such a matrix is weakly diagonally dominant by rows;
* `ZRow.galerkin` — if `P` is an aggregation matrix (each row is zero or a unit vector) then `Pᵀ A P` is again `ZRow`.
Hence the hypothesis "every level matrix is weakly diagonally dominant" of the Jacobi / SPAI-0 convergence theorems is
*derived* for plain aggregation from the fine matrix alone.
-/
set_option linter.unusedSectionVars false
namespace Amgcl.Energy
open Matrix Finset

variable {𝕜 : Type*} [Field 𝕜] [LinearOrder 𝕜] [IsStrictOrderedRing 𝕜]
variable {ι κ : Type*} [Fintype ι] [DecidableEq ι] [Fintype κ] [DecidableEq κ]

/-- off-diagonal entries non-positive, row sums non-negative -/
def ZRow (A : Matrix ι ι 𝕜) : Prop := (∀ i j, i ≠ j → A i j ≤ 0) ∧ ∀ i, 0 ≤ ∑ j, A i j

theorem ZRow.rowsum_eq {A : Matrix ι ι 𝕜} (h : ZRow A) (i : ι) : ∑ j, A i j = A i i - offSum A i := by
  unfold offSum
  rw [eq_sub_iff_add_eq, ← Finset.sum_add_distrib, Finset.sum_eq_single i]
  · simp
  · intro j _ hj
    rw [if_neg hj, abs_of_nonpos (h.1 i j (Ne.symm hj))]; ring
  · intro hi; exact absurd (Finset.mem_univ i) hi

theorem ZRow.weakDD {A : Matrix ι ι 𝕜} (h : ZRow A) : WeakDD A := by
  intro i
  have := h.2 i
  rw [h.rowsum_eq i] at this
  linarith

/-- an aggregation matrix: row `i` is the unit vector of aggregate `g i`, or zero if `i` is not aggregated -/
def IsAgg (P : Matrix ι κ 𝕜) : Prop := ∃ g : ι → Option κ, ∀ i J, P i J = if g i = some J then 1 else 0

/-- **the Galerkin operator of a `ZRow` matrix under an aggregation matrix is `ZRow`** -/
theorem ZRow.galerkin {A : Matrix ι ι 𝕜} (h : ZRow A) {P : Matrix ι κ 𝕜} (hP : IsAgg P) : ZRow (Pᵀ * A * P) := by
  obtain ⟨g, hg⟩ := hP
  have entry : ∀ I J, (Pᵀ * A * P) I J = ∑ i, ∑ j, P i I * A i j * P j J := by
    intro I J
    simp only [Matrix.mul_apply, Matrix.transpose_apply, Finset.sum_mul]
    rw [Finset.sum_comm]
  refine ⟨fun I J hIJ => ?_, fun I => ?_⟩
  · rw [entry]
    apply Finset.sum_nonpos; intro i _
    apply Finset.sum_nonpos; intro j _
    rw [hg i I, hg j J]
    by_cases hi : g i = some I
    · by_cases hj : g j = some J
      · have hij : i ≠ j := by
          rintro rfl; rw [hi] at hj; exact hIJ (Option.some.inj hj)
        simp [hi, hj, h.1 i j hij]
      · simp [hj]
    · simp [hi]
  · -- row sum: Σ_J Σ_i Σ_j P iI A ij P jJ = Σ_i P iI Σ_j A ij s_j,  s_j = Σ_J P jJ ∈ {0,1}
    have hs : ∀ j, ∑ J, P j J = if (g j).isSome then 1 else 0 := by
      intro j
      cases hgj : g j with
      | none => simp [hg, hgj]
      | some J0 =>
        simp only [Option.isSome_some, if_true]
        rw [Finset.sum_eq_single J0]
        · simp [hg, hgj]
        · intro J _ hJ; rw [hg, hgj, if_neg]; intro h'; exact hJ (Option.some.inj h').symm
        · intro h'; exact absurd (Finset.mem_univ J0) h'
    have e : ∑ J, (Pᵀ * A * P) I J = ∑ i, P i I * ∑ j, A i j * (∑ J, P j J) := by
      simp only [entry]
      rw [Finset.sum_comm]
      refine Finset.sum_congr rfl fun i _ => ?_
      rw [Finset.sum_comm, Finset.mul_sum]
      refine Finset.sum_congr rfl fun j _ => ?_
      rw [Finset.mul_sum, Finset.mul_sum]
      refine Finset.sum_congr rfl fun J _ => ?_
      ring
    rw [e]
    apply Finset.sum_nonneg; intro i _
    rw [hg i I]
    by_cases hi : g i = some I
    · rw [if_pos hi, one_mul]
      -- Σ_j A ij s_j ≥ Σ_j A ij  since s_i = 1 and A ij ≤ 0, s_j ≤ 1 off the diagonal
      refine le_trans (h.2 i) ?_
      apply Finset.sum_le_sum; intro j _
      rw [hs j]
      by_cases hij : j = i
      · subst hij; simp [hi]
      · have := h.1 i j (Ne.symm hij)
        split
        · simp
        · simp [this]
    · simp [hi]

end Amgcl.Energy
