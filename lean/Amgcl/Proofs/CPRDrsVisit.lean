import Amgcl.Proofs.CPRDrsPass
import Amgcl.Proofs.CPRWeights
/-!
`cpr_drs::first_scalar_pass` (C18): what one visit of a block column does to the accumulators `a_dia`, `a_off`, `a_top`
when the `B` iterators stand on duplicate-free pieces of rows that all lie in block column `cur`:

* `a_top[c] += |K(row 0, cur·B + c)|`
* `cur = ip`: `a_dia[j] = K(row j, cur·B)` where that entry is stored;  `cur ≠ ip`: `a_off[j] += |K(row j, cur·B)|`
-/
set_option linter.unusedSectionVars false
namespace Amgcl.CPRDrs
open Amgcl Amgcl.CPR Amgcl.Arr2

section entry
variable {K : Type} [Field K] [LinearOrder K]

theorem absK_zero : absK (0 : K) = 0 := by simp [absK]

theorem visitEntry_top (B ip cur i : Nat) (a : Acc K) (cv : Nat × K) :
    (visitEntry B ip cur i a cv).top
      = if i = 0 then a.top.setIfInBounds (cv.1 % B) (a.top.getD (cv.1 % B) 0 + absK cv.2) else a.top := by
  unfold visitEntry
  simp only
  split_ifs <;> rfl

theorem visitEntry_dia (B ip cur i : Nat) (a : Acc K) (cv : Nat × K) :
    (visitEntry B ip cur i a cv).dia = if cv.1 % B = 0 ∧ cur = ip then a.dia.setIfInBounds i cv.2 else a.dia := by
  unfold visitEntry
  simp only
  split_ifs <;> simp_all

theorem visitEntry_off (B ip cur i : Nat) (a : Acc K) (cv : Nat × K) :
    (visitEntry B ip cur i a cv).off
      = if cv.1 % B = 0 ∧ cur ≠ ip then a.off.setIfInBounds i (a.off.getD i 0 + absK cv.2) else a.off := by
  unfold visitEntry
  simp only
  split_ifs <;> simp_all

theorem getD_ite {α : Type} (c : Prop) [Decidable c] (a b : Array α) (j : Nat) (d : α) :
    (if c then a else b).getD j d = if c then a.getD j d else b.getD j d := by
  split_ifs <;> rfl

theorem rowGet_cons_nodup (x : Nat × K) (t : Row K) (hnd : ((x :: t).map (·.1)).Nodup) (col : Nat) :
    rowGet (x :: t) col = if x.1 = col then x.2 else rowGet t col := by
  rw [rowGet_cons']
  have hx : x.1 ∉ t.map (·.1) := by
    rw [List.map_cons] at hnd; exact (List.nodup_cons.1 hnd).1
  by_cases h : x.1 = col
  · rw [if_pos h, if_pos h, rowGet_eq_zero_of_not_mem, add_zero]
    intro cv hcv he
    exact hx (by rw [h, ← he]; exact List.mem_map_of_mem hcv)
  · rw [if_neg h, if_neg h, zero_add]

theorem block_col {B cur c : Nat} {x : Nat} (_hB : 0 < B) (hx : x / B = cur) (hc : c < B) :
    x = cur * B + c ↔ x % B = c := by
  have := Nat.div_add_mod x B
  rw [hx] at this
  constructor
  · intro h; rw [h, Nat.mul_comm, Nat.mul_add_mod, Nat.mod_eq_of_lt hc]
  · intro h; rw [← h, Nat.mul_comm]; omega

/-- iterator `i` walks over a duplicate-free piece `l` of its row that lies in block column `cur` -/
theorem visitRow_spec (B ip cur i : Nat) (hB : 0 < B) (hi : i < B) (l : Row K) (hnd : (l.map (·.1)).Nodup)
    (hblk : ∀ cv ∈ l, cv.1 / B = cur) (a : Acc K) (ha : a.Sized B) :
    (∀ c, c < B → (l.foldl (visitEntry B ip cur i) a).top.getD c 0
        = if i = 0 then a.top.getD c 0 + absK (rowGet l (cur * B + c)) else a.top.getD c 0) ∧
    (∀ j, j < B → (l.foldl (visitEntry B ip cur i) a).dia.getD j 0
        = if j = i ∧ cur = ip ∧ (cur * B) ∈ l.map (·.1) then rowGet l (cur * B) else a.dia.getD j 0) ∧
    (∀ j, j < B → (l.foldl (visitEntry B ip cur i) a).off.getD j 0
        = if j = i ∧ cur ≠ ip then a.off.getD j 0 + absK (rowGet l (cur * B)) else a.off.getD j 0) := by
  induction l generalizing a with
  | nil =>
    refine ⟨?_, ?_, ?_⟩
    · intro c _; simp [absK_zero]
    · intro j _; simp
    · intro j _; simp [absK_zero]
  | cons x t ih =>
    have hnd' : (t.map (·.1)).Nodup := by rw [List.map_cons] at hnd; exact (List.nodup_cons.1 hnd).2
    have hxt : x.1 ∉ t.map (·.1) := by rw [List.map_cons] at hnd; exact (List.nodup_cons.1 hnd).1
    have hxb : x.1 / B = cur := hblk x List.mem_cons_self
    have hmod : x.1 % B < B := Nat.mod_lt _ hB
    obtain ⟨hs1, hs2, hs3⟩ := ha
    have ha1 := visitEntry_sized B ip cur i a x ⟨hs1, hs2, hs3⟩
    obtain ⟨iht, ihd, iho⟩ := ih hnd' (fun cv hcv => hblk cv (List.mem_cons_of_mem _ hcv)) (visitEntry B ip cur i a x) ha1
    simp only [List.foldl_cons]
    refine ⟨?_, ?_, ?_⟩
    · intro c hc
      rw [iht c hc, visitEntry_top, rowGet_cons_nodup x t hnd]
      by_cases hi0 : i = 0
      · simp only [hi0, if_true]
        rw [getD_setIfInBounds]
        by_cases hxc : x.1 = cur * B + c
        · have hm : x.1 % B = c := (block_col hB hxb hc).1 hxc
          have h0 : rowGet t (cur * B + c) = 0 := by
            apply rowGet_eq_zero_of_not_mem
            intro cv hcv he
            exact hxt (by rw [hxc, ← he]; exact List.mem_map_of_mem hcv)
          rw [if_pos ⟨hm, by rw [hs3, hm]; exact hc⟩, if_pos hxc, h0, absK_zero, add_zero, hm]
        · have hm : ¬ x.1 % B = c := fun h => hxc ((block_col hB hxb hc).2 h)
          rw [if_neg (fun h => hm h.1), if_neg hxc]
      · simp only [hi0, if_false]
    · intro j hj
      rw [ihd j hj, visitEntry_dia, rowGet_cons_nodup x t hnd, getD_ite]
      have hx0 : x.1 = cur * B ↔ x.1 % B = 0 := by
        have := block_col (c := 0) hB hxb hB
        simpa using this
      rw [getD_setIfInBounds]
      by_cases hxc : x.1 = cur * B
      · have hm0 : x.1 % B = 0 := hx0.1 hxc
        have hnm : (cur * B) ∉ t.map (·.1) := by rw [← hxc]; exact hxt
        have hm : (cur * B) ∈ (x :: t).map (·.1) := by rw [← hxc]; simp
        rw [if_neg (show ¬ (j = i ∧ cur = ip ∧ (cur * B) ∈ t.map (·.1)) from fun h => hnm h.2.2), if_pos hxc]
        by_cases hji : j = i
        · subst hji
          by_cases hci : cur = ip
          · rw [if_pos (show x.1 % B = 0 ∧ cur = ip from ⟨hm0, hci⟩),
              if_pos (show j = j ∧ j < a.dia.size from ⟨rfl, by omega⟩),
              if_pos (show j = j ∧ cur = ip ∧ (cur * B) ∈ (x :: t).map (·.1) from ⟨rfl, hci, hm⟩)]
          · rw [if_neg (show ¬ (x.1 % B = 0 ∧ cur = ip) from fun h => hci h.2),
              if_neg (show ¬ (j = j ∧ cur = ip ∧ (cur * B) ∈ (x :: t).map (·.1)) from fun h => hci h.2.1)]
        · rw [if_neg (show ¬ (i = j ∧ i < a.dia.size) from fun h => hji h.1.symm),
            if_neg (show ¬ (j = i ∧ cur = ip ∧ (cur * B) ∈ (x :: t).map (·.1)) from fun h => hji h.1)]
          split_ifs <;> rfl
      · have hm0 : ¬ x.1 % B = 0 := fun h => hxc (hx0.2 h)
        have hiff : (cur * B) ∈ (x :: t).map (·.1) ↔ (cur * B) ∈ t.map (·.1) := by
          rw [List.map_cons, List.mem_cons]
          constructor
          · rintro (h | h)
            · exact absurd h.symm hxc
            · exact h
          · intro h; exact Or.inr h
        rw [if_neg (show ¬ (x.1 % B = 0 ∧ cur = ip) from fun h => hm0 h.1), if_neg hxc]
        by_cases hc : j = i ∧ cur = ip ∧ (cur * B) ∈ t.map (·.1)
        · rw [if_pos hc, if_pos (show j = i ∧ cur = ip ∧ (cur * B) ∈ (x :: t).map (·.1) from ⟨hc.1, hc.2.1, hiff.2 hc.2.2⟩)]
        · rw [if_neg hc, if_neg (show ¬ (j = i ∧ cur = ip ∧ (cur * B) ∈ (x :: t).map (·.1)) from
            fun h => hc ⟨h.1, h.2.1, hiff.1 h.2.2⟩)]
    · intro j hj
      rw [iho j hj, visitEntry_off, rowGet_cons_nodup x t hnd, getD_ite]
      have hx0 : x.1 = cur * B ↔ x.1 % B = 0 := by
        have := block_col (c := 0) hB hxb hB
        simpa using this
      rw [getD_setIfInBounds]
      by_cases hxc : x.1 = cur * B
      · have hm0 : x.1 % B = 0 := hx0.1 hxc
        have h0 : rowGet t (cur * B) = 0 := by
          apply rowGet_eq_zero_of_not_mem
          intro cv hcv he
          exact hxt (by rw [hxc, ← he]; exact List.mem_map_of_mem hcv)
        by_cases hji : j = i
        · subst hji
          by_cases hci : cur = ip
          · simp [hci]
          · simp [hm0, hci, hs2, hj, hxc, h0, absK_zero]
        · have hij : ¬ i = j := fun h => hji h.symm
          simp [hji, hij]
      · have hm0 : ¬ x.1 % B = 0 := fun h => hxc (hx0.2 h)
        simp [hm0, hxc]

/-- the visit of one block column as a fold over the pieces of the rows -/
def visitFold (B ip cur : Nat) (L : List (Row K)) (a : Acc K) : Acc K :=
  L.zipIdx.foldl (fun (a : Acc K) ki => ki.1.foldl (visitEntry B ip cur ki.2) a) a

theorem visitFold_sized (B ip cur : Nat) (L : List (Row K)) (a : Acc K) (h : a.Sized B) :
    (visitFold B ip cur L a).Sized B := by
  unfold visitFold
  generalize L.zipIdx = Z
  induction Z generalizing a with
  | nil => exact h
  | cons x t ih => exact ih _ (foldl_visitEntry_sized B ip cur x.2 _ a h)

theorem getD_snoc_self {α : Type} (T : List α) (r d : α) : (T ++ [r]).getD T.length d = r := by
  simp [List.getD_eq_getElem?_getD]

theorem getD_snoc_ne {α : Type} (T : List α) (r d : α) (j : Nat) (h : j ≠ T.length) :
    (T ++ [r]).getD j d = T.getD j d := by
  simp only [List.getD_eq_getElem?_getD]
  by_cases hlt : j < T.length
  · rw [List.getElem?_append_left hlt]
  · have e1 : (T ++ [r])[j]? = none := List.getElem?_eq_none (by simp; omega)
    have e2 : T[j]? = none := List.getElem?_eq_none (by omega)
    rw [e1, e2]

/-- **one visit of block column `cur`** by at most `B` iterators standing on duplicate-free pieces inside it -/
theorem visitFold_spec (B ip cur : Nat) (hB : 0 < B) (L : List (Row K)) (hL : L.length ≤ B)
    (hnd : ∀ l ∈ L, (l.map (·.1)).Nodup) (hblk : ∀ l ∈ L, ∀ cv ∈ l, cv.1 / B = cur) (a : Acc K) (ha : a.Sized B) :
    (∀ c, c < B → (visitFold B ip cur L a).top.getD c 0 = a.top.getD c 0 + absK (rowGet (L.getD 0 []) (cur * B + c))) ∧
    (∀ j, j < B → (visitFold B ip cur L a).dia.getD j 0
        = if cur = ip ∧ (cur * B) ∈ (L.getD j []).map (·.1) then rowGet (L.getD j []) (cur * B) else a.dia.getD j 0) ∧
    (∀ j, j < B → (visitFold B ip cur L a).off.getD j 0
        = if cur ≠ ip then a.off.getD j 0 + absK (rowGet (L.getD j []) (cur * B)) else a.off.getD j 0) := by
  induction L using List.reverseRecOn with
  | nil =>
    refine ⟨?_, ?_, ?_⟩
    · intro c _; simp [visitFold, absK_zero]
    · intro j _; simp [visitFold]
    · intro j _; simp [visitFold, absK_zero]
  | append_singleton T r ih =>
    have hlen : T.length < B := by simp at hL; omega
    obtain ⟨iht, ihd, iho⟩ := ih (by omega) (fun l hl => hnd l (List.mem_append_left _ hl))
      (fun l hl => hblk l (List.mem_append_left _ hl))
    have hTs := visitFold_sized B ip cur T a ha
    have hstep : visitFold B ip cur (T ++ [r]) a = r.foldl (visitEntry B ip cur T.length) (visitFold B ip cur T a) := by
      unfold visitFold
      rw [List.zipIdx_append, List.foldl_append]
      simp
    obtain ⟨rt, rd, ro⟩ := visitRow_spec B ip cur T.length hB hlen r (hnd r (by simp)) (hblk r (by simp))
      (visitFold B ip cur T a) hTs
    rw [hstep]
    refine ⟨?_, ?_, ?_⟩
    · intro c hc
      rw [rt c hc, iht c hc]
      by_cases h0 : T.length = 0
      · have hT : T = [] := List.eq_nil_of_length_eq_zero h0
        subst hT
        simp [absK_zero]
      · rw [if_neg h0, getD_snoc_ne T r [] 0 (Ne.symm h0)]
    · intro j hj
      rw [rd j hj, ihd j hj]
      by_cases hjk : j = T.length
      · subst hjk
        have hT : T.getD T.length [] = [] := by simp [List.getD_eq_getElem?_getD]
        rw [getD_snoc_self, hT]
        by_cases hc : cur = ip ∧ (cur * B) ∈ r.map (·.1)
        · rw [if_pos ⟨rfl, hc.1, hc.2⟩, if_pos hc]
        · rw [if_neg (fun h => hc ⟨h.2.1, h.2.2⟩), if_neg hc]
          simp
      · rw [if_neg (fun h => hjk h.1), getD_snoc_ne T r [] j hjk]
    · intro j hj
      rw [ro j hj, iho j hj]
      by_cases hjk : j = T.length
      · subst hjk
        have hT : T.getD T.length [] = [] := by simp [List.getD_eq_getElem?_getD]
        rw [getD_snoc_self, hT]
        by_cases hc : cur = ip
        · rw [if_neg (fun h => h.2 hc), if_neg (fun h => h hc), if_neg (fun h => h hc)]
        · rw [if_pos ⟨rfl, hc⟩, if_pos hc, if_pos hc]
          simp [absK_zero]
      · rw [if_neg (fun h => hjk h.1), getD_snoc_ne T r [] j hjk]

/-- on rows cut at `lo`, the visit works on the entries with `lo ≤ col < e` -/
theorem visit_eq (B ip cur lo e : Nat) (rows : List (Row K)) (hs : ∀ r ∈ rows, Sorted r) (a : Acc K) :
    visit B ip cur e (rows.map (geC lo)) a
      = visitFold B ip cur (rows.map (fun r => r.filter (fun cv => decide (lo ≤ cv.1 ∧ cv.1 < e)))) a := by
  unfold visit visitFold
  rw [List.zipIdx_map, List.zipIdx_map, List.foldl_map, List.foldl_map]
  apply foldl_congr_mem
  intro b ri hri
  have hr : ri.1 ∈ rows := by
    have := (List.mem_zipIdx' (x := ri.1) (i := ri.2) hri).2
    rw [this]; exact List.getElem_mem _
  simp only [Prod.map_fst, Prod.map_snd, id]
  rw [takeWhile_geC (hs ri.1 hr)]

end entry

end Amgcl.CPRDrs
