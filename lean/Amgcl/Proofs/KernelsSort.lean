import Amgcl.Proofs.KernelsCommon
import Amgcl.Proofs.SortRowPerm
/-!
`detail::sort_row` (insertion sort, scanning from the right) and `backend::sort_rows`:
permutation, sortedness, stability, canonical form, denotation.
-/
namespace Amgcl.K2
open Amgcl

section sort
variable {K : Type}

/-- the split performed by the inner `while` of `sort_row` -/
theorem insertFromRight_eq (cv : Nat × K) (pre : Row K) :
    insertFromRight cv pre
      = (pre.reverse.dropWhile (fun e => decide (e.1 > cv.1))).reverse
          ++ cv :: (pre.reverse.takeWhile (fun e => decide (e.1 > cv.1))).reverse := by
  unfold insertFromRight
  simp only [List.span_eq_takeWhile_dropWhile]

theorem pre_split (cv : Nat × K) (pre : Row K) :
    pre = (pre.reverse.dropWhile (fun e => decide (e.1 > cv.1))).reverse
          ++ (pre.reverse.takeWhile (fun e => decide (e.1 > cv.1))).reverse := by
  rw [← List.reverse_append, List.takeWhile_append_dropWhile, List.reverse_reverse]

theorem takeWhile_gt (cv : Nat × K) (l : Row K) :
    ∀ e ∈ l.takeWhile (fun e => decide (e.1 > cv.1)), cv.1 < e.1 := by
  induction l with
  | nil => intro e he; cases he
  | cons a t ih =>
    intro e he
    rw [List.takeWhile_cons] at he
    split at he
    · rename_i ha
      rcases List.mem_cons.1 he with rfl | he
      · simpa using ha
      · exact ih e he
    · cases he

/-- the entries left of the insertion point are `≤` the inserted column, provided the prefix is sorted -/
theorem dropWhile_le (cv : Nat × K) (pre : Row K) (hs : pre.Pairwise (fun a b => a.1 ≤ b.1)) :
    ∀ e ∈ (pre.reverse.dropWhile (fun e => decide (e.1 > cv.1))).reverse, e.1 ≤ cv.1 := by
  intro e he
  rw [List.mem_reverse] at he
  have hrs : pre.reverse.Pairwise (fun a b => b.1 ≤ a.1) := List.pairwise_reverse.2 hs
  generalize pre.reverse = l at he hrs
  induction l with
  | nil => cases he
  | cons a t ih =>
    rw [List.dropWhile_cons] at he
    split at he
    · exact ih he (List.pairwise_cons.1 hrs).2
    · rename_i hna
      have ha : a.1 ≤ cv.1 := by simpa using hna
      rcases List.mem_cons.1 he with rfl | het
      · exact ha
      · exact Nat.le_trans ((List.pairwise_cons.1 hrs).1 e het) ha

theorem insertFromRight_sorted (cv : Nat × K) (pre : Row K)
    (hs : pre.Pairwise (fun a b => a.1 ≤ b.1)) :
    (insertFromRight cv pre).Pairwise (fun a b => a.1 ≤ b.1) := by
  have hsplit := pre_split cv pre
  have hle := dropWhile_le cv pre hs
  have hgt : ∀ e ∈ (pre.reverse.takeWhile (fun e => decide (e.1 > cv.1))).reverse, cv.1 < e.1 := by
    intro e he; exact takeWhile_gt cv _ e (List.mem_reverse.1 he)
  rw [insertFromRight_eq]
  generalize (pre.reverse.dropWhile (fun e => decide (e.1 > cv.1))).reverse = L at *
  generalize (pre.reverse.takeWhile (fun e => decide (e.1 > cv.1))).reverse = R at *
  subst hsplit
  have hp := List.pairwise_append.1 hs
  refine List.pairwise_append.2 ⟨hp.1, List.pairwise_cons.2 ⟨fun b hb => Nat.le_of_lt (hgt b hb), hp.2.1⟩, ?_⟩
  intro a ha b hb
  rcases List.mem_cons.1 hb with rfl | hb
  · exact hle a ha
  · exact hp.2.2 a ha b hb

/-- stability of one insertion: entries of any fixed column keep their relative order, the new one goes last -/
theorem insertFromRight_filter (cv : Nat × K) (pre : Row K) (c : Nat) :
    (insertFromRight cv pre).filter (fun e => decide (e.1 = c))
      = (pre ++ [cv]).filter (fun e => decide (e.1 = c)) := by
  have hgt : ∀ e ∈ (pre.reverse.takeWhile (fun e => decide (e.1 > cv.1))).reverse, cv.1 < e.1 := by
    intro e he; exact takeWhile_gt cv _ e (List.mem_reverse.1 he)
  rw [insertFromRight_eq]
  conv_rhs => rw [pre_split cv pre]
  generalize (pre.reverse.dropWhile (fun e => decide (e.1 > cv.1))).reverse = L at *
  generalize (pre.reverse.takeWhile (fun e => decide (e.1 > cv.1))).reverse = R at *
  simp only [List.filter_append, List.filter_cons, List.filter_nil, List.append_assoc]
  by_cases hc : cv.1 = c
  · have hR : R.filter (fun e => decide (e.1 = c)) = [] := by
      rw [List.filter_eq_nil_iff]
      intro e he
      have := hgt e he
      simp only [decide_eq_true_eq]; omega
    simp [hc, hR]
  · simp [hc]

/-- `sort_row` with an arbitrary already processed prefix -/
def sortFrom (acc r : Row K) : Row K := r.foldl (fun pre cv => insertFromRight cv pre) acc

theorem sortRow_eq_sortFrom (r : Row K) : sortRow r = sortFrom [] r := rfl

theorem sortFrom_perm (acc r : Row K) : (sortFrom acc r).Perm (acc ++ r) := by
  unfold sortFrom
  induction r generalizing acc with
  | nil => simp
  | cons cv t ih =>
    rw [List.foldl_cons]
    refine (ih _).trans ?_
    have := (insertFromRight_perm cv acc).append_right t
    simpa [List.append_assoc] using this

theorem sortFrom_sorted (acc r : Row K) (h : acc.Pairwise (fun a b => a.1 ≤ b.1)) :
    (sortFrom acc r).Pairwise (fun a b => a.1 ≤ b.1) := by
  unfold sortFrom
  induction r generalizing acc with
  | nil => simpa using h
  | cons cv t ih => rw [List.foldl_cons]; exact ih _ (insertFromRight_sorted cv acc h)

theorem sortFrom_filter (acc r : Row K) (c : Nat) :
    (sortFrom acc r).filter (fun e => decide (e.1 = c)) = (acc ++ r).filter (fun e => decide (e.1 = c)) := by
  unfold sortFrom
  induction r generalizing acc with
  | nil => simp
  | cons cv t ih =>
    rw [List.foldl_cons, ih, List.filter_append, insertFromRight_filter, ← List.filter_append]
    simp [List.append_assoc]

theorem sortRow_sorted (r : Row K) : (sortRow r).Pairwise (fun a b => a.1 ≤ b.1) :=
  sortFrom_sorted [] r List.Pairwise.nil

/-- stability: for every column, the sub-list of entries with that column is unchanged -/
theorem sortRow_stable (r : Row K) (c : Nat) :
    (sortRow r).filter (fun e => decide (e.1 = c)) = r.filter (fun e => decide (e.1 = c)) := by
  have := sortFrom_filter [] r c
  rwa [← sortRow_eq_sortFrom, List.nil_append] at this

theorem sortRow_strict (r : Row K) (hn : (r.map (·.1)).Nodup) : StrictCols (sortRow r) :=
  strictCols_of_le_of_nodup (sortRow_sorted r) ((sortRow_cols_perm r).nodup_iff.2 hn)

/-- two strictly sorted rows that are permutations of each other are equal -/
theorem strictCols_perm_eq {r s : Row K} (hr : StrictCols r) (hs : StrictCols s) (h : r.Perm s) : r = s :=
  List.Perm.eq_of_pairwise (le := fun a b : Nat × K => a.1 < b.1)
    (fun _ _ _ _ h1 h2 => absurd h1 (Nat.lt_asymm h2)) hr hs h

/-- the sorted row does not depend on the stored order of the input (distinct columns) -/
theorem sortRow_canonical {r r' : Row K} (hn : (r.map (·.1)).Nodup) (h : r'.Perm r) :
    sortRow r' = sortRow r := by
  have hn' : (r'.map (·.1)).Nodup := ((h.map (·.1)).nodup_iff).2 hn
  exact strictCols_perm_eq (sortRow_strict r' hn') (sortRow_strict r hn)
    ((sortRow_perm r').trans (h.trans (sortRow_perm r).symm))

/-- a strictly sorted row is a fixed point -/
theorem sortRow_of_strict {r : Row K} (h : StrictCols r) : sortRow r = r :=
  strictCols_perm_eq (sortRow_strict r h.nodup) h (sortRow_perm r)

theorem sortRow_idem (r : Row K) : sortRow (sortRow r) = sortRow r := by
  -- sorted (non-strictly) input is left untouched: use stability + sortedness via permutation uniqueness
  -- on the relation "column ≤ and, within one column, the stored order" is heavy; a direct argument:
  -- inserting into a prefix whose columns are all ≤ the new column appends at the end.
  have key : ∀ (acc t : Row K), (acc ++ t).Pairwise (fun a b => a.1 ≤ b.1) → sortFrom acc t = acc ++ t := by
    intro acc t
    induction t generalizing acc with
    | nil => intro _; simp [sortFrom]
    | cons cv t ih =>
      intro hs
      have hacc : ∀ e ∈ acc, e.1 ≤ cv.1 := by
        intro e he
        exact (List.pairwise_append.1 hs).2.2 e he cv List.mem_cons_self
      have hins : insertFromRight cv acc = acc ++ [cv] := by
        rw [insertFromRight_eq]
        have htw : acc.reverse.takeWhile (fun e => decide (e.1 > cv.1)) = [] := by
          cases hr : acc.reverse with
          | nil => rfl
          | cons a l =>
            have : a ∈ acc := by
              have : a ∈ acc.reverse := by rw [hr]; exact List.mem_cons_self
              exact List.mem_reverse.1 this
            have := hacc a this
            rw [List.takeWhile_cons]
            have hd : decide (a.1 > cv.1) = false := by simp; omega
            simp [hd]
        have hdw : acc.reverse.dropWhile (fun e => decide (e.1 > cv.1)) = acc.reverse := by
          have := List.takeWhile_append_dropWhile (p := fun e : Nat × K => decide (e.1 > cv.1)) (l := acc.reverse)
          rw [htw] at this; simpa using this
        rw [htw, hdw]; simp
      show sortFrom (insertFromRight cv acc) t = acc ++ cv :: t
      rw [hins, ih (acc ++ [cv]) (by simpa [List.append_assoc] using hs)]
      simp [List.append_assoc]
  have := key [] (sortRow r) (by simpa using sortRow_sorted r)
  simpa [sortRow_eq_sortFrom] using this

end sort

section denote
variable {K : Type} [AddCommMonoid K]

theorem sortRow_get (r : Row K) (j : Nat) : rowGet (sortRow r) j = rowGet r j := rowGet_sortRow r j

end denote

section sortRows
variable {K : Type}

theorem sortRows_row (A : CRS K) (i : Nat) : (sortRows A).row i = sortRow (A.row i) := by
  unfold sortRows CRS.row
  by_cases hi : i < A.rows.size
  · simp [Array.getD, hi]
  · simp [Array.getD, hi]; rfl

theorem sortRows_nrows (A : CRS K) : (sortRows A).nrows = A.nrows := by
  simp [sortRows, CRS.nrows]

theorem sortRows_ncols (A : CRS K) : (sortRows A).ncols = A.ncols := rfl

theorem sortRows_wf (A : CRS K) (hA : A.WF) : (sortRows A).WF := by
  rw [wf_iff_row]
  intro i _ cv hcv
  rw [sortRows_row] at hcv
  exact row_col_lt hA i ((sortRow_perm _).mem_iff.1 hcv)

theorem sortRows_sortedb (A : CRS K) (hn : A.nodupb = true) : (sortRows A).sortedb = true := by
  rw [sortedb_iff]
  intro i
  rw [sortRows_row]
  exact sortRow_strict _ (nodupb_iff.1 hn i)

theorem sortRows_of_sorted (A : CRS K) (hs : A.sortedb = true) : sortRows A = A := by
  unfold sortRows
  cases A with
  | mk nc rows =>
    simp only [CRS.mk.injEq, true_and]
    apply Array.ext (by simp)
    intro i h1 h2
    simp only [Array.getElem_map]
    apply sortRow_of_strict
    have := sortedb_iff.1 hs i
    rwa [row_eq_getElem _ (by simpa using h2)] at this

end sortRows

end Amgcl.K2
