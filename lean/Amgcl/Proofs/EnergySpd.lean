import Amgcl.Proofs.EnergyHier
import Amgcl.Proofs.EnergySmoother
/-!
# Consequences of the energy-norm contraction: `B` positive definite, spectrum of `1 − B A`

* `posDef_of_contr` — if `1 − B A` is strictly `A`-contracting then `xᵀ B x > 0` for `x ≠ 0` (no symmetry of `B` needed);
* `Contr.eigenvalue_abs_lt_one`, `Contr.complex_eigenvalue_normSq_lt_one` — every eigenvalue of a strictly contracting
  operator has modulus `< 1`; the second statement is the one about *complex* eigenvalues `a + b i` of the real matrix
  `E`, written in real terms (`E u = a u − b v`, `E v = b u + a v` for the real and imaginary parts `u, v` of an
  eigenvector), so that it is available over any ordered field without complexification: "spectral radius `< 1`";
* symmetric cycle: `1 − B A` is `A`-self-adjoint with `0 ≤ ⟪E e, e⟫_A < ⟪e, e⟫_A` (`Hier.posForm`, `form_lt_of_contr`).
-/
set_option linter.unusedSectionVars false
namespace Amgcl.Energy
open Matrix

universe u
variable {𝕜 : Type u} [Field 𝕜] [LinearOrder 𝕜] [IsStrictOrderedRing 𝕜]
variable {ι : Type*} [Fintype ι] [DecidableEq ι]

section general
variable {A B E : Matrix ι ι 𝕜}

/-- `⟪E e, e⟫_A < ⟪e, e⟫_A` for a strictly contracting `E` -/
theorem form_lt_of_contr (hA : IsSPD A) (hE : Contr A E) {e : ι → 𝕜} (he : e ≠ 0) : en A (E *ᵥ e) e < en A e e := by
  have h1 := hE e he
  have h2 := hA.nonneg (E *ᵥ e - e)
  rw [en_sub_sub _ _ _ hA.1] at h2
  linarith

/-- `xᵀ B A⁻¹… ` without inverses: `⟪(1 − B A) e, e⟫_A = ⟪e, e⟫_A − (A e)ᵀ B (A e)` -/
theorem en_one_sub_mul (hA : Aᵀ = A) (e : ι → 𝕜) :
    en A ((1 - B * A) *ᵥ e) e = en A e e - (A *ᵥ e) ⬝ᵥ B *ᵥ (A *ᵥ e) := by
  have h : en A (B *ᵥ (A *ᵥ e)) e = (A *ᵥ e) ⬝ᵥ B *ᵥ (A *ᵥ e) := by
    rw [en_comm A (B *ᵥ (A *ᵥ e)) e hA, en, dotProduct_mulVec e A, ← mulVec_transpose, hA]
  rw [sub_mulVec, one_mulVec, en_sub_left, ← mulVec_mulVec, h]

/-- **`B` is positive definite** whenever the iteration `x ↦ x + B (f − A x)` contracts in the energy norm -/
theorem posDef_of_contr (hA : IsSPD A) (hE : Contr A (1 - B * A)) : PosDefForm B := by
  intro x hx
  obtain ⟨e, rfl⟩ := hA.exists_solve x
  have he : e ≠ 0 := by rintro rfl; simp at hx
  have := form_lt_of_contr hA hE he
  rw [en_one_sub_mul hA.1] at this
  linarith

/-- eigenvalues (in `𝕜`) of a strictly contracting operator lie in `(−1, 1)` -/
theorem Contr.eigenvalue_abs_lt_one (hA : IsSPD A) (hE : Contr A E) {e : ι → 𝕜} (he : e ≠ 0) {lam : 𝕜}
    (hev : E *ᵥ e = lam • e) : |lam| < 1 := by
  have h := hE e he
  rw [hev, en_smul_left, en_smul_right] at h
  have hpos := hA.pos he
  have : lam ^ 2 < 1 := by
    by_contra hcon
    have : 1 ≤ lam ^ 2 := not_lt.mp hcon
    nlinarith
  exact (sq_lt_one_iff_abs_lt_one lam).mp this

/-- **spectral radius `< 1`, in real terms**: if `a + b i` is a complex eigenvalue of the matrix `E` with eigenvector
`u + v i ≠ 0`, i.e. `E u = a u − b v` and `E v = b u + a v`, then `a² + b² < 1` -/
theorem Contr.complex_eigenvalue_normSq_lt_one (hA : IsSPD A) (hE : Contr A E) {u v : ι → 𝕜} (huv : u ≠ 0 ∨ v ≠ 0)
    {a b : 𝕜} (hu : E *ᵥ u = a • u - b • v) (hv : E *ᵥ v = b • u + a • v) : a ^ 2 + b ^ 2 < 1 := by
  have hsum : en A (E *ᵥ u) (E *ᵥ u) + en A (E *ᵥ v) (E *ᵥ v) = (a ^ 2 + b ^ 2) * (en A u u + en A v v) := by
    rw [hu, hv, en_sub_sub _ _ _ hA.1, en_add_add _ _ _ hA.1]
    simp only [en_smul_left, en_smul_right]
    ring
  have hlt : en A (E *ᵥ u) (E *ᵥ u) + en A (E *ᵥ v) (E *ᵥ v) < en A u u + en A v v := by
    rcases huv with h | h
    · exact add_lt_add_of_lt_of_le (hE u h) (hE.nonExp v)
    · exact add_lt_add_of_le_of_lt (hE.nonExp u) (hE v h)
  have hs : 0 < en A u u + en A v v := by
    rcases huv with h | h
    · exact add_pos_of_pos_of_nonneg (hA.pos h) (hA.nonneg v)
    · exact add_pos_of_nonneg_of_pos (hA.nonneg u) (hA.pos h)
  rw [hsum] at hlt
  by_contra hcon
  have : 1 ≤ a ^ 2 + b ^ 2 := not_lt.mp hcon
  nlinarith

end general

/-! ### adjoints and nonnegativity of the form in the symmetric case -/

/-- `T` is the `A`-adjoint of `S` -/
def IsAdjoint (A S T : Matrix ι ι 𝕜) : Prop := ∀ u v : ι → 𝕜, en A (S *ᵥ u) v = en A u (T *ᵥ v)

section adjoint
variable {A S T C E B : Matrix ι ι 𝕜}

theorem isAdjoint_smoother (hA : Aᵀ = A) (N : Matrix ι ι 𝕜) : IsAdjoint A (1 - N * A) (1 - Nᵀ * A) :=
  fun u v => en_smoother_adjoint hA N u v

/-- `1 − B A` is `A`-self-adjoint for symmetric `A`, `B` -/
theorem isAdjoint_of_symm (hA : Aᵀ = A) (hB : Bᵀ = B) : IsAdjoint A (1 - B * A) (1 - B * A) := by
  have := isAdjoint_smoother hA B; rwa [hB] at this

theorem IsAdjoint.symm (hA : Aᵀ = A) (h : IsAdjoint A S T) : IsAdjoint A T S := fun u v => by
  rw [en_comm A _ v hA, ← h, en_comm A _ u hA]

theorem IsAdjoint.pow (h : IsAdjoint A S T) (k : ℕ) : IsAdjoint A (S ^ k) (T ^ k) := by
  induction k with
  | zero => intro u v; simp
  | succ k ih =>
    intro u v
    rw [pow_succ, pow_succ', ← mulVec_mulVec, ih, h, mulVec_mulVec]

theorem posForm_one (hA : IsSPD A) : PosForm A (1 : Matrix ι ι 𝕜) := fun e => by
  rw [one_mulVec]; exact hA.nonneg e

/-- `⟪T C S e, e⟫_A = ⟪C (S e), S e⟫_A ≥ 0` -/
theorem posForm_sandwich (hA : Aᵀ = A) (h : IsAdjoint A S T) (hC : PosForm A C) : PosForm A (T * C * S) := fun e => by
  rw [← mulVec_mulVec, ← mulVec_mulVec, h.symm hA]; exact hC _

theorem posForm_pow (hA : IsSPD A) (hself : IsAdjoint A E E) (hE : PosForm A E) : ∀ k : ℕ, PosForm A (E ^ k)
  | 0 => by simpa using posForm_one hA
  | 1 => by simpa using hE
  | k + 2 => by
    have : E ^ (k + 2) = E * E ^ k * E := by rw [pow_succ, pow_succ']
    rw [this]
    exact posForm_sandwich hA.1 hself (posForm_pow hA hself hE k)

end adjoint

namespace Hier

/-- **symmetric cycle**: the form `⟪(1 − B A) e, e⟫_A` is nonnegative, i.e. `B ≼ A⁻¹` -/
theorem posForm (p : CycPrm) (hnu : p.npre = p.npost) :
    ∀ {n : ℕ} (h : Hier 𝕜 n), h.OK → h.Sym → PosForm h.A (1 - h.B p * h.A)
  | _, direct A, hok, _ => by
    simp only [B, Hier.A]
    rw [IsSPD.inv_mul hok, sub_self]; intro e; simp
  | _, relax A N₁ N₂, hok, hsym => by
    simp only [Sym] at hsym
    subst hsym
    simp only [B, Hier.A]
    rw [one_sub_seqB_mul, one_sub_powB_mul, one_sub_powB_mul, ← hnu]
    have := posForm_sandwich hok.1.1 ((isAdjoint_smoother hok.1.1 N₁).pow p.npre) (posForm_one hok.1)
    rwa [Matrix.mul_one] at this
  | _, level A N₁ N₂ P R next, hok, hsym => by
    obtain ⟨hA, -, -, hR, -, hG, hn⟩ := hok
    obtain ⟨hN, hns⟩ := hsym
    subst hN hR
    have ih := posForm p hnu next hn hns
    have hBc := B_transpose p hnu next hn hns
    simp only [B, Hier.A]
    rw [one_sub_powB_mul]
    apply posForm_pow hA (isAdjoint_of_symm hA.1 (bodyB_transpose p hnu hA.1 P hBc))
    rw [one_sub_bodyB_mul, ← hnu]
    apply posForm_sandwich hA.1 ((isAdjoint_smoother hA.1 N₁).pow p.npre)
    exact cgc_posForm (P := P) (Bc := next.B p) hA hG hn.spd.exists_solve ih

end Hier

end Amgcl.Energy
