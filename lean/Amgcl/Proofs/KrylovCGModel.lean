import Amgcl.Proofs.KrylovCGBridge
import Amgcl.Proofs.KrylovCGTerm
/-!
# Conjugacy, energy minimisation and finite termination for the CG MODEL (C05)

The theorems of `KrylovCG.lean` / `KrylovCGTerm.lean` transported along the bridge `cgPass_br` to the loop states
`cgPass … k` of `Model/SolverCG.lean` (inner product `stdIp`).  Vectors of the model are arrays; the statements that
need linear algebra read them through `vecOf n` (missing entries are `0`, as `getD` reads them in the model).
-/
set_option linter.unusedSectionVars false
set_option linter.unusedVariables false
namespace Amgcl.Krylov
open Amgcl Amgcl.Solver Amgcl.Energy.Bridge Matrix

variable {K : Type} [Field K] [DecidableEq K] [LT K] [DecidableLT K]

/-- the preconditioned Krylov space `K_k(PA, P r₀) = span{(PA)^i P (f − A x₀) : i < k}` of a call, in `Fin n → K` -/
def krylovSpace (n : ℕ) (A : CRS K) (Pl : (Fin n → K) →ₗ[K] (Fin n → K)) (f x0 : Vec K) (k : ℕ) :
    Submodule K (Fin n → K) :=
  Submodule.span K ((fun i : ℕ => (fun v => Pl (matOf A n n *ᵥ v))^[i] (Pl (vecOf n (residual f A x0)))) '' Set.Iio k)

theorem krylovSpace_eq (n : ℕ) (A : CRS K) (Pl : (Fin n → K) →ₗ[K] (Fin n → K)) (f x0 : Vec K) (k : ℕ) :
    krylovSpace n A Pl f x0 k = (cgData n A Pl f x0).krylov k := rfl

/-- the energy `⟨A e, e⟩` of an error vector -/
def energyOf (n : ℕ) (A : CRS K) (e : Fin n → K) : K := (matOf A n n *ᵥ e) ⬝ᵥ e

section model
variable (n : ℕ) (sqrt : K → K) (A : CRS K) (hA : A.WF) (hn : A.nrows = n) (hm : A.ncols = n)
  (hsym : ∀ i, i < n → ∀ j, j < n → A.get i j = A.get j i)
  (P : Vec K → Vec K) (Pl : (Fin n → K) →ₗ[K] (Fin n → K)) (hP : PDenotes n P Pl)
  (hPsym : ∀ u v, Pl u ⬝ᵥ v = u ⬝ᵥ Pl v) (ws : CG.Work K) (f x0 : Vec K) (e : K)
include hA hn hm hsym hP hPsym

/-- **conjugacy for the model**: no breakdown before pass `k` ⇒ for `i ≠ j`, both `≤ k`:
`⟨r_i, P r_j⟩ = 0` and `⟨p_i, A p_j⟩ = 0` (`r_i` the residual vector before pass `i`, `p_i` the direction of pass `i`) -/
theorem model_conjugacy (k : ℕ) (hnb : ModelNoBreakdown (cgPass sqrt A P ws f x0 e) k) (i j : ℕ) (hi : i ≤ k)
    (hj : j ≤ k) (hij : i ≠ j) (z : Vec K) :
    stdIp (cgPass sqrt A P ws f x0 e i).w.r (P (cgPass sqrt A P ws f x0 e j).w.r) = 0 ∧
    stdIp (cgPass sqrt A P ws f x0 e (i + 1)).w.p (spmv 1 A (cgPass sqrt A P ws f x0 e (j + 1)).w.p 0 z) = 0 := by
  have hs := cgData_symm n A hsym Pl hPsym f x0
  have hnb' := noBreakdown_of_model n sqrt A hA hn hm P Pl hP ws f x0 e k hnb
  obtain ⟨ri1, ri2⟩ := pass_r n sqrt A hA hn hm P Pl hP ws f x0 e i
  obtain ⟨rj1, rj2⟩ := pass_r n sqrt A hA hn hm P Pl hP ws f x0 e j
  obtain ⟨pi1, pi2⟩ := pass_p n sqrt A hA hn hm P Pl hP ws f x0 e i
  obtain ⟨pj1, pj2⟩ := pass_p n sqrt A hA hn hm P Pl hP ws f x0 e j
  obtain ⟨z1, z2⟩ := hP _ rj1
  have hcA : ColsLt A n := by rw [← hm]; exact colsLt_of_wf A hA
  constructor
  · rw [stdIp_vecOf n _ _ ri1 z1, z2, ri2, rj2]
    exact (cgData n A Pl f x0).r_orthogonal hs hnb' i j hi hj hij
  · rw [stdIp_vecOf n _ _ pi1 (by rw [spmv_size', hn]), vecOf_spmv0 A hn hcA, pi2, pj2]
    exact (cgData n A Pl f x0).p_conjugate hs hnb' i j hi hj hij

/-- the new residual is orthogonal to all earlier search directions: `⟨r_j, p_i⟩ = 0` for `i < j ≤ k` -/
theorem model_r_orth_p (k : ℕ) (hnb : ModelNoBreakdown (cgPass sqrt A P ws f x0 e) k) (i j : ℕ) (hij : i < j)
    (hj : j ≤ k) :
    stdIp (cgPass sqrt A P ws f x0 e j).w.r (cgPass sqrt A P ws f x0 e (i + 1)).w.p = 0 := by
  have hs := cgData_symm n A hsym Pl hPsym f x0
  have hnb' := noBreakdown_of_model n sqrt A hA hn hm P Pl hP ws f x0 e k hnb
  obtain ⟨rj1, rj2⟩ := pass_r n sqrt A hA hn hm P Pl hP ws f x0 e j
  obtain ⟨pi1, pi2⟩ := pass_p n sqrt A hA hn hm P Pl hP ws f x0 e i
  rw [stdIp_vecOf n _ _ rj1 pi1, rj2, pi2]
  exact ((cgData n A Pl f x0).conj_of_noBreakdown hs k hnb' i j hij hj).2.1

/-- `r0 = A (x* − x0)` for a solution `x*` of `A x* = f` -/
theorem r0_of_solution (xs : Fin n → K) (hxs : matOf A n n *ᵥ xs = vecOf n f) :
    (cgData n A Pl f x0).r0 = (cgData n A Pl f x0).A (xs - (cgData n A Pl f x0).x0) := by
  have hcA : ColsLt A n := by rw [← hm]; exact colsLt_of_wf A hA
  show vecOf n (residual f A x0) = matOf A n n *ᵥ (xs - vecOf n x0)
  rw [vecOf_residual A hn hcA, mulVec_sub, hxs]

/-- the iterate lies in `x₀ + K_k(PA, P r₀)` (no hypothesis on breakdown or definiteness) -/
theorem model_mem_krylov (k : ℕ) :
    vecOf n (cgPass sqrt A P ws f x0 e k).x - vecOf n x0 ∈ krylovSpace n A Pl f x0 k := by
  rw [pass_x n sqrt A hA hn hm P Pl hP ws f x0 e k, krylovSpace_eq]
  exact ((cgData n A Pl f x0).mem_krylov k).1

/-- the carried residual vector is the true residual of the carried iterate (no hypothesis on `P` outside arrays of
length `n`) -/
theorem pass_r_true (k : ℕ) :
    (cgPass sqrt A P ws f x0 e k).w.r = residual f A (cgPass sqrt A P ws f x0 e k).x := by
  have hcA : ColsLt A n := by rw [← hm]; exact colsLt_of_wf A hA
  obtain ⟨r1, r2⟩ := pass_r n sqrt A hA hn hm P Pl hP ws f x0 e k
  apply eq_of_vecOf_eq n _ _ r1 (by rw [residual_size', hn])
  rw [r2, (cgData n A Pl f x0).r_eq_sub k, vecOf_residual A hn hcA, ← pass_x n sqrt A hA hn hm P Pl hP ws f x0 e k]
  show vecOf n (residual f A x0) - matOf A n n *ᵥ (vecOf n (cgPass sqrt A P ws f x0 e k).x - vecOf n x0) = _
  rw [vecOf_residual A hn hcA, mulVec_sub]
  abel

end model

section ordered
variable {K : Type} [Field K] [LinearOrder K] [IsStrictOrderedRing K]
variable (n : ℕ) (sqrt : K → K) (A : CRS K) (hA : A.WF) (hn : A.nrows = n) (hm : A.ncols = n)
  (hsym : ∀ i, i < n → ∀ j, j < n → A.get i j = A.get j i)
  (P : Vec K → Vec K) (Pl : (Fin n → K) →ₗ[K] (Fin n → K)) (hP : PDenotes n P Pl)
  (hPsym : ∀ u v, Pl u ⬝ᵥ v = u ⬝ᵥ Pl v) (ws : CG.Work K) (f x0 : Vec K) (e : K)
include hA hn hm hsym hP hPsym

/-- **energy minimisation for the model**, positive semi-definite `A`, no breakdown before pass `k` -/
theorem model_energy_min (hpos : ∀ v : Fin n → K, 0 ≤ energyOf n A v) (xs : Fin n → K)
    (hxs : matOf A n n *ᵥ xs = vecOf n f) (k : ℕ) (hnb : ModelNoBreakdown (cgPass sqrt A P ws f x0 e) k)
    (y : Fin n → K) (hy : y - vecOf n x0 ∈ krylovSpace n A Pl f x0 k) :
    energyOf n A (xs - vecOf n (cgPass sqrt A P ws f x0 e k).x) ≤ energyOf n A (xs - y) := by
  have hs := cgData_symm n A hsym Pl hPsym f x0
  have hnb' := noBreakdown_of_model n sqrt A hA hn hm P Pl hP ws f x0 e k hnb
  rw [pass_x n sqrt A hA hn hm P Pl hP ws f x0 e k]
  rw [krylovSpace_eq, ← (cgData n A Pl f x0).spanP_eq_krylov hnb'] at hy
  exact (cgData n A Pl f x0).energy_min hs hpos xs
    (r0_of_solution n A hA hn hm hsym P Pl hP hPsym f x0 xs hxs) hnb' y hy

/-- **energy minimisation for the model**, `A` and `P` symmetric positive definite: no breakdown hypothesis -/
theorem model_energy_min_spd (hApd : ∀ v : Fin n → K, v ≠ 0 → 0 < energyOf n A v)
    (hPpd : ∀ v : Fin n → K, v ≠ 0 → 0 < v ⬝ᵥ Pl v) (xs : Fin n → K) (hxs : matOf A n n *ᵥ xs = vecOf n f) (k : ℕ)
    (y : Fin n → K) (hy : y - vecOf n x0 ∈ krylovSpace n A Pl f x0 k) :
    energyOf n A (xs - vecOf n (cgPass sqrt A P ws f x0 e k).x) ≤ energyOf n A (xs - y) := by
  have hs := cgData_symm n A hsym Pl hPsym f x0
  rw [pass_x n sqrt A hA hn hm P Pl hP ws f x0 e k]
  rw [krylovSpace_eq] at hy
  refine (cgData n A Pl f x0).energy_min_definite hs ?_ ?_ ?_ xs
    (r0_of_solution n A hA hn hm hsym P Pl hP hPsym f x0 xs hxs) k y hy
  · intro v hv
    by_contra hne
    exact absurd hv (ne_of_gt (hPpd v hne))
  · intro v hv
    by_contra hne
    exact absurd hv (ne_of_gt (hApd v hne))
  · intro v
    by_cases hv : v = 0
    · subst hv; simp [CGData.energy]
    · exact le_of_lt (hApd v hv)

/-- for SPD `A`, `P` there is no breakdown as long as the carried residual vectors are non-zero -/
theorem model_noBreakdown_spd (hApd : ∀ v : Fin n → K, v ≠ 0 → 0 < energyOf n A v)
    (hPpd : ∀ v : Fin n → K, v ≠ 0 → 0 < v ⬝ᵥ Pl v) (k : ℕ)
    (hr : ∀ i, i < k → (cgPass sqrt A P ws f x0 e i).w.r ≠ vclear n) :
    ModelNoBreakdown (cgPass sqrt A P ws f x0 e) k := by
  have hs := cgData_symm n A hsym Pl hPsym f x0
  have hnb : (cgData n A Pl f x0).NoBreakdown k := by
    apply (cgData n A Pl f x0).noBreakdown_of_definite hs
    · intro v hv; by_contra hne; exact absurd hv (ne_of_gt (hPpd v hne))
    · intro v hv; by_contra hne; exact absurd hv (ne_of_gt (hApd v hne))
    · intro i hi h0
      obtain ⟨r1, r2⟩ := pass_r n sqrt A hA hn hm P Pl hP ws f x0 e i
      apply hr i hi
      apply eq_of_vecOf_eq n _ _ r1 (by simp [vclear])
      rw [r2, h0, vecOf_vclear]
  intro i hi
  rw [pass_rho n sqrt A hA hn hm P Pl hP ws f x0 e i, pass_d n sqrt A hA hn hm P Pl hP ws f x0 e i]
  exact hnb i hi

/-- **finite termination for the model**: for SPD `A`, `P` the carried residual after `n` passes (and after any
larger number of passes) is the zero vector, and the iterate does not move any more -/
theorem model_terminates (hApd : ∀ v : Fin n → K, v ≠ 0 → 0 < energyOf n A v)
    (hPpd : ∀ v : Fin n → K, v ≠ 0 → 0 < v ⬝ᵥ Pl v) (k : ℕ) (hk : n ≤ k) :
    (cgPass sqrt A P ws f x0 e k).w.r = vclear n ∧
    vecOf n (cgPass sqrt A P ws f x0 e k).x = vecOf n (cgPass sqrt A P ws f x0 e n).x := by
  have hs := cgData_symm n A hsym Pl hPsym f x0
  have h0 : (cgData n A Pl f x0).r n = 0 := by
    apply (cgData n A Pl f x0).r_eq_zero_of_finrank hs _ _ n (by simp)
    · intro v hv; by_contra hne; exact absurd hv (ne_of_gt (hPpd v hne))
    · intro v hv; by_contra hne; exact absurd hv (ne_of_gt (hApd v hne))
  obtain ⟨hk1, hk2⟩ := (cgData n A Pl f x0).r_zero_of_le h0 hk
  obtain ⟨r1, r2⟩ := pass_r n sqrt A hA hn hm P Pl hP ws f x0 e k
  constructor
  · apply eq_of_vecOf_eq n _ _ r1 (by simp [vclear])
    rw [r2, hk1, vecOf_vclear]
  · rw [pass_x n sqrt A hA hn hm P Pl hP ws f x0 e k, pass_x n sqrt A hA hn hm P Pl hP ws f x0 e n, hk2]

end ordered

/-! ### the call -/
section run
variable {K : Type} [Field K] [LinearOrder K] [IsStrictOrderedRing K]
variable (n : ℕ) (A : CRS K) (hA : A.WF) (hn : A.nrows = n) (hm : A.ncols = n)
  (hsym : ∀ i, i < n → ∀ j, j < n → A.get i j = A.get j i)
  (P : Vec K → Vec K) (Pl : (Fin n → K) →ₗ[K] (Fin n → K)) (hP : PDenotes n P Pl)
  (hPsym : ∀ u v, Pl u ⬝ᵥ v = u ⬝ᵥ Pl v)
include hA hn hm hsym hP hPsym

/-- **finite termination of the call**: for SPD `A`, `P`, `‖0‖ = 0` and a non-negative threshold, a call of CG makes
at most `n` passes; and if it makes `n` passes the returned `x` solves the system exactly and `0` is reported -/
theorem run_terminates (prm : CG.Params K) (sqrt : K → K) (eps : K) (ws : CG.Work K) (f x0 : Vec K) (nf : K)
    (hp : prologue prm.nsSearch stdIp sqrt eps f = .go nf)
    (hApd : ∀ v : Fin n → K, v ≠ 0 → 0 < energyOf n A v) (hPpd : ∀ v : Fin n → K, v ≠ 0 → 0 < v ⬝ᵥ Pl v)
    (hz : nrm stdIp sqrt (vclear n) = 0) (heps : ¬ CG.epsTol prm nf < 0)
    (it : ℕ) (res : K) (x : Vec K) (w : CG.Work K)
    (h : CG.solve prm stdIp sqrt eps A P ws f x0 = .ok (it, res, x, w)) :
    it ≤ n ∧ (it = n → residual f A x = vclear n ∧ res = 0) := by
  obtain ⟨h1, h2, h3, h4, h5, h6⟩ := run_eq_pass prm sqrt eps A P ws f x0 nf hp it res x w h
  have hterm := fun k hk => model_terminates n sqrt A hA hn hm hsym P Pl hP hPsym ws f x0 (CG.epsTol prm nf)
    hApd hPpd k hk
  have hres0 : (cgPass sqrt A P ws f x0 (CG.epsTol prm nf) n).res = 0 := by
    rw [cgPass_res, (hterm n (Nat.le_refl n)).1, hz]
  constructor
  · by_contra hlt
    have := h6 n (by omega)
    rw [hres0, absK_zero] at this
    exact heps this
  · intro hitn
    subst hitn
    refine ⟨?_, by rw [h3, hres0, zero_div]⟩
    rw [h1, ← pass_r_true it sqrt A hA hn hm hsym P Pl hP hPsym ws f x0 (CG.epsTol prm nf) it]
    exact (hterm it (Nat.le_refl it)).1

end run

end Amgcl.Krylov
