import Amgcl.Proofs.CPRWalk
import Mathlib.Algebra.BigOperators.Group.List.Basic
import Mathlib.Tactic.Ring
/-!
The second pass of `cpr::init` (scalar input): for sorted rows the entry of `App` in block column `jp` is the weighted
sum `Σ_i d_i · K(ip·B + i, jp·B)` (C18, `cpr_pressure_matrix`).
-/
namespace Amgcl.CPR
open Amgcl

section app
variable {K : Type} [CommRing K]

theorem foldl_cond_add (l : Row K) (q : Nat × K → Bool) (f : Nat × K → K) (a0 : K) :
    l.foldl (fun a cv => if q cv = true then a + f cv else a) a0 = a0 + ((l.filter q).map f).sum := by
  induction l generalizing a0 with
  | nil => simp
  | cons x t ih =>
    simp only [List.foldl_cons, List.filter_cons]
    by_cases hx : q x = true
    · simp only [hx, if_true, List.map_cons, List.sum_cons]
      rw [ih]; ring
    · have hx' : q x = false := by simpa using hx
      simp only [hx', Bool.false_eq_true, if_false]
      rw [ih]

theorem foldl_add_sum {α : Type} (l : List α) (g : α → K) (a0 : K) :
    l.foldl (fun a x => a + g x) a0 = a0 + (l.map g).sum := by
  induction l generalizing a0 with
  | nil => simp
  | cons x t ih => simp only [List.foldl_cons, List.map_cons, List.sum_cons]; rw [ih]; ring

/-- inside one block column, the entries with `col % B = 0` are those in column `cur·B` -/
theorem sum_mod_zero (l : Row K) (B cur : Nat) (h : ∀ cv ∈ l, cv.1 / B = cur) :
    ((l.filter (fun cv => decide (cv.1 % B = 0))).map (·.2)).sum = rowGet l (cur * B) := by
  induction l with
  | nil => simp
  | cons x t ih =>
    have hx : x.1 / B = cur := h x List.mem_cons_self
    have ht := ih (fun c hc => h c (List.mem_cons_of_mem _ hc))
    have hiff : x.1 % B = 0 ↔ x.1 = cur * B := by
      have := Nat.div_add_mod x.1 B
      rw [hx] at this
      constructor
      · intro h0; rw [h0, Nat.add_zero, Nat.mul_comm] at this; exact this.symm
      · intro he; rw [he]; simp
    rw [List.filter_cons, rowGet_cons']
    by_cases h0 : x.1 % B = 0
    · simp only [h0, decide_true, if_true, List.map_cons, List.sum_cons, ht, if_pos (hiff.1 h0)]
    · simp only [h0, decide_false, Bool.false_eq_true, if_false, ht, if_neg (fun e => h0 (hiff.2 e)), zero_add]

/-- the value accumulated for one visited block column -/
theorem app_value (B : Nat) (d : Array K) (rows : List (Row K)) (hs : ∀ r ∈ rows, Sorted r) (lo e cur : Nat)
    (hmid : ∀ r ∈ rows, ∀ cv ∈ r, lo ≤ cv.1 → cv.1 < e → cv.1 / B = cur) :
    (rows.map (geC lo)).zipIdx.foldl (fun (a : K) ki =>
        (ki.1.takeWhile (fun cv => decide (cv.1 < e))).foldl (fun (a : K) cv =>
          if cv.1 % B = 0 then a + d.getD ki.2 0 * cv.2 else a) a) 0
      = (rows.zipIdx.map (fun ri => d.getD ri.2 0 *
          rowGet (ri.1.filter (fun cv => decide (lo ≤ cv.1 ∧ cv.1 < e))) (cur * B))).sum := by
  have hinner : ∀ (ki : Row K × Nat) (a : K),
      (ki.1.takeWhile (fun cv => decide (cv.1 < e))).foldl (fun (a : K) cv =>
          if cv.1 % B = 0 then a + d.getD ki.2 0 * cv.2 else a) a
        = a + d.getD ki.2 0 * (((ki.1.takeWhile (fun cv => decide (cv.1 < e))).filter
            (fun cv => decide (cv.1 % B = 0))).map (·.2)).sum := by
    intro ki a
    have := foldl_cond_add (ki.1.takeWhile (fun cv => decide (cv.1 < e))) (fun cv => decide (cv.1 % B = 0))
      (fun cv => d.getD ki.2 0 * cv.2) a
    simp only [decide_eq_true_eq] at this
    rw [this, List.sum_map_mul_left]
  simp only [hinner]
  rw [foldl_add_sum, zero_add, List.zipIdx_map, List.map_map]
  apply congrArg
  apply List.map_congr_left
  intro ri hri
  have hr : ri.1 ∈ rows := by
    have := (List.mem_zipIdx' (x := ri.1) (i := ri.2) hri).2
    rw [this]; exact List.getElem_mem _
  show d.getD ri.2 0 * _ = d.getD ri.2 0 * _
  congr 1
  show (((geC lo ri.1).takeWhile _).filter _ |>.map (·.2)).sum = _
  rw [takeWhile_geC (hs ri.1 hr)]
  apply sum_mod_zero
  intro cv hcv
  simp only [List.mem_filter, decide_eq_true_eq] at hcv
  exact hmid ri.1 hr cv hcv.1 hcv.2.1 hcv.2.2

/-- **second pass**: the denoted `App` row for sorted input rows -/
theorem appLoop_get (B N : Nat) (hB : 0 < B) (q : Nat) (hN : N = q * B) (d : Array K) (rows : List (Row K))
    (hs : ∀ r ∈ rows, Sorted r) (jp : Nat) (hjp : jp < q) :
    ∀ (fuel lo : Nat) (acc : Row K), remaining (rows.map (geC lo)) < fuel →
      rowGet (appLoop B N d fuel (rows.map (geC lo)) acc) jp
        = rowGet acc jp + (rows.zipIdx.map (fun ri => d.getD ri.2 0 * rowGet (geC lo ri.1) (jp * B))).sum := by
  intro fuel
  induction fuel with
  | zero => intro lo acc h; omega
  | succ f ih =>
    intro lo acc hfuel
    unfold appLoop
    cases hcur : curCol B N (rows.map (geC lo)) with
    | none =>
      simp only
      have hall := curCol_geC_none rows hs lo hcur
      have : (rows.zipIdx.map (fun ri => d.getD ri.2 0 * rowGet (geC lo ri.1) (jp * B))).sum = 0 := by
        apply List.sum_eq_zero
        intro x hx
        obtain ⟨ri, hri, rfl⟩ := List.mem_map.1 hx
        have hr : ri.1 ∈ rows := by
          have := (List.mem_zipIdx' (x := ri.1) (i := ri.2) hri).2
          rw [this]; exact List.getElem_mem _
        rw [rowGet_eq_zero_of_not_mem, mul_zero]
        intro cv hcv
        obtain ⟨h1, h2⟩ := mem_geC.1 hcv
        have := hall ri.1 hr cv h1 h2
        have hlt : jp * B < N := by rw [hN]; exact Nat.mul_lt_mul_of_pos_right hjp hB
        omega
      rw [this, add_zero]
    | some cur =>
      simp only
      obtain ⟨hmin, r0, hr0, cv0, hcv0, hlo0, hN0, hdiv0⟩ := curCol_geC_some rows hs lo cur hcur
      have hcv0lt : cv0.1 < (cur + 1) * B := by
        calc cv0.1 < (cv0.1 / B + 1) * B := by
              have := Nat.div_add_mod cv0.1 B
              have := Nat.mod_lt cv0.1 hB
              rw [Nat.add_mul, Nat.one_mul, Nat.mul_comm]; omega
          _ = (cur + 1) * B := by rw [hdiv0]
      have hle : lo ≤ (cur + 1) * B := by omega
      have hcurq : cur < q := by
        rw [← hdiv0]
        rw [hN] at hN0
        exact (Nat.div_lt_iff_lt_mul hB).2 hN0
      have heN : (cur + 1) * B ≤ N := by rw [hN]; exact Nat.mul_le_mul_right _ hcurq
      have hmid : ∀ r ∈ rows, ∀ cv ∈ r, lo ≤ cv.1 → cv.1 < (cur + 1) * B → cv.1 / B = cur := by
        intro r hr cv hcv h1 h2
        have h3 := hmin r hr cv hcv h1 (by omega)
        have h4 : cv.1 / B < cur + 1 := (Nat.div_lt_iff_lt_mul hB).2 h2
        omega
      rw [advance_geC rows hs lo _ hle, app_value B d rows hs lo _ cur hmid]
      have hrem := remaining_advance_lt rows hs lo cur hcur hB hle
      rw [ih ((cur + 1) * B) _ (by omega), rowGet_append, rowGet_singleton, add_assoc]
      congr 1
      -- row by row
      have hrow : ∀ ri ∈ rows.zipIdx,
          (if cur = jp then d.getD ri.2 0 * rowGet (ri.1.filter (fun cv => decide (lo ≤ cv.1 ∧ cv.1 < (cur + 1) * B))) (cur * B)
            else 0) + d.getD ri.2 0 * rowGet (geC ((cur + 1) * B) ri.1) (jp * B)
          = d.getD ri.2 0 * rowGet (geC lo ri.1) (jp * B) := by
        intro ri hri
        have hr : ri.1 ∈ rows := by
          have := (List.mem_zipIdx' (x := ri.1) (i := ri.2) hri).2
          rw [this]; exact List.getElem_mem _
        have hsplit : rowGet (geC lo ri.1) (jp * B)
            = rowGet (ri.1.filter (fun cv => decide (lo ≤ cv.1 ∧ cv.1 < (cur + 1) * B))) (jp * B)
              + rowGet (geC ((cur + 1) * B) ri.1) (jp * B) := by
          unfold geC
          rw [rowGet_filter (fun c => decide (lo ≤ c)), rowGet_filter (fun c => decide (lo ≤ c ∧ c < (cur + 1) * B)),
            rowGet_filter (fun c => decide ((cur + 1) * B ≤ c))]
          by_cases h1 : lo ≤ jp * B <;> by_cases h2 : jp * B < (cur + 1) * B
          · have : ¬ (cur + 1) * B ≤ jp * B := by omega
            simp [h1, h2, this]
          · have : (cur + 1) * B ≤ jp * B := by omega
            simp [h1, h2, this]
          · have : ¬ (cur + 1) * B ≤ jp * B := by omega
            simp [h1, h2, this]
          · have : (cur + 1) * B ≤ jp * B := by omega
            exfalso; omega
        rw [hsplit, mul_add]
        congr 1
        by_cases hcj : cur = jp
        · rw [if_pos hcj, hcj]
        · rw [if_neg hcj]
          symm
          rw [rowGet_eq_zero_of_not_mem, mul_zero]
          intro cv hcv
          simp only [List.mem_filter, decide_eq_true_eq] at hcv
          have := hmid ri.1 hr cv hcv.1 hcv.2.1 hcv.2.2
          intro he
          rw [he, Nat.mul_div_cancel _ hB] at this
          exact hcj this.symm
      have hsum : (if cur = jp then (rows.zipIdx.map (fun ri => d.getD ri.2 0 *
            rowGet (ri.1.filter (fun cv => decide (lo ≤ cv.1 ∧ cv.1 < (cur + 1) * B))) (cur * B))).sum else 0)
          = (rows.zipIdx.map (fun ri => if cur = jp then d.getD ri.2 0 *
            rowGet (ri.1.filter (fun cv => decide (lo ≤ cv.1 ∧ cv.1 < (cur + 1) * B))) (cur * B) else 0)).sum := by
        by_cases hcj : cur = jp
        · simp [hcj]
        · simp [hcj]
      rw [hsum, ← List.sum_map_add]
      apply congrArg
      apply List.map_congr_left
      intro ri hri
      exact hrow ri hri

end app

end Amgcl.CPR
