import Amgcl.Proofs.BridgeReal
/-!
# Bridge, part 7: the direct-solver hypothesis in terms of `directOk`

`Amg.build` creates a direct-solver level only as the last level and only when `directOk Ad = true` (the skyline
constructor did not hit a zero pivot).  Hence "the direct solver is exact on every matrix on which its constructor
succeeds" (`C16.skyline_spec`, in the form `Bridge.skyline_directExact`) implies the per-level hypothesis `hdir` of
`build_realizes` / `build_apply_spd_contracting`:

* `Chain.solve_is_last`, `build_solve_levels` — a level with `solve = some Ad` is the last one, `directOk Ad = true`;
* `Chain.levels_wf` — every level matrix is well formed and square;
* `hdir_of_directOk` — the per-level `DirectExact` from exactness on admissible matrices with `directOk`.
-/
set_option linter.unusedSectionVars false
namespace Amgcl.Energy.Bridge
open Amgcl Amgcl.Amg Amgcl.Relax Matrix Finset

variable {K S : Type} [Field K] [DecidableEq K]

omit [DecidableEq K] in
/-- in a constructed hierarchy only the last level can hold a direct solver -/
theorem Chain.solve_is_last {pol : Policy K} {sm : Smoother K S} {allow : Bool} {idx : Nat} {A : CRS K}
    {ls : List (Level K S)} (hc : Chain pol sm allow idx A ls) :
    ∀ lv ∈ ls, ∀ Ad, lv.solve = some Ad → ls.getLast? = some lv := by
  induction hc with
  | relaxLast idx A lv hl => intro lv' hlv' Ad _; rw [List.mem_singleton.mp hlv']; rfl
  | solveLast idx A lv hl => intro lv' hlv' Ad _; rw [List.mem_singleton.mp hlv']; rfl
  | cons idx A lv P R rest hl hne hc ih =>
    obtain ⟨nxt, rest', rfl⟩ := List.exists_cons_of_ne_nil hne
    intro lv' hlv' Ad hs
    rcases List.mem_cons.mp hlv' with rfl | hin
    · rw [hl.hsolve] at hs; cases hs
    · rw [List.getLast?_cons_cons]; exact ih lv' hin Ad hs

omit [DecidableEq K] in
/-- a direct-solver level of a built hierarchy stands for a matrix on which the solver's constructor succeeded -/
theorem build_solve_levels (prm : Params) (pol : Policy K) (sm : Smoother K S) (directOk : CRS K → Bool) (A : CRS K)
    (ls : List (Level K S)) (hb : build prm pol sm directOk A = .ok ls) :
    ∀ lv ∈ ls, ∀ Ad, lv.solve = some Ad → directOk Ad = true ∧ levelMatrix lv = some Ad := by
  intro lv hlv Ad hs
  have hlast := Chain.solve_is_last (C03.build_chain prm pol sm directOk A ls hb) lv hlv Ad hs
  obtain ⟨last, M, h1, h2, _, _, h5⟩ := C03.build_last_level prm pol sm directOk A ls hb
  rw [hlast] at h1
  cases h1
  have hlm : levelMatrix lv = some Ad := by unfold levelMatrix; rw [hs]
  rw [hlm] at h2
  cases h2
  exact ⟨(h5 (by rw [hs]; rfl)).2, hlm⟩

/-- every level matrix of a constructed hierarchy is well formed and square -/
theorem Chain.levels_wf {pol : Policy K} {sm : Smoother K S} {allow : Bool} (hpol : PolicyOK pol)
    {idx : Nat} {A : CRS K} {ls : List (Level K S)} (hc : Chain pol sm allow idx A ls)
    (hA : A.WF) (hsq : A.ncols = A.nrows) :
    ∀ lv ∈ ls, ∀ M, levelMatrix lv = some M → M.WF ∧ M.ncols = M.nrows := by
  induction hc with
  | relaxLast idx A lv hl =>
    intro lv' hlv' M hM
    rw [List.mem_singleton.mp hlv', hl.levelMatrix] at hM
    cases hM; exact ⟨hA, hsq⟩
  | solveLast idx A lv hl =>
    intro lv' hlv' M hM
    rw [List.mem_singleton.mp hlv', hl.levelMatrix] at hM
    cases hM; exact ⟨hA, hsq⟩
  | cons idx A lv P R rest hl hne hc ih =>
    obtain ⟨nxt, rest', rfl⟩ := List.exists_cons_of_ne_nil hne
    obtain ⟨_, _, _, _, _, _, hA'wf, _, hA'sq, _, _⟩ := cons_step hpol hl hA hsq hc
    intro lv' hlv' M hM
    rcases List.mem_cons.mp hlv' with rfl | hin
    · have hlm : levelMatrix lv' = some A := by unfold levelMatrix; rw [hl.hsolve]; exact hl.hA
      rw [hlm] at hM; cases hM; exact ⟨hA, hsq⟩
    · exact ih hA'wf hA'sq lv' hin M hM

/-- **the per-level direct-solver hypothesis from "exact whenever the constructor succeeds"** (on well-formed square
matrices without repeated columns — the domain of `C16.skyline_spec`) -/
theorem hdir_of_directOk {pol : Policy K} (hpol : PolicyOK pol) (hnd : PolicyNodup pol) (prm : Params)
    (sm : Smoother K S) (directOk : CRS K → Bool) (direct : CRS K → Vec K → Vec K) (A : CRS K) (hA : A.WF)
    (hsq : A.ncols = A.nrows) (hAnd : A.nodupb = true) (ls : List (Level K S))
    (hb : build prm pol sm directOk A = .ok ls)
    (hdirect : ∀ Ad : CRS K, directOk Ad = true → Ad.WF → Ad.ncols = Ad.nrows → Ad.nodupb = true →
      DirectExact direct Ad) :
    ∀ lv ∈ ls, ∀ Ad, lv.solve = some Ad → DirectExact direct Ad := by
  intro lv hlv Ad hs
  obtain ⟨hok, hlm⟩ := build_solve_levels prm pol sm directOk A ls hb lv hlv Ad hs
  have hc := C03.build_chain prm pol sm directOk A ls hb
  have hA0 : (sortRows A).WF := sortRows_wf' A hA
  have hsq0 : (sortRows A).ncols = (sortRows A).nrows := by rw [Amg.sortRows_ncols, Amg.sortRows_nrows]; exact hsq
  obtain ⟨w1, w2⟩ := Chain.levels_wf hpol hc hA0 hsq0 lv hlv Ad hlm
  exact hdirect Ad hok w1 w2 (Chain.levels_nodup hpol hnd hc hA0 hsq0 (sortRows_nodupb A hAnd) lv hlv Ad hlm)

end Amgcl.Energy.Bridge
