import Amgcl.Proofs.RelaxIlupPad
import Amgcl.Properties.C06
/-!
# C06 (part c) — ILUP as written: theorems about the faithful model `Model/RelaxIlup.lean` of `relaxation/ilup.hpp`

`Model/RelaxIlup.lean` mirrors `ilup.hpp` loop by loop: `detail::symb_product` (first pass with the marker test
`marker[cb] != ia`, `scan_row_sizes`, second pass with `marker[cb] < row_beg` / `marker[cb] = row_end`, `std::sort` of every row;
one marker array threaded through all rows), the loop `for (k = 1; k < prm.k; ++k) P = symb_product(*P, A)`, the scatter of the
values of `A` into the zero-filled rows of `P` (`jp` not reset between entries), and `ilu0` (the model `ilu0Factor` of
`Model/RelaxIlu.lean`) on the result.  It is tied to the real `relaxation::ilup<builtin<Q>>` by the exact correspondence of
`harness/h_relax.cpp` (ops `relax_ilupw_factors|pre|post|apply|pad`).  `Properties/C06.lean` keeps the specification-level
definition `ilupFactor k A = ilu0Factor (padPattern (patPower A k) A)`; this file proves that the code as written computes it.

* `ilup_symb_product` — `symb_product(A, B)`: row `ia` of the result is strictly increasing, consists exactly of the columns of the
  rows `B[ca]`, `ca ∈ A[ia]`, and has the width the first pass counted (`symb_product_widths_agree`: the rows read back through
  `C_ptr` are the rows the second pass wrote).
* `ilup_pattern_is_power` — for every `k ≥ 1` the symbolic pattern is the pattern of the `(k+1)`-fold boolean product
  (`patPower A k` of `Model/RelaxCheck.lean`), every row strictly increasing.
* `ilup_pad_eq`, `ilup_as_written_eq_spec` — sorted rows with a stored diagonal: the scatter loop never reads `P->col[p_end]`, the
  matrix handed to `ilu0` is `A` on the pattern of `A^(k+1)` (zeros elsewhere), `ilupFactorW k A = ilupFactor k A`.
* `ilup_on_pattern` — with no zero pivot, `((I+L)(D⁻¹+U))_ij = a_ij` (`a_ij = 0` off the pattern of `A`) at every position of the
  pattern of `A^(k+1)`, for every `k ≥ 0`.
* `ilup_affine_scratch_indep`, `ilup_fixed_point` — the sweeps are the ILU sweeps (`Smoother.Good`).
-/
namespace Amgcl.C06c
open Amgcl Amgcl.Relax Finset

/-! ## `symb_product` -/
section symb

/-- `symb_product(A, B)` on patterns whose visited columns are `< m = B.ncols`: as many rows as `A`; row `ia` strictly increasing;
`c` is in row `ia` iff `c ∈ B[ca]` for some `ca ∈ A[ia]`; all columns `< m` -/
theorem ilup_symb_product (A B : Pat) (m : Nat) (hok : PatOK A B m) (ia : Nat) (hia : ia < A.size) :
    (symbProduct A B m).size = A.size ∧
    ((symbProduct A B m).getD ia []).Pairwise (· < ·) ∧
    (∀ c, c ∈ (symbProduct A B m).getD ia [] ↔ ∃ ca ∈ A.getD ia [], c ∈ B.getD ca []) ∧
    ∀ c ∈ (symbProduct A B m).getD ia [], c < m := by
  obtain ⟨h1, h2⟩ := symbProduct_spec A B m hok
  obtain ⟨rf, _⟩ := h2 ia hia
  refine ⟨h1, rf.strict, fun c => ?_, rf.lt⟩
  rw [rf.mem c]
  unfold visitedP
  rw [List.mem_flatMap]

/-- the first pass (which sizes the rows, `C_ptr`) counts exactly the columns the second pass writes -/
theorem symb_product_widths_agree (A B : Pat) (m : Nat) (hok : PatOK A B m) (ia : Nat) (hia : ia < A.size) :
    (symbWidths A B m).length = A.size ∧
    ((symbProduct A B m).getD ia []).length = (symbWidths A B m).getD ia 0 :=
  ⟨(symbWidths_spec A B m hok).1, ((symbProduct_spec A B m hok).2 ia hia).2⟩

example := ilup_symb_product (patRows C06.exA) (patRows C06.exA) 3 (patOK_right C06.exA (by decide) _) 0 (by decide +kernel)
example := symb_product_widths_agree (patRows C06.exA) (patRows C06.exA) 3 (patOK_right C06.exA (by decide) _) 2 (by decide +kernel)
example : symbProduct (patRows C06.exA) (patRows C06.exA) 3 = #[[0, 1, 2], [0, 1, 2], [0, 1, 2]]
    ∧ symbWidths (patRows C06.exA) (patRows C06.exA) 3 = [3, 3, 3] := by decide +kernel

end symb

section field
variable {K : Type} [Field K] [DecidableEq K]

/-! ## the symbolic pattern -/

/-- **`ilup_pattern_is_power`.**  For a well-formed square matrix and every `k ≥ 1` the pattern built by `ilup` has the rows of
`A`, every row strictly increasing, and `j` is in row `i` iff `(i, j)` is in the pattern of the `(k+1)`-fold boolean product -/
theorem ilup_pattern_is_power (k : Nat) (hk : k ≠ 0) (A : CRS K) (hA : A.WF) (hsq : A.ncols = A.nrows) (i : Nat)
    (hi : i < A.nrows) :
    (ilupPattern k A).size = A.nrows ∧ ((ilupPattern k A).getD i []).Pairwise (· < ·) ∧
    ∀ j, j ∈ (ilupPattern k A).getD i [] ↔ (j < A.nrows ∧ patPower A k i j = true) := by
  obtain ⟨h1, h2⟩ := ilupPattern_spec k hk A hA hsq
  exact ⟨h1, (h2 i hi).1, (h2 i hi).2⟩

example := ilup_pattern_is_power 2 (by decide) C06.exA (by decide) rfl 0 (by decide)
example : ilupPattern 1 C06.exA = #[[0, 1, 2], [0, 1, 2], [0, 1, 2]] := by decide +kernel

/-! ## the padded matrix and the factors -/

/-- the scatter loop on sorted rows with a stored diagonal: no read of `P->col[p_end]`, and the matrix handed to `ilu0` is `A` stored
on the sorted pattern of `A^(k+1)` with explicit zeros at the new positions -/
theorem ilup_pad_eq (k : Nat) (hk : k ≠ 0) (A : CRS K) (hA : A.WF) (hsq : A.ncols = A.nrows) (hs : A.sortedb = true)
    (hd : hasDiagb A = true) : ilupPad k A = .ok (padPattern (patPower A k) A) :=
  ilupPad_eq k hk A hA hsq hs hd

example := ilup_pad_eq 1 (by decide) C06.exA (by decide) rfl (by decide) (by decide)

/-- the constructor as written computes the specification-level `ilupFactor` of `Properties/C06.lean` -/
theorem ilup_as_written_eq_spec (k : Nat) (A : CRS K) (hA : A.WF) (hsq : A.ncols = A.nrows) (hs : A.sortedb = true)
    (hd : hasDiagb A = true) : ilupFactorW k A = ilupFactor k A := by
  unfold ilupFactorW ilupFactor
  by_cases hk : k = 0
  · rw [if_pos hk, if_pos hk]
  · rw [if_neg hk, if_neg hk, ilupPad_eq k hk A hA hsq hs hd]

example := ilup_as_written_eq_spec 2 C06.exA (by decide) rfl (by decide) (by decide)

/-- **`ilup_on_pattern`.**  Every `k`: if the constructor succeeds (no zero pivot) then `((I+L)(D⁻¹+U))_ij = a_ij` at every
position `(i, j)` of the pattern of `A^(k+1)` (`a_ij = 0` where `A` stores nothing) -/
theorem ilup_on_pattern (k : Nat) (ω : K) (A : CRS K) (hA : A.WF) (hsq : A.ncols = A.nrows) (hs : A.sortedb = true)
    (hd : hasDiagb A = true) (F : IluFactors K) (hF : (ilup k ω).setup A = .ok F) (i j : Nat) (hi : i < A.nrows)
    (hj : j < A.nrows) (hp : patPower A k i j = true) :
    ∑ k' ∈ range A.nrows, lowEntry F i k' * upEntry F k' j = A.get i j := by
  have hF' : ilupFactor k A = .ok F := by rw [← ilup_as_written_eq_spec k A hA hsq hs hd]; exact hF
  by_cases hk : k = 0
  · subst hk
    have h0 : ilu0Factor A = .ok F := by simpa [ilupFactor] using hF'
    rw [patPower_eq_iter, Function.iterate_zero, id, patGet_patTab] at hp
    simp only [hi, hj, decide_true, Bool.true_and] at hp
    obtain ⟨cv, hcv, e⟩ := List.mem_map.mp ((patOf_iff_mem A i j).mp hp)
    have := C06.ilu0_on_pattern ω A hA hsq hs F h0 i hi cv hcv
    rw [e] at this
    exact this
  · exact C06.ilup_on_pattern k hk A hsq F hF' i j hi hj hp

local instance exDecEqCRS : DecidableEq (CRS ℚ) := fun a b =>
  decidable_of_iff (a.ncols = b.ncols ∧ a.rows = b.rows) (by cases a; cases b; simp)
local instance exDecEqIlu : DecidableEq (IluFactors ℚ) := fun a b =>
  decidable_of_iff (a.L = b.L ∧ a.U = b.U ∧ a.D = b.D) (by cases a; cases b; simp)
theorem exA_ilupw : (ilup 1 (1 : ℚ)).setup C06.exA = .ok C06.exF := by decide +kernel
-- position (0,2) is not stored in `exA` (a_02 = 0) but lies in the pattern of `A²`
example := ilup_on_pattern 1 (1 : ℚ) C06.exA (by decide) rfl (by decide) (by decide) C06.exF exA_ilupw 0 2 (by decide) (by decide)
  (by decide +kernel)
example : patOf C06.exA 0 2 = false ∧ patPower C06.exA 1 0 2 = true := by decide +kernel

/-! ## sweeps -/

theorem ilup_affine_scratch_indep (k : Nat) (ω : K) (F : IluFactors K) (A : CRS K) :
    Smoother.Good (ilup k ω) F A := by
  obtain ⟨h1, h2, h3, h4⟩ := iluSweep_facts ω F A
  exact ⟨h1, h1, h2, h2, h3, h3, h4, h4⟩

example := ilup_affine_scratch_indep 1 (1 : ℚ) C06.exF C06.exA

theorem ilup_fixed_point (k : Nat) (ω : K) (A : CRS K) (F : IluFactors K) (f x t : Vec K)
    (hx : x.size = A.nrows) (hf : f.size = A.nrows) (h : ∀ i, i < A.nrows → rowDot (A.row i) x = f.getD i 0) :
    ((ilup k ω).applyPre F A f x t).1 = x ∧ ((ilup k ω).applyPost F A f x t).1 = x :=
  ⟨(ilup_affine_scratch_indep k ω F A).pre_fixed f x t hx hf h,
   (ilup_affine_scratch_indep k ω F A).post_fixed f x t hx hf h⟩

example := ilup_fixed_point 1 (1 : ℚ) C06.exA C06.exF #[3, 2, 2] #[1, 1, 1] #[] rfl rfl C06.exA_solves

end field

end Amgcl.C06c
