import Amgcl.Proofs.RowOrder
import Amgcl.Properties.C12b
/-!
# C12 (continued) — the cycle depends only on the denoted matrices (entry order of a row)

`dist_amg_cycle_eq_gathered` (C12b) equates the distributed cycle with the serial cycle of the GATHERED hierarchy, whose
matrices store each row with the rank-local entries first.  A serial hierarchy of the same matrices stores its rows in
sorted order.  This file closes that gap for the model cycle:

* `spmv_row_order_invariant`, `residual_row_order_invariant` — the backend products are invariant under permuting the
  stored entries of each row (`RowPerm`: same shape, every row a permutation); such matrices denote the same matrix
  (`RowPerm.get_eq`);
* `jacobi_row_order_invariant`, `spai0_row_order_invariant` — the damped-Jacobi and SPAI-0 constructors build the same
  state and their sweeps are the same functions (Jacobi: `backend::diagonal` takes the FIRST stored diagonal entry,
  hence the hypothesis that every row stores its diagonal once; SPAI-0: unconditional);
* `cycle_row_order_invariant` — `Amg.cycle` / `Amg.apply` of two hierarchies whose level matrices `A, P, R` (and the
  coarse solver's matrix) are row permutations of each other, with the same smoother states, return the same iterate and
  the same level vectors, for every smoother whose sweeps are row-order invariant and every coarse solver that is;
* `dist_amg_cycle_eq_any_row_order` — hence the gathered distributed cycle equals the serial cycle of ANY hierarchy
  that stores the gathered matrices in another entry order (in particular the sorted one).
-/
namespace Amgcl.C12
open Amgcl Amgcl.Dist Amgcl.DistAmg Amgcl.Lockstep

section generic
variable {K : Type} [CommRing K] [DecidableEq K]

/-- **`spmv` is invariant under permuting the stored entries of each row.** -/
theorem spmv_row_order_invariant {A B : CRS K} (h : RowPerm A B) (α : K) (x : Vec K) (β : K) (y : Vec K) :
    spmv α A x β y = spmv α B x β y := spmv_rowPerm h α x β y

/-- **`residual` is invariant under permuting the stored entries of each row.** -/
theorem residual_row_order_invariant {A B : CRS K} (h : RowPerm A B) (f x : Vec K) :
    residual f A x = residual f B x := residual_rowPerm h f x

/-- **`cycle_row_order_invariant`.**  The multigrid cycle and the preconditioner call depend only on the denoted
matrices: iterate and level vectors coincide for hierarchies that differ in the entry order of the rows. -/
theorem cycle_row_order_invariant {S : Type} (prm : Amg.Params) (sm : Relax.Smoother K S)
    (direct : CRS K → Vec K → Vec K) (hsm : Amg.SweepInv sm) (hd : Amg.DirectInv direct)
    (ls ls' : List (Amg.Level K S)) (h : List.Forall₂ Amg.LevelPerm ls ls') (scr : List (Amg.Scratch K))
    (rhs x : Vec K) :
    Amg.cycle prm sm direct ls scr rhs x = Amg.cycle prm sm direct ls' scr rhs x ∧
    Amg.apply prm sm direct ls scr rhs = Amg.apply prm sm direct ls' scr rhs :=
  ⟨Amg.cycle_rowPerm prm sm direct hsm hd ls ls' h scr rhs x, Amg.apply_rowPerm prm sm direct hsm hd ls ls' h scr rhs⟩

/-- **`dist_amg_cycle_eq_any_row_order`.**  `dist_amg_cycle_eq_gathered` relative to ANY hierarchy `ls'` that stores the
gathered level matrices in another entry order: gathering the result of the distributed cycle gives the serial cycle of
`ls'` (iterate and level vectors). -/
theorem dist_amg_cycle_eq_any_row_order {S T : Type} (prm : Amg.Params) (dsm : DSmoother K S) (sm : Relax.Smoother K T)
    (gs : List S → T) (direct : CRS K → Vec K → Vec K) (hsm : SmootherRef dsm sm gs) (d : DLevel K S)
    (dls : List (DLevel K S)) (hOK : DHierOK dsm direct (d :: dls)) (dscr : List (DScratch K)) (drhs dx : DVec K)
    (hscr : DScrsOK ((d :: dls).map (·.part)) dscr) (hrhs : DVecOK d.part drhs) (hx : DVecOK d.part dx)
    (hinv : Amg.SweepInv sm) (hdir : Amg.DirectInv direct) (ls' : List (Amg.Level K T))
    (hperm : List.Forall₂ Amg.LevelPerm (gatherLevels gs (d :: dls)) ls') :
    concatVec (dcycle prm dsm direct (d :: dls) dscr drhs dx).1
      = (Amg.cycle prm sm direct ls' (dscr.map gatherScratch) (concatVec drhs) (concatVec dx)).1 ∧
    (dcycle prm dsm direct (d :: dls) dscr drhs dx).2.map gatherScratch
      = (Amg.cycle prm sm direct ls' (dscr.map gatherScratch) (concatVec drhs) (concatVec dx)).2 := by
  obtain ⟨h1, h2, _, _⟩ := dist_amg_cycle_eq_gathered prm dsm sm gs direct hsm d dls hOK dscr drhs dx hscr hrhs hx
  rw [h1, h2, Amg.cycle_rowPerm prm sm direct hinv hdir _ ls' hperm]
  exact ⟨rfl, rfl⟩

end generic

section smoothers
variable {K : Type} [Field K] [DecidableEq K]

/-- **damped Jacobi**: same constructor result (every row storing its diagonal once) and same sweeps -/
theorem jacobi_row_order_invariant (ω : K) :
    Amg.SweepInv (Relax.jacobi ω) ∧
    ∀ A B : CRS K, RowPerm A B → Relax.diagOnceb A = true → (Relax.jacobi ω).setup A = (Relax.jacobi ω).setup B :=
  ⟨Amg.jacobi_sweepInv ω, fun _ _ h hd => Amg.jacobi_setup_rowPerm ω h hd⟩

/-- **SPAI-0**: same constructor result and same sweeps, unconditionally -/
theorem spai0_row_order_invariant (norm : K → K) :
    Amg.SweepInv (Relax.spai0 norm) ∧
    ∀ A B : CRS K, RowPerm A B → (Relax.spai0 norm).setup A = (Relax.spai0 norm).setup B :=
  ⟨Amg.spai0_sweepInv norm, fun _ _ h => Amg.spai0_setup_rowPerm norm h⟩

end smoothers

/-! ## non-vacuity: a two-level hierarchy stored "local entries first" against the sorted one -/

def roA  : CRS Rat := ⟨2, #[[(0, 2), (1, -1)], [(0, -1), (1, 2)]]⟩      -- sorted
def roA' : CRS Rat := ⟨2, #[[(1, -1), (0, 2)], [(1, 2), (0, -1)]]⟩      -- another entry order
def roP  : CRS Rat := ⟨1, #[[(0, 1)], [(0, 1)]]⟩
def roR  : CRS Rat := ⟨2, #[[(0, 1), (1, 1)]]⟩
def roR' : CRS Rat := ⟨2, #[[(1, 1), (0, 1)]]⟩
def roAc : CRS Rat := ⟨1, #[[(0, 2)]]⟩

theorem roA_perm : RowPerm roA roA' :=
  ⟨rfl, rfl, fun i => by
    rcases i with _ | _ | i
    · exact List.Perm.swap _ _ _
    · exact List.Perm.swap _ _ _
    · exact List.Perm.refl _⟩

theorem roR_perm : RowPerm roR roR' :=
  ⟨rfl, rfl, fun i => by
    rcases i with _ | i
    · exact List.Perm.swap _ _ _
    · exact List.Perm.refl _⟩

def roLevels (A R : CRS Rat) : List (Amg.Level Rat (Vec Rat)) :=
  [{ rows := 2, A := some A, P := some roP, R := some R, relax := some #[1/2, 1/2] },
   { rows := 1, A := some roAc, solve := some roAc, relax := some #[1/2] }]

theorem roLevels_perm : List.Forall₂ Amg.LevelPerm (roLevels roA roR) (roLevels roA' roR') :=
  .cons ⟨rfl, .some roA_perm, .some (RowPerm.refl _), .some roR_perm, .none, rfl⟩
    (.cons ⟨rfl, .some (RowPerm.refl _), .none, .none, .some (RowPerm.refl _), rfl⟩ .nil)

/-- a coarse solver that reads the matrix through `spmv` only -/
def roDirect : CRS Rat → Vec Rat → Vec Rat := fun A f => spmv (1/4) A f 0 f

theorem roDirect_inv : Amg.DirectInv roDirect := fun _ _ h => by
  funext f; exact spmv_rowPerm h _ _ _ _

/-- the hypotheses of `cycle_row_order_invariant` are satisfiable by two DIFFERENT stored hierarchies -/
example : Amg.cycle ⟨1, true, 2, 1, 1, 1, 1, false⟩ (Relax.jacobi (2/3 : Rat)) roDirect (roLevels roA roR)
      (Amg.freshScratch (roLevels roA roR)) #[1, 2] #[0, 0]
    = Amg.cycle ⟨1, true, 2, 1, 1, 1, 1, false⟩ (Relax.jacobi (2/3 : Rat)) roDirect (roLevels roA' roR')
      (Amg.freshScratch (roLevels roA roR)) #[1, 2] #[0, 0] :=
  (cycle_row_order_invariant _ _ _ (Amg.jacobi_sweepInv _) roDirect_inv _ _ roLevels_perm _ _ _).1

example : roA ≠ roA' := fun h => by
  have := congrArg (fun A : CRS Rat => ((A.row 0).headD (7, 0)).1) h
  revert this; decide

/-- the Jacobi constructor on the two stored forms -/
example : (Relax.jacobi (2/3 : Rat)).setup roA = (Relax.jacobi (2/3 : Rat)).setup roA' :=
  (jacobi_row_order_invariant (2/3 : Rat)).2 roA roA' roA_perm (by decide)

/-- … and the cycle really moves the iterate (so the equality above is not `x = x`) -/
example : (Amg.cycle ⟨1, true, 2, 1, 1, 1, 1, false⟩ (Relax.jacobi (2/3 : Rat)) roDirect (roLevels roA roR)
      (Amg.freshScratch (roLevels roA roR)) #[1, 2] #[0, 0]).1 ≠ #[0, 0] := by decide +kernel

end Amgcl.C12
