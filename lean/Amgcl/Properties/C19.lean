import Amgcl.Model.IOMM
import Amgcl.Model.IOBinary
namespace Amgcl.C19
end Amgcl.C19
