import Amgcl.Proofs.IOMMRead
import Amgcl.Proofs.IOMMDense
import Amgcl.Proofs.IOMMSlice
import Amgcl.Proofs.IOMMDenseSlice
import Amgcl.Proofs.IOMMRoundTrip
import Amgcl.Proofs.IOMMDenseRT
import Amgcl.Proofs.IOMMKinds
import Amgcl.Proofs.IOMMTrunc
import Amgcl.Proofs.IOBinaryWF
import Amgcl.Proofs.IOBinaryRT
import Amgcl.Proofs.IOBinarySlice
import Amgcl.Proofs.IOBinaryDense
/-!
# C19 — matrix/vector files round-trip exactly; bad files fail cleanly

Only property theorems live here (models: `Model/IOMM.lean`, `Model/IOBinary.lean`, `Model/IOCommon.lean`; helper
lemmas: `Proofs/IO*.lean`).  A file is a `List Byte`; a reader call ends in `Outcome.ok x`, `Outcome.error` (any C++
exception) or `Outcome.oob` (an access outside a buffer — undefined behaviour).  The first Boolean argument of
every reader selects the code version: `true` = repaired (`repo_patches/fix_mm_index_range.patch`,
`repo_patches/fix_binary_ptr_validation.patch`), `false` = as the code was.

* `read_total_wf` — **every** byte string, every row range, every value kind, every allocation limit: the repaired
  readers throw or return a structurally valid object, and never leave a buffer.
* `mm_read_not_wf_counterexample`, `bin_read_oob_counterexample` — on the unrepaired code this was false.
* `mm_roundtrip*`, `bin_roundtrip*` — `read (write A) = A` (rows passed through `sort_row`), sparse and dense, for
  every value kind whose `read_value ∘ write_value` is the identity (`ValKind.RoundTrip`, established for `int`,
  and for real/complex from the contract `Codec.TokenOK` of the abstract scalar codec).
* `mm_range_eq_slice*`, `bin_range_eq_slice*` — reading rows `[b, e)` is the slice of the full read, for every file
  whose full read succeeds (the basis of distributed loading).
* `mm_symmetric_expand` — symmetric storage yields exactly the stored entries and their mirrors.
* `mm_truncated_errors*` — a file with fewer data lines than announced is rejected.

Not proved (tested by the harness as a labelled test): that libc's `"%.20e"`/`strtod` satisfy `Codec.TokenOK` on the
finite doubles; the executable stand-in used by the driver is `Model/IOFloat.lean`.
-/
namespace Amgcl.C19
open Amgcl Amgcl.IO

/-! ## bad files fail cleanly -/

/-- **For every input whatsoever** the repaired readers either throw or return a structurally valid result
(MatrixMarket sparse: monotone `ptr` from 0, `ptr.back = col.size = val.size`, every column in `[0, ncols)`;
binary sparse: the same without a column count, which the format does not store; dense: `rows · cols` values), and
no access leaves a buffer (`Outcome.Safe` excludes `oob`). -/
theorem read_total_wf (memLimit : Nat) (file : Bytes) (rowBeg rowEnd : Int) :
    (∀ {V : Type} (vk : ValKind V), (mmReadSparse true memLimit vk file rowBeg rowEnd).Safe RawCRS.WF) ∧
    (∀ {V : Type} (vk : ValKind V), (mmReadDense true memLimit vk file rowBeg rowEnd).Safe RawDense.WF) ∧
    (∀ {V : Type} (csz : Nat) (cdec : Bytes → Int) (vsz : Nat) (dec : Bytes → V),
      (binReadCrs true memLimit csz cdec vsz dec file rowBeg rowEnd).Safe RawCRS.PtrWF) ∧
    (∀ {V : Type} (vsz : Nat) (dec : Bytes → V), 0 < vsz →
      (binReadDense true memLimit vsz dec file rowBeg rowEnd).Safe RawDense.WF) ∧
    (binCrsSize file).Safe (fun _ => True) := by
  refine ⟨?_, ?_, ?_, ?_, ?_⟩
  · intro V vk
    rcases mmReadSparse_error_or_wf memLimit vk file rowBeg rowEnd with h | ⟨A, h, hA⟩ <;> rw [h]
    · trivial
    · exact hA
  · intro V vk
    rcases mmReadDense_error_or_wf memLimit vk file rowBeg rowEnd with h | ⟨A, h, hA⟩ <;> rw [h]
    · trivial
    · exact hA
  · intro V csz cdec vsz dec
    rcases binReadCrs_error_or_wf memLimit csz cdec vsz dec file rowBeg rowEnd with h | ⟨A, h, hA⟩ <;> rw [h]
    · trivial
    · exact hA
  · intro V vsz dec hv
    rcases binReadDense_error_or_wf memLimit vsz hv dec file rowBeg rowEnd with h | ⟨A, h, hA⟩ <;> rw [h]
    · trivial
    · exact hA
  · unfold binCrsSize; split <;> trivial

/-- a 3×3 integer MatrixMarket file whose only entry is `2 9 5` (column 9) -/
def cexMM : Bytes :=
  [37, 37, 77, 97, 116, 114, 105, 120, 77, 97, 114, 107, 101, 116, 32, 109, 97, 116, 114, 105, 120, 32, 99, 111, 111,
   114, 100, 105, 110, 97, 116, 101, 32, 105, 110, 116, 101, 103, 101, 114, 32, 103, 101, 110, 101, 114, 97, 108, 10,
   51, 32, 51, 32, 49, 10, 50, 32, 57, 32, 53, 10]

/-- a binary CRS file `n = 2 | ptr = 0 4 3 | col = 1 1 0 | val = 1 2 3` (words): `ptr[1] = 4 > nnz = 3` -/
def cexBin : Bytes :=
  [2, 0, 0, 0, 0, 0, 0, 0,  0, 0, 0, 0, 0, 0, 0, 0,  4, 0, 0, 0, 0, 0, 0, 0,  3, 0, 0, 0, 0, 0, 0, 0,
   1, 0, 0, 0, 0, 0, 0, 0,  1, 0, 0, 0, 0, 0, 0, 0,  0, 0, 0, 0, 0, 0, 0, 0,
   1, 0, 0, 0, 0, 0, 0, 0,  2, 0, 0, 0, 0, 0, 0, 0,  3, 0, 0, 0, 0, 0, 0, 0]

/-- **`read_total_wf` is false for the MatrixMarket reader as it was** (DESIGN §4 #3): the file `cexMM` is
accepted and returned with column index 8 in a 3-column matrix. -/
theorem mm_read_not_wf_counterexample :
    ∃ A, mmReadSparse false 1000000 intKind cexMM (-1) (-1) = .ok A ∧ ¬ A.WF :=
  ⟨⟨3, 3, [0, 0, 1, 1], [8], [5]⟩, by decide, by decide⟩

/-- the repaired reader rejects the same file -/
theorem mm_read_counterexample_repaired : mmReadSparse true 1000000 intKind cexMM (-1) (-1) = .error := by decide

/-- **`read_total_wf` is false for `read_crs` as it was** (DESIGN §4 #4): on `cexBin` the row loop calls
`sort_row` on `[0, 4)` of arrays of length 3 — an out-of-bounds access. -/
theorem bin_read_oob_counterexample : binReadCrs false 1000000 8 decS64 8 leVal cexBin (-1) (-1) = .oob := by decide

/-- the repaired reader rejects the same file -/
theorem bin_read_counterexample_repaired : binReadCrs true 1000000 8 decS64 8 leVal cexBin (-1) (-1) = .error := by
  decide

/-- a sparse file that ends before its last announced data line is rejected (any code version, any row range) -/
theorem mm_truncated_errors {V : Type} (fixed : Bool) (memLimit : Nat) (vk : ValKind V) (file : Bytes)
    (h : SparseHeader) (rowBeg rowEnd : Int) (hh : mmSparseHeader fixed vk file = .ok h)
    (hshort : h.body.length < h.nnz) : mmReadSparse fixed memLimit vk file rowBeg rowEnd = .error :=
  mmReadSparse_short fixed memLimit vk file h rowBeg rowEnd hh hshort

/-- a dense file that ends before its last data line is rejected (any code version, any row range) -/
theorem mm_truncated_errors_dense {V : Type} (fixed : Bool) (memLimit : Nat) (vk : ValKind V) (file : Bytes)
    (h : DenseHeader) (rowBeg rowEnd : Int) (hh : mmDenseHeader fixed vk file = .ok h)
    (hshort : h.body.length < (h.n * h.m).toNat) : mmReadDense fixed memLimit vk file rowBeg rowEnd = .error :=
  mmReadDense_short fixed memLimit vk file h rowBeg rowEnd hh hshort

-- non-vacuity: a well-formed 3×3 file is accepted, its truncation before the last line is rejected
example : mmReadSparse true 1000000 intKind
    ([37, 37, 77, 97, 116, 114, 105, 120, 77, 97, 114, 107, 101, 116, 32, 109, 97, 116, 114, 105, 120, 32, 99, 111, 111,
      114, 100, 105, 110, 97, 116, 101, 32, 105, 110, 116, 101, 103, 101, 114, 32, 103, 101, 110, 101, 114, 97, 108, 10,
      51, 32, 51, 32, 50, 10, 50, 32, 51, 32, 53, 10, 50, 32, 49, 32, 55, 10]) (-1) (-1)
    = .ok ⟨3, 3, [0, 0, 2, 2], [0, 2], [7, 5]⟩ := by decide
example : mmReadSparse true 1000000 intKind
    ([37, 37, 77, 97, 116, 114, 105, 120, 77, 97, 114, 107, 101, 116, 32, 109, 97, 116, 114, 105, 120, 32, 99, 111, 111,
      114, 100, 105, 110, 97, 116, 101, 32, 105, 110, 116, 101, 103, 101, 114, 32, 103, 101, 110, 101, 114, 97, 108, 10,
      51, 32, 51, 32, 50, 10, 50, 32, 51, 32, 53, 10]) (-1) (-1) = .error := by decide

/-! ## round trips -/

/-- **MatrixMarket round trip (sparse)**: for every value kind that round-trips on `dom`, every well-formed matrix
with values in `dom` whose sizes fit the index types: reading back what `mm_write` wrote returns the same shape and
the same rows, each passed through `sort_row`. -/
theorem mm_roundtrip {V : Type} {dom : V → Prop} (memLimit : Nat) (vk : ValKind V) (hvk : vk.RoundTrip dom)
    (A : CRS V) (hA : A.WF) (hdom : ∀ r ∈ A.rows.toList, ∀ cv ∈ r, dom cv.2)
    (hn : A.nrows < 9223372036854775808) (hm : A.ncols < 9223372036854775808)
    (hnnz : A.nnz < 18446744073709551616) (hmem : (A.nrows + 1) * 8 ≤ memLimit) :
    mmReadSparse true memLimit vk (mmWriteSparse vk A) (-1) (-1)
      = .ok (RawCRS.ofRows A.nrows A.ncols ((A.rows.toList.map intRow).map (sortRowN wrap32))) :=
  mmReadSparse_write memLimit vk hvk A hA hdom hn hm hnnz hmem

/-- … and if the rows are already sorted by column (and shorter than `2^31`), the result is `A` itself. -/
theorem mm_roundtrip_sorted {V : Type} {dom : V → Prop} (memLimit : Nat) (vk : ValKind V) (hvk : vk.RoundTrip dom)
    (A : CRS V) (hA : A.WF) (hdom : ∀ r ∈ A.rows.toList, ∀ cv ∈ r, dom cv.2)
    (hsorted : ∀ r ∈ A.rows.toList, colSorted (intRow r) ∧ r.length < 2147483648)
    (hn : A.nrows < 9223372036854775808) (hm : A.ncols < 9223372036854775808)
    (hnnz : A.nnz < 18446744073709551616) (hmem : (A.nrows + 1) * 8 ≤ memLimit) :
    mmReadSparse true memLimit vk (mmWriteSparse vk A) (-1) (-1) = .ok (RawCRS.ofCRS A) := by
  rw [mm_roundtrip memLimit vk hvk A hA hdom hn hm hnnz hmem]
  unfold RawCRS.ofCRS
  congr 2
  conv => rhs; rw [← List.map_id (A.rows.toList.map intRow)]
  apply List.map_congr_left
  intro r hr
  rw [List.mem_map] at hr
  obtain ⟨r0, hr0, rfl⟩ := hr
  have hs := hsorted r0 hr0
  have hlen : (intRow r0).length = r0.length := by simp [intRow]
  rw [sortRowN_of_id wrap32 _ (by rw [hlen]; exact wrap32_id _ (by omega) (by omega)), sortRow_of_sorted _ hs.1]
  rfl

/-- **MatrixMarket round trip (dense)** -/
theorem mm_roundtrip_dense {V : Type} {dom : V → Prop} (memLimit : Nat) (vk : ValKind V) (hvk : vk.RoundTrip dom)
    (D : RawDense V) (hD : D.WF) (hdom : ∀ v ∈ D.val, dom v) (hzero : dom vk.zero)
    (hn : D.nrows < 9223372036854775808) (hm : D.ncols < 9223372036854775808)
    (hmem : D.nrows * D.ncols * vk.size ≤ memLimit) :
    mmReadDense true memLimit vk (mmWriteDense vk D) (-1) (-1) = .ok D :=
  mmReadDense_write memLimit vk hvk D hD hdom hzero hn hm hmem

/-- the integer kind round-trips on the 32-bit range -/
theorem int_kind_roundtrips : intKind.RoundTrip int32 := intKind_roundTrip

/-- the real kind round-trips whenever the scalar codec satisfies its contract … -/
theorem real_kind_roundtrips {S : Type} {dom : S → Prop} (c : Codec S) (zero : S) (hc : c.TokenOK dom) :
    (realKind c zero).RoundTrip dom := realKind_roundTrip c zero hc

/-- … and so does the complex kind (two scalars separated by a blank) -/
theorem complex_kind_roundtrips {S : Type} {dom : S → Prop} (c : Codec S) (zero : S) (hc : c.TokenOK dom) :
    (complexKind c zero).RoundTrip (fun v => dom v.1 ∧ dom v.2) := complexKind_roundTrip c zero hc

-- non-vacuity: the codec contract is satisfiable (decimal naturals), and a concrete integer round trip with an
-- unsorted row and an empty row, computed by the kernel
example : natCodec.TokenOK (fun _ => True) := natCodec_tokenOK
example : mmReadSparse true 1000000 intKind
    (mmWriteSparse intKind ⟨3, #[[(2, -7), (0, 5)], [], [(1, 2147483647)]]⟩) (-1) (-1)
    = .ok ⟨3, 3, [0, 2, 2, 3], [0, 2, 1], [5, -7, 2147483647]⟩ := by decide
example : mmReadDense true 1000000 intKind (mmWriteDense intKind ⟨2, 2, [1, -2, 3, 4]⟩) (-1) (-1)
    = .ok ⟨2, 2, [1, -2, 3, 4]⟩ := by decide

/-- **binary round trip (sparse)**: for every column-index encoding of `csz > 0` bytes that round-trips on the
columns of `A`, and every value encoding of `vsz` bytes with `dec ∘ enc = id` (`csz` and `vsz` independent: `int`
columns with `double` values, 64-bit columns with `float` or `complex<double>` values, …), reading back the
`io::write` sequence of `mm2bin` returns the same rows, each passed through `sort_row` (the format stores no column
count: `ncols` of the result is `0`). -/
theorem bin_roundtrip_gen {V : Type} (memLimit csz : Nat) (cenc : Int → Bytes) (cdec : Bytes → Int) (vsz : Nat)
    (enc : V → Bytes) (dec : Bytes → V) (hcsz : 0 < csz) (hcenc : ∀ c, (cenc c).length = csz)
    (henc : ∀ v, (enc v).length = vsz) (hdec : ∀ v, dec (enc v) = v) (A : CRS V)
    (hcol : ∀ r ∈ A.rows.toList, ∀ cv ∈ r, cdec (cenc (cv.1 : Int)) = (cv.1 : Int))
    (hfile : (binWriteCrs cenc enc A).length < two63)
    (hm1 : (A.nrows + 1) * 8 ≤ memLimit) (hm2 : A.nnz * csz ≤ memLimit) (hm3 : A.nnz * vsz ≤ memLimit) :
    binReadCrs true memLimit csz cdec vsz dec (binWriteCrs cenc enc A) (-1) (-1)
      = .ok (RawCRS.ofRows A.nrows 0 ((A.rows.toList.map intRow).map (sortRowN wrap32))) :=
  binReadCrs_write memLimit csz cenc cdec vsz enc dec hcsz hcenc henc hdec A hcol hfile hm1 hm2 hm3

/-- … with `Col = ptrdiff_t` (8 bytes): every column index below `2^63` -/
theorem bin_roundtrip {V : Type} (memLimit vsz : Nat) (enc : V → Bytes) (dec : Bytes → V)
    (henc : ∀ v, (enc v).length = vsz) (hdec : ∀ v, dec (enc v) = v) (A : CRS V)
    (hcol : ∀ r ∈ A.rows.toList, ∀ cv ∈ r, cv.1 < 9223372036854775808)
    (hfile : (binWriteCrs encS64 enc A).length < two63)
    (hm1 : (A.nrows + 1) * 8 ≤ memLimit) (hm2 : A.nnz * 8 ≤ memLimit) (hm3 : A.nnz * vsz ≤ memLimit) :
    binReadCrs true memLimit 8 decS64 vsz dec (binWriteCrs encS64 enc A) (-1) (-1)
      = .ok (RawCRS.ofRows A.nrows 0 ((A.rows.toList.map intRow).map (sortRowN wrap32))) :=
  bin_roundtrip_gen memLimit 8 encS64 decS64 vsz enc dec (by decide) encS64_length henc hdec A
    (fun r hr cv hcv => decS64_encS64 _ (by omega) (by have := hcol r hr cv hcv; omega)) hfile hm1 hm2 hm3

/-- … with `Col = int` (4 bytes): every column index below `2^31` -/
theorem bin_roundtrip_int32 {V : Type} (memLimit vsz : Nat) (enc : V → Bytes) (dec : Bytes → V)
    (henc : ∀ v, (enc v).length = vsz) (hdec : ∀ v, dec (enc v) = v) (A : CRS V)
    (hcol : ∀ r ∈ A.rows.toList, ∀ cv ∈ r, cv.1 < 2147483648)
    (hfile : (binWriteCrs encS32 enc A).length < two63)
    (hm1 : (A.nrows + 1) * 8 ≤ memLimit) (hm2 : A.nnz * 4 ≤ memLimit) (hm3 : A.nnz * vsz ≤ memLimit) :
    binReadCrs true memLimit 4 decS32 vsz dec (binWriteCrs encS32 enc A) (-1) (-1)
      = .ok (RawCRS.ofRows A.nrows 0 ((A.rows.toList.map intRow).map (sortRowN wrap32))) :=
  bin_roundtrip_gen memLimit 4 encS32 decS32 vsz enc dec (by decide) encS32_length henc hdec A
    (fun r hr cv hcv => decS32_encS32 _ (by omega) (by have := hcol r hr cv hcv; omega)) hfile hm1 hm2 hm3

/-- **binary round trip (dense)** -/
theorem bin_roundtrip_dense {V : Type} (memLimit vsz : Nat) (hvsz : 0 < vsz) (enc : V → Bytes) (dec : Bytes → V)
    (henc : ∀ v, (enc v).length = vsz) (hdec : ∀ v, dec (enc v) = v) (D : RawDense V) (hD : D.WF)
    (hn : D.nrows < two63) (hm : D.ncols < two64)
    (hfile : (binWriteDense enc D).length < two63) (hmem : D.nrows * D.ncols * vsz ≤ memLimit) :
    binReadDense true memLimit vsz dec (binWriteDense enc D) (-1) (-1) = .ok D :=
  binReadDense_write memLimit vsz hvsz enc dec henc hdec D hD hn hm hfile hmem

-- non-vacuity: 8-byte little-endian words as values
example : binReadCrs true 1000000 8 decS64 8 leVal (binWriteCrs encS64 enc64 ⟨3, #[[(2, 7), (0, 5)], [], [(1, 9)]]⟩)
    (-1) (-1) = .ok ⟨3, 0, [0, 2, 2, 3], [0, 2, 1], [5, 7, 9]⟩ := by decide
-- … and `int` columns (4 bytes) with 8-byte values
example : binReadCrs true 1000000 4 decS32 8 leVal (binWriteCrs encS32 enc64 ⟨3, #[[(2, 7), (0, 5)], [], [(1, 9)]]⟩)
    (-1) (-1) = .ok ⟨3, 0, [0, 2, 2, 3], [0, 2, 1], [5, 7, 9]⟩ := by decide
example : binReadDense true 1000000 8 leVal (binWriteDense enc64 ⟨2, 2, [1, 2, 3, 4]⟩) (1) (2)
    = .ok ⟨1, 2, [3, 4]⟩ := by decide

/-! ## row ranges -/

/-- **reading rows `[b, e)` = slice of the full read (sparse MatrixMarket)**, for every file whose full read
succeeds: the full result is the CRS of a row list `R`, the range read is the CRS of `R[b..e)`. -/
theorem mm_range_eq_slice {V : Type} (memLimit : Nat) (vk : ValKind V) (file : Bytes) (F : RawCRS V)
    (hF : mmReadSparse true memLimit vk file (-1) (-1) = .ok F) :
    ∃ R : List (List (Int × V)), R.length = F.nrows ∧ F = RawCRS.ofRows F.nrows F.ncols R ∧
      ∀ b e : Nat, b ≤ e → e ≤ F.nrows →
        mmReadSparse true memLimit vk file b e = .ok (RawCRS.ofRows (e - b) F.ncols ((R.drop b).take (e - b))) :=
  mmReadSparse_range_eq_slice memLimit vk file F hF

/-- … dense MatrixMarket … -/
theorem mm_range_eq_slice_dense {V : Type} (memLimit : Nat) (vk : ValKind V) (file : Bytes) (F : RawDense V)
    (hF : mmReadDense true memLimit vk file (-1) (-1) = .ok F) (b e : Nat) (hbe : b ≤ e) (hen : e ≤ F.nrows) :
    mmReadDense true memLimit vk file b e
      = .ok ⟨e - b, F.ncols, (F.val.drop (b * F.ncols)).take ((e - b) * F.ncols)⟩ :=
  mmReadDense_range_eq_slice memLimit vk file F hF b e hbe hen

/-- … binary CRS (any file shorter than `2^63` bytes, the range of `std::streamoff`), for every size `csz` of a stored
column index and every size `vsz` of a stored value, equal or not … -/
theorem bin_range_eq_slice {V : Type} (memLimit csz : Nat) (cdec : Bytes → Int) (vsz : Nat) (dec : Bytes → V)
    (file : Bytes) (hfile : file.length < two63) (F : RawCRS V)
    (hF : binReadCrs true memLimit csz cdec vsz dec file (-1) (-1) = .ok F) :
    ∃ R : List (List (Int × V)), R.length = F.nrows ∧ F = RawCRS.ofRows F.nrows 0 R ∧
      ∀ b e : Nat, b ≤ e → e ≤ F.nrows →
        binReadCrs true memLimit csz cdec vsz dec file b e
          = .ok (RawCRS.ofRows (e - b) 0 ((R.drop b).take (e - b))) :=
  binReadCrs_range_eq_slice memLimit csz cdec vsz dec file hfile F hF

/-- … binary dense. -/
theorem bin_range_eq_slice_dense {V : Type} (memLimit vsz : Nat) (hvsz : 0 < vsz) (dec : Bytes → V) (file : Bytes)
    (hfile : file.length < two63) (F : RawDense V)
    (hF : binReadDense true memLimit vsz dec file (-1) (-1) = .ok F) (b e : Nat) (hbe : b ≤ e) (hen : e ≤ F.nrows) :
    binReadDense true memLimit vsz dec file b e
      = .ok ⟨e - b, F.ncols, (F.val.drop (b * F.ncols)).take ((e - b) * F.ncols)⟩ :=
  binReadDense_range_eq_slice memLimit vsz hvsz dec file hfile F hF b e hbe hen

-- non-vacuity: rows [1, 3) of a 3-row binary file with 4-byte columns and 8-byte values (entries in front of the
-- range, `sizeof(Col) ≠ sizeof(Val)`)
example : binReadCrs true 1000000 4 decS32 8 leVal (binWriteCrs encS32 enc64 ⟨3, #[[(2, 7), (0, 5)], [], [(1, 9)]]⟩)
    1 3 = .ok ⟨2, 0, [0, 0, 1], [1], [9]⟩ := by decide

-- non-vacuity: rows [1, 3) of a 3-row file
example : mmReadSparse true 1000000 intKind
    (mmWriteSparse intKind ⟨3, #[[(2, -7), (0, 5)], [], [(1, 4)]]⟩) 1 3
    = .ok ⟨2, 3, [0, 0, 1], [1], [4]⟩ := by decide

/-! ## symmetric storage -/

/-- **symmetric storage is expanded to the full matrix**: the full read of a file with `symmetric` in its banner
returns rows `R` such that row `i` holds `(j, v)` exactly when the file has the entry `(i, j, v)` or `(j, i, v)`;
consequently the result is symmetric.  (`es` are the file's parsed entries, 0-based.) -/
theorem mm_symmetric_expand {V : Type} (memLimit : Nat) (vk : ValKind V) (file : Bytes) (h : SparseHeader)
    (F : RawCRS V) (hh : mmSparseHeader true vk file = .ok h) (hs : h.sym = true)
    (hF : mmReadSparse true memLimit vk file (-1) (-1) = .ok F) :
    ∃ (es : List (Int × Int × V)) (R : List (List (Int × V))),
      parseEntries true h.n h.m vk h.nnz h.body = .ok es ∧ F = RawCRS.ofRows h.n.toNat h.n.toNat R ∧
      (∀ (i : Nat) (j : Int) (v : V), (i : Int) < h.n →
        ((j, v) ∈ R.getD i [] ↔ ((i : Int), j, v) ∈ es ∨ (j, (i : Int), v) ∈ es)) ∧
      (∀ (i j : Nat) (v : V), (i : Int) < h.n → (j : Int) < h.n →
        (((j : Int), v) ∈ R.getD i [] ↔ ((i : Int), v) ∈ R.getD j [])) :=
  mmReadSparse_symmetric memLimit vk file h F hh hs hF

/-- reading symmetric storage is reading the mirrored entry list as general storage, for every row range -/
theorem mm_symmetric_eq_expanded_general {V : Type} (b e : Int) (es : List (Int × Int × V)) :
    keepEntries true b e es = keepEntries false b e (expandSym es) :=
  keepEntries_sym_eq_expand b e es

-- non-vacuity: "%%MatrixMarket matrix coordinate integer symmetric\n2 2 2\n1 1 4\n2 1 -3\n"
example : mmReadSparse true 1000000 intKind
    [37, 37, 77, 97, 116, 114, 105, 120, 77, 97, 114, 107, 101, 116, 32, 109, 97, 116, 114, 105, 120, 32, 99, 111, 111,
     114, 100, 105, 110, 97, 116, 101, 32, 105, 110, 116, 101, 103, 101, 114, 32, 115, 121, 109, 109, 101, 116, 114,
     105, 99, 10, 50, 32, 50, 32, 50, 10, 49, 32, 49, 32, 52, 10, 50, 32, 49, 32, 45, 51, 10] (-1) (-1)
    = .ok ⟨2, 2, [0, 2, 3], [0, 1, 0], [4, -3, -3]⟩ := by decide

end Amgcl.C19
