import Amgcl.Proofs.KrylovLGMRES
import Amgcl.Proofs.KrylovGMRESRestart
import Amgcl.Proofs.KrylovGMRESExample
import Mathlib.Algebra.Order.Field.Rat
/-!
# C05 (sixth part) — LGMRES: residual minimisation and monotonicity

Subject: the LGMRES MODEL `Model/SolverLGMRES.lean` (lgmres.hpp:205-373 statement by statement), inner product `stdIp`,
both preconditioning sides.  Notation: `MM = prm.M + prm.K` is the member `M` of the class (the length of a restart
cycle), `|outer_v| = st.w.ov.size` the number of augmentation vectors held when the cycle starts (`≤ prm.K`);
`lInnerPass … st j` the inner-loop state after `j` passes, `lCycleIterate prm … st j` the `x` that `LGMRES.update` would
return then; `lToG st`, `lToGIn t`, `lToGW w` the state seen on the arrays `H, s, cs, sn, r, vs[]` that the class shares with
`gmres`; `lGPrm prm` the GMRES parameters with restart length `prm.M + prm.K`.

## the first cycle IS GMRES(M+K) — and so are the Krylov passes of every cycle

As coded (lgmres.hpp:278-284) pass `j` feeds `vs[j]` while `j < MM − |outer_v|` and an augmentation vector afterwards: the
Krylov vectors come FIRST, the augmentation vectors LAST (the comment in the source says the opposite).  So

* `lgmres_first_cycle_refines_gmres`: for `j ≤ MM − |outer_v|` the inner-loop state is that of `GMRES.step` from the same
  arrays; with an empty buffer the whole cycle (own pass count, `x`, `H, s, cs, sn, r, vs[]`) is the cycle of
  GMRES with restart length `prm.M + prm.K` (NOT `prm.M`); LGMRES(M, 0) = GMRES(M) for whole calls; a call that starts
  with an empty buffer (`always_reset`, or a fresh object) and makes at most one cycle returns what GMRES(M+K) returns.
  Side conditions, exactly: `1 ≤ prm.M + prm.K` (with `M + K = 0` the first pass reads `outer_v[0]` of an empty buffer);
  both `pside`; `always_reset` only matters through the emptiness of the buffer.
* `lgmres_first_cycle_minimises`: hence (exact roots on the numbers met, no breakdown, fixed linear preconditioner) the iterate
  after `1 ≤ j ≤ MM − |outer_v|` passes lies in `x₀ + Xl K_j(T, r₀)` and minimises the norm of the measured residual there.
* `lgmres_first_cycle_monotone`: the squared residual norms `‖Rf x_j‖²`, `j = 0..MM − |outer_v|`, are non-increasing.
* `lgmres_first_cycle_monotone_model`: the cycle of the model with an empty buffer, whatever its pass count, breakdown in its
  last pass or not, does not increase `‖Rf x‖²`.
-/
set_option linter.unusedSectionVars false
set_option linter.unusedVariables false
namespace Amgcl.C05f
open Amgcl Amgcl.Solver Amgcl.Krylov Amgcl.Energy.Bridge Matrix

section refine
variable {K : Type} [Field K] [LinearOrder K] [IsStrictOrderedRing K]

/-- the cycle of the model returns `lCycleIterate … j` for the pass count `j ≥ 1` of its own inner loop -/
theorem lgmres_cycle_returns_iterate (prm : LGMRES.Params K) (sqrt : K → K) (A : CRS K) (P : Vec K → Vec K) (epsT : K)
    (st : LGMRES.St K) :
    LGMRES.inner prm stdIp sqrt A P epsT st
      = lInnerPass prm.pside prm.MM prm.K' sqrt A P st (LGMRES.inner prm stdIp sqrt A P epsT st).j ∧
    1 ≤ (LGMRES.inner prm stdIp sqrt A P epsT st).j ∧
    (1 ≤ prm.MM → (LGMRES.inner prm stdIp sqrt A P epsT st).j ≤ prm.MM) ∧
    (LGMRES.cycle prm stdIp sqrt A P epsT st).x
      = lCycleIterate prm sqrt A P st (LGMRES.inner prm stdIp sqrt A P epsT st).j := by
  obtain ⟨h1, h2⟩ := linner_eq prm sqrt A P epsT st
  refine ⟨h1, h2, fun hM => linner_j_le prm hM sqrt A P epsT st, ?_⟩
  unfold LGMRES.cycle lCycleIterate
  exact congrArg (fun t => (LGMRES.update prm stdIp sqrt P st t).x) h1

/-- on Krylov passes the iterate is the GMRES iterate -/
theorem lCycleIterate_eq (prm : LGMRES.Params K) (sqrt : K → K) (A : CRS K) (P : Vec K → Vec K) (st : LGMRES.St K)
    (j : ℕ) (hj : 1 ≤ j) (hjk : j ≤ prm.MM - st.w.ov.size) :
    lCycleIterate prm sqrt A P st j = cycleIterate prm.pside sqrt A P (lToG st) j := by
  have h := lsim prm.pside prm.MM prm.K' sqrt A P st j hjk
  have hjj := lInnerPass_j prm.pside prm.MM prm.K' sqrt A P st j
  have := lupdate_sim prm sqrt P st _ h.wsp (by rw [hjj]; exact hj)
  rw [h.g] at this
  exact congrArg GMRES.St.x this

/-- **`lgmres_first_cycle_refines_gmres`.**  (1) In every restart cycle the first `MM − |outer_v|` passes are passes of
`GMRES.step` on the shared arrays and leave `ws[i] = vs[i]`; (2) with an empty buffer and `1 ≤ MM` the inner loop, the cycle
and the following `head` of LGMRES(M, K) are those of GMRES with restart length `M + K`; (3) LGMRES(M, 0) is GMRES(M) call by
call; (4) a call that starts with an empty buffer and makes at most one restart cycle returns what GMRES(M+K) returns. -/
theorem lgmres_first_cycle_refines_gmres (prm : LGMRES.Params K) (sqrt : K → K) (A : CRS K) (P : Vec K → Vec K) :
    (∀ (st : LGMRES.St K) (j : ℕ), j ≤ prm.MM - st.w.ov.size →
      lToGIn (lInnerPass prm.pside prm.MM prm.K' sqrt A P st j) = innerPass prm.pside sqrt A P (lToG st) j ∧
      (∀ i, i < j → (lInnerPass prm.pside prm.MM prm.K' sqrt A P st j).w.wsp.get i = .vs i) ∧
      (1 ≤ j → lCycleIterate prm sqrt A P st j = cycleIterate prm.pside sqrt A P (lToG st) j)) ∧
    (1 ≤ prm.MM → ∀ (epsT : K) (f : Vec K) (st : LGMRES.St K), st.w.ov.size = 0 →
      lToGIn (LGMRES.inner prm stdIp sqrt A P epsT st) = GMRES.inner (lGPrm prm) stdIp sqrt A P epsT (lToG st) ∧
      lToG (LGMRES.cycle prm stdIp sqrt A P epsT st) = GMRES.cycle (lGPrm prm) stdIp sqrt A P epsT (lToG st) ∧
      lToG (LGMRES.head prm.pside stdIp sqrt A P f (LGMRES.cycle prm stdIp sqrt A P epsT st))
        = GMRES.head prm.pside stdIp sqrt A P f (GMRES.cycle (lGPrm prm) stdIp sqrt A P epsT (lToG st))) ∧
    (1 ≤ prm.MM → prm.K' = 0 → ∀ (eps : K) (ws : LGMRES.Work K) (f x0 : Vec K), (LGMRES.reset prm ws).ov.size = 0 →
      (LGMRES.run prm stdIp sqrt eps A P ws f x0).obs
          = (GMRES.run (lGPrm prm) stdIp sqrt eps A P (lToGW ws) f x0).obs ∧
      lToGW (LGMRES.run prm stdIp sqrt eps A P ws f x0).ws
          = (GMRES.run (lGPrm prm) stdIp sqrt eps A P (lToGW ws) f x0).ws) ∧
    (1 ≤ prm.MM → ∀ (eps : K) (ws : LGMRES.Work K) (f x0 : Vec K), (LGMRES.reset prm ws).ov.size = 0 →
      (∀ nf, prologueA prm.nsSearch stdIp sqrt eps f = .go nf →
        LGMRES.stop prm.maxiter (LGMRES.epsTol prm nf)
          (LGMRES.init prm stdIp sqrt A P (LGMRES.reset prm ws) f x0) = true ∨
        LGMRES.stop prm.maxiter (LGMRES.epsTol prm nf) (LGMRES.head prm.pside stdIp sqrt A P f
          (LGMRES.cycle prm stdIp sqrt A P (LGMRES.epsTol prm nf)
            (LGMRES.init prm stdIp sqrt A P (LGMRES.reset prm ws) f x0))) = true) →
      (LGMRES.run prm stdIp sqrt eps A P ws f x0).obs
          = (GMRES.run (lGPrm prm) stdIp sqrt eps A P (lToGW ws) f x0).obs) := by
  refine ⟨fun st j hj => ?_, fun hM epsT f st hov => ?_, fun hM hK eps ws f x0 hov => ?_,
    fun hM eps ws f x0 hov h => ?_⟩
  · have h := lsim prm.pside prm.MM prm.K' sqrt A P st j hj
    refine ⟨h.g, fun i hi => h.wsp i (by rw [lInnerPass_j]; exact hi),
      fun h1 => lCycleIterate_eq prm sqrt A P st j h1 hj⟩
  · refine ⟨(linner_sim prm hM sqrt A P epsT st hov).g, lcycle_sim prm hM sqrt A P epsT st hov, ?_⟩
    rw [lhead_sim, lcycle_sim prm hM sqrt A P epsT st hov]
  · exact lrun_K0 prm hM hK sqrt eps A P ws f x0 hov
  · exact (lrun_one_cycle prm hM sqrt eps A P ws f x0 hov h).1

variable (n : ℕ) (A : CRS K) (hA : A.WF) (hn : A.nrows = n) (hm : A.ncols = n)
  (P : Vec K → Vec K) (Pl : (Fin n → K) →ₗ[K] (Fin n → K)) (hP : PDenotes n P Pl) (sqrt : K → K)
  (f : Vec K) (prm : LGMRES.Params K) (st : LGMRES.St K) (hst : CycleStart prm.pside sqrt A P f (lToG st))
include hA hn hm hP hst

/-- **`lgmres_first_cycle_minimises`.**  Let `st` be a state at the `break` test of the outer loop with non-zero residual
(`CycleStart … (lToG st)`: `r = Rf x`, `norm_r = ‖r‖ ≠ 0`; every state produced by `head` is one), `1 ≤ j ≤ MM − |outer_v|` — in
the first cycle of a call with `always_reset` or on a fresh object: `1 ≤ j ≤ prm.M + prm.K` —, the square root exact on the
numbers the first `j` passes apply it to and no Arnoldi breakdown in these passes (both read off the shared arrays,
`RootsExact … (lToG st) j`, implied by `hsqrt`; `arnoldiNorm … (lToG st) i ≠ 0`).  Then the iterate after `j` passes lies in
`x₀ + Xl (K_j(T, r₀))` and minimises the squared norm of the measured residual over this affine space (`T = A Pl` right /
`Pl A` left, `Xl = Pl` / `id`, `resOf = f − A x` / `Pl (f − A x)`), and `‖Rf x_j‖² = s_j²` for the stored `s`. -/
theorem lgmres_first_cycle_minimises (j : ℕ) (hj : 1 ≤ j) (hjk : j ≤ prm.MM - st.w.ov.size)
    (hroots : RootsExact prm.pside sqrt A P (lToG st) j)
    (hnb : ∀ i, i < j → arnoldiNorm prm.pside sqrt A P (lToG st) i ≠ 0) :
    (∃ d ∈ gmresKrylov prm.pside n A Pl (vecOf n st.w.r) j,
      vecOf n (lCycleIterate prm sqrt A P st j) = vecOf n st.x + Xl prm.pside Pl d) ∧
    (∀ d ∈ gmresKrylov prm.pside n A Pl (vecOf n st.w.r) j,
      stdIp (GMRES.Rf prm.pside P f A (lCycleIterate prm sqrt A P st j))
          (GMRES.Rf prm.pside P f A (lCycleIterate prm sqrt A P st j))
        ≤ resOf prm.pside (matOf A n n) Pl (vecOf n f) (vecOf n st.x + Xl prm.pside Pl d)
          ⬝ᵥ resOf prm.pside (matOf A n n) Pl (vecOf n f) (vecOf n st.x + Xl prm.pside Pl d)) ∧
    stdIp (GMRES.Rf prm.pside P f A (lCycleIterate prm sqrt A P st j))
        (GMRES.Rf prm.pside P f A (lCycleIterate prm sqrt A P st j))
      = (lInnerPass prm.pside prm.MM prm.K' sqrt A P st j).w.h.s.get j
        * (lInnerPass prm.pside prm.MM prm.K' sqrt A P st j).w.h.s.get j := by
  rw [lCycleIterate_eq prm sqrt A P st j hj hjk]
  have hg := (lsim prm.pside prm.MM prm.K' sqrt A P st j hjk).g
  have hs : (lInnerPass prm.pside prm.MM prm.K' sqrt A P st j).w.h
      = (innerPass prm.pside sqrt A P (lToG st) j).w.h := by rw [← hg]; rfl
  have hk : arnoldiSpan prm.pside sqrt A P (lToG st) n j = gmresKrylov prm.pside n A Pl (vecOf n st.w.r) j :=
    arnoldiSpan_eq_krylov n A hA hn hm P Pl hP prm.pside sqrt f (lToG st) hst j hroots hnb
  rw [hs, ← hk]
  exact ⟨cycleIterate_mem n A hA hn hm P Pl hP prm.pside sqrt f (lToG st) hst j hj hroots hnb,
    fun d hd => cycle_minimal n A hA hn hm P Pl hP prm.pside sqrt f (lToG st) hst j hj hroots hnb d hd,
    cycle_residual n A hA hn hm P Pl hP prm.pside sqrt f (lToG st) hst j hj hroots hnb⟩

/-- **`lgmres_first_cycle_monotone`.**  Under the same hypotheses for `j + 1 ≤ MM − |outer_v|` passes:
`‖Rf x_{j+1}‖² ≤ ‖Rf x_j‖²` (`j ≥ 1`) and `‖Rf x_1‖² ≤ ‖Rf x₀‖²` — over `k = 0..M+K` in the first cycle the squared norms of
the measured residual are non-increasing. -/
theorem lgmres_first_cycle_monotone (j : ℕ) (hjk : j + 1 ≤ prm.MM - st.w.ov.size)
    (hroots : RootsExact prm.pside sqrt A P (lToG st) (j + 1))
    (hnb : ∀ i, i < j + 1 → arnoldiNorm prm.pside sqrt A P (lToG st) i ≠ 0) :
    stdIp (GMRES.Rf prm.pside P f A (lCycleIterate prm sqrt A P st (j + 1)))
        (GMRES.Rf prm.pside P f A (lCycleIterate prm sqrt A P st (j + 1)))
      ≤ (if j = 0 then stdIp (GMRES.Rf prm.pside P f A st.x) (GMRES.Rf prm.pside P f A st.x)
         else stdIp (GMRES.Rf prm.pside P f A (lCycleIterate prm sqrt A P st j))
          (GMRES.Rf prm.pside P f A (lCycleIterate prm sqrt A P st j))) := by
  rw [lCycleIterate_eq prm sqrt A P st (j + 1) (by omega) hjk]
  by_cases hj : j = 0
  · subst hj
    rw [if_pos rfl]
    exact cycle_antitone_zero n A hA hn hm P Pl hP prm.pside sqrt f (lToG st) hst hroots (hnb 0 Nat.zero_lt_one)
  · rw [if_neg hj, lCycleIterate_eq prm sqrt A P st j (by omega) (by omega)]
    exact cycle_antitone n A hA hn hm P Pl hP prm.pside sqrt f (lToG st) hst j (by omega) hroots hnb

/-- **the first cycle of the model does not increase the residual** — own pass count, breakdown in its last pass or not
(threshold not negative, buffer empty, `1 ≤ M + K`, exact roots on the numbers the cycle meets) -/
theorem lgmres_first_cycle_monotone_model (hM : 1 ≤ prm.MM) (hov : st.w.ov.size = 0) (epsT : K) (heps : ¬ epsT < 0)
    (hroots : RootsExact prm.pside sqrt A P (lToG st) (LGMRES.inner prm stdIp sqrt A P epsT st).j) :
    stdIp (GMRES.Rf prm.pside P f A (LGMRES.cycle prm stdIp sqrt A P epsT st).x)
        (GMRES.Rf prm.pside P f A (LGMRES.cycle prm stdIp sqrt A P epsT st).x)
      ≤ stdIp (GMRES.Rf prm.pside P f A st.x) (GMRES.Rf prm.pside P f A st.x) := by
  have hx : (LGMRES.cycle prm stdIp sqrt A P epsT st).x
      = (GMRES.cycle (lGPrm prm) stdIp sqrt A P epsT (lToG st)).x :=
    congrArg GMRES.St.x (lcycle_sim prm hM sqrt A P epsT st hov)
  have hjj : (LGMRES.inner prm stdIp sqrt A P epsT st).j
      = (GMRES.inner (lGPrm prm) stdIp sqrt A P epsT (lToG st)).j :=
    congrArg GMRES.In.j (linner_sim prm hM sqrt A P epsT st hov).g
  rw [hx]
  rw [hjj] at hroots
  exact cycle_monotone n A hA hn hm P Pl hP prm.pside sqrt f (lToG st) hst (lGPrm prm) rfl epsT heps hroots

end refine

/-! ### non-vacuity over `ℚ` with the executable `rsqrt`: LGMRES(2, 1) on the system of `Proofs/KrylovGMRESExample.lean`
(`A = [[3,0,1],[4,5,2],[0,4,3]]`, identity preconditioner, right side, `f = (25,0,0)`, `x₀ = 0`): the first cycle is the
cycle of GMRES(3), `rsqrt` is exact on every number its first two passes meet -/
section nonvacuous
open Amgcl.Krylov.ExG

def prml : LGMRES.Params ℚ :=
  { maxiter := 2, tol := 0, abstol := 0, nsSearch := false, M := 2, K' := 1, alwaysReset := true, pside := .right }
/-- the state at the first `break` test of a call on a fresh object -/
def stl : LGMRES.St ℚ := LGMRES.init prml stdIp Amgcl.rsqrt Ag Pg (LGMRES.Work.fresh 3) fg xg

theorem hstl_toG : lToG stl = stg := linit_sim prml Amgcl.rsqrt Ag Pg (LGMRES.Work.fresh 3) fg xg
theorem hstl : CycleStart prml.pside Amgcl.rsqrt Ag Pg fg (lToG stl) := by rw [hstl_toG]; exact hstg

/-- `lgmres_first_cycle_refines_gmres` (1), (2) on this input: the state after two passes and the whole first cycle -/
example : lToGIn (lInnerPass .right 3 1 Amgcl.rsqrt Ag Pg stl 2) = innerPass .right Amgcl.rsqrt Ag Pg stg 2 ∧
    lToG (LGMRES.cycle prml stdIp Amgcl.rsqrt Ag Pg 0 stl) = GMRES.cycle prmg stdIp Amgcl.rsqrt Ag Pg 0 stg := by
  obtain ⟨h1, h2, _, _⟩ := lgmres_first_cycle_refines_gmres prml Amgcl.rsqrt Ag Pg
  have hov : stl.w.ov.size = 0 := by decide +kernel
  refine ⟨?_, ?_⟩
  · have := (h1 stl 2 (by rw [hov]; decide)).1
    rw [hstl_toG] at this; exact this
  · have := (h2 (by decide) 0 fg stl hov).2.1
    rw [hstl_toG] at this; exact this

/-- `lgmres_first_cycle_minimises` for `j = 2` (all hypotheses discharged) -/
example : (∃ d ∈ gmresKrylov .right 3 Ag LinearMap.id (vecOf 3 stl.w.r) 2,
      vecOf 3 (lCycleIterate prml Amgcl.rsqrt Ag Pg stl 2) = vecOf 3 stl.x + Xl .right LinearMap.id d) ∧
    ∀ d ∈ gmresKrylov .right 3 Ag LinearMap.id (vecOf 3 stl.w.r) 2,
      stdIp (GMRES.Rf .right Pg fg Ag (lCycleIterate prml Amgcl.rsqrt Ag Pg stl 2))
          (GMRES.Rf .right Pg fg Ag (lCycleIterate prml Amgcl.rsqrt Ag Pg stl 2))
        ≤ resOf .right (matOf Ag 3 3) LinearMap.id (vecOf 3 fg) (vecOf 3 stl.x + Xl .right LinearMap.id d)
          ⬝ᵥ resOf .right (matOf Ag 3 3) LinearMap.id (vecOf 3 fg) (vecOf 3 stl.x + Xl .right LinearMap.id d) := by
  have h := lgmres_first_cycle_minimises 3 Ag hAg rfl rfl Pg LinearMap.id hPg Amgcl.rsqrt fg prml stl hstl 2 (by decide)
    (by decide +kernel) (by rw [hstl_toG]; exact hrootsg) (by rw [hstl_toG]; exact hnbg)
  exact ⟨h.1, h.2.1⟩

/-- `lgmres_first_cycle_monotone` for `j = 1`: `‖f − A x₂‖² ≤ ‖f − A x₁‖²` (`256 ≤ 400`, evaluated below) -/
example : stdIp (GMRES.Rf .right Pg fg Ag (lCycleIterate prml Amgcl.rsqrt Ag Pg stl 2))
      (GMRES.Rf .right Pg fg Ag (lCycleIterate prml Amgcl.rsqrt Ag Pg stl 2))
    ≤ stdIp (GMRES.Rf .right Pg fg Ag (lCycleIterate prml Amgcl.rsqrt Ag Pg stl 1))
      (GMRES.Rf .right Pg fg Ag (lCycleIterate prml Amgcl.rsqrt Ag Pg stl 1)) :=
  lgmres_first_cycle_monotone 3 Ag hAg rfl rfl Pg LinearMap.id hPg Amgcl.rsqrt fg prml stl hstl 1 (by decide +kernel)
    (by rw [hstl_toG]; exact hrootsg) (by rw [hstl_toG]; exact hnbg)

/-- the numbers, evaluated independently by the kernel on the LGMRES model: `‖f − A x_j‖² = 625, 400, 256`, the call with
`maxiter = 2` returns `x₂ = (123/25, −12/5, 0)` after `2` iterations — what GMRES(3) returns -/
example : stdIp (residual fg Ag stl.x) (residual fg Ag stl.x) = 625 ∧
    stdIp (residual fg Ag (lCycleIterate prml Amgcl.rsqrt Ag Pg stl 1))
      (residual fg Ag (lCycleIterate prml Amgcl.rsqrt Ag Pg stl 1)) = 400 ∧
    stdIp (residual fg Ag (lCycleIterate prml Amgcl.rsqrt Ag Pg stl 2))
      (residual fg Ag (lCycleIterate prml Amgcl.rsqrt Ag Pg stl 2)) = 256 ∧
    (match LGMRES.solve prml stdIp Amgcl.rsqrt 0 Ag Pg (LGMRES.Work.fresh 3) fg xg with
      | .ok (it, res, x, _) => decide (it = 2 ∧ res = 16/25 ∧ x = #[123/25, -12/5, 0])
      | _ => false) = true := by decide +kernel

end nonvacuous

end Amgcl.C05f
