import Amgcl.Proofs.KrylovLGMRESRestart
import Amgcl.Proofs.KrylovLGMRESExample
import Mathlib.Algebra.Order.Field.Rat
/-!
# C05 (sixth part) — LGMRES: residual minimisation and monotonicity

Subject: the LGMRES MODEL `Model/SolverLGMRES.lean` (lgmres.hpp:205-373 statement by statement), inner product `stdIp`,
both preconditioning sides.  Notation: `MM = prm.M + prm.K` is the member `M` of the class (the length of a restart
cycle), `|outer_v| = st.w.ov.size` the number of augmentation vectors held when the cycle starts (`≤ prm.K`);
`lInnerPass … st j` the inner-loop state after `j` passes, `lCycleIterate prm … st j` the `x` that `LGMRES.update` would
return then; `lToG st`, `lToGIn t`, `lToGW w` the state seen on the arrays `H, s, cs, sn, r, vs[]` that the class shares with
`gmres`; `lGPrm prm` the GMRES parameters with restart length `prm.M + prm.K`.

## the first cycle IS GMRES(M+K) — and so are the Krylov passes of every cycle

As coded (lgmres.hpp:278-284) pass `j` feeds `vs[j]` while `j < MM − |outer_v|` and an augmentation vector afterwards: the
Krylov vectors come FIRST, the augmentation vectors LAST (the comment in the source says the opposite).  So

* `lgmres_first_cycle_refines_gmres`: for `j ≤ MM − |outer_v|` the inner-loop state is that of `GMRES.step` from the same
  arrays; with an empty buffer the whole cycle (own pass count, `x`, `H, s, cs, sn, r, vs[]`) is the cycle of
  GMRES with restart length `prm.M + prm.K` (NOT `prm.M`); LGMRES(M, 0) = GMRES(M) for whole calls; a call that starts
  with an empty buffer (`always_reset`, or a fresh object) and makes at most one cycle returns what GMRES(M+K) returns.
  Side conditions, exactly: `1 ≤ prm.M + prm.K` (with `M + K = 0` the first pass reads `outer_v[0]` of an empty buffer);
  both `pside`; `always_reset` only matters through the emptiness of the buffer.
* `lgmres_first_cycle_minimises`: hence (exact roots on the numbers met, no breakdown, fixed linear preconditioner) the iterate
  after `1 ≤ j ≤ MM − |outer_v|` passes lies in `x₀ + Xl K_j(T, r₀)` and minimises the norm of the measured residual there.
* `lgmres_first_cycle_monotone`: the squared residual norms `‖Rf x_j‖²`, `j = 0..MM − |outer_v|`, are non-increasing.
* `lgmres_first_cycle_monotone_model`: the cycle of the model with an empty buffer, whatever its pass count, breakdown in its
  last pass or not, does not increase `‖Rf x‖²`.
* `lgmres_first_cycle_breakdown_exact`: a breakdown in the last pass of such a cycle and an injective preconditioned operator:
  the cycle returns the exact solution (residual vector zero).

## the general cycle: minimisation over the AUGMENTED space, monotonicity, restarts

In a cycle that starts with `|outer_v| > 0` augmentation vectors the passes `i ≥ MM − |outer_v|` feed `z_i = outer_v[i − (MM − |outer_v|)]`
instead of `vs[i]`; the Hessenberg / Givens statements are the same.  `lZ t i = *ws[i]` is the vector fed in pass `i`,
`lHTilde … j` the unrotated Hessenberg matrix `H̃` (ghost of the run), `lArnoldiNorm … i = H̃(i+1,i)` (`0` = breakdown),
`LRootsExact prm … st j` = the root is exact on the numbers the first `j` passes apply it to (`⟨r,r⟩`, `⟨w_i,w_i⟩`, the arguments
of `generate_plane_rotation`; implied by `hsqrt`, `lRootsExact_of_hsqrt`) — NOT on the norm used to normalise the stored
augmentation vectors, which may be any vectors of length `n`.

* `lgmres_breakdown_ends_cycle`   a pass with `H̃(i+1,i) = 0` — Krylov or augmentation — has `inner_res = 0`; for a threshold
  that is not negative it is the last pass of its cycle.
* `lgmres_cycle_arnoldi`          the relation `T·[v_0..v_{m-1}, z_aug..] = V_{j+1} H̃` of the code's construction: `vs[0..j]`
  orthonormal, `T z_i = Σ_{k ≤ i+1} H̃(k,i) V_k` for every fed vector, `r₀ = β V₀`, and which vector `z_i` is.
* `lgmres_cycle_least_squares`    `‖resOf (x₀ + Xl Σ y_i z_i)‖² = Σ_a (s_a − (R y)_a)² + s_j²` for EVERY `y` (breakdown allowed in the
  last pass).
* `lgmres_cycle_minimises`        the iterate after `j` passes without breakdown lies in `x₀ + Xl (span{z_0..z_{j-1}})` —
  Krylov basis AND augmentation vectors — and minimises the norm of the measured residual there; `‖Rf x_j‖² = s_j²`.
* `lgmres_cycle_le_gmres`         the augmentation passes can only improve on GMRES: the iterate after `j` passes is at least as
  good as the iterate of GMRES after any `m ≤ min(j, MM − |outer_v|)` passes from the same state.
* `lgmres_cycle_antitone`         `‖Rf x_{j+1}‖² ≤ ‖Rf x_j‖²` within every cycle; `lgmres_cycle_monotone`: the cycle of the model
  (own pass count, breakdown in the last pass or not, singular triangular factor or not) does not increase `‖Rf x‖²`.
* `lgmres_restart_monotone`       the call returns the member `louterPass … init k` of the sequence of restart states (`k` the
  first index whose stopping test succeeds) and `‖Rf x⁽ʲ⁾‖² ≤ ‖Rf x⁽ⁱ⁾‖²` for `i ≤ j ≤ k`, for every threshold `eps ≥ 0` and
  WHATEVER augmentation vectors (of length `n`) the object carried into the call (`always_reset` on or off);
  `lgmres_restart_monotone_call`: `‖Rf x‖² ≤ ‖Rf x₀‖²` for the returned `x` under the global hypothesis `hsqrt`.
-/
set_option linter.unusedSectionVars false
set_option linter.unusedVariables false
namespace Amgcl.C05f
open Amgcl Amgcl.Solver Amgcl.Krylov Amgcl.Energy.Bridge Matrix

section refine
variable {K : Type} [Field K] [LinearOrder K] [IsStrictOrderedRing K]

/-- the cycle of the model returns `lCycleIterate … j` for the pass count `j ≥ 1` of its own inner loop -/
theorem lgmres_cycle_returns_iterate (prm : LGMRES.Params K) (sqrt : K → K) (A : CRS K) (P : Vec K → Vec K) (epsT : K)
    (st : LGMRES.St K) :
    LGMRES.inner prm stdIp sqrt A P epsT st
      = lInnerPass prm.pside prm.MM prm.K' sqrt A P st (LGMRES.inner prm stdIp sqrt A P epsT st).j ∧
    1 ≤ (LGMRES.inner prm stdIp sqrt A P epsT st).j ∧
    (1 ≤ prm.MM → (LGMRES.inner prm stdIp sqrt A P epsT st).j ≤ prm.MM) ∧
    (LGMRES.cycle prm stdIp sqrt A P epsT st).x
      = lCycleIterate prm sqrt A P st (LGMRES.inner prm stdIp sqrt A P epsT st).j := by
  obtain ⟨h1, h2⟩ := linner_eq prm sqrt A P epsT st
  refine ⟨h1, h2, fun hM => linner_j_le prm hM sqrt A P epsT st, ?_⟩
  unfold LGMRES.cycle lCycleIterate
  exact congrArg (fun t => (LGMRES.update prm stdIp sqrt P st t).x) h1

/-- on Krylov passes the iterate is the GMRES iterate -/
theorem lCycleIterate_eq (prm : LGMRES.Params K) (sqrt : K → K) (A : CRS K) (P : Vec K → Vec K) (st : LGMRES.St K)
    (j : ℕ) (hj : 1 ≤ j) (hjk : j ≤ prm.MM - st.w.ov.size) :
    lCycleIterate prm sqrt A P st j = cycleIterate prm.pside sqrt A P (lToG st) j := by
  have h := lsim prm.pside prm.MM prm.K' sqrt A P st j hjk
  have hjj := lInnerPass_j prm.pside prm.MM prm.K' sqrt A P st j
  have := lupdate_sim prm sqrt P st _ h.wsp (by rw [hjj]; exact hj)
  rw [h.g] at this
  exact congrArg GMRES.St.x this

/-- when the buffer `outer_v` is empty at the first `break` test of a call: `always_reset` (lgmres.hpp:217-219), or a freshly
constructed object -/
theorem lgmres_buffer_empty (prm : LGMRES.Params K) (ws : LGMRES.Work K) (n : ℕ) :
    (prm.alwaysReset = true → (LGMRES.reset prm ws).ov.size = 0) ∧
    (LGMRES.reset prm (LGMRES.Work.fresh n : LGMRES.Work K)).ov.size = 0 ∧
    ∀ (sqrt : K → K) (A : CRS K) (P : Vec K → Vec K) (f x0 : Vec K),
      (LGMRES.init prm stdIp sqrt A P (LGMRES.reset prm ws) f x0).w.ov = (LGMRES.reset prm ws).ov := by
  refine ⟨fun h => ?_, ?_, fun sqrt A P f x0 => linit_ov prm sqrt A P _ f x0⟩
  · unfold LGMRES.reset; rw [if_pos h]; rfl
  · unfold LGMRES.reset; split <;> rfl

/-- **`lgmres_first_cycle_refines_gmres`.**  (1) In every restart cycle the first `MM − |outer_v|` passes are passes of
`GMRES.step` on the shared arrays and leave `ws[i] = vs[i]`; (2) with an empty buffer and `1 ≤ MM` the inner loop, the cycle
and the following `head` of LGMRES(M, K) are those of GMRES with restart length `M + K`; (3) LGMRES(M, 0) is GMRES(M) call by
call; (4) a call that starts with an empty buffer and makes at most one restart cycle returns what GMRES(M+K) returns. -/
theorem lgmres_first_cycle_refines_gmres (prm : LGMRES.Params K) (sqrt : K → K) (A : CRS K) (P : Vec K → Vec K) :
    (∀ (st : LGMRES.St K) (j : ℕ), j ≤ prm.MM - st.w.ov.size →
      lToGIn (lInnerPass prm.pside prm.MM prm.K' sqrt A P st j) = innerPass prm.pside sqrt A P (lToG st) j ∧
      (∀ i, i < j → (lInnerPass prm.pside prm.MM prm.K' sqrt A P st j).w.wsp.get i = .vs i) ∧
      (1 ≤ j → lCycleIterate prm sqrt A P st j = cycleIterate prm.pside sqrt A P (lToG st) j)) ∧
    (1 ≤ prm.MM → ∀ (epsT : K) (f : Vec K) (st : LGMRES.St K), st.w.ov.size = 0 →
      lToGIn (LGMRES.inner prm stdIp sqrt A P epsT st) = GMRES.inner (lGPrm prm) stdIp sqrt A P epsT (lToG st) ∧
      lToG (LGMRES.cycle prm stdIp sqrt A P epsT st) = GMRES.cycle (lGPrm prm) stdIp sqrt A P epsT (lToG st) ∧
      lToG (LGMRES.head prm.pside stdIp sqrt A P f (LGMRES.cycle prm stdIp sqrt A P epsT st))
        = GMRES.head prm.pside stdIp sqrt A P f (GMRES.cycle (lGPrm prm) stdIp sqrt A P epsT (lToG st))) ∧
    (1 ≤ prm.MM → prm.K' = 0 → ∀ (eps : K) (ws : LGMRES.Work K) (f x0 : Vec K), (LGMRES.reset prm ws).ov.size = 0 →
      (LGMRES.run prm stdIp sqrt eps A P ws f x0).obs
          = (GMRES.run (lGPrm prm) stdIp sqrt eps A P (lToGW ws) f x0).obs ∧
      lToGW (LGMRES.run prm stdIp sqrt eps A P ws f x0).ws
          = (GMRES.run (lGPrm prm) stdIp sqrt eps A P (lToGW ws) f x0).ws) ∧
    (1 ≤ prm.MM → ∀ (eps : K) (ws : LGMRES.Work K) (f x0 : Vec K), (LGMRES.reset prm ws).ov.size = 0 →
      (∀ nf, prologueA prm.nsSearch stdIp sqrt eps f = .go nf →
        LGMRES.stop prm.maxiter (LGMRES.epsTol prm nf)
          (LGMRES.init prm stdIp sqrt A P (LGMRES.reset prm ws) f x0) = true ∨
        LGMRES.stop prm.maxiter (LGMRES.epsTol prm nf) (LGMRES.head prm.pside stdIp sqrt A P f
          (LGMRES.cycle prm stdIp sqrt A P (LGMRES.epsTol prm nf)
            (LGMRES.init prm stdIp sqrt A P (LGMRES.reset prm ws) f x0))) = true) →
      (LGMRES.run prm stdIp sqrt eps A P ws f x0).obs
          = (GMRES.run (lGPrm prm) stdIp sqrt eps A P (lToGW ws) f x0).obs) := by
  refine ⟨fun st j hj => ?_, fun hM epsT f st hov => ?_, fun hM hK eps ws f x0 hov => ?_,
    fun hM eps ws f x0 hov h => ?_⟩
  · have h := lsim prm.pside prm.MM prm.K' sqrt A P st j hj
    refine ⟨h.g, fun i hi => h.wsp i (by rw [lInnerPass_j]; exact hi),
      fun h1 => lCycleIterate_eq prm sqrt A P st j h1 hj⟩
  · refine ⟨(linner_sim prm hM sqrt A P epsT st hov).g, lcycle_sim prm hM sqrt A P epsT st hov, ?_⟩
    rw [lhead_sim, lcycle_sim prm hM sqrt A P epsT st hov]
  · exact lrun_K0 prm hM hK sqrt eps A P ws f x0 hov
  · exact (lrun_one_cycle prm hM sqrt eps A P ws f x0 hov h).1

variable (n : ℕ) (A : CRS K) (hA : A.WF) (hn : A.nrows = n) (hm : A.ncols = n)
  (P : Vec K → Vec K) (Pl : (Fin n → K) →ₗ[K] (Fin n → K)) (hP : PDenotes n P Pl) (sqrt : K → K)
  (f : Vec K) (prm : LGMRES.Params K) (st : LGMRES.St K) (hst : CycleStart prm.pside sqrt A P f (lToG st))
include hA hn hm hP hst

/-- **`lgmres_first_cycle_minimises`.**  Let `st` be a state at the `break` test of the outer loop with non-zero residual
(`CycleStart … (lToG st)`: `r = Rf x`, `norm_r = ‖r‖ ≠ 0`; every state produced by `head` is one), `1 ≤ j ≤ MM − |outer_v|` — in
the first cycle of a call with `always_reset` or on a fresh object: `1 ≤ j ≤ prm.M + prm.K` —, the square root exact on the
numbers the first `j` passes apply it to and no Arnoldi breakdown in these passes (both read off the shared arrays,
`RootsExact … (lToG st) j`, implied by `hsqrt`; `arnoldiNorm … (lToG st) i ≠ 0`).  Then the iterate after `j` passes lies in
`x₀ + Xl (K_j(T, r₀))` and minimises the squared norm of the measured residual over this affine space (`T = A Pl` right /
`Pl A` left, `Xl = Pl` / `id`, `resOf = f − A x` / `Pl (f − A x)`), and `‖Rf x_j‖² = s_j²` for the stored `s`. -/
theorem lgmres_first_cycle_minimises (j : ℕ) (hj : 1 ≤ j) (hjk : j ≤ prm.MM - st.w.ov.size)
    (hroots : RootsExact prm.pside sqrt A P (lToG st) j)
    (hnb : ∀ i, i < j → arnoldiNorm prm.pside sqrt A P (lToG st) i ≠ 0) :
    (∃ d ∈ gmresKrylov prm.pside n A Pl (vecOf n st.w.r) j,
      vecOf n (lCycleIterate prm sqrt A P st j) = vecOf n st.x + Xl prm.pside Pl d) ∧
    (∀ d ∈ gmresKrylov prm.pside n A Pl (vecOf n st.w.r) j,
      stdIp (GMRES.Rf prm.pside P f A (lCycleIterate prm sqrt A P st j))
          (GMRES.Rf prm.pside P f A (lCycleIterate prm sqrt A P st j))
        ≤ resOf prm.pside (matOf A n n) Pl (vecOf n f) (vecOf n st.x + Xl prm.pside Pl d)
          ⬝ᵥ resOf prm.pside (matOf A n n) Pl (vecOf n f) (vecOf n st.x + Xl prm.pside Pl d)) ∧
    stdIp (GMRES.Rf prm.pside P f A (lCycleIterate prm sqrt A P st j))
        (GMRES.Rf prm.pside P f A (lCycleIterate prm sqrt A P st j))
      = (lInnerPass prm.pside prm.MM prm.K' sqrt A P st j).w.h.s.get j
        * (lInnerPass prm.pside prm.MM prm.K' sqrt A P st j).w.h.s.get j := by
  rw [lCycleIterate_eq prm sqrt A P st j hj hjk]
  have hg := (lsim prm.pside prm.MM prm.K' sqrt A P st j hjk).g
  have hs : (lInnerPass prm.pside prm.MM prm.K' sqrt A P st j).w.h
      = (innerPass prm.pside sqrt A P (lToG st) j).w.h := by rw [← hg]; rfl
  have hk : arnoldiSpan prm.pside sqrt A P (lToG st) n j = gmresKrylov prm.pside n A Pl (vecOf n st.w.r) j :=
    arnoldiSpan_eq_krylov n A hA hn hm P Pl hP prm.pside sqrt f (lToG st) hst j hroots hnb
  rw [hs, ← hk]
  exact ⟨cycleIterate_mem n A hA hn hm P Pl hP prm.pside sqrt f (lToG st) hst j hj hroots hnb,
    fun d hd => cycle_minimal n A hA hn hm P Pl hP prm.pside sqrt f (lToG st) hst j hj hroots hnb d hd,
    cycle_residual n A hA hn hm P Pl hP prm.pside sqrt f (lToG st) hst j hj hroots hnb⟩

/-- **`lgmres_first_cycle_monotone`.**  Under the same hypotheses for `j + 1 ≤ MM − |outer_v|` passes:
`‖Rf x_{j+1}‖² ≤ ‖Rf x_j‖²` (`j ≥ 1`) and `‖Rf x_1‖² ≤ ‖Rf x₀‖²` — over `k = 0..M+K` in the first cycle the squared norms of
the measured residual are non-increasing. -/
theorem lgmres_first_cycle_monotone (j : ℕ) (hjk : j + 1 ≤ prm.MM - st.w.ov.size)
    (hroots : RootsExact prm.pside sqrt A P (lToG st) (j + 1))
    (hnb : ∀ i, i < j + 1 → arnoldiNorm prm.pside sqrt A P (lToG st) i ≠ 0) :
    stdIp (GMRES.Rf prm.pside P f A (lCycleIterate prm sqrt A P st (j + 1)))
        (GMRES.Rf prm.pside P f A (lCycleIterate prm sqrt A P st (j + 1)))
      ≤ (if j = 0 then stdIp (GMRES.Rf prm.pside P f A st.x) (GMRES.Rf prm.pside P f A st.x)
         else stdIp (GMRES.Rf prm.pside P f A (lCycleIterate prm sqrt A P st j))
          (GMRES.Rf prm.pside P f A (lCycleIterate prm sqrt A P st j))) := by
  rw [lCycleIterate_eq prm sqrt A P st (j + 1) (by omega) hjk]
  by_cases hj : j = 0
  · subst hj
    rw [if_pos rfl]
    exact cycle_antitone_zero n A hA hn hm P Pl hP prm.pside sqrt f (lToG st) hst hroots (hnb 0 Nat.zero_lt_one)
  · rw [if_neg hj, lCycleIterate_eq prm sqrt A P st j (by omega) (by omega)]
    exact cycle_antitone n A hA hn hm P Pl hP prm.pside sqrt f (lToG st) hst j (by omega) hroots hnb

/-- **the first cycle of the model does not increase the residual** — own pass count, breakdown in its last pass or not
(threshold not negative, buffer empty, `1 ≤ M + K`, exact roots on the numbers the cycle meets) -/
theorem lgmres_first_cycle_monotone_model (hM : 1 ≤ prm.MM) (hov : st.w.ov.size = 0) (epsT : K) (heps : ¬ epsT < 0)
    (hroots : RootsExact prm.pside sqrt A P (lToG st) (LGMRES.inner prm stdIp sqrt A P epsT st).j) :
    stdIp (GMRES.Rf prm.pside P f A (LGMRES.cycle prm stdIp sqrt A P epsT st).x)
        (GMRES.Rf prm.pside P f A (LGMRES.cycle prm stdIp sqrt A P epsT st).x)
      ≤ stdIp (GMRES.Rf prm.pside P f A st.x) (GMRES.Rf prm.pside P f A st.x) := by
  have hx : (LGMRES.cycle prm stdIp sqrt A P epsT st).x
      = (GMRES.cycle (lGPrm prm) stdIp sqrt A P epsT (lToG st)).x :=
    congrArg GMRES.St.x (lcycle_sim prm hM sqrt A P epsT st hov)
  have hjj : (LGMRES.inner prm stdIp sqrt A P epsT st).j
      = (GMRES.inner (lGPrm prm) stdIp sqrt A P epsT (lToG st)).j :=
    congrArg GMRES.In.j (linner_sim prm hM sqrt A P epsT st hov).g
  rw [hx]
  rw [hjj] at hroots
  exact cycle_monotone n A hA hn hm P Pl hP prm.pside sqrt f (lToG st) hst (lGPrm prm) rfl epsT heps hroots

/-- **(lucky) breakdown in the first cycle returns the exact solution**: buffer empty, `1 ≤ M + K`, threshold not negative,
exact roots; if the inner loop of the cycle ends with a breakdown in its last pass (`H̃(j,j−1) = 0`) and the preconditioned
operator `T = A Pl` / `Pl A` is injective, the `x` the cycle returns has measured residual `Rf x = 0` and true residual
`f − A x = 0` (the zero VECTORS).  (In a cycle that feeds augmentation vectors a breakdown need not be lucky: `ExLB` below.) -/
theorem lgmres_first_cycle_breakdown_exact (hM : 1 ≤ prm.MM) (hov : st.w.ov.size = 0) (epsT : K) (heps : ¬ epsT < 0)
    (hroots : RootsExact prm.pside sqrt A P (lToG st) (LGMRES.inner prm stdIp sqrt A P epsT st).j)
    (hinj : Function.Injective (Tl prm.pside (matOf A n n) Pl))
    (hb : arnoldiNorm prm.pside sqrt A P (lToG st) ((LGMRES.inner prm stdIp sqrt A P epsT st).j - 1) = 0) :
    GMRES.Rf prm.pside P f A (LGMRES.cycle prm stdIp sqrt A P epsT st).x = vclear n ∧
    residual f A (LGMRES.cycle prm stdIp sqrt A P epsT st).x = vclear n := by
  have hx : (LGMRES.cycle prm stdIp sqrt A P epsT st).x
      = (GMRES.cycle (lGPrm prm) stdIp sqrt A P epsT (lToG st)).x :=
    congrArg GMRES.St.x (lcycle_sim prm hM sqrt A P epsT st hov)
  have hjj : (LGMRES.inner prm stdIp sqrt A P epsT st).j
      = (GMRES.inner (lGPrm prm) stdIp sqrt A P epsT (lToG st)).j :=
    congrArg GMRES.In.j (linner_sim prm hM sqrt A P epsT st hov).g
  rw [hx]
  rw [hjj] at hroots hb
  have hge := (inner_eq_innerPass (lGPrm prm) sqrt A P epsT (lToG st)).2
  have hnb := inner_no_early_breakdown (lGPrm prm) sqrt A P epsT heps (lToG st)
  obtain ⟨m, hm'⟩ : ∃ m, (GMRES.inner (lGPrm prm) stdIp sqrt A P epsT (lToG st)).j = m + 1 :=
    ⟨_, (Nat.sub_add_cancel hge).symm⟩
  rw [hm'] at hroots hnb hb
  rw [Nat.add_sub_cancel] at hb
  have hRf : GMRES.Rf prm.pside P f A (GMRES.cycle (lGPrm prm) stdIp sqrt A P epsT (lToG st)).x = vclear n := by
    rw [cycle_x, hm']
    exact breakdown_exact n A hA hn hm P Pl hP prm.pside sqrt f (lToG st) hst m hroots (fun i hi => hnb i (by omega))
      hinj hb
  exact ⟨hRf, true_residual_zero n A hA hn hm P Pl hP prm.pside hinj f _ hRf⟩

end refine

/-! ### non-vacuity over `ℚ` with the executable `rsqrt`: LGMRES(2, 1) on the system of `Proofs/KrylovGMRESExample.lean`
(`A = [[3,0,1],[4,5,2],[0,4,3]]`, identity preconditioner, right side, `f = (25,0,0)`, `x₀ = 0`): the first cycle is the
cycle of GMRES(3), `rsqrt` is exact on every number its first two passes meet -/
section nonvacuous
open Amgcl.Krylov.ExG

def prml : LGMRES.Params ℚ :=
  { maxiter := 2, tol := 0, abstol := 0, nsSearch := false, M := 2, K' := 1, alwaysReset := true, pside := .right }
/-- the state at the first `break` test of a call on a fresh object -/
def stl : LGMRES.St ℚ := LGMRES.init prml stdIp Amgcl.rsqrt Ag Pg (LGMRES.Work.fresh 3) fg xg

theorem hstl_toG : lToG stl = stg := linit_sim prml Amgcl.rsqrt Ag Pg (LGMRES.Work.fresh 3) fg xg
theorem hstl : CycleStart prml.pside Amgcl.rsqrt Ag Pg fg (lToG stl) := by rw [hstl_toG]; exact hstg

/-- `lgmres_first_cycle_refines_gmres` (1), (2) on this input: the state after two passes and the whole first cycle -/
example : lToGIn (lInnerPass .right 3 1 Amgcl.rsqrt Ag Pg stl 2) = innerPass .right Amgcl.rsqrt Ag Pg stg 2 ∧
    lToG (LGMRES.cycle prml stdIp Amgcl.rsqrt Ag Pg 0 stl) = GMRES.cycle prmg stdIp Amgcl.rsqrt Ag Pg 0 stg := by
  obtain ⟨h1, h2, _, _⟩ := lgmres_first_cycle_refines_gmres prml Amgcl.rsqrt Ag Pg
  have hov : stl.w.ov.size = 0 := by decide +kernel
  refine ⟨?_, ?_⟩
  · have := (h1 stl 2 (by rw [hov]; decide)).1
    rw [hstl_toG] at this; exact this
  · have := (h2 (by decide) 0 fg stl hov).2.1
    rw [hstl_toG] at this; exact this

/-- `lgmres_first_cycle_minimises` for `j = 2` (all hypotheses discharged) -/
example : (∃ d ∈ gmresKrylov .right 3 Ag LinearMap.id (vecOf 3 stl.w.r) 2,
      vecOf 3 (lCycleIterate prml Amgcl.rsqrt Ag Pg stl 2) = vecOf 3 stl.x + Xl .right LinearMap.id d) ∧
    ∀ d ∈ gmresKrylov .right 3 Ag LinearMap.id (vecOf 3 stl.w.r) 2,
      stdIp (GMRES.Rf .right Pg fg Ag (lCycleIterate prml Amgcl.rsqrt Ag Pg stl 2))
          (GMRES.Rf .right Pg fg Ag (lCycleIterate prml Amgcl.rsqrt Ag Pg stl 2))
        ≤ resOf .right (matOf Ag 3 3) LinearMap.id (vecOf 3 fg) (vecOf 3 stl.x + Xl .right LinearMap.id d)
          ⬝ᵥ resOf .right (matOf Ag 3 3) LinearMap.id (vecOf 3 fg) (vecOf 3 stl.x + Xl .right LinearMap.id d) := by
  have h := lgmres_first_cycle_minimises 3 Ag hAg rfl rfl Pg LinearMap.id hPg Amgcl.rsqrt fg prml stl hstl 2 (by decide)
    (by decide +kernel) (by rw [hstl_toG]; exact hrootsg) (by rw [hstl_toG]; exact hnbg)
  exact ⟨h.1, h.2.1⟩

/-- `lgmres_first_cycle_monotone` for `j = 1`: `‖f − A x₂‖² ≤ ‖f − A x₁‖²` (`256 ≤ 400`, evaluated below) -/
example : stdIp (GMRES.Rf .right Pg fg Ag (lCycleIterate prml Amgcl.rsqrt Ag Pg stl 2))
      (GMRES.Rf .right Pg fg Ag (lCycleIterate prml Amgcl.rsqrt Ag Pg stl 2))
    ≤ stdIp (GMRES.Rf .right Pg fg Ag (lCycleIterate prml Amgcl.rsqrt Ag Pg stl 1))
      (GMRES.Rf .right Pg fg Ag (lCycleIterate prml Amgcl.rsqrt Ag Pg stl 1)) :=
  lgmres_first_cycle_monotone 3 Ag hAg rfl rfl Pg LinearMap.id hPg Amgcl.rsqrt fg prml stl hstl 1 (by decide +kernel)
    (by rw [hstl_toG]; exact hrootsg) (by rw [hstl_toG]; exact hnbg)

/-- the numbers, evaluated independently by the kernel on the LGMRES model: `‖f − A x_j‖² = 625, 400, 256`, the call with
`maxiter = 2` returns `x₂ = (123/25, −12/5, 0)` after `2` iterations — what GMRES(3) returns -/
example : stdIp (residual fg Ag stl.x) (residual fg Ag stl.x) = 625 ∧
    stdIp (residual fg Ag (lCycleIterate prml Amgcl.rsqrt Ag Pg stl 1))
      (residual fg Ag (lCycleIterate prml Amgcl.rsqrt Ag Pg stl 1)) = 400 ∧
    stdIp (residual fg Ag (lCycleIterate prml Amgcl.rsqrt Ag Pg stl 2))
      (residual fg Ag (lCycleIterate prml Amgcl.rsqrt Ag Pg stl 2)) = 256 ∧
    (match LGMRES.solve prml stdIp Amgcl.rsqrt 0 Ag Pg (LGMRES.Work.fresh 3) fg xg with
      | .ok (it, res, x, _) => decide (it = 2 ∧ res = 16/25 ∧ x = #[123/25, -12/5, 0])
      | _ => false) = true := by decide +kernel

/-- `lgmres_first_cycle_breakdown_exact` on the breakdown system of `Proofs/KrylovGMRESRestartExample.lean`
(`A = [[3,0,1],[4,5,2],[0,0,3]]`, breakdown in pass `1`): the first cycle of LGMRES(2, 1) returns the exact solution -/
example : let prmlb : LGMRES.Params ℚ := { maxiter := 5, tol := 1/100, abstol := 0, nsSearch := false, M := 2, K' := 1,
                                            alwaysReset := true, pside := .right }
    let stlb := LGMRES.init prmlb stdIp Amgcl.rsqrt Amgcl.Krylov.ExB.Ab Pg (LGMRES.Work.fresh 3) fg xg
    residual fg Amgcl.Krylov.ExB.Ab (LGMRES.cycle prmlb stdIp Amgcl.rsqrt Amgcl.Krylov.ExB.Ab Pg (1/4) stlb).x = vclear 3 := by
  intro prmlb stlb
  have hG : lToG stlb = Amgcl.Krylov.ExB.stb :=
    linit_sim prmlb Amgcl.rsqrt Amgcl.Krylov.ExB.Ab Pg (LGMRES.Work.fresh 3) fg xg
  have hj : (LGMRES.inner prmlb stdIp Amgcl.rsqrt Amgcl.Krylov.ExB.Ab Pg (1/4) stlb).j = 2 := by decide +kernel
  exact (lgmres_first_cycle_breakdown_exact 3 Amgcl.Krylov.ExB.Ab Amgcl.Krylov.ExB.hAb rfl rfl Pg LinearMap.id hPg
    Amgcl.rsqrt fg prmlb stlb (by rw [hG]; exact Amgcl.Krylov.ExB.hstb) (by decide) (by decide +kernel) (1/4)
    (by decide +kernel) (by rw [hj, hG]; exact Amgcl.Krylov.ExB.hrootsb) Amgcl.Krylov.ExB.hinjb
    (by rw [hj, hG]; exact Amgcl.Krylov.ExB.hbb)).2

end nonvacuous

/-! ## the general cycle -/
section general
variable {K : Type} [Field K] [LinearOrder K] [IsStrictOrderedRing K]

/-- **breakdown of the augmented Arnoldi process ends the restart cycle.**  If pass `i` of a cycle — Krylov or augmentation
pass — computes `H̃(i+1,i) = ‖w_i‖ = 0`, the rotation it generates is the identity, `s_{i+1} = 0`, `s_i` is unchanged and
`inner_res = 0` (every `sqrt`); hence, for a threshold that is not negative, every pass of the model's inner loop except the
last one is free of breakdown. -/
theorem lgmres_breakdown_ends_cycle (prm : LGMRES.Params K) (sqrt : K → K) (A : CRS K) (P : Vec K → Vec K)
    (st : LGMRES.St K) :
    (∀ i, lArnoldiNorm prm sqrt A P st i = 0 →
      (lPass prm sqrt A P st (i + 1)).w.h.s.get (i + 1) = 0 ∧
      (lPass prm sqrt A P st (i + 1)).w.h.s.get i = (lPass prm sqrt A P st i).w.h.s.get i ∧
      (lPass prm sqrt A P st (i + 1)).innerRes = 0) ∧
    ∀ epsT : K, ¬ epsT < 0 → ∀ i, i + 1 < (LGMRES.inner prm stdIp sqrt A P epsT st).j →
      lArnoldiNorm prm sqrt A P st i ≠ 0 :=
  ⟨fun i hb => lbreakdown_innerRes prm sqrt A P st i hb,
   fun epsT heps i hi => linner_no_early_breakdown prm sqrt A P epsT heps st i hi⟩

variable (n : ℕ) (A : CRS K) (hA : A.WF) (hn : A.nrows = n) (hm : A.ncols = n)
  (P : Vec K → Vec K) (Pl : (Fin n → K) →ₗ[K] (Fin n → K)) (hP : PDenotes n P Pl) (sqrt : K → K)
  (f : Vec K) (prm : LGMRES.Params K)
include hA hn hm hP

section cycle
variable (st : LGMRES.St K) (hst : CycleStart prm.pside sqrt A P f (lToG st))
  (hod : ∀ s, (st.w.odata.get s).size = n)
include hst hod

/-- **the Arnoldi relation of the code's construction with augmentation vectors**: after `j` passes without breakdown (roots
exact on the numbers met) the fed vectors are `z_i = vs[i]` for `i < MM − |outer_v|` and the stored augmentation vector
`outer_v[i − (MM − |outer_v|)]` afterwards; `vs[0..j]` is orthonormal, `T z_i = Σ_{k ≤ i+1} H̃(k,i) V_k` for EVERY `i < j`
(`T = A Pl` right / `Pl A` left), and `r₀ = β V₀`. -/
theorem lgmres_cycle_arnoldi (j : ℕ) (hroots : LRootsExact prm sqrt A P st j)
    (hnb : ∀ i, i < j → lArnoldiNorm prm sqrt A P st i ≠ 0) :
    (∀ i, i < j → lZ (lPass prm sqrt A P st j) i
      = if prm.MM - st.w.ov.size ≤ i then st.w.odata.get (st.w.ov.get prm.K' (i - (prm.MM - st.w.ov.size)))
        else (lPass prm sqrt A P st j).w.vs.get i) ∧
    (∀ a b, a ≤ j → b ≤ j → vecOf n ((lPass prm sqrt A P st j).w.vs.get a)
      ⬝ᵥ vecOf n ((lPass prm sqrt A P st j).w.vs.get b) = if a = b then 1 else 0) ∧
    (∀ i, i < j → Tl prm.pside (matOf A n n) Pl (vecOf n (lZ (lPass prm sqrt A P st j) i))
      = ∑ k ∈ Finset.range (i + 2), lHTilde prm sqrt A P st j k i • vecOf n ((lPass prm sqrt A P st j).w.vs.get k)) ∧
    vecOf n st.w.r = st.normR • vecOf n ((lPass prm sqrt A P st j).w.vs.get 0) := by
  have hb := lcycle_basis n A hA hn hm P Pl hP sqrt f prm st hst hod j hroots hnb
  exact ⟨fun i hi => lZ_eq prm sqrt A P st j i hi, hb.on, hb.arn, hb.r0⟩

/-- **least-squares identity of a general LGMRES cycle** after `m + 1` passes, no breakdown in the passes `i < m` (a
breakdown in pass `m` is allowed): for EVERY coefficient vector `y` the squared norm of the measured residual of
`x₀ + Xl (Σ_{i ≤ m} y_i z_i)` is `Σ_{a ≤ m} (s_a − Σ_{a ≤ i ≤ m} H(a,i) y_i)² + s_{m+1}²` with the STORED rotated `H` and `s`. -/
theorem lgmres_cycle_least_squares (m : ℕ) (hroots : LRootsExact prm sqrt A P st (m + 1))
    (hnb : ∀ i, i < m → lArnoldiNorm prm sqrt A P st i ≠ 0) (y : ℕ → K) :
    resOf prm.pside (matOf A n n) Pl (vecOf n f) (vecOf n st.x
        + Xl prm.pside Pl (∑ i ∈ Finset.range (m + 1), y i • vecOf n (lZ (lPass prm sqrt A P st (m + 1)) i)))
      ⬝ᵥ resOf prm.pside (matOf A n n) Pl (vecOf n f) (vecOf n st.x
        + Xl prm.pside Pl (∑ i ∈ Finset.range (m + 1), y i • vecOf n (lZ (lPass prm sqrt A P st (m + 1)) i)))
    = ∑ a ∈ Finset.range (m + 1), ((lPass prm sqrt A P st (m + 1)).w.h.s.get a
          - ∑ i ∈ Finset.Ico a (m + 1), (lPass prm sqrt A P st (m + 1)).w.h.H.get a i * y i)
        * ((lPass prm sqrt A P st (m + 1)).w.h.s.get a
          - ∑ i ∈ Finset.Ico a (m + 1), (lPass prm sqrt A P st (m + 1)).w.h.H.get a i * y i)
      + (lPass prm sqrt A P st (m + 1)).w.h.s.get (m + 1) * (lPass prm sqrt A P st (m + 1)).w.h.s.get (m + 1) :=
  lcycle_ls n A hA hn hm P Pl hP sqrt f prm st hst hod m hroots hnb y

/-- **the LGMRES iterate minimises the norm of the measured residual over `x₀ + Xl (span{z_0..z_{j-1}})`**, the span of the
Krylov basis vectors AND the augmentation vectors fed in the first `j ≥ 1` passes (no breakdown, exact roots): it lies in that
affine space, no element of it has a smaller residual norm (squared form), and `‖Rf x_j‖² = s_j²`, `inner_res = |s_j|`. -/
theorem lgmres_cycle_minimises (j : ℕ) (hj : 1 ≤ j) (hroots : LRootsExact prm sqrt A P st j)
    (hnb : ∀ i, i < j → lArnoldiNorm prm sqrt A P st i ≠ 0) :
    (∃ d ∈ lAugSpan prm sqrt A P st n j,
      vecOf n (lCycleIterate prm sqrt A P st j) = vecOf n st.x + Xl prm.pside Pl d) ∧
    (∀ d ∈ lAugSpan prm sqrt A P st n j,
      stdIp (GMRES.Rf prm.pside P f A (lCycleIterate prm sqrt A P st j))
          (GMRES.Rf prm.pside P f A (lCycleIterate prm sqrt A P st j))
        ≤ resOf prm.pside (matOf A n n) Pl (vecOf n f) (vecOf n st.x + Xl prm.pside Pl d)
          ⬝ᵥ resOf prm.pside (matOf A n n) Pl (vecOf n f) (vecOf n st.x + Xl prm.pside Pl d)) ∧
    stdIp (GMRES.Rf prm.pside P f A (lCycleIterate prm sqrt A P st j))
        (GMRES.Rf prm.pside P f A (lCycleIterate prm sqrt A P st j))
      = (lPass prm sqrt A P st j).w.h.s.get j * (lPass prm sqrt A P st j).w.h.s.get j ∧
    (lPass prm sqrt A P st j).innerRes = Solver.absK ((lPass prm sqrt A P st j).w.h.s.get j) := by
  refine ⟨lCycleIterate_mem n A hA hn hm P Pl hP sqrt f prm st hst hod j hj hroots hnb,
    fun d hd => lcycle_minimal n A hA hn hm P Pl hP sqrt f prm st hst hod j hj hroots hnb d hd,
    lcycle_residual n A hA hn hm P Pl hP sqrt f prm st hst hod j hj hroots hnb, ?_⟩
  obtain ⟨m, rfl⟩ : ∃ m, j = m + 1 := ⟨j - 1, by omega⟩
  exact lPass_innerRes prm sqrt A P st m

/-- **within every cycle the norm of the measured residual does not increase with the number of passes**, Krylov or
augmentation: `‖Rf x_{j+1}‖² ≤ ‖Rf x_j‖²` (`j ≥ 1`), `‖Rf x_1‖² ≤ ‖Rf x₀‖²`. -/
theorem lgmres_cycle_antitone (j : ℕ) (hroots : LRootsExact prm sqrt A P st (j + 1))
    (hnb : ∀ i, i < j + 1 → lArnoldiNorm prm sqrt A P st i ≠ 0) :
    stdIp (GMRES.Rf prm.pside P f A (lCycleIterate prm sqrt A P st (j + 1)))
        (GMRES.Rf prm.pside P f A (lCycleIterate prm sqrt A P st (j + 1)))
      ≤ (if j = 0 then stdIp (GMRES.Rf prm.pside P f A st.x) (GMRES.Rf prm.pside P f A st.x)
         else stdIp (GMRES.Rf prm.pside P f A (lCycleIterate prm sqrt A P st j))
          (GMRES.Rf prm.pside P f A (lCycleIterate prm sqrt A P st j))) := by
  by_cases hj : j = 0
  · subst hj
    rw [if_pos rfl]
    exact lcycle_antitone_zero n A hA hn hm P Pl hP sqrt f prm st hst hod hroots (hnb 0 Nat.zero_lt_one)
  · rw [if_neg hj]
    exact lcycle_antitone n A hA hn hm P Pl hP sqrt f prm st hst hod j (by omega) hroots hnb

/-- **augmentation can only help**: in every cycle the iterate after `j` passes (no breakdown, exact roots) has a measured
residual no larger than the iterate of GMRES after `m` passes from the same state, for every `1 ≤ m ≤ j`, `m ≤ MM − |outer_v|` —
in particular no larger than that of a full cycle of GMRES(`MM − |outer_v|`) `⊇` GMRES(`prm.M`). -/
theorem lgmres_cycle_le_gmres (m j : ℕ) (hm1 : 1 ≤ m) (hmj : m ≤ j) (hmk : m ≤ prm.MM - st.w.ov.size)
    (hroots : LRootsExact prm sqrt A P st j) (hnb : ∀ i, i < j → lArnoldiNorm prm sqrt A P st i ≠ 0) :
    stdIp (GMRES.Rf prm.pside P f A (lCycleIterate prm sqrt A P st j))
        (GMRES.Rf prm.pside P f A (lCycleIterate prm sqrt A P st j))
      ≤ stdIp (GMRES.Rf prm.pside P f A (cycleIterate prm.pside sqrt A P (lToG st) m))
        (GMRES.Rf prm.pside P f A (cycleIterate prm.pside sqrt A P (lToG st) m)) := by
  revert hroots hnb
  induction j, hmj using Nat.le_induction with
  | base => intro _ _; rw [lCycleIterate_eq prm sqrt A P st m hm1 hmk]
  | succ j hmj ih =>
    intro hroots hnb
    exact le_trans
      (lcycle_antitone n A hA hn hm P Pl hP sqrt f prm st hst hod j (by omega) hroots hnb)
      (ih (hroots.mono (Nat.le_succ j)) (fun i hi => hnb i (by omega)))

/-- **one restart cycle of the LGMRES model does not increase the residual** — whatever augmentation vectors it holds,
whatever the pass count of its inner loop, with or without breakdown in its last pass, regular triangular factor or not
(threshold not negative, exact roots on the numbers the cycle meets). -/
theorem lgmres_cycle_monotone (epsT : K) (heps : ¬ epsT < 0)
    (hroots : LRootsExact prm sqrt A P st (LGMRES.inner prm stdIp sqrt A P epsT st).j) :
    stdIp (GMRES.Rf prm.pside P f A (LGMRES.cycle prm stdIp sqrt A P epsT st).x)
        (GMRES.Rf prm.pside P f A (LGMRES.cycle prm stdIp sqrt A P epsT st).x)
      ≤ stdIp (GMRES.Rf prm.pside P f A st.x) (GMRES.Rf prm.pside P f A st.x) :=
  lcycle_monotone n A hA hn hm P Pl hP sqrt f prm st hst hod epsT heps hroots

end cycle

/-- **the restarted LGMRES sequence as a whole is monotone.**  A call that does not return early returns the state
`louterPass … init k` after `k ≤ maxiter` restart cycles, `k` the first index whose stopping test succeeds; for a threshold
that is NOT NEGATIVE and exact roots in the cycles made, the squared norms of the measured residuals at the restarts are
non-increasing — for an object that carries ANY augmentation vectors of length `n` into the call (`always_reset` on or off;
a fresh object has them).  (A cycle entered with `norm_r = 0`, possible for `eps = 0` only, does not move the residual:
`lcycle_zero`; no root hypothesis is needed for it.) -/
theorem lgmres_restart_monotone (eps : K) (ws : LGMRES.Work K) (hws : ∀ s, (ws.odata.get s).size = n) (x0 : Vec K) (nf : K)
    (hp : prologueA prm.nsSearch stdIp sqrt eps f = .go nf) (heps : ¬ LGMRES.epsTol prm nf < 0)
    (hroots : ∀ i, i < prm.maxiter →
      LGMRES.stop prm.maxiter (LGMRES.epsTol prm nf) (louterPass prm sqrt A P f (LGMRES.epsTol prm nf)
        (LGMRES.init prm stdIp sqrt A P (LGMRES.reset prm ws) f x0) i) = false →
      (louterPass prm sqrt A P f (LGMRES.epsTol prm nf)
        (LGMRES.init prm stdIp sqrt A P (LGMRES.reset prm ws) f x0) i).normR ≠ 0 →
      LRootsExact prm sqrt A P (louterPass prm sqrt A P f (LGMRES.epsTol prm nf)
          (LGMRES.init prm stdIp sqrt A P (LGMRES.reset prm ws) f x0) i)
        (LGMRES.inner prm stdIp sqrt A P (LGMRES.epsTol prm nf) (louterPass prm sqrt A P f (LGMRES.epsTol prm nf)
          (LGMRES.init prm stdIp sqrt A P (LGMRES.reset prm ws) f x0) i)).j) :
    ∃ k, k ≤ prm.maxiter ∧
      LGMRES.run prm stdIp sqrt eps A P ws f x0
        = (.ok ((louterPass prm sqrt A P f (LGMRES.epsTol prm nf)
                  (LGMRES.init prm stdIp sqrt A P (LGMRES.reset prm ws) f x0) k).iter,
                (louterPass prm sqrt A P f (LGMRES.epsTol prm nf)
                  (LGMRES.init prm stdIp sqrt A P (LGMRES.reset prm ws) f x0) k).normR / nf),
           (louterPass prm sqrt A P f (LGMRES.epsTol prm nf)
              (LGMRES.init prm stdIp sqrt A P (LGMRES.reset prm ws) f x0) k).x,
           (louterPass prm sqrt A P f (LGMRES.epsTol prm nf)
              (LGMRES.init prm stdIp sqrt A P (LGMRES.reset prm ws) f x0) k).w) ∧
      (∀ i, i < k → LGMRES.stop prm.maxiter (LGMRES.epsTol prm nf) (louterPass prm sqrt A P f (LGMRES.epsTol prm nf)
        (LGMRES.init prm stdIp sqrt A P (LGMRES.reset prm ws) f x0) i) = false) ∧
      ∀ i j, i ≤ j → j ≤ k →
        stdIp (GMRES.Rf prm.pside P f A (louterPass prm sqrt A P f (LGMRES.epsTol prm nf)
              (LGMRES.init prm stdIp sqrt A P (LGMRES.reset prm ws) f x0) j).x)
            (GMRES.Rf prm.pside P f A (louterPass prm sqrt A P f (LGMRES.epsTol prm nf)
              (LGMRES.init prm stdIp sqrt A P (LGMRES.reset prm ws) f x0) j).x)
          ≤ stdIp (GMRES.Rf prm.pside P f A (louterPass prm sqrt A P f (LGMRES.epsTol prm nf)
              (LGMRES.init prm stdIp sqrt A P (LGMRES.reset prm ws) f x0) i).x)
            (GMRES.Rf prm.pside P f A (louterPass prm sqrt A P f (LGMRES.epsTol prm nf)
              (LGMRES.init prm stdIp sqrt A P (LGMRES.reset prm ws) f x0) i).x) := by
  obtain ⟨k, hk, hfin, hstop, _⟩ := lfinal_eq_outerPass prm sqrt A P (LGMRES.reset prm ws) f x0 nf
  refine ⟨k, hk, ?_, hstop, fun i j hij hj => ?_⟩
  · rw [LGMRES.run_go _ _ _ _ _ _ _ _ _ nf hp, hfin]
  · exact louterPass_antitone n A hA hn hm P Pl hP prm sqrt f _ heps _
      (linit_stInv n A hA hn hm P Pl hP prm sqrt f ws x0 hws) k
      (fun i hi hne => hroots i (by omega) (hstop i hi) hne) i j hij hj

/-- … in particular the `x` a call returns has `‖Rf x‖² ≤ ‖Rf x₀‖²`; stated with the global root hypothesis `hsqrt`. -/
theorem lgmres_restart_monotone_call (eps : K) (ws : LGMRES.Work K) (hws : ∀ s, (ws.odata.get s).size = n) (x0 : Vec K)
    (nf : K) (hp : prologueA prm.nsSearch stdIp sqrt eps f = .go nf) (heps : ¬ LGMRES.epsTol prm nf < 0)
    (hsqrt : ∀ x, 0 ≤ x → sqrt x * sqrt x = x)
    (it : ℕ) (res : K) (x : Vec K) (w : LGMRES.Work K)
    (h : LGMRES.solve prm stdIp sqrt eps A P ws f x0 = .ok (it, res, x, w)) :
    stdIp (GMRES.Rf prm.pside P f A x) (GMRES.Rf prm.pside P f A x)
      ≤ stdIp (GMRES.Rf prm.pside P f A x0) (GMRES.Rf prm.pside P f A x0) := by
  obtain ⟨k, _, hrun, _, hmono⟩ := lgmres_restart_monotone n A hA hn hm P Pl hP sqrt f prm eps ws hws x0 nf hp heps
    (fun i _ _ _ => lRootsExact_of_hsqrt prm sqrt hsqrt A P _ _)
  rw [LGMRES.solve, hrun] at h
  simp only [Run.toExcept, Except.ok.injEq, Prod.mk.injEq] at h
  have h0 := hmono 0 k (Nat.zero_le k) (Nat.le_refl k)
  rw [h.2.2.1] at h0
  have hx0 : (louterPass prm sqrt A P f (LGMRES.epsTol prm nf)
      (LGMRES.init prm stdIp sqrt A P (LGMRES.reset prm ws) f x0) 0).x = x0 :=
    LGMRES.init_x prm stdIp sqrt A P _ f x0
  rw [hx0] at h0
  exact h0

end general

/-! ### non-vacuity of the general-cycle theorems over `ℚ` with the executable `rsqrt` (data and discharged hypotheses in
`Proofs/KrylovLGMRESExample.lean`) -/
section nonvacuousGeneral
open Amgcl.Krylov.ExG Amgcl.Krylov.ExR Amgcl.Krylov.ExL Amgcl.Krylov.ExLB Amgcl.Krylov.ExLR

/-- `lgmres_cycle_arnoldi` / `lgmres_cycle_minimises` for `j = 2` on `ExL`: one Krylov pass and one AUGMENTATION pass (the
stored vector `(1,1,0)`), no breakdown, all roots exact -/
example : (lZ (lPass prmL Amgcl.rsqrt Ag Pg stL 2) 1 = #[1, 1, 0] ∧
      lZ (lPass prmL Amgcl.rsqrt Ag Pg stL 2) 0 = (lPass prmL Amgcl.rsqrt Ag Pg stL 2).w.vs.get 0) ∧
    (∃ d ∈ lAugSpan prmL Amgcl.rsqrt Ag Pg stL 3 2,
      vecOf 3 (lCycleIterate prmL Amgcl.rsqrt Ag Pg stL 2) = vecOf 3 stL.x + Xl prmL.pside LinearMap.id d) ∧
    ∀ d ∈ lAugSpan prmL Amgcl.rsqrt Ag Pg stL 3 2,
      stdIp (GMRES.Rf prmL.pside Pg fg Ag (lCycleIterate prmL Amgcl.rsqrt Ag Pg stL 2))
          (GMRES.Rf prmL.pside Pg fg Ag (lCycleIterate prmL Amgcl.rsqrt Ag Pg stL 2))
        ≤ resOf prmL.pside (matOf Ag 3 3) LinearMap.id (vecOf 3 fg) (vecOf 3 stL.x + Xl prmL.pside LinearMap.id d)
          ⬝ᵥ resOf prmL.pside (matOf Ag 3 3) LinearMap.id (vecOf 3 fg) (vecOf 3 stL.x + Xl prmL.pside LinearMap.id d) := by
  have h := lgmres_cycle_minimises 3 Ag hAg rfl rfl Pg LinearMap.id hPg Amgcl.rsqrt fg prmL stL hstL hodL 2 (by decide)
    hrootsL hnbL
  exact ⟨by decide +kernel, h.1, h.2.1⟩

/-- `lgmres_cycle_antitone` for `j = 1` on `ExL`: the augmentation pass lowers `‖f − A x‖²` from `400` to `256` -/
example : stdIp (GMRES.Rf prmL.pside Pg fg Ag (lCycleIterate prmL Amgcl.rsqrt Ag Pg stL 2))
      (GMRES.Rf prmL.pside Pg fg Ag (lCycleIterate prmL Amgcl.rsqrt Ag Pg stL 2))
    ≤ stdIp (GMRES.Rf prmL.pside Pg fg Ag (lCycleIterate prmL Amgcl.rsqrt Ag Pg stL 1))
      (GMRES.Rf prmL.pside Pg fg Ag (lCycleIterate prmL Amgcl.rsqrt Ag Pg stL 1)) :=
  lgmres_cycle_antitone 3 Ag hAg rfl rfl Pg LinearMap.id hPg Amgcl.rsqrt fg prmL stL hstL hodL 1 hrootsL hnbL

/-- `lgmres_cycle_le_gmres` on `ExL` (`m = 1`, `j = 2`): after the augmentation pass `‖f − A x‖² = 256 ≤ 400`, the value GMRES(1)
reaches from the same state -/
example : stdIp (GMRES.Rf prmL.pside Pg fg Ag (lCycleIterate prmL Amgcl.rsqrt Ag Pg stL 2))
      (GMRES.Rf prmL.pside Pg fg Ag (lCycleIterate prmL Amgcl.rsqrt Ag Pg stL 2))
    ≤ stdIp (GMRES.Rf prmL.pside Pg fg Ag (cycleIterate prmL.pside Amgcl.rsqrt Ag Pg (lToG stL) 1))
      (GMRES.Rf prmL.pside Pg fg Ag (cycleIterate prmL.pside Amgcl.rsqrt Ag Pg (lToG stL) 1)) :=
  lgmres_cycle_le_gmres 3 Ag hAg rfl rfl Pg LinearMap.id hPg Amgcl.rsqrt fg prmL stL hstL hodL 1 2 (by decide) (by decide)
    (by decide +kernel) hrootsL hnbL

/-- the numbers of `ExL`, evaluated independently by the kernel: `‖f − A x_j‖² = 625, 400, 256`, `s₂ = 16`, and the iterate
`x₂ = x₀ + (183/25) v₀ − (12/5)·(1,1,0)` really uses the augmentation vector -/
example : stdIp (residual fg Ag stL.x) (residual fg Ag stL.x) = 625 ∧
    stdIp (residual fg Ag (lCycleIterate prmL Amgcl.rsqrt Ag Pg stL 1))
      (residual fg Ag (lCycleIterate prmL Amgcl.rsqrt Ag Pg stL 1)) = 400 ∧
    stdIp (residual fg Ag (lCycleIterate prmL Amgcl.rsqrt Ag Pg stL 2))
      (residual fg Ag (lCycleIterate prmL Amgcl.rsqrt Ag Pg stL 2)) = 256 ∧
    (lPass prmL Amgcl.rsqrt Ag Pg stL 2).w.h.s.get 2 = 16 ∧
    lCycleIterate prmL Amgcl.rsqrt Ag Pg stL 2 = #[123/25, -12/5, 0] := by decide +kernel

/-- `lgmres_breakdown_ends_cycle` and `lgmres_cycle_least_squares` on `ExLB`: breakdown in the AUGMENTATION pass (`m = 1`) -/
example (y : ℕ → ℚ) :
    ((lPass prmLB Amgcl.rsqrt Ar Pg stLB 2).w.h.s.get 2 = 0 ∧ (lPass prmLB Amgcl.rsqrt Ar Pg stLB 2).innerRes = 0) ∧
    resOf prmLB.pside (matOf Ar 2 2) LinearMap.id (vecOf 2 fr) (vecOf 2 stLB.x
        + Xl prmLB.pside LinearMap.id (∑ i ∈ Finset.range 2, y i • vecOf 2 (lZ (lPass prmLB Amgcl.rsqrt Ar Pg stLB 2) i)))
      ⬝ᵥ resOf prmLB.pside (matOf Ar 2 2) LinearMap.id (vecOf 2 fr) (vecOf 2 stLB.x
        + Xl prmLB.pside LinearMap.id (∑ i ∈ Finset.range 2, y i • vecOf 2 (lZ (lPass prmLB Amgcl.rsqrt Ar Pg stLB 2) i)))
    = ∑ a ∈ Finset.range 2, ((lPass prmLB Amgcl.rsqrt Ar Pg stLB 2).w.h.s.get a
          - ∑ i ∈ Finset.Ico a 2, (lPass prmLB Amgcl.rsqrt Ar Pg stLB 2).w.h.H.get a i * y i)
        * ((lPass prmLB Amgcl.rsqrt Ar Pg stLB 2).w.h.s.get a
          - ∑ i ∈ Finset.Ico a 2, (lPass prmLB Amgcl.rsqrt Ar Pg stLB 2).w.h.H.get a i * y i)
      + (lPass prmLB Amgcl.rsqrt Ar Pg stLB 2).w.h.s.get 2 * (lPass prmLB Amgcl.rsqrt Ar Pg stLB 2).w.h.s.get 2 :=
  ⟨let h := (lgmres_breakdown_ends_cycle prmLB Amgcl.rsqrt Ar Pg stLB).1 1 hbLB; ⟨h.1, h.2.2⟩,
   lgmres_cycle_least_squares 2 Ar hAr rfl rfl Pg LinearMap.id hPr Amgcl.rsqrt fr prmLB stLB hstLB hodLB 1 hrootsLB hnbLB y⟩

/-- `lgmres_cycle_monotone` on `ExLB` (own pass count `2`, breakdown in the last pass, singular triangular factor):
`‖r‖²` goes from `25` to `9` -/
example : stdIp (GMRES.Rf prmLB.pside Pg fr Ar (LGMRES.cycle prmLB stdIp Amgcl.rsqrt Ar Pg 0 stLB).x)
      (GMRES.Rf prmLB.pside Pg fr Ar (LGMRES.cycle prmLB stdIp Amgcl.rsqrt Ar Pg 0 stLB).x)
    ≤ stdIp (GMRES.Rf prmLB.pside Pg fr Ar stLB.x) (GMRES.Rf prmLB.pside Pg fr Ar stLB.x) := by
  have hj : (LGMRES.inner prmLB stdIp Amgcl.rsqrt Ar Pg 0 stLB).j = 2 := by decide +kernel
  exact lgmres_cycle_monotone 2 Ar hAr rfl rfl Pg LinearMap.id hPr Amgcl.rsqrt fr prmLB stLB hstLB hodLB 0
    (by decide +kernel) (by rw [hj]; exact hrootsLB)

example : stdIp (residual fr Ar (LGMRES.cycle prmLB stdIp Amgcl.rsqrt Ar Pg 0 stLB).x)
      (residual fr Ar (LGMRES.cycle prmLB stdIp Amgcl.rsqrt Ar Pg 0 stLB).x) = 9 ∧
    (lPass prmLB Amgcl.rsqrt Ar Pg stLB 2).w.h.H.get 1 1 = 0 := by decide +kernel

/-- `lgmres_restart_monotone` on `ExLR` (two restart cycles of a call on a fresh object, the second one holding the stored
correction of the first), all hypotheses discharged -/
example : ∃ k, k ≤ 4 ∧
    (∀ i, i < k → LGMRES.stop 4 (LGMRES.epsTol prmLR 5) (louterPass prmLR Amgcl.rsqrt Ar Pg fr (LGMRES.epsTol prmLR 5)
      (LGMRES.init prmLR stdIp Amgcl.rsqrt Ar Pg (LGMRES.reset prmLR (LGMRES.Work.fresh 2)) fr xr) i) = false) ∧
    ∀ i j, i ≤ j → j ≤ k →
      stdIp (GMRES.Rf .right Pg fr Ar (louterPass prmLR Amgcl.rsqrt Ar Pg fr (LGMRES.epsTol prmLR 5)
            (LGMRES.init prmLR stdIp Amgcl.rsqrt Ar Pg (LGMRES.reset prmLR (LGMRES.Work.fresh 2)) fr xr) j).x)
          (GMRES.Rf .right Pg fr Ar (louterPass prmLR Amgcl.rsqrt Ar Pg fr (LGMRES.epsTol prmLR 5)
            (LGMRES.init prmLR stdIp Amgcl.rsqrt Ar Pg (LGMRES.reset prmLR (LGMRES.Work.fresh 2)) fr xr) j).x)
        ≤ stdIp (GMRES.Rf .right Pg fr Ar (louterPass prmLR Amgcl.rsqrt Ar Pg fr (LGMRES.epsTol prmLR 5)
            (LGMRES.init prmLR stdIp Amgcl.rsqrt Ar Pg (LGMRES.reset prmLR (LGMRES.Work.fresh 2)) fr xr) i).x)
          (GMRES.Rf .right Pg fr Ar (louterPass prmLR Amgcl.rsqrt Ar Pg fr (LGMRES.epsTol prmLR 5)
            (LGMRES.init prmLR stdIp Amgcl.rsqrt Ar Pg (LGMRES.reset prmLR (LGMRES.Work.fresh 2)) fr xr) i).x) := by
  obtain ⟨k, hk, hrun, hstop, hmono⟩ := lgmres_restart_monotone 2 Ar hAr rfl rfl Pg LinearMap.id hPr Amgcl.rsqrt fr prmLR
    0 (LGMRES.Work.fresh 2) hwsLR xr 5 hpLR (by rw [hepsLR]; decide +kernel)
    (fun i hi hs _ => by
      rw [hepsLR] at hs ⊢
      have hi2 : i < 2 := by
        by_contra hge
        have h2 : LGMRES.stop 4 3 (louterPass prmLR Amgcl.rsqrt Ar Pg fr 3 stLR 2) = true := by decide +kernel
        have h3 : LGMRES.stop 4 3 (louterPass prmLR Amgcl.rsqrt Ar Pg fr 3 stLR 3) = true := by decide +kernel
        have : i = 2 ∨ i = 3 := by
          have : i < 4 := hi
          omega
        rcases this with rfl | rfl
        · exact absurd (h2.symm.trans hs) (by decide)
        · exact absurd (h3.symm.trans hs) (by decide)
      exact hrootsLR i hi2)
  exact ⟨k, hk, hstop, hmono⟩

/-- the numbers of `ExLR`, evaluated independently by the kernel: the squared residual norms at the three restart states are
`25 > 9 > 81/25`, the second cycle starts with one stored augmentation vector, and the call makes `2` iterations -/
example : (List.range 3).map (fun k =>
      stdIp (residual fr Ar (louterPass prmLR Amgcl.rsqrt Ar Pg fr 3 stLR k).x)
        (residual fr Ar (louterPass prmLR Amgcl.rsqrt Ar Pg fr 3 stLR k).x)) = [25, 9, 81/25] ∧
    (louterPass prmLR Amgcl.rsqrt Ar Pg fr 3 stLR 1).w.ov.size = 1 ∧
    (match LGMRES.solve prmLR stdIp Amgcl.rsqrt 0 Ar Pg (LGMRES.Work.fresh 2) fr xr with
      | .ok (it, _, x, _) => decide (it = 2 ∧ x = (louterPass prmLR Amgcl.rsqrt Ar Pg fr 3 stLR 2).x)
      | _ => false) = true := by decide +kernel

end nonvacuousGeneral

end Amgcl.C05f
