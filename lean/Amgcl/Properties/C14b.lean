import Amgcl.Proofs.PTree
/-!
# C14 — every `switch` of a run-time wrapper dispatches an enumerator to the same class

`tools/params_extract.py` extracts, for every `switch` over a run-time enum in the wrappers
(`amgcl/{solver,relaxation,coarsening,preconditioner}/runtime.hpp`, `amgcl/mpi/**`), which C++ class the code of each
`case` names (`EnumTable.dispatch`).  A wrapper whose constructor builds `gauss_seidel` under `case gauss_seidel:` but
whose `apply_post` forwards that case to another class would reinterpret the handle (`static_cast` of a `void*`).
`Amgcl.Generated.enum_switches_same_class` proves `EnumTable.SameClass` for every regenerated table by `decide`; the
theorem below says what that predicate means.
-/
namespace Amgcl.C14b
open Amgcl.Params Amgcl.Params.EnumTable

theorem allSame_mem : ∀ (l : List String), allSame l = true → ∀ a ∈ l, ∀ b ∈ l, a = b := by
  intro l h a ha b hb
  cases l with
  | nil => cases ha
  | cons c cs =>
    simp only [allSame, List.all_eq_true, beq_iff_eq] at h
    have ea : a = c := by
      rcases List.mem_cons.1 ha with rfl | h'
      · rfl
      · exact h a h'
    have eb : b = c := by
      rcases List.mem_cons.1 hb with rfl | h'
      · rfl
      · exact h b h'
    rw [ea, eb]

/-- **Same class in every switch.**  In a table with `SameClass`: whenever two switches of the wrapper (any two of
constructor, destructor, `apply_pre`, `apply_post`, `apply`, `operator()`, `bytes`, `operator<<` …) both name a class
in their case for the enumerator `e`, it is the same class. -/
theorem enum_dispatch_same_class (E : EnumTable) (h : E.SameClass) (e : String) (he : e ∈ E.values)
    (d₁ d₂ : Dispatch) (h₁ : d₁ ∈ E.dispatch) (h₂ : d₂ ∈ E.dispatch) (c₁ c₂ : String)
    (hc₁ : assoc e d₁.classes = some c₁) (hc₂ : assoc e d₂.classes = some c₂) (n₁ : c₁ ≠ "") (n₂ : c₂ ≠ "") :
    c₁ = c₂ := by
  unfold SameClass sameClassB at h
  rw [List.all_eq_true] at h
  have hs := h e he
  have m₁ : c₁ ∈ E.classesOf e := by
    unfold classesOf
    rw [List.mem_filterMap]
    exact ⟨d₁, h₁, by rw [hc₁]; simp [Option.filter, n₁]⟩
  have m₂ : c₂ ∈ E.classesOf e := by
    unfold classesOf
    rw [List.mem_filterMap]
    exact ⟨d₂, h₂, by rw [hc₂]; simp [Option.filter, n₂]⟩
  exact allSame_mem _ hs c₁ m₁ c₂ m₂

/-! non-vacuity: a wrapper with three switches; crossing two cases in the third breaks the predicate -/

private def exEnum : EnumTable :=
  { name := "example", file := "example.hpp", values := ["gs", "ilu"],
    prints := [("gs", "gs"), ("ilu", "ilu")], parses := [("gs", "gs"), ("ilu", "ilu")], parseThrows := true,
    switches := [⟨"example.hpp:3", ["gs", "ilu"], true⟩, ⟨"example.hpp:9", ["gs", "ilu"], true⟩, ⟨"example.hpp:15", ["gs", "ilu"], false⟩],
    dispatch := [⟨"example.hpp:3", [("gs", "gauss_seidel"), ("ilu", "ilu0")]⟩,
                 ⟨"example.hpp:9", [("gs", "gauss_seidel"), ("ilu", "ilu0")]⟩,
                 ⟨"example.hpp:15", [("gs", ""), ("ilu", "ilu0")]⟩] }

example : exEnum.SameClass := by decide
example : ¬ ({ exEnum with dispatch := [⟨"example.hpp:3", [("gs", "gauss_seidel"), ("ilu", "ilu0")]⟩,
    ⟨"example.hpp:9", [("gs", "ilu0"), ("ilu", "ilu0")]⟩] } : EnumTable).SameClass := by decide
example : "gauss_seidel" = "gauss_seidel" :=
  enum_dispatch_same_class exEnum (by decide) "gs" (by decide) _ _ (List.mem_cons_self) (List.mem_cons_of_mem _ List.mem_cons_self)
    "gauss_seidel" "gauss_seidel" (by decide) (by decide) (by decide) (by decide)

end Amgcl.C14b
