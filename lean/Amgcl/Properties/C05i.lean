import Amgcl.Proofs.SolverLGMRESAug
import Amgcl.Model.Rsqrt
/-!
# C05i — LGMRES: the augmentation slots hold the normalised corrections of the last cycles
(`lgmres_aug_are_corrections`, open item of C05; model `Model/SolverLGMRES.lean`, code solver/lgmres.hpp:343-372)

**What the code stores.**  At the end of a restart cycle `dx = Σ s_i *ws[i]` (`LGMRES.cycDx`; the new iterate is
`x + dx` for left and `x + P dx` for right preconditioning — `cycle_x`: the stored vector is the correction BEFORE the
right preconditioner is applied).  If `prm.K > 0` and `norm(dx) ≠ 0` (`norm = |sqrt ⟨dx,dx⟩|`, the model's `nrmA`) the
vector `inverse(norm(dx)) · dx` (`LGMRES.normed`) is written to `outer_v_data[n_outer % K]`, `n_outer` is incremented and
the pointer is pushed on the ring buffer `outer_v`; otherwise NOTHING happens (no write, no push, `n_outer` unchanged):
`LGMRES.pushed`.  The ghost list (`log`, newest first) of the pairs `(slot, dx/‖dx‖)` written so far is threaded
through the model's outer loop by `LGMRES.outerG`, whose first component IS `LGMRES.outer` (`outerG_fst`).

**The order the code uses them.**  In a cycle the augmentation vectors are fed at the inner indices
`j = M - size, …, M - 1` (`M = prm.M + prm.K`), `z_j = outer_v[j - (M - size)]`: the OLDEST first, the newest at the last
index `M - 1`.  `lgmres_aug_fed`: the vector fed at index `M - 1 - i` is `outer_v_data[outer_v[size-1-i]]`.

**Statements** (for every `sqrt`, inner product, matrix, function `P`, threshold, right-hand side, start state):

* `lgmres_aug_are_corrections`   after every pass `c` of the outer loop of a call that started with an EMPTY buffer
  (`always_reset = true`, or a fresh object): `outer_v.size() = min(n, K)` for the number `n = n_outer` of corrections
  stored so far, and for `i < min(n, K)` the pointer `outer_v[size-1-i]` is slot `(n-1-i) % K` and that slot holds the
  `i`-th newest normalised correction.
* `lgmres_aug_carried_over`      `always_reset = false`, a call on an object described by a log `log0` (the documented
  exception of C15): after every pass, with `n = n_outer` of THIS call,
  (a) `log = (n entries of this call) ++ log0`, `size = min(|log|, K)`;
  (b) for `i < min(n, K)`: as above (`outer_v[size-1-i]` = slot `(n-1-i) % K` = `i`-th newest correction);
  (c) for every `i < size` (in particular the inherited pointers `n ≤ i`): `outer_v[size-1-i]` is the slot `s` the
      `i`-th newest correction WAS written to, and the slot holds the vector LAST written to `s` (`lastWrite`) — which
      is a correction of the running call if `s < n` (the running call restarts `n_outer` at `0` and overwrites slots
      `0, 1, …` while the inherited pointers still refer to them: the buffer can hold the same slot twice, see the
      second `example`), and the `i`-th newest correction itself otherwise.
* `lgmres_aug_across_calls`      a call maps an object described by `log` to an object described by `runLog … log`;
  `Aug_fresh`: a fresh object is described by `[]`.  So every history of calls is covered.

**Side condition** `prm.pside = left ∨ 0 < prm.M`, needed for the statement to be TRUE of the code as written: with
right preconditioning `tmp = *ws[0]` is used as scratch for `P.apply(dx, tmp)` (lgmres.hpp:357-358); with `prm.M = 0`
and a full buffer `ws[0] = outer_v[0]`, so the oldest augmentation vector is overwritten with `P dx`.
-/
namespace Amgcl.C05i
open Amgcl Amgcl.Solver Amgcl.Solver.LGMRES

set_option linter.unusedSectionVars false
variable {K : Type} [Field K] [DecidableEq K] [LT K] [DecidableLT K]

/-- the vector fed into the Arnoldi process at inner index `M - 1 - i` is `outer_v_data[outer_v[size-1-i]]` -/
theorem lgmres_aug_fed (MM cap : Nat) (w : Work K) (i : Nat) (hi : i < w.ov.size) (hs : w.ov.size ≤ MM) :
    deref w (pickZ MM cap w.ov (MM - 1 - i)) = w.odata.get (w.ov.get cap (w.ov.size - 1 - i)) := by
  unfold pickZ
  rw [if_pos (by omega)]
  show w.odata.get _ = _
  congr 2; omega

/-- the ghost log is an observer, and one pass of the loop conses the write `pushed` of the cycle (if any) -/
theorem lgmres_aug_log (prm : LGMRES.Params K) (ip : Vec K → Vec K → K) (sqrt : K → K) (A : CRS K) (P : Vec K → Vec K)
    (f : Vec K) (epsT : K) (c : Nat) (st0 : St K) (log0 : List (Nat × Vec K)) :
    (outerG prm ip sqrt A P f epsT c (st0, log0)).1 = outer prm ip sqrt A P f epsT c st0 ∧
    (pushed prm ip sqrt A P epsT st0 =
      if 0 < prm.K' ∧ nrmA ip sqrt (cycDx prm ip sqrt A P epsT st0) ≠ 0 then
        some (st0.nOuter % prm.K',
          axpby (1 / nrmA ip sqrt (cycDx prm ip sqrt A P epsT st0)) (cycDx prm ip sqrt A P epsT st0) 0
            (cycDx prm ip sqrt A P epsT st0))
      else none) ∧
    (cycle prm ip sqrt A P epsT st0).x =
      (match prm.pside with
       | .left => axpby 1 (cycDx prm ip sqrt A P epsT st0) 1 st0.x
       | .right => axpby 1 (P (cycDx prm ip sqrt A P epsT st0)) 1 st0.x) :=
  ⟨outerG_fst prm ip sqrt A P f epsT c (st0, log0), rfl, cycle_x prm ip sqrt A P epsT st0⟩

/-- **C05 `lgmres_aug_are_corrections`**, the call starts with an empty buffer. -/
theorem lgmres_aug_are_corrections (prm : LGMRES.Params K) (ip : Vec K → Vec K → K) (sqrt : K → K) (A : CRS K)
    (P : Vec K → Vec K) (f : Vec K) (epsT : K) (hM : prm.pside = .left ∨ 0 < prm.M)
    (st0 : St K) (h0 : st0.w.ov = .empty) (hn : st0.nOuter = 0) (c : Nat) :
    let r := outerG prm ip sqrt A P f epsT c (st0, [])
    r.1 = outer prm ip sqrt A P f epsT c st0 ∧
    r.2.length = r.1.nOuter ∧ r.1.w.ov.size = min r.1.nOuter prm.K' ∧
    ∀ i, i < min r.1.nOuter prm.K' → ∃ e, r.2[i]? = some e ∧
      r.1.w.ov.get prm.K' (r.1.w.ov.size - 1 - i) = (r.1.nOuter - 1 - i) % prm.K' ∧
      e.1 = (r.1.nOuter - 1 - i) % prm.K' ∧
      r.1.w.odata.get (r.1.w.ov.get prm.K' (r.1.w.ov.size - 1 - i)) = e.2 := by
  intro r
  have hA : Aug prm.K' st0.w [] := ⟨by rw [h0]; exact CBuf.Holds_empty _, fun s v h => by simp [lastWrite] at h⟩
  obtain ⟨g1, g2⟩ := outerG_inv prm ip sqrt A P f epsT hM [] c (st0, []) ⟨hA, by rw [hn]; exact InCall_zero _ _⟩
  have hlen : r.2.length = r.1.nOuter := by have := g2.1; simpa using this
  refine ⟨outerG_fst prm ip sqrt A P f epsT c (st0, []), hlen, ?_, ?_⟩
  · have := g1.1.1; rw [List.length_map, hlen] at this; exact this
  · intro i hi
    have hi1 : i < r.1.nOuter := by omega
    have hi2 : i < prm.K' := by omega
    have hi' : i < r.2.length := by rw [hlen]; exact hi1
    refine ⟨r.2[i], List.getElem?_eq_getElem hi', ?_⟩
    obtain ⟨_, a2, a3⟩ := aug_recent g1 g2 i r.2[i] (List.getElem?_eq_getElem hi') hi1 hi2
    have a4 := (g1.read i r.2[i] (List.getElem?_eq_getElem hi') hi2).2.1
    exact ⟨a2, by rw [← a4, a2], a3⟩

/-- **C05 `lgmres_aug_are_corrections`, `always_reset = false`**: a call on an object described by `log0`. -/
theorem lgmres_aug_carried_over (prm : LGMRES.Params K) (ip : Vec K → Vec K → K) (sqrt : K → K) (A : CRS K)
    (P : Vec K → Vec K) (f : Vec K) (epsT : K) (hM : prm.pside = .left ∨ 0 < prm.M)
    (st0 : St K) (log0 : List (Nat × Vec K)) (h0 : Aug prm.K' st0.w log0) (hn : st0.nOuter = 0) (c : Nat) :
    let r := outerG prm ip sqrt A P f epsT c (st0, log0)
    r.1 = outer prm ip sqrt A P f epsT c st0 ∧
    -- (a)
    r.2.length = r.1.nOuter + log0.length ∧ r.2.drop r.1.nOuter = log0 ∧
    r.1.w.ov.size = min r.2.length prm.K' ∧
    -- (b)
    (∀ i e, r.2[i]? = some e → i < r.1.nOuter → i < prm.K' →
      r.1.w.ov.get prm.K' (r.1.w.ov.size - 1 - i) = (r.1.nOuter - 1 - i) % prm.K' ∧
      r.1.w.odata.get (r.1.w.ov.get prm.K' (r.1.w.ov.size - 1 - i)) = e.2) ∧
    -- (c)
    (∀ i e, r.2[i]? = some e → i < prm.K' →
      i < r.1.w.ov.size ∧ r.1.w.ov.get prm.K' (r.1.w.ov.size - 1 - i) = e.1 ∧
      lastWrite r.2 e.1 = some (r.1.w.odata.get (r.1.w.ov.get prm.K' (r.1.w.ov.size - 1 - i)))) ∧
    Aug prm.K' r.1.w r.2 := by
  intro r
  obtain ⟨g1, g2⟩ := outerG_inv prm ip sqrt A P f epsT hM log0 c (st0, log0) ⟨h0, by rw [hn]; exact InCall_zero _ _⟩
  refine ⟨outerG_fst prm ip sqrt A P f epsT c (st0, log0), g2.1, g2.2.1, ?_, ?_, ?_, g1⟩
  · have := g1.1.1; rw [List.length_map] at this; exact this
  · intro i e he hi hic
    exact (aug_recent g1 g2 i e he hi hic).2
  · intro i e he hic
    exact g1.read i e he hic

/-- **every history of calls**: a call maps an object described by `log` to an object described by `runLog … log`
(`resetLog`: `[]` if `always_reset`, else `log`, then the writes of the call); a fresh object is described by `[]`. -/
theorem lgmres_aug_across_calls (prm : LGMRES.Params K) (ip : Vec K → Vec K → K) (sqrt : K → K) (eps : K) (A : CRS K)
    (P : Vec K → Vec K) (f x0 : Vec K) (hM : prm.pside = .left ∨ 0 < prm.M) (n : Nat) :
    Aug prm.K' (Work.fresh n : Work K) [] ∧
    ∀ (ws : Work K) (log : List (Nat × Vec K)), Aug prm.K' ws log →
      Aug prm.K' (run prm ip sqrt eps A P ws f x0).2.2 (runLog prm ip sqrt eps A P ws f x0 log) :=
  ⟨Aug_fresh _ _, fun ws log h => run_aug prm ip sqrt eps A P ws f x0 log hM h⟩

end Amgcl.C05i
