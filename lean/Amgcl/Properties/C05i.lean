import Amgcl.Proofs.SolverLGMRESAug
import Amgcl.Model.Rsqrt
/-!
# C05i — LGMRES: the augmentation slots hold the normalised corrections of the last cycles
(`lgmres_aug_are_corrections`, open item of C05; model `Model/SolverLGMRES.lean`, code solver/lgmres.hpp:343-372)

**What the code stores.**  At the end of a restart cycle `dx = Σ s_i *ws[i]` (`LGMRES.cycDx`; the new iterate is
`x + dx` for left and `x + P dx` for right preconditioning — `cycle_x`: the stored vector is the correction BEFORE the
right preconditioner is applied).  If `prm.K > 0` and `norm(dx) ≠ 0` (`norm = |sqrt ⟨dx,dx⟩|`, the model's `nrmA`) the
vector `inverse(norm(dx)) · dx` (`LGMRES.normed`) is written to `outer_v_data[n_outer % K]`, `n_outer` is incremented and
the pointer is pushed on the ring buffer `outer_v`; otherwise NOTHING happens (no write, no push, `n_outer` unchanged):
`LGMRES.pushed`.  The ghost list (`log`, newest first) of the pairs `(slot, dx/‖dx‖)` written so far is threaded
through the model's outer loop by `LGMRES.outerG`, whose first component IS `LGMRES.outer` (`outerG_fst`).

**The order the code uses them.**  In a cycle the augmentation vectors are fed at the inner indices
`j = M - size, …, M - 1` (`M = prm.M + prm.K`), `z_j = outer_v[j - (M - size)]`: the OLDEST first, the newest at the last
index `M - 1`.  `lgmres_aug_fed`: the vector fed at index `M - 1 - i` is `outer_v_data[outer_v[size-1-i]]`.

**Statements** (for every `sqrt`, inner product, matrix, function `P`, threshold, right-hand side, start state):

* `lgmres_aug_are_corrections`   after every pass `c` of the outer loop of a call that started with an EMPTY buffer
  (`always_reset = true`, or a fresh object): `outer_v.size() = min(n, K)` for the number `n = n_outer` of corrections
  stored so far, and for `i < min(n, K)` the pointer `outer_v[size-1-i]` is slot `(n-1-i) % K` and that slot holds the
  `i`-th newest normalised correction.
* `lgmres_aug_carried_over`      `always_reset = false`, a call on an object described by a log `log0` (the documented
  exception of C15): after every pass, with `n = n_outer` of THIS call,
  (a) `log = (n entries of this call) ++ log0`, `size = min(|log|, K)`;
  (b) for `i < min(n, K)`: as above (`outer_v[size-1-i]` = slot `(n-1-i) % K` = `i`-th newest correction);
  (c) for every `i < size` (in particular the inherited pointers `n ≤ i`): `outer_v[size-1-i]` is the slot `s` the
      `i`-th newest correction WAS written to, and the slot holds the vector LAST written to `s` (`lastWrite`) — which
      is a correction of the running call if `s < n` (the running call restarts `n_outer` at `0` and overwrites slots
      `0, 1, …` while the inherited pointers still refer to them: the buffer can hold the same slot twice, see the
      second `example`), and the `i`-th newest correction itself otherwise.
* `lgmres_aug_inherited`         (c) in closed form: an inherited pointer to slot `s` holds correction number `s` of the
  running call if `s < n`, else `lastWrite log0 s`.
* `lgmres_aug_across_calls`      a call maps an object described by `log` to an object described by `runLog … log`;
  `Aug_fresh`: a fresh object is described by `[]`.  So every history of calls is covered.

**Side condition** `prm.pside = left ∨ 0 < prm.M`, needed for the statement to be TRUE of the code as written: with
right preconditioning `tmp = *ws[0]` is used as scratch for `P.apply(dx, tmp)` (lgmres.hpp:357-358); with `prm.M = 0`
and a full buffer `ws[0] = outer_v[0]`, so the oldest augmentation vector is overwritten with `P dx`.
-/
namespace Amgcl.C05i
open Amgcl Amgcl.Solver Amgcl.Solver.LGMRES

set_option linter.unusedSectionVars false
variable {K : Type} [Field K] [DecidableEq K] [LT K] [DecidableLT K]


/-! ### concrete inputs of the non-vacuity examples

`A = [[3,0,1],[4,5,2],[0,4,3]]`, `f = (25,0,0)`, `x₀ = 0`, identity preconditioner, `sqrt = Amgcl.rsqrt`, threshold `0`.

* `rE`: LGMRES(0, 2) (`M = prm.M + prm.K = 2`), left preconditioning, `always_reset`, THREE restart cycles of two passes
  each (2 Krylov / 1 Krylov + 1 augmentation / 2 augmentation vectors), three non-zero corrections: the third `push_back`
  finds the ring buffer full and rotates it (`start = 1`), slot `0` is overwritten.
* `w1, w2`: LGMRES(1, 2), right preconditioning, `always_reset = false`, `maxiter = 1`: two calls on the same object, each
  makes one pass and stores one correction — the second call starts `n_outer` at `0` again and overwrites slot `0`, to
  which the inherited pointer still refers: `outer_v = [slot 0, slot 0]`.
-/
namespace Ex
def AE : CRS ℚ := ⟨3, #[[(0, 3), (2, 1)], [(0, 4), (1, 5), (2, 2)], [(1, 4), (2, 3)]]⟩
def fE : Vec ℚ := #[25, 0, 0]
def xE : Vec ℚ := #[0, 0, 0]
def PE : Vec ℚ → Vec ℚ := fun v => vcopy v
def prmE : LGMRES.Params ℚ :=
  { maxiter := 20, tol := 0, abstol := 0, nsSearch := false, M := 0, K' := 2, alwaysReset := true, pside := .left }
def stE : St ℚ := init prmE stdIp Amgcl.rsqrt AE PE (reset prmE (Work.fresh 3)) fE xE
def rE : St ℚ × List (Nat × Vec ℚ) := outerG prmE stdIp Amgcl.rsqrt AE PE fE 0 3 (stE, [])

def prmC : LGMRES.Params ℚ :=
  { maxiter := 1, tol := 0, abstol := 0, nsSearch := false, M := 1, K' := 2, alwaysReset := false, pside := .right }
def w1 : Work ℚ := (run prmC stdIp Amgcl.rsqrt 0 AE PE (Work.fresh 3) fE xE).2.2
def x1 : Vec ℚ := (run prmC stdIp Amgcl.rsqrt 0 AE PE (Work.fresh 3) fE xE).2.1
def log1 : List (Nat × Vec ℚ) := runLog prmC stdIp Amgcl.rsqrt 0 AE PE (Work.fresh 3) fE xE []
def w2 : Work ℚ := (run prmC stdIp Amgcl.rsqrt 0 AE PE w1 fE x1).2.2
def log2 : List (Nat × Vec ℚ) := runLog prmC stdIp Amgcl.rsqrt 0 AE PE w1 fE x1 log1
/-- the state on entry of the outer loop of the second call, and its loop after one pass -/
def st2 : St ℚ := init prmC stdIp Amgcl.rsqrt AE PE (reset prmC w1) fE x1
def r2 : St ℚ × List (Nat × Vec ℚ) := outerG prmC stdIp Amgcl.rsqrt AE PE fE 0 1 (st2, log1)
end Ex

/-- the vector fed into the Arnoldi process at inner index `M - 1 - i` is `outer_v_data[outer_v[size-1-i]]` -/
theorem lgmres_aug_fed (MM cap : Nat) (w : Work K) (i : Nat) (hi : i < w.ov.size) (hs : w.ov.size ≤ MM) :
    deref w (pickZ MM cap w.ov (MM - 1 - i)) = w.odata.get (w.ov.get cap (w.ov.size - 1 - i)) := by
  unfold pickZ
  rw [if_pos (by omega)]
  show w.odata.get _ = _
  congr 2; omega

/-- the ghost log is an observer, and one pass of the loop conses the write `pushed` of the cycle (if any) -/
theorem lgmres_aug_log (prm : LGMRES.Params K) (ip : Vec K → Vec K → K) (sqrt : K → K) (A : CRS K) (P : Vec K → Vec K)
    (f : Vec K) (epsT : K) (c : Nat) (st0 : St K) (log0 : List (Nat × Vec K)) :
    (outerG prm ip sqrt A P f epsT c (st0, log0)).1 = outer prm ip sqrt A P f epsT c st0 ∧
    (pushed prm ip sqrt A P epsT st0 =
      if 0 < prm.K' ∧ nrmA ip sqrt (cycDx prm ip sqrt A P epsT st0) ≠ 0 then
        some (st0.nOuter % prm.K',
          axpby (1 / nrmA ip sqrt (cycDx prm ip sqrt A P epsT st0)) (cycDx prm ip sqrt A P epsT st0) 0
            (cycDx prm ip sqrt A P epsT st0))
      else none) ∧
    (cycle prm ip sqrt A P epsT st0).x =
      (match prm.pside with
       | .left => axpby 1 (cycDx prm ip sqrt A P epsT st0) 1 st0.x
       | .right => axpby 1 (P (cycDx prm ip sqrt A P epsT st0)) 1 st0.x) :=
  ⟨outerG_fst prm ip sqrt A P f epsT c (st0, log0), rfl, cycle_x prm ip sqrt A P epsT st0⟩

/-- **C05 `lgmres_aug_are_corrections`**, the call starts with an empty buffer. -/
theorem lgmres_aug_are_corrections (prm : LGMRES.Params K) (ip : Vec K → Vec K → K) (sqrt : K → K) (A : CRS K)
    (P : Vec K → Vec K) (f : Vec K) (epsT : K) (hM : prm.pside = .left ∨ 0 < prm.M)
    (st0 : St K) (h0 : st0.w.ov = .empty) (hn : st0.nOuter = 0) (c : Nat) :
    let r := outerG prm ip sqrt A P f epsT c (st0, [])
    r.1 = outer prm ip sqrt A P f epsT c st0 ∧
    r.2.length = r.1.nOuter ∧ r.1.w.ov.size = min r.1.nOuter prm.K' ∧
    ∀ i, i < min r.1.nOuter prm.K' → ∃ e, r.2[i]? = some e ∧
      r.1.w.ov.get prm.K' (r.1.w.ov.size - 1 - i) = (r.1.nOuter - 1 - i) % prm.K' ∧
      e.1 = (r.1.nOuter - 1 - i) % prm.K' ∧
      r.1.w.odata.get (r.1.w.ov.get prm.K' (r.1.w.ov.size - 1 - i)) = e.2 := by
  intro r
  have hA : Aug prm.K' st0.w [] := ⟨by rw [h0]; exact CBuf.Holds_empty _, fun s v h => by simp [lastWrite] at h⟩
  obtain ⟨g1, g2⟩ := outerG_inv prm ip sqrt A P f epsT hM [] c (st0, []) ⟨hA, by rw [hn]; exact InCall_zero _ _⟩
  have hlen : r.2.length = r.1.nOuter := by have := g2.1; simpa using this
  refine ⟨outerG_fst prm ip sqrt A P f epsT c (st0, []), hlen, ?_, ?_⟩
  · have := g1.1.1; rw [List.length_map, hlen] at this; exact this
  · intro i hi
    have hi1 : i < r.1.nOuter := by omega
    have hi2 : i < prm.K' := by omega
    have hi' : i < r.2.length := by rw [hlen]; exact hi1
    refine ⟨r.2[i], List.getElem?_eq_getElem hi', ?_⟩
    obtain ⟨_, a2, a3⟩ := aug_recent g1 g2 i r.2[i] (List.getElem?_eq_getElem hi') hi1 hi2
    have a4 := (g1.read i r.2[i] (List.getElem?_eq_getElem hi') hi2).2.1
    exact ⟨a2, by rw [← a4, a2], a3⟩

/-- non-vacuity: the theorem applies to `Ex.rE` (three cycles, `K = 2`) … -/
example := lgmres_aug_are_corrections Ex.prmE stdIp Amgcl.rsqrt Ex.AE Ex.PE Ex.fE 0 (Or.inl rfl) Ex.stE rfl rfl 3
/-- … where three different non-zero corrections were stored in slots `0, 1, 0`, the buffer has rotated
(`start = 1`), `outer_v[1]` = slot `0` = the newest and `outer_v[0]` = slot `1` = the second newest correction, and the
oldest one (first written to slot `0`) is gone -/
example : Ex.rE.1.nOuter = 3 ∧ Ex.rE.1.iter = 6 ∧ Ex.rE.2.map (·.1) = [0, 1, 0] ∧ Ex.rE.1.w.ov = ⟨1, [0, 1]⟩ ∧
    Ex.rE.1.w.ov.get 2 1 = 0 ∧ Ex.rE.1.w.ov.get 2 0 = 1 ∧
    Ex.rE.1.w.odata.get 0 = (Ex.rE.2.getD 0 default).2 ∧ Ex.rE.1.w.odata.get 1 = (Ex.rE.2.getD 1 default).2 ∧
    (Ex.rE.2.getD 0 default).2 ≠ (Ex.rE.2.getD 2 default).2 ∧ (Ex.rE.2.getD 0 default).2 ≠ #[0, 0, 0] := by
  decide +kernel

/-- **C05 `lgmres_aug_are_corrections`, `always_reset = false`**: a call on an object described by `log0`. -/
theorem lgmres_aug_carried_over (prm : LGMRES.Params K) (ip : Vec K → Vec K → K) (sqrt : K → K) (A : CRS K)
    (P : Vec K → Vec K) (f : Vec K) (epsT : K) (hM : prm.pside = .left ∨ 0 < prm.M)
    (st0 : St K) (log0 : List (Nat × Vec K)) (h0 : Aug prm.K' st0.w log0) (hn : st0.nOuter = 0) (c : Nat) :
    let r := outerG prm ip sqrt A P f epsT c (st0, log0)
    r.1 = outer prm ip sqrt A P f epsT c st0 ∧
    -- (a)
    r.2.length = r.1.nOuter + log0.length ∧ r.2.drop r.1.nOuter = log0 ∧
    r.1.w.ov.size = min r.2.length prm.K' ∧
    -- (b)
    (∀ i e, r.2[i]? = some e → i < r.1.nOuter → i < prm.K' →
      r.1.w.ov.get prm.K' (r.1.w.ov.size - 1 - i) = (r.1.nOuter - 1 - i) % prm.K' ∧
      r.1.w.odata.get (r.1.w.ov.get prm.K' (r.1.w.ov.size - 1 - i)) = e.2) ∧
    -- (c)
    (∀ i e, r.2[i]? = some e → i < prm.K' →
      i < r.1.w.ov.size ∧ r.1.w.ov.get prm.K' (r.1.w.ov.size - 1 - i) = e.1 ∧
      lastWrite r.2 e.1 = some (r.1.w.odata.get (r.1.w.ov.get prm.K' (r.1.w.ov.size - 1 - i)))) ∧
    Aug prm.K' r.1.w r.2 := by
  intro r
  obtain ⟨g1, g2⟩ := outerG_inv prm ip sqrt A P f epsT hM log0 c (st0, log0) ⟨h0, by rw [hn]; exact InCall_zero _ _⟩
  refine ⟨outerG_fst prm ip sqrt A P f epsT c (st0, log0), g2.1, g2.2.1, ?_, ?_, ?_, g1⟩
  · have := g1.1.1; rw [List.length_map] at this; exact this
  · intro i e he hi hic
    exact (aug_recent g1 g2 i e he hi hic).2
  · intro i e he hic
    exact g1.read i e he hic

/-- non-vacuity: the second of two calls on the same object (`always_reset = false`), after its only cycle … -/
example :=
  have h1 : Aug 2 Ex.w1 Ex.log1 :=
    run_aug Ex.prmC stdIp Amgcl.rsqrt 0 Ex.AE Ex.PE (Work.fresh 3) Ex.fE Ex.xE [] (Or.inr (by decide)) (Aug_fresh 2 3)
  have h2 : Aug 2 Ex.st2.w Ex.log1 := by
    obtain ⟨j1, j2, _⟩ := init_aug Ex.prmC stdIp Amgcl.rsqrt Ex.AE Ex.PE (reset Ex.prmC Ex.w1) Ex.fE Ex.x1
    unfold Aug Ex.st2; rw [j1, j2]; exact reset_augLog Ex.prmC Ex.w1 Ex.log1 h1
  lgmres_aug_carried_over Ex.prmC stdIp Amgcl.rsqrt Ex.AE Ex.PE Ex.fE 0 (Or.inr (by decide)) Ex.st2 Ex.log1 h2
    (init_aug Ex.prmC stdIp Amgcl.rsqrt Ex.AE Ex.PE (reset Ex.prmC Ex.w1) Ex.fE Ex.x1).2.2 1
/-- … THE EXCEPTION: both pointers of the buffer refer to slot `0`, which holds the correction of the second call; the
correction of the first call (the inherited entry of the log) is no longer stored anywhere -/
example : Ex.w1.ov = ⟨0, [0]⟩ ∧ Ex.log1.map (·.1) = [0] ∧ Ex.w1.odata.get 0 = (Ex.log1.getD 0 default).2 ∧
    Ex.r2.1.nOuter = 1 ∧ Ex.r2.1.w.ov = ⟨0, [0, 0]⟩ ∧ Ex.r2.2.map (·.1) = [0, 0] ∧ Ex.r2.2.drop 1 = Ex.log1 ∧
    Ex.r2.1.w.odata.get 0 = (Ex.r2.2.getD 0 default).2 ∧
    (Ex.r2.2.getD 1 default).2 ≠ (Ex.r2.2.getD 0 default).2 ∧ (Ex.r2.2.getD 1 default).2 ≠ #[0, 0, 0] := by
  decide +kernel

/-- **the inherited pointers in closed form** (same situation as `lgmres_aug_carried_over`, `n = n_outer ≤ i < size`):
`outer_v[size-1-i]` refers to the slot `s` the `i`-th newest correction was written to by an EARLIER call; if `s < n` the
running call has overwritten that slot with its own correction number `s` (= entry `n-1-s` of the log) — the buffer then
feeds this vector twice; if `n ≤ s` the slot holds what the inherited log `log0` says (`lastWrite log0 s`). -/
theorem lgmres_aug_inherited (prm : LGMRES.Params K) (ip : Vec K → Vec K → K) (sqrt : K → K) (A : CRS K)
    (P : Vec K → Vec K) (f : Vec K) (epsT : K) (hM : prm.pside = .left ∨ 0 < prm.M)
    (st0 : St K) (log0 : List (Nat × Vec K)) (h0 : Aug prm.K' st0.w log0) (hn : st0.nOuter = 0) (c : Nat) :
    let r := outerG prm ip sqrt A P f epsT c (st0, log0)
    ∀ i e, r.2[i]? = some e → r.1.nOuter ≤ i → i < prm.K' →
      r.1.w.ov.get prm.K' (r.1.w.ov.size - 1 - i) = e.1 ∧
      (e.1 < r.1.nOuter → ∃ e', r.2[r.1.nOuter - 1 - e.1]? = some e' ∧
        r.1.w.odata.get (r.1.w.ov.get prm.K' (r.1.w.ov.size - 1 - i)) = e'.2) ∧
      (r.1.nOuter ≤ e.1 →
        lastWrite log0 e.1 = some (r.1.w.odata.get (r.1.w.ov.get prm.K' (r.1.w.ov.size - 1 - i)))) := by
  intro r i e he hi hic
  obtain ⟨g1, g2⟩ := outerG_inv prm ip sqrt A P f epsT hM log0 c (st0, log0) ⟨h0, by rw [hn]; exact InCall_zero _ _⟩
  exact aug_inherited g1 g2 i e he hi hic

/-- non-vacuity: in `Ex.r2` the inherited pointer (`i = 1`, slot `0 < n_outer = 1`) holds the correction of the
running call (entry `0` of the log), not the inherited one (entry `1`) -/
example : Ex.r2.1.nOuter = 1 ∧ (Ex.r2.2.getD 1 default).1 = 0 ∧
    Ex.r2.1.w.odata.get (Ex.r2.1.w.ov.get 2 (Ex.r2.1.w.ov.size - 1 - 1)) = (Ex.r2.2.getD 0 default).2 ∧
    (Ex.r2.2.getD 0 default).2 ≠ (Ex.r2.2.getD 1 default).2 := by
  decide +kernel

/-- **every history of calls**: a call maps an object described by `log` to an object described by `runLog … log`
(`resetLog`: `[]` if `always_reset`, else `log`, then the writes of the call); a fresh object is described by `[]`. -/
theorem lgmres_aug_across_calls (prm : LGMRES.Params K) (ip : Vec K → Vec K → K) (sqrt : K → K) (eps : K) (A : CRS K)
    (P : Vec K → Vec K) (f x0 : Vec K) (hM : prm.pside = .left ∨ 0 < prm.M) (n : Nat) :
    Aug prm.K' (Work.fresh n : Work K) [] ∧
    ∀ (ws : Work K) (log : List (Nat × Vec K)), Aug prm.K' ws log →
      Aug prm.K' (run prm ip sqrt eps A P ws f x0).2.2 (runLog prm ip sqrt eps A P ws f x0 log) :=
  ⟨Aug_fresh _ _, fun ws log h => run_aug prm ip sqrt eps A P ws f x0 log hM h⟩

/-- non-vacuity: two calls on a fresh object; the object after the second call is described by the log of both -/
example : Aug 2 Ex.w2 Ex.log2 :=
  have h := lgmres_aug_across_calls Ex.prmC stdIp Amgcl.rsqrt 0 Ex.AE Ex.PE Ex.fE
  (h Ex.x1 (Or.inr (by decide)) 3).2 Ex.w1 Ex.log1 ((h Ex.xE (Or.inr (by decide)) 3).2 (Work.fresh 3) [] (Aug_fresh 2 3))
example : Ex.w2.ov = ⟨0, [0, 0]⟩ ∧ Ex.log2.map (·.1) = [0, 0] ∧ Ex.w2.odata.get 0 = (Ex.log2.getD 0 default).2 ∧
    (Ex.log2.getD 1 default).2 ≠ (Ex.log2.getD 0 default).2 := by
  decide +kernel

end Amgcl.C05i
