import Amgcl.Properties.C18
import Amgcl.Proofs.CPRDrsBlock
import Amgcl.Proofs.CPRDrsWidths
import Amgcl.Proofs.C18bExamples
/-!
# C18b — `preconditioner::cpr_drs` (CPR with dynamic row-sum weights) realises its block formula

Property theorems only (helpers: `Proofs/CPRDrs*.lean`; model: `Model/CPRDrs.lean`, which mirrors `cpr_drs.hpp` statement
by statement and shares the lock-step walk, the second pass, `Scatter`, `apply` and `partial_update` with the model of
`cpr.hpp`).  `eps_dd`, `eps_ps` and the user weights are `double`s in the code; every comparison the code makes happens
in the matrix value type after converting the `double` (see the header of the model), so they enter as elements of `K`.

* `cpr_drs_formula`  : `apply` is `x = S f + Scatter · P (Fpp (f - A S f))` and the pressure matrix is
  `App(ip, jp) = Σ_{i<B} w_i · A(ip·B + i, jp·B)` with `w` the row of `Fpp`; `cpr_drs_scatter`: `Scatter` is the injection
  of the pressure unknowns.
* `cpr_drs_weights`  : the weights ARE the dynamic row-sum criteria on the matrix entries: `w_i = 0` iff `i > 0` and
  (`A(ip·B+i, ip·B) < eps_dd · Σ_{jp ≠ ip} |A(ip·B+i, jp·B)|` or `Σ_jp |A(ip·B, jp·B+i)| < eps_ps · |A(ip·B, ip·B)|`),
  otherwise the user weight (1 without `weights`).  `cpr_drs_weight_first_row`: the pressure equation itself is never
  switched off.
* `cpr_drs_weights_eq_rowsum_when_eps_zero` : with `eps_dd = eps_ps = 0` and non-negative pressure-column entries in the
  diagonal blocks every criterion is off: `App` is the plain (user-weighted) SUM of the block rows — the "true-IMPES like"
  row sum, NOT the first-row-of-inverse weighting of `cpr` (`cpr_drs_differs_from_cpr`: a 4×4 witness); a negative
  entry `A(ip·B+i, ip·B)` switches its row off even then (`cpr_drs_weight_negative_dia`).
* `cpr_drs_scalar_eq_block` : scalar input with `block_size = B` on the expanded matrix ≡ `B × B` block input (same
  outcome of the `precondition`, same rows of `Fpp`, same `App`, same `Scatter` rows, same action), every `active_rows`.
* `cpr_drs_partial_update_noop(_block)` : `partial_update` with the matrix of the constructor is the identity.
* `cpr_drs_weights_indep_scratch` : the per-thread scratch vectors `a_dia`, `a_off`, `a_top` carry nothing from one
  block row to the next: the weights are a function of the matrix and the parameters, for every assignment of block
  rows to threads; `cpr_drs_weights_indep_get_app`: nor do they depend on `get_app`.
* `cpr_drs_app_widths_consistent` : the count of the first pass is the number of entries the second pass writes.
-/
namespace Amgcl.C18b
open Amgcl Amgcl.CPRDrs Finset
open Amgcl.CPR (State Blk expand scatterOf scatterOf_row)

section drs
variable {K : Type} [Field K] [LinearOrder K]

/-- **CPR-DRS apply and pressure matrix** (scalar input, rows with strictly increasing columns, `N = q·B` active rows,
the `precondition` on `weights` passed): with `x₀ = S f`, entry `i` of the result is
`x₀ᵢ + Σ_jp Scatter(i, jp) · (P (Fpp (f - A x₀)))_jp`, and `App(ip, jp) = Σ_{i<B} Fpp(ip, ip·B+i) · A(ip·B+i, jp·B)`. -/
theorem cpr_drs_formula (A : CRS K) (hs : A.sortedb = true) (p : Params K) (q : Nat) (hB : 0 < p.B)
    (hN : (if p.activeRows = 0 then A.nrows else p.activeRows) = q * p.B) (st : State K)
    (hst : initScalar A p = some st) :
    (∀ (mkS : CRS K → Vec K → Vec K) (Pf : Vec K → Vec K) (f : Vec K) (i : Nat), i < (mkS A f).size →
      (st.apply mkS Pf f).getD i 0
        = (mkS A f).getD i 0
          + ∑ jp ∈ range q, st.Scatter.get i jp *
              (Pf (spmv 1 st.Fpp (residual f A (mkS A f)) 0 (vclear q))).getD jp 0) ∧
    (∀ ip jp, ip < q → jp < q →
      st.App.get ip jp = ∑ i ∈ range p.B, st.Fpp.get ip (ip * p.B + i) * A.get (ip * p.B + i) (jp * p.B)) := by
  obtain rfl := initScalar_some hst
  have hnp : (if p.activeRows = 0 then A.nrows else p.activeRows) / p.B = q := by rw [hN]; exact Nat.mul_div_cancel _ hB
  constructor
  · intro mkS Pf f i hi
    have := C18.cpr_formula (scalarState A p) mkS Pf f (scatterOf_wf _ _ _) i hi
    have hAS : (scalarState A p).AS = A := rfl
    have hnp' : (scalarState A p).np = q := hnp
    have hnc : (scalarState A p).Scatter.ncols = q := hnp
    rw [hAS, hnp', hnc] at this
    exact this
  · intro ip jp hip hjp
    exact scalarState_App_get A hs p q hB hN ip jp hip hjp

-- non-vacuity: the 4×4 example with `block_size = 2`, default-like thresholds
example : (scalarState C18bEx.Ad C18bEx.pD).App.get 0 1
    = ∑ i ∈ range C18bEx.pD.B, (scalarState C18bEx.Ad C18bEx.pD).Fpp.get 0 (0 * C18bEx.pD.B + i) *
        C18bEx.Ad.get (0 * C18bEx.pD.B + i) (1 * C18bEx.pD.B) :=
  (cpr_drs_formula C18bEx.Ad C18bEx.Ad_ok.1 C18bEx.pD 2 (by decide) C18bEx.Ad_ok.2 _ C18bEx.Ad_init).2 0 1
    (by decide) (by decide)

/-- **`Scatter` is the injection of the pressure unknowns**: `Scatter(i, jp) = 1` iff `i = jp·B` is the first unknown of
the active block row `jp`, else `0` -/
theorem cpr_drs_scatter (A : CRS K) (p : Params K) (q : Nat) (hB : 0 < p.B)
    (hN : (if p.activeRows = 0 then A.nrows else p.activeRows) = q * p.B) (st : State K)
    (hst : initScalar A p = some st) (i jp : Nat) :
    st.Scatter.get i jp = if i < A.nrows ∧ i = jp * p.B ∧ jp < q then 1 else 0 := by
  obtain rfl := initScalar_some hst
  have hnp : (if p.activeRows = 0 then A.nrows else p.activeRows) / p.B = q := by rw [hN]; exact Nat.mul_div_cancel _ hB
  show rowGet ((scatterOf p.B A.nrows ((if p.activeRows = 0 then A.nrows else p.activeRows) / p.B) : CRS K).row i) jp = _
  rw [scatterOf_row, hnp]
  by_cases h : i < A.nrows ∧ i % p.B = 0 ∧ i / p.B < q
  · rw [if_pos h, rowGet_singleton]
    have hi : i = (i / p.B) * p.B := by
      have := Nat.div_add_mod i p.B
      rw [h.2.1, Nat.add_zero, Nat.mul_comm] at this
      exact this.symm
    by_cases hj : i / p.B = jp
    · rw [if_pos hj, if_pos ⟨h.1, by rw [← hj]; exact hi, by rw [← hj]; exact h.2.2⟩]
    · rw [if_neg hj, if_neg]
      rintro ⟨_, h2, _⟩
      exact hj (by rw [h2, Nat.mul_div_cancel _ hB])
  · rw [if_neg h]
    simp only [rowGet_nil']
    rw [if_neg]
    rintro ⟨h1, h2, h3⟩
    exact h ⟨h1, by rw [h2]; exact Nat.mul_mod_left _ _, by rw [h2, Nat.mul_div_cancel _ hB]; exact h3⟩

example : (scalarState C18bEx.Ad C18bEx.pD).Scatter.get 2 1 = 1 := by
  rw [cpr_drs_scatter C18bEx.Ad C18bEx.pD 2 (by decide) C18bEx.Ad_ok.2 _ C18bEx.Ad_init 2 1]
  decide

/-- **the weights are a function of the matrix and the parameters only**: whatever the per-thread scratch vectors
`a_dia`, `a_off`, `a_top` (of size `block_size`) hold when a block row is started — the leftovers of ANY other block
row — weights and `App` row count are those obtained from fresh vectors; hence the pass over all block rows is the map of
one per-row function, for every assignment of block rows to threads. -/
theorem cpr_drs_weights_indep_scratch (A : CRS K) (p : Params K) (N ip : Nat) (g : Bool) (s s' : Acc K)
    (hs : s.Sized p.B) (hs' : s'.Sized p.B) (n : Nat) :
    (passRow A p N ip g s).1 = (passRow A p N ip g s').1 ∧
    (firstScalarPass A p n g s).1
      = (List.range ((if p.activeRows = 0 then n else p.activeRows) / p.B)).map
          (fun ip => (passRow A p (if p.activeRows = 0 then n else p.activeRows) ip g (Acc.zero p.B)).1) := by
  refine ⟨?_, firstScalarPass_eq_map A p n g s hs⟩
  rw [passRow_scratch A p N ip g s hs, passRow_scratch A p N ip g s' hs']

-- non-vacuity: scratch vectors full of leftovers versus fresh ones
example : (passRow C18bEx.Ad C18bEx.pD 4 1 true ⟨#[7, 7], #[8, 8], #[9, 9]⟩).1
    = (passRow C18bEx.Ad C18bEx.pD 4 1 true (Acc.zero 2)).1 :=
  (cpr_drs_weights_indep_scratch C18bEx.Ad C18bEx.pD 4 1 true _ _ ⟨rfl, rfl, rfl⟩ ⟨rfl, rfl, rfl⟩ 4).1

/-- the weights do not depend on `get_app` (`update_transfer` calls `first_scalar_pass(K, false)`), for EVERY input -/
theorem cpr_drs_weights_indep_get_app (A : CRS K) (p : Params K) (N ip : Nat) (s : Acc K) :
    (passRow A p N ip true s).1.w = (passRow A p N ip false s).1.w := by
  unfold passRow
  simp only
  rw [passLoop_mode]

-- non-vacuity: block row 0 of the example, weights `(1, 0)` in both modes
example : (passRow C18bEx.Ad C18bEx.pD 4 0 true (Acc.zero 2)).1.w = #[1, 0] := by decide +kernel
example : (passRow C18bEx.Ad C18bEx.pD 4 0 true (Acc.zero 2)).1.w = (passRow C18bEx.Ad C18bEx.pD 4 0 false (Acc.zero 2)).1.w :=
  cpr_drs_weights_indep_get_app C18bEx.Ad C18bEx.pD 4 0 (Acc.zero 2)

/-- **a partial update with an unchanged matrix leaves the object — hence its action — unchanged**, with or without
`update_transfer_ops` (scalar input, rows with strictly increasing columns) -/
theorem cpr_drs_partial_update_noop (A : CRS K) (hs : A.sortedb = true) (p : Params K) (st : State K)
    (hst : initScalar A p = some st) (upd : Bool) (mkS : CRS K → Vec K → Vec K) (Pf : Vec K → Vec K) (f : Vec K) :
    partialUpdateScalar st A p upd = st ∧ (partialUpdateScalar st A p upd).apply mkS Pf f = st.apply mkS Pf f := by
  obtain rfl := initScalar_some hst
  have h := partialUpdateScalar_same A hs p upd
  exact ⟨h, by rw [h]⟩

/-- the same for `B × B` block input (no `precondition` outcome either) -/
theorem cpr_drs_partial_update_noop_block (Ab : CRS (Blk K)) (hs : Ab.sortedb = true) (p : Params K) (hB : 0 < p.B)
    (st : State K) (hst : initBlock Ab p = some st) (upd : Bool) :
    partialUpdateBlock st Ab p upd = some st := by
  have hw := initBlock_cond hst
  obtain rfl := initBlock_some hst
  exact partialUpdateBlock_same Ab hs p hB upd hw

example : partialUpdateScalar (scalarState C18bEx.Ad C18bEx.pD) C18bEx.Ad C18bEx.pD true = scalarState C18bEx.Ad C18bEx.pD :=
  (cpr_drs_partial_update_noop C18bEx.Ad C18bEx.Ad_ok.1 C18bEx.pD _ C18bEx.Ad_init true (fun _ f => f) (fun r => r) #[]).1
example : partialUpdateBlock (blockState C18Ex.Abk C18bEx.pB) C18Ex.Abk C18bEx.pB true = some (blockState C18Ex.Abk C18bEx.pB) :=
  cpr_drs_partial_update_noop_block C18Ex.Abk C18Ex.Abk_ok.1 C18bEx.pB (by decide) _ C18bEx.Abk_initB true

/-- **scalar input with `block_size = B` and `B × B` block input are treated identically**: for a block matrix with
sorted block rows, the block constructor and the scalar constructor on the expanded matrix (every stored block written
out as `B × B` scalar entries, `active_rows` scaled by `B`, the same `weights`) agree on the outcome of the
`precondition` and produce the same rows of `Fpp` (the scalar form declares `n` columns, the block form `np·B`), the same
pressure matrix `App` (entry by entry, in the same stored order), the same `Scatter` rows — hence the same action, for
every `active_rows`, every thresholds and every user weights. -/
theorem cpr_drs_scalar_eq_block (Ab : CRS (Blk K)) (hs : Ab.sortedb = true) (p : Params K) (hB : 0 < p.B)
    (hact : p.activeRows ≤ Ab.nrows) :
    let ps : Params K := { p with activeRows := p.activeRows * p.B }
    (initScalar (expand p.B Ab) ps).isSome = (initBlock Ab p).isSome ∧
    ∀ ss sb, initScalar (expand p.B Ab) ps = some ss → initBlock Ab p = some sb →
      ss.np = sb.np ∧ ss.Fpp.rows = sb.Fpp.rows ∧ ss.App = sb.App ∧ ss.AS = sb.AS ∧
      (∀ i, ss.Scatter.row i = sb.Scatter.row i) ∧
      ∀ (mkS : CRS K → Vec K → Vec K) (Pf : Vec K → Vec K) (f : Vec K), ss.apply mkS Pf f = sb.apply mkS Pf f := by
  intro ps
  constructor
  · exact init_isSome_expand Ab p hB
  · intro ss sb h1 h2
    obtain rfl := initScalar_some h1
    obtain rfl := initBlock_some h2
    exact scalarState_expand Ab hs p hB hact

-- non-vacuity: the 3×3 block matrix of 2×2 blocks of C18 with the last block row inactive
example : (scalarState (expand 2 C18Ex.Abk) { C18bEx.pB with activeRows := 2 * 2 }).App = (blockState C18Ex.Abk C18bEx.pB).App :=
  ((cpr_drs_scalar_eq_block C18Ex.Abk C18Ex.Abk_ok.1 C18bEx.pB (by decide) C18Ex.Abk_ok.2).2 _ _
    C18bEx.Abk_initS C18bEx.Abk_initB).2.2.1

/-- **the two passes of the constructor agree on the row widths of `App`**, for EVERY scalar input (unsorted rows,
duplicates, any `block_size`, any `active_rows`): the second pass writes exactly as many entries into row `ip` as the
first pass counted. -/
theorem cpr_drs_app_widths_consistent (A : CRS K) (p : Params K) :
    (scalarState A p).appWidths =
      (List.range (scalarState A p).np).map (fun ip => ((scalarState A p).App.row ip).length) :=
  scalarState_widths A p

-- non-vacuity: both block rows of the example have two active blocks
example : (scalarState C18bEx.Ad C18bEx.pD).appWidths = [2, 2] := by decide +kernel
example : (scalarState C18bEx.Ad C18bEx.pD).appWidths =
    (List.range (scalarState C18bEx.Ad C18bEx.pD).np).map (fun ip => ((scalarState C18bEx.Ad C18bEx.pD).App.row ip).length) :=
  cpr_drs_app_widths_consistent C18bEx.Ad C18bEx.pD

end drs

section ordered
variable {K : Type} [Field K] [LinearOrder K] [IsStrictOrderedRing K]

/-- **the weights are the dynamic row-sum criteria evaluated on the matrix entries** (scalar input, rows with strictly
increasing columns, `q` active block rows): the weight of scalar row `i` of block row `ip` is `0` iff `i > 0` and
the row is not diagonally dominant in the pressure column, `A(ip·B+i, ip·B) < eps_dd · Σ_{jp ≠ ip} |A(ip·B+i, jp·B)|`, or
the pressure equation hardly sees component `i`, `Σ_jp |A(ip·B, jp·B+i)| < eps_ps · |A(ip·B, ip·B)|`; otherwise it is the
user weight `weights[ip·B+i]` (`1` when no weights are given). -/
theorem cpr_drs_weights (A : CRS K) (hs : A.sortedb = true) (p : Params K) (q : Nat) (hB : 0 < p.B)
    (hN : (if p.activeRows = 0 then A.nrows else p.activeRows) = q * p.B) (st : State K)
    (hst : initScalar A p = some st) (ip : Nat) (hip : ip < q) (i : Nat) (hi : i < p.B) :
    st.Fpp.get ip (ip * p.B + i)
      = if 0 < i ∧
            (A.get (ip * p.B + i) (ip * p.B)
                < p.epsDD * ∑ jp ∈ range q, (if jp ≠ ip then |A.get (ip * p.B + i) (jp * p.B)| else 0) ∨
             ∑ jp ∈ range q, |A.get (ip * p.B) (jp * p.B + i)| < p.epsPS * |A.get (ip * p.B) (ip * p.B)|)
        then 0
        else if p.weights.isEmpty then 1 else p.weights.getD (ip * p.B + i) 0 := by
  obtain rfl := initScalar_some hst
  rw [scalarState_Fpp_get A p q hB hN ip hip i hi, passRow0_weight A hs p q hB ip hip true i hi]
  unfold drsWeight wDia wOff wTop
  simp only [absK_eq_abs, Nat.add_zero]

-- non-vacuity: in block row 0 of the example the second equation is switched off (`1 < 1/5 · 6`)
example : (scalarState C18bEx.Ad C18bEx.pD).Fpp.get 0 (0 * C18bEx.pD.B + 1) = 0 := by decide +kernel
example : (scalarState C18bEx.Ad C18bEx.pD).Fpp.get 0 (0 * C18bEx.pD.B + 1)
    = if 0 < 1 ∧
          (C18bEx.Ad.get (0 * C18bEx.pD.B + 1) (0 * C18bEx.pD.B)
              < C18bEx.pD.epsDD * ∑ jp ∈ range 2, (if jp ≠ 0 then |C18bEx.Ad.get (0 * C18bEx.pD.B + 1) (jp * C18bEx.pD.B)| else 0) ∨
           ∑ jp ∈ range 2, |C18bEx.Ad.get (0 * C18bEx.pD.B) (jp * C18bEx.pD.B + 1)|
              < C18bEx.pD.epsPS * |C18bEx.Ad.get (0 * C18bEx.pD.B) (0 * C18bEx.pD.B)|)
      then 0
      else if C18bEx.pD.weights.isEmpty then 1 else C18bEx.pD.weights.getD (0 * C18bEx.pD.B + 1) 0 :=
  cpr_drs_weights C18bEx.Ad C18bEx.Ad_ok.1 C18bEx.pD 2 (by decide) C18bEx.Ad_ok.2 _ C18bEx.Ad_init 0 (by decide) 1 (by decide)

/-- the pressure equation itself (scalar row 0 of every block row) is never switched off -/
theorem cpr_drs_weight_first_row (A : CRS K) (hs : A.sortedb = true) (p : Params K) (q : Nat) (hB : 0 < p.B)
    (hN : (if p.activeRows = 0 then A.nrows else p.activeRows) = q * p.B) (st : State K)
    (hst : initScalar A p = some st) (ip : Nat) (hip : ip < q) :
    st.Fpp.get ip (ip * p.B) = if p.weights.isEmpty then 1 else p.weights.getD (ip * p.B) 0 := by
  have := cpr_drs_weights A hs p q hB hN st hst ip hip 0 hB
  simpa using this

example : (scalarState C18bEx.Ad C18bEx.pD).Fpp.get 1 (1 * C18bEx.pD.B) = 1 := by
  rw [cpr_drs_weight_first_row C18bEx.Ad C18bEx.Ad_ok.1 C18bEx.pD 2 (by decide) C18bEx.Ad_ok.2 _ C18bEx.Ad_init 1 (by decide)]
  rfl

/-- **what the weighting reduces to for zero thresholds**: with `eps_dd = eps_ps = 0` and non-negative pressure-column
entries `A(ip·B+i, ip·B) ≥ 0` in the diagonal blocks, no criterion fires — every weight is the user weight (`1` without
`weights`) and the pressure matrix is the plain weighted SUM of the scalar rows of each block row,
`App(ip, jp) = Σ_{i<B} w_i · A(ip·B+i, jp·B)`.  (This is the row-sum weighting; the quasi-IMPES weighting of `cpr` —
first row of the inverse diagonal block — is not reached by any choice of thresholds, see `cpr_drs_differs_from_cpr`.) -/
theorem cpr_drs_weights_eq_rowsum_when_eps_zero (A : CRS K) (hs : A.sortedb = true) (p : Params K) (q : Nat)
    (hB : 0 < p.B) (hN : (if p.activeRows = 0 then A.nrows else p.activeRows) = q * p.B) (st : State K)
    (hst : initScalar A p = some st) (hdd : p.epsDD = 0) (hps : p.epsPS = 0)
    (hpos : ∀ ip, ip < q → ∀ i, i < p.B → 0 ≤ A.get (ip * p.B + i) (ip * p.B)) :
    (∀ ip, ip < q → ∀ i, i < p.B →
      st.Fpp.get ip (ip * p.B + i) = if p.weights.isEmpty then 1 else p.weights.getD (ip * p.B + i) 0) ∧
    (p.weights.isEmpty = true → ∀ ip jp, ip < q → jp < q →
      st.App.get ip jp = ∑ i ∈ range p.B, A.get (ip * p.B + i) (jp * p.B)) := by
  have hw : ∀ ip, ip < q → ∀ i, i < p.B →
      st.Fpp.get ip (ip * p.B + i) = if p.weights.isEmpty then 1 else p.weights.getD (ip * p.B + i) 0 := by
    intro ip hip i hi
    rw [cpr_drs_weights A hs p q hB hN st hst ip hip i hi, hdd, hps, zero_mul, zero_mul, if_neg]
    rintro ⟨_, h | h⟩
    · exact absurd h (not_lt.2 (hpos ip hip i hi))
    · exact absurd h (not_lt.2 (Finset.sum_nonneg (fun _ _ => abs_nonneg _)))
  refine ⟨hw, ?_⟩
  intro hemp ip jp hip hjp
  rw [(cpr_drs_formula A hs p q hB hN st hst).2 ip jp hip hjp]
  apply Finset.sum_congr rfl
  intro i hi
  rw [hw ip hip i (Finset.mem_range.1 hi), if_pos hemp, one_mul]

-- non-vacuity: the example matrix has non-negative first-column entries in its diagonal blocks
example : (scalarState C18bEx.Ad C18bEx.pZ).App.get 0 1 = ∑ i ∈ range C18bEx.pZ.B, C18bEx.Ad.get (0 * C18bEx.pZ.B + i) (1 * C18bEx.pZ.B) :=
  (cpr_drs_weights_eq_rowsum_when_eps_zero C18bEx.Ad C18bEx.Ad_ok.1 C18bEx.pZ 2 (by decide) C18bEx.Ad_ok.2 _
    C18bEx.Ad_initZ rfl rfl C18bEx.Ad_nonneg).2 rfl 0 1 (by decide) (by decide)

/-- … while a NEGATIVE pressure-column entry in the diagonal block switches its row off even for `eps_dd = 0`
(`a_dia[i] < 0 · a_off[i]`): zero thresholds are not "criteria disabled" -/
theorem cpr_drs_weight_negative_dia (A : CRS K) (hs : A.sortedb = true) (p : Params K) (q : Nat)
    (hB : 0 < p.B) (hN : (if p.activeRows = 0 then A.nrows else p.activeRows) = q * p.B) (st : State K)
    (hst : initScalar A p = some st) (hdd : p.epsDD = 0) (ip : Nat) (hip : ip < q) (i : Nat) (hi : i < p.B) (h0 : 0 < i)
    (hneg : A.get (ip * p.B + i) (ip * p.B) < 0) :
    st.Fpp.get ip (ip * p.B + i) = 0 := by
  rw [cpr_drs_weights A hs p q hB hN st hst ip hip i hi, hdd, zero_mul, if_pos ⟨h0, Or.inl hneg⟩]

example : (scalarState C18bEx.An C18bEx.pZ).Fpp.get 0 (0 * C18bEx.pZ.B + 1) = 0 :=
  cpr_drs_weight_negative_dia C18bEx.An C18bEx.An_ok.1 C18bEx.pZ 2 (by decide) C18bEx.An_ok.2 _ C18bEx.An_initZ rfl 0
    (by decide) 1 (by decide) (by decide) (by decide +kernel)

end ordered

/-- `cpr_drs` is not `cpr` with other thresholds: on the 4×4 example of C18 (`block_size = 2`) the zero-threshold row-sum
weights `(1, 1)` differ from `cpr`'s first row of the inverse diagonal block `(3/11, -1/11)` -/
theorem cpr_drs_differs_from_cpr :
    (scalarState C18Ex.Ac C18bEx.pZ).Fpp.row 0 = [(0, 1), (1, 1)] ∧
    (CPR.initScalar C18Ex.Ac 2 0).Fpp.row 0 = [(0, 3 / 11), (1, -1 / 11)] := by
  constructor <;> decide +kernel

end Amgcl.C18b
