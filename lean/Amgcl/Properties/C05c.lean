import Amgcl.Proofs.SolverBiCGStabLeft
import Amgcl.Proofs.KrylovGMRESOuter
import Amgcl.Proofs.KrylovFGMRESRestart
import Amgcl.Proofs.KrylovGMRESZero
import Amgcl.Proofs.KrylovGMRESRestartExample
import Mathlib.Algebra.Order.Field.Rat
/-!
# C05 (third part) — BiCGStab with an exact preconditioner on BOTH sides; restarted GMRES as a whole; breakdown

* `bicgstab_exact_precond_left`, `bicgstab_exact_precond`: with an exact preconditioner BiCGStab makes exactly one pass and
  returns the exact solution — left preconditioning (needs the left inverse `P(A u) = u` for the recurrence and the right
  inverse `A(P v) = v` for the conclusion `f − A x = 0`), and the statement for both sides and both settings of
  `check_after`.
* `gmres_breakdown_ends_cycle`: a breakdown of the Arnoldi process (`H̃(i+1,i) = ‖w_i‖ = 0`) makes the generated rotation the
  identity, `s_{i+1} = 0`, `inner_res = 0`; for a threshold that is not negative the inner loop ends with that pass, so a
  breakdown can only be met in the LAST pass of a restart cycle.
* `gmres_least_squares_last`: the least-squares identity of C05b WITHOUT a no-breakdown hypothesis on the last pass.
* `gmres_cycle_monotone`: one restart cycle of the model — whatever its pass count, breakdown or not — does not increase the
  squared norm of the measured residual `Rf x` (`f − A x` right, `P(f − A x)` left).
* `gmres_restart_monotone`: the call returns a member `x⁽ᵏ⁾` of the sequence of restart states, and
  `‖Rf x⁽ʲ⁾‖² ≤ ‖Rf x⁽ⁱ⁾‖²` for `i ≤ j ≤ k`, for every threshold `eps ≥ 0` (with `eps = 0` a cycle can be entered with
  `norm_r = 0`; it does not move `x`); in particular `‖Rf x‖² ≤ ‖Rf x₀‖²` for the returned `x`
  (`gmres_restart_monotone_call`), and the reported `norm_r` does not increase either (`gmres_restart_monotone_norm`).
* `gmres_breakdown_exact`: when the Arnoldi process breaks down in the last pass of a cycle and the preconditioned operator
  `A Pl` / `Pl A` is injective, the iterate the cycle returns has measured residual EXACTLY zero, the true residual `f − A x` is
  the zero vector, the next `norm_r` is `0` and the call stops there.

* `fgmres_cycle_monotone`, `fgmres_restart_monotone`, `fgmres_restart_monotone_call`, `fgmres_breakdown_exact`: the same for
  FGMRES with an ARBITRARY preconditioner function (only `(P u).size = n`; true residual `f − A x`); for the breakdown
  statement `A` injective and the stored `z_0..z_m` linearly independent (automatic for an injective linear preconditioner).

Hypotheses as in C05b: ordered field, `stdIp`, the preconditioner denotes a fixed linear map (`PDenotes`), the square root
exact on the numbers the cycles apply it to (`RootsExact`, implied by `hsqrt : ∀ x ≥ 0, sqrt x · sqrt x = x`; decidable on
rational inputs — the examples use the executable `rsqrt`).
-/
namespace Amgcl.C05c
open Amgcl Amgcl.Solver Amgcl.Krylov Amgcl.Energy.Bridge Matrix
set_option linter.unusedSectionVars false
set_option linter.unusedVariables false

/-! ## BiCGStab with an exact preconditioner, left preconditioning -/
section bicgstab
variable {K : Type} [Field K] [DecidableEq K] [LT K] [DecidableLT K]

/-- **BiCGStab (LEFT preconditioning, no `check_after`) with an exact preconditioner** — `P` any function with
`P(A u) = u` for `u` of length `ncols` (left inverse: makes `v = P A p = p`, `α = 1`, `s = 0` in the first pass) and
`A(P v) = v` for `v` of length `nrows` (right inverse: makes the returned `x = x₀ + P(f − A x₀)` a solution): the call makes
exactly one pass (exit after the half step), reports residual `0`, and `f − A x = 0`.  Here `r₀ = P(f − A x₀)` is the
preconditioned residual the method carries. -/
theorem bicgstab_exact_precond_left (prm : BiCGStab.Params K) (hside : prm.pside = .left)
    (hca : prm.checkAfter = false) (ip : Vec K → Vec K → K) (sqrt : K → K) (eps : K) (A : CRS K)
    (hA : A.WF) (P : Vec K → Vec K) (hP : ∀ v, (P v).size = A.ncols)
    (hAP : ∀ v z, v.size = A.nrows → spmv 1 A (P v) 0 z = v)
    (hPA : ∀ u z, u.size = A.ncols → P (spmv 1 A u 0 z) = u)
    (ws : BiCGStab.Work K) (f x0 : Vec K) (nf : K) (hp : prologue prm.nsSearch ip sqrt eps f = .go nf)
    (hne : ip (P (residual f A x0)) (P (residual f A x0)) ≠ 0) (hmax : 1 ≤ prm.maxiter)
    (hstart : BiCGStab.epsTol prm nf < nrm ip sqrt (P (residual f A x0)))
    (hz : nrm ip sqrt (vclear A.ncols) = 0) (heps : ¬ BiCGStab.epsTol prm nf < 0) :
    ∃ x w, BiCGStab.solve prm ip sqrt eps A P ws f x0 = .ok (1, 0, x, w) ∧
      residual f A x = vclear A.nrows := by
  have hstart' : BiCGStab.epsTol prm nf < (BiCGStab.init prm ip sqrt A P ws f x0 (BiCGStab.epsTol prm nf)).res := by
    rw [BiCGStab.init_res, hca, hside]; exact hstart
  obtain ⟨st, hfin, h1, h2, h4⟩ := BiCGStab.exact_final_both prm ip sqrt A P hP hAP (fun _ => hPA) ws f x0 nf
    (by rw [hside]; exact hne) hmax hstart'
    (by rw [hside]; show nrm ip sqrt (vclear (P (residual f A x0)).size) = 0; rw [hP]; exact hz) heps
  refine ⟨st.x, st.w, ?_, ?_⟩
  · rw [BiCGStab.solve, Run.toExcept_ok, BiCGStab.run_go _ _ _ _ _ _ _ _ _ nf hp, hfin]
    simp only [BiCGStab.repRes_of_not_ca prm ip sqrt st hca, h1, h2, zero_div]
  · rw [h4, ← paired_update_inv f A hA 1 (P (residual f A x0)) x0 x0 (by rw [hP]),
      hAP _ _ (residual_size' f A x0), axpby_cancel, residual_size']

/-- **BiCGStab with an exact preconditioner, both sides, `check_after` on or off.**  `r₀ = Rf side P f A x₀` is the vector
the method carries (`f − A x₀` right, `P(f − A x₀)` left); `hPA` is needed for left preconditioning only; the loop is entered
when `eps < res` for the value `res` it starts with (`‖r₀‖`, or the placeholder `2·eps` with `check_after`).  One pass,
reported residual `0`, `f − A x = 0`. -/
theorem bicgstab_exact_precond (prm : BiCGStab.Params K) (ip : Vec K → Vec K → K) (sqrt : K → K) (eps : K) (A : CRS K)
    (hA : A.WF) (P : Vec K → Vec K) (hP : ∀ v, (P v).size = A.ncols)
    (hAP : ∀ v z, v.size = A.nrows → spmv 1 A (P v) 0 z = v)
    (hPA : prm.pside = .left → ∀ u z, u.size = A.ncols → P (spmv 1 A u 0 z) = u)
    (ws : BiCGStab.Work K) (f x0 : Vec K) (nf : K) (hp : prologue prm.nsSearch ip sqrt eps f = .go nf)
    (hne : ip (BiCGStab.Rf prm.pside P f A x0) (BiCGStab.Rf prm.pside P f A x0) ≠ 0) (hmax : 1 ≤ prm.maxiter)
    (hstart : BiCGStab.epsTol prm nf
      < (if prm.checkAfter then two * BiCGStab.epsTol prm nf else nrm ip sqrt (BiCGStab.Rf prm.pside P f A x0)))
    (hz : nrm ip sqrt (vclear (BiCGStab.Rf prm.pside P f A x0).size) = 0) (heps : ¬ BiCGStab.epsTol prm nf < 0) :
    ∃ x w, BiCGStab.solve prm ip sqrt eps A P ws f x0 = .ok (1, 0, x, w) ∧
      residual f A x = vclear A.nrows := by
  obtain ⟨st, hfin, h1, h2, h4⟩ := BiCGStab.exact_final_both prm ip sqrt A P hP hAP hPA ws f x0 nf hne hmax
    (by rw [BiCGStab.init_res]; exact hstart) hz heps
  refine ⟨st.x, st.w, ?_, ?_⟩
  · rw [BiCGStab.solve, Run.toExcept_ok, BiCGStab.run_go _ _ _ _ _ _ _ _ _ nf hp, hfin]
    simp only [BiCGStab.repRes_of_iter_ne prm ip sqrt st (by rw [h1]; exact Nat.one_ne_zero), h1, h2, zero_div]
  · rw [h4, ← paired_update_inv f A hA 1 (P (residual f A x0)) x0 x0 (by rw [hP]),
      hAP _ _ (residual_size' f A x0), axpby_cancel, residual_size']

end bicgstab

/-! ### non-vacuity over `ℚ`: the exact matrix preconditioner `M₀ = A₀⁻¹` of the non-symmetric `A₀ = [[2,1],[1,1]]`,
LEFT preconditioning, `f = (1,3)`, `x₀ = (1,0)` -/
section nonvacuousBicgstab

private def A₀ : CRS ℚ := ⟨2, #[[(0, 2), (1, 1)], [(0, 1), (1, 1)]]⟩
private def M₀ : CRS ℚ := ⟨2, #[[(0, 1), (1, -1)], [(0, -1), (1, 2)]]⟩    -- = A₀⁻¹
private def P₀ : Vec ℚ → Vec ℚ := fun v => spmv 1 M₀ v 0 #[]
private def bPrm : BiCGStab.Params ℚ :=
  { maxiter := 5, tol := 1/100, abstol := 0, nsSearch := false, pside := .left, checkAfter := false }

/-- `hPA`: `M₀ (A₀ u) = u` for every `u` of length 2 -/
example : ∀ u z : Vec ℚ, u.size = A₀.ncols → P₀ (spmv 1 A₀ u 0 z) = u := by
  intro u z hu
  have h2 : u.size = 2 := hu
  apply Vec.ext_getD (0 : ℚ)
  · show (spmv 1 M₀ _ 0 #[]).size = _; rw [spmv_size']; exact hu.symm
  · intro i hi
    have hi2 : i < 2 := by
      have : (P₀ (spmv 1 A₀ u 0 z)).size = 2 := by show (spmv 1 M₀ _ 0 #[]).size = 2; rw [spmv_size']; rfl
      rw [this] at hi; exact hi
    have e0 : (spmv 1 A₀ u 0 z).getD 0 0 = 2 * u.getD 0 0 + u.getD 1 0 := by
      rw [spmv_getD _ _ _ _ _ _ (by decide : 0 < A₀.nrows)]
      simp [A₀, CRS.row, rowDot]
    have e1 : (spmv 1 A₀ u 0 z).getD 1 0 = u.getD 0 0 + u.getD 1 0 := by
      rw [spmv_getD _ _ _ _ _ _ (by decide : 1 < A₀.nrows)]
      simp [A₀, CRS.row, rowDot]
    show (spmv 1 M₀ (spmv 1 A₀ u 0 z) 0 #[]).getD i 0 = _
    rw [spmv_getD _ _ _ _ _ _ (show i < M₀.nrows from hi2)]
    simp only [Array.getD_eq_getD_getElem?] at e0 e1
    match i, hi2 with
    | 0, _ => simp [M₀, CRS.row, rowDot, e0, e1]; ring
    | 1, _ => simp [M₀, CRS.row, rowDot, e0, e1]; ring

/-- the remaining hypotheses of `bicgstab_exact_precond_left` on this input (`sqrt := id`, `ip := stdIp`, `eps := 0`):
`⟨r₀,r₀⟩ ≠ 0`, the loop is entered, `‖0‖ = 0`, `eps ≥ 0` -/
example : stdIp (P₀ (residual #[1, 3] A₀ #[1, 0])) (P₀ (residual #[1, 3] A₀ #[1, 0])) ≠ 0 ∧
    BiCGStab.epsTol bPrm (nrm stdIp id #[1, 3]) < nrm stdIp id (P₀ (residual #[1, 3] A₀ #[1, 0])) ∧
    nrm stdIp id (vclear A₀.ncols) = 0 ∧ ¬ BiCGStab.epsTol bPrm (nrm stdIp id #[1, 3]) < 0 := by decide +kernel

/-- … and the conclusion, evaluated independently by the kernel: one pass, reported residual `0`, exact solution -/
example : ∃ x w, BiCGStab.solve bPrm stdIp id 0 A₀ P₀ (BiCGStab.Work.fresh 2) #[1, 3] #[1, 0] = .ok (1, 0, x, w) ∧
    residual #[1, 3] A₀ x = vclear A₀.nrows := by
  have h : (match BiCGStab.solve bPrm stdIp id 0 A₀ P₀ (BiCGStab.Work.fresh 2) #[1, 3] #[1, 0] with
      | .ok (it, res, x, _) => decide (it = 1 ∧ res = 0 ∧ residual #[1, 3] A₀ x = vclear A₀.nrows)
      | _ => false) = true := by decide +kernel
  split at h
  · rename_i it res x w heq
    obtain ⟨h1, h2, h3⟩ := of_decide_eq_true h
    subst h1 h2
    exact ⟨x, w, heq, h3⟩
  · cases h

/-- the same with `check_after = true` (hypothesis `hstart` of `bicgstab_exact_precond`: `eps < 2·eps`) -/
example : (match BiCGStab.solve { bPrm with checkAfter := true } stdIp id 0 A₀ P₀ (BiCGStab.Work.fresh 2) #[1, 3] #[1, 0] with
      | .ok (it, res, x, _) => decide (it = 1 ∧ res = 0 ∧ residual #[1, 3] A₀ x = vclear A₀.nrows)
      | _ => false) = true ∧
    BiCGStab.epsTol { bPrm with checkAfter := true } (nrm stdIp id #[1, 3])
      < two * BiCGStab.epsTol { bPrm with checkAfter := true } (nrm stdIp id #[1, 3]) := by decide +kernel

end nonvacuousBicgstab

/-! ## Restarted GMRES -/
section gmres
variable {K : Type} [Field K] [LinearOrder K] [IsStrictOrderedRing K]

/-- **breakdown of the Arnoldi process ends the restart cycle.**  If pass `i` of a cycle computes `H̃(i+1,i) = ‖w_i‖ = 0`, the
rotation it generates is the identity, `s_{i+1} = 0`, `s_i` is unchanged and `inner_res = 0` (every `sqrt`, no hypothesis);
consequently, for a threshold that is not negative, every pass of the model's inner loop except the last one is free of
breakdown. -/
theorem gmres_breakdown_ends_cycle (prm : GMRES.Params K) (sqrt : K → K) (A : CRS K) (P : Vec K → Vec K)
    (st : GMRES.St K) :
    (∀ i, arnoldiNorm prm.pside sqrt A P st i = 0 →
      (innerPass prm.pside sqrt A P st (i + 1)).w.h.s.get (i + 1) = 0 ∧
      (innerPass prm.pside sqrt A P st (i + 1)).w.h.s.get i = (innerPass prm.pside sqrt A P st i).w.h.s.get i ∧
      (innerPass prm.pside sqrt A P st (i + 1)).innerRes = 0) ∧
    ∀ epsT : K, ¬ epsT < 0 → ∀ i, i + 1 < (GMRES.inner prm stdIp sqrt A P epsT st).j →
      arnoldiNorm prm.pside sqrt A P st i ≠ 0 :=
  ⟨fun i hb => breakdown_innerRes prm.pside sqrt A P st i hb,
   fun epsT heps i hi => inner_no_early_breakdown prm sqrt A P epsT heps st i hi⟩

variable (n : ℕ) (A : CRS K) (hA : A.WF) (hn : A.nrows = n) (hm : A.ncols = n)
  (P : Vec K → Vec K) (Pl : (Fin n → K) →ₗ[K] (Fin n → K)) (hP : PDenotes n P Pl) (side : Side) (sqrt : K → K)
  (f : Vec K)
include hA hn hm hP

/-- **least-squares identity, breakdown allowed in the last pass**: the statement of `C05b.gmres_least_squares` for
`j = m + 1` passes, assuming no breakdown in the passes `i < m` only. -/
theorem gmres_least_squares_last (st : GMRES.St K) (hst : CycleStart side sqrt A P f st) (m : ℕ)
    (hroots : RootsExact side sqrt A P st (m + 1))
    (hnb : ∀ i, i < m → arnoldiNorm side sqrt A P st i ≠ 0) (y : ℕ → K) :
    resOf side (matOf A n n) Pl (vecOf n f) (vecOf n st.x
        + Xl side Pl (∑ i ∈ Finset.range (m + 1), y i • vecOf n ((innerPass side sqrt A P st (m + 1)).w.v.get i)))
      ⬝ᵥ resOf side (matOf A n n) Pl (vecOf n f) (vecOf n st.x
        + Xl side Pl (∑ i ∈ Finset.range (m + 1), y i • vecOf n ((innerPass side sqrt A P st (m + 1)).w.v.get i)))
    = ∑ a ∈ Finset.range (m + 1), ((innerPass side sqrt A P st (m + 1)).w.h.s.get a
          - ∑ i ∈ Finset.Ico a (m + 1), (innerPass side sqrt A P st (m + 1)).w.h.H.get a i * y i)
        * ((innerPass side sqrt A P st (m + 1)).w.h.s.get a
          - ∑ i ∈ Finset.Ico a (m + 1), (innerPass side sqrt A P st (m + 1)).w.h.H.get a i * y i)
      + (innerPass side sqrt A P st (m + 1)).w.h.s.get (m + 1) * (innerPass side sqrt A P st (m + 1)).w.h.s.get (m + 1) :=
  cycle_ls_last n A hA hn hm P Pl hP side sqrt f st hst m hroots hnb y

/-- **one restart cycle of the model does not increase the residual**: for a state `st` at the `break` test of the outer
loop with non-zero residual, a threshold that is not negative and exact roots on the numbers the cycle meets,
`‖Rf x'‖² ≤ ‖Rf x‖²` for the `x'` the cycle returns — whatever the number of passes of its inner loop, with or without
breakdown. -/
theorem gmres_cycle_monotone (prm : GMRES.Params K) (hside : prm.pside = side) (epsT : K) (heps : ¬ epsT < 0)
    (st : GMRES.St K) (hst : CycleStart side sqrt A P f st)
    (hroots : RootsExact side sqrt A P st (GMRES.inner prm stdIp sqrt A P epsT st).j) :
    stdIp (GMRES.Rf side P f A (GMRES.cycle prm stdIp sqrt A P epsT st).x)
        (GMRES.Rf side P f A (GMRES.cycle prm stdIp sqrt A P epsT st).x)
      ≤ stdIp (GMRES.Rf side P f A st.x) (GMRES.Rf side P f A st.x) :=
  cycle_monotone n A hA hn hm P Pl hP side sqrt f st hst prm hside epsT heps hroots

/-- **the restarted sequence as a whole is monotone.**  A call that does not return early returns the state
`outerPass … init k` after `k ≤ maxiter` restart cycles, `k` the first index whose stopping test succeeds; and for a
threshold that is NOT NEGATIVE and exact roots in the cycles made, the squared norms of the measured residuals at the
restarts are non-increasing: `‖Rf x⁽ʲ⁾‖² ≤ ‖Rf x⁽ⁱ⁾‖²` for `i ≤ j ≤ k`.  (A cycle entered with `norm_r = 0` — possible for
`eps = 0` only — does not move `x`: `Proofs/KrylovGMRESZero.lean`; no root hypothesis is needed for such a cycle.) -/
theorem gmres_restart_monotone (prm : GMRES.Params K) (hside : prm.pside = side) (eps : K) (ws : GMRES.Work K)
    (x0 : Vec K) (nf : K) (hp : prologueA prm.nsSearch stdIp sqrt eps f = .go nf) (heps : ¬ GMRES.epsTol prm nf < 0)
    (hroots : ∀ i, i < prm.maxiter →
      GMRES.stop prm.maxiter (GMRES.epsTol prm nf)
        (outerPass prm sqrt A P f (GMRES.epsTol prm nf) (GMRES.init prm stdIp sqrt A P ws f x0) i) = false →
      (outerPass prm sqrt A P f (GMRES.epsTol prm nf) (GMRES.init prm stdIp sqrt A P ws f x0) i).normR ≠ 0 →
      RootsExact side sqrt A P (outerPass prm sqrt A P f (GMRES.epsTol prm nf) (GMRES.init prm stdIp sqrt A P ws f x0) i)
        (GMRES.inner prm stdIp sqrt A P (GMRES.epsTol prm nf)
          (outerPass prm sqrt A P f (GMRES.epsTol prm nf) (GMRES.init prm stdIp sqrt A P ws f x0) i)).j) :
    ∃ k, k ≤ prm.maxiter ∧
      GMRES.run prm stdIp sqrt eps A P ws f x0
        = (.ok ((outerPass prm sqrt A P f (GMRES.epsTol prm nf) (GMRES.init prm stdIp sqrt A P ws f x0) k).iter,
                (outerPass prm sqrt A P f (GMRES.epsTol prm nf) (GMRES.init prm stdIp sqrt A P ws f x0) k).normR / nf),
           (outerPass prm sqrt A P f (GMRES.epsTol prm nf) (GMRES.init prm stdIp sqrt A P ws f x0) k).x,
           (outerPass prm sqrt A P f (GMRES.epsTol prm nf) (GMRES.init prm stdIp sqrt A P ws f x0) k).w) ∧
      (∀ i, i < k → GMRES.stop prm.maxiter (GMRES.epsTol prm nf)
        (outerPass prm sqrt A P f (GMRES.epsTol prm nf) (GMRES.init prm stdIp sqrt A P ws f x0) i) = false) ∧
      ∀ i j, i ≤ j → j ≤ k →
        stdIp (GMRES.Rf side P f A
              (outerPass prm sqrt A P f (GMRES.epsTol prm nf) (GMRES.init prm stdIp sqrt A P ws f x0) j).x)
            (GMRES.Rf side P f A
              (outerPass prm sqrt A P f (GMRES.epsTol prm nf) (GMRES.init prm stdIp sqrt A P ws f x0) j).x)
          ≤ stdIp (GMRES.Rf side P f A
              (outerPass prm sqrt A P f (GMRES.epsTol prm nf) (GMRES.init prm stdIp sqrt A P ws f x0) i).x)
            (GMRES.Rf side P f A
              (outerPass prm sqrt A P f (GMRES.epsTol prm nf) (GMRES.init prm stdIp sqrt A P ws f x0) i).x) := by
  subst hside
  obtain ⟨k, hk, hfin, hstop, _⟩ := final_eq_outerPass prm sqrt A P ws f x0 nf
  refine ⟨k, hk, ?_, hstop, fun i j hij hj => ?_⟩
  · rw [GMRES.run_go _ _ _ _ _ _ _ _ _ nf hp, hfin]
  · exact outerPass_antitone' n A hA hn hm P Pl hP prm sqrt f _ heps _ (GMRES.head_inv _ _ _ _ _ _ _) k
      (fun i hi hne => hroots i (by omega) (hstop i hi) hne) i j hij hj

/-- … in particular the `x` a call returns has `‖Rf x‖² ≤ ‖Rf x₀‖²`; stated with the global root hypothesis `hsqrt`. -/
theorem gmres_restart_monotone_call (prm : GMRES.Params K) (hside : prm.pside = side) (eps : K) (ws : GMRES.Work K)
    (x0 : Vec K) (nf : K) (hp : prologueA prm.nsSearch stdIp sqrt eps f = .go nf) (heps : ¬ GMRES.epsTol prm nf < 0)
    (hsqrt : ∀ x, 0 ≤ x → sqrt x * sqrt x = x)
    (it : ℕ) (res : K) (x : Vec K) (w : GMRES.Work K)
    (h : GMRES.solve prm stdIp sqrt eps A P ws f x0 = .ok (it, res, x, w)) :
    stdIp (GMRES.Rf side P f A x) (GMRES.Rf side P f A x) ≤ stdIp (GMRES.Rf side P f A x0) (GMRES.Rf side P f A x0) := by
  obtain ⟨k, _, hrun, _, hmono⟩ := gmres_restart_monotone n A hA hn hm P Pl hP side sqrt f prm hside eps ws x0 nf hp heps
    (fun i _ _ _ => rootsExact_of_hsqrt side sqrt hsqrt A P _ _)
  rw [GMRES.solve, hrun] at h
  simp only [Run.toExcept, Except.ok.injEq, Prod.mk.injEq] at h
  have h0 := hmono 0 k (Nat.zero_le k) (Nat.le_refl k)
  rw [h.2.2.1] at h0
  have hx0 : (outerPass prm sqrt A P f (GMRES.epsTol prm nf) (GMRES.init prm stdIp sqrt A P ws f x0) 0).x = x0 :=
    GMRES.init_x prm stdIp sqrt A P ws f x0
  rw [hx0] at h0
  exact h0

/-- **the reported `norm_r` does not increase from restart to restart** (model's own norm `nrmA`): if the root is exact
also on `⟨r,r⟩` of the state after the cycle, `norm_r' ≤ norm_r`. -/
theorem gmres_restart_monotone_norm (prm : GMRES.Params K) (hside : prm.pside = side) (epsT : K) (heps : ¬ epsT < 0)
    (st : GMRES.St K) (hst : CycleStart side sqrt A P f st)
    (hroots : RootsExact side sqrt A P st (GMRES.inner prm stdIp sqrt A P epsT st).j)
    (hroot' : RootAt sqrt (stdIp (GMRES.Rf side P f A (GMRES.cycle prm stdIp sqrt A P epsT st).x)
      (GMRES.Rf side P f A (GMRES.cycle prm stdIp sqrt A P epsT st).x))) :
    (GMRES.head side stdIp sqrt A P f (GMRES.cycle prm stdIp sqrt A P epsT st)).normR ≤ st.normR := by
  have h := cycle_monotone n A hA hn hm P Pl hP side sqrt f st hst prm hside epsT heps hroots
  rw [← cycleStart_normR_sq n A hA hn hm P Pl hP side sqrt f st hst hroots.r0] at h
  rw [GMRES.head_normR]
  have h1 := nrmA_sq stdIp sqrt _ hroot'
  rw [← h1] at h
  have hnn : 0 ≤ st.normR := by rw [hst.normR]; unfold nrmA; rw [absK_eq_abs]; exact abs_nonneg _
  have hnn' : 0 ≤ nrmA stdIp sqrt (GMRES.Rf side P f A (GMRES.cycle prm stdIp sqrt A P epsT st).x) := by
    unfold nrmA; rw [absK_eq_abs]; exact abs_nonneg _
  exact (mul_self_le_mul_self_iff hnn' hnn).mpr h

/-- **(lucky) breakdown returns the exact solution.**  Let the inner loop of a restart cycle of the model (non-zero residual
at its start, threshold not negative, exact roots) end after `j` passes with a breakdown in its last pass: `H̃(j,j−1) = 0`, the
next Arnoldi vector cannot be formed.  If the preconditioned operator `T = A Pl` (right) / `Pl A` (left) is injective — `A`
non-singular and the preconditioner well defined — then the `x` the cycle returns has measured residual `Rf x = 0` (the zero
VECTOR), its true residual `f − A x` is the zero vector, the `norm_r` computed next is `0` (root exact on `0`), and for a
positive threshold the call stops at this state. -/
theorem gmres_breakdown_exact (prm : GMRES.Params K) (hside : prm.pside = side) (epsT : K) (heps : ¬ epsT < 0)
    (st : GMRES.St K) (hst : CycleStart side sqrt A P f st)
    (hroots : RootsExact side sqrt A P st (GMRES.inner prm stdIp sqrt A P epsT st).j)
    (hinj : Function.Injective (Tl side (matOf A n n) Pl))
    (hb : arnoldiNorm side sqrt A P st ((GMRES.inner prm stdIp sqrt A P epsT st).j - 1) = 0) :
    GMRES.Rf side P f A (GMRES.cycle prm stdIp sqrt A P epsT st).x = vclear n ∧
    residual f A (GMRES.cycle prm stdIp sqrt A P epsT st).x = vclear n ∧
    (RootAt sqrt 0 →
      (GMRES.head side stdIp sqrt A P f (GMRES.cycle prm stdIp sqrt A P epsT st)).normR = 0 ∧
      (0 < epsT → GMRES.stop prm.maxiter epsT
        (GMRES.head side stdIp sqrt A P f (GMRES.cycle prm stdIp sqrt A P epsT st)) = true)) := by
  subst hside
  have hge := (inner_eq_innerPass prm sqrt A P epsT st).2
  have hnb := inner_no_early_breakdown prm sqrt A P epsT heps st
  obtain ⟨m, hm'⟩ : ∃ m, (GMRES.inner prm stdIp sqrt A P epsT st).j = m + 1 := ⟨_, (Nat.sub_add_cancel hge).symm⟩
  rw [hm'] at hroots hnb hb
  rw [Nat.add_sub_cancel] at hb
  have hRf : GMRES.Rf prm.pside P f A (GMRES.cycle prm stdIp sqrt A P epsT st).x = vclear n := by
    rw [cycle_x, hm']
    exact breakdown_exact n A hA hn hm P Pl hP prm.pside sqrt f st hst m hroots (fun i hi => hnb i (by omega)) hinj hb
  refine ⟨hRf, true_residual_zero n A hA hn hm P Pl hP prm.pside hinj f _ hRf, fun h0 => ?_⟩
  have hz : (GMRES.head prm.pside stdIp sqrt A P f (GMRES.cycle prm stdIp sqrt A P epsT st)).normR = 0 := by
    rw [GMRES.head_normR, hRf]; exact nrmA_vclear sqrt h0 n
  refine ⟨hz, fun hpos => ?_⟩
  unfold GMRES.stop
  rw [hz]
  simp [hpos]

end gmres

/-! ### non-vacuity over `ℚ` with the executable `rsqrt`

Breakdown: `A = [[3,0,1],[4,5,2],[0,0,3]]`, identity preconditioner, right side, `f = (25,0,0)`, `x₀ = 0`, `M = 3`
(`Proofs/KrylovGMRESRestartExample.lean`, namespace `ExB`): breakdown in pass `1`, the cycle makes `2` passes. -/
section nonvacuousBreakdown
open Amgcl.Krylov.ExG Amgcl.Krylov.ExB

/-- the inner loop of the model makes two passes and the second one breaks down: the hypotheses `hroots`, `hb`, `hinj` of
`gmres_breakdown_exact` hold (with `epsT = 1/4`) -/
example : (GMRES.inner prmb stdIp Amgcl.rsqrt Ab Pg (1/4) stb).j = 2 ∧
    arnoldiNorm .right Amgcl.rsqrt Ab Pg stb ((GMRES.inner prmb stdIp Amgcl.rsqrt Ab Pg (1/4) stb).j - 1) = 0 ∧
    arnoldiNorm .right Amgcl.rsqrt Ab Pg stb 0 ≠ 0 := by decide +kernel

/-- `gmres_breakdown_exact` on this input (all hypotheses discharged): the cycle returns the exact solution -/
example : GMRES.Rf .right Pg fg Ab (GMRES.cycle prmb stdIp Amgcl.rsqrt Ab Pg (1/4) stb).x = vclear 3 ∧
    residual fg Ab (GMRES.cycle prmb stdIp Amgcl.rsqrt Ab Pg (1/4) stb).x = vclear 3 := by
  have hj : (GMRES.inner prmb stdIp Amgcl.rsqrt Ab Pg (1/4) stb).j = 2 := by decide +kernel
  have h := gmres_breakdown_exact 3 Ab hAb rfl rfl Pg LinearMap.id hPg .right Amgcl.rsqrt fg prmb rfl (1/4)
    (by decide +kernel) stb hstb (by rw [hj]; exact hrootsb) hinjb (by rw [hj]; exact hbb)
  exact ⟨h.1, h.2.1⟩

/-- independent evaluation by the kernel: the returned `x = (25/3, −20/3, 0)`, `A x = f`, and the whole call makes `2`
iterations and reports `0` -/
example : (GMRES.cycle prmb stdIp Amgcl.rsqrt Ab Pg (1/4) stb).x = #[25/3, -20/3, 0] ∧
    (match GMRES.solve prmb stdIp Amgcl.rsqrt 0 Ab Pg (GMRES.Work.fresh 3) fg xg with
      | .ok (it, res, x, _) => decide (it = 2 ∧ res = 0 ∧ x = #[25/3, -20/3, 0] ∧ residual fg Ab x = vclear 3)
      | _ => false) = true := by decide +kernel

/-- the case `eps = 0` of `gmres_restart_monotone` (a cycle entered with `norm_r = 0`) occurs: with `tol = 0` the call does not
stop at the exact solution (`0 < 0` is false) but keeps cycling on the zero residual until `maxiter = 5`, and `x` stays the
exact solution -/
example : (match GMRES.solve { prmb with tol := 0 } stdIp Amgcl.rsqrt 0 Ab Pg (GMRES.Work.fresh 3) fg xg with
      | .ok (it, res, x, _) => decide (it = 5 ∧ res = 0 ∧ x = #[25/3, -20/3, 0])
      | _ => false) = true := by decide +kernel

/-- `gmres_breakdown_ends_cycle` is not vacuous here: pass `1` has `H̃(2,1) = 0`, and indeed `s₂ = 0`, `inner_res = 0` -/
example : (innerPass .right Amgcl.rsqrt Ab Pg stb 2).w.h.s.get 2 = 0 ∧ (innerPass .right Amgcl.rsqrt Ab Pg stb 2).innerRes = 0 :=
  let h := (gmres_breakdown_ends_cycle prmb Amgcl.rsqrt Ab Pg stb).1 1 hbb
  ⟨h.1, h.2.2⟩

/-- `gmres_least_squares_last` for `m = 1` on this input (breakdown in the last pass) -/
example (y : ℕ → ℚ) :
    resOf .right (matOf Ab 3 3) LinearMap.id (vecOf 3 fg) (vecOf 3 stb.x
        + Xl .right LinearMap.id (∑ i ∈ Finset.range 2, y i • vecOf 3 ((innerPass .right Amgcl.rsqrt Ab Pg stb 2).w.v.get i)))
      ⬝ᵥ resOf .right (matOf Ab 3 3) LinearMap.id (vecOf 3 fg) (vecOf 3 stb.x
        + Xl .right LinearMap.id (∑ i ∈ Finset.range 2, y i • vecOf 3 ((innerPass .right Amgcl.rsqrt Ab Pg stb 2).w.v.get i)))
    = ∑ a ∈ Finset.range 2, ((innerPass .right Amgcl.rsqrt Ab Pg stb 2).w.h.s.get a
          - ∑ i ∈ Finset.Ico a 2, (innerPass .right Amgcl.rsqrt Ab Pg stb 2).w.h.H.get a i * y i)
        * ((innerPass .right Amgcl.rsqrt Ab Pg stb 2).w.h.s.get a
          - ∑ i ∈ Finset.Ico a 2, (innerPass .right Amgcl.rsqrt Ab Pg stb 2).w.h.H.get a i * y i)
      + (innerPass .right Amgcl.rsqrt Ab Pg stb 2).w.h.s.get 2 * (innerPass .right Amgcl.rsqrt Ab Pg stb 2).w.h.s.get 2 :=
  gmres_least_squares_last 3 Ab hAb rfl rfl Pg LinearMap.id hPg .right Amgcl.rsqrt fg stb hstb 1 hrootsb hnbb y

end nonvacuousBreakdown

/-! Restarts: `A = [[−8,−6],[6,−8]]`, identity preconditioner, right side, `f = (5,0)`, `x₀ = 0`, GMRES(1), `maxiter = 2`,
`tol = 1/10` (namespace `ExR`): two restart cycles, `‖r‖² = 25, 9, 81/25`. -/
section nonvacuousRestart
open Amgcl.Krylov.ExG Amgcl.Krylov.ExR

/-- `gmres_restart_monotone` on this input, all hypotheses discharged (`rsqrt` is exact on every number the two cycles
apply it to: `hrootsr`) -/
example : ∃ k, k ≤ 2 ∧
    (∀ i, i < k → GMRES.stop 2 (GMRES.epsTol prmr 5) (outerPass prmr Amgcl.rsqrt Ar Pg fr (GMRES.epsTol prmr 5) str i) = false) ∧
    ∀ i j, i ≤ j → j ≤ k →
      stdIp (GMRES.Rf .right Pg fr Ar (outerPass prmr Amgcl.rsqrt Ar Pg fr (GMRES.epsTol prmr 5) str j).x)
          (GMRES.Rf .right Pg fr Ar (outerPass prmr Amgcl.rsqrt Ar Pg fr (GMRES.epsTol prmr 5) str j).x)
        ≤ stdIp (GMRES.Rf .right Pg fr Ar (outerPass prmr Amgcl.rsqrt Ar Pg fr (GMRES.epsTol prmr 5) str i).x)
          (GMRES.Rf .right Pg fr Ar (outerPass prmr Amgcl.rsqrt Ar Pg fr (GMRES.epsTol prmr 5) str i).x) := by
  obtain ⟨k, hk, _, hstop, hmono⟩ := gmres_restart_monotone 2 Ar hAr rfl rfl Pg LinearMap.id hPr .right Amgcl.rsqrt fr prmr rfl
    0 (GMRES.Work.fresh 2) xr 5 hpr (by rw [hepsr]; decide +kernel)
    (fun i hi _ _ => by rw [hepsr]; exact hrootsr i hi)
  exact ⟨k, hk, hstop, hmono⟩

/-- the numbers, evaluated independently by the kernel: the call makes two cycles (`k = 2`), and the squared residual norms at
the three restart states are `25 > 9 > 81/25` -/
example : (List.range 3).map (fun k =>
      stdIp (residual fr Ar (outerPass prmr Amgcl.rsqrt Ar Pg fr (1/2) str k).x)
        (residual fr Ar (outerPass prmr Amgcl.rsqrt Ar Pg fr (1/2) str k).x)) = [25, 9, 81/25] ∧
    (match GMRES.solve prmr stdIp Amgcl.rsqrt 0 Ar Pg (GMRES.Work.fresh 2) fr xr with
      | .ok (it, _, x, _) => decide (it = 2 ∧ x = (outerPass prmr Amgcl.rsqrt Ar Pg fr (1/2) str 2).x)
      | _ => false) = true := by decide +kernel

/-- `gmres_cycle_monotone` / `gmres_restart_monotone_norm` for the first cycle: `‖r‖` goes from `5` to `3` -/
example : (GMRES.head .right stdIp Amgcl.rsqrt Ar Pg fr (GMRES.cycle prmr stdIp Amgcl.rsqrt Ar Pg (1/2) str)).normR ≤ str.normR :=
  gmres_restart_monotone_norm 2 Ar hAr rfl rfl Pg LinearMap.id hPr .right Amgcl.rsqrt fr prmr rfl (1/2) (by decide +kernel) str
    (cycleStart_head .right Amgcl.rsqrt Ar Pg fr _ (by decide +kernel)) (hrootsr 0 (by decide)) (by decide +kernel)

end nonvacuousRestart

/-! ## Restarted FGMRES (arbitrary preconditioner function) -/
section fgmres
variable {K : Type} [Field K] [LinearOrder K] [IsStrictOrderedRing K]
variable (n : ℕ) (A : CRS K) (hA : A.WF) (hn : A.nrows = n) (hm : A.ncols = n)
  (P : Vec K → Vec K) (hPsz : ∀ u, (P u).size = n) (sqrt : K → K) (f : Vec K)
include hA hn hm hPsz

/-- **one restart cycle of the FGMRES model does not increase the residual** `‖f − A x‖²` — for ANY preconditioner function,
whatever the pass count of the inner loop, with or without breakdown (roots exact on the numbers the cycle meets, read off
the simulating right-preconditioned GMRES run `toG st`; threshold not negative). -/
theorem fgmres_cycle_monotone (prm : FGMRES.Params K) (epsT : K) (heps : ¬ epsT < 0)
    (st : FGMRES.St K) (hst : FCycleStart sqrt A f st) (hx : st.x.size = n)
    (hroots : RootsExact .right sqrt A P (toG st) (FGMRES.inner prm stdIp sqrt A P epsT st).j) :
    stdIp (residual f A (FGMRES.cycle prm stdIp sqrt A P epsT st).x)
        (residual f A (FGMRES.cycle prm stdIp sqrt A P epsT st).x)
      ≤ stdIp (residual f A st.x) (residual f A st.x) :=
  fcycle_monotone n A hA hn hm P hPsz sqrt f st hst hx prm epsT heps hroots

/-- **the restarted FGMRES sequence as a whole is monotone**: the call returns `fouterPass … init k` for the first `k` whose
stopping test succeeds, and `‖f − A x⁽ʲ⁾‖² ≤ ‖f − A x⁽ⁱ⁾‖²` for `i ≤ j ≤ k`. -/
theorem fgmres_restart_monotone (prm : FGMRES.Params K) (eps : K) (ws : FGMRES.Work K)
    (x0 : Vec K) (hx0 : x0.size = n) (nf : K) (hp : prologueA prm.nsSearch stdIp sqrt eps f = .go nf)
    (heps : ¬ FGMRES.epsTol prm nf < 0)
    (hroots : ∀ i, i < prm.maxiter →
      FGMRES.stop prm.maxiter (FGMRES.epsTol prm nf)
        (fouterPass prm sqrt A P f (FGMRES.epsTol prm nf) (FGMRES.init stdIp sqrt A ws f x0) i) = false →
      (fouterPass prm sqrt A P f (FGMRES.epsTol prm nf) (FGMRES.init stdIp sqrt A ws f x0) i).normR ≠ 0 →
      RootsExact .right sqrt A P (toG (fouterPass prm sqrt A P f (FGMRES.epsTol prm nf) (FGMRES.init stdIp sqrt A ws f x0) i))
        (FGMRES.inner prm stdIp sqrt A P (FGMRES.epsTol prm nf)
          (fouterPass prm sqrt A P f (FGMRES.epsTol prm nf) (FGMRES.init stdIp sqrt A ws f x0) i)).j) :
    ∃ k, k ≤ prm.maxiter ∧
      FGMRES.run prm stdIp sqrt eps A P ws f x0
        = (.ok ((fouterPass prm sqrt A P f (FGMRES.epsTol prm nf) (FGMRES.init stdIp sqrt A ws f x0) k).iter,
                (fouterPass prm sqrt A P f (FGMRES.epsTol prm nf) (FGMRES.init stdIp sqrt A ws f x0) k).normR / nf),
           (fouterPass prm sqrt A P f (FGMRES.epsTol prm nf) (FGMRES.init stdIp sqrt A ws f x0) k).x,
           (fouterPass prm sqrt A P f (FGMRES.epsTol prm nf) (FGMRES.init stdIp sqrt A ws f x0) k).w) ∧
      (∀ i, i < k → FGMRES.stop prm.maxiter (FGMRES.epsTol prm nf)
        (fouterPass prm sqrt A P f (FGMRES.epsTol prm nf) (FGMRES.init stdIp sqrt A ws f x0) i) = false) ∧
      ∀ i j, i ≤ j → j ≤ k →
        stdIp (residual f A (fouterPass prm sqrt A P f (FGMRES.epsTol prm nf) (FGMRES.init stdIp sqrt A ws f x0) j).x)
            (residual f A (fouterPass prm sqrt A P f (FGMRES.epsTol prm nf) (FGMRES.init stdIp sqrt A ws f x0) j).x)
          ≤ stdIp (residual f A (fouterPass prm sqrt A P f (FGMRES.epsTol prm nf) (FGMRES.init stdIp sqrt A ws f x0) i).x)
            (residual f A (fouterPass prm sqrt A P f (FGMRES.epsTol prm nf) (FGMRES.init stdIp sqrt A ws f x0) i).x) := by
  obtain ⟨k, hk, hfin, hstop, _⟩ := ffinal_eq_outerPass prm sqrt A P ws f x0 nf
  refine ⟨k, hk, ?_, hstop, fun i j hij hj => ?_⟩
  · rw [FGMRES.run_go _ _ _ _ _ _ _ _ _ nf hp, hfin]
  · exact fouterPass_antitone' n A hA hn hm P hPsz prm sqrt f _ heps _ (FGMRES.head_inv _ _ _ _ _)
      (by rw [FGMRES.head_x]; exact hx0) k (fun i hi hne => hroots i (by omega) (hstop i hi) hne) i j hij hj

/-- … in particular the `x` an FGMRES call returns has `‖f − A x‖² ≤ ‖f − A x₀‖²` (global root hypothesis `hsqrt`). -/
theorem fgmres_restart_monotone_call (prm : FGMRES.Params K) (eps : K) (ws : FGMRES.Work K)
    (x0 : Vec K) (hx0 : x0.size = n) (nf : K) (hp : prologueA prm.nsSearch stdIp sqrt eps f = .go nf)
    (heps : ¬ FGMRES.epsTol prm nf < 0) (hsqrt : ∀ x, 0 ≤ x → sqrt x * sqrt x = x)
    (it : ℕ) (res : K) (x : Vec K) (w : FGMRES.Work K)
    (h : FGMRES.solve prm stdIp sqrt eps A P ws f x0 = .ok (it, res, x, w)) :
    stdIp (residual f A x) (residual f A x) ≤ stdIp (residual f A x0) (residual f A x0) := by
  obtain ⟨k, _, hrun, _, hmono⟩ := fgmres_restart_monotone n A hA hn hm P hPsz sqrt f prm eps ws x0 hx0 nf hp heps
    (fun i _ _ _ => rootsExact_of_hsqrt .right sqrt hsqrt A P _ _)
  rw [FGMRES.solve, hrun] at h
  simp only [Run.toExcept, Except.ok.injEq, Prod.mk.injEq] at h
  have h0 := hmono 0 k (Nat.zero_le k) (Nat.le_refl k)
  rw [h.2.2.1] at h0
  have hx0' : (fouterPass prm sqrt A P f (FGMRES.epsTol prm nf) (FGMRES.init stdIp sqrt A ws f x0) 0).x = x0 :=
    FGMRES.init_x stdIp sqrt A ws f x0
  rw [hx0'] at h0
  exact h0

/-- **breakdown returns the exact solution (FGMRES).**  If the last pass `j − 1` of a restart cycle of the model breaks down,
`A` is injective and the stored vectors `z_0..z_{j−1}` (`z_i = P v_i`) are linearly independent — automatic for an injective
linear preconditioner, a hypothesis for an arbitrary function —, the cycle returns `x` with `f − A x = 0` (the zero vector). -/
theorem fgmres_breakdown_exact (prm : FGMRES.Params K) (epsT : K) (heps : ¬ epsT < 0)
    (st : FGMRES.St K) (hst : FCycleStart sqrt A f st) (hx : st.x.size = n)
    (hroots : RootsExact .right sqrt A P (toG st) (FGMRES.inner prm stdIp sqrt A P epsT st).j)
    (hAinj : ∀ u : Fin n → K, matOf A n n *ᵥ u = 0 → u = 0)
    (hindep : ∀ c : ℕ → K,
      ∑ i ∈ Finset.range (FGMRES.inner prm stdIp sqrt A P epsT st).j,
        c i • vecOf n ((FGMRES.inner prm stdIp sqrt A P epsT st).w.z.get i) = 0 →
      ∀ i, i < (FGMRES.inner prm stdIp sqrt A P epsT st).j → c i = 0)
    (hb : arnoldiNorm .right sqrt A P (toG st) ((FGMRES.inner prm stdIp sqrt A P epsT st).j - 1) = 0) :
    residual f A (FGMRES.cycle prm stdIp sqrt A P epsT st).x = vclear n := by
  obtain ⟨heq, hge, hcx⟩ := finner_eq prm sqrt A P epsT st
  have hnb := finner_no_early_breakdown prm sqrt A P epsT heps st
  rw [hcx]
  rw [heq] at hindep
  obtain ⟨m, hm'⟩ : ∃ m, (FGMRES.inner prm stdIp sqrt A P epsT st).j = m + 1 := ⟨_, (Nat.sub_add_cancel hge).symm⟩
  rw [hm'] at hroots hnb hb hindep ⊢
  rw [Nat.add_sub_cancel] at hb
  rw [fInnerPass_j] at hindep
  exact fbreakdown_exact n A hA hn hm P hPsz sqrt f st hst hx m hroots (fun i hi => hnb i (by omega)) hAinj hindep hb

end fgmres

/-! ### non-vacuity (FGMRES) over `ℚ` with `rsqrt`: the breakdown system with the NON-LINEAR preconditioner function
`Pc u = (u₀³,u₁³,u₂³)`, and the restart system with the identity on length-2 vectors -/
section nonvacuousFgmres
open Amgcl.Krylov.ExG Amgcl.Krylov.ExB Amgcl.Krylov.ExF Amgcl.Krylov.ExR

/-- `fgmres_breakdown_exact`, all hypotheses discharged: two passes, breakdown in the second, exact solution -/
example : residual fg Ab (FGMRES.cycle prmfb stdIp Amgcl.rsqrt Ab Pc (1/4) stfb).x = vclear 3 := by
  have hj : (FGMRES.inner prmfb stdIp Amgcl.rsqrt Ab Pc (1/4) stfb).j = 2 := by decide +kernel
  have hin := (finner_eq prmfb Amgcl.rsqrt Ab Pc (1/4) stfb).1
  refine fgmres_breakdown_exact 3 Ab hAb rfl rfl Pc hPc Amgcl.rsqrt fg prmfb (1/4) (by decide +kernel) stfb hstfb hxfb
    (by rw [hj]; exact hrootsfb) hAinjb ?_ (by rw [hj]; exact hbfb)
  rw [hin, hj]
  exact hindepb

/-- … evaluated independently by the kernel: the call makes `2` iterations, reports `0`, returns `(25/3, −20/3, 0)` -/
example : (match FGMRES.solve prmfb stdIp Amgcl.rsqrt 0 Ab Pc (FGMRES.Work.fresh 3) fg xg with
      | .ok (it, res, x, _) => decide (it = 2 ∧ res = 0 ∧ x = #[25/3, -20/3, 0] ∧ residual fg Ab x = vclear 3)
      | _ => false) = true := by decide +kernel

/-- `fgmres_restart_monotone` on the restart system, all hypotheses discharged -/
example : ∃ k, k ≤ 2 ∧
    ∀ i j, i ≤ j → j ≤ k →
      stdIp (residual fr Ar (fouterPass prmfr Amgcl.rsqrt Ar Pf fr (FGMRES.epsTol prmfr 5) stfr j).x)
          (residual fr Ar (fouterPass prmfr Amgcl.rsqrt Ar Pf fr (FGMRES.epsTol prmfr 5) stfr j).x)
        ≤ stdIp (residual fr Ar (fouterPass prmfr Amgcl.rsqrt Ar Pf fr (FGMRES.epsTol prmfr 5) stfr i).x)
          (residual fr Ar (fouterPass prmfr Amgcl.rsqrt Ar Pf fr (FGMRES.epsTol prmfr 5) stfr i).x) := by
  obtain ⟨k, hk, _, _, hmono⟩ := fgmres_restart_monotone 2 Ar hAr rfl rfl Pf hPfsz Amgcl.rsqrt fr prmfr
    0 (FGMRES.Work.fresh 2) xr rfl 5 hpfr (by rw [hepsfr]; decide +kernel)
    (fun i hi _ _ => by rw [hepsfr]; exact hrootsfr i hi)
  exact ⟨k, hk, hmono⟩

/-- the numbers: two cycles, `‖f − A x‖² = 25 > 9 > 81/25` -/
example : (List.range 3).map (fun k =>
      stdIp (residual fr Ar (fouterPass prmfr Amgcl.rsqrt Ar Pf fr (1/2) stfr k).x)
        (residual fr Ar (fouterPass prmfr Amgcl.rsqrt Ar Pf fr (1/2) stfr k).x)) = [25, 9, 81/25] ∧
    (match FGMRES.solve prmfr stdIp Amgcl.rsqrt 0 Ar Pf (FGMRES.Work.fresh 2) fr xr with
      | .ok (it, _, x, _) => decide (it = 2 ∧ x = (fouterPass prmfr Amgcl.rsqrt Ar Pf fr (1/2) stfr 2).x)
      | _ => false) = true := by decide +kernel

end nonvacuousFgmres

end Amgcl.C05c
