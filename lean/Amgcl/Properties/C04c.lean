import Amgcl.Proofs.RigidBodyModes
/-!
# C04 (c) — the near-null space of elasticity: `coarsening::rigid_body_modes`

Model: `Amgcl/Model/RigidBodyModes.lean` (rigid_body_modes.hpp:44-129, loop by loop on the flat buffer with both
storage orders), tied to /repo by `harness/h_rbm.cpp` (ops `rbm_modes`, `rbm_degenerate`, `rbm_ptent`).  Helpers:
`Amgcl/Proofs/RigidBodyModes.lean`.  All statements hold over every field `K` and every function `sqrt`.

* `rbm_span_2d` / `rbm_span_3d`: before the normalisation loop the columns are `1/sqrt(n)` times the translations and
  the infinitesimal rotations `w × X` evaluated at the nodes, entry by entry, in either storage order;
* `rbm_zero_energy`: a row vector that annihilates the raw modes annihilates the output (what the coarsening relies
  on: `A·B_raw = 0 ⟹ A·B = 0`), whatever `sqrt` returns; `rbm_span_preserved`: the converse when no divisor is zero —
  together: the output spans exactly the space of the raw modes;
* `rbm_translation_cols`, `rbm_unit_norm`: the translation columns are returned as written, the rotation columns have
  unit norm (with a `sqrt` that is exact on sums of squares and non-zero divisors);
* `rbm_translation_norm`, `rbm_first_rotation_gram`, `rbm_not_orthonormal`: **the output is not orthonormal** although the code labels the loop
  "Orthonormalization": `n = coo.size()` counts unknowns, not nodes, so a translation column has squared norm
  `1/ndim`, and the projection `B_i -= dot[k]·B_k` (correct only for unit `B_k`) leaves the rotation columns
  non-orthogonal to the translations: `⟨B_ndim, B_k⟩·s = (1 − 1/ndim)·⟨T_k, R⟩`.  Harmless for C04 (only the span enters `P_tent·B_c = B`), reported as a
  finding (notes/repro_rbm_not_orthonormal.cpp);
* `rbm_depends_on_prior_content`: `B.resize` keeps the caller's old values, which leak into the result;
* `rbm_ptent_zero_energy`: composition with `P_tent·B_c = B` — the rigid body modes lie in the range of `P_tent`
  (`ker P_tentᵀ ⊆ ker B_rawᵀ`).
-/
namespace Amgcl.C04c
open Amgcl Amgcl.RBM Finset

variable {K : Type} [Field K]

/-- `B[j * stride1 + k * stride2]` with the strides of l.53-54 -/
def entry (ndim n : Nat) (tr : Bool) (B : Array K) (j k : Nat) : K :=
  cell (if tr then 1 else nmodes ndim) (if tr then n else 1) B j k

/-- coordinate `d` of the node that unknown `j` belongs to -/
def coord (ndim : Nat) (coo : Array K) (j d : Nat) : K := coo.getD (j / ndim * ndim + d) 0

/-- 2D rigid body modes at unknown `j`: columns 0,1 = translations, column 2 = `e_z × X = (−y, x)` -/
def mode2 (sn : K) (coo : Array K) (j k : Nat) : K :=
  if k = 2 then (if j % 2 = 0 then - coord 2 coo j 1 else coord 2 coo j 0)
  else if k = j % 2 then sn else 0

/-- 3D rigid body modes at unknown `j` (component `j % 3` of node `j / 3` at `X = (x,y,z)`): columns 0..2 =
translations, column 3 = `(−e_z) × X = (y, −x, 0)`, column 4 = `e_x × X = (0, −z, y)`, column 5 = `e_y × X = (z, 0, −x)` -/
def mode3 (sn : K) (coo : Array K) (j k : Nat) : K :=
  if k < 3 then (if k = j % 3 then sn else 0)
  else if k = 3 then (if j % 3 = 0 then coord 3 coo j 1 else if j % 3 = 1 then - coord 3 coo j 0 else 0)
  else if k = 4 then (if j % 3 = 0 then 0 else if j % 3 = 1 then - coord 3 coo j 2 else coord 3 coo j 1)
  else (if j % 3 = 0 then coord 3 coo j 2 else if j % 3 = 1 then 0 else - coord 3 coo j 0)

theorem size_rawModes (sqrt : K → K) (ndim : Nat) (h : ndim = 2 ∨ ndim = 3) (coo B0 : Array K) (tr : Bool) :
    (rawModes sqrt ndim coo B0 tr).size = coo.size * nmodes ndim := by
  unfold rawModes
  rcases h with rfl | rfl
  · exact (fill2_spec (lay_of tr coo.size 3) _ coo _ (size_resize _ _)).1
  · exact (fill3_spec (lay_of tr coo.size 6) _ coo _ (size_resize _ _)).1

/-- **Raw modes, 2D** (`rbm_span`): on a fresh vector `B`, before the normalisation loop, entry `(j,k)` is the
translation (scaled by `1/sqrt(n)`) or the rotation `e_z × X` at the node of unknown `j` — in either storage order. -/
theorem rbm_span_2d (sqrt : K → K) (coo : Array K) (tr : Bool) (j k : Nat) (hj : j < coo.size) (hk : k < 3) :
    entry 2 coo.size tr (rawModes sqrt 2 coo #[] tr) j k = mode2 (1 / sqrt (coo.size : K)) coo j k := by
  have h := (fill2_spec (lay_of tr coo.size 3) (1 / sqrt (coo.size : K)) coo (resize #[] (coo.size * 3))
    (size_resize _ _)).2 j k hj hk
  rw [show entry 2 coo.size tr (rawModes sqrt 2 coo #[] tr) j k = _ from h]
  unfold row2 mode2 coord cell
  simp only [resize_empty_getD]

example : entry 2 (#[0, 0, 3, 1] : Array Rat).size false (rawModes (fun _ => (2 : Rat)) 2 #[0, 0, 3, 1] #[] false) 2 2
    = -1 := by
  rw [rbm_span_2d _ _ _ _ _ (by decide) (by decide)]
  decide

/-- **Raw modes, 3D** (`rbm_span`). -/
theorem rbm_span_3d (sqrt : K → K) (coo : Array K) (tr : Bool) (j k : Nat) (hj : j < coo.size) (hk : k < 6) :
    entry 3 coo.size tr (rawModes sqrt 3 coo #[] tr) j k = mode3 (1 / sqrt (coo.size : K)) coo j k := by
  have h := (fill3_spec (lay_of tr coo.size 6) (1 / sqrt (coo.size : K)) coo (resize #[] (coo.size * 6))
    (size_resize _ _)).2 j k hj hk
  rw [show entry 3 coo.size tr (rawModes sqrt 3 coo #[] tr) j k = _ from h]
  unfold row3 mode3 coord cell
  simp only [resize_empty_getD]
  split_ifs <;> first | rfl | omega

example : entry 3 (#[5, 6, 7] : Array Rat).size true (rawModes (fun _ => (2 : Rat)) 3 #[5, 6, 7] #[] true) 1 4 = -7 := by
  rw [rbm_span_3d _ _ _ _ _ (by decide) (by decide)]
  decide

/-- what a successful call returns -/
theorem rbm_ok (sqrt : K → K) (ndim : Nat) (coo B0 : Array K) (tr : Bool) (nm : Nat) (B : Array K) (ss : List K)
    (h : rigidBodyModesFull sqrt ndim coo B0 tr = .ok (nm, B, ss)) :
    (ndim = 2 ∨ ndim = 3) ∧ coo.size % ndim = 0 ∧ nm = nmodes ndim ∧
    (B, ss) = orthonormalize sqrt (if tr then 1 else nmodes ndim) (if tr then coo.size else 1) coo.size ndim
      (nmodes ndim) (rawModes sqrt ndim coo B0 tr) := by
  unfold rigidBodyModesFull at h
  split at h
  · exact absurd h (by simp)
  · split at h
    · exact absurd h (by simp)
    · rename_i h1 h2
      simp only [Outcome.ok.injEq, Prod.mk.injEq] at h
      obtain ⟨rfl, rfl, rfl⟩ := h
      exact ⟨not_not.mp h1, not_not.mp h2, rfl, rfl⟩

theorem nmodes_le (ndim : Nat) : nmodes ndim ≤ 6 := by unfold nmodes; split <;> omega
theorem lt_nmodes {ndim : Nat} (h : ndim = 2 ∨ ndim = 3) : ndim < nmodes ndim := by
  unfold nmodes; rcases h with rfl | rfl <;> simp

/-- **Zero energy / span preservation** (`rbm_zero_energy`): a row vector `a` with `Σ_j a_j·B_raw[j,k] = 0` for every
raw mode `k` also has `Σ_j a_j·B[j,k] = 0` for every column of the returned `B` — for every `sqrt`, every prior content
`B0` of the vector and both storage orders.  (Applied to the rows of a matrix: `A·B_raw = 0 ⟹ A·B = 0`.) -/
theorem rbm_zero_energy (sqrt : K → K) (ndim : Nat) (coo B0 : Array K) (tr : Bool) (nm : Nat) (B : Array K)
    (ss : List K) (h : rigidBodyModesFull sqrt ndim coo B0 tr = .ok (nm, B, ss)) (a : Nat → K)
    (ha : ∀ k, k < nm → ∑ j ∈ range coo.size, a j * entry ndim coo.size tr (rawModes sqrt ndim coo B0 tr) j k = 0) :
    ∀ k, k < nm → ∑ j ∈ range coo.size, a j * entry ndim coo.size tr B j k = 0 := by
  obtain ⟨hd, _, rfl, hB⟩ := rbm_ok sqrt ndim coo B0 tr nm B ss h
  have L := lay_of tr coo.size (nmodes ndim)
  have key := orthonormalize_induct (s1 := if tr then 1 else nmodes ndim) (s2 := if tr then coo.size else 1)
    (n := coo.size) (nm := nmodes ndim) sqrt ndim
    (fun _ Bl => Bl.1.size = coo.size * nmodes ndim ∧
      ∀ k, k < nmodes ndim → colDot (if tr then 1 else nmodes ndim) (if tr then coo.size else 1) coo.size a Bl.1 k = 0)
    (rawModes sqrt ndim coo B0 tr) ⟨size_rawModes sqrt ndim hd coo B0 tr, ha⟩
    (by
      intro t Bl hM ht
      exact ⟨(gsStep_spec sqrt L Bl.1 hM.1 ht (nmodes_le ndim)).1,
        annihilates_step sqrt L Bl.1 hM.1 ht (nmodes_le ndim) a hM.2⟩)
  rw [← hB] at key
  exact key.2

/-- **Span preservation, converse** (`rbm_span_preserved`): when no divisor `s` of the normalisation is zero, a row
vector that annihilates the returned columns annihilates the raw modes; with `rbm_zero_energy`: the returned columns
span exactly the space of the translations and rotations (same left annihilator). -/
theorem rbm_span_preserved (sqrt : K → K) (ndim : Nat) (coo B0 : Array K) (tr : Bool) (nm : Nat) (B : Array K)
    (ss : List K) (h : rigidBodyModesFull sqrt ndim coo B0 tr = .ok (nm, B, ss)) (hs : ∀ s ∈ ss, s ≠ 0) (a : Nat → K)
    (ha : ∀ k, k < nm → ∑ j ∈ range coo.size, a j * entry ndim coo.size tr B j k = 0) :
    ∀ k, k < nm → ∑ j ∈ range coo.size, a j * entry ndim coo.size tr (rawModes sqrt ndim coo B0 tr) j k = 0 := by
  obtain ⟨hd, _, rfl, hB⟩ := rbm_ok sqrt ndim coo B0 tr nm B ss h
  have L := lay_of tr coo.size (nmodes ndim)
  have key := orthonormalize_induct (s1 := if tr then 1 else nmodes ndim) (s2 := if tr then coo.size else 1)
    (n := coo.size) (nm := nmodes ndim) sqrt ndim
    (fun _ Bl => Bl.1.size = coo.size * nmodes ndim ∧
      ((∀ s ∈ Bl.2, s ≠ 0) →
       (∀ k, k < nmodes ndim → colDot (if tr then 1 else nmodes ndim) (if tr then coo.size else 1) coo.size a Bl.1 k = 0) →
       ∀ k, k < nmodes ndim → colDot (if tr then 1 else nmodes ndim) (if tr then coo.size else 1) coo.size a
         (rawModes sqrt ndim coo B0 tr) k = 0))
    (rawModes sqrt ndim coo B0 tr) ⟨size_rawModes sqrt ndim hd coo B0 tr, fun _ h => h⟩
    (by
      intro t Bl hM ht
      refine ⟨(gsStep_spec sqrt L Bl.1 hM.1 ht (nmodes_le ndim)).1, ?_⟩
      intro hne hann
      exact hM.2 (fun s hs => hne s (List.mem_cons_of_mem _ hs))
        (annihilates_step_conv sqrt L Bl.1 hM.1 ht (nmodes_le ndim) a (hne _ (List.mem_cons_self ..)) hann))
  rw [← hB] at key
  exact key.2 hs ha


/-! ## what the normalisation loop does achieve -/

/-- **Translation columns** are returned as the first loop wrote them (the normalisation loop starts at column `ndim`). -/
theorem rbm_translation_cols (sqrt : K → K) (ndim : Nat) (coo B0 : Array K) (tr : Bool) (nm : Nat) (B : Array K)
    (ss : List K) (h : rigidBodyModesFull sqrt ndim coo B0 tr = .ok (nm, B, ss)) (j k : Nat) (hj : j < coo.size)
    (hk : k < ndim) :
    entry ndim coo.size tr B j k = entry ndim coo.size tr (rawModes sqrt ndim coo B0 tr) j k := by
  obtain ⟨hd, _, rfl, hB⟩ := rbm_ok sqrt ndim coo B0 tr nm B ss h
  have L := lay_of tr coo.size (nmodes ndim)
  have hkn : k < nmodes ndim := by have := lt_nmodes hd; omega
  have key := orthonormalize_induct (s1 := if tr then 1 else nmodes ndim) (s2 := if tr then coo.size else 1)
    (n := coo.size) (nm := nmodes ndim) sqrt ndim
    (fun _ Bl => Bl.1.size = coo.size * nmodes ndim ∧
      cell (if tr then 1 else nmodes ndim) (if tr then coo.size else 1) Bl.1 j k
        = cell (if tr then 1 else nmodes ndim) (if tr then coo.size else 1) (rawModes sqrt ndim coo B0 tr) j k)
    (rawModes sqrt ndim coo B0 tr) ⟨size_rawModes sqrt ndim hd coo B0 tr, rfl⟩
    (by
      intro t Bl hM ht
      have sp := gsStep_spec sqrt L Bl.1 hM.1 ht (nmodes_le ndim)
      refine ⟨sp.1, ?_⟩
      rw [sp.2.2 j k hj hkn, if_neg (by omega)]
      exact hM.2)
  rw [← hB] at key
  exact key.2

/-- **Rotation columns have unit norm** (`rbm_unit_norm`): with a `sqrt` that is exact wherever it does not return zero
(true of `Real.sqrt`, and of the table `exSqrt` below) and no zero divisor, every column `k ≥ ndim` of the result satisfies `Σ_j B[j,k]² = 1`. -/
theorem rbm_unit_norm (sqrt : K → K)
    (hsq : ∀ x, sqrt x = 0 ∨ sqrt x * sqrt x = x)
    (ndim : Nat) (coo B0 : Array K) (tr : Bool) (nm : Nat) (B : Array K)
    (ss : List K) (h : rigidBodyModesFull sqrt ndim coo B0 tr = .ok (nm, B, ss)) (hs : ∀ s ∈ ss, s ≠ 0) (k : Nat)
    (hk1 : ndim ≤ k) (hk2 : k < nm) :
    ∑ j ∈ range coo.size, entry ndim coo.size tr B j k * entry ndim coo.size tr B j k = 1 := by
  obtain ⟨hd, _, rfl, hB⟩ := rbm_ok sqrt ndim coo B0 tr nm B ss h
  have L := lay_of tr coo.size (nmodes ndim)
  have key := orthonormalize_induct (s1 := if tr then 1 else nmodes ndim) (s2 := if tr then coo.size else 1)
    (n := coo.size) (nm := nmodes ndim) sqrt ndim
    (fun t Bl => Bl.1.size = coo.size * nmodes ndim ∧
      ((∀ s ∈ Bl.2, s ≠ 0) → ∀ k, ndim ≤ k → k < ndim + t →
        ∑ j ∈ range coo.size, cell (if tr then 1 else nmodes ndim) (if tr then coo.size else 1) Bl.1 j k
          * cell (if tr then 1 else nmodes ndim) (if tr then coo.size else 1) Bl.1 j k = 1))
    (rawModes sqrt ndim coo B0 tr) ⟨size_rawModes sqrt ndim hd coo B0 tr, by intro _ k h1 h2; omega⟩
    (by
      intro t Bl hM ht
      have sp := gsStep_spec sqrt L Bl.1 hM.1 ht (nmodes_le ndim)
      refine ⟨sp.1, ?_⟩
      intro hne k hk1 hk2
      have hσ : (gsStep sqrt (if tr then 1 else nmodes ndim) (if tr then coo.size else 1) coo.size (ndim + t) Bl.1).2 ≠ 0 :=
        hne _ (List.mem_cons_self ..)
      by_cases hki : k = ndim + t
      · subst hki
        have hσσ := hsq (∑ j ∈ range coo.size,
          gsW (if tr then 1 else nmodes ndim) (if tr then coo.size else 1) coo.size (ndim + t) Bl.1 j
            * gsW (if tr then 1 else nmodes ndim) (if tr then coo.size else 1) coo.size (ndim + t) Bl.1 j)
        rw [← sp.2.1] at hσσ
        replace hσσ := hσσ.resolve_left hσ
        have e : ∀ j ∈ range coo.size,
            cell (if tr then 1 else nmodes ndim) (if tr then coo.size else 1)
              (gsStep sqrt (if tr then 1 else nmodes ndim) (if tr then coo.size else 1) coo.size (ndim + t) Bl.1).1 j (ndim + t)
            * cell (if tr then 1 else nmodes ndim) (if tr then coo.size else 1)
              (gsStep sqrt (if tr then 1 else nmodes ndim) (if tr then coo.size else 1) coo.size (ndim + t) Bl.1).1 j (ndim + t)
            = gsW (if tr then 1 else nmodes ndim) (if tr then coo.size else 1) coo.size (ndim + t) Bl.1 j
              * gsW (if tr then 1 else nmodes ndim) (if tr then coo.size else 1) coo.size (ndim + t) Bl.1 j
              * ((gsStep sqrt (if tr then 1 else nmodes ndim) (if tr then coo.size else 1) coo.size (ndim + t) Bl.1).2
                * (gsStep sqrt (if tr then 1 else nmodes ndim) (if tr then coo.size else 1) coo.size (ndim + t) Bl.1).2)⁻¹ := by
          intro j hj
          rw [sp.2.2 j (ndim + t) (Finset.mem_range.mp hj) ht, if_pos rfl]
          field_simp
        rw [Finset.sum_congr rfl e, ← Finset.sum_mul, ← hσσ]
        exact mul_inv_cancel₀ (mul_ne_zero hσ hσ)
      · have := hM.2 (fun s hs => hne s (List.mem_cons_of_mem _ hs)) k hk1 (by omega)
        rw [← this]
        apply Finset.sum_congr rfl
        intro j hj
        rw [sp.2.2 j k (Finset.mem_range.mp hj) (by omega), if_neg hki])
  rw [← hB] at key
  have := key.2 hs k hk1 (by have := lt_nmodes hd; omega)
  exact this

/-! ## non-vacuity of the span theorems, and what the output is not -/

/-- a square root that is exact on the two arguments the example below applies it to (`n = 4`, `s = 25/4`) -/
def exSqrt (q : Rat) : Rat := if q = 4 then 2 else if q = 25 / 4 then 5 / 2 else 0
/-- two nodes `(0,0)` and `(3,1)` in the plane -/
def exCoo : Array Rat := #[0, 0, 3, 1]
/-- what the model returns on `exCoo` (row-major `4 × 3`) -/
def exB : Array Rat := #[1/2, 0, 1/10,  0, 1/2, -3/10,  1/2, 0, -3/10,  0, 1/2, 9/10]

theorem ex_run : rigidBodyModesFull exSqrt 2 exCoo #[] false = .ok (3, exB, [5 / 2]) := by decide +kernel

/-- `rbm_zero_energy` / `rbm_span_preserved` are not vacuous: the row vector `(−3, −1, 3, 1)` annihilates the three raw
modes of `exCoo`, the call succeeds and its divisor is not zero. -/
example : ∀ k, k < 3 → ∑ j ∈ range exCoo.size, (#[-3, -1, 3, 1] : Array Rat).getD j 0 * entry 2 exCoo.size false exB j k = 0 :=
  rbm_zero_energy exSqrt 2 exCoo #[] false 3 exB [5 / 2] ex_run (fun j => (#[-3, -1, 3, 1] : Array Rat).getD j 0)
    (by decide +kernel)
example : ∀ k, k < 3 → ∑ j ∈ range exCoo.size, (#[-3, -1, 3, 1] : Array Rat).getD j 0
    * entry 2 exCoo.size false (rawModes exSqrt 2 exCoo #[] false) j k = 0 :=
  rbm_span_preserved exSqrt 2 exCoo #[] false 3 exB [5 / 2] ex_run (by decide +kernel)
    (fun j => (#[-3, -1, 3, 1] : Array Rat).getD j 0) (by decide +kernel)

theorem exSqrt_exact : ∀ x, exSqrt x = 0 ∨ exSqrt x * exSqrt x = x := by
  intro x
  unfold exSqrt
  by_cases h1 : x = 4
  · right; subst h1; decide +kernel
  · by_cases h2 : x = 25 / 4
    · right; subst h2; decide +kernel
    · left; rw [if_neg h1, if_neg h2]

example : ∑ j ∈ range exCoo.size, entry 2 exCoo.size false exB j 2 * entry 2 exCoo.size false exB j 2 = 1 :=
  rbm_unit_norm exSqrt exSqrt_exact 2 exCoo #[] false 3 exB [5 / 2] ex_run (by decide +kernel) 2 (by decide) (by decide)
example : entry 2 exCoo.size false exB 2 0 = entry 2 exCoo.size false (rawModes exSqrt 2 exCoo #[] false) 2 0 :=
  rbm_translation_cols exSqrt 2 exCoo #[] false 3 exB [5 / 2] ex_run 2 0 (by decide) (by decide)

theorem sum_component (ndim : Nat) (hd : ndim = 2 ∨ ndim = 3) (k : Nat) (hk : k < ndim) (c : K) (m : Nat) :
    ∑ j ∈ range (ndim * m), (if k = j % ndim then c else 0) = (m : K) * c := by
  induction m with
  | zero => simp
  | succ m ih =>
    rcases hd with rfl | rfl
    · rw [show 2 * (m + 1) = 2 * m + 1 + 1 from by ring, Finset.sum_range_succ, Finset.sum_range_succ, ih]
      have h0 : (2 * m) % 2 = 0 := by omega
      have h1 : (2 * m + 1) % 2 = 1 := by omega
      rw [h0, h1]
      push_cast
      have : k = 0 ∨ k = 1 := by omega
      rcases this with rfl | rfl <;> simp <;> ring
    · rw [show 3 * (m + 1) = 3 * m + 1 + 1 + 1 from by ring, Finset.sum_range_succ, Finset.sum_range_succ,
        Finset.sum_range_succ, ih]
      have h0 : (3 * m) % 3 = 0 := by omega
      have h1 : (3 * m + 1) % 3 = 1 := by omega
      have h2 : (3 * m + 1 + 1) % 3 = 2 := by omega
      rw [h0, h1, h2]
      push_cast
      have : k = 0 ∨ k = 1 ∨ k = 2 := by omega
      rcases this with rfl | rfl | rfl <;> simp <;> ring

/-- **The translation columns are not unit vectors** (`rbm_translation_norm`): on a fresh vector, with `sqrt` exact at
`n = coo.size()` and `n ≠ 0` in `K`, every translation column of the result has squared norm `1/ndim` — `n` counts
unknowns (`ndim` per node) while a translation column has one entry `1/sqrt(n)` per node. -/
theorem rbm_translation_norm (sqrt : K → K) (ndim : Nat) (coo : Array K) (tr : Bool) (nm : Nat) (B : Array K)
    (ss : List K) (h : rigidBodyModesFull sqrt ndim coo #[] tr = .ok (nm, B, ss))
    (hn : sqrt (coo.size : K) * sqrt (coo.size : K) = (coo.size : K)) (hn0 : (coo.size : K) ≠ 0)
    (k : Nat) (hk : k < ndim) :
    ∑ j ∈ range coo.size, entry ndim coo.size tr B j k * entry ndim coo.size tr B j k = 1 / (ndim : K) := by
  obtain ⟨hd, hdiv, _, _⟩ := rbm_ok sqrt ndim coo #[] tr nm B ss h
  have e : ∀ j ∈ range coo.size, entry ndim coo.size tr B j k * entry ndim coo.size tr B j k
      = if k = j % ndim then (1 / sqrt (coo.size : K)) * (1 / sqrt (coo.size : K)) else 0 := by
    intro j hj
    have hj' := Finset.mem_range.mp hj
    rw [rbm_translation_cols sqrt ndim coo #[] tr nm B ss h j k hj' hk]
    rcases hd with rfl | rfl
    · rw [rbm_span_2d sqrt coo tr j k hj' (by omega)]
      unfold mode2
      rw [if_neg (by omega)]
      split <;> simp
    · rw [rbm_span_3d sqrt coo tr j k hj' (by omega)]
      unfold mode3
      rw [if_pos hk]
      split <;> simp
  rw [Finset.sum_congr rfl e]
  obtain ⟨m, hm⟩ : ∃ m, coo.size = ndim * m := ⟨coo.size / ndim, by
    have := Nat.div_add_mod coo.size ndim; rw [hdiv] at this; omega⟩
  have hs0 : sqrt (coo.size : K) ≠ 0 := by
    intro h0; rw [h0, mul_zero] at hn; exact hn0 hn.symm
  rw [hm] at hn hn0 hs0 ⊢
  rw [sum_component ndim hd k hk _ m]
  have hc : ((ndim * m : Nat) : K) = (ndim : K) * (m : K) := by push_cast; ring
  rw [hc] at hn hn0 hs0
  have hnd : (ndim : K) ≠ 0 := fun h0 => hn0 (by rw [h0, zero_mul])
  have hm0 : (m : K) ≠ 0 := fun h0 => hn0 (by rw [h0, mul_zero])
  rw [hc]
  have : (1 / sqrt ((ndim : K) * (m : K))) * (1 / sqrt ((ndim : K) * (m : K))) = 1 / ((ndim : K) * (m : K)) := by
    rw [div_mul_div_comm, one_mul, hn]
  rw [this]
  field_simp

example : ∑ j ∈ range exCoo.size, entry 2 exCoo.size false exB j 1 * entry 2 exCoo.size false exB j 1 = 1 / ((2 : Nat) : Rat) :=
  rbm_translation_norm exSqrt 2 exCoo false 3 exB [5 / 2] ex_run (by decide +kernel) (by decide +kernel) 1 (by decide)

/-- **The output is not orthonormal** (`rbm_not_orthonormal`): on two nodes `(0,0)`, `(3,1)`, with a square root that is
exact on every argument it receives (`sqrt 4 = 2`, `sqrt (25/4) = 5/2`), the returned translation columns have squared
norm `1/2` and the rotation column is not orthogonal to them (`⟨B_0,B_2⟩ = −1/10`, `⟨B_1,B_2⟩ = 3/10`); only the
rotation column has unit norm.  The real `double` code returns the same numbers (notes/repro_rbm_not_orthonormal.cpp). -/
theorem rbm_not_orthonormal :
    rigidBodyModesFull exSqrt 2 exCoo #[] false = .ok (3, exB, [5 / 2]) ∧
    exSqrt 4 * exSqrt 4 = 4 ∧ exSqrt (25 / 4) * exSqrt (25 / 4) = 25 / 4 ∧
    (∑ j ∈ range 4, entry 2 4 false exB j 0 * entry 2 4 false exB j 0 = 1 / 2) ∧
    (∑ j ∈ range 4, entry 2 4 false exB j 1 * entry 2 4 false exB j 1 = 1 / 2) ∧
    (∑ j ∈ range 4, entry 2 4 false exB j 2 * entry 2 4 false exB j 2 = 1) ∧
    (∑ j ∈ range 4, entry 2 4 false exB j 0 * entry 2 4 false exB j 2 = -1 / 10) ∧
    (∑ j ∈ range 4, entry 2 4 false exB j 1 * entry 2 4 false exB j 2 = 3 / 10) := by
  refine ⟨ex_run, by decide +kernel, by decide +kernel, by decide +kernel, by decide +kernel, by decide +kernel, by decide +kernel, by decide +kernel⟩

/-- **The result depends on what the vector held on entry** (`B.resize(n*nmodes, 0.0)` zero-fills new cells only and the
fill loop writes two or three cells per row): same coordinates, a vector pre-filled with `7` — cell `(0,1)`, a zero of the
y-translation on a fresh vector, keeps the `7`.  (notes/repro_rbm_resize_keeps_content.cpp: same from the `double` code.) -/
theorem rbm_depends_on_prior_content :
    ∃ nm B B', rigidBodyModes exSqrt 2 exCoo #[] false = .ok (nm, B) ∧
      rigidBodyModes exSqrt 2 exCoo (Array.replicate 12 7) false = .ok (nm, B') ∧
      entry 2 4 false B 0 1 = 0 ∧ entry 2 4 false B' 0 1 = 7 := by
  refine ⟨3, exB, _, by decide +kernel, rfl, by decide +kernel, by decide +kernel⟩

/-! ## how far from orthogonal: the first rotation column -/

theorem raw_translation (sqrt : K → K) (ndim : Nat) (hd : ndim = 2 ∨ ndim = 3) (coo : Array K) (tr : Bool) (j k : Nat)
    (hj : j < coo.size) (hk : k < ndim) :
    entry ndim coo.size tr (rawModes sqrt ndim coo #[] tr) j k
      = if k = j % ndim then 1 / sqrt (coo.size : K) else 0 := by
  rcases hd with rfl | rfl
  · rw [rbm_span_2d sqrt coo tr j k hj (by omega)]
    unfold mode2
    rw [if_neg (by omega)]
  · rw [rbm_span_3d sqrt coo tr j k hj (by omega)]
    unfold mode3
    rw [if_pos hk]

/-- Gram matrix of the translation columns: `δ_{kk'}/ndim` -/
theorem translation_gram (sqrt : K → K) (ndim : Nat) (hd : ndim = 2 ∨ ndim = 3) (coo : Array K) (hdiv : coo.size % ndim = 0)
    (tr : Bool) (hn : sqrt (coo.size : K) * sqrt (coo.size : K) = (coo.size : K)) (hn0 : (coo.size : K) ≠ 0)
    (k k' : Nat) (hk : k < ndim) (hk' : k' < ndim) :
    ∑ j ∈ range coo.size, entry ndim coo.size tr (rawModes sqrt ndim coo #[] tr) j k
        * entry ndim coo.size tr (rawModes sqrt ndim coo #[] tr) j k'
      = if k = k' then 1 / (ndim : K) else 0 := by
  have e : ∀ j ∈ range coo.size, entry ndim coo.size tr (rawModes sqrt ndim coo #[] tr) j k
        * entry ndim coo.size tr (rawModes sqrt ndim coo #[] tr) j k'
      = if k = k' then (if k = j % ndim then (1 / sqrt (coo.size : K)) * (1 / sqrt (coo.size : K)) else 0) else 0 := by
    intro j hj
    have hj' := Finset.mem_range.mp hj
    rw [raw_translation sqrt ndim hd coo tr j k hj' hk, raw_translation sqrt ndim hd coo tr j k' hj' hk']
    by_cases hkk : k = k'
    · subst hkk; rw [if_pos rfl]; split <;> simp
    · rw [if_neg hkk]
      by_cases h1 : k = j % ndim
      · rw [if_pos h1, if_neg (by omega), mul_zero]
      · rw [if_neg h1, zero_mul]
  rw [Finset.sum_congr rfl e]
  by_cases hkk : k = k'
  · simp only [hkk, if_true]
    obtain ⟨m, hm⟩ : ∃ m, coo.size = ndim * m := ⟨coo.size / ndim, by
      have := Nat.div_add_mod coo.size ndim; rw [hdiv] at this; omega⟩
    rw [hm] at hn hn0 ⊢
    rw [sum_component ndim hd k' hk' _ m]
    have hc : ((ndim * m : Nat) : K) = (ndim : K) * (m : K) := by push_cast; ring
    rw [hc] at hn hn0
    have hnd : (ndim : K) ≠ 0 := fun h0 => hn0 (by rw [h0, zero_mul])
    have hm0 : (m : K) ≠ 0 := fun h0 => hn0 (by rw [h0, mul_zero])
    rw [hc]
    have : (1 / sqrt ((ndim : K) * (m : K))) * (1 / sqrt ((ndim : K) * (m : K))) = 1 / ((ndim : K) * (m : K)) := by
      rw [div_mul_div_comm, one_mul, hn]
    rw [this]
    field_simp
  · simp [hkk]

/-- **First rotation column against the translations** (`rbm_first_rotation_gram`): on a fresh vector, with `sqrt` exact at
`n ≠ 0`, the first iteration of the "orthonormalisation" (column `ndim`, the only one in 2D) leaves
`⟨B_ndim, B_k⟩ · s = (1 − 1/ndim) · ⟨T_k, R⟩` for every translation `k`, where `R` is the raw rotation column, `T_k` the
translation column and `s` the divisor — it removes only the fraction `1/ndim` of the component along `T_k`.  The inner
product vanishes only if the raw rotation was orthogonal to the translation to begin with (e.g. centroid at the origin). -/
theorem rbm_first_rotation_gram (sqrt : K → K) (ndim : Nat) (hd : ndim = 2 ∨ ndim = 3) (coo : Array K)
    (hdiv : coo.size % ndim = 0) (tr : Bool)
    (hn : sqrt (coo.size : K) * sqrt (coo.size : K) = (coo.size : K)) (hn0 : (coo.size : K) ≠ 0)
    (hs : (gsStep sqrt (if tr then 1 else nmodes ndim) (if tr then coo.size else 1) coo.size ndim
      (rawModes sqrt ndim coo #[] tr)).2 ≠ 0)
    (k : Nat) (hk : k < ndim) :
    (∑ j ∈ range coo.size,
        entry ndim coo.size tr (gsStep sqrt (if tr then 1 else nmodes ndim) (if tr then coo.size else 1) coo.size ndim
          (rawModes sqrt ndim coo #[] tr)).1 j k
      * entry ndim coo.size tr (gsStep sqrt (if tr then 1 else nmodes ndim) (if tr then coo.size else 1) coo.size ndim
          (rawModes sqrt ndim coo #[] tr)).1 j ndim)
      * (gsStep sqrt (if tr then 1 else nmodes ndim) (if tr then coo.size else 1) coo.size ndim
          (rawModes sqrt ndim coo #[] tr)).2
    = (1 - 1 / (ndim : K)) * ∑ j ∈ range coo.size, entry ndim coo.size tr (rawModes sqrt ndim coo #[] tr) j k
        * entry ndim coo.size tr (rawModes sqrt ndim coo #[] tr) j ndim := by
  have L := lay_of tr coo.size (nmodes ndim)
  have hnm := lt_nmodes hd
  have sp := gsStep_spec sqrt L (rawModes sqrt ndim coo #[] tr) (size_rawModes sqrt ndim hd coo #[] tr) hnm (nmodes_le ndim)
  -- the sum against the translation column, through `colDot_gsW`
  have key := colDot_gsW (s1 := if tr then 1 else nmodes ndim) (s2 := if tr then coo.size else 1) (n := coo.size)
    (fun j => entry ndim coo.size tr (rawModes sqrt ndim coo #[] tr) j k) (rawModes sqrt ndim coo #[] tr) ndim
  have hcd : ∀ k', k' < ndim →
      colDot (if tr then 1 else nmodes ndim) (if tr then coo.size else 1) coo.size
        (fun j => entry ndim coo.size tr (rawModes sqrt ndim coo #[] tr) j k) (rawModes sqrt ndim coo #[] tr) k'
      = if k = k' then 1 / (ndim : K) else 0 := by
    intro k' hk'
    exact translation_gram sqrt ndim hd coo hdiv tr hn hn0 k k' hk hk'
  have hsum : ∑ k' ∈ range ndim,
      (∑ j' ∈ range coo.size, cell (if tr then 1 else nmodes ndim) (if tr then coo.size else 1) (rawModes sqrt ndim coo #[] tr) j' k'
        * cell (if tr then 1 else nmodes ndim) (if tr then coo.size else 1) (rawModes sqrt ndim coo #[] tr) j' ndim)
      * colDot (if tr then 1 else nmodes ndim) (if tr then coo.size else 1) coo.size
        (fun j => entry ndim coo.size tr (rawModes sqrt ndim coo #[] tr) j k) (rawModes sqrt ndim coo #[] tr) k'
      = (∑ j' ∈ range coo.size, cell (if tr then 1 else nmodes ndim) (if tr then coo.size else 1) (rawModes sqrt ndim coo #[] tr) j' k
        * cell (if tr then 1 else nmodes ndim) (if tr then coo.size else 1) (rawModes sqrt ndim coo #[] tr) j' ndim) * (1 / (ndim : K)) := by
    rw [Finset.sum_eq_single k]
    · rw [hcd k hk, if_pos (show k = k from rfl)]
    · intro k' hk' hne
      rw [hcd k' (Finset.mem_range.mp hk'), if_neg (show ¬ k = k' from fun h => hne h.symm), mul_zero]
    · intro h; exact absurd (Finset.mem_range.mpr hk) h
  rw [hsum] at key
  -- the left-hand side in terms of `gsW`
  have e : ∀ j ∈ range coo.size,
      entry ndim coo.size tr (gsStep sqrt (if tr then 1 else nmodes ndim) (if tr then coo.size else 1) coo.size ndim
          (rawModes sqrt ndim coo #[] tr)).1 j k
      * entry ndim coo.size tr (gsStep sqrt (if tr then 1 else nmodes ndim) (if tr then coo.size else 1) coo.size ndim
          (rawModes sqrt ndim coo #[] tr)).1 j ndim
      = (entry ndim coo.size tr (rawModes sqrt ndim coo #[] tr) j k
          * gsW (if tr then 1 else nmodes ndim) (if tr then coo.size else 1) coo.size ndim (rawModes sqrt ndim coo #[] tr) j)
        * ((gsStep sqrt (if tr then 1 else nmodes ndim) (if tr then coo.size else 1) coo.size ndim
          (rawModes sqrt ndim coo #[] tr)).2)⁻¹ := by
    intro j hj
    have hj' := Finset.mem_range.mp hj
    unfold entry
    rw [sp.2.2 j k hj' (by omega), if_neg (by omega), sp.2.2 j ndim hj' hnm, if_pos rfl, div_eq_mul_inv, mul_assoc]
  rw [Finset.sum_congr rfl e, ← Finset.sum_mul, mul_assoc, inv_mul_cancel₀ hs, mul_one, key]
  unfold colDot entry
  ring

example : (∑ j ∈ range 4, entry 2 4 false exB j 1 * entry 2 4 false exB j 2) * (5 / 2 : Rat)
    = (1 - 1 / 2) * ∑ j ∈ range 4, entry 2 4 false (rawModes exSqrt 2 exCoo #[] false) j 1
        * entry 2 4 false (rawModes exSqrt 2 exCoo #[] false) j 2 := by decide +kernel
example : (gsStep exSqrt 3 1 4 2 (rawModes exSqrt 2 exCoo #[] false)).2 ≠ 0 := by decide +kernel

/-! ## composition with the tentative prolongation -/

/-- **Rigid body modes lie in the range of `P_tent`** (`rbm_ptent_zero_energy`, dual form).  Let `B` (row-major) be what
`rigid_body_modes` returns, with no zero divisor, and let `P` (`n × nc`, entries `Pe j c`) and `B_c` (`nc × nmodes`,
row-major) reproduce it, `(P·B_c)[j,k] = B[j,k]`, on every row where `a` is not zero — the conclusion of
`reproducesB_sound` (C04, `P_tent·B_c = B` on aggregated rows) at `tol = 0`.  Then every row vector `a` with `a·P = 0`
annihilates the translations and rotations: `ker P_tentᵀ ⊆ ker B_rawᵀ`, i.e. the rigid body modes are in the range of the
tentative prolongation. -/
theorem rbm_ptent_zero_energy (sqrt : K → K) (ndim : Nat) (coo B0 : Array K) (nm : Nat) (B : Array K) (ss : List K)
    (h : rigidBodyModesFull sqrt ndim coo B0 false = .ok (nm, B, ss)) (hs : ∀ s ∈ ss, s ≠ 0)
    (nc : Nat) (Pe : Nat → Nat → K) (Bc : Array K) (a : Nat → K)
    (hrep : ∀ j, j < coo.size → a j = 0 ∨
      ∀ k, k < nm → ∑ c ∈ range nc, Pe j c * Bc.getD (c * nm + k) 0 = B.getD (j * nm + k) 0)
    (ha : ∀ c, c < nc → ∑ j ∈ range coo.size, a j * Pe j c = 0) :
    ∀ k, k < nm → ∑ j ∈ range coo.size, a j * entry ndim coo.size false (rawModes sqrt ndim coo B0 false) j k = 0 := by
  apply rbm_span_preserved sqrt ndim coo B0 false nm B ss h hs a
  obtain ⟨_, _, hnm, _⟩ := rbm_ok sqrt ndim coo B0 false nm B ss h
  intro k hk
  have e : ∀ j ∈ range coo.size, a j * entry ndim coo.size false B j k
      = ∑ c ∈ range nc, (a j * Pe j c) * Bc.getD (c * nm + k) 0 := by
    intro j hj
    have hB : entry ndim coo.size false B j k = B.getD (j * nm + k) 0 := by
      unfold entry cell; simp [hnm]
    rcases hrep j (Finset.mem_range.mp hj) with h0 | h1
    · rw [h0]; simp
    · rw [hB, ← h1 k hk, Finset.mul_sum]
      apply Finset.sum_congr rfl
      intro c _; ring
  rw [Finset.sum_congr rfl e, Finset.sum_comm]
  apply Finset.sum_eq_zero
  intro c hc
  rw [← Finset.sum_mul, ha c (Finset.mem_range.mp hc), zero_mul]

/-- non-vacuous: `P = exB` (dense), `B_c = I_3`, `a = (−3, −1, 3, 1)` -/
example : ∀ k, k < 3 → ∑ j ∈ range exCoo.size, (#[-3, -1, 3, 1] : Array Rat).getD j 0
    * entry 2 exCoo.size false (rawModes exSqrt 2 exCoo #[] false) j k = 0 :=
  rbm_ptent_zero_energy exSqrt 2 exCoo #[] 3 exB [5 / 2] ex_run (by decide +kernel) 3
    (fun j c => exB.getD (j * 3 + c) 0) #[1, 0, 0, 0, 1, 0, 0, 0, 1] (fun j => (#[-3, -1, 3, 1] : Array Rat).getD j 0)
    (by decide +kernel) (by decide +kernel)

end Amgcl.C04c
