import Amgcl.Proofs.LockstepRichardson
import Amgcl.Proofs.LockstepBiCGStab
import Amgcl.Proofs.LockstepFGMRES
import Amgcl.Proofs.LockstepLGMRES
import Amgcl.Model.LockstepPreonly
import Amgcl.Properties.C12
/-!
# C12 (continued) — the other distributed Krylov solvers: Richardson, BiCGStab, GMRES, FGMRES, LGMRES, preonly

`amgcl/mpi/solver/{richardson,bicgstab,gmres,fgmres,lgmres,preonly}.hpp` instantiate the SERIAL templates with
`InnerProduct = mpi::inner_product`.  `Model/Lockstep{Richardson,BiCGStab,GMRES}.lean` write the statements of the four
`operator()`s in the instruction set of `Model/Lockstep.lean` (the scalar state of a rank is the record of the
solver's scalar locals; for GMRES/FGMRES it contains the rank's own copy of `H, s, cs, sn`, and the basis vectors
`*v[j]` are selected by the rank's own `j`).  For each solver `S`:

* `Lockstep.S.prog_eq_run` (Proofs/LockstepS.lean) — the SERIAL semantics of the program IS the statement-by-statement
  model `Solver.S.run` of C01/C05/C15: same outcome (`(iters, resid)` or the exception), same `x`, same work vectors /
  work arrays.  So the program is the same algorithm as the serial model, by proof and not by inspection.
* `lockstep_S_refines_serial` — the DISTRIBUTED semantics (every rank its own scalars, `MPI_Allreduce` inner
  products, ghost-exchange `spmv`/`residual`, distributed preconditioner): for every rank count `≥ 1` and every
  contiguous partition (empty ranks included) the run never blocks on a branch (all ranks take the same branches and
  leave every loop together), every rank returns the `(iters, resid)` — or throws the exception — of the serial
  `Solver.S.run` on the assembled system with the global inner product, and the ranks' parts of `x` assemble to the
  serial solution.
* `lockstep_S_truthful` — with the C01 truthfulness theorems: whenever the call returns, the residual EVERY rank
  reports is the true global (preconditioned, for left preconditioning) residual `‖f − A x‖ / ‖f‖` of the solution
  assembled from the ranks' parts.

BiCGStab: a failed `precondition` (zero `rho` / zero `omega`) is thrown by all ranks in the same statement
(`outOf` of every rank is the serial exception).
-/
namespace Amgcl.C12
open Amgcl Amgcl.Dist Amgcl.Lockstep Amgcl.Solver

variable {K : Type} [Field K] [DecidableEq K] [LT K] [DecidableLT K]

/-! ## Richardson -/

/-- **Richardson, distributed = serial.** -/
theorem lockstep_richardson_refines_serial (A : CRS K) (P : Vec K → Vec K) (C : DCtx K) (hS : Setup A P C)
    (prm : Solver.Richardson.Params K) (sqrt : K → K) (eps : K) (ws : Solver.Richardson.Work K) (f x0 : Vec K)
    (hf : f.size = C.part.sum) (hx : x0.size = C.part.sum) (hr : ws.r.size = C.part.sum)
    (hs : ws.s.size = C.part.sum) :
    ∃ ds', drun C (Lockstep.Richardson.prog prm sqrt eps)
        (distribute C.part (Lockstep.Richardson.initState ws f x0)) = some ds' ∧
      (∀ r, r < C.part.length → Except.ok (Lockstep.Richardson.outOf (ds'.scal r))
        = (Solver.Richardson.run prm (innerProductSerial C.conj) sqrt eps A P ws f x0).out) ∧
      ds'.vec Lockstep.Richardson.vX
        = splitVec (Solver.Richardson.run prm (innerProductSerial C.conj) sqrt eps A P ws f x0).x C.part ∧
      concatVec (ds'.vec Lockstep.Richardson.vX)
        = (Solver.Richardson.run prm (innerProductSerial C.conj) sqrt eps A P ws f x0).x := by
  have hsize : ∀ v, ((Lockstep.Richardson.initState ws f x0).vec v).size = C.part.sum := by
    intro v
    unfold Lockstep.Richardson.initState
    simp only
    split_ifs <;> assumption
  obtain ⟨ds', h1, h2, h3⟩ := lockstep_refines_serial A P C hS (Lockstep.Richardson.prog prm sqrt eps) _ hsize
  rw [Lockstep.Richardson.prog_eq_run]
  exact ⟨ds', h1, fun r hr => by rw [h2 r hr]; rfl, (h3 _).1, (h3 _).2⟩

/-- **… and every rank reports the true global residual of the assembled solution.** -/
theorem lockstep_richardson_truthful (A : CRS K) (P : Vec K → Vec K) (C : DCtx K) (hS : Setup A P C)
    (prm : Solver.Richardson.Params K) (sqrt : K → K) (eps : K) (ws : Solver.Richardson.Work K) (f x0 : Vec K)
    (hf : f.size = C.part.sum) (hx : x0.size = C.part.sum) (hr : ws.r.size = C.part.sum)
    (hs : ws.s.size = C.part.sum) (it : Nat) (res : K) (x : Vec K) (w : Solver.Richardson.Work K)
    (h : Solver.Richardson.solve prm (innerProductSerial C.conj) sqrt eps A P ws f x0 = .ok (it, res, x, w)) :
    ∃ ds', drun C (Lockstep.Richardson.prog prm sqrt eps)
        (distribute C.part (Lockstep.Richardson.initState ws f x0)) = some ds' ∧
      (∀ r, r < C.part.length → Lockstep.Richardson.outOf (ds'.scal r) = (it, res)) ∧
      concatVec (ds'.vec Lockstep.Richardson.vX) = x ∧
      res = reported (prologue prm.nsSearch (innerProductSerial C.conj) sqrt eps f)
              (nrm (innerProductSerial C.conj) sqrt (residual f A (concatVec (ds'.vec Lockstep.Richardson.vX)))) := by
  obtain ⟨ds', h1, h2, _, h4⟩ := lockstep_richardson_refines_serial A P C hS prm sqrt eps ws f x0 hf hx hr hs
  have ht := C01.richardson_truthful prm _ sqrt eps A P ws f x0 it res x w h
  rw [Solver.Richardson.solve, Run.toExcept_ok] at h
  rw [h] at h2 h4
  refine ⟨ds', h1, fun r hr => ?_, h4, ?_⟩
  · have := h2 r hr
    simpa [Run.out] using this
  · rw [h4]; exact ht

/-! ## BiCGStab -/

/-- **BiCGStab, distributed = serial**, exceptions included: `outOf` of every rank is the serial outcome. -/
theorem lockstep_bicgstab_refines_serial (A : CRS K) (P : Vec K → Vec K) (C : DCtx K) (hS : Setup A P C)
    (prm : Solver.BiCGStab.Params K) (sqrt : K → K) (eps : K) (ws : Solver.BiCGStab.Work K) (f x0 : Vec K)
    (hf : f.size = C.part.sum) (hx : x0.size = C.part.sum)
    (hw : ws.r.size = C.part.sum ∧ ws.p.size = C.part.sum ∧ ws.v.size = C.part.sum ∧ ws.s.size = C.part.sum ∧
      ws.t.size = C.part.sum ∧ ws.rh.size = C.part.sum ∧ ws.T.size = C.part.sum) :
    ∃ ds', drun C (Lockstep.BiCGStab.prog prm sqrt eps)
        (distribute C.part (Lockstep.BiCGStab.initState ws f x0)) = some ds' ∧
      (∀ r, r < C.part.length → Lockstep.BiCGStab.outOf (ds'.scal r)
        = (Solver.BiCGStab.run prm (innerProductSerial C.conj) sqrt eps A P ws f x0).out) ∧
      ds'.vec Lockstep.BiCGStab.vX
        = splitVec (Solver.BiCGStab.run prm (innerProductSerial C.conj) sqrt eps A P ws f x0).x C.part ∧
      concatVec (ds'.vec Lockstep.BiCGStab.vX)
        = (Solver.BiCGStab.run prm (innerProductSerial C.conj) sqrt eps A P ws f x0).x := by
  obtain ⟨h1, h2, h3, h4, h5, h6, h7⟩ := hw
  have hsize : ∀ v, ((Lockstep.BiCGStab.initState ws f x0).vec v).size = C.part.sum := by
    intro v
    unfold Lockstep.BiCGStab.initState
    simp only
    split_ifs <;> assumption
  obtain ⟨ds', g1, g2, g3⟩ := lockstep_refines_serial A P C hS (Lockstep.BiCGStab.prog prm sqrt eps) _ hsize
  rw [Lockstep.BiCGStab.prog_eq_run]
  exact ⟨ds', g1, fun r hr => by rw [g2 r hr]; rfl, (g3 _).1, (g3 _).2⟩

/-- **… and every rank reports the true global (preconditioned) residual of the assembled solution.** -/
theorem lockstep_bicgstab_truthful (A : CRS K) (P : Vec K → Vec K) (C : DCtx K) (hS : Setup A P C)
    (prm : Solver.BiCGStab.Params K) (ok : BiCGStab.SideOK prm.pside A P) (sqrt : K → K) (eps : K)
    (ws : Solver.BiCGStab.Work K) (f x0 : Vec K)
    (hf : f.size = C.part.sum) (hx : x0.size = C.part.sum)
    (hw : ws.r.size = C.part.sum ∧ ws.p.size = C.part.sum ∧ ws.v.size = C.part.sum ∧ ws.s.size = C.part.sum ∧
      ws.t.size = C.part.sum ∧ ws.rh.size = C.part.sum ∧ ws.T.size = C.part.sum)
    (it : Nat) (res : K) (x : Vec K) (w : Solver.BiCGStab.Work K)
    (h : Solver.BiCGStab.solve prm (innerProductSerial C.conj) sqrt eps A P ws f x0 = .ok (it, res, x, w)) :
    ∃ ds', drun C (Lockstep.BiCGStab.prog prm sqrt eps)
        (distribute C.part (Lockstep.BiCGStab.initState ws f x0)) = some ds' ∧
      (∀ r, r < C.part.length → Lockstep.BiCGStab.outOf (ds'.scal r) = .ok (it, res)) ∧
      concatVec (ds'.vec Lockstep.BiCGStab.vX) = x ∧
      res = reported (prologue prm.nsSearch (innerProductSerial C.conj) sqrt eps f)
              (nrm (innerProductSerial C.conj) sqrt
                (BiCGStab.Rf prm.pside P f A (concatVec (ds'.vec Lockstep.BiCGStab.vX)))) := by
  obtain ⟨ds', h1, h2, _, h4⟩ := lockstep_bicgstab_refines_serial A P C hS prm sqrt eps ws f x0 hf hx hw
  have ht := C01.bicgstab_truthful prm _ sqrt eps A P ok ws f x0 it res x w h
  rw [Solver.BiCGStab.solve, Run.toExcept_ok] at h
  rw [h] at h2 h4
  refine ⟨ds', h1, fun r hr => ?_, h4, ?_⟩
  · have := h2 r hr
    simpa [Run.out] using this
  · rw [h4]; exact ht

/-! ## GMRES -/

/-- **GMRES, distributed = serial.** -/
theorem lockstep_gmres_refines_serial (A : CRS K) (P : Vec K → Vec K) (C : DCtx K) (hS : Setup A P C)
    (prm : Solver.GMRES.Params K) (sqrt : K → K) (eps : K) (ws : Solver.GMRES.Work K) (f x0 : Vec K)
    (hf : f.size = C.part.sum) (hx : x0.size = C.part.sum) (hr : ws.r.size = C.part.sum)
    (hv : ∀ i, (ws.v i).size = C.part.sum) :
    ∃ ds', drun C (Lockstep.GMRES.prog prm sqrt eps)
        (distribute C.part (Lockstep.GMRES.initState ws f x0)) = some ds' ∧
      (∀ r, r < C.part.length → Except.ok (Lockstep.GMRES.outOf (ds'.scal r))
        = (Solver.GMRES.run prm (innerProductSerial C.conj) sqrt eps A P ws f x0).out) ∧
      ds'.vec Lockstep.GMRES.vX
        = splitVec (Solver.GMRES.run prm (innerProductSerial C.conj) sqrt eps A P ws f x0).x C.part ∧
      concatVec (ds'.vec Lockstep.GMRES.vX)
        = (Solver.GMRES.run prm (innerProductSerial C.conj) sqrt eps A P ws f x0).x := by
  have hsize : ∀ v, ((Lockstep.GMRES.initState ws f x0).vec v).size = C.part.sum := by
    intro v
    unfold Lockstep.GMRES.initState
    simp only
    split_ifs
    · exact hf
    · exact hx
    · exact hr
    · exact hv _
  obtain ⟨ds', g1, g2, g3⟩ := lockstep_refines_serial A P C hS (Lockstep.GMRES.prog prm sqrt eps) _ hsize
  rw [Lockstep.GMRES.prog_eq_run]
  exact ⟨ds', g1, fun r hr => by rw [g2 r hr]; rfl, (g3 _).1, (g3 _).2⟩

/-- **… and every rank reports the true global (preconditioned) residual of the assembled solution.** -/
theorem lockstep_gmres_truthful (A : CRS K) (P : Vec K → Vec K) (C : DCtx K) (hS : Setup A P C)
    (prm : Solver.GMRES.Params K) (sqrt : K → K) (eps : K) (ws : Solver.GMRES.Work K) (f x0 : Vec K)
    (hf : f.size = C.part.sum) (hx : x0.size = C.part.sum) (hr : ws.r.size = C.part.sum)
    (hv : ∀ i, (ws.v i).size = C.part.sum) (it : Nat) (res : K) (x : Vec K) (w : Solver.GMRES.Work K)
    (h : Solver.GMRES.solve prm (innerProductSerial C.conj) sqrt eps A P ws f x0 = .ok (it, res, x, w)) :
    ∃ ds', drun C (Lockstep.GMRES.prog prm sqrt eps)
        (distribute C.part (Lockstep.GMRES.initState ws f x0)) = some ds' ∧
      (∀ r, r < C.part.length → Lockstep.GMRES.outOf (ds'.scal r) = (it, res)) ∧
      concatVec (ds'.vec Lockstep.GMRES.vX) = x ∧
      res = reported (prologueA prm.nsSearch (innerProductSerial C.conj) sqrt eps f)
              (nrmA (innerProductSerial C.conj) sqrt
                (BiCGStab.Rf prm.pside P f A (concatVec (ds'.vec Lockstep.GMRES.vX)))) := by
  obtain ⟨ds', h1, h2, _, h4⟩ := lockstep_gmres_refines_serial A P C hS prm sqrt eps ws f x0 hf hx hr hv
  have ht := C01.gmres_truthful prm _ sqrt eps A P ws f x0 it res x w h
  rw [Solver.GMRES.solve, Run.toExcept_ok] at h
  rw [h] at h2 h4
  refine ⟨ds', h1, fun r hr => ?_, h4, ?_⟩
  · have := h2 r hr
    simpa [Run.out] using this
  · rw [h4]; exact ht

/-! ## FGMRES -/

/-- **FGMRES, distributed = serial.** -/
theorem lockstep_fgmres_refines_serial (A : CRS K) (P : Vec K → Vec K) (C : DCtx K) (hS : Setup A P C)
    (prm : Solver.FGMRES.Params K) (sqrt : K → K) (eps : K) (ws : Solver.FGMRES.Work K) (f x0 : Vec K)
    (hf : f.size = C.part.sum) (hx : x0.size = C.part.sum)
    (hv : ∀ i, (ws.v i).size = C.part.sum) (hz : ∀ i, (ws.z i).size = C.part.sum) :
    ∃ ds', drun C (Lockstep.FGMRES.prog prm sqrt eps)
        (distribute C.part (Lockstep.FGMRES.initState ws f x0)) = some ds' ∧
      (∀ r, r < C.part.length → Except.ok (Lockstep.GMRES.outOf (ds'.scal r))
        = (Solver.FGMRES.run prm (innerProductSerial C.conj) sqrt eps A P ws f x0).out) ∧
      ds'.vec Lockstep.FGMRES.vX
        = splitVec (Solver.FGMRES.run prm (innerProductSerial C.conj) sqrt eps A P ws f x0).x C.part ∧
      concatVec (ds'.vec Lockstep.FGMRES.vX)
        = (Solver.FGMRES.run prm (innerProductSerial C.conj) sqrt eps A P ws f x0).x := by
  have hsize : ∀ v, ((Lockstep.FGMRES.initState ws f x0).vec v).size = C.part.sum := by
    intro v
    unfold Lockstep.FGMRES.initState
    simp only
    split_ifs
    · exact hf
    · exact hx
    · exact hv _
    · exact hz _
  obtain ⟨ds', g1, g2, g3⟩ := lockstep_refines_serial A P C hS (Lockstep.FGMRES.prog prm sqrt eps) _ hsize
  rw [Lockstep.FGMRES.prog_eq_run]
  exact ⟨ds', g1, fun r hr => by rw [g2 r hr]; rfl, (g3 _).1, (g3 _).2⟩

/-- **… and every rank reports the true global residual of the assembled solution.** -/
theorem lockstep_fgmres_truthful (A : CRS K) (P : Vec K → Vec K) (C : DCtx K) (hS : Setup A P C)
    (prm : Solver.FGMRES.Params K) (sqrt : K → K) (eps : K) (ws : Solver.FGMRES.Work K) (f x0 : Vec K)
    (hf : f.size = C.part.sum) (hx : x0.size = C.part.sum)
    (hv : ∀ i, (ws.v i).size = C.part.sum) (hz : ∀ i, (ws.z i).size = C.part.sum)
    (it : Nat) (res : K) (x : Vec K) (w : Solver.FGMRES.Work K)
    (h : Solver.FGMRES.solve prm (innerProductSerial C.conj) sqrt eps A P ws f x0 = .ok (it, res, x, w)) :
    ∃ ds', drun C (Lockstep.FGMRES.prog prm sqrt eps)
        (distribute C.part (Lockstep.FGMRES.initState ws f x0)) = some ds' ∧
      (∀ r, r < C.part.length → Lockstep.GMRES.outOf (ds'.scal r) = (it, res)) ∧
      concatVec (ds'.vec Lockstep.FGMRES.vX) = x ∧
      res = reported (prologueA prm.nsSearch (innerProductSerial C.conj) sqrt eps f)
              (nrmA (innerProductSerial C.conj) sqrt (residual f A (concatVec (ds'.vec Lockstep.FGMRES.vX)))) := by
  obtain ⟨ds', h1, h2, _, h4⟩ := lockstep_fgmres_refines_serial A P C hS prm sqrt eps ws f x0 hf hx hv hz
  have ht := C01.fgmres_truthful prm _ sqrt eps A P ws f x0 it res x w h
  rw [Solver.FGMRES.solve, Run.toExcept_ok] at h
  rw [h] at h2 h4
  refine ⟨ds', h1, fun r hr => ?_, h4, ?_⟩
  · have := h2 r hr
    simpa [Run.out] using this
  · rw [h4]; exact ht

/-! ## LGMRES -/

/-- **LGMRES, distributed = serial** — for whatever augmentation vectors and pointers the solver object carries from
earlier calls (`always_reset` on or off): every rank keeps its own copy of the pointer members `ws`, `outer_v`, selects
the same vectors, and the object's members after the call are the parts of the serial object's members. -/
theorem lockstep_lgmres_refines_serial (A : CRS K) (P : Vec K → Vec K) (C : DCtx K) (hS : Setup A P C)
    (prm : Solver.LGMRES.Params K) (sqrt : K → K) (eps : K) (ws : Solver.LGMRES.Work K) (f x0 : Vec K)
    (hf : f.size = C.part.sum) (hx : x0.size = C.part.sum) (hr : ws.r.size = C.part.sum)
    (hv : ∀ i, (ws.vs i).size = C.part.sum) (ho : ∀ i, (ws.odata i).size = C.part.sum) :
    ∃ ds', drun C (Lockstep.LGMRES.prog prm sqrt eps)
        (distribute C.part (Lockstep.LGMRES.initState ws f x0)) = some ds' ∧
      (∀ r, r < C.part.length → Except.ok (Lockstep.LGMRES.outOf (ds'.scal r))
        = (Solver.LGMRES.run prm (innerProductSerial C.conj) sqrt eps A P ws f x0).out) ∧
      ds'.vec Lockstep.LGMRES.vX
        = splitVec (Solver.LGMRES.run prm (innerProductSerial C.conj) sqrt eps A P ws f x0).x C.part ∧
      concatVec (ds'.vec Lockstep.LGMRES.vX)
        = (Solver.LGMRES.run prm (innerProductSerial C.conj) sqrt eps A P ws f x0).x := by
  have hsize : ∀ v, ((Lockstep.LGMRES.initState ws f x0).vec v).size = C.part.sum := by
    intro v
    unfold Lockstep.LGMRES.initState
    simp only
    split_ifs
    · exact hf
    · exact hx
    · exact hr
    · exact hf
    · exact hv _
    · exact ho _
  obtain ⟨ds', g1, g2, g3⟩ := lockstep_refines_serial A P C hS (Lockstep.LGMRES.prog prm sqrt eps) _ hsize
  rw [Lockstep.LGMRES.prog_eq_run]
  exact ⟨ds', g1, fun r hr => by rw [g2 r hr]; rfl, (g3 _).1, (g3 _).2⟩

/-- **… and every rank reports the true global (preconditioned) residual of the assembled solution.** -/
theorem lockstep_lgmres_truthful (A : CRS K) (P : Vec K → Vec K) (C : DCtx K) (hS : Setup A P C)
    (prm : Solver.LGMRES.Params K) (sqrt : K → K) (eps : K) (ws : Solver.LGMRES.Work K) (f x0 : Vec K)
    (hf : f.size = C.part.sum) (hx : x0.size = C.part.sum) (hr : ws.r.size = C.part.sum)
    (hv : ∀ i, (ws.vs i).size = C.part.sum) (ho : ∀ i, (ws.odata i).size = C.part.sum)
    (it : Nat) (res : K) (x : Vec K) (w : Solver.LGMRES.Work K)
    (h : Solver.LGMRES.solve prm (innerProductSerial C.conj) sqrt eps A P ws f x0 = .ok (it, res, x, w)) :
    ∃ ds', drun C (Lockstep.LGMRES.prog prm sqrt eps)
        (distribute C.part (Lockstep.LGMRES.initState ws f x0)) = some ds' ∧
      (∀ r, r < C.part.length → Lockstep.LGMRES.outOf (ds'.scal r) = (it, res)) ∧
      concatVec (ds'.vec Lockstep.LGMRES.vX) = x ∧
      res = reported (prologueA prm.nsSearch (innerProductSerial C.conj) sqrt eps f)
              (nrmA (innerProductSerial C.conj) sqrt
                (BiCGStab.Rf prm.pside P f A (concatVec (ds'.vec Lockstep.LGMRES.vX)))) := by
  obtain ⟨ds', h1, h2, _, h4⟩ := lockstep_lgmres_refines_serial A P C hS prm sqrt eps ws f x0 hf hx hr hv ho
  have ht := C01.lgmres_truthful prm _ sqrt eps A P ws f x0 it res x w h
  rw [Solver.LGMRES.solve, Run.toExcept_ok] at h
  rw [h] at h2 h4
  refine ⟨ds', h1, fun r hr => ?_, h4, ?_⟩
  · have := h2 r hr
    simpa [Run.out] using this
  · rw [h4]; exact ht

/-! ## preonly -/

/-- **preonly, distributed = serial**: `P.apply(rhs, x)` on every rank gives the parts of the serial `P rhs`; the
returned `(0, 0)` is a constant (preonly is outside the truthfulness claim, `C01.preonly_reports_zero`). -/
theorem lockstep_preonly_refines_serial (A : CRS K) (P : Vec K → Vec K) (C : DCtx K) (hS : Setup A P C)
    (sqrt : K → K) (eps : K) (f x0 : Vec K) (hf : f.size = C.part.sum) (hx : x0.size = C.part.sum) :
    ∃ ds', drun C (Lockstep.Preonly.prog : Prog K Unit) (distribute C.part (Lockstep.Preonly.initState f x0)) = some ds' ∧
      ds'.vec Lockstep.Preonly.vX
        = splitVec (Solver.Preonly.run (innerProductSerial C.conj) sqrt eps A P () f x0).x C.part ∧
      concatVec (ds'.vec Lockstep.Preonly.vX)
        = (Solver.Preonly.run (innerProductSerial C.conj) sqrt eps A P () f x0).x := by
  have hsize : ∀ v, ((Lockstep.Preonly.initState f x0).vec v).size = C.part.sum := by
    intro v
    unfold Lockstep.Preonly.initState
    simp only
    split_ifs <;> assumption
  obtain ⟨ds', g1, _, g3⟩ := lockstep_refines_serial A P C hS (Lockstep.Preonly.prog : Prog K Unit) _ hsize
  refine ⟨ds', g1, ?_, ?_⟩
  · rw [(g3 _).1]; rfl
  · rw [(g3 _).2]; rfl

/-! ## non-vacuity: the hypotheses of every theorem above are satisfiable on a concrete run

The 1-D Laplacian `exA` on 3 ranks (the middle one EMPTY), rank-local diagonal preconditioner `x = M .* rhs`
(`setup_diag_precond`), `sqrt = id` (the theorems hold for every `sqrt`); the serial model is evaluated by the kernel. -/

def exM : Vec Rat := #[1/2, 1/3, 1/2]
def exP : Vec Rat → Vec Rat := fun g => vmul 1 exM g 0 #[]
def exCd : DCtx Rat :=
  { Ds := split exA [2, 0, 1] [2, 0, 1], part := [2, 0, 1], conj := id,
    Pd := fun gs => (List.range 3).map (fun r => vmul 1 (vecPart exM [2, 0, 1] r) (gs.getD r #[]) 0 #[]) }

theorem exSetup : Setup exA exP exCd :=
  setup_diag_precond exA [2, 0, 1] exM (by decide) (by decide) (by decide) (by decide) (by decide) id

theorem ok_of_toBool {ε α : Type} (e : Except ε α) (h : e.toBool = true) : ∃ a, e = .ok a := by
  cases e with
  | error _ => simp [Except.toBool] at h
  | ok a => exact ⟨a, rfl⟩

theorem size_replicate3 : (Array.replicate 3 (0 : Rat)).size = exCd.part.sum := by simp; decide

def exRich : Solver.Richardson.Params Rat := ⟨⟨2, 0, 0, false⟩, 1/2⟩

example : ∃ ds', drun exCd (Lockstep.Richardson.prog exRich id 0)
      (distribute exCd.part (Lockstep.Richardson.initState (Solver.Richardson.Work.fresh 3) #[1, 2, 3] #[0, 0, 0])) = some ds' ∧
    ∃ it res, (∀ r, r < 3 → Lockstep.Richardson.outOf (ds'.scal r) = (it, res)) ∧
      res = reported (prologue false (innerProductSerial id) id 0 #[1, 2, 3])
        (nrm (innerProductSerial id) id (residual #[1, 2, 3] exA (concatVec (ds'.vec Lockstep.Richardson.vX)))) := by
  obtain ⟨⟨it, res, x, w⟩, h⟩ := ok_of_toBool _ (by decide +kernel :
    (Solver.Richardson.solve exRich (innerProductSerial id) id 0 exA exP (Solver.Richardson.Work.fresh 3)
      #[1, 2, 3] #[0, 0, 0]).toBool = true)
  obtain ⟨ds', h1, h2, _, h4⟩ := lockstep_richardson_truthful exA exP exCd exSetup exRich id 0 _ _ _
    (by decide) (by decide) size_replicate3 size_replicate3 it res x w h
  exact ⟨ds', h1, it, res, h2, h4⟩

def exBi : Solver.BiCGStab.Params Rat := ⟨⟨2, 0, 0, false⟩, .right, false⟩

theorem exSideOK : BiCGStab.SideOK exBi.pside exA exP :=
  { wf := by decide, psize := fun v => by unfold exP; rw [Lockstep.size_vmul]; decide, left := fun h => by cases h }

example : ∃ ds', drun exCd (Lockstep.BiCGStab.prog exBi id 0)
      (distribute exCd.part (Lockstep.BiCGStab.initState (Solver.BiCGStab.Work.fresh 3) #[1, 2, 3] #[0, 0, 0])) = some ds' ∧
    ∃ it res, (∀ r, r < 3 → Lockstep.BiCGStab.outOf (ds'.scal r) = .ok (it, res)) ∧
      res = reported (prologue false (innerProductSerial id) id 0 #[1, 2, 3])
        (nrm (innerProductSerial id) id (residual #[1, 2, 3] exA (concatVec (ds'.vec Lockstep.BiCGStab.vX)))) := by
  obtain ⟨⟨it, res, x, w⟩, h⟩ := ok_of_toBool _ (by decide +kernel :
    (Solver.BiCGStab.solve exBi (innerProductSerial id) id 0 exA exP (Solver.BiCGStab.Work.fresh 3)
      #[1, 2, 3] #[0, 0, 0]).toBool = true)
  obtain ⟨ds', h1, h2, _, h4⟩ := lockstep_bicgstab_truthful exA exP exCd exSetup exBi exSideOK id 0 _ _ _
    (by decide) (by decide)
    ⟨size_replicate3, size_replicate3, size_replicate3, size_replicate3, size_replicate3, size_replicate3,
      size_replicate3⟩ it res x w h
  exact ⟨ds', h1, it, res, h2, h4⟩

def exGm : Solver.GMRES.Params Rat := ⟨⟨2, 0, 0, false⟩, 2, .right⟩

example : ∃ ds', drun exCd (Lockstep.GMRES.prog exGm id 0)
      (distribute exCd.part (Lockstep.GMRES.initState (Solver.GMRES.Work.fresh 3) #[1, 2, 3] #[0, 0, 0])) = some ds' ∧
    ∃ it res, (∀ r, r < 3 → Lockstep.GMRES.outOf (ds'.scal r) = (it, res)) ∧
      res = reported (prologueA false (innerProductSerial id) id 0 #[1, 2, 3])
        (nrmA (innerProductSerial id) id (residual #[1, 2, 3] exA (concatVec (ds'.vec Lockstep.GMRES.vX)))) := by
  obtain ⟨⟨it, res, x, w⟩, h⟩ := ok_of_toBool _ (by decide +kernel :
    (Solver.GMRES.solve exGm (innerProductSerial id) id 0 exA exP (Solver.GMRES.Work.fresh 3)
      #[1, 2, 3] #[0, 0, 0]).toBool = true)
  obtain ⟨ds', h1, h2, _, h4⟩ := lockstep_gmres_truthful exA exP exCd exSetup exGm id 0 _ _ _
    (by decide) (by decide) size_replicate3 (fun _ => size_replicate3) it res x w h
  exact ⟨ds', h1, it, res, h2, h4⟩

def exFg : Solver.FGMRES.Params Rat := ⟨⟨2, 0, 0, false⟩, 2⟩

example : ∃ ds', drun exCd (Lockstep.FGMRES.prog exFg id 0)
      (distribute exCd.part (Lockstep.FGMRES.initState (Solver.FGMRES.Work.fresh 3) #[1, 2, 3] #[0, 0, 0])) = some ds' ∧
    ∃ it res, (∀ r, r < 3 → Lockstep.GMRES.outOf (ds'.scal r) = (it, res)) ∧
      res = reported (prologueA false (innerProductSerial id) id 0 #[1, 2, 3])
        (nrmA (innerProductSerial id) id (residual #[1, 2, 3] exA (concatVec (ds'.vec Lockstep.FGMRES.vX)))) := by
  obtain ⟨⟨it, res, x, w⟩, h⟩ := ok_of_toBool _ (by decide +kernel :
    (Solver.FGMRES.solve exFg (innerProductSerial id) id 0 exA exP (Solver.FGMRES.Work.fresh 3)
      #[1, 2, 3] #[0, 0, 0]).toBool = true)
  obtain ⟨ds', h1, h2, _, h4⟩ := lockstep_fgmres_truthful exA exP exCd exSetup exFg id 0 _ _ _
    (by decide) (by decide) (fun _ => size_replicate3) (fun _ => size_replicate3) it res x w h
  exact ⟨ds', h1, it, res, h2, h4⟩

def exLg : Solver.LGMRES.Params Rat := ⟨⟨3, 0, 0, false⟩, 1, 1, false, .right⟩

/-- LGMRES(1,1) with right preconditioning: three cycles, the second and third use the augmentation vector, `*ws[0]`
is overwritten by `P.apply(dx, tmp)` -/
example : ∃ ds', drun exCd (Lockstep.LGMRES.prog exLg id 0)
      (distribute exCd.part (Lockstep.LGMRES.initState (Solver.LGMRES.Work.fresh 3) #[1, 2, 3] #[0, 0, 0])) = some ds' ∧
    ∃ it res, (∀ r, r < 3 → Lockstep.LGMRES.outOf (ds'.scal r) = (it, res)) ∧
      res = reported (prologueA false (innerProductSerial id) id 0 #[1, 2, 3])
        (nrmA (innerProductSerial id) id (residual #[1, 2, 3] exA (concatVec (ds'.vec Lockstep.LGMRES.vX)))) := by
  obtain ⟨⟨it, res, x, w⟩, h⟩ := ok_of_toBool _ (by decide +kernel :
    (Solver.LGMRES.solve exLg (innerProductSerial id) id 0 exA exP (Solver.LGMRES.Work.fresh 3)
      #[1, 2, 3] #[0, 0, 0]).toBool = true)
  obtain ⟨ds', h1, h2, _, h4⟩ := lockstep_lgmres_truthful exA exP exCd exSetup exLg id 0 _ _ _
    (by decide) (by decide) size_replicate3 (fun _ => size_replicate3) (fun _ => size_replicate3) it res x w h
  exact ⟨ds', h1, it, res, h2, h4⟩

example : (match Solver.LGMRES.solve exLg (innerProductSerial id) id 0 exA exP (Solver.LGMRES.Work.fresh 3)
      #[1, 2, 3] #[0, 0, 0] with
    | .ok (it, _, _, _) => decide (it = 3) | _ => false) = true := by decide +kernel

/-- the runs above are not trivial: the serial models (hence, by the theorems, EVERY rank of the distributed runs)
make two passes / two Arnoldi steps -/
example : (match Solver.BiCGStab.solve exBi (innerProductSerial id) id 0 exA exP (Solver.BiCGStab.Work.fresh 3)
      #[1, 2, 3] #[0, 0, 0] with
    | .ok (it, _, _, _) => decide (it = 2) | _ => false) = true := by decide +kernel

example : (match Solver.GMRES.solve exGm (innerProductSerial id) id 0 exA exP (Solver.GMRES.Work.fresh 3)
      #[1, 2, 3] #[0, 0, 0] with
    | .ok (it, _, _, _) => decide (it = 2) | _ => false) = true := by decide +kernel

example : ∃ ds', drun exCd (Lockstep.Preonly.prog : Prog Rat Unit)
      (distribute exCd.part (Lockstep.Preonly.initState #[1, 2, 3] #[0, 0, 0])) = some ds' ∧
    concatVec (ds'.vec Lockstep.Preonly.vX) = #[1/2, 2/3, 3/2] := by
  obtain ⟨ds', h1, _, h3⟩ := lockstep_preonly_refines_serial exA exP exCd exSetup id 0 #[1, 2, 3] #[0, 0, 0]
    (by decide) (by decide)
  refine ⟨ds', h1, ?_⟩
  rw [h3]
  decide +kernel

end Amgcl.C12
